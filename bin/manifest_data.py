HOOK_COMMITS = ['d56e60a']
NOTES = ('Technique: machine-checked proof in Lean 4 over an executable model tied to /repo on every run by (a) a go/ast extractor '
         'regenerating the constants the model uses and (b) a correspondence check that runs the compiled model and the real code on the '
         'same generated operations; the implementation-side property oracle runs on every generated case. See DESIGN.md.')
NOT_CLAIMED = {}
CLAIMS = {
 'C15': dict(
  technique='Lean 4 theorems over a model of key.go/comparer.go + regenerated constants + function-level differential',
  text=('23 theorems (Props/C15.lean): internal-key encode/parse round trip; icmp is a strict total order for every lawful comparer, user key ascending '
        'then newest first; probe placement in any sorted list; a <= separator(a,b) < b and successor(b) >= b for the index keys the table writer stores; '
        'the built-in bytewise comparer is lawful; an index built from these keys routes every lookup to the right block. Unbounded: all byte strings, all '
        'sequence numbers, every comparer satisfying the stated contract. Tie: key constants regenerated from key.go; 4*10^5 operations per run compared between '
        'iComparer (exported under the verif tag) / comparer.DefaultComparer and the compiled model for five comparers; the order and shortening laws are also '
        'evaluated directly on the implementation for every generated triple.'),
  note=('Trusted: Lean kernel; propext, Classical.choice, Quot.sound; the extractor; the differential harness. The Comparer contract is read as: whenever '
        'Separator(a,b) returns non-nil x for a <= b, a <= x < b (so Separator(a,a) is nil); a comparer violating it is outside the quantifier (Lean: sep_premise_needed).')),
}
