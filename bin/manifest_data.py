HOOK_COMMITS = ['d56e60a', '7a2a016', '5930dfb', '5206d01']
LSM_TIE = ('Tie: every run rebuilds the harness against /repo with -tags verif and executes random single-client programs on the real DB over a recording storage; hook events give '
 'every installed version, flush, table compaction and trivial move, whose table files are read back from storage and sent to the compiled Lean model: each installed version must satisfy Version.wfB, '
 'each flush table must equal the frozen buffer, each compaction must satisfy CompactionOK (inputs closed under user-comparer overlap, outputs = a legal cut of build minSeq base (mergeAll inputs)), '
 'and dbGet on dumped states must answer like DB.Get. The implementation-side oracle (plain map / copies at snapshot creation / structural checker on tables read back) runs on every program. ')
NOTES = ('Technique: machine-checked proof in Lean 4 over an executable model tied to /repo on every run by (a) a go/ast extractor '
         'regenerating the constants the model uses and (b) a correspondence check that runs the compiled model and the real code on the '
         'same generated operations; the implementation-side property oracle runs on every generated case. See DESIGN.md.')
NOT_CLAIMED = {}
CLAIMS = {
 'C04': dict(
  technique='Lean 4 crash-consistency theorem over a record-granular storage/protocol machine + byte-exact codecs + the recovery function replayed on real crash images',
  text=('11 theorems (Props/C04.lean). Byte level: batch and session-record codecs round-trip (Proofs/Batch, Manifest); image_reads_prefix / manifest_image_reads_prefix (a torn or zero-extended journal or manifest image reads back as a prefix of the records written, from the C12 theorems), '
        'torn_manifest_record_no_trace, group_all_or_nothing. Protocol level (Model/Disk, Durable: every storage action of write groups, buffer rotation, memdb flush, manifest append and rotation, recovery itself, crash or clean exit at any point, nested): crash_consistent_core — for every reachable state and EVERY crash image '
        '(per file: synced prefix kept; unsynced tail lost, kept or cut) recovery succeeds, yields exactly a selection of whole issued groups containing every sync-acknowledged one, and the recovered state is reachable again; explicit losing traces for each ordering obligation removed (journal removed before the edit is durable, '
        'rotation without the commit numbers = D2, SetMeta before the manifest sync, torn manifest record keeping its scalars = D22 — found by this model\'s differential and fixed). Tie: record tags and batch header regenerated; per run ~110 000 crash images of real workloads (plain, tiny manifest, large-batch and explicit transactions, CompactRange, a >32 KiB manifest with records straddling block boundaries; nested crashes) are reopened by the real DB and checked against the subset-of-batches oracle, and ~2 000 of them are '
        'decoded and recovered by the compiled Lean model (journals, manifest, table entry lists) whose live contents digest must equal the real DB\'s.'),
  note=('Partial: crash_consistent_full (table compaction and transaction job kinds, which the machine has) is stated and explored by a random explorer but not proved; the byte-to-record refinement of recovery is connected by the four prefix/no-trace lemmas, not end to end; the storage contract (what a crash may do to a file, atomic ordered namespace operations, a failed SetMeta has no effect) is an assumption. '
        'The first-creation window (crash before the first SetMeta: Open refuses, D12) is outside the crash points explored.')),
 'C08': dict(
  technique='Lean 4 fault-safety theorem for the write path of the durable machine (failures with or without effect) + exhaustive single-fault enumeration on the real DB',
  text=('Props/C08.lean: fault_safe_partial — with every journal write/sync allowed to fail with or without effect at any position, the running buffer is exactly the acknowledged groups plus the one being applied, a reopen returns all acknowledged groups and only issued ones, every crash image opens with every sync-acknowledged group; '
        'Tie to the model (trace validation): 200 dedicated fault runs per check (journal Write/Sync failing with or without effect) record every journal operation, its outcome, the bytes that reached the file and the call result; the compiled Dur.step must accept every step (record bytes = the machine\'s group at db.seq+1, no ack before the Sync of a sync write) and predict the contents of the running DB, of a clean reopen and of a crash image (~8 000 driver lines). '
        'd4_loses_acked_write is the explicit losing trace of the code as found (a failed journal write did not consume its sequence numbers — defect D4, found and fixed; the Cfg flag is the regenerated behaviour). The recovery function it relies on is the one tied to the code by C04\'s image differential. '
        'Implementation side, per run ~2 700 fault plans: every class (operation kind x file type x client call in progress) x first/last/random position x with/without effect, bursts, pairs, "all removes fail"; continued use, close/reopen twice, final reopen on a clean clone; oracle: acknowledged writes present, failed writes whole or absent, reads may fail but never disagree, '
        'single-byte damage of table blocks and journal chunks is reported or drops whole batches; watchdog per call. Defects D4 D25 D27 found and fixed here.'),
  note=('Partial: fault_safe_full (flush, compaction, manifest and transaction steps under faults) is stated, not proved. Defect D8 (poisoned manifest writer: the commit retry loop held compCommitLk for good) was found here and repaired. Known findings matched by signature: D10 (a manifest record that reached the file although commit reported failure: Open fails with missing files after Discard/revert), '
        'D26 (SetMeta failing after taking effect). Table Close failures are outside the fault alphabet.')),
 'C19': dict(
  technique='Lean 4 theorems over the rebuild (all tables to level 0, max sequence, journals replayed) + Recover on settled DBs with damaged manifests and blocks',
  text=('3 theorems (Props/C19.lean): recover_rebuilds (for a settled state the rebuilt all-level-0 version with seq = max seen has the same contents), recover_rebuilds_damaged (with unreadable entries: every readable entry without a newer version is returned, nothing invented), rebuilt_lookup_refines_view (via the level-0 max-seq lookup theorem of C01). '
        'Implementation side, per run 8 000 evaluations: settled histories over five comparers, filter on/off, compression on/off, newest writes left in journals; manifest deleted / CURRENT cleared / truncated / garbage; 1-3 damaged data blocks; Recover must succeed, return exactly the plain map (or, with damage, every undamaged newest entry and nothing unwritten), Get must agree with iteration, the DB must be usable afterwards. '
        'Tie to the model: for a sample of the images the journals (bytes) and tables (their readable entries) of the image before Recover go to the compiled model, whose rebuild (Dur recovery over all tables at level 0, max sequence, journals replayed) must give the digest of what the real Recover returned. '
        'Defect D19 (rebuild with the user comparer/filter) found and fixed.'),
  note='Partial: the theorems are stated over the abstract rebuild input (Settled, Uniq hypotheses); recoverTable\'s file handling (rename, temp files) is covered by the implementation-side oracle only.'),

 'C07': dict(
  technique='Lean 4 theorems over a transcription of session.refLoop (message handlers, processTasks) + trace validation of its hook events + storage-contents oracles',
  text=('5 theorem groups (Props/C07.lean) over Model/RefLoop.lean: no_premature_delete (the loop never removes a table that a referenced-and-unreleased version or the current version contains; incl. conversion to full references after '
        'maxCachedNumber versions and the timer), eventual_delete (at quiescence the reference map is exactly the current version and every table that left the version was removed exactly once), delta_once_needed (a table listed twice in a delta '
        'is never removed — defect D13, found and fixed), startup_sweep for checkAndCleanFiles. Environment hypotheses (consecutive version ids, exact duplicate-free deltas) are explicit. Tie: maxCachedNumber regenerated; DB programs with long-held '
        'iterators (>= 300 version changes behind one pin), discarded transactions and reopen; every ref/delta/release/abandon message of the real loop is replayed in the model and the tables it removes must be the tables the real loop removed (~10 000 lines per run); '
        'oracles: held iterators keep their creation-time contents, storage = live set at settled points and after reopen, space is given back after delete-all + CompactRange, no pinned table removed.'),
  note='Physical removal is deferred through the file cache (C17.del_after_last_handle). Abandoned ids and the final release at Close are modelled and trace-checked but not covered by the theorems.'),
 'C09': dict(
  technique='Lean 4 lock-flow model with regenerated release facts (released_on_return, progress, termination measure, close_returns) + fault scripts and Close races under watchdogs',
  text=('26 theorems (Props/C09.lean) over Model/Locks.lean (write-lock token, compCommitLk, compaction command/ack rendezvous with their closeC/error alternatives, every public call as a control-flow graph with ok/fail storage outcomes): for every configuration '
        'whose three release flags are set (code_three_fixed is decided over facts read off the Go AST: Transaction.Commit unlocks compCommitLk on its error return, OpenTransaction returns the token on its error returns, DB.Write discards after a failed commit) '
        'and runs without SetReadOnly: released_on_return, progress (a step is enabled while a call is pending), recovers_after_faults (a measure decreases on every fault-free step), close_returns; explicit hanging runs for each flag unset (leak_commit, leak_opentx, '
        'leak_largebatch: defects D5 D6 D7, found by this check and fixed) and for the SetReadOnly/Close race (leak_setreadonly: defect D23, first derived from this model, then reproduced on the code and fixed); code_all_fixed decides that all four release facts now hold, so the theorems cover every reachable state of the configuration of the code. Tie: the extracted facts; per run ~45 single-client scripts with one injected failure window on journal/manifest/table '
        'create/write/sync/remove and ~25 races of 4-24 clients (Put, large Write, transactions, CompactRange, readers) against one Close; every call under a watchdog; after the faults stop put, transaction, large batch, CompactRange, Get and Close must return.'),
  note=('Partial: liveness is termination under fairness in the model and "returned within the watchdog" on the implementation; timers/back-off are outside the model. '
        'Defect D8 (a failed manifest write poisoned the manifest journal writer and the commit retry loop then held compCommitLk for good) was found by the fault scripts and repaired.')),
 'C11': dict(
  technique='Lean 4 theorems over the interleaving model (transaction steps) + crash images and commit faults around transactions on the real DB',
  text=('5 theorems (Props/C11.lean, over Model/Conc.lean): tr_reads (reads inside see the DB at open plus the private entries), tr_freezes_history, tr_isolation (no reader outside observes a private entry while the transaction is open), tr_commit_atomic (one publication step makes all of them visible), '
        'tr_discard_clean. Tie: the t.open/t.installed/t.publish/t.done hook events of concurrent runs are replayed through Conc.step (C05 trace validation); single-client programs check visibility inside/outside (C01 runner); this check takes crash images around OpenTransaction..Commit/Discard '
        '(bodies spanning several internal flushes, large batches): committed = entirely present in every later image, discarded/in flight = entirely absent or entirely present; no table of a discarded transaction stays on storage; other writers block while it is open; commit faults + Discard + reopen.'),
  note='Known finding D10 (a manifest record that reached the file although commit reported failure, then Discard) is matched by signature; D8 (hang behind a poisoned manifest writer) was repaired. Durability of a committed transaction across crashes is part of C04\'s theorem.'),
 'C14': dict(
  technique='Lean 4 refinement theorem (ideal skip list refines a sorted map and a cursor, for every op sequence and tower height) + state-machine differential against memdb.DB',
  text=('5 theorems (Props/C14.lean): inv_preserved (levels strictly sorted, each a sublist of the one below, level 0 = key domain, n and kvSize exact) for every op and every height in 1..tMaxHeight; memdb_refines_map (Put/Delete/Get/Find/Contains/Len/Size and every iterator call sequence with any range equal the sorted association list / cursor); '
        'concurrent_readers_partial (with atomic method steps: every yielded pair was stored with that value, Next strictly increases). Tie: tMaxHeight and node offsets regenerated; ~1.6 million operations per run on memdb.New over five comparers compared with the compiled model (heights reproduced from the fixed seed); '
        'concurrency oracle: one writer + 4-16 readers, no panic, ordered keys, only stored pairs.'),
  note='Partial: the array encoding of the skip list is abstracted (differential only); Delete/Reset during iteration are outside concurrent_readers_partial (concurrent_readers_full kept as a statement); the Go memory model and RWMutex are assumed.'),
 'C17': dict(
  technique='Lean 4 invariant proofs over an instruction-level interleaving model of cache.go/lru.go + sequential differential + concurrent stress with instrumented values',
  text=('10 theorems (Props/C17.lean): unique_live_value, finalise_once_after_release, del_after_last_handle, lru_capacity (used = sum of sizes <= capacity, banned nodes stay banned), ref_is_count — for any number of threads and handles; explicit counter-example runs for the unguarded Close races. '
        'Tie: hash-table thresholds regenerated; ~10^5 sequential cache operations per run (growth and shrinkage of the table) compared with the compiled model incl. constructor/finaliser/delFunc events, Nodes() and Size(); 1200 concurrent rounds with per-residency oracles (constructor once, finaliser exactly once and never under an outstanding handle, delFunc once). '
        'Defect D24 (force Close racing the last Release finalised twice) was found by the stress and fixed.'),
  note='Partial: the lock-striped resizable hash table is abstracted to a map with atomic per-key steps; finalise_exactly_once_full (at-least-once at quiescence) is kept as a statement and checked by the Go oracle; Close racing a last Release + Get is proved only under the stated guard.'),
 'C18': dict(
  technique='Lean 4 lifecycle table theorems + exhaustive method table on a recording storage',
  text=('18 theorems (Props/C18.lean): single_owner, second_open_refused, available_after_close, openRO_any_journals, closed_is_closed, released_handles, ro_rejects_writes, ro_no_mutation, setReadOnly_quiesces (full: once the pending flush, the running compaction and the pinned deletions have settled, NO event sequence — seek-exhausting reads, tCompaction wake-ups, Close — emits a mutating action, for every configuration whose compaction loop parks on the read-only flag), code_setReadOnly_quiesces (the regenerated fact roCompactionParks, read off tCompaction in the Go AST, puts the code in that class), drain_settles, setReadOnly_quiesces_refuted_without_parking (defect D14: found by this check, repaired), table_sound. '
        'Tie: every public method of DB, Snapshot, Transaction and iterator (checked against reflection) is called in each lifecycle state after random histories (journal-only data, tables, pending frozen buffer, open transaction, live handles) on the recording storage: error class and number of mutating storage operations are compared with the model table (~57 000 lines per run); '
        'lock exclusivity on mem and file storage; read-only open serves the plain map with zero mutating operations; Close races under watchdogs. Defects D14 D15 D18 D28 D29 were found by this check and fixed.'),
  note='Holding an iterator across Close violates Close\'s documented precondition and the shared lock of read-only file storage is by design: both are reported as notes, not violations.'),

 'C10': dict(
  technique='Lean 4 invariant, progress and termination proofs over an interleaving model of the write-merge channel protocol (any number of writers) + trace validation of recorded hook events',
  text=('7 theorem groups (Props/C10.lean) over Model/WriteProto.lean (writers with pcs idle/selecting/waitMerged/waitAck/leader phases flush-merging-journal-apply-publish-rotate-acking, lock competitors, closed and persistent-error flags; '
        'rendezvous steps pair sender and receiver): mutex (one token holder), group_result (a merged writer returns exactly its group\'s result; ok implies journalled and published together), exactly_one_result (counting invariants: '
        'waiters = acks owed / replies pending, returned is absorbing), handoff_exact, no_stuck_state, terminates (a measure decreases on every step: at most 14 N steps, every writer ends with one result) — for any N, incl. runs where Close or a persistent '
        'error arrives at any point and where flush/journal/rotate fail. Tie: every third concurrent scenario (2-32 writers, sizes around the merge limit of small buffers, NoWriteMerge, transaction/CompactRange competitor, failing journal sync, Close in the middle, '
        'GOMAXPROCS 1/2/4/16, yields at the hooks) has its db_write.go hook log replayed through the validator proved sound w.r.t. the step relation (legalStep_sound, runEvents_reach): ~18 000 events per run; the same log is checked directly: one leader at a time, '
        'group members return the leader\'s result, one result per call, acknowledged writes present, failed writes whole or absent.'),
  note='Partial in the usual sense: Go channel semantics are the model\'s rendezvous steps; hook events are logged under one mutex, acquire-like after and release-like before the action. Batches routed through the large-batch transaction path are lock competitors, not protocol writers.'),

 'C02': dict(
  technique='Lean 4 refinement theorems (dbIter / merged / indexed iterators refine a cursor over the sorted live pairs, for every call sequence) + state-machine differential against the real iterators',
  text=('16 theorems (Props/C02.lean): for every lawful comparer, every sorted internal entry list, every snapshot sequence and EVERY finite sequence of First/Last/Seek/Next/Prev, DBIter over the raw list equals the '
        'specification cursor over `visible` (per user key the newest entry at or below the sequence, if a value), with or without a key range; mergedIterator over children with distinct keys and indexedIterator over ordered blocks '
        'refine the cursor over their union/concatenation; level_iter_is_range_filter: the per-level indexed iterator (tFiles.newIndexIterator with searchMax/searchMin cuts and first/last-table slicing) holds exactly the level\'s entries inside the range, also for an inverted range; the whole stack over memdb / frozen / level-0 tables / one indexed iterator per deeper level does; db_iterator_presents_view: over any state satisfying C01.SourcesOK (in newRawIterator order) every call sequence equals the cursor over {(k,v) | view k seq = some v, k in range} = {(k,v) | DB.get k seq = v}; corollaries: each live pair once in increasing order, Seek lands on the first key >= k, deleted/overwritten entries never surface. '
        'Tie: thousands of iterator states per run (merged, indexed, DB/snapshot/transaction iterators over multi-level DBs, three comparers, ranges) are driven through random walks on the real code and on the compiled model; '
        'every answer is also compared with the specification cursor directly on the implementation.'),
  note='Trusted: Lean kernel; propext, Classical.choice, Quot.sound; harness. Abstracted (differential only): blockIter offset arithmetic, the heap inside mergedIterator, error/strict paths, Release, sampling.'),
 'C05': dict(
  technique='Lean 4 invariant proofs over an interleaving model of the critical sections (any number of readers/writers) + trace validation of real concurrent runs + linearizability-consequence oracles under stretched windows',
  text=('20 theorems (Props/C05.lean) over Model/Conc.lean, whose atomic steps are the code\'s critical sections (group insert, publish, rotate, flush install, frozen drop, compaction start/commit, snapshot acquire/release, '
        'reader seq/mems/version/lookup, transaction open/put/install/publish/discard): pub and hist monotone; cover invariant; every read returns view hist at the pub value of its rSeq step (read_linearizable), for every reachable '
        'state and any interleaving; one publication step per group (batch_atomic); real_time_order; snapshot_stable / iterator_stable; and explicit counter-example traces for the three reorderings that break it (frozen drop before '
        'install, version before buffers, transaction over a pending frozen buffer). Tie: concurrent scenarios on the real DB (1-6 writers, readers, snapshot/iterator users, CompactRange, transactions, GOMAXPROCS 1/2/4/16, random '
        'verif yield points sleeping); the recorded synchronisation events of every second scenario are replayed through the executable step function (each must be enabled); oracles on the implementation: consistent cut in '
        'snapshots/iterators, no older state after a newer one, monotone reads, acknowledged => visible, nothing from the future.'),
  note=('Partial: the proof is about interleavings of the modelled atomic steps; that the Go runtime makes those sections atomic (mutexes, sync/atomic) and that no access happens outside them is assumed. '
        'Reader steps are validated only for their order in the source (hook placement), writer/flush/compaction/transaction steps from the recorded log.')),
 'C12': dict(
  technique='Lean 4 theorems over a byte-exact model of journal.Writer/Reader + CRC32C from the polynomial + regenerated constants + byte-exact differential',
  text=('14 theorems (Props/C12.lean): decode (all four strict/checksum modes) of encode rs = rs for every record list; the mutable Writer machine refines the functional encoder under any flush pattern and its output only grows; '
        'encode is append-only; altering one byte changes CRC32C and its mask (crc_single_byte, from injectivity of the table step decided over all 256 entries with decide +kernel); for every truncation offset the reader returns exactly the '
        'records wholly inside, plus at most one drop (strict: one corruption error); zero tails change nothing in tolerant mode; damage confined to one block whose first altered chunk is rejected loses only records with a chunk in that '
        'block and invents none. Tie: block/header sizes, chunk codes and the CRC mask expression are regenerated from journal.go/crc32.go; ~18 000 (program, mutation) cases per run compared byte-exactly between journal.Writer/Reader and '
        'the compiled model incl. truncation sweeps; oracles on the implementation: round trip, prefix under truncation, subsequence + block-locality under damage, no panic.'),
  note='Partial: multi-position damage and damage to the unchecksummed length bytes are covered under the explicit hypothesis that the altered chunk is rejected (CRC32 is not collision-free); decode_damage_full is kept as an unproved statement.'),
 'C13': dict(
  technique='Lean 4 theorems over a byte-exact model of table.Writer/Reader (blocks, filter block, index, footer) + byte-exact differential and single-byte damage enumeration',
  text=('10 theorems (Props/C13.lean): block decode(build) = id for every restart interval; block seek = first entry >= key; entries(open(write kvs)) = kvs for every block size/restart interval/filter setting; find/get through index and '
        'data block incl. the fall-through equal the specification; offsetOf monotone; filter_partition (keys of the block starting at offset o are in the filter selected by o >> baseLg) and filtered find of a stored key never misses '
        'for a lawful filter; table_range_spec: the range iterator with ANY bounds (inverted, outside the key range) returns exactly the stored pairs with start <= key < limit; any single-byte alteration of a verified block is rejected by readRawBlock (over an abstract checksum with the single-byte property proved for CRC32C in C12). Tie: format constants regenerated; per run '
        '200 tables (thorough 4000): uncompressed ones compared byte for byte with the real writer, Snappy-compressed ones (every third) read by the model through its own Snappy block decoder (Model/Snappy.lean, mirrors decode_other.go); all reader operations compared on both cached and uncached readers, thousands of damaged files; 1500 hand-built / encoder-made / damaged Snappy streams decoded by snappy.Decode and by the model.'),
  note='Partial: the Snappy ENCODER is outside the model (compressed tables are tied on the reader side only; the theorems are about uncompressed tables); blockIter movement arithmetic is abstracted to a cursor (C02).'),
 'C16': dict(
  technique='Lean 4 theorems over a bit-exact model of util.Hash and the bloom filter + regenerated constants/expressions + byte-exact differential; DB programs replayed under different filter settings',
  text=('9 theorems (Props/C16.lean): bloom_no_false_negative for every bits-per-key and key set whose bit count does not hit the uint32 wrap window (exactly where Generate panics), bloom_lawful, the iFilter wrapper preserves lawfulness, '
        'k in 1..30; the rotation used by Contains and Generate are the same generated expression (rfl). With C13.table_filtered_find_stored a filtered lookup of a stored key never reports absent. Tie: hash multiplier/shift, bloom seed, '
        'rotations and k formula are printed from the Go AST; ~29 000 cases per run compare util.Hash, Generate output bytes and Contains with the compiled model; DB programs are replayed under four filter settings and must give identical read transcripts.'),
  note='Trusted: Lean kernel; propext, Classical.choice, Quot.sound; extractor; harness. A user-supplied filter policy must itself have no false negatives and produce non-empty filters (LawfulFilter, GenNonempty).'),
 'C20': dict(
  technique='Lean 4 noninterference theorem over an ownership model whose copy/alias configuration is read off the Go AST + poisoning differential on the real DB',
  text=('12 theorems (Props/C20.lean): when every boundary path copies (Cfg.safe), for EVERY program of puts, flushes, gets, iterator reads and caller scribbles over any buffer the caller owns, the outputs equal those of the same program '
        'without scribbling (noninterference); arguments are not retained; results are private fresh cells; each of the four alias configurations has an explicit violating program (alias_table_get_breaks is defect D9, found and fixed). '
        'code_safe is decided over facts regenerated from the source on every run: Batch.appendRec and memdb.Put copy, DB.get copies memdb hits, table.Reader.find always copies, dbIter.next/prev copy. Tie: those extracted facts, plus C01-style '
        'programs on the real DB with poisoning of every argument and result buffer over pool x cache x compression.'),
  note='Partial: which Go expression aliases which buffer is an AST-level reading (patterns: append([]byte(nil), x...), append(buf[:0], x...), copy(dst, x)); no proof connects it to the compiler\'s view of memory. Batch.Load/Dump documented aliases are outside the property.'),

 'C01': dict(
  technique='Lean 4 refinement theorem (lookup = plain map) + trace validation of real runs + plain-map oracle',
  text=('17 theorems. Props/C01Seq.lean: for EVERY interleaving of client operations (put, delete, batch, get, has, snapshot acquire/read/release) with adversarially scheduled background steps (rotate, flush, any compaction edit satisfying CompactionOK with minSeq <= every snapshot, trivial moves), the outputs of the LSM model equal those of a plain association-list map (run_refines_spec; get_refines_map, has_iff_get, snapshot_frozen, inv_preserved). Props/C01.lean: memGet, level-0 (max-seq) lookup, sorted-level lookup, version.get and DB.get each equal `newest`/`view` over all entries for every lawful comparer, every '
        'well-formed version and every sequence number (lookup_refines_view); has_iff_get. Together with C03/C06 (every installed version is well formed and flush/compaction preserve views) the answers of a '
        'sequential client are those of a plain map whatever the layout. ' + LSM_TIE),
  note=('Trusted: Lean kernel; propext, Classical.choice, Quot.sound; the hooks and the harness. The model treats a table as its entry list (C13 ties files to entry lists) and the memdb as a sorted list (C14). '
        'Close/reopen is covered by the implementation-side oracle here and by C04 for crash images. Source ordering hypotheses (SourcesOK) are checked on every dumped state by the structural oracle, not proved for concurrent dumps.')),
 'C03': dict(
  technique='Lean 4 theorems (compaction builder preserves every view at or above minSeq; snapshot_stable over the interleaving model) + trace validation + frozen-copy oracle',
  text=('19 theorems: Props/C01Seq.snapshot_frozen (a snapshot read returns the plain-map contents at acquisition whatever writes, rotations, flushes, compactions and moves happen in between; release_keeps_get) and Props/C03.lean: mergeAll is a sorted permutation of the inputs; build (tableCompactionBuilder.run, rules A and B) returns a sorted sublist and preserves `view` for every reader at s >= minSeq given the '
        'base-level side condition; compaction/trivial move/flush edits and any chain of them preserve every such view and version.get; plus C05.snapshot_stable/iterator_stable over the interleaving model. ' + LSM_TIE +
        'minSeq of every real compaction is checked against the snapshots the client holds.'),
  note='Trusted: as C01. The theorem is about readers at or above minSeq; that goleveldb computes minSeq as the oldest registered snapshot is checked per compaction event, iterators are covered by version pinning (C07).'),
 'C06': dict(
  technique='Lean 4 invariant theorems (well-formedness preserved by flush/compaction/move edits) + per-install trace validation + structural checker on real table files',
  text=('10 theorems (Props/C06.lean): Version.wfB characterised; preserved by a flush at level 0 (or deeper without overlap), by a compaction edit satisfying CompactionOK, by a trivial move; getOverlaps (sorted branch with the user comparer, '
        'and the level-0 closure loop) meet their specifications; counterexamples show each hypothesis is needed (incl. the bytes.Compare defect D1, now fixed). ' + LSM_TIE),
  note='Trusted: as C01. File existence and recorded size are checked by the implementation-side oracle against the recording storage; Recover-produced versions are covered by C19.'),

 'C15': dict(
  technique='Lean 4 theorems over a model of key.go/comparer.go + regenerated constants + function-level differential',
  text=('23 theorems (Props/C15.lean): internal-key encode/parse round trip; icmp is a strict total order for every lawful comparer, user key ascending '
        'then newest first; probe placement in any sorted list; a <= separator(a,b) < b and successor(b) >= b for the index keys the table writer stores; '
        'the built-in bytewise comparer is lawful; an index built from these keys routes every lookup to the right block. Unbounded: all byte strings, all '
        'sequence numbers, every comparer satisfying the stated contract. Tie: key constants regenerated from key.go; 4*10^5 operations per run compared between '
        'iComparer (exported under the verif tag) / comparer.DefaultComparer and the compiled model for five comparers; the order and shortening laws are also '
        'evaluated directly on the implementation for every generated triple.'),
  note=('Trusted: Lean kernel; propext, Classical.choice, Quot.sound; the extractor; the differential harness. The Comparer contract is read as: whenever '
        'Separator(a,b) returns non-nil x for a <= b, a <= x < b (so Separator(a,a) is nil); a comparer violating it is outside the quantifier (Lean: sep_premise_needed).')),
}
