HOOK_COMMITS = ['d56e60a']
LSM_TIE = ('Tie: every run rebuilds the harness against /repo with -tags verif and executes random single-client programs on the real DB over a recording storage; hook events give '
 'every installed version, flush, table compaction and trivial move, whose table files are read back from storage and sent to the compiled Lean model: each installed version must satisfy Version.wfB, '
 'each flush table must equal the frozen buffer, each compaction must satisfy CompactionOK (inputs closed under user-comparer overlap, outputs = a legal cut of build minSeq base (mergeAll inputs)), '
 'and dbGet on dumped states must answer like DB.Get. The implementation-side oracle (plain map / copies at snapshot creation / structural checker on tables read back) runs on every program. ')
NOTES = ('Technique: machine-checked proof in Lean 4 over an executable model tied to /repo on every run by (a) a go/ast extractor '
         'regenerating the constants the model uses and (b) a correspondence check that runs the compiled model and the real code on the '
         'same generated operations; the implementation-side property oracle runs on every generated case. See DESIGN.md.')
NOT_CLAIMED = {}
CLAIMS = {
 'C01': dict(
  technique='Lean 4 refinement theorem (lookup = plain map) + trace validation of real runs + plain-map oracle',
  text=('7 theorems (Props/C01.lean): memGet, level-0 (max-seq) lookup, sorted-level lookup, version.get and DB.get each equal `newest`/`view` over all entries for every lawful comparer, every '
        'well-formed version and every sequence number (lookup_refines_view); has_iff_get. Together with C03/C06 (every installed version is well formed and flush/compaction preserve views) the answers of a '
        'sequential client are those of a plain map whatever the layout. ' + LSM_TIE),
  note=('Trusted: Lean kernel; propext, Classical.choice, Quot.sound; the hooks and the harness. The model treats a table as its entry list (C13 ties files to entry lists) and the memdb as a sorted list (C14). '
        'Close/reopen is covered by the implementation-side oracle here and by C04 for crash images. Source ordering hypotheses (SourcesOK) are checked on every dumped state by the structural oracle, not proved for concurrent dumps.')),
 'C03': dict(
  technique='Lean 4 theorems (compaction builder preserves every view at or above minSeq; snapshot_stable over the interleaving model) + trace validation + frozen-copy oracle',
  text=('9 theorems (Props/C03.lean): mergeAll is a sorted permutation of the inputs; build (tableCompactionBuilder.run, rules A and B) returns a sorted sublist and preserves `view` for every reader at s >= minSeq given the '
        'base-level side condition; compaction/trivial move/flush edits and any chain of them preserve every such view and version.get; plus C05.snapshot_stable/iterator_stable over the interleaving model. ' + LSM_TIE +
        'minSeq of every real compaction is checked against the snapshots the client holds.'),
  note='Trusted: as C01. The theorem is about readers at or above minSeq; that goleveldb computes minSeq as the oldest registered snapshot is checked per compaction event, iterators are covered by version pinning (C07).'),
 'C06': dict(
  technique='Lean 4 invariant theorems (well-formedness preserved by flush/compaction/move edits) + per-install trace validation + structural checker on real table files',
  text=('10 theorems (Props/C06.lean): Version.wfB characterised; preserved by a flush at level 0 (or deeper without overlap), by a compaction edit satisfying CompactionOK, by a trivial move; getOverlaps (sorted branch with the user comparer, '
        'and the level-0 closure loop) meet their specifications; counterexamples show each hypothesis is needed (incl. the bytes.Compare defect D1, now fixed). ' + LSM_TIE),
  note='Trusted: as C01. File existence and recorded size are checked by the implementation-side oracle against the recording storage; Recover-produced versions are covered by C19.'),

 'C15': dict(
  technique='Lean 4 theorems over a model of key.go/comparer.go + regenerated constants + function-level differential',
  text=('23 theorems (Props/C15.lean): internal-key encode/parse round trip; icmp is a strict total order for every lawful comparer, user key ascending '
        'then newest first; probe placement in any sorted list; a <= separator(a,b) < b and successor(b) >= b for the index keys the table writer stores; '
        'the built-in bytewise comparer is lawful; an index built from these keys routes every lookup to the right block. Unbounded: all byte strings, all '
        'sequence numbers, every comparer satisfying the stated contract. Tie: key constants regenerated from key.go; 4*10^5 operations per run compared between '
        'iComparer (exported under the verif tag) / comparer.DefaultComparer and the compiled model for five comparers; the order and shortening laws are also '
        'evaluated directly on the implementation for every generated triple.'),
  note=('Trusted: Lean kernel; propext, Classical.choice, Quot.sound; the extractor; the differential harness. The Comparer contract is read as: whenever '
        'Separator(a,b) returns non-nil x for a <= b, a <= x < b (so Separator(a,a) is nil); a comparer violating it is outside the quantifier (Lean: sep_premise_needed).')),
}
