// extract regenerates lean/GoLevel/Gen/Consts.lean (constants, enum codes and a few
// straight-line unsigned expressions) and gen/fingerprints.json (hash of the normalised body of
// every modelled function) from the working tree of the repository.
//
// It only uses go/parser, go/ast, go/constant, go/printer and go/token, so it works offline.
//
//	extract -repo /repo -lean /verif/lean/GoLevel/Gen/Consts.lean -fp /verif/gen/fingerprints.json
package main

import (
	"bytes"
	"crypto/sha256"
	"encoding/hex"
	"encoding/json"
	"flag"
	"fmt"
	"go/ast"
	"go/constant"
	"go/parser"
	"go/printer"
	"go/token"
	"os"
	"path/filepath"
	"sort"
	"strconv"
	"strings"
)

type fileInfo struct {
	fset *token.FileSet
	f    *ast.File
}

var (
	repo  string
	files = map[string]*fileInfo{}
)

func load(rel string) *fileInfo {
	if fi, ok := files[rel]; ok {
		return fi
	}
	fset := token.NewFileSet()
	f, err := parser.ParseFile(fset, filepath.Join(repo, rel), nil, parser.ParseComments)
	if err != nil {
		fatal("parse %s: %v", rel, err)
	}
	fi := &fileInfo{fset, f}
	files[rel] = fi
	return fi
}

func fatal(format string, a ...interface{}) {
	fmt.Fprintf(os.Stderr, "extract: "+format+"\n", a...)
	os.Exit(2)
}

// ---------------------------------------------------------------------------------------------
// constant evaluation

type env map[string]constant.Value

func evalConst(e ast.Expr, en env, iota int) (constant.Value, error) {
	switch x := e.(type) {
	case *ast.BasicLit:
		v := constant.MakeFromLiteral(x.Value, x.Kind, 0)
		if v.Kind() == constant.Unknown {
			return nil, fmt.Errorf("bad literal %s", x.Value)
		}
		return v, nil
	case *ast.Ident:
		if x.Name == "iota" {
			return constant.MakeInt64(int64(iota)), nil
		}
		if v, ok := en[x.Name]; ok {
			return v, nil
		}
		return nil, fmt.Errorf("unknown identifier %s", x.Name)
	case *ast.ParenExpr:
		return evalConst(x.X, en, iota)
	case *ast.SelectorExpr:
		// time.Minute etc. are not needed; opt.KiB style qualified names
		if v, ok := en[x.Sel.Name]; ok {
			return v, nil
		}
		return nil, fmt.Errorf("unknown selector %s", x.Sel.Name)
	case *ast.CallExpr:
		// conversion T(x) with one argument: value-preserving for the constants we read
		if len(x.Args) == 1 {
			return evalConst(x.Args[0], en, iota)
		}
		return nil, fmt.Errorf("call in constant expression")
	case *ast.UnaryExpr:
		v, err := evalConst(x.X, en, iota)
		if err != nil {
			return nil, err
		}
		return constant.UnaryOp(x.Op, v, 0), nil
	case *ast.BinaryExpr:
		a, err := evalConst(x.X, en, iota)
		if err != nil {
			return nil, err
		}
		b, err := evalConst(x.Y, en, iota)
		if err != nil {
			return nil, err
		}
		switch x.Op {
		case token.SHL, token.SHR:
			s, ok := constant.Uint64Val(b)
			if !ok {
				return nil, fmt.Errorf("bad shift")
			}
			return constant.Shift(a, x.Op, uint(s)), nil
		case token.QUO:
			if a.Kind() == constant.Int && b.Kind() == constant.Int {
				return constant.BinaryOp(a, token.QUO_ASSIGN, b), nil
			}
		}
		return constant.BinaryOp(a, x.Op, b), nil
	}
	return nil, fmt.Errorf("unsupported constant expression %T", e)
}

// constsOf evaluates every const (and simple var with constant initialiser) of a declaration list.
func constsOf(decls []ast.Decl, en env, withVars bool) {
	for _, d := range decls {
		gd, ok := d.(*ast.GenDecl)
		if !ok || (gd.Tok != token.CONST && !(withVars && gd.Tok == token.VAR)) {
			continue
		}
		var lastVals []ast.Expr
		for i, s := range gd.Specs {
			vs := s.(*ast.ValueSpec)
			vals := vs.Values
			if gd.Tok == token.CONST {
				if len(vals) == 0 {
					vals = lastVals
				} else {
					lastVals = vals
				}
			}
			for j, n := range vs.Names {
				if j >= len(vals) {
					continue
				}
				v, err := evalConst(vals[j], en, i)
				if err == nil {
					en[n.Name] = v
				}
			}
		}
	}
}

func pkgEnv(rel string, base env) env {
	en := env{}
	for k, v := range base {
		en[k] = v
	}
	constsOf(load(rel).f.Decls, en, true)
	return en
}

func findFunc(rel, name string) *ast.FuncDecl {
	// name is "Func" or "Recv.Method"
	for _, d := range load(rel).f.Decls {
		fd, ok := d.(*ast.FuncDecl)
		if !ok {
			continue
		}
		n := fd.Name.Name
		if fd.Recv != nil && len(fd.Recv.List) == 1 {
			t := fd.Recv.List[0].Type
			if st, ok := t.(*ast.StarExpr); ok {
				t = st.X
			}
			if id, ok := t.(*ast.Ident); ok {
				n = id.Name + "." + n
			}
		}
		if n == name {
			return fd
		}
	}
	return nil
}

func localEnv(rel, fn string, base env) env {
	fd := findFunc(rel, fn)
	if fd == nil {
		fatal("function %s not found in %s", fn, rel)
	}
	en := env{}
	for k, v := range base {
		en[k] = v
	}
	ast.Inspect(fd.Body, func(n ast.Node) bool {
		if ds, ok := n.(*ast.DeclStmt); ok {
			constsOf([]ast.Decl{ds.Decl}, en, false)
		}
		return true
	})
	return en
}

// ---------------------------------------------------------------------------------------------
// expression translation (straight-line unsigned arithmetic → Lean)

func leanExpr(e ast.Expr, en env, rename map[string]string) string {
	switch x := e.(type) {
	case *ast.BasicLit:
		v := constant.MakeFromLiteral(x.Value, x.Kind, 0)
		return v.ExactString()
	case *ast.Ident:
		if r, ok := rename[x.Name]; ok {
			return r
		}
		if v, ok := en[x.Name]; ok {
			return v.ExactString()
		}
		fatal("leanExpr: free identifier %s", x.Name)
	case *ast.ParenExpr:
		return leanExpr(x.X, en, rename)
	case *ast.CallExpr:
		if len(x.Args) == 1 { // conversion between unsigned types of the same width, as used here
			return leanExpr(x.Args[0], en, rename)
		}
	case *ast.BinaryExpr:
		op := map[token.Token]string{
			token.SHL: "<<<", token.SHR: ">>>", token.OR: "|||", token.XOR: "^^^", token.AND: "&&&",
			token.ADD: "+", token.MUL: "*", token.SUB: "-", token.QUO: "/", token.REM: "%",
		}[x.Op]
		if op == "" {
			fatal("leanExpr: operator %s", x.Op)
		}
		return "(" + leanExpr(x.X, en, rename) + " " + op + " " + leanExpr(x.Y, en, rename) + ")"
	}
	fatal("leanExpr: unsupported %T", e)
	return ""
}

// rhsOf returns the right-hand side of the first assignment/definition `lhs := …` (or the single
// return expression when lhs == "return") in the function.
func rhsOf(rel, fn, lhs string) ast.Expr {
	fd := findFunc(rel, fn)
	if fd == nil {
		fatal("function %s not found in %s", fn, rel)
	}
	var out ast.Expr
	ast.Inspect(fd.Body, func(n ast.Node) bool {
		if out != nil {
			return false
		}
		switch s := n.(type) {
		case *ast.AssignStmt:
			if len(s.Lhs) == 1 && len(s.Rhs) == 1 {
				if id, ok := s.Lhs[0].(*ast.Ident); ok && id.Name == lhs {
					out = s.Rhs[0]
				}
			}
		case *ast.ReturnStmt:
			if lhs == "return" && len(s.Results) == 1 {
				out = s.Results[0]
			}
		}
		return true
	})
	if out == nil {
		fatal("no assignment to %s in %s:%s", lhs, rel, fn)
	}
	return out
}

// callArg returns the idx-th argument of the first call to callee inside fn.
func callArg(rel, fn, callee string, idx int) ast.Expr {
	fd := findFunc(rel, fn)
	if fd == nil {
		fatal("function %s not found in %s", fn, rel)
	}
	var out ast.Expr
	ast.Inspect(fd.Body, func(n ast.Node) bool {
		if ce, ok := n.(*ast.CallExpr); ok && out == nil {
			var buf bytes.Buffer
			printer.Fprint(&buf, token.NewFileSet(), ce.Fun)
			if buf.String() == callee && idx < len(ce.Args) {
				out = ce.Args[idx]
			}
		}
		return true
	})
	if out == nil {
		fatal("no call to %s in %s:%s", callee, rel, fn)
	}
	return out
}

// ---------------------------------------------------------------------------------------------
// copy/alias facts (C20): does a boundary path copy the bytes it moves?

func exprString(e ast.Expr) string {
	var buf bytes.Buffer
	printer.Fprint(&buf, token.NewFileSet(), e)
	return buf.String()
}

// isFreshCopy: append([]byte(nil), x...) or append(buf[:0], x...)
func isFreshCopy(e ast.Expr) bool {
	ce, ok := e.(*ast.CallExpr)
	if !ok || exprString(ce.Fun) != "append" || len(ce.Args) != 2 || !ce.Ellipsis.IsValid() {
		return false
	}
	a0 := exprString(ce.Args[0])
	return a0 == "[]byte(nil)" || strings.HasSuffix(a0, "[:0]")
}

// allAssignsCopy: every assignment to lhs inside fn whose right-hand side is not nil is a fresh copy;
// at least one such assignment must exist.
func allAssignsCopy(rel, fn, lhs string) bool {
	fd := findFunc(rel, fn)
	if fd == nil {
		fatal("function %s not found in %s", fn, rel)
	}
	n, ok := 0, true
	ast.Inspect(fd.Body, func(nd ast.Node) bool {
		as, is := nd.(*ast.AssignStmt)
		if !is || len(as.Lhs) != len(as.Rhs) {
			return true
		}
		for i, l := range as.Lhs {
			if exprString(l) != lhs {
				continue
			}
			if exprString(as.Rhs[i]) == "nil" {
				continue
			}
			n++
			if !isFreshCopy(as.Rhs[i]) {
				ok = false
			}
		}
		return true
	})
	return ok && n > 0
}

// allReturnsOfCopy: every return whose first result mentions ident is a fresh copy of it.
func allReturnsOfCopy(rel, fn, ident string) bool {
	fd := findFunc(rel, fn)
	if fd == nil {
		fatal("function %s not found in %s", fn, rel)
	}
	n, ok := 0, true
	ast.Inspect(fd.Body, func(nd ast.Node) bool {
		rs, is := nd.(*ast.ReturnStmt)
		if !is || len(rs.Results) == 0 {
			return true
		}
		s := exprString(rs.Results[0])
		if !strings.Contains(s, ident) {
			return true
		}
		n++
		if !isFreshCopy(rs.Results[0]) {
			ok = false
		}
		return true
	})
	return ok && n > 0
}

// callsWithArg counts calls callee(…, arg, …) inside fn.
func callsWithArg(rel, fn, callee, arg string) int {
	fd := findFunc(rel, fn)
	if fd == nil {
		fatal("function %s not found in %s", fn, rel)
	}
	n := 0
	ast.Inspect(fd.Body, func(nd ast.Node) bool {
		ce, is := nd.(*ast.CallExpr)
		if !is || exprString(ce.Fun) != callee {
			return true
		}
		for _, a := range ce.Args {
			if exprString(a) == arg {
				n++
			}
		}
		return true
	})
	return n
}

// countStmts counts the statements of fn whose source text (single line, gofmt style) equals text.
// fileHas: the source file contains the text
func fileHas(rel, text string) bool {
	b, err := os.ReadFile(filepath.Join(repo, rel))
	if err != nil {
		fatal("cannot read %s: %v", rel, err)
	}
	return strings.Contains(string(b), text)
}

func countStmts(rel, fn, text string) int {
	fd := findFunc(rel, fn)
	if fd == nil {
		fatal("function %s not found in %s", fn, rel)
	}
	n := 0
	ast.Inspect(fd.Body, func(nd ast.Node) bool {
		if st, ok := nd.(ast.Stmt); ok {
			if _, isBlock := st.(*ast.BlockStmt); !isBlock {
				var buf bytes.Buffer
				printer.Fprint(&buf, token.NewFileSet(), st)
				if strings.TrimSpace(buf.String()) == text {
					n++
				}
			}
		}
		return true
	})
	return n
}

// ifBodyHas: fn contains an `if` whose condition (or init; cond) text contains condPart and whose body
// contains a statement with exactly the text stmt.
func ifBodyHas(rel, fn, condPart, stmt string) bool {
	fd := findFunc(rel, fn)
	if fd == nil {
		fatal("function %s not found in %s", fn, rel)
	}
	found := false
	ast.Inspect(fd.Body, func(nd ast.Node) bool {
		is, ok := nd.(*ast.IfStmt)
		if !ok {
			return true
		}
		var hd bytes.Buffer
		if is.Init != nil {
			printer.Fprint(&hd, token.NewFileSet(), is.Init)
			hd.WriteString("; ")
		}
		printer.Fprint(&hd, token.NewFileSet(), is.Cond)
		if !strings.Contains(hd.String(), condPart) {
			return true
		}
		for _, st := range is.Body.List {
			var buf bytes.Buffer
			printer.Fprint(&buf, token.NewFileSet(), st)
			if strings.TrimSpace(buf.String()) == stmt {
				found = true
			}
		}
		return true
	})
	return found
}

// ifBodySeq: fn contains an `if` whose condition text contains condPart and whose body has, among its top-level
// statements and in this order, statements with the texts pats[0], pats[1], … (a pattern ending in "…" matches a
// statement that starts with the text before it).
func ifBodySeq(rel, fn, condPart string, pats []string) bool {
	fd := findFunc(rel, fn)
	if fd == nil {
		fatal("function %s not found in %s", fn, rel)
	}
	found := false
	ast.Inspect(fd.Body, func(nd ast.Node) bool {
		is, ok := nd.(*ast.IfStmt)
		if !ok {
			return true
		}
		var hd bytes.Buffer
		if is.Init != nil {
			printer.Fprint(&hd, token.NewFileSet(), is.Init)
			hd.WriteString("; ")
		}
		printer.Fprint(&hd, token.NewFileSet(), is.Cond)
		if !strings.Contains(hd.String(), condPart) {
			return true
		}
		k := 0
		for _, st := range is.Body.List {
			if k == len(pats) {
				break
			}
			var buf bytes.Buffer
			printer.Fprint(&buf, token.NewFileSet(), st)
			t := strings.TrimSpace(buf.String())
			pat := pats[k]
			if t == pat || (strings.HasSuffix(pat, "…") && strings.HasPrefix(t, strings.TrimSuffix(pat, "…"))) {
				k++
			}
		}
		if k == len(pats) {
			found = true
		}
		return true
	})
	return found
}

// topStmtSeq: among the top-level statements of fn, statements with the texts pats[0], pats[1], … occur in this
// order (a pattern ending in "…" matches a statement that starts with the text before it).
func topStmtSeq(rel, fn string, pats []string) bool {
	fd := findFunc(rel, fn)
	if fd == nil {
		fatal("function %s not found in %s", fn, rel)
	}
	k := 0
	for _, st := range fd.Body.List {
		if k == len(pats) {
			break
		}
		var buf bytes.Buffer
		printer.Fprint(&buf, token.NewFileSet(), st)
		t := strings.TrimSpace(buf.String())
		pat := pats[k]
		if t == pat || (strings.HasSuffix(pat, "…") && strings.HasPrefix(t, strings.TrimSuffix(pat, "…"))) {
			k++
		}
	}
	return k == len(pats)
}

// lockCovers: in fn's body (top-level statements), mu is locked by a statement `<mu>.Lock()` or `<mu>.RLock()`
// and every top-level statement that mentions one of the shared names lies after it and before the matching
// explicit unlock — or anywhere after it when the statement following the lock is `defer <mu>.(R)Unlock()`.
// No other lock/unlock of mu may appear anywhere in the body.
func lockCovers(rel, fn, mu string, shared []string) bool {
	fd := findFunc(rel, fn)
	if fd == nil {
		fatal("function %s not found in %s", fn, rel)
	}
	text := func(n ast.Node) string {
		var buf bytes.Buffer
		printer.Fprint(&buf, token.NewFileSet(), n)
		return strings.TrimSpace(buf.String())
	}
	lockAt, unlockAt, deferred := -1, -1, false
	stmts := fd.Body.List
	for i, st := range stmts {
		t := text(st)
		switch {
		case t == mu+".Lock()" || t == mu+".RLock()":
			if lockAt >= 0 {
				return false
			}
			lockAt = i
		case t == "defer "+mu+".Unlock()" || t == "defer "+mu+".RUnlock()":
			if lockAt < 0 || i != lockAt+1 || deferred {
				return false
			}
			deferred = true
		case t == mu+".Unlock()" || t == mu+".RUnlock()":
			if lockAt < 0 || unlockAt >= 0 || deferred {
				return false
			}
			unlockAt = i
		}
	}
	if lockAt < 0 || (!deferred && unlockAt < 0) {
		return false
	}
	// no lock operation hidden in nested statements
	if strings.Count(text(fd.Body), mu+".") != 2 {
		return false
	}
	for i, st := range stmts {
		t := text(st)
		uses := false
		for _, sh := range shared {
			if strings.Contains(t, sh) {
				uses = true
			}
		}
		if !uses {
			continue
		}
		if i <= lockAt || (!deferred && i >= unlockAt) {
			return false
		}
	}
	return true
}

// textBefore: in the printed body of fn, the first occurrence of a comes before the first occurrence of b (both present).
func textBefore(rel, fn, a, b string) bool {
	t := funcText(rel, fn)
	i, j := strings.Index(t, a), strings.Index(t, b)
	return i >= 0 && j >= 0 && i < j
}

// topStmtBefore: among the top-level statements of fn, one with exactly the text a comes before one with exactly the text b,
// and neither text occurs at top level more than once.
func topStmtBefore(rel, fn, a, b string) bool {
	fd := findFunc(rel, fn)
	if fd == nil {
		fatal("function %s not found in %s", fn, rel)
	}
	ia, ib, na, nb := -1, -1, 0, 0
	for i, st := range fd.Body.List {
		var buf bytes.Buffer
		printer.Fprint(&buf, token.NewFileSet(), st)
		switch strings.TrimSpace(buf.String()) {
		case a:
			ia = i
			na++
		case b:
			ib = i
			nb++
		}
	}
	return na == 1 && nb == 1 && ia < ib
}

// ---------------------------------------------------------------------------------------------
// the goroutine compactionError as a state machine (C09/C18, Model/CompErr.lean)

// ifBodyHasLoopMark: the text starts with `for _, fd := range all {` and its first statement is `s.markFileNum(fd.Num)`.
func ifBodyHasLoopMark(t string) bool {
	f := strings.Fields(t)
	return strings.HasPrefix(strings.Join(f, " "), "for _, fd := range all { s.markFileNum(fd.Num) }")
}

func stmtText(n ast.Node) string {
	var buf bytes.Buffer
	// comments attached to declarations inside the node are not part of the statement
	ast.Inspect(n, func(x ast.Node) bool {
		switch d := x.(type) {
		case *ast.GenDecl:
			d.Doc = nil
		case *ast.ValueSpec:
			d.Doc, d.Comment = nil, nil
		case *ast.TypeSpec:
			d.Doc, d.Comment = nil, nil
		case *ast.Field:
			d.Doc, d.Comment = nil, nil
		}
		return true
	})
	printer.Fprint(&buf, token.NewFileSet(), n)
	// a doc comment attached to a declaration statement is printed with it: drop whole-line comments
	var keep []string
	for _, ln := range strings.Split(buf.String(), "\n") {
		if !strings.HasPrefix(strings.TrimSpace(ln), "//") {
			keep = append(keep, ln)
		}
	}
	return strings.Join(strings.Fields(strings.Join(keep, "\n")), " ")
}

// selectCases returns the comm clauses of the single `select` that is the whole body of `for { select { … } }`.
func forSelect(st ast.Stmt) *ast.SelectStmt {
	fs, ok := st.(*ast.ForStmt)
	if !ok || fs.Init != nil || fs.Cond != nil || fs.Post != nil || len(fs.Body.List) != 1 {
		return nil
	}
	sel, _ := fs.Body.List[0].(*ast.SelectStmt)
	return sel
}

// gotoTarget: the body is exactly `goto L` (returns L), empty (returns ""), anything else returns "?".
func gotoTarget(body []ast.Stmt) string {
	if len(body) == 0 {
		return ""
	}
	if len(body) == 1 {
		if br, ok := body[0].(*ast.BranchStmt); ok && br.Tok == token.GOTO && br.Label != nil {
			return br.Label.Name
		}
	}
	return "?"
}

// compErrFacts reads the transition structure of DB.compactionError off the AST: one fact per select case and
// per switch case (names as the fields of CompErr.MCfg), and "shape": nothing but the recognised cases occurs.
func compErrFacts() map[string]bool {
	fd := findFunc("leveldb/db_compaction.go", "DB.compactionError")
	if fd == nil {
		fatal("function DB.compactionError not found")
	}
	f := map[string]bool{}
	shape := true
	labels := map[string]*ast.SelectStmt{}
	var order []string
	for i, st := range fd.Body.List {
		if i == 0 {
			if stmtText(st) != "var err error" {
				shape = false
			}
			continue
		}
		ls, ok := st.(*ast.LabeledStmt)
		if !ok {
			shape = false
			continue
		}
		sel := forSelect(ls.Stmt)
		if sel == nil {
			shape = false
			continue
		}
		labels[ls.Label.Name] = sel
		order = append(order, ls.Label.Name)
	}
	if strings.Join(order, ",") != "noerr,haserr,hasperr" {
		shape = false
	}
	// the switch after `err = <-db.compErrSetC`: which condition leads where
	sw := func(label string, body []ast.Stmt) {
		if len(body) != 1 {
			shape = false
			return
		}
		s, ok := body[0].(*ast.SwitchStmt)
		if !ok || s.Tag != nil || s.Init != nil {
			shape = false
			return
		}
		for _, c := range s.Body.List {
			cc := c.(*ast.CaseClause)
			body, setsLock := cc.Body, false
			if len(body) == 2 && stmtText(body[0]) == "db.compWriteLocking = true" {
				// `case err == ErrReadOnly: db.compWriteLocking = true; goto hasperr` (since 832d000)
				body, setsLock = body[1:], true
			}
			tgt := gotoTarget(body)
			if setsLock && !(len(cc.List) == 1 && stmtText(cc.List[0]) == "err == ErrReadOnly" && tgt == "hasperr") {
				shape = false
			}
			if cc.List == nil { // default
				switch {
				case label == "noerr" && tgt == "haserr":
					f["noerrOther"] = true
				case label == "haserr" && tgt == "":
				default:
					shape = false
				}
				continue
			}
			for _, e := range cc.List {
				switch stmtText(e) {
				case "err == nil":
					if label == "noerr" && tgt == "" {
						f["noerrNil"] = true
					} else if label == "haserr" && tgt == "noerr" {
						f["haserrNil"] = true
					} else {
						shape = false
					}
				case "err == ErrReadOnly":
					if tgt == "hasperr" {
						f[label+"RO"] = true
						f[label+"ROSetsLock"] = setsLock
					} else {
						shape = false
					}
				case "errors.IsCorrupted(err)":
					if tgt == "hasperr" {
						f[label+"Corrupt"] = true
					} else {
						shape = false
					}
				default:
					shape = false
				}
			}
		}
	}
	for label, sel := range labels {
		for _, c := range sel.Body.List {
			cc := c.(*ast.CommClause)
			if cc.Comm == nil { // a `default:` would turn the loop into a busy loop: not modelled
				shape = false
				continue
			}
			switch stmtText(cc.Comm) {
			case "err = <-db.compErrSetC":
				if label == "hasperr" {
					shape = false
					continue
				}
				f[label+"Recv"] = true
				sw(label, cc.Body)
			case "db.compErrC <- err":
				if label == "noerr" || len(cc.Body) != 0 {
					shape = false
					continue
				}
				f[label+"Err"] = true
			case "db.compPerErrC <- err":
				if label != "hasperr" || len(cc.Body) != 0 {
					shape = false
					continue
				}
				f["hasperrPerErr"] = true
			case "db.writeLockC <- struct{}{}":
				if label != "hasperr" || len(cc.Body) != 1 || stmtText(cc.Body[0]) != "db.compWriteLocking = true" {
					shape = false
					continue
				}
				f["hasperrLock"] = true
			case "<-db.closeC":
				// wp51 BEGIN (closeC arm: hooks ignored; two recognised forms of the hasperr arm)
				var body []ast.Stmt
				for _, st := range cc.Body {
					if !isHook(st) {
						body = append(body, st)
					}
				}
				n := len(body)
				if n == 0 || stmtText(body[n-1]) != "return" {
					shape = false
					continue
				}
				f[label+"Close"] = true
				switch {
				case n == 1:
				case n == 2 && label == "hasperr" && stmtText(body[0]) == "if db.compWriteLocking { <-db.writeLockC }":
					// the code as found: the lock is given back, Close (or a parked writer) takes it
					f["hasperrGivesBack"] = true
				case n == 2 && label == "hasperr" && stmtText(body[0]) == "if db.compWriteLocking { close(db.compLockedC) }":
					// since the repair of D42: the lock is kept, Close is told through compLockedC
					f["hasperrKeepsLock"] = true
				default:
					shape = false
				}
				// wp51 END
			default:
				shape = false
			}
		}
	}
	f["shape"] = shape
	return f
}

// wp51 BEGIN
// closeSelectsCompLocked: DB.Close acquires the write lock with
//   select { case db.writeLockC <- struct{}{}: case <-db.compLockedC: }
// (both arms empty, no default), after `close(db.closeC)` and before `db.closeW.Wait()`, it contains no other send on
// writeLockC, and compLockedC is mentioned nowhere in the package but in that select, in compactionError's
// `close(db.compLockedC)`, in the struct field and in openDB's `make`.
// closePlainAcquire: the code as found: the top-level statement `db.writeLockC <- struct{}{}` in that place, no compLockedC anywhere.
func closeLockFacts() (selects, plain bool) {
	fd := findFunc("leveldb/db.go", "DB.Close")
	if fd == nil {
		fatal("function DB.Close not found")
	}
	iClose, iAcq, iWait, nAcq := -1, -1, -1, 0
	for i, st := range fd.Body.List {
		switch t := stmtText(st); {
		case t == "close(db.closeC)":
			iClose = i
		case t == "db.closeW.Wait()":
			iWait = i
		case t == "db.writeLockC <- struct{}{}":
			iAcq, plain = i, true
			nAcq++
		case t == "select { case db.writeLockC <- struct{}{}: case <-db.compLockedC: }" ||
			t == "select { case <-db.compLockedC: case db.writeLockC <- struct{}{}: }":
			iAcq, selects = i, true
			nAcq++
		}
	}
	if nAcq != 1 || iClose < 0 || iWait < 0 || !(iClose < iAcq && iAcq < iWait) ||
		strings.Count(funcText("leveldb/db.go", "DB.Close"), "db.writeLockC <-") != 1 {
		return false, false
	}
	// every mention of compLockedC in the package (non-test files)
	mentions := 0
	ents, err := os.ReadDir(filepath.Join(repo, "leveldb"))
	if err != nil {
		fatal("%v", err)
	}
	for _, e := range ents {
		nm := e.Name()
		if e.IsDir() || !strings.HasSuffix(nm, ".go") || strings.HasSuffix(nm, "_test.go") {
			continue
		}
		b, err := os.ReadFile(filepath.Join(repo, "leveldb", nm))
		if err != nil {
			fatal("%v", err)
		}
		for _, ln := range strings.Split(string(b), "\n") {
			if i := strings.Index(ln, "//"); i >= 0 {
				ln = ln[:i]
			}
			mentions += strings.Count(ln, "compLockedC")
		}
	}
	if selects {
		// field, make, close (compactionError), receive (Close)
		ce := compErrFacts()
		selects = mentions == 4 && ce["hasperrKeepsLock"] &&
			strings.Contains(funcText("leveldb/db.go", "openDB"), "compLockedC:") &&
			strings.Contains(funcText("leveldb/db.go", "openDB"), "make(chan struct{})")
	}
	if plain {
		plain = mentions == 0
	}
	return selects, plain
}

// topSeqNorm: among the top-level statements of fn (hooks skipped), statements whose whitespace-normalised text is
// pats[0], pats[1], … (a pattern ending in "…" matches a statement that starts with the text before it) occur in this
// order; funcOK says that fn exists (a missing function makes the fact false, not the extractor fail: the facts of
// wp51 are about code that did not exist before the repairs).
func topSeqNorm(rel, fn string, pats []string) bool {
	fd := findFunc(rel, fn)
	if fd == nil || fd.Body == nil {
		return false
	}
	k := 0
	for _, st := range fd.Body.List {
		if k == len(pats) {
			break
		}
		if isHook(st) {
			continue
		}
		t, pat := stmtText(st), pats[k]
		if t == pat || (strings.HasSuffix(pat, "…") && strings.HasPrefix(t, strings.TrimSuffix(pat, "…"))) {
			k++
		}
	}
	return k == len(pats)
}

// funcTextOr: the printed body of fn, or "" when fn does not exist.
func funcTextOr(rel, fn string) string {
	if findFunc(rel, fn) == nil {
		return ""
	}
	return funcText(rel, fn)
}

// trOpenRegistersThenChecksClosed (repair of D43, OpenTransaction side): the top-level statements
//   db.trMu.Lock(); db.tr = tr; closed := db.isClosed(); db.trMu.Unlock(); if closed { tr.Discard(); return nil, ErrClosed }
// occur in this order, `db.tr = tr` occurs once, and `setDone` clears db.tr under trMu before it gives the lock back.
func trOpenRegistersThenChecksClosed() bool {
	const rel, fn = "leveldb/db_transaction.go", "DB.OpenTransaction"
	if findFunc(rel, fn) == nil || findFunc(rel, "Transaction.setDone") == nil {
		return false
	}
	return topSeqNorm(rel, fn, []string{"db.trMu.Lock()", "db.tr = tr", "closed := db.isClosed()", "db.trMu.Unlock()", "if closed {…"}) &&
		countStmts(rel, fn, "db.tr = tr") == 1 &&
		ifBodySeq(rel, fn, "closed", []string{"tr.Discard()", "return nil, ErrClosed"}) &&
		topSeqNorm(rel, "Transaction.setDone", []string{"tr.db.trMu.Lock()", "tr.db.tr = nil", "tr.db.trMu.Unlock()", "<-tr.db.writeLockC"}) &&
		countStmts(rel, "Transaction.setDone", "tr.db.tr = nil") == 1
}

// trCloseReadsUnderMuAfterClosed (repair of D43, Close side): the top-level statements of DB.Close
//   if !db.setClosed() {…}; close(db.closeC); db.trMu.Lock(); tr := db.tr; db.trMu.Unlock(); if tr != nil { tr.Discard() }; <acquire the write lock>
// occur in this order and db.tr is mentioned nowhere else in Close.
func trCloseReadsUnderMuAfterClosed() bool {
	const rel, fn = "leveldb/db.go", "DB.Close"
	if findFunc(rel, fn) == nil {
		return false
	}
	t := funcText(rel, fn)
	acq := topSeqNorm(rel, fn, []string{"if !db.setClosed() {…", "close(db.closeC)", "db.trMu.Lock()", "tr := db.tr", "db.trMu.Unlock()", "if tr != nil {…", "db.writeLockC <- struct{}{}"}) ||
		topSeqNorm(rel, fn, []string{"if !db.setClosed() {…", "close(db.closeC)", "db.trMu.Lock()", "tr := db.tr", "db.trMu.Unlock()", "if tr != nil {…", "select { case db.writeLockC <- struct{}{}:…"}) ||
		topSeqNorm(rel, fn, []string{"if !db.setClosed() {…", "close(db.closeC)", "db.trMu.Lock()", "tr := db.tr", "db.trMu.Unlock()", "if tr != nil {…", "select { case <-db.compLockedC:…"})
	return acq && ifBodyHas(rel, fn, "tr != nil", "tr.Discard()") &&
		strings.Count(t, "db.tr") == strings.Count(t, "db.trMu")+1 && strings.Count(t, "db.trMu") == 2
}

// wp51 END

// commOf finds, among the comm clauses of sel, the one whose communication has the text comm.
func commOf(sel *ast.SelectStmt, comm string) *ast.CommClause {
	for _, c := range sel.Body.List {
		cc := c.(*ast.CommClause)
		if cc.Comm != nil && stmtText(cc.Comm) == comm {
			return cc
		}
	}
	return nil
}

func bodyTexts(body []ast.Stmt) string {
	var parts []string
	for _, st := range body {
		if es, ok := st.(*ast.ExprStmt); ok {
			if ce, ok := es.X.(*ast.CallExpr); ok {
				fn := exprString(ce.Fun)
				if fn == "verifAt" || fn == "db.logf" || fn == "db.log" {
					continue // hooks and logging do not block
				}
			}
		}
		parts = append(parts, stmtText(st))
	}
	return strings.Join(parts, "; ")
}

// callersOfCompErr: SetReadOnly and compactionTransact talk to the machine as Model/Locks.lean says.
//   SetReadOnly: first select {writeLockC<- : compWriteLocking = true | <-compPerErrC: return err | <-closeC: return ErrClosed},
//   second select {compErrSetC <- ErrReadOnly: store compReadOnly | perr := <-compPerErrC: return perr | <-closeC: … return ErrClosed};
//   compactionTransact: select {compErrSetC <- err | perr := <-compPerErrC: if err != nil { exit } | <-closeC: exit}, then
//   `if err == nil { return }` and `if errors.IsCorrupted(err) { exit }`.
func callersOfCompErr() bool {
	ok, _, _, _ := callersOfCompErrFacts()
	return ok
}

// callersOfCompErrFacts: besides the shape, three facts about SetReadOnly: it sets compWriteLocking itself when it
// has taken the token; the compPerErrC arm of its second select gives its token back (`<-db.writeLockC`) before
// returning; the closeC arm of its second select takes a token out of writeLockC before returning.
func callersOfCompErrFacts() (ok, srSetsLock, srPerErrGivesBack, srCloseGivesBack bool) {
	ok = true
	var sels []*ast.SelectStmt
	fd := findFunc("leveldb/db_write.go", "DB.SetReadOnly")
	if fd == nil {
		fatal("function DB.SetReadOnly not found")
	}
	for _, st := range fd.Body.List {
		if s, isSel := st.(*ast.SelectStmt); isSel {
			sels = append(sels, s)
		}
	}
	if len(sels) != 2 || len(sels[0].Body.List) != 3 || len(sels[1].Body.List) != 3 {
		return false, false, false, false
	}
	chk := func(sel *ast.SelectStmt, comm, body string) {
		cc := commOf(sel, comm)
		if cc == nil || bodyTexts(cc.Body) != body {
			ok = false
		}
	}
	if cc := commOf(sels[0], "db.writeLockC <- struct{}{}"); cc == nil {
		ok = false
	} else {
		switch bodyTexts(cc.Body) {
		case "db.compWriteLocking = true":
			srSetsLock = true
		case "":
		default:
			ok = false
		}
	}
	chk(sels[0], "err := <-db.compPerErrC", "return err")
	chk(sels[0], "<-db.closeC", "return ErrClosed")
	chk(sels[1], "db.compErrSetC <- ErrReadOnly", "atomic.StoreUint32(&db.compReadOnly, 1)")
	if cc := commOf(sels[1], "perr := <-db.compPerErrC"); cc == nil {
		ok = false
	} else {
		switch bodyTexts(cc.Body) {
		case "<-db.writeLockC; return perr":
			srPerErrGivesBack = true
		case "return perr":
		default:
			ok = false
		}
	}
	if cc := commOf(sels[1], "<-db.closeC"); cc == nil {
		ok = false
	} else {
		switch bodyTexts(cc.Body) {
		case "<-db.writeLockC; return ErrClosed", "select { case <-db.writeLockC: default: }; return ErrClosed":
			srCloseGivesBack = true
		case "return ErrClosed":
		default:
			ok = false
		}
	}
	// compactionTransact
	fd = findFunc("leveldb/db_compaction.go", "DB.compactionTransact")
	if fd == nil {
		fatal("function DB.compactionTransact not found")
	}
	var loop *ast.ForStmt
	for _, st := range fd.Body.List {
		if fs, isFor := st.(*ast.ForStmt); isFor {
			loop = fs
		}
	}
	if loop == nil {
		return false, srSetsLock, srPerErrGivesBack, srCloseGivesBack
	}
	var sel *ast.SelectStmt
	seenNil, seenCorrupt := false, false
	for _, st := range loop.Body.List {
		if s, isSel := st.(*ast.SelectStmt); isSel && sel == nil {
			sel = s
			continue
		}
		if sel != nil {
			switch t := stmtText(st); {
			case t == "if err == nil { return }":
				seenNil = !seenCorrupt
			case strings.HasPrefix(t, "if errors.IsCorrupted(err) {") && strings.HasSuffix(t, "db.compactionExitTransact() }"):
				seenCorrupt = seenNil
			}
		}
	}
	if sel == nil || len(sel.Body.List) != 3 || !seenNil || !seenCorrupt {
		return false, srSetsLock, srPerErrGivesBack, srCloseGivesBack
	}
	chk(sel, "db.compErrSetC <- err", "")
	chk(sel, "<-db.closeC", "db.compactionExitTransact()")
	if cc := commOf(sel, "perr := <-db.compPerErrC"); cc == nil || len(cc.Body) != 1 ||
		!strings.HasPrefix(stmtText(cc.Body[0]), "if err != nil {") || !strings.HasSuffix(stmtText(cc.Body[0]), "db.compactionExitTransact() }") {
		ok = false
	}
	return ok, srSetsLock, srPerErrGivesBack, srCloseGivesBack
}

// ---------------------------------------------------------------------------------------------
// what a write group carries (C10/C04/C20: Model/WriteProto.lean `Cfg`, `mergeLimitOf`)

// commClauseOf finds, anywhere in fn, the select comm clause whose communication has the text comm.
func commClauseOf(rel, fn, comm string) *ast.CommClause {
	fd := findFunc(rel, fn)
	if fd == nil {
		fatal("function %s not found in %s", fn, rel)
	}
	var out *ast.CommClause
	ast.Inspect(fd.Body, func(nd ast.Node) bool {
		if cc, ok := nd.(*ast.CommClause); ok && out == nil && cc.Comm != nil && stmtText(cc.Comm) == comm {
			out = cc
		}
		return true
	})
	return out
}

// wpSyncOutside: in the `case incoming := <-db.writeMergeC:` clause of writeLocked, `sync = sync || incoming.sync`
// is a top-level statement of the clause body (so outside both branches of `if incoming.batch != nil`), it comes after
// that `if` and before `db.writeMergedC <- true`, and it occurs nowhere else in the function.
func wpSyncOutside() bool {
	const rel, fn, stmt = "leveldb/db_write.go", "DB.writeLocked", "sync = sync || incoming.sync"
	cc := commClauseOf(rel, fn, "incoming := <-db.writeMergeC")
	if cc == nil || countStmts(rel, fn, stmt) != 1 {
		return false
	}
	iIf, iSync, iReply := -1, -1, -1
	for i, st := range cc.Body {
		t := stmtText(st)
		switch {
		case strings.HasPrefix(t, "if incoming.batch != nil {"):
			iIf = i
		case t == stmt:
			iSync = i
		case t == "db.writeMergedC <- true":
			iReply = i
		}
	}
	return iIf >= 0 && iIf < iSync && iSync < iReply
}

// wpMergedPutToOur: the only `appendRec` of writeLocked is `ourBatch.appendRec(incoming.keyType, incoming.key, incoming.value)`,
// it stands in the else branch of `if incoming.batch != nil` after the `if ourBatch == nil {…}`, and no mutating method is
// called on `batch` / `incoming.batch` anywhere in the function.
func wpMergedPutToOur() bool {
	const rel, fn = "leveldb/db_write.go", "DB.writeLocked"
	const stmt = "ourBatch.appendRec(incoming.keyType, incoming.key, incoming.value)"
	t := funcText(rel, fn)
	if countStmts(rel, fn, stmt) != 1 || strings.Count(t, "appendRec(") != 1 {
		return false
	}
	for _, recv := range []string{"batch", "incoming.batch"} {
		for _, m := range []string{"appendRec", "append", "Put", "Delete", "Reset", "Load", "grow"} {
			pat := recv + "." + m + "("
			for i := strings.Index(t, pat); i >= 0; {
				// `ourBatch.` ends in `Batch.`, not in `batch.`: only a preceding letter/dot/underscore makes it another identifier
				if i == 0 || !(t[i-1] == '.' || t[i-1] == '_' || (t[i-1] >= 'a' && t[i-1] <= 'z') || (t[i-1] >= 'A' && t[i-1] <= 'Z') || (t[i-1] >= '0' && t[i-1] <= '9')) {
					return false
				}
				j := strings.Index(t[i+1:], pat)
				if j < 0 {
					break
				}
				i += 1 + j
			}
		}
	}
	cc := commClauseOf(rel, fn, "incoming := <-db.writeMergeC")
	if cc == nil {
		return false
	}
	for _, st := range cc.Body {
		is, ok := st.(*ast.IfStmt)
		if !ok || stmtText(is.Cond) != "incoming.batch != nil" {
			continue
		}
		els, ok := is.Else.(*ast.BlockStmt)
		if !ok {
			return false
		}
		iNil, iApp := -1, -1
		for i, s := range els.List {
			u := stmtText(s)
			if strings.HasPrefix(u, "if ourBatch == nil {") {
				iNil = i
			}
			if u == stmt {
				iApp = i
			}
		}
		return iNil >= 0 && iNil < iApp
	}
	return false
}

// wpUnlockHandsOff: the top-level statements of unlockWrite are the ack loop `for i := 0; i < merged; i++ { db.writeAckC <- err … }`
// followed by `if overflow { … db.writeMergedC <- false } else { … <-db.writeLockC }` with the condition exactly `overflow`.
func wpUnlockHandsOff() bool {
	fd := findFunc("leveldb/db_write.go", "DB.unlockWrite")
	if fd == nil {
		fatal("function DB.unlockWrite not found")
	}
	var body []ast.Stmt
	for _, st := range fd.Body.List {
		if !isHook(st) {
			body = append(body, st)
		}
	}
	if len(body) != 2 {
		return false
	}
	fs, ok := body[0].(*ast.ForStmt)
	if !ok || fs.Cond == nil || stmtText(fs.Cond) != "i < merged" || !blockHas(fs.Body, "db.writeAckC <- err") {
		return false
	}
	is, ok := body[1].(*ast.IfStmt)
	if !ok || is.Init != nil || stmtText(is.Cond) != "overflow" || !blockHas(is.Body, "db.writeMergedC <- false") {
		return false
	}
	els, ok := is.Else.(*ast.BlockStmt)
	return ok && blockHas(els, "<-db.writeLockC") && !blockHas(is.Body, "<-db.writeLockC") && !blockHas(els, "db.writeMergedC <- false")
}

func isHook(st ast.Stmt) bool {
	if es, ok := st.(*ast.ExprStmt); ok {
		if ce, ok := es.X.(*ast.CallExpr); ok {
			return exprString(ce.Fun) == "verifAt"
		}
	}
	return false
}

// blockHas: one of the top-level statements of the block has exactly the text stmt.
func blockHas(b *ast.BlockStmt, stmt string) bool {
	for _, st := range b.List {
		if stmtText(st) == stmt {
			return true
		}
	}
	return false
}

// wpMergeLimit reads `if batch.internalLen > X { mergeLimit = Y - batch.internalLen } else { mergeLimit = Z }` off writeLocked
// (the three constants) and checks the rest of the limit arithmetic (shape).
func wpMergeLimit() (x, y, z constant.Value, shape bool) {
	const rel, fn = "leveldb/db_write.go", "DB.writeLocked"
	fd := findFunc(rel, fn)
	if fd == nil {
		fatal("function %s not found in %s", fn, rel)
	}
	ast.Inspect(fd.Body, func(nd ast.Node) bool {
		is, ok := nd.(*ast.IfStmt)
		if !ok || x != nil {
			return true
		}
		be, ok := is.Cond.(*ast.BinaryExpr)
		if !ok || be.Op != token.GTR || exprString(be.X) != "batch.internalLen" {
			return true
		}
		els, ok := is.Else.(*ast.BlockStmt)
		if !ok || len(is.Body.List) != 1 || len(els.List) != 1 {
			return true
		}
		a1, ok1 := is.Body.List[0].(*ast.AssignStmt)
		a2, ok2 := els.List[0].(*ast.AssignStmt)
		if !ok1 || !ok2 || a1.Tok != token.ASSIGN || a2.Tok != token.ASSIGN || exprString(a1.Lhs[0]) != "mergeLimit" || exprString(a2.Lhs[0]) != "mergeLimit" {
			return true
		}
		sub, ok := a1.Rhs[0].(*ast.BinaryExpr)
		if !ok || sub.Op != token.SUB || exprString(sub.Y) != "batch.internalLen" {
			return true
		}
		vx, e1 := evalConst(be.Y, env{}, 0)
		vy, e2 := evalConst(sub.X, env{}, 0)
		vz, e3 := evalConst(a2.Rhs[0], env{}, 0)
		if e1 == nil && e2 == nil && e3 == nil {
			x, y, z = vx, vy, vz
		}
		return true
	})
	if x == nil {
		fatal("merge limit computation not found in %s", fn)
	}
	cc := commClauseOf(rel, fn, "incoming := <-db.writeMergeC")
	shape = cc != nil &&
		topLevelOrNested(rel, fn, "mergeCap := mdbFree - batch.internalLen") &&
		ifBodyHas(rel, fn, "mergeLimit > mergeCap", "mergeLimit = mergeCap") &&
		textBefore(rel, fn, "mergeCap := mdbFree - batch.internalLen", "for mergeLimit > 0 {") &&
		textBefore(rel, fn, "if mergeLimit > mergeCap {", "for mergeLimit > 0 {") &&
		ifBodySeq(rel, fn, "incoming.batch.internalLen > mergeLimit", []string{"overflow = true", "break merge"}) &&
		ifBodySeq(rel, fn, "internalLen > mergeLimit", []string{"overflow = true", "break merge"}) &&
		countStmts(rel, fn, "internalLen := len(incoming.key) + len(incoming.value) + 8") == 1 &&
		countStmts(rel, fn, "mergeLimit -= incoming.batch.internalLen") == 1 &&
		countStmts(rel, fn, "mergeLimit -= internalLen") == 1 &&
		countStmts(rel, fn, "batches = append(batches, incoming.batch)") == 1 &&
		strings.Count(funcText(rel, fn), "mergeLimit") == 10
	return
}

func topLevelOrNested(rel, fn, stmt string) bool { return countStmts(rel, fn, stmt) == 1 }

// funcText is the printed body of a function.
func funcText(rel, fn string) string {
	fd := findFunc(rel, fn)
	if fd == nil {
		fatal("function %s not found in %s", fn, rel)
	}
	var buf bytes.Buffer
	printer.Fprint(&buf, token.NewFileSet(), fd.Body)
	return buf.String()
}

// callsInsideFuncLitArg: in fn, every call whose callee text ends with "."+callee is inside a func literal that
// is an argument of a call whose callee text is outer; returns (number of such calls inside, number outside).
func callsInsideFuncLitArg(rel, fn, outer, callee string) (inside, outside int) {
	fd := findFunc(rel, fn)
	if fd == nil {
		fatal("function %s not found in %s", fn, rel)
	}
	type span struct{ lo, hi token.Pos }
	var lits []span
	ast.Inspect(fd.Body, func(nd ast.Node) bool {
		ce, ok := nd.(*ast.CallExpr)
		if !ok || exprString(ce.Fun) != outer {
			return true
		}
		for _, a := range ce.Args {
			if fl, ok := a.(*ast.FuncLit); ok {
				lits = append(lits, span{fl.Pos(), fl.End()})
			}
		}
		return true
	})
	ast.Inspect(fd.Body, func(nd ast.Node) bool {
		ce, ok := nd.(*ast.CallExpr)
		if !ok {
			return true
		}
		t := exprString(ce.Fun)
		if t != callee && !strings.HasSuffix(t, "."+callee) {
			return true
		}
		in := false
		for _, sp := range lits {
			if ce.Pos() >= sp.lo && ce.End() <= sp.hi {
				in = true
			}
		}
		if in {
			inside++
		} else {
			outside++
		}
		return true
	})
	return
}

func (o *out) boolean(name string, v bool, doc string) {
	fmt.Fprintf(&o.b, "/-- %s -/\ndef %s : Bool := %v\n", doc, name, v)
}

// ---------------------------------------------------------------------------------------------

type out struct{ b strings.Builder }

func (o *out) nat(name string, v constant.Value, src string) {
	if v == nil {
		fatal("constant %s (%s) not found", name, src)
	}
	switch v.Kind() {
	case constant.Int:
		fmt.Fprintf(&o.b, "/-- `%s` -/\ndef %s : Nat := %s\n", src, name, v.ExactString())
	case constant.String:
		s := constant.StringVal(v)
		var parts []string
		for i := 0; i < len(s); i++ {
			parts = append(parts, strconv.Itoa(int(s[i])))
		}
		fmt.Fprintf(&o.b, "/-- `%s` -/\ndef %s : List UInt8 := [%s]\n", src, name, strings.Join(parts, ", "))
	default:
		fatal("constant %s (%s) has unsupported kind", name, src)
	}
}

func main() {
	var leanOut, fpOut string
	flag.StringVar(&repo, "repo", "/repo", "repository root")
	flag.StringVar(&leanOut, "lean", "", "Consts.lean to write")
	flag.StringVar(&fpOut, "fp", "", "fingerprints.json to write")
	flag.Parse()

	o := &out{}
	o.b.WriteString("/- GENERATED by tools/extract from the working tree of the repository. Do not edit. -/\nnamespace GoLevel.Gen\n\n")

	type cs struct{ lean, file, ident string }
	optEnv := pkgEnv("leveldb/opt/options.go", nil)
	pk := func(list []cs) {
		envs := map[string]env{}
		for _, c := range list {
			en, ok := envs[c.file]
			if !ok {
				en = pkgEnv(c.file, nil)
				envs[c.file] = en
			}
			o.nat(c.lean, en[c.ident], c.file+":"+c.ident)
		}
	}
	pk([]cs{
		{"journalBlockSize", "leveldb/journal/journal.go", "blockSize"},
		{"journalHeaderSize", "leveldb/journal/journal.go", "headerSize"},
		{"fullChunkType", "leveldb/journal/journal.go", "fullChunkType"},
		{"firstChunkType", "leveldb/journal/journal.go", "firstChunkType"},
		{"middleChunkType", "leveldb/journal/journal.go", "middleChunkType"},
		{"lastChunkType", "leveldb/journal/journal.go", "lastChunkType"},
		{"blockTrailerLen", "leveldb/table/table.go", "blockTrailerLen"},
		{"footerLen", "leveldb/table/table.go", "footerLen"},
		{"tableMagic", "leveldb/table/table.go", "magic"},
		{"blockTypeNoCompression", "leveldb/table/table.go", "blockTypeNoCompression"},
		{"blockTypeSnappyCompression", "leveldb/table/table.go", "blockTypeSnappyCompression"},
		{"keyTypeDel", "leveldb/key.go", "keyTypeDel"},
		{"keyTypeVal", "leveldb/key.go", "keyTypeVal"},
		{"keyTypeSeek", "leveldb/key.go", "keyTypeSeek"},
		{"keyMaxSeq", "leveldb/key.go", "keyMaxSeq"},
		{"keyMaxNum", "leveldb/key.go", "keyMaxNum"},
		{"batchHeaderLen", "leveldb/batch.go", "batchHeaderLen"},
		{"tMaxHeight", "leveldb/memdb/memdb.go", "tMaxHeight"},
		{"nKV", "leveldb/memdb/memdb.go", "nKV"},
		{"nKey", "leveldb/memdb/memdb.go", "nKey"},
		{"nVal", "leveldb/memdb/memdb.go", "nVal"},
		{"nHeight", "leveldb/memdb/memdb.go", "nHeight"},
		{"nNext", "leveldb/memdb/memdb.go", "nNext"},
		{"recComparer", "leveldb/session_record.go", "recComparer"},
		{"recJournalNum", "leveldb/session_record.go", "recJournalNum"},
		{"recNextFileNum", "leveldb/session_record.go", "recNextFileNum"},
		{"recSeqNum", "leveldb/session_record.go", "recSeqNum"},
		{"recCompPtr", "leveldb/session_record.go", "recCompPtr"},
		{"recDelTable", "leveldb/session_record.go", "recDelTable"},
		{"recAddTable", "leveldb/session_record.go", "recAddTable"},
		{"recPrevJournalNum", "leveldb/session_record.go", "recPrevJournalNum"},
		{"maxCachedNumber", "leveldb/session_util.go", "maxCachedNumber"},
		{"mInitialSize", "leveldb/cache/cache.go", "mInitialSize"},
		{"mOverflowThreshold", "leveldb/cache/cache.go", "mOverflowThreshold"},
		{"mOverflowGrowThreshold", "leveldb/cache/cache.go", "mOverflowGrowThreshold"},
	})
	for _, n := range []string{"DefaultBlockRestartInterval", "DefaultBlockSize", "DefaultFilterBaseLg",
		"DefaultWriteBuffer", "DefaultCompactionL0Trigger", "DefaultWriteL0SlowdownTrigger",
		"DefaultWriteL0PauseTrigger", "DefaultMaxManifestFileSize", "DefaultCompactionTableSize",
		"DefaultIteratorSamplingRate"} {
		o.nat("opt"+n, optEnv[n], "leveldb/opt/options.go:"+n)
	}

	// the strict flags (C19: what recoverTable masks, what GetStrict falls back to)
	for _, n := range []string{"StrictManifest", "StrictJournalChecksum", "StrictJournal", "StrictBlockChecksum", "StrictCompaction",
		"StrictReader", "StrictRecovery", "StrictOverride", "StrictAll", "DefaultStrict"} {
		o.nat("opt"+n, optEnv[n], "leveldb/opt/options.go:"+n)
	}
	o.boolean("noStrictIsComplementOfAll", fileHas("leveldb/opt/options.go", "NoStrict = ^StrictAll") && fileHas("leveldb/opt/options.go", "type Strict uint\n"),
		"`type Strict uint` and `NoStrict = ^StrictAll`")
	o.boolean("getStrictZeroMeansDefault",
		ifBodyHas("leveldb/opt/options.go", "Options.GetStrict", "o == nil || o.Strict == 0", "return DefaultStrict&strict != 0") &&
			countStmts("leveldb/opt/options.go", "Options.GetStrict", "return o.Strict&strict != 0") == 1,
		"`Options.GetStrict`: `if o == nil || o.Strict == 0 { return DefaultStrict&strict != 0 }; return o.Strict&strict != 0`")
	o.boolean("dupOptionsZeroMeansDefault",
		ifBodyHas("leveldb/options.go", "dupOptions", "newo.Strict == 0", "newo.Strict = opt.DefaultStrict"),
		"`dupOptions`: `if newo.Strict == 0 { newo.Strict = opt.DefaultStrict }`")
	o.boolean("recoverMasksStrictReader",
		countStmts("leveldb/db.go", "recoverTable", "o.Strict &= ^opt.StrictReader") == 1 &&
			textBefore("leveldb/db.go", "recoverTable", "o = dupOptions(s.o.Options)", "o.Strict &= ^opt.StrictReader") &&
			textBefore("leveldb/db.go", "recoverTable", "o.Strict &= ^opt.StrictReader", "s.stor.List(storage.TypeTable)") &&
			strings.Count(funcText("leveldb/db.go", "recoverTable"), "o.Strict") == func() int {
				if ifBodyHas("leveldb/db.go", "recoverTable", "o.Strict == 0", "o.Strict = opt.NoStrict") {
					return 3
				}
				return 1
			}(),
		"`recoverTable` works on `o = dupOptions(s.o.Options)` with `o.Strict &= ^opt.StrictReader` and changes `o.Strict` nowhere else (but for the zero repair)")
	o.boolean("compactionIterStrictShape", func() bool {
		t := funcText("leveldb/session_compaction.go", "compaction.newIterator")
		flat := strings.Join(strings.Fields(t), " ")
		if os.Getenv("EXTRACT_DEBUG") != "" {
			fmt.Fprintln(os.Stderr, "DBG", strings.Contains(flat, "Strict: opt.StrictOverride"), countStmts("leveldb/session_compaction.go", "compaction.newIterator", "strict := c.s.o.GetStrict(opt.StrictCompaction)"), ifBodyHas("leveldb/session_compaction.go", "compaction.newIterator", "strict", "ro.Strict |= opt.StrictReader"), strings.Count(t, "ro.Strict"))
		}
		return strings.Contains(flat, "Strict: opt.StrictOverride") &&
			countStmts("leveldb/session_compaction.go", "compaction.newIterator", "strict := c.s.o.GetStrict(opt.StrictCompaction)") == 1 &&
			ifBodyHas("leveldb/session_compaction.go", "compaction.newIterator", "strict", "ro.Strict |= opt.StrictReader") &&
			strings.Count(t, "ro.Strict") == 1
	}(),
		"`compaction.newIterator` reads its inputs with `ReadOptions{Strict: opt.StrictOverride}` plus `opt.StrictReader` exactly when `GetStrict(opt.StrictCompaction)`")
	o.boolean("getStrictWithReadOptionsShape",
		ifBodyHas("leveldb/opt/options.go", "GetStrict", "ro.GetStrict(StrictOverride)", "return ro.GetStrict(strict)") &&
			countStmts("leveldb/opt/options.go", "GetStrict", "return o.GetStrict(strict) || ro.GetStrict(strict)") == 1 &&
			countStmts("leveldb/opt/options.go", "ReadOptions.GetStrict", "return ro.Strict&strict != 0") == 1,
		"`opt.GetStrict(o, ro, s)`: the read options alone when they carry `StrictOverride`, else `o.GetStrict(s) || ro.GetStrict(s)`")
	o.boolean("recoverMaskZeroBecomesNoStrict",
		ifBodyHas("leveldb/db.go", "recoverTable", "o.Strict == 0", "o.Strict = opt.NoStrict") &&
			textBefore("leveldb/db.go", "recoverTable", "o.Strict &= ^opt.StrictReader", "o.Strict == 0") &&
			textBefore("leveldb/db.go", "recoverTable", "o.Strict = opt.NoStrict", "s.stor.List(storage.TypeTable)"),
		"`recoverTable`: `if o.Strict == 0 { o.Strict = opt.NoStrict }` right after the mask (the D58 repair)")

	// function-local constants and literal call arguments
	hashEnv := localEnv("leveldb/util/hash.go", "Hash", nil)
	o.nat("hashM", hashEnv["m"], "leveldb/util/hash.go:Hash:m")
	o.nat("hashR", hashEnv["r"], "leveldb/util/hash.go:Hash:r")
	murEnv := localEnv("leveldb/cache/cache.go", "murmur32", nil)
	o.nat("murmurM", murEnv["m"], "leveldb/cache/cache.go:murmur32:m")
	o.nat("murmurR", murEnv["r"], "leveldb/cache/cache.go:murmur32:r")
	seed, err := evalConst(callArg("leveldb/filter/bloom.go", "bloomHash", "util.Hash", 1), env{}, 0)
	if err != nil {
		fatal("bloom seed: %v", err)
	}
	o.nat("bloomSeed", seed, "leveldb/filter/bloom.go:bloomHash:seed")
	{
		// the seed every table access of the cache passes to murmur32: `murmur32(ns, key, 0xf00)`
		var mseed constant.Value
		for _, fn := range []string{"Cache.Get", "Cache.Delete", "Cache.Evict"} {
			v, err := evalConst(callArg("leveldb/cache/cache.go", fn, "murmur32", 2), env{}, 0)
			if err != nil {
				fatal("murmur seed in %s: %v", fn, err)
			}
			if mseed != nil && !constant.Compare(mseed, token.EQL, v) {
				fatal("murmur seed: %s passes %v, another call site %v", fn, v, mseed)
			}
			mseed = v
		}
		o.nat("cacheMurmurSeed", mseed, "leveldb/cache/cache.go:Cache.Get/Delete/Evict:murmur32 seed")
	}

	// straight-line expressions
	o.b.WriteString("\n/-! Straight-line unsigned expressions, printed from the Go AST. -/\n\n")
	fmt.Fprintf(&o.b, "/-- `util.CRC.Value` -/\ndef crcMask (c : UInt32) : UInt32 := %s\n",
		leanExpr(rhsOf("leveldb/util/crc32.go", "CRC.Value", "return"), env{}, map[string]string{"c": "c"}))
	fmt.Fprintf(&o.b, "/-- `bloomFilter.Contains`: `delta` -/\ndef bloomDeltaContains (kh : UInt32) : UInt32 := %s\n",
		leanExpr(rhsOf("leveldb/filter/bloom.go", "bloomFilter.Contains", "delta"), env{}, map[string]string{"kh": "kh"}))
	fmt.Fprintf(&o.b, "/-- `bloomFilterGenerator.Generate`: `delta` -/\ndef bloomDeltaGenerate (kh : UInt32) : UInt32 := %s\n",
		leanExpr(rhsOf("leveldb/filter/bloom.go", "bloomFilterGenerator.Generate", "delta"), env{}, map[string]string{"kh": "kh"}))
	fmt.Fprintf(&o.b, "/-- `bloomFilter.NewGenerator`: `k` before clamping (as a natural number, `f ≥ 0`) -/\ndef bloomKRaw (f : Nat) : Nat := %s\n",
		leanExpr(rhsOf("leveldb/filter/bloom.go", "bloomFilter.NewGenerator", "k"), env{}, map[string]string{"f": "f"}))
	fmt.Fprintf(&o.b, "/-- `makeInternalKey`: packed number -/\ndef packNum (seq kt : Nat) : Nat := %s\n",
		leanExpr(callArg("leveldb/key.go", "makeInternalKey", "binary.LittleEndian.PutUint64", 1), env{}, map[string]string{"seq": "seq", "kt": "kt"}))

	// copy/alias facts at the API boundary (C20)
	o.b.WriteString("\n/-! Which boundary paths copy the bytes they move (read off the Go AST). -/\n\n")
	o.boolean("ownBatchCopies", callsWithArg("leveldb/batch.go", "Batch.appendRec", "copy", "key") >= 1 && callsWithArg("leveldb/batch.go", "Batch.appendRec", "copy", "value") >= 1,
		"`Batch.appendRec` copies key and value into the batch buffer")
	o.boolean("ownMemdbPutCopies", callsWithArg("leveldb/memdb/memdb.go", "DB.Put", "append", "key") >= 1 && callsWithArg("leveldb/memdb/memdb.go", "DB.Put", "append", "value") >= 1,
		"`memdb.DB.Put` appends (copies) key and value into its arena")
	o.boolean("ownMemGetCopies", allReturnsOfCopy("leveldb/db.go", "DB.get", "mv"),
		"`DB.get` returns a fresh copy of a memdb hit")
	o.boolean("ownTableGetCopies", allAssignsCopy("leveldb/table/reader.go", "Reader.find", "value"),
		"`table.Reader.find` always copies the value out of the block buffer")
	o.boolean("ownIterCopies", allAssignsCopy("leveldb/db_iter.go", "dbIter.next", "i.key") && allAssignsCopy("leveldb/db_iter.go", "dbIter.next", "i.value") &&
		allAssignsCopy("leveldb/db_iter.go", "dbIter.prev", "i.key") && allAssignsCopy("leveldb/db_iter.go", "dbIter.prev", "i.value"),
		"`dbIter.next/prev` copy key and value into iterator-owned buffers")

	// lock release facts on error paths (C09)
	o.b.WriteString("\n/-! Error paths that must give back what they acquired (read off the Go AST). -/\n\n")
	o.boolean("lkCommitUnlocksOnError", func() bool {
		// after compCommitLk.Lock(): every `return cerr` is directly preceded by the Unlock, and the success path unlocks too
		t := funcText("leveldb/db_transaction.go", "Transaction.Commit")
		k := strings.Index(t, "tr.db.compCommitLk.Lock()")
		if k < 0 {
			return false
		}
		rest := t[k:]
		nret := strings.Count(rest, "return cerr")
		guarded := 0
		for _, ind := range []string{"\t", "\t\t", "\t\t\t", "\t\t\t\t", "\t\t\t\t\t", "\t\t\t\t\t\t"} {
			guarded += strings.Count(rest, "tr.db.compCommitLk.Unlock()\n"+ind+"return cerr")
		}
		return nret >= 2 && guarded == nret && strings.Count(rest, "tr.db.compCommitLk.Unlock()") == nret+1 &&
			ifBodyHas("leveldb/db_transaction.go", "Transaction.Commit", "cerr != nil", "tr.db.compCommitLk.Unlock()")
	}(),
		"`Transaction.Commit` unlocks `compCommitLk` before every return of the commit error (also when Close cuts its retries short) and on success")
	o.boolean("lkOpenTxReleasesOnError", func() bool {
		// after the token has been taken (the select at the top), every `return nil, err` is preceded by `<-db.writeLockC`
		t := funcText("leveldb/db_transaction.go", "DB.OpenTransaction")
		i := strings.Index(t, "has open transaction")
		if i < 0 {
			return false
		}
		rest := t[i:]
		nret := strings.Count(rest, "return nil, err")
		return nret >= 2 && nret == countStmts("leveldb/db_transaction.go", "DB.OpenTransaction", "<-db.writeLockC") &&
			strings.Count(rest, "<-db.writeLockC\n\t\t\treturn nil, err")+strings.Count(rest, "<-db.writeLockC\n\t\treturn nil, err") == nret
	}(),
		"`OpenTransaction` takes the write-lock token back on every error return after it acquired it")
	o.boolean("lkLargeBatchDiscardsOnCommitError", ifBodyHas("leveldb/db_write.go", "DB.Write", "tr.Commit()", "tr.Discard()"),
		"`DB.Write` discards the internal transaction when its commit fails")
	o.boolean("roCompactionParks", strings.Count(funcText("leveldb/db_compaction.go", "DB.tCompaction"), "atomic.LoadUint32(&db.compReadOnly)") >= 2 &&
		strings.Contains(funcText("leveldb/db_write.go", "DB.SetReadOnly"), "atomic.StoreUint32(&db.compReadOnly, 1)"),
		"`tCompaction` consults the read-only flag set by `SetReadOnly` at the top of its loop and before executing a command")
	o.boolean("lkSetReadOnlyReleasesOnClose", func() bool { _, _, _, c := callersOfCompErrFacts(); return c }(),
		"`SetReadOnly` gives the write-lock token back when it gives up because the DB is closing")

	// the goroutine compactionError as a state machine (C09/C18, Model/CompErr.lean `codeM`)
	o.b.WriteString("\n/-! The `select` cases and `switch` cases of `DB.compactionError` (read off the Go AST). -/\n\n")
	{
		ce := compErrFacts()
		for _, c := range []struct{ lean, key, doc string }{
			{"ceNoerrRecv", "noerrRecv", "`noerr:` has `case err = <-db.compErrSetC`"},
			{"ceNoerrNil", "noerrNil", "`noerr:` `case err == nil:` stays in `noerr`"},
			{"ceNoerrRO", "noerrRO", "`noerr:` `err == ErrReadOnly` leads to `hasperr`"},
			{"ceNoerrROSetsLock", "noerrROSetsLock", "`noerr:` the `err == ErrReadOnly` case does `db.compWriteLocking = true` before `goto hasperr`"},
			{"ceNoerrCorrupt", "noerrCorrupt", "`noerr:` `errors.IsCorrupted(err)` leads to `hasperr`"},
			{"ceNoerrOther", "noerrOther", "`noerr:` `default: goto haserr`"},
			{"ceNoerrClose", "noerrClose", "`noerr:` has `case <-db.closeC: return`"},
			{"ceHaserrErr", "haserrErr", "`haserr:` has `case db.compErrC <- err`"},
			{"ceHaserrRecv", "haserrRecv", "`haserr:` has `case err = <-db.compErrSetC`"},
			{"ceHaserrNil", "haserrNil", "`haserr:` `case err == nil: goto noerr`"},
			{"ceHaserrRO", "haserrRO", "`haserr:` `err == ErrReadOnly` leads to `hasperr`"},
			{"ceHaserrROSetsLock", "haserrROSetsLock", "`haserr:` the `err == ErrReadOnly` case does `db.compWriteLocking = true` before `goto hasperr`"},
			{"ceHaserrCorrupt", "haserrCorrupt", "`haserr:` `errors.IsCorrupted(err)` leads to `hasperr`"},
			{"ceHaserrClose", "haserrClose", "`haserr:` has `case <-db.closeC: return`"},
			{"ceHasperrErr", "hasperrErr", "`hasperr:` has `case db.compErrC <- err`"},
			{"ceHasperrPerErr", "hasperrPerErr", "`hasperr:` has `case db.compPerErrC <- err`"},
			{"ceHasperrLock", "hasperrLock", "`hasperr:` has `case db.writeLockC <- struct{}{}: db.compWriteLocking = true`"},
			{"ceHasperrClose", "hasperrClose", "`hasperr:` has `case <-db.closeC: … return`"},
			{"ceHasperrGivesBack", "hasperrGivesBack", "`hasperr:` the `closeC` case does `if db.compWriteLocking { <-db.writeLockC }` before it returns (the code as found; false since the repair of D42)"},
			{"ceHasperrKeepsLockOnClose", "hasperrKeepsLock", "`hasperr:` the `closeC` case does `if db.compWriteLocking { close(db.compLockedC) }` before it returns: the write lock is kept for `Close` (wp51)"},
			{"ceShape", "shape", "`compactionError` is `var err error` and the three labelled `for { select { … } }` loops `noerr`, `haserr`, `hasperr`, with no `select` case or `switch` case besides the recognised ones"},
		} {
			o.boolean(c.lean, ce[c.key], c.doc)
		}
	}
	{
		_, a, b, _ := callersOfCompErrFacts()
		o.boolean("lkSetReadOnlySetsWriteLocking", a,
			"`SetReadOnly` sets `db.compWriteLocking` itself right after it has taken the write-lock token (false since 832d000: `compactionError` sets it when it takes `ErrReadOnly`)")
		o.boolean("lkSetReadOnlyPerErrGivesBack", b,
			"the `compPerErrC` arm of `SetReadOnly`'s second `select` gives its token back (`<-db.writeLockC`) before it returns the error")
	}
	{
		// wp51 BEGIN
		sel, plain := closeLockFacts()
		o.boolean("lkCloseSelectsCompLocked", sel,
			"`DB.Close` acquires the write lock with `select { case db.writeLockC <- struct{}{}: case <-db.compLockedC: }` between `close(db.closeC)` and `db.closeW.Wait()`; `compLockedC` is made in `openDB`, closed only by `compactionError` and received only here (wp51)")
		o.boolean("lkClosePlainAcquire", plain,
			"`DB.Close` acquires the write lock with the plain send `db.writeLockC <- struct{}{}` (the code as found) and no `compLockedC` exists")
		// wp51 END
	}
	o.boolean("ceCallersAsModelled", callersOfCompErr(),
		"`SetReadOnly` (two `select`s: take the write lock and set `compWriteLocking`, then post `ErrReadOnly` and set `compReadOnly`, with `compPerErrC` / `closeC` alternatives) and `compactionTransact` (post the result on `compErrSetC`, or take `compPerErrC` and exit if the result was an error, or exit on `closeC`; return on nil, exit on corruption) talk to `compactionError` as modelled (either shape of `SetReadOnly`: before or since 832d000)")

	{
		sharedDB := []string{"nodeData", "kvData", "findGE", "findLT", "findLast", "p.n", "p.kvSize", "p.maxHeight", "prevNode", "p.rnd"}
		sharedIt := []string{"nodeData", "kvData", "i.fill(", "i.p.find"}
		ok := true
		for _, fn := range []string{"DB.Put", "DB.Delete", "DB.Contains", "DB.Get", "DB.Find", "DB.Capacity", "DB.Size", "DB.Free", "DB.Len", "DB.Reset"} {
			if !lockCovers("leveldb/memdb/memdb.go", fn, "p.mu", sharedDB) {
				fmt.Fprintln(os.Stderr, "memMethodsAtomic: fails for", fn)
				ok = false
			}
		}
		for _, fn := range []string{"dbIter.First", "dbIter.Last", "dbIter.Seek", "dbIter.Next", "dbIter.Prev"} {
			if !lockCovers("leveldb/memdb/memdb.go", fn, "i.p.mu", sharedIt) {
				fmt.Fprintln(os.Stderr, "memMethodsAtomic: fails for", fn)
				ok = false
			}
		}
		o.boolean("memMethodsAtomic", ok,
			"every public `memdb.DB` method and every `dbIter` movement touches the skip-list arrays only between taking `mu` and releasing it (one critical section per call)")
	}

	// configuration of the cache interleaving model (Model/Cache.lean, `Shared.clearDel`)
	o.boolean("cacheDeleteClearsDelFuncs",
		ifBodySeq("leveldb/cache/cache.go", "mBucket.delete", "deleted",
			[]string{"n.mu.Lock()", "delFuncs := n.delFuncs", "n.delFuncs = nil", "n.mu.Unlock()", "for _, f := range delFuncs {…"}) &&
			!strings.Contains(funcText("leveldb/cache/cache.go", "mBucket.delete"), "range n.delFuncs"),
		"`mBucket.delete` takes the delFuncs out of the removed node (`delFuncs := n.delFuncs; n.delFuncs = nil` between `n.mu.Lock()` and `n.mu.Unlock()`) before it calls them, and never ranges over `n.delFuncs` itself")

	o.boolean("cacheClosedUnrefRechecks",
		ifBodySeq("leveldb/cache/cache.go", "Node.unRefExternal", "n.r.closed", []string{"if atomic.LoadInt32(&n.ref) == 0 {…"}) &&
			ifBodyHas("leveldb/cache/cache.go", "Node.unRefExternal", "atomic.LoadInt32(&n.ref) == 0", "n.callFinalizer()") &&
			!ifBodyHas("leveldb/cache/cache.go", "Node.unRefExternal", "n.r.closed", "n.callFinalizer()") &&
			countStmts("leveldb/cache/cache.go", "Node.unRefExternal", "n.callFinalizer()") == 1,
		"in the `if n.r.closed` branch of `Node.unRefExternal` the only call of `n.callFinalizer()` is inside `if atomic.LoadInt32(&n.ref) == 0 { … }`")

	{
		unref := funcText("leveldb/cache/cache.go", "Node.unRefExternal")
		closeT := funcText("leveldb/cache/cache.go", "Cache.Close")
		o.boolean("cacheUnrefOwnLock",
			strings.Count(unref, "n.r.unrefMu.RLock()") == 1 && strings.Count(unref, "n.r.unrefMu.RUnlock()") == 1 &&
				!strings.Contains(unref, "n.r.mu.") &&
				textBefore("leveldb/cache/cache.go", "Node.unRefExternal", "n.r.unrefMu.RLock()", "n.r.closed") &&
				topStmtSeq("leveldb/cache/cache.go", "Cache.Close",
					[]string{"r.mu.Lock()", "r.unrefMu.Lock()", "if !r.closed {…", "r.unrefMu.Unlock()", "r.mu.Unlock()"}) &&
				strings.Count(closeT, "r.mu.Lock()") == 1 && strings.Count(closeT, "r.unrefMu.Lock()") == 1,
			"`Node.unRefExternal` read-locks `n.r.unrefMu` (and never `n.r.mu`) around its closed-check, and `Cache.Close` runs `if !r.closed {…}` between `r.mu.Lock(); r.unrefMu.Lock()` and `r.unrefMu.Unlock(); r.mu.Unlock()` (lock order mu, then unrefMu)")
	}

	// order facts behind the configuration of the interleaving model (Model/Conc.lean, Cfg)
	o.boolean("ordFlushCommitBeforeDrop", topStmtBefore("leveldb/db_compaction.go", "DB.memCompaction", `db.compactionCommit("memdb", rec)`, "db.dropFrozenMem()"),
		"`memCompaction` commits the flushed table (`compactionCommit`) before it drops the frozen buffer")
	o.boolean("ordReadersBuffersBeforeVersion", textBefore("leveldb/db.go", "DB.get", "db.getMems()", "db.s.version()") &&
		textBefore("leveldb/db.go", "DB.has", "db.getMems()", "db.s.version()") &&
		textBefore("leveldb/db_iter.go", "DB.newRawIterator", "db.getMems()", "db.s.version()"),
		"`DB.get`, `DB.has` and `DB.newRawIterator` take the buffers (`getMems`) before the version")
	o.boolean("pickSaveCopiesCursor", allAssignsCopy("leveldb/session_compaction.go", "compaction.save", "c.snapTPtrs") &&
		allAssignsCopy("leveldb/session_compaction.go", "compaction.restore", "c.tPtrs") &&
		countStmts("leveldb/session_compaction.go", "compaction.save", "c.snapTPtrs = append(c.snapTPtrs[:0], c.tPtrs...)") == 1 &&
		countStmts("leveldb/session_compaction.go", "compaction.restore", "c.tPtrs = append(c.tPtrs[:0], c.snapTPtrs...)") == 1,
		"`compaction.save` COPIES the `baseLevelForKey` cursor (`tPtrs`) and `restore` copies it back: a retried compaction restarts from the saved cursor, not from where the failed attempt left it")
	{
		// every exported method of *DB begins by checking that the DB is open (directly or through putRec); Close flips the flag itself
		ok := true
		n := 0
		for _, rel := range []string{"leveldb/db.go", "leveldb/db_write.go", "leveldb/db_transaction.go", "leveldb/db_snapshot.go", "leveldb/db_iter.go", "leveldb/db_state.go", "leveldb/db_util.go", "leveldb/db_compaction.go"} {
			fi := load(rel)
			for _, d := range fi.f.Decls {
				fd, isFn := d.(*ast.FuncDecl)
				if !isFn || fd.Recv == nil || len(fd.Recv.List) != 1 || !fd.Name.IsExported() || fd.Body == nil {
					continue
				}
				if exprString(fd.Recv.List[0].Type) != "*DB" {
					continue
				}
				n++
				var buf bytes.Buffer
				printer.Fprint(&buf, token.NewFileSet(), fd.Body)
				t := buf.String()
				switch fd.Name.Name {
				case "Close":
					if !strings.Contains(t, "db.setClosed()") {
						ok = false
					}
				case "Put", "Delete":
					if !strings.Contains(t, "db.putRec(") {
						ok = false
					}
				default:
					// the check must come before anything else is touched: within the first statement
					if len(fd.Body.List) == 0 {
						ok = false
						break
					}
					var b0 bytes.Buffer
					printer.Fprint(&b0, token.NewFileSet(), fd.Body.List[0])
					if !strings.Contains(b0.String(), "db.ok()") {
						fmt.Fprintln(os.Stderr, "lifeDBMethodsGuarded: no db.ok() in the first statement of", fd.Name.Name)
						ok = false
					}
				}
			}
		}
		pr := funcText("leveldb/db_write.go", "DB.putRec")
		o.boolean("lifeDBMethodsGuarded", ok && n >= 14 && strings.Index(pr, "db.ok()") >= 0 && strings.Index(pr, "db.ok()") < 40,
			"every exported method of `*DB` starts with the `db.ok()` check (Put/Delete through `putRec`; `Close` flips the flag with `setClosed`)")
	}
	{
		// wp51 BEGIN: the repairs of D41, D43, D44, D45, D46 (calls racing Close; Props/C18.lean `code_close_race_repairs`, Model/TrClose.lean)
		o.boolean("trOpenRegistersThenChecksClosed", trOpenRegistersThenChecksClosed(),
			"`OpenTransaction` does `db.trMu.Lock(); db.tr = tr; closed := db.isClosed(); db.trMu.Unlock()` and then `if closed { tr.Discard(); return nil, ErrClosed }`; `setDone` clears `db.tr` under `trMu` before it gives the write lock back (D43)")
		o.boolean("trCloseReadsUnderMuAfterClosed", trCloseReadsUnderMuAfterClosed(),
			"`DB.Close` reads `db.tr` once, in `db.trMu.Lock(); tr := db.tr; db.trMu.Unlock()`, after `setClosed` and `close(db.closeC)` and before it acquires the write lock, and discards what it saw (D43)")
		gs := funcTextOr("leveldb/cache/cache.go", "Cache.GetStats")
		o.boolean("lifeGetStatsNilSafe", gs != "" &&
			ifBodyHas("leveldb/cache/cache.go", "Cache.GetStats", "h != nil", "buckets = len(h.buckets)") &&
			strings.Contains(gs, "h := (*mHead)(atomic.LoadPointer(&r.mHead)); h != nil") &&
			!strings.Contains(gs, "(atomic.LoadPointer(&r.mHead)).buckets"),
			"`Cache.GetStats` reads the bucket table through `if h := (*mHead)(atomic.LoadPointer(&r.mHead)); h != nil { buckets = len(h.buckets) }` and never dereferences the loaded pointer unchecked (D41: `Cache.Close` stores nil there)")
		wraps := func(fn, ret string) bool {
			t := funcTextOr("leveldb/table.go", fn)
			return t != "" && strings.Contains(t, ret) && !strings.Contains(t, "return tr.Find") && !strings.Contains(t, "return tr.OffsetOf")
		}
		cir := findFunc("leveldb/table.go", "closedIfReleased")
		o.boolean("lifeReaderReleasedIsClosed", cir != nil && len(cir.Body.List) == 2 &&
			stmtText(cir.Body.List[0]) == "if err == table.ErrReaderReleased { return ErrClosed }" && stmtText(cir.Body.List[1]) == "return err" &&
			wraps("tOps.find", "return rkey, rvalue, closedIfReleased(err)") && wraps("tOps.findKey", "return rkey, closedIfReleased(err)") &&
			wraps("tOps.offsetOf", "return offset, closedIfReleased(err)") &&
			strings.Contains(funcTextOr("leveldb/db_iter.go", "dbIter.iterErr"), "i.setErr(closedIfReleased(err))"),
			"`tOps.find`, `tOps.findKey`, `tOps.offsetOf` and `dbIter.iterErr` pass the table reader's error through `closedIfReleased`, which maps `table.ErrReaderReleased` to `ErrClosed` (D44)")
		cv := func(fn, ret, use string) bool {
			return findFunc("leveldb/db.go", fn) != nil && ifBodyHas("leveldb/db.go", fn, "v.closing", ret) &&
				textBefore("leveldb/db.go", fn, "v := db.s.version()", "if v.closing {") && textBefore("leveldb/db.go", fn, "if v.closing {", use)
		}
		o.boolean("lifeClosingVersionIsClosed", cv("DB.GetProperty", `return "", ErrClosed`, "v.tLen(") && cv("DB.GetProperty", `return "", ErrClosed`, "v.levels") &&
			cv("DB.Stats", "return ErrClosed", "v.levels") && cv("DB.SizeOf", "return nil, ErrClosed", "v.offsetOf("),
			"`GetProperty`, `Stats` and `SizeOf` return `ErrClosed` when the version they took is the stand-in of a closed session (`if v.closing`), before they read its levels (D45)")
		rl := funcTextOr("leveldb/table/reader.go", "Reader.Release")
		o.boolean("lifeReleaseKeepsIndexBlock", rl != "" && !strings.Contains(rl, "r.indexBlock.Release()") &&
			ifBodyHas("leveldb/table/reader.go", "Reader.Release", "r.indexBlock != nil", "r.indexBlock = nil"),
			"`table.Reader.Release` drops the preloaded index block (`r.indexBlock = nil`) without `r.indexBlock.Release()`: its buffer is not recycled under iterators that walk it without a reference (D46)")
		// wp51 END
	}
	// wp64 BEGIN: the table-reader repairs of the Recover hunt wp60 (findings 1, 2, 5); Model/Table.lean `ReaderFix.code`,
	// Props/C13.lean `code_reader_repaired`
	{
		const rd, tb = "leveldb/table/reader.go", "leveldb/table/table.go"
		top := func(rel, fn string) (ts []string, ss []ast.Stmt) {
			if fd := findFunc(rel, fn); fd != nil {
				for _, st := range fd.Body.List {
					ts = append(ts, stmtText(st))
					ss = append(ss, st)
				}
			}
			return
		}
		idx := func(ts []string, want string) int { // the only top-level statement with exactly that text, or -1
			at := -1
			for i, t := range ts {
				if t == want {
					if at >= 0 {
						return -1
					}
					at = i
				}
			}
			return at
		}
		body := func(st ast.Stmt, cond string) []string { // statements of `if <cond> { … }` without else, or nil
			is, ok := st.(*ast.IfStmt)
			if !ok || is.Init != nil || is.Else != nil || stmtText(is.Cond) != cond {
				return nil
			}
			var out []string
			for _, b := range is.Body.List {
				out = append(out, stmtText(b))
			}
			return out
		}
		nr, nrs := top(rd, "NewReader")
		iMeta := idx(nr, "metaBlock, err := r.readBlock(r.metaBH, true)")
		iIdxBH := idx(nr, "r.indexBH, n = decodeBlockHandle(footer[n:])")
		iEnd := idx(nr, "r.dataEnd = int64(r.metaBH.offset)")
		// 1. a corrupted metaindex block is dropped (no permanent error), its loop is skipped, dataEnd comes from the footer
		metaOK := false
		if iMeta >= 0 && iMeta+1 < len(nr) && iEnd > iMeta {
			b := body(nrs[iMeta+1], "err != nil")
			guard := -1
			for i, t := range nr {
				if strings.HasPrefix(t, "if metaBlock != nil {") {
					if guard >= 0 {
						guard = -2
						break
					}
					guard = i
				}
			}
			metaOK = len(b) == 2 && b[0] == "if !errors.IsCorrupted(err) { return nil, err }" && b[1] == "metaBlock = nil" &&
				guard > iEnd && strings.Contains(nr[guard], "metaIter := r.newBlockIter(metaBlock, nil, nil, true)") &&
				strings.Contains(nr[guard], "metaBlock.Release()") &&
				idx(nr, "metaIter := r.newBlockIter(metaBlock, nil, nil, true)") < 0 && idx(nr, "metaBlock.Release()") < 0
		}
		o.boolean("tblMetaindexCorruptionCostsFilterOnly", metaOK,
			"`table.NewReader`: after `metaBlock, err := r.readBlock(r.metaBH, true)` a corruption error only clears the block (`if err != nil { if !errors.IsCorrupted(err) { return nil, err }; metaBlock = nil }`, no `r.err = err`), `r.dataEnd = int64(r.metaBH.offset)` follows, and the metaindex loop with both releases sits inside `if metaBlock != nil { … }`: a damaged metaindex block costs the filter, not the table (finding 1 of wp60)")
		// 2. both footer handles are checked against the file before anything is read
		const chk = "for _, bh := range []blockHandle{r.metaBH, r.indexBH} { if bh.offset > uint64(footerPos) || bh.length > uint64(footerPos)-bh.offset { " +
			"r.err = r.newErrCorrupted(footerPos, footerLen, \"table-footer\", \"block handle out of range\") return r, nil } }"
		iChk := idx(nr, chk)
		iPos := idx(nr, "footerPos := size - footerLen")
		firstRead := -1
		for i, t := range nr {
			if strings.Contains(t, "r.readBlock(") || strings.Contains(t, "r.readFilterBlock(") || strings.Contains(t, "r.readRawBlock(") {
				firstRead = i
				break
			}
		}
		o.boolean("tblFooterHandlesChecked", iChk >= 0 && iPos >= 0 && iPos < iChk && iIdxBH >= 0 && iIdxBH+1 < iChk && firstRead > iChk,
			"`table.NewReader` runs `for _, bh := range []blockHandle{r.metaBH, r.indexBH} { if bh.offset > uint64(footerPos) || bh.length > uint64(footerPos)-bh.offset { r.err = <table-footer corruption>; return r, nil } }` (with `footerPos := size - footerLen`) after both handles are decoded and before the first block is read: no buffer of a length claimed by the unchecksummed footer is allocated unless the block lies within the file (finding 2 of wp60)")
		// 3. a short read is a corrupted block
		rr, rrs := top(rd, "Reader.readRawBlock")
		shortOK := len(rr) >= 4 && rr[0] == "data := r.bpool.Get(int(bh.length + blockTrailerLen))" &&
			rr[1] == "n, err := r.reader.ReadAt(data, int64(bh.offset))" && rr[2] == "if err != nil && err != io.EOF { return nil, err }"
		if shortOK {
			b := body(rrs[3], "n < len(data)")
			shortOK = len(b) == 2 && b[0] == "r.bpool.Put(data)" && strings.HasPrefix(b[1], "return nil, r.newErrCorruptedBH(bh, ")
		}
		o.boolean("tblShortReadIsCorruption", shortOK,
			"`Reader.readRawBlock` starts `data := r.bpool.Get(int(bh.length + blockTrailerLen)); n, err := r.reader.ReadAt(data, int64(bh.offset)); if err != nil && err != io.EOF { return nil, err }; if n < len(data) { r.bpool.Put(data); return nil, r.newErrCorruptedBH(bh, …) }`: a block handle reaching beyond the end of the file is a corrupted block, the recycled buffer's old contents are never looked at (finding 5 of wp60)")
		// 4. decodeBlockHandle: an overflowing varint (n < 0) is a bad handle, never an index
		dh, _ := top(tb, "decodeBlockHandle")
		o.boolean("tblDecodeHandleRejectsOverflow", len(dh) == 5 && dh[0] == "offset, n := binary.Uvarint(src)" &&
			dh[1] == "if n <= 0 { return blockHandle{}, 0 }" && dh[2] == "length, m := binary.Uvarint(src[n:])" &&
			dh[3] == "if m <= 0 { return blockHandle{}, 0 }" && dh[4] == "return blockHandle{offset, length}, n + m",
			"`decodeBlockHandle` is `offset, n := binary.Uvarint(src); if n <= 0 { return blockHandle{}, 0 }; length, m := binary.Uvarint(src[n:]); if m <= 0 { return blockHandle{}, 0 }; return blockHandle{offset, length}, n + m`: a varint that overflows 64 bits is treated like a short one instead of being used as a slice index (finding 2 of wp60)")
	}
	// wp64 END
	o.boolean("ordPointReadsHoldSnapshot", topStmtBefore("leveldb/db.go", "DB.Get", "se := db.acquireSnapshot()", "defer db.releaseSnapshot(se)") &&
		topStmtBefore("leveldb/db.go", "DB.Get", "defer db.releaseSnapshot(se)", "return db.get(nil, nil, key, se.seq, ro)") &&
		topStmtBefore("leveldb/db.go", "DB.Has", "se := db.acquireSnapshot()", "defer db.releaseSnapshot(se)") &&
		topStmtBefore("leveldb/db.go", "DB.Has", "defer db.releaseSnapshot(se)", "return db.has(nil, nil, key, se.seq, ro)"),
		"`DB.Get` and `DB.Has` keep their sequence number registered as a snapshot (deferred release) for the whole lookup, so no compaction drops what they are entitled to see")
	o.boolean("ordOpenTxWaitsForFrozenFlush", strings.Contains(funcText("leveldb/db_transaction.go", "DB.OpenTransaction"), "else if err := db.compTriggerWait(db.mcompCmdC); err != nil") &&
		textBefore("leveldb/db_transaction.go", "DB.OpenTransaction", "db.compTriggerWait(db.mcompCmdC)", "tr := &Transaction{"),
		"`OpenTransaction` flushes a non-empty buffer and otherwise waits for a pending frozen-buffer flush before recording its sequence number")
	o.boolean("ordDiscardKeepsSeq", ifBodyHas("leveldb/db_transaction.go", "Transaction.discard", "tr.seq > tr.db.getSeq()", "tr.db.setSeq(tr.seq)"),
		"`Transaction.discard` advances the DB sequence number past the discarded range")
	o.boolean("ordApplyBeforePublish", func() bool {
		t := funcText("leveldb/db_write.go", "DB.writeLocked")
		i, j := strings.Index(t, "batch.putMem(seq, mdb.DB)"), strings.LastIndex(t, "db.addSeq(uint64(batchesLen(batches)))")
		return i >= 0 && j >= 0 && i < j && strings.Count(t, "db.addSeq(") == 2
	}(),
		"`writeLocked` inserts the group into the buffer before it publishes the new sequence number")

	// what a write group carries (C10, with C04 and C20 through the merge: Model/WriteProto.lean `Cfg.code`, `mergeLimitOf`)
	o.b.WriteString("\n/-! What `writeLocked` / `unlockWrite` do with the contents of a write group. -/\n\n")
	o.boolean("wpSyncOutsideBranches", wpSyncOutside(),
		"in `writeLocked`, `sync = sync || incoming.sync` is a statement of the body of `case incoming := <-db.writeMergeC` outside both branches of `if incoming.batch != nil`, between that `if` and `db.writeMergedC <- true`, and occurs once")
	o.boolean("wpPoolBatchReset", ifBodySeq("leveldb/db_write.go", "DB.writeLocked", "ourBatch == nil",
		[]string{"ourBatch = db.batchPool.Get().(*Batch)", "ourBatch.Reset()", "batches = append(batches, ourBatch)"}) &&
		countStmts("leveldb/db_write.go", "DB.writeLocked", "ourBatch = db.batchPool.Get().(*Batch)") == 1 &&
		topStmtBefore("leveldb/db_write.go", "DB.putRec", "batch := db.batchPool.Get().(*Batch)", "batch.Reset()") &&
		topStmtBefore("leveldb/db_write.go", "DB.putRec", "batch.Reset()", "batch.appendRec(kt, key, value)") &&
		topStmtBefore("leveldb/db_write.go", "DB.putRec", "batch.appendRec(kt, key, value)", "return db.writeLocked(batch, batch, merge, sync)"),
		"in the merge loop of `writeLocked`, `ourBatch.Reset()` follows `ourBatch = db.batchPool.Get().(*Batch)` (before it is appended to `batches`); `putRec` resets its pooled batch before `appendRec` and passes it as both `batch` and `ourBatch`")
	o.boolean("wpMergedPutToOurBatch", wpMergedPutToOur() &&
		strings.Contains(funcText("leveldb/db_write.go", "DB.Write"), "return db.writeLocked(batch, nil, merge, sync)"),
		"the record of a merged Put/Delete is appended with `ourBatch.appendRec(…)` (the only `appendRec` of `writeLocked`, after the `if ourBatch == nil {…}`), no mutating method is called on `batch`/`incoming.batch`, and `Write` passes `ourBatch = nil`")
	o.boolean("wpUnlockHandsOffOnError", wpUnlockHandsOff(),
		"`unlockWrite` is the ack loop (`db.writeAckC <- err`, `merged` times) followed by `if overflow { db.writeMergedC <- false } else { <-db.writeLockC }`: the test is `overflow` alone, whatever `err`")
	{
		x, y, z, shape := wpMergeLimit()
		o.nat("wpMergeBigBatch", x, "writeLocked: if batch.internalLen > …")
		o.nat("wpMergeLimitBig", y, "writeLocked: mergeLimit = … - batch.internalLen")
		o.nat("wpMergeLimitSmall", z, "writeLocked: else mergeLimit = …")
		o.boolean("wpMergeLimitShape", shape,
			"`mergeCap := mdbFree - batch.internalLen; if mergeLimit > mergeCap { mergeLimit = mergeCap }` precede `for mergeLimit > 0`; both overflow tests are `… > mergeLimit` followed by `overflow = true; break merge`; `mergeLimit` is decreased by `incoming.batch.internalLen`, resp. `len(incoming.key) + len(incoming.value) + 8`, and is mentioned nowhere else")
	}

	// order facts behind the file-removal model (C07: Model/TableRemove.lean, Model/Session.lean)
	o.boolean("removeReusesInsideDelete", func() bool {
		in, out := callsInsideFuncLitArg("leveldb/table.go", "tOps.remove", "t.fileCache.Delete", "reuseFileNum")
		rin, rout := callsInsideFuncLitArg("leveldb/table.go", "tOps.remove", "t.fileCache.Delete", "Remove")
		return in == 1 && out == 0 && rin == 1 && rout == 0
	}(),
		"in `tOps.remove` both `t.s.stor.Remove(fd)` and `t.s.reuseFileNum(fd.Num)` are called (once each) inside the func literal passed to `t.fileCache.Delete`, i.e. when the last cache handle of the table is gone, and nowhere else")
	o.boolean("removeEvictsBeforeReuse", func() bool {
		t := funcText("leveldb/table.go", "tOps.remove")
		e := strings.LastIndex(t, "t.blockCache.EvictNS(uint64(fd.Num))")
		r := strings.Index(t, "t.s.reuseFileNum(fd.Num)")
		return e >= 0 && r > e && strings.Count(t, "reuseFileNum(") == 1 &&
			strings.Contains(t, "reusable := t.s.nextFileNum() == fd.Num+1") &&
			strings.Contains(t, "if t.blockCache != nil && (t.evictRemoved || reusable) {") &&
			strings.Contains(t, "if reusable { t.s.reuseFileNum(fd.Num) }") || (e >= 0 && r > e && strings.Count(t, "reuseFileNum(") == 1 &&
			strings.Contains(t, "reusable := t.s.nextFileNum() == fd.Num+1") &&
			strings.Contains(strings.Join(strings.Fields(t), " "), "if reusable { t.s.reuseFileNum(fd.Num) }"))
	}(),
		"in `tOps.remove` every `t.blockCache.EvictNS(uint64(fd.Num))` precedes the only `t.s.reuseFileNum(fd.Num)`, and the eviction happens whenever the number is about to be given back (`reusable := t.s.nextFileNum() == fd.Num+1`; `if t.blockCache != nil && (t.evictRemoved || reusable)`): no other table can be named by the number while blocks of the removed one are cached (the D50 repair)")
	o.boolean("closeTopsBeforeFinalSetVersion",
		topStmtBefore("leveldb/session.go", "session.close", "s.tops.close()",
			"s.setVersion(nil, &version{s: s, closing: true, id: s.ntVersionID})"),
		"`session.close` closes the table cache (`s.tops.close()`) before it installs the closing version, which releases the current one")
	o.boolean("cacheDeleteClosedNoDelFunc",
		ifBodyHas("leveldb/cache/cache.go", "Cache.Delete", "r.closed", "return false") &&
			textBefore("leveldb/cache/cache.go", "Cache.Delete", "if r.closed {", "delFunc"),
		"`Cache.Delete` returns (`if r.closed { return false }`) before it touches `delFunc` when the cache is closed")
	o.boolean("setVersionAddedOnce",
		ifBodyHas("leveldb/session_util.go", "session.setVersion", "seen[t.num]; ok", "continue") &&
			textBefore("leveldb/session_util.go", "session.setVersion", "if _, ok := seen[t.num]; ok {", "added = append(added, t.num)") &&
			countStmts("leveldb/session_util.go", "session.setVersion", "added = append(added, t.num)") == 1,
		"`setVersion` appends a table number to the delta's `added` only after the `seen` check (each table once: the D13 repair)")
	o.boolean("commitRotationFreshRecord",
		strings.Contains(funcText("leveldb/session.go", "session.commit"), "err = s.newManifest(nr, nv)") &&
			strings.Count(funcText("leveldb/session.go", "session.commit"), "s.newManifest(r, nv)") == 1 &&
			textBefore("leveldb/session.go", "session.commit", "if s.manifest == nil {", "s.newManifest(r, nv)") &&
			textBefore("leveldb/session.go", "session.commit", "s.newManifest(r, nv)", "} else if"),
		"`session.commit` hands the committing record `r` to `newManifest` only when `s.manifest == nil`; a rotation passes a fresh record `nr`")

	// how `recoverTable` makes its manifest current (C19: Model/RecoverOps.lean, `RCfg.createsEmptyManifestFirst`)
	o.boolean("recoverTableCommitsOnly", func() bool {
		t := funcText("leveldb/db.go", "recoverTable")
		fd := findFunc("leveldb/db.go", "recoverTable")
		last := ""
		if n := len(fd.Body.List); n > 0 {
			last = strings.TrimSpace(stmtText(fd.Body.List[n-1]))
		}
		return !strings.Contains(t, "s.create(") && !strings.Contains(t, "newManifest(") &&
			!strings.Contains(t, "SetMeta(") && strings.Count(t, "s.commit(") == 1 &&
			last == "return s.commit(rec, false)"
	}(),
		"`recoverTable` contains no call of `s.create()`, `newManifest` or `SetMeta`; its only commit is its last statement `return s.commit(rec, false)` (with `s.manifest == nil` that is `newManifest(rec, nv)`: the D33 repair)")
	o.boolean("memPutSetsKeyLenOnOverwrite", ifBodySeq("leveldb/memdb/memdb.go", "DB.Put", "node, exact := p.findGE(key, true); exact",
		[]string{"p.nodeData[node] = kvOffset", "p.nodeData[node+nKey] = len(key)", "p.nodeData[node+nVal] = len(value)"}),
		"the overwrite branch of `memdb.Put` (`if node, exact := p.findGE(key, true); exact`) points the node at the appended pair and sets BOTH lengths, `nodeData[node+nKey] = len(key)` and `nodeData[node+nVal] = len(value)` (the D56 repair: a comparer may call keys of different lengths equal)")
	o.boolean("blockSeekGuardsIndex", func() bool {
		t := funcText("leveldb/table/reader.go", "block.seek")
		g := strings.Index(t, "if index >= b.restartsLen {")
		r := strings.LastIndex(t, "binary.LittleEndian.Uint32(b.data[b.restartsOffset+4*index:])")
		return g >= 0 && r > g && strings.Contains(strings.Join(strings.Fields(t[g:r]), " "), "return index, b.restartsOffset, nil")
	}(),
		"`block.seek` returns `(index, b.restartsOffset, nil)` when `index >= b.restartsLen` before it reads `restart[index]` (the D57 repair: an empty restart range behind the last restart point; `Model/BlockIter.seekR`)")
	o.boolean("batchLenCheckUnsigned", func() bool {
		t := funcText("leveldb/batch.go", "decodeBatch")
		return strings.Count(t, "x > uint64(len(data)-o)") == 2 && !strings.Contains(t, "o+int(x) > len(data)")
	}(),
		"`decodeBatch` rejects a key or value length with `x > uint64(len(data)-o)` (unsigned, against what is left of the buffer) in both places and nowhere computes `o+int(x)` (the D49 repair; `Model/Batch.decodeRec` compares in ℕ)")
	o.boolean("batchDecodeClearsOnError", func() bool {
		return ifBodySeq("leveldb/batch.go", "Batch.decode", "err != nil",
			[]string{"b.data = nil", "b.index = b.index[:0]", "b.internalLen = 0"}) &&
			strings.HasSuffix(strings.TrimSpace(strings.TrimSuffix(strings.TrimSpace(funcText("leveldb/batch.go", "Batch.decode")), "}")), "return err")
	}(),
		"`Batch.decode` empties the batch (`b.data = nil; b.index = b.index[:0]; b.internalLen = 0`) when decoding failed or the record count is wrong, then returns the error (the D48 repair)")
	o.boolean("recoverMarksAllFileNums", func() bool {
		// `all, err := s.stor.List(storage.TypeAll)` … `for _, fd := range all { s.markFileNum(fd.Num) }` before the only
		// `s.commit(` of recoverTable (the manifest number is allocated inside it)
		t := funcText("leveldb/db.go", "recoverTable")
		a := strings.Index(t, "s.stor.List(storage.TypeAll)")
		b := strings.Index(t, "for _, fd := range all {")
		c := strings.Index(t, "s.commit(")
		return a >= 0 && b > a && c > b &&
			ifBodyHasLoopMark(t[b:c])
	}(),
		"`recoverTable` marks every file number `s.stor.List(storage.TypeAll)` returns (`for _, fd := range all { s.markFileNum(fd.Num) }`) before its `s.commit`: the manifest Recover writes is numbered above every file in the storage (the D47 repair; `Model/RecoverOps.manifestNum`)")

	o.boolean("newManifestWriteSyncSetMeta",
		textBefore("leveldb/session_util.go", "session.newManifest", "s.stor.Create(fd)", "rec.encode(w)") &&
			textBefore("leveldb/session_util.go", "session.newManifest", "rec.encode(w)", "jw.Flush()") &&
			textBefore("leveldb/session_util.go", "session.newManifest", "jw.Flush()", "writer.Sync()") &&
			textBefore("leveldb/session_util.go", "session.newManifest", "writer.Sync()", "s.stor.SetMeta(fd)") &&
			strings.Count(funcText("leveldb/session_util.go", "session.newManifest"), "s.stor.SetMeta(fd)") == 1 &&
			countStmts("leveldb/session_util.go", "session.newManifest", "err = s.stor.SetMeta(fd)") == 1,
		"`newManifest`: `Create`, one record (`rec.encode`, `Flush`), `Sync`, and `SetMeta` as the last storage call")

	// the error paths of the DB iterator (C02 / C08)
	o.b.WriteString("\n/-! Error paths of `dbIter` (read off the Go AST). -/\n\n")
	o.boolean("iterPrevChecksErr", func() bool {
		// the last two top-level statements of dbIter.prev: `if i.iterErr(); i.err != nil { return false }`, `return true`
		fd := findFunc("leveldb/db_iter.go", "dbIter.prev")
		if fd == nil {
			fatal("function dbIter.prev not found")
		}
		n := len(fd.Body.List)
		if n < 2 {
			return false
		}
		txt := func(st ast.Stmt) string {
			var buf bytes.Buffer
			printer.Fprint(&buf, token.NewFileSet(), st)
			return strings.Join(strings.Fields(buf.String()), " ")
		}
		return txt(fd.Body.List[n-2]) == "if i.iterErr(); i.err != nil { return false }" && txt(fd.Body.List[n-1]) == "return true"
	}(),
		"`dbIter.prev`: the scan's last exit consults the raw iterator's error (`if i.iterErr(); i.err != nil { return false }`) before `return true` (the D40 repair)")

	// the durability repairs D10, D26, D12 (Model/Durable.lean: `Cfg.discardKeepsTablesWhenUncertain`,
	// `Cfg.cleanupChecksCurrent`, `Cfg.manifestsAloneAreNoDB`)
	o.boolean("discardGuardsUncertainManifest", func() bool {
		// `Transaction.discard`: an `if tr.db.s.manifestUncertain() { …; return }` among the top-level statements,
		// before the `for … range tr.tables` loop that removes the tables; no removal outside that loop
		fd := findFunc("leveldb/db_transaction.go", "Transaction.discard")
		if fd == nil {
			return false
		}
		guard, loop := -1, -1
		for i, st := range fd.Body.List {
			t := strings.TrimSpace(stmtText(st))
			if is, ok := st.(*ast.IfStmt); ok && strings.TrimSpace(exprString(is.Cond)) == "tr.db.s.manifestUncertain()" {
				n := len(is.Body.List)
				if n > 0 && strings.TrimSpace(stmtText(is.Body.List[n-1])) == "return" && guard < 0 {
					guard = i
				}
			}
			if _, ok := st.(*ast.RangeStmt); ok && strings.HasPrefix(t, "for _, t := range tr.tables") &&
				strings.Contains(t, "tr.db.s.tops.remove(t.fd)") {
				loop = i
			}
		}
		return guard >= 0 && loop > guard &&
			strings.Count(funcText("leveldb/db_transaction.go", "Transaction.discard"), "tops.remove(") == 1 &&
			strings.Contains(funcText("leveldb/session.go", "session.manifestUncertain"), "atomic.LoadUint32(&s.manifestFailed) == 1") &&
			ifBodyHas("leveldb/session.go", "session.commit", "err != nil", "atomic.StoreUint32(&s.manifestFailed, 1)") &&
			strings.Contains(funcText("leveldb/session.go", "session.commit"), "|| s.manifestUncertain()")
	}(),
		"`Transaction.discard` returns (`if tr.db.s.manifestUncertain() { …; return }`) before its only removal loop (`for _, t := range tr.tables { … tops.remove(t.fd) }`); `manifestUncertain` reads `manifestFailed`, which `session.commit` sets when `flushManifest` fails and which sends the next commit to `newManifest` (the D10 repair)")
	o.boolean("newManifestCleanupChecksCurrent", func() bool {
		// in the error branch of `newManifest`'s deferred cleanup: `if metaTried { if cur, gerr := s.stor.GetMeta();
		// gerr != nil || cur == fd { atomic.StoreUint32(&s.manifestFailed, 1); return } }` before the statement that
		// calls `s.stor.Remove(fd)`; `metaTried = true` is set right before the only `s.stor.SetMeta(fd)`
		t := funcText("leveldb/session_util.go", "session.newManifest")
		cond := "gerr != nil || cur == fd"
		return ifBodySeq("leveldb/session_util.go", "session.newManifest", "cur, gerr := s.stor.GetMeta(); "+cond,
			[]string{"atomic.StoreUint32(&s.manifestFailed, 1)", "return"}) &&
			strings.Count(t, "s.stor.Remove(fd)") == 1 &&
			strings.Count(t, "s.stor.SetMeta(fd)") == 1 &&
			strings.Index(t, cond) >= 0 &&
			strings.Index(t, cond) < strings.Index(t, "s.stor.Remove(fd)") &&
			strings.Index(t, "metaTried = true") >= 0 &&
			strings.Index(t, "metaTried = true") < strings.Index(t, "s.stor.SetMeta(fd)") &&
			strings.Count(t, "metaTried = ") == 1
	}(),
		"the error branch of `newManifest`'s cleanup, once `SetMeta(fd)` has been attempted (`metaTried`), asks `s.stor.GetMeta()` and keeps the new manifest (`gerr != nil || cur == fd` ⇒ set `manifestFailed`, `return`) before its only `s.stor.Remove(fd)` (the D26 repair, both commits)")
	o.boolean("recoverNoMetaNeedsData", func() bool {
		t := funcText("leveldb/session.go", "session.recover")
		return strings.Contains(t, "noMeta = os.IsNotExist(err)") &&
			strings.Contains(t, "jt, _ := s.stor.List(storage.TypeJournal | storage.TypeTable); !noMeta || len(jt) > 0") &&
			strings.Count(t, "database entry point either missing or corrupted") == 1 &&
			ifBodyHas("leveldb/session.go", "session.recover", "jt, _ := s.stor.List(storage.TypeJournal | storage.TypeTable); !noMeta || len(jt) > 0",
				`err = &errors.ErrCorrupted{Err: errors.New("database entry point either missing or corrupted")}`) &&
			textBefore("leveldb/session.go", "session.recover", "fd, err := s.stor.GetMeta()", "noMeta = os.IsNotExist(err)")
	}(),
		"`session.recover` raises \"database entry point either missing or corrupted\" only inside `if jt, _ := s.stor.List(TypeJournal|TypeTable); !noMeta || len(jt) > 0`, with `noMeta = os.IsNotExist(err)` set from the error of `GetMeta` (the D12 repair)")

	// ---- wp50: fileStorage.setMeta / GetMeta (Model/FSMeta.lean `codeCfg`, C04FS.code_is_modelled) -- BEGIN
	{
		const fsgo = "leveldb/storage/file_storage.go"
		const ux = "leveldb/storage/file_storage_unix.go"
		statIf := "_, err := os.Stat(currentPath); err == nil"
		sm := funcText(fsgo, "fileStorage.setMeta")
		o.boolean("fsSetMetaEqualShortcut",
			ifBodySeq(fsgo, "fileStorage.setMeta", statIf, []string{
				"b, err := ioutil.ReadFile(currentPath)", "if err != nil {…", "if string(b) == content {…",
				"if err := writeFileSynced(currentPath+\".bak\", b, 0644); err != nil {…"}) &&
				ifBodyHas(fsgo, "fileStorage.setMeta", "string(b) == content", "return nil") &&
				strings.Count(sm, "string(b) == content") == 1 &&
				topStmtSeq(fsgo, "fileStorage.setMeta", []string{"content := fsGenName(fd) + \"\\n\"", "currentPath := filepath.Join(fs.path, \"CURRENT\")"}),
			"`setMeta`: inside `if _, err := os.Stat(currentPath); err == nil`, after `ReadFile(currentPath)` and its error return and before the backup, `if string(b) == content { return nil }` with `content := fsGenName(fd) + \"\\n\"`")
		o.boolean("fsSetMetaBackupFirst",
			topStmtSeq(fsgo, "fileStorage.setMeta", []string{
				"if " + statIf + " {…", "path := fmt.Sprintf(\"%s.%d\", filepath.Join(fs.path, \"CURRENT\"), fd.Num)",
				"if err := writeFileSynced(path, []byte(content), 0644); err != nil {…"}) &&
				ifBodyHas(fsgo, "fileStorage.setMeta", "writeFileSynced(currentPath+\".bak\", b, 0644); err != nil", "return err") &&
				strings.Count(sm, "writeFileSynced(") == 2 &&
				strings.Contains(sm, "} else if !os.IsNotExist(err) {\n\t\treturn err\n\t}"),
			"`setMeta`: the `Stat(CURRENT)` block (which writes `CURRENT.bak` with `writeFileSynced` and returns its error) stands before the creation of `CURRENT.<num>`; a `Stat` error other than not-exist is returned")
		wf := funcText(fsgo, "writeFileSynced")
		o.boolean("fsSetMetaSyncedBeforeRename",
			topStmtSeq(fsgo, "fileStorage.setMeta", []string{
				"if err := writeFileSynced(path, []byte(content), 0644); err != nil {…", "if err := rename(path, currentPath); err != nil {…"}) &&
				ifBodyHas(fsgo, "fileStorage.setMeta", "writeFileSynced(path, []byte(content), 0644); err != nil", "return err") &&
				ifBodyHas(fsgo, "fileStorage.setMeta", "rename(path, currentPath); err != nil", "return err") &&
				strings.Count(sm, "rename(") == 1 &&
				topStmtSeq(fsgo, "writeFileSynced", []string{
					"f, err := os.OpenFile(filename, os.O_WRONLY|os.O_CREATE|os.O_TRUNC, perm)", "if err != nil {…",
					"n, err := f.Write(data)", "if err == nil && n < len(data) {…", "if err1 := f.Sync(); err == nil {…",
					"if err1 := f.Close(); err == nil {…", "return err"}) &&
				strings.Count(wf, "f.Sync()") == 1 && strings.Count(wf, "f.Write(") == 1 &&
				strings.Contains(funcText(ux, "rename"), "return os.Rename(oldpath, newpath)"),
			"`setMeta`: `writeFileSynced(CURRENT.<num>)` (OpenFile O_WRONLY|O_CREATE|O_TRUNC, Write, Sync, Close, first error wins) with its error return stands before the only `rename(path, currentPath)` (= `os.Rename`), whose error is returned")
		o.boolean("fsSetMetaSyncDirLast",
			topStmtSeq(fsgo, "fileStorage.setMeta", []string{
				"if err := rename(path, currentPath); err != nil {…", "if err := syncDir(fs.path); err != nil {…", "return nil"}) &&
				ifBodyHas(fsgo, "fileStorage.setMeta", "syncDir(fs.path); err != nil", "return err") &&
				strings.Count(sm, "syncDir(") == 1 &&
				topStmtSeq(ux, "syncDir", []string{"f, err := os.Open(name)", "if err != nil {…", "defer f.Close()",
					"if err := f.Sync(); err != nil && !isErrInvalid(err) {…", "return nil"}),
			"`setMeta`: `syncDir(fs.path)` (open the directory, `f.Sync()`) stands after the `rename` and before the final `return nil`; its error is returned")
		gm := funcText(fsgo, "fileStorage.GetMeta")
		o.boolean("fsGetMetaPendGuard",
			ifBodyHas(fsgo, "fileStorage.GetMeta", "pendCur != nil && (curCur == nil || pendCur.fd.Num > curCur.fd.Num)", "curCur = pendCur") &&
				strings.Count(gm, "curCur = pendCur") == 1,
			"`GetMeta`: `if pendCur != nil && (curCur == nil || pendCur.fd.Num > curCur.fd.Num) { curCur = pendCur }` is the only place a pending file is preferred")
		o.boolean("fsGetMetaOrder",
			topStmtSeq(fsgo, "fileStorage.GetMeta", []string{
				"names, err := dir.Readdirnames(0)", "tryCurrent := func(name string) (*currentFile, error) {…",
				"tryCurrents := func(names []string) (*currentFile, error) {…", "for _, name := range names {…",
				"if len(nums) > 0 {…", "curCur, curErr := tryCurrents([]string{\"CURRENT\", \"CURRENT.bak\"})",
				"if curErr != nil && curErr != os.ErrNotExist && !isCorrupted(curErr) {…",
				"if pendCur != nil && (curCur == nil || pendCur.fd.Num > curCur.fd.Num) {…", "if curCur != nil {…",
				"if isCorrupted(pendErr) {…", "return FileDesc{}, curErr"}) &&
				ifBodySeq(fsgo, "fileStorage.GetMeta", "len(nums) > 0", []string{
					"sort.Sort(sort.Reverse(int64Slice(nums)))", "pendNames = make([]string, len(nums))", "for i, num := range nums {…",
					"pendCur, pendErr = tryCurrents(pendNames)", "if pendErr != nil && pendErr != os.ErrNotExist && !isCorrupted(pendErr) {…"}) &&
				ifBodyHas(fsgo, "fileStorage.GetMeta", "isCorrupted(pendErr)", "return FileDesc{}, pendErr") &&
				strings.Contains(gm, "strings.HasPrefix(name, \"CURRENT.\") && name != \"CURRENT.bak\"") &&
				strings.Contains(gm, "if len(b) < 1 || b[len(b)-1] != '\\n' || !fsParseNamePtr(") &&
				strings.Contains(gm, "os.Stat(filepath.Join(fs.path, fsGenName(fd)))"),
			"`GetMeta`: pending files (`CURRENT.<int>`, descending) are tried first, then `[CURRENT, CURRENT.bak]`; a file is skipped when it is missing, corrupted (empty, no final newline, `fsParseName` fails) or its target is missing; at the end a corruption among the pending files takes precedence over the error of the second group")
		o.boolean("fsGetMetaRepair",
			ifBodySeq(fsgo, "fileStorage.GetMeta", "curCur != nil", []string{
				"if !fs.readOnly && (curCur.name != \"CURRENT\" || len(pendNames) != 0) {…", "return curCur.fd, nil"}) &&
				ifBodySeq(fsgo, "fileStorage.GetMeta", "!fs.readOnly && (curCur.name != \"CURRENT\" || len(pendNames) != 0)", []string{
					"if err := fs.setMeta(curCur.fd); err == nil {…"}) &&
				ifBodySeq(fsgo, "fileStorage.GetMeta", "err := fs.setMeta(curCur.fd); err == nil", []string{"for _, name := range pendNames {…"}) &&
				strings.Count(gm, "os.Remove(") == 1 && strings.Count(gm, "fs.setMeta(") == 1,
			"`GetMeta`: unless read-only, when the answer does not come from `CURRENT` or pending files exist, `setMeta(curCur.fd)` is run and, only if it returned nil, every pending file is removed (errors logged); the answer is returned regardless")
	}
	// ---- wp50 -- END
	o.b.WriteString("\nend GoLevel.Gen\n")

	if leanOut != "" {
		old, _ := os.ReadFile(leanOut)
		if string(old) != o.b.String() { // keep mtime when unchanged so that lake does not rebuild
			if err := os.MkdirAll(filepath.Dir(leanOut), 0o755); err != nil {
				fatal("%v", err)
			}
			if err := os.WriteFile(leanOut, []byte(o.b.String()), 0o644); err != nil {
				fatal("%v", err)
			}
		}
	} else {
		fmt.Print(o.b.String())
	}

	// fingerprints of modelled functions
	if fpOut != "" {
		fp := map[string]string{}
		for _, rel := range modelledFiles {
			fi := load(rel)
			for _, d := range fi.f.Decls {
				fd, ok := d.(*ast.FuncDecl)
				if !ok || fd.Body == nil {
					continue
				}
				name := fd.Name.Name
				if fd.Recv != nil && len(fd.Recv.List) == 1 {
					var buf bytes.Buffer
					printer.Fprint(&buf, token.NewFileSet(), fd.Recv.List[0].Type)
					name = strings.TrimPrefix(buf.String(), "*") + "." + name
				}
				// strip comments: print the body only
				var buf bytes.Buffer
				cfg := printer.Config{Mode: printer.RawFormat}
				cfg.Fprint(&buf, token.NewFileSet(), fd.Body)
				h := sha256.Sum256(buf.Bytes())
				fp[rel+":"+name] = hex.EncodeToString(h[:8])
			}
		}
		keys := make([]string, 0, len(fp))
		for k := range fp {
			keys = append(keys, k)
		}
		sort.Strings(keys)
		var b bytes.Buffer
		b.WriteString("{\n")
		for i, k := range keys {
			kb, _ := json.Marshal(k)
			fmt.Fprintf(&b, " %s: %q", kb, fp[k])
			if i+1 < len(keys) {
				b.WriteString(",")
			}
			b.WriteString("\n")
		}
		b.WriteString("}\n")
		if err := os.MkdirAll(filepath.Dir(fpOut), 0o755); err != nil {
			fatal("%v", err)
		}
		if err := os.WriteFile(fpOut, b.Bytes(), 0o644); err != nil {
			fatal("%v", err)
		}
	}
}

var modelledFiles = []string{
	"leveldb/key.go", "leveldb/comparer.go", "leveldb/comparer/bytes_comparer.go", "leveldb/batch.go",
	"leveldb/journal/journal.go", "leveldb/util/crc32.go", "leveldb/util/hash.go",
	"leveldb/filter/bloom.go", "leveldb/filter.go", "leveldb/table/writer.go", "leveldb/table/reader.go",
	"leveldb/table/table.go", "leveldb/memdb/memdb.go", "leveldb/iterator/merged_iter.go",
	"leveldb/iterator/indexed_iter.go", "leveldb/db_iter.go", "leveldb/cache/cache.go", "leveldb/cache/lru.go",
	"leveldb/db.go", "leveldb/db_write.go", "leveldb/db_state.go", "leveldb/db_snapshot.go",
	"leveldb/db_compaction.go", "leveldb/db_transaction.go", "leveldb/db_util.go", "leveldb/version.go",
	"leveldb/table.go", "leveldb/session.go", "leveldb/session_util.go", "leveldb/session_compaction.go",
	"leveldb/session_record.go",
}
