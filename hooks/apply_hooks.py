#!/usr/bin/env python3
"""Insert the add-only `verifAt(...)` hook lines into /repo (used once to create the hook commit;
kept for reference and for re-applying on a scratch worktree).  Each rule: file, anchor line (stripped,
exact), occurrence (1-based), where ('after'|'before'), inserted line (indentation copied from anchor
unless given)."""
import sys, re
root = sys.argv[1] if len(sys.argv) > 1 else '/repo'
R = [
 # ---- db_write.go: write-merge protocol (C10), insertion/publication window (C05)
 ('leveldb/db_write.go', 'db.writeAckC <- err', 1, 'after', 'verifAt("w.ack")'),
 ('leveldb/db_write.go', 'db.writeMergedC <- false', 1, 'before', 'verifAt("w.handoff")'),
 ('leveldb/db_write.go', '<-db.writeLockC', 1, 'before', 'verifAt("w.release")'),
 ('leveldb/db_write.go', 'mdb, mdbFree, err := db.flush(batch.internalLen)', 1, 'after', 'verifAt("w.flushed", batch, err)'),
 ('leveldb/db_write.go', 'overflow = true', 1, 'after', 'verifAt("w.overflow", incoming.batch, incoming.key)'),
 ('leveldb/db_write.go', 'overflow = true', 2, 'after', 'verifAt("w.overflow", incoming.batch, incoming.key)'),
 ('leveldb/db_write.go', 'merged++', 1, 'after', 'verifAt("w.accept", incoming.batch, incoming.key)'),
 ('leveldb/db_write.go', 'seq := db.seq + 1', 1, 'after', 'verifAt("w.group", seq, batchesLen(batches), len(batches), sync)'),
 ('leveldb/db_write.go', 'db.addSeq(uint64(batchesLen(batches)))', 1, 'before', 'verifAt("w.applied")'),
 ('leveldb/db_write.go', 'db.addSeq(uint64(batchesLen(batches)))', 1, 'after', 'verifAt("w.publish", db.seq)'),
 ('leveldb/db_write.go', 'case db.writeMergeC <- writeMerge{sync: sync, batch: batch}:', 1, 'after', '\tverifAt("w.sent", batch, nil)'),
 ('leveldb/db_write.go', 'case db.writeLockC <- struct{}{}:', 1, 'after', '\tverifAt("w.lock", batch, nil)'),
 ('leveldb/db_write.go', 'case db.writeLockC <- struct{}{}:', 2, 'after', '\tverifAt("w.lock", batch, nil)'),
 ('leveldb/db_write.go', 'case db.writeMergeC <- writeMerge{sync: sync, keyType: kt, key: key, value: value}:', 1, 'after', '\tverifAt("w.sent", nil, key)'),
 ('leveldb/db_write.go', 'case db.writeLockC <- struct{}{}:', 3, 'after', '\tverifAt("w.lock", nil, key)'),
 ('leveldb/db_write.go', 'case db.writeLockC <- struct{}{}:', 4, 'after', '\tverifAt("w.lock", nil, key)'),
 ('leveldb/db_write.go', 'return db.writeLocked(batch, nil, merge, sync)', 1, 'before', 'verifAt("w.leader", batch, nil)'),
 ('leveldb/db_write.go', 'return db.writeLocked(batch, batch, merge, sync)', 1, 'before', 'verifAt("w.leader", nil, key)'),
 # ---- db.go / db_iter.go: reader acquisition steps (C05)
 ('leveldb/db.go', 'em, fm := db.getMems()', 1, 'before', 'verifAt("r.seq", seq)'),
 ('leveldb/db.go', 'em, fm := db.getMems()', 2, 'before', 'verifAt("r.seq", seq)'),
 ('leveldb/db.go', 'v := db.s.version()', 1, 'before', 'verifAt("r.mems")'),
 ('leveldb/db.go', 'v := db.s.version()', 2, 'before', 'verifAt("r.mems")'),
 ('leveldb/db_iter.go', 'em, fm := db.getMems()', 1, 'after', 'verifAt("r.mems")'),
 # ---- db_state.go: buffer rotation / frozen drop
 ('leveldb/db_state.go', 'db.frozenSeq = db.seq', 1, 'after', 'verifAt("m.rotate", db.frozenSeq, fd.Num)'),
 ('leveldb/db_state.go', 'db.frozenMem = nil', 1, 'after', 'verifAt("m.drop")'),
 # ---- session_util.go: version install, reference loop (C06, C07)
 ('leveldb/session_util.go', 's.stVersion = v', 1, 'after', 'verifAt("v.install", v, r)'),
 ('leveldb/session_util.go', 'ref[t.vid] = t', 1, 'after', 'verifAt("f.ref", t.vid, t.files)'),
 ('leveldb/session_util.go', 'case d := <-s.deltaCh:', 1, 'after', '\tverifAt("f.delta", d.vid, d.added, d.deleted)'),
 ('leveldb/session_util.go', 'case t := <-s.relCh:', 1, 'after', '\tverifAt("f.rel", t.vid, t.files)'),
 ('leveldb/session_util.go', 'case id := <-s.abandon:', 1, 'after', '\tverifAt("f.abandon", id)'),
 ('leveldb/session_util.go', 's.tops.remove(storage.FileDesc{Type: storage.TypeTable, Num: t})', 1, 'before', 'verifAt("f.remove", t)'),
 ('leveldb/session_util.go', 's.tops.remove(t.fd)', 1, 'before', 'verifAt("f.remove", t.fd.Num)'),
 # ---- db_compaction.go: flush and table compaction (C03, C06)
 ('leveldb/db_compaction.go', 'rec.setSeqNum(db.frozenSeq)', 1, 'after', 'verifAt("c.flush", mdb.DB, rec, flushLevel, db.frozenSeq)'),
 ('leveldb/db_compaction.go', 'db.compactionCommit("table-move", rec)', 1, 'before', 'verifAt("c.move", c.sourceLevel, t.fd.Num, c.v)'),
 ('leveldb/db_compaction.go', 'db.compactionCommit("table", rec)', 1, 'before', 'verifAt("c.table", c.sourceLevel, minSeq, c.v, c.levels[0], c.levels[1], rec)'),
 # ---- db_transaction.go
 ('leveldb/db_transaction.go', 'db.tr = tr', 1, 'after', 'verifAt("t.open", tr.seq)'),
 ('leveldb/db_transaction.go', 'tr.db.setSeq(tr.seq)', 1, 'before', 'verifAt("t.installed", tr.seq)'),
 ('leveldb/db_transaction.go', 'tr.db.setSeq(tr.seq)', 1, 'after', 'verifAt("t.publish", tr.seq)'),
 ('leveldb/db_transaction.go', 'tr.closed = true', 1, 'before', 'verifAt("t.done")'),
]
import collections
byfile = collections.OrderedDict()
for r in R: byfile.setdefault(r[0], []).append(r)
for f, rules in byfile.items():
    path = root + '/' + f
    lines = open(path).read().split('\n')
    if any('verifAt(' in l for l in lines):
        print('already hooked:', f); continue
    # compute insert positions on the original file first
    inserts = []
    for (_, anchor, occ, where, text) in rules:
        idx = [i for i, l in enumerate(lines) if l.strip() == anchor]
        if len(idx) < occ:
            sys.exit('anchor not found: %s #%d in %s (found %d)' % (anchor, occ, f, len(idx)))
        i = idx[occ-1]
        indent = re.match(r'\s*', lines[i]).group(0)
        extra = ''
        if text.startswith('\t'):
            extra = '\t'; text = text[1:]
        inserts.append((i + (1 if where == 'after' else 0), indent + extra + text))
    for pos, text in sorted(inserts, key=lambda x: -x[0]):
        lines.insert(pos, text)
    open(path, 'w').write('\n'.join(lines))
    print('hooked', f, len(inserts))
