// vh runs one property check of the harness.
//
//	vh -prop C15 -seed 1 -tier quick -out DIR
package main

import (
	"flag"
	"fmt"
	"os"
	"sort"

	"verif/harness/checks"
)

func main() {
	prop := flag.String("prop", "", "property id")
	seed := flag.Uint64("seed", 1, "seed")
	tier := flag.String("tier", "quick", "quick|thorough")
	out := flag.String("out", "", "output directory")
	flag.Parse()
	f, ok := checks.Registry[*prop]
	if !ok || *out == "" {
		var ids []string
		for k := range checks.Registry {
			ids = append(ids, k)
		}
		sort.Strings(ids)
		fmt.Fprintf(os.Stderr, "usage: vh -prop <id> -seed N -tier quick|thorough -out DIR; known: %v\n", ids)
		os.Exit(2)
	}
	c := checks.NewCtx(*prop, *seed, *tier == "thorough", *out)
	f(c)
	c.Finish()
	fmt.Printf("%s: evaluations=%d violations=%d lean_cases=%d\n", *prop, c.Res.Evaluations, c.Res.NumViolations(), c.Res.LeanCases)
}
