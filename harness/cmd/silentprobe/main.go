// Probe of the side condition `Dur.Silent` on the real journal.Reader: records written with the real
// journal.Writer, the stream cut at an offset, followed by zeros / garbage; the tolerant reader with
// checksums must deliver exactly the records that lie wholly inside the cut (or, when the junk happens to
// complete the record, one more record that WAS written).
package main

import (
	"bytes"
	"fmt"
	"io"
	"math/rand"

	"github.com/syndtr/goleveldb/leveldb/journal"
)

type dropper struct{}

func (dropper) Drop(err error) {}

func read(b []byte) (recs [][]byte) {
	r := journal.NewReader(bytes.NewReader(b), dropper{}, false, true)
	for {
		rr, err := r.Next()
		if err == io.EOF {
			return
		}
		if err != nil {
			panic(err)
		}
		d, err := io.ReadAll(rr)
		if err == io.ErrUnexpectedEOF {
			continue
		}
		if err != nil {
			panic(err)
		}
		recs = append(recs, d)
	}
}

func main() {
	rnd := rand.New(rand.NewSource(1))
	var cases, silentViol, invented, lost, completed int
	for it := 0; it < 400; it++ {
		n := 1 + rnd.Intn(6)
		var recs [][]byte
		var ends []int
		var buf bytes.Buffer
		w := journal.NewWriter(&buf)
		for i := 0; i < n; i++ {
			var l int
			switch rnd.Intn(5) {
			case 0:
				l = rnd.Intn(20)
			case 1:
				l = rnd.Intn(300)
			case 2:
				l = 32768 - 7 - 40 + rnd.Intn(80)
			case 3:
				l = 30000 + rnd.Intn(40000)
			default:
				l = rnd.Intn(3000)
			}
			rec := make([]byte, l)
			if rnd.Intn(3) > 0 { // sparse payloads: zeros are likely where the cut is
				for j := range rec {
					if rnd.Intn(4) == 0 {
						rec[j] = byte(rnd.Intn(256))
					}
				}
			} else {
				rnd.Read(rec)
			}
			ww, _ := w.Next()
			ww.Write(rec)
			w.Flush()
			recs = append(recs, rec)
			ends = append(ends, buf.Len())
		}
		stream := buf.Bytes()
		for c := 0; c < 60; c++ {
			var cut int
			if rnd.Intn(2) == 0 {
				cut = rnd.Intn(len(stream) + 1)
			} else { // near a record end / block boundary
				e := ends[rnd.Intn(len(ends))]
				if rnd.Intn(3) == 0 {
					e = (1 + rnd.Intn(1+len(stream)/32768)) * 32768
				}
				cut = e - 12 + rnd.Intn(24)
				if cut < 0 {
					cut = 0
				}
				if cut > len(stream) {
					cut = len(stream)
				}
			}
			var junk []byte
			switch rnd.Intn(4) {
			case 0:
				junk = make([]byte, rnd.Intn(64))
			case 1:
				junk = make([]byte, rnd.Intn(70000))
			case 2:
				junk = make([]byte, rnd.Intn(40))
				rnd.Read(junk)
			default:
				junk = make([]byte, rnd.Intn(40000))
				rnd.Read(junk)
			}
			whole := 0
			for whole < len(ends) && ends[whole] <= cut {
				whole++
			}
			base := read(stream[:cut])
			img := read(append(append([]byte{}, stream[:cut]...), junk...))
			cases++
			if len(base) != whole {
				panic(fmt.Sprintf("truncation: %d records, %d whole", len(base), whole))
			}
			same := len(img) == len(base)
			for i := 0; same && i < len(img); i++ {
				same = bytes.Equal(img[i], base[i])
			}
			if same {
				continue
			}
			silentViol++
			// still a prefix of the written records?
			ok := len(img) <= len(recs)
			for i := 0; ok && i < len(img); i++ {
				ok = bytes.Equal(img[i], recs[i])
			}
			switch {
			case ok && len(img) == whole+1:
				completed++ // zeros completed the cut record: the same bytes as a longer cut
			case ok && len(img) < whole:
				lost++
			default:
				invented++
				fmt.Printf("INVENTED it=%d cut=%d junk=%d whole=%d got=%d\n", it, cut, len(junk), whole, len(img))
			}
		}
	}
	fmt.Printf("cases=%d silent-violations=%d (junk completed the cut record=%d, lost a whole record=%d, invented/reordered=%d)\n",
		cases, silentViol, completed, lost, invented)
}
