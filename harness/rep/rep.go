// Package rep collects what a check run covered and found, and writes it as JSON for bin/vcheck.
package rep

import (
	"encoding/json"
	"fmt"
	"os"
	"path/filepath"
	"sort"
	"sync"
)

type Violation struct {
	Signature string      `json:"signature"` // call site / modelled step + oracle: matched against known_findings.json
	Message   string      `json:"message"`
	Replay    interface{} `json:"replay"` // the concrete input / history
	File      string      `json:"file,omitempty"`
}

type Result struct {
	mu          sync.Mutex
	Property    string                    `json:"property"`
	Evaluations int                       `json:"evaluations"`
	distinct    map[string]struct{}
	Distinct    int                       `json:"distinct_nontrivial"`
	Rule        string                    `json:"rule"`
	Samples     []interface{}             `json:"samples"`
	Hist        map[string]map[string]int `json:"histograms"`
	Violations  []Violation               `json:"violations"`
	Notes       []string                  `json:"notes,omitempty"`
	LeanOps     string                    `json:"lean_ops,omitempty"`    // file with lines for gldriver
	LeanExpect  string                    `json:"lean_expect,omitempty"` // expected answers, one per line
	LeanCases   int                       `json:"lean_cases,omitempty"`
	OutDir      string                    `json:"-"`
}

func New(prop, outDir string) *Result {
	os.MkdirAll(outDir, 0o755)
	return &Result{Property: prop, distinct: map[string]struct{}{}, Hist: map[string]map[string]int{}, OutDir: outDir}
}

// Eval counts one evaluated case; key identifies it for the distinct count; nontrivial says whether it
// counts as non-trivial under the check's stated rule.
func (r *Result) Eval(key string, nontrivial bool) {
	r.mu.Lock()
	r.Evaluations++
	if nontrivial {
		r.distinct[key] = struct{}{}
	}
	r.mu.Unlock()
}

func (r *Result) Count(hist, bucket string) { r.CountN(hist, bucket, 1) }

func (r *Result) CountN(hist, bucket string, n int) {
	r.mu.Lock()
	h := r.Hist[hist]
	if h == nil {
		h = map[string]int{}
		r.Hist[hist] = h
	}
	h[bucket] += n
	r.mu.Unlock()
}

func (r *Result) Sample(s interface{}) {
	r.mu.Lock()
	if len(r.Samples) < 5 {
		r.Samples = append(r.Samples, s)
	}
	r.mu.Unlock()
}

func (r *Result) Note(format string, a ...interface{}) {
	r.mu.Lock()
	if len(r.Notes) < 50 {
		n := fmt.Sprintf(format, a...)
		if len(n) > 400 {
			n = n[:400] + "…"
		}
		r.Notes = append(r.Notes, n)
	}
	r.mu.Unlock()
}

// Violate records a violation; the replay is written to its own file under OutDir.
func (r *Result) Violate(signature, msg string, replay interface{}) {
	r.mu.Lock()
	defer r.mu.Unlock()
	for _, v := range r.Violations {
		if v.Signature == signature && len(r.Violations) >= 3 {
			return // keep at most a few per signature
		}
	}
	n := len(r.Violations)
	if n >= 20 {
		return
	}
	file := filepath.Join(r.OutDir, fmt.Sprintf("%s-violation-%d.json", r.Property, n))
	b, _ := json.MarshalIndent(map[string]interface{}{"property": r.Property, "signature": signature, "message": msg, "replay": replay}, "", " ")
	os.WriteFile(file, b, 0o644)
	r.Violations = append(r.Violations, Violation{Signature: signature, Message: msg, Replay: nil, File: file})
}

func (r *Result) NumViolations() int { r.mu.Lock(); defer r.mu.Unlock(); return len(r.Violations) }

func (r *Result) Write() error {
	r.mu.Lock()
	defer r.mu.Unlock()
	r.Distinct = len(r.distinct)
	// stable histogram output
	for _, h := range r.Hist {
		keys := make([]string, 0, len(h))
		for k := range h {
			keys = append(keys, k)
		}
		sort.Strings(keys)
	}
	b, err := json.MarshalIndent(r, "", " ")
	if err != nil {
		return err
	}
	return os.WriteFile(filepath.Join(r.OutDir, "result.json"), b, 0o644)
}
