// Package wp holds what the work-package generators (wp/c02, wp/c12, wp/c16) share: the callbacks through
// which a generator hands its cases to whoever runs it (package checks wires them to the Ctx / rep.Result).
// The generators never print and never decide a verdict themselves.
package wp

// Sink receives everything a generator produces.  All fields must be set (see Discard for a no-op sink).
type Sink struct {
	// Emit records one line for the Lean model driver and the answer the real implementation gave.
	Emit func(op, expect string)
	// Eval counts one evaluated case; key identifies it (distinct count), nontrivial is measured on the case.
	Eval func(key string, nontrivial bool)
	// Count adds one to a bucket of a histogram describing the input distribution.
	Count func(hist, bucket string)
	// Sample offers an actual case for the evidence file (the receiver keeps the first few).
	Sample func(x interface{})
	// Violate reports an implementation-side oracle violation; replay must be JSON-able and reproduce the case.
	Violate func(signature, message string, replay interface{})
	// Note records a free-text remark (out-of-domain inputs met, …).
	Note func(format string, a ...interface{})
	// TimeLeft is false once the soft budget is used up; generators then stop starting new cases.
	TimeLeft func() bool
}

// Discard returns a sink that drops everything (useful for timing a generator).
func Discard() *Sink {
	return &Sink{
		Emit:     func(string, string) {},
		Eval:     func(string, bool) {},
		Count:    func(string, string) {},
		Sample:   func(interface{}) {},
		Violate:  func(string, string, interface{}) {},
		Note:     func(string, ...interface{}) {},
		TimeLeft: func() bool { return true },
	}
}
