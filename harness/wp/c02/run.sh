#!/bin/sh
# C02 differential: generate walks with the real iterators, replay them through the Lean driver, compare.
# usage: run.sh <gldriver> <seed> <states> <outdir>     (run from /verif/harness)
set -e
export GOFLAGS=-mod=mod GOPROXY=off GOSUMDB=off GOTOOLCHAIN=local
DRV=$1; SEED=${2:-1}; STATES=${3:-400}; OUT=${4:-/tmp/c02.$$}
go run -tags verif ./wp/c02 -seed "$SEED" -states "$STATES" -out "$OUT"
"$DRV" < "$OUT/ops.txt" > "$OUT/got.txt"
if cmp -s "$OUT/got.txt" "$OUT/expect.txt"; then
  echo "c02: lean model agrees on $(wc -l < "$OUT/ops.txt") lines"
else
  echo "VIOLATION c02: model/implementation disagree, first difference:"
  diff "$OUT/got.txt" "$OUT/expect.txt" | head -5
  exit 1
fi
