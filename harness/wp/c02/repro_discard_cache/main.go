// Reproducer: a discarded transaction's table block resurfaces through the block cache because the table
// file number is reused (session.reuseFileNum) while BlockCacheEvictRemoved is off (the default).
package main

import (
	"bytes"
	"fmt"

	"github.com/syndtr/goleveldb/leveldb"
	"github.com/syndtr/goleveldb/leveldb/opt"
	"github.com/syndtr/goleveldb/leveldb/storage"
)

func must(err error) {
	if err != nil {
		panic(err)
	}
}

func main() {
	o := &opt.Options{WriteBuffer: 4096, Compression: opt.NoCompression}
	db, err := leveldb.Open(storage.NewMemStorage(), o)
	must(err)
	defer db.Close()

	big := func(c byte) []byte { return bytes.Repeat([]byte{c}, 1500) }

	// transaction 1: enough data to spill a table, read it (fills the block cache), discard
	tr1, err := db.OpenTransaction()
	must(err)
	for _, k := range []string{"a", "b", "c", "d"} {
		must(tr1.Put([]byte(k), big('X'), nil))
	}
	it := tr1.NewIterator(nil, nil)
	n := 0
	for it.Next() {
		n++
	}
	it.Release()
	fmt.Println("tr1 iterator saw", n, "keys")
	tr1.Discard()

	// transaction 2: same shape, different values, committed
	tr2, err := db.OpenTransaction()
	must(err)
	for _, k := range []string{"a", "b", "c", "d"} {
		must(tr2.Put([]byte(k), big('Y'), nil))
	}
	must(tr2.Commit())

	bad := 0
	for _, k := range []string{"a", "b", "c", "d"} {
		v, err := db.Get([]byte(k), nil)
		if err != nil {
			fmt.Printf("Get(%s): %v\n", k, err)
			bad++
			continue
		}
		fmt.Printf("Get(%s) = %c... (want Y)\n", k, v[0])
		if v[0] != 'Y' {
			bad++
		}
	}
	it2 := db.NewIterator(nil, nil)
	for it2.Next() {
		fmt.Printf("iter %s = %c...\n", it2.Key(), it2.Value()[0])
		if it2.Value()[0] != 'Y' {
			bad++
		}
	}
	it2.Release()
	if bad > 0 {
		fmt.Println("VIOLATION: values of the discarded transaction resurfaced:", bad)
	} else {
		fmt.Println("ok")
	}
}
