// Package wpc02 generates the cases of property C02 (iterators).
//
// From the seeded stream it builds
//
//	(a) iterator.NewMergedIterator over array-, memdb- and table-based children (optionally range
//	    restricted, optionally nested indexed iterators) holding pairwise distinct internal keys,
//	(b) iterator.NewIndexedIterator over an iterator.NewArrayIndexer,
//	(c) leveldb.DB / Snapshot iterators on small DB states with tombstones, overwritten versions kept
//	    alive by snapshots, several levels, with and without util.Range,
//	(d) Transaction iterators on such states,
//	(e) merged / indexed iterators, strict and non-strict, over children that fail at a drawn movement
//	    with a corruption or an I/O error (failIter); the answers then carry Error() and the number of
//	    error-callback calls (GoLevel/Model/IterErr.lean),
//
// drives a random walk of First/Last/Seek/Next/Prev (biased towards reversals right after a Seek and at
// both ends) over each, and hands the calls to the sink as `it …` lines for the Lean driver together with
// what the Go code answered ((d): no lines, the transaction's private tables are not exported).
//
// The implementation-side oracle is the specification cursor over the sorted list of live pairs (the
// statement of C02, the Go twin of GoLevel/Spec/Cursor.lean): every answer of every move is compared with
// it; a disagreement is a violation whose replay holds the state and the walk.  The Boolean returned by
// every call is also compared with Valid() and with Key() != nil, on the iterator under test and on every
// child iterator.  DB states are additionally checked for well-formedness (no overlapping tables in a
// sorted level — under any comparer —, no duplicate internal key) and no DB call may fail.
package wpc02

import (
	"bytes"
	"fmt"
	"hash/crc32"
	"sort"
	"strings"

	"github.com/syndtr/goleveldb/leveldb"
	"github.com/syndtr/goleveldb/leveldb/comparer"
	lerrors "github.com/syndtr/goleveldb/leveldb/errors"
	"github.com/syndtr/goleveldb/leveldb/iterator"
	"github.com/syndtr/goleveldb/leveldb/memdb"
	"github.com/syndtr/goleveldb/leveldb/opt"
	"github.com/syndtr/goleveldb/leveldb/storage"
	"github.com/syndtr/goleveldb/leveldb/table"
	"github.com/syndtr/goleveldb/leveldb/util"

	"verif/harness/gen"
	"verif/harness/rng"
	"verif/harness/wp"
)

// WorkaroundDiscardCache: DB states on which transactions are opened (and possibly discarded) run with
// Options.BlockCacheEvictRemoved = true.  With the default (false) a discarded transaction's table number
// is reused while the blocks of the discarded table stay in the block cache, and they are then served for
// the new table with that number (finding "discard/block-cache", reproducer in repro_discard_cache/); that
// is a defect of the table cache, not of the iterators compared here.  Set to false once that defect is
// handled: the states then run with the randomly drawn / default setting.  The number of states that ran
// with the workaround is reported in the histogram "workaround".
var WorkaroundDiscardCache = false

// Sizes scales the generator.
type Sizes struct {
	States      int // iterator states (each walked once; a DB state is walked by 1-2 iterators)
	Moves       int // moves per walk
	MaxEntries  int // merged / indexed: up to this many internal keys (quick 14)
	MaxUniverse int // DB states: user-key universe of 4 … this many keys (quick 12)
}

type kv struct{ k, v []byte }

type generator struct {
	s      *wp.Sink
	sz     Sizes
	nState map[string]int
}

func hx(b []byte) string { return gen.Hex(b) }
func hxn(b []byte) string {
	if b == nil {
		return "nil"
	}
	return gen.Hex(b)
}

// caseInfo describes the state under an iterator for replays and histograms.
type caseInfo struct {
	site   string                 // call site for violation signatures: mergedIterator, indexedIterator, dbIter(DB), …
	replay map[string]interface{} // state description; the walk is added when a violation is reported
}

func (g *generator) violate(ci *caseInfo, what, msg string, mvs []move) {
	rp := map[string]interface{}{}
	for k, v := range ci.replay {
		rp[k] = v
	}
	if mvs != nil {
		rp["walk"] = fmtMoves(mvs)
	}
	g.s.Violate(ci.site+":"+what, msg, rp)
}

// ---- specification cursor (the Go twin of GoLevel/Spec/Cursor.lean) ------------------------------

type cursor struct {
	xs  []kv
	pos int // -1 soi, len eoi
	cmp func(a, b []byte) int
}

func (c *cursor) first() { c.pos = 0 }
func (c *cursor) last()  { c.pos = len(c.xs) - 1 }
func (c *cursor) seek(k []byte) {
	c.pos = sort.Search(len(c.xs), func(i int) bool { return c.cmp(c.xs[i].k, k) >= 0 })
}
func (c *cursor) next() {
	if c.pos < len(c.xs) {
		c.pos++
	}
}
func (c *cursor) prev() {
	if c.pos >= 0 {
		c.pos--
	}
}
func (c *cursor) get() (bool, []byte, []byte) {
	if c.pos >= 0 && c.pos < len(c.xs) {
		return true, c.xs[c.pos].k, c.xs[c.pos].v
	}
	return false, nil, nil
}

// ---- walks -------------------------------------------------------------------------------------------

type move struct {
	m string
	k []byte
}

// genMove draws the next move given the previous move and whether the iterator is currently valid.
func genMove(r *rng.R, prev string, valid bool, seekKey func() []byte) move {
	pick := func(ws ...interface{}) string {
		tot := 0
		for i := 1; i < len(ws); i += 2 {
			tot += ws[i].(int)
		}
		x := r.Intn(tot)
		for i := 0; i < len(ws); i += 2 {
			x -= ws[i+1].(int)
			if x < 0 {
				return ws[i].(string)
			}
		}
		return ws[0].(string)
	}
	var m string
	switch {
	case prev == "seek":
		m = pick("prev", 50, "next", 30, "seek", 8, "first", 4, "last", 8)
	case !valid: // off either end (or before the first call)
		m = pick("prev", 35, "next", 35, "seek", 12, "first", 8, "last", 10)
	case prev == "next":
		m = pick("next", 40, "prev", 35, "seek", 15, "first", 4, "last", 6)
	case prev == "prev":
		m = pick("prev", 40, "next", 35, "seek", 15, "first", 6, "last", 4)
	default:
		m = pick("next", 35, "prev", 35, "seek", 20, "first", 5, "last", 5)
	}
	mv := move{m: m}
	if m == "seek" {
		mv.k = seekKey()
	}
	return mv
}

func apply(it iterator.Iterator, mv move) bool {
	switch mv.m {
	case "first":
		return it.First()
	case "last":
		return it.Last()
	case "next":
		return it.Next()
	case "prev":
		return it.Prev()
	case "seek":
		return it.Seek(mv.k)
	}
	panic(mv.m)
}

func applyCur(c *cursor, mv move) {
	switch mv.m {
	case "first":
		c.first()
	case "last":
		c.last()
	case "next":
		c.next()
	case "prev":
		c.prev()
	case "seek":
		c.seek(mv.k)
	}
}

func direction(m string) int {
	switch m {
	case "next", "first", "seek":
		return 1
	}
	return -1
}

// walk drives `it` and the spec cursor with the same random moves; returns the moves and the Go answers.
// kind names the iterator kind for the histograms.
func (g *generator) walk(r *rng.R, kind string, ci *caseInfo, it iterator.Iterator, cur *cursor, seekKey func() []byte) ([]move, []string) {
	var mvs []move
	var outs []string
	prev, valid := "", false
	nvalid, reversals := 0, 0
	reported := false
	var trace strings.Builder
	defer func() {
		if p := recover(); p != nil {
			g.violate(ci, "panic", fmt.Sprintf("panic during the walk: %v", p), mvs)
			panic(statePanic{p})
		}
	}()
	for n := 0; n < g.sz.Moves; n++ {
		mv := genMove(r, prev, valid, seekKey)
		mvs = append(mvs, mv)
		ret := apply(it, mv)
		applyCur(cur, mv)
		k, v := it.Key(), it.Value()
		if ret != it.Valid() || ret != (k != nil) {
			g.violate(ci, "return-vs-Valid", fmt.Sprintf("move %d %s: returned %v, Valid()=%v, Key()!=nil %v", n, mv.m, ret, it.Valid(), k != nil), mvs)
		}
		sv, sk, sval := cur.get()
		if !reported && (sv != ret || (ret && (!bytes.Equal(sk, k) || !bytes.Equal(sval, v)))) {
			reported = true // the first divergence of a walk; what follows depends on it
			g.violate(ci, "cursor-mismatch", fmt.Sprintf("move %d %s %s: implementation (%v %s %s), specification cursor (%v %s %s)", n, mv.m, hxn(mv.k), ret, hxn(k), hxn(v), sv, hxn(sk), hxn(sval)), mvs)
		}
		res := "invalid"
		if ret {
			outs = append(outs, fmt.Sprintf("true %s %s", hx(k), hx(v)))
			nvalid++
			res = "valid"
		} else {
			outs = append(outs, "false nil nil")
		}
		g.s.Count("walk moves", mv.m+" → "+res)
		switch {
		case prev == "":
		case prev == "seek" && mv.m == "prev":
			g.s.Count("walk situations", "Prev right after Seek")
			reversals++
		case valid && direction(prev) != direction(mv.m) && (mv.m == "next" || mv.m == "prev"):
			g.s.Count("walk situations", "direction reversed on a valid position")
			reversals++
		case !valid && (mv.m == "next" || mv.m == "prev"):
			g.s.Count("walk situations", "Next/Prev from beyond an end")
		}
		fmt.Fprintf(&trace, "%s%s;", mv.m, hxn(mv.k))
		prev, valid = mv.m, ret
	}
	if err := it.Error(); err != nil {
		g.violate(ci, "iterator-error", fmt.Sprintf("iterator error %v", err), mvs)
	}
	g.s.Count("iterator kind", kind)
	g.s.Count("live pairs under the iterator", sizeClass(len(cur.xs)))
	key := fmt.Sprintf("%s/%08x/%08x", kind, crc32.ChecksumIEEE([]byte(fmt.Sprint(ci.replay["state"]))), crc32.ChecksumIEEE([]byte(trace.String())))
	g.s.Eval(key, len(cur.xs) >= 2 && nvalid > 0 && reversals > 0)
	return mvs, outs
}

type statePanic struct{ p interface{} }

func sizeClass(n int) string {
	switch {
	case n == 0:
		return "0"
	case n == 1:
		return "1"
	case n <= 4:
		return "2-4"
	case n <= 9:
		return "5-9"
	case n <= 19:
		return "10-19"
	default:
		return "20+"
	}
}

func fmtMoves(mvs []move) string {
	var sb strings.Builder
	for i, m := range mvs {
		if i > 0 {
			sb.WriteByte(',')
		}
		sb.WriteString(m.m)
		if m.m == "seek" {
			sb.WriteString(":" + hx(m.k))
		}
	}
	return sb.String()
}

func (g *generator) emitWalk(newLine string, mvs []move, outs []string) {
	g.s.Emit(newLine, "ok")
	for i, mv := range mvs {
		if mv.m == "seek" {
			g.s.Emit("it seek "+hx(mv.k), outs[i])
		} else {
			g.s.Emit("it "+mv.m, outs[i])
		}
	}
}

func (g *generator) sample(kind, newLine string, mvs []move, outs []string) {
	if g.nState["sampled:"+kind] > 0 || len(newLine) > 600 {
		return
	}
	n := len(mvs)
	if n > 8 {
		n = 8
	}
	if !strings.Contains(strings.Join(outs[:n], " "), "true") {
		return // prefer a sample that shows pairs
	}
	g.nState["sampled:"+kind]++
	g.s.Sample(map[string]interface{}{"kind": kind, "state": newLine, "walk": fmtMoves(mvs[:n]), "implementation": outs[:n]})
}

// ---- array / memdb / table children -----------------------------------------------------------------------

type kvArray struct {
	kvs []kv
	cmp comparer.Comparer
}

func (a *kvArray) Len() int { return len(a.kvs) }
func (a *kvArray) Search(key []byte) int {
	return sort.Search(len(a.kvs), func(i int) bool { return a.cmp.Compare(a.kvs[i].k, key) >= 0 })
}
func (a *kvArray) Index(i int) (key, value []byte) { return a.kvs[i].k, a.kvs[i].v }

// chk wraps a child iterator and checks "returned Boolean == Valid()" on every call.
type chk struct {
	iterator.Iterator
	tag string
	g   *generator
	ci  *caseInfo
}

func (c *chk) ck(m string, ret bool) bool {
	if ret != c.Iterator.Valid() || ret != (c.Iterator.Key() != nil) {
		c.g.s.Violate("child "+c.tag+":return-vs-Valid", fmt.Sprintf("child %s %s: returned %v, Valid()=%v, Key()!=nil %v", c.tag, m, ret, c.Iterator.Valid(), c.Iterator.Key() != nil), c.ci.replay)
	}
	return ret
}
func (c *chk) First() bool        { return c.ck("first", c.Iterator.First()) }
func (c *chk) Last() bool         { return c.ck("last", c.Iterator.Last()) }
func (c *chk) Next() bool         { return c.ck("next", c.Iterator.Next()) }
func (c *chk) Prev() bool         { return c.ck("prev", c.Iterator.Prev()) }
func (c *chk) Seek(k []byte) bool { return c.ck("seek", c.Iterator.Seek(k)) }

type blockIndex struct {
	seps   [][]byte
	blocks [][]kv
	cmp    comparer.Comparer
	g      *generator
	ci     *caseInfo
}

func (x *blockIndex) Len() int { return len(x.seps) }
func (x *blockIndex) Search(key []byte) int {
	return sort.Search(len(x.seps), func(i int) bool { return x.cmp.Compare(x.seps[i], key) >= 0 })
}
func (x *blockIndex) Get(i int) iterator.Iterator {
	return &chk{iterator.NewArrayIterator(&kvArray{x.blocks[i], x.cmp}), "block(array)", x.g, x.ci}
}

func buildTable(icmp comparer.Comparer, kvs []kv, r *rng.R) *table.Reader {
	o := &opt.Options{Comparer: icmp, BlockSize: 16 << uint(r.Intn(5)), BlockRestartInterval: 1 + r.Intn(4), Compression: opt.NoCompression}
	var buf bytes.Buffer
	w := table.NewWriter(&buf, o, nil, 0)
	for _, e := range kvs {
		if err := w.Append(e.k, e.v); err != nil {
			panic(err)
		}
	}
	if err := w.Close(); err != nil {
		panic(err)
	}
	rd, err := table.NewReader(bytes.NewReader(buf.Bytes()), int64(buf.Len()), storage.FileDesc{Type: storage.TypeTable, Num: 1}, nil, nil, o)
	if err != nil {
		panic(err)
	}
	return rd
}

// distinctIKeys draws n pairwise distinct internal keys over a small user-key universe, sorted by icmp.
func distinctIKeys(r *rng.R, icmp comparer.Comparer, n int) []kv {
	univ := gen.Universe(r, 2+r.Intn(6), 3)
	seen := map[string]bool{}
	var out []kv
	for tries := 0; len(out) < n && tries < 20*n+20; tries++ {
		u := gen.KeyFrom(r, univ)
		seq := uint64(r.Intn(12))
		kt := uint(r.Intn(2))
		ik := leveldb.VerifMakeInternalKey(u, seq, kt)
		// one entry per (ukey, seq): the DB never has a deletion and a value with the same sequence number
		id := string(u) + fmt.Sprint("#", seq)
		if seen[id] {
			continue
		}
		seen[id] = true
		out = append(out, kv{ik, []byte(fmt.Sprintf("v%d", len(out)))})
	}
	sort.Slice(out, func(i, j int) bool { return icmp.Compare(out[i].k, out[j].k) < 0 })
	return out
}

func entriesStr(kvs []kv) string {
	var sb strings.Builder
	fmt.Fprintf(&sb, "%d", len(kvs))
	for _, e := range kvs {
		sb.WriteString(" " + hx(e.k) + " " + hx(e.v))
	}
	return sb.String()
}

func randIKeySeek(r *rng.R, all []kv, univ func() []byte) func() []byte {
	return func() []byte {
		if len(all) > 0 && r.Chance(1, 2) {
			return all[r.Intn(len(all))].k
		}
		return leveldb.VerifMakeInternalKey(univ(), uint64(r.Intn(13)), uint(r.Intn(2)))
	}
}

func inSlice(icmp comparer.Comparer, k, start, limit []byte) bool {
	return (start == nil || icmp.Compare(k, start) >= 0) && (limit == nil || icmp.Compare(k, limit) < 0)
}

func rangeClass(start, limit []byte, has bool) string {
	switch {
	case !has:
		return "none"
	case start != nil && limit != nil:
		return "start and limit"
	case start != nil:
		return "start only"
	case limit != nil:
		return "limit only"
	}
	return "empty Range value"
}

// stateMerged: merged iterator over mixed children.
func (g *generator) stateMerged(r *rng.R, id string, mixed bool, ci *caseInfo) {
	ucmp := gen.Comparer(id)
	icmp := leveldb.VerifIComparer(ucmp)
	total := r.Intn(g.sz.MaxEntries)
	all := distinctIKeys(r, icmp, total)
	nchild := 1 + r.Intn(4)
	if r.Chance(1, 10) {
		nchild = 0
	}
	parts := make([][]kv, nchild)
	for _, e := range all {
		if nchild > 0 {
			x := r.Intn(nchild)
			parts[x] = append(parts[x], e)
		}
	}
	if nchild == 0 {
		all = nil
	}
	var its []iterator.Iterator
	var desc []string
	var kinds []string
	var live []kv // what the merged iterator must show (children may be range restricted)
	for x, p := range parts {
		kind := 0
		if mixed {
			kind = r.Intn(5)
		}
		tag := fmt.Sprintf("%d", x)
		switch kind {
		case 0, 1: // array iterator
			its = append(its, &chk{iterator.NewArrayIterator(&kvArray{p, icmp}), tag + ":array", g, ci})
			if mixed {
				desc = append(desc, "a "+entriesStr(p))
			} else {
				desc = append(desc, entriesStr(p))
			}
			live = append(live, p...)
			kinds = append(kinds, "array")
		case 2, 3: // memdb or table iterator, optionally restricted to a range
			var start, limit []byte
			if r.Chance(1, 2) && len(all) > 0 {
				a, b := all[r.Intn(len(all))].k, all[r.Intn(len(all))].k
				if icmp.Compare(a, b) > 0 {
					a, b = b, a
				}
				if r.Chance(2, 3) {
					start = a
				}
				if r.Chance(2, 3) {
					limit = b
				}
			}
			var sl *util.Range
			if start != nil || limit != nil || r.Chance(1, 4) {
				sl = &util.Range{Start: start, Limit: limit}
			}
			if kind == 2 || len(p) == 0 { // (the DB never writes an empty table; Writer.Close needs a last key)
				m := memdb.New(icmp, 64)
				perm := append([]kv(nil), p...)
				for i := len(perm) - 1; i > 0; i-- {
					j := r.Intn(i + 1)
					perm[i], perm[j] = perm[j], perm[i]
				}
				for _, e := range perm {
					if err := m.Put(e.k, e.v); err != nil {
						panic(err)
					}
				}
				its = append(its, &chk{m.NewIterator(sl), tag + ":memdb", g, ci})
				kinds = append(kinds, "memdb")
			} else {
				its = append(its, &chk{buildTable(icmp, p, r).NewIterator(sl, nil), tag + ":table", g, ci})
				kinds = append(kinds, "table")
			}
			g.s.Count("child range (memdb / table children)", rangeClass(start, limit, sl != nil))
			desc = append(desc, fmt.Sprintf("s %s %s %s", hxn(start), hxn(limit), entriesStr(p)))
			for _, e := range p {
				if inSlice(icmp, e.k, start, limit) {
					live = append(live, e)
				}
			}
		case 4: // nested indexed iterator over blocks of p (with empty blocks)
			bi, d := g.makeBlocks(r, icmp, p, ci)
			its = append(its, &chk{iterator.NewIndexedIterator(iterator.NewArrayIndexer(bi), true), tag + ":indexed", g, ci})
			desc = append(desc, "x "+d)
			live = append(live, p...)
			kinds = append(kinds, "indexed")
		}
	}
	sort.Slice(live, func(i, j int) bool { return icmp.Compare(live[i].k, live[j].k) < 0 })
	kindName := "merged"
	if mixed {
		kindName = "mergedx"
	}
	line := fmt.Sprintf("it new %s %s %d", kindName, id, nchild)
	if len(desc) > 0 {
		line += " " + strings.Join(desc, " ")
	}
	ci.site = "mergedIterator"
	ci.replay["state"] = line
	mi := iterator.NewMergedIterator(its, icmp, true)
	cur := &cursor{xs: live, pos: -1, cmp: icmp.Compare}
	univ := gen.Universe(r, 5, 3)
	hk := "merged over arrays"
	if mixed {
		hk = "merged over mixed children"
	}
	mvs, outs := g.walk(r, hk, ci, mi, cur, randIKeySeek(r, all, func() []byte { return gen.KeyFrom(r, univ) }))
	mi.Release()
	g.emitWalk(line, mvs, outs)
	// the same walk, answered by the heap model (GoLevel/Model/MergeHeap.lean: container/heap transcribed)
	g.emitWalk("it new h"+line[len("it new "):], mvs, outs)
	g.s.Count("merged: walks also answered by the heap model", kindName)
	g.sample(kindName, line, mvs, outs)
	g.s.Count("merged: children", fmt.Sprint(nchild))
	for _, k := range kinds {
		g.s.Count("merged: child kind", k)
	}
	g.s.Count("comparer", id)
	g.nState[kindName]++
}

// stateMergedDup: merged iterator over array children that hold EQUAL internal keys (outside the contract
// of NewMergedIterator — "assumed to be no duplicate keys" — but accepted by it).  There is no specification
// cursor for this: the expected answers are whatever the real code does, and the heap model of the Lean
// driver (`it new hmerged`) must reproduce them, i.e. the tie-breaking of container/heap.  The values name
// the child, so which child won a tie is visible in every answer.  Implementation-side checks: the returned
// Boolean against Valid()/Key(), and the weak order of consecutive answers (Next never shows a smaller key,
// Prev never a greater one) which holds for the heap walk also with ties.
func (g *generator) stateMergedDup(r *rng.R, id string, ci *caseInfo) {
	ucmp := gen.Comparer(id)
	icmp := leveldb.VerifIComparer(ucmp)
	total := 1 + r.Intn(g.sz.MaxEntries)
	all := distinctIKeys(r, icmp, total)
	nchild := 2 + r.Intn(4)
	parts := make([][]kv, nchild)
	ndup := 0
	for _, e := range all {
		// every key goes to one child for sure and to each other child with probability 1/3 … 2/3
		home := r.Intn(nchild)
		num := 1 + r.Intn(2)
		cnt := 0
		for x := 0; x < nchild; x++ {
			if x == home || r.Chance(num, 3) {
				parts[x] = append(parts[x], kv{e.k, []byte(fmt.Sprintf("c%dv%d", x, len(parts[x])))})
				cnt++
			}
		}
		if cnt > 1 {
			ndup++
		}
	}
	if r.Chance(1, 6) { // an exhausted / empty child among them
		parts[r.Intn(nchild)] = nil
	}
	var its []iterator.Iterator
	var desc []string
	for x, p := range parts {
		its = append(its, &chk{iterator.NewArrayIterator(&kvArray{p, icmp}), fmt.Sprintf("%d:array", x), g, ci})
		desc = append(desc, entriesStr(p))
	}
	line := fmt.Sprintf("it new hmerged %s %d %s", id, nchild, strings.Join(desc, " "))
	ci.site = "mergedIterator(duplicate keys)"
	ci.replay["state"] = line
	mi := iterator.NewMergedIterator(its, icmp, r.Chance(1, 2))
	univ := gen.Universe(r, 5, 3)
	seekKey := randIKeySeek(r, all, func() []byte { return gen.KeyFrom(r, univ) })
	var mvs []move
	var outs []string
	prev, valid := "", false
	var prevKey []byte
	nvalid, reversals, ties := 0, 0, 0
	var trace strings.Builder
	func() {
		defer func() {
			if p := recover(); p != nil {
				g.violate(ci, "panic", fmt.Sprintf("panic during the walk: %v", p), mvs)
				panic(statePanic{p})
			}
		}()
		for n := 0; n < g.sz.Moves; n++ {
			mv := genMove(r, prev, valid, seekKey)
			mvs = append(mvs, mv)
			ret := apply(mi, mv)
			k, v := mi.Key(), mi.Value()
			if ret != mi.Valid() || ret != (k != nil) {
				g.violate(ci, "return-vs-Valid", fmt.Sprintf("move %d %s: returned %v, Valid()=%v, Key()!=nil %v", n, mv.m, ret, mi.Valid(), k != nil), mvs)
			}
			if ret && valid && prevKey != nil {
				if mv.m == "next" && icmp.Compare(k, prevKey) < 0 {
					g.violate(ci, "dup-order", fmt.Sprintf("move %d next: %s shown after %s", n, hx(k), hx(prevKey)), mvs)
				}
				if mv.m == "prev" && icmp.Compare(k, prevKey) > 0 {
					g.violate(ci, "dup-order", fmt.Sprintf("move %d prev: %s shown after %s", n, hx(k), hx(prevKey)), mvs)
				}
				if (mv.m == "next" || mv.m == "prev") && bytes.Equal(k, prevKey) {
					ties++
				}
			}
			if ret {
				outs = append(outs, fmt.Sprintf("true %s %s", hx(k), hx(v)))
				prevKey = append([]byte(nil), k...)
				nvalid++
			} else {
				outs = append(outs, "false nil nil")
				prevKey = nil
			}
			if valid && prev != "" && direction(prev) != direction(mv.m) && (mv.m == "next" || mv.m == "prev") {
				reversals++
			}
			fmt.Fprintf(&trace, "%s%s;", mv.m, hxn(mv.k))
			prev, valid = mv.m, ret
		}
	}()
	if err := mi.Error(); err != nil {
		g.violate(ci, "iterator-error", fmt.Sprintf("iterator error %v", err), mvs)
	}
	mi.Release()
	g.emitWalk(line, mvs, outs)
	g.sample("hmerged(duplicate keys)", line, mvs, outs)
	g.s.Count("iterator kind", "merged over arrays with duplicate keys (heap model only)")
	g.s.Count("merged(dup): children", fmt.Sprint(nchild))
	g.s.Count("merged(dup): keys held by more than one child", sizeClass(ndup))
	tc := "0"
	if ties > 0 {
		tc = "≥1"
	}
	g.s.Count("merged(dup): walks showing the same key twice in a row", tc)
	key := fmt.Sprintf("mergeddup/%08x/%08x", crc32.ChecksumIEEE([]byte(line)), crc32.ChecksumIEEE([]byte(trace.String())))
	g.s.Eval(key, ndup > 0 && nvalid > 0 && reversals > 0)
	g.nState["mergeddup"]++
}

// makeBlocks cuts sorted p into consecutive blocks (some empty) with index keys: for a non-empty block
// its last key, for an empty block the index key of the previous block (or the first key that follows).
func (g *generator) makeBlocks(r *rng.R, icmp comparer.Comparer, p []kv, ci *caseInfo) (*blockIndex, string) {
	bi := &blockIndex{cmp: icmp, g: g, ci: ci}
	nblk := r.Intn(5)
	if len(p) > 0 && nblk == 0 {
		nblk = 1
	}
	cuts := make([]int, 0, nblk+1)
	for i := 0; i < nblk-1; i++ {
		cuts = append(cuts, r.Intn(len(p)+1))
	}
	sort.Ints(cuts)
	if nblk > 0 {
		cuts = append([]int{0}, cuts...)
		cuts = append(cuts, len(p))
	}
	for i := 0; i+1 < len(cuts); i++ {
		bi.blocks = append(bi.blocks, p[cuts[i]:cuts[i+1]])
	}
	// index keys
	empty := 0
	for i, b := range bi.blocks {
		var sep []byte
		switch {
		case len(b) > 0:
			sep = b[len(b)-1].k
		case i > 0:
			sep = bi.seps[i-1]
		default:
			// leading empty block: any key not above the first real key; use the first key that follows,
			// or an arbitrary key when everything is empty
			for _, b2 := range bi.blocks[i+1:] {
				if len(b2) > 0 {
					sep = b2[0].k
					break
				}
			}
			if sep == nil {
				sep = leveldb.VerifMakeInternalKey([]byte("k"), 3, 1)
			}
		}
		if len(b) == 0 {
			empty++
		}
		bi.seps = append(bi.seps, sep)
	}
	g.s.Count("indexed: blocks", fmt.Sprint(len(bi.blocks)))
	g.s.Count("indexed: empty blocks", fmt.Sprint(empty))
	var sb strings.Builder
	fmt.Fprintf(&sb, "%d", len(bi.blocks))
	for i, b := range bi.blocks {
		sb.WriteString(" " + hx(bi.seps[i]) + " " + entriesStr(b))
	}
	return bi, sb.String()
}

func (g *generator) stateIndexed(r *rng.R, id string, ci *caseInfo) {
	ucmp := gen.Comparer(id)
	icmp := leveldb.VerifIComparer(ucmp)
	all := distinctIKeys(r, icmp, r.Intn(g.sz.MaxEntries))
	bi, d := g.makeBlocks(r, icmp, all, ci)
	line := fmt.Sprintf("it new indexed %s %s", id, d)
	ci.site = "indexedIterator"
	ci.replay["state"] = line
	it := iterator.NewIndexedIterator(iterator.NewArrayIndexer(bi), true)
	cur := &cursor{xs: all, pos: -1, cmp: icmp.Compare}
	univ := gen.Universe(r, 5, 3)
	mvs, outs := g.walk(r, "indexed", ci, it, cur, randIKeySeek(r, all, func() []byte { return gen.KeyFrom(r, univ) }))
	it.Release()
	g.emitWalk(line, mvs, outs)
	g.sample("indexed", line, mvs, outs)
	g.s.Count("comparer", id)
	g.nState["indexed"]++
}

// ---- children that fail (property C02/C08, GoLevel/Model/IterErr.lean) ----------------------------------

var errIO = fmt.Errorf("wp/c02: injected I/O error")

func errCorrupted() error {
	return &lerrors.ErrCorrupted{Fd: storage.FileDesc{Type: storage.TypeTable, Num: 7}, Err: fmt.Errorf("wp/c02: injected corruption")}
}

// failPlan: movement number k (from 0, counted over First/Last/Seek/Next/Prev) fails; k < 0 never.
type failPlan struct {
	k       int
	corrupt bool
}

func (p failPlan) String() string {
	switch {
	case p.k < 0:
		return "-"
	case p.corrupt:
		return fmt.Sprintf("c%d", p.k)
	}
	return fmt.Sprintf("i%d", p.k)
}

func drawPlan(r *rng.R, maxK int) failPlan {
	if r.Chance(1, 2) {
		return failPlan{k: -1}
	}
	k := 0
	if !r.Chance(1, 3) { // one third: the child cannot be read at all (a block that fails its checksum)
		k = r.Intn(maxK)
	}
	return failPlan{k: k, corrupt: r.Chance(3, 4)}
}

// failIter is a child iterator that fails at movement plan.k and is dead from then on, as blockIter after
// sErr, an emptyIterator carrying an error and a strict indexedIterator are: every movement returns false,
// Valid() is false, Key()/Value() are nil, Error() keeps returning the error.
type failIter struct {
	iterator.Iterator
	plan  failPlan
	moves int
	err   error
}

func (f *failIter) mv(do func() bool) bool {
	if f.err != nil {
		return false
	}
	if f.moves == f.plan.k {
		f.moves++
		if f.plan.corrupt {
			f.err = errCorrupted()
		} else {
			f.err = errIO
		}
		return false
	}
	f.moves++
	return do()
}
func (f *failIter) First() bool        { return f.mv(f.Iterator.First) }
func (f *failIter) Last() bool         { return f.mv(f.Iterator.Last) }
func (f *failIter) Next() bool         { return f.mv(f.Iterator.Next) }
func (f *failIter) Prev() bool         { return f.mv(f.Iterator.Prev) }
func (f *failIter) Seek(k []byte) bool { return f.mv(func() bool { return f.Iterator.Seek(k) }) }
func (f *failIter) Valid() bool        { return f.err == nil && f.Iterator.Valid() }
func (f *failIter) Error() error       { return f.err }
func (f *failIter) Key() []byte {
	if f.err != nil {
		return nil
	}
	return f.Iterator.Key()
}
func (f *failIter) Value() []byte {
	if f.err != nil {
		return nil
	}
	return f.Iterator.Value()
}

// failBlockIndex: an ArrayIndexer whose data iterators fail as the block's plan says (every Get makes a
// fresh data iterator, so a block that cannot be read fails on every visit).
type failBlockIndex struct {
	*blockIndex
	plans []failPlan
}

func (x *failBlockIndex) Get(i int) iterator.Iterator {
	return &chk{&failIter{Iterator: iterator.NewArrayIterator(&kvArray{x.blocks[i], x.cmp}), plan: x.plans[i]}, "block(failing array)", x.g, x.ci}
}

func (g *generator) makeFailBlocks(r *rng.R, icmp comparer.Comparer, p []kv, ci *caseInfo) (*failBlockIndex, string, int) {
	bi, _ := g.makeBlocks(r, icmp, p, ci)
	fb := &failBlockIndex{blockIndex: bi}
	nfail := 0
	var sb strings.Builder
	fmt.Fprintf(&sb, "%d", len(bi.blocks))
	for i, b := range bi.blocks {
		pl := drawPlan(r, len(b)+2)
		if pl.k >= 0 {
			nfail++
		}
		fb.plans = append(fb.plans, pl)
		sb.WriteString(" " + hx(bi.seps[i]) + " " + pl.String() + " " + entriesStr(b))
	}
	return fb, sb.String(), nfail
}

func errClass(err error) string {
	switch {
	case err == nil:
		return "ok"
	case lerrors.IsCorrupted(err):
		return "corrupted"
	case err == iterator.ErrIterReleased:
		return "released"
	}
	return "io"
}

// walkErr drives an iterator over failing children.  Oracles (the statements of GoLevel/Props/C02Err.lean):
// strict — every answer given while Error() is nil is the specification cursor's answer (over all pairs of
// all children), a call after which Error() is non-nil returned false, and from then on every call returns
// false with that same error; non-strict — a corruption error never becomes Error(), every pair shown is a
// pair of some child, and consecutive Next (Prev) answers increase (decrease).  all is the union of the
// children's pairs, sorted.
func (g *generator) walkErr(r *rng.R, kind string, ci *caseInfo, it iterator.Iterator, strict bool, all []kv, cmp func(a, b []byte) int, seekKey func() []byte, nerrf *int) ([]move, []string) {
	var mvs []move
	var outs []string
	cur := &cursor{xs: all, pos: -1, cmp: cmp}
	genuine := map[string]string{}
	for _, e := range all {
		genuine[string(e.k)] = string(e.v)
	}
	prev, valid := "", false
	var prevKey []byte
	var firstErr error
	nvalid, reversals := 0, 0
	reported := false
	var trace strings.Builder
	defer func() {
		if p := recover(); p != nil {
			g.violate(ci, "panic", fmt.Sprintf("panic during the walk: %v", p), mvs)
			panic(statePanic{p})
		}
	}()
	for n := 0; n < g.sz.Moves; n++ {
		mv := genMove(r, prev, valid, seekKey)
		mvs = append(mvs, mv)
		ret := apply(it, mv)
		k, v, err := it.Key(), it.Value(), it.Error()
		if ret != it.Valid() || ret != (k != nil) {
			g.violate(ci, "return-vs-Valid", fmt.Sprintf("move %d %s: returned %v, Valid()=%v, Key()!=nil %v", n, mv.m, ret, it.Valid(), k != nil), mvs)
		}
		switch {
		case reported:
		case firstErr != nil:
			if ret || err != firstErr {
				reported = true
				g.violate(ci, "error-not-sticky", fmt.Sprintf("move %d %s: after Error()=%v the call returned %v with Error()=%v", n, mv.m, firstErr, ret, err), mvs)
			}
		case err != nil:
			firstErr = err
			if ret {
				reported = true
				g.violate(ci, "valid-with-error", fmt.Sprintf("move %d %s: returned true with Error()=%v", n, mv.m, err), mvs)
			}
			if !strict && lerrors.IsCorrupted(err) {
				reported = true
				g.violate(ci, "nonstrict-reports-corruption", fmt.Sprintf("move %d %s: non-strict iterator has Error()=%v", n, mv.m, err), mvs)
			}
		case strict:
			applyCur(cur, mv)
			sv, sk, sval := cur.get()
			if sv != ret || (ret && (!bytes.Equal(sk, k) || !bytes.Equal(sval, v))) {
				reported = true
				g.violate(ci, "cursor-mismatch-without-error", fmt.Sprintf("move %d %s %s: strict implementation (%v %s %s) with Error()=nil, specification cursor (%v %s %s)", n, mv.m, hxn(mv.k), ret, hxn(k), hxn(v), sv, hxn(sk), hxn(sval)), mvs)
			}
		default:
			if ret {
				if want, ok := genuine[string(k)]; !ok || want != string(v) {
					reported = true
					g.violate(ci, "nonstrict-pair-not-genuine", fmt.Sprintf("move %d %s: shows %s %s, not a pair of any child", n, mv.m, hx(k), hx(v)), mvs)
				}
				if valid && prevKey != nil && ((mv.m == "next" && cmp(k, prevKey) <= 0) || (mv.m == "prev" && cmp(k, prevKey) >= 0)) {
					reported = true
					g.violate(ci, "nonstrict-order", fmt.Sprintf("move %d %s: %s shown after %s", n, mv.m, hx(k), hx(prevKey)), mvs)
				}
			}
		}
		if firstErr != nil && err == nil {
			firstErr = nil // cannot happen on a sticky iterator; reported above as error-not-sticky
		}
		res := "invalid"
		if ret {
			outs = append(outs, fmt.Sprintf("true %s %s %s %d", hx(k), hx(v), errClass(err), *nerrf))
			prevKey = append([]byte(nil), k...)
			nvalid++
			res = "valid"
		} else {
			outs = append(outs, fmt.Sprintf("false nil nil %s %d", errClass(err), *nerrf))
			prevKey = nil
		}
		g.s.Count("error walks: moves", mv.m+" → "+res+", Error() "+errClass(err))
		if valid && prev != "" && direction(prev) != direction(mv.m) && (mv.m == "next" || mv.m == "prev") {
			reversals++
		}
		fmt.Fprintf(&trace, "%s%s;", mv.m, hxn(mv.k))
		prev, valid = mv.m, ret
	}
	mode := "non-strict"
	if strict {
		mode = "strict"
	}
	switch {
	case firstErr != nil:
		g.s.Count("error walks: outcome", mode+": Error() "+errClass(firstErr)+" reported")
	case *nerrf > 0:
		g.s.Count("error walks: outcome", mode+": failing child skipped, Error() nil")
	default:
		g.s.Count("error walks: outcome", mode+": no failure surfaced at this iterator")
	}
	g.s.Count("iterator kind", kind)
	key := fmt.Sprintf("%s/%08x/%08x", kind, crc32.ChecksumIEEE([]byte(fmt.Sprint(ci.replay["state"]))), crc32.ChecksumIEEE([]byte(trace.String())))
	g.s.Eval(key, len(all) >= 2 && nvalid > 0 && (firstErr != nil || *nerrf > 0))
	_ = reversals
	return mvs, outs
}

// stateMergedErr: merged iterator, strict or not, over array children and nested indexed iterators that fail.
func (g *generator) stateMergedErr(r *rng.R, id string, ci *caseInfo) {
	ucmp := gen.Comparer(id)
	icmp := leveldb.VerifIComparer(ucmp)
	all := distinctIKeys(r, icmp, 1+r.Intn(g.sz.MaxEntries))
	nchild := 1 + r.Intn(4)
	parts := make([][]kv, nchild)
	for _, e := range all {
		x := r.Intn(nchild)
		parts[x] = append(parts[x], e)
	}
	strict := r.Chance(1, 2)
	var its []iterator.Iterator
	var desc []string
	nfail := 0
	for x, p := range parts {
		tag := fmt.Sprintf("%d", x)
		if r.Chance(2, 3) {
			pl := drawPlan(r, g.sz.Moves)
			if pl.k >= 0 {
				nfail++
			}
			its = append(its, &chk{&failIter{Iterator: iterator.NewArrayIterator(&kvArray{p, icmp}), plan: pl}, tag + ":failing array", g, ci})
			desc = append(desc, "a "+pl.String()+" "+entriesStr(p))
			g.s.Count("error walks: child kind", "array")
		} else {
			fb, d, nf := g.makeFailBlocks(r, icmp, p, ci)
			nfail += nf
			its = append(its, &chk{iterator.NewIndexedIterator(iterator.NewArrayIndexer(fb), strict), tag + ":indexed over failing blocks", g, ci})
			desc = append(desc, "x "+d)
			g.s.Count("error walks: child kind", "indexed over failing blocks")
		}
	}
	sb := 0
	if strict {
		sb = 1
	}
	line := fmt.Sprintf("it new emerged %s %d %d %s", id, sb, nchild, strings.Join(desc, " "))
	ci.site = "mergedIterator(failing children)"
	ci.replay["state"] = line
	mi := iterator.NewMergedIterator(its, icmp, strict)
	nerrf := 0
	mi.(iterator.ErrorCallbackSetter).SetErrorCallback(func(error) { nerrf++ })
	univ := gen.Universe(r, 5, 3)
	kind := "merged over failing children, non-strict"
	if strict {
		kind = "merged over failing children, strict"
	}
	mvs, outs := g.walkErr(r, kind, ci, mi, strict, all, icmp.Compare, randIKeySeek(r, all, func() []byte { return gen.KeyFrom(r, univ) }), &nerrf)
	mi.Release()
	g.emitWalk(line, mvs, outs)
	g.sample("emerged", line, mvs, outs)
	g.s.Count("error walks: children with a failure plan", fmt.Sprint(nfail))
	g.nState["mergederr"]++
}

// stateIndexedErr: indexed iterator, strict or not, over blocks that fail.
func (g *generator) stateIndexedErr(r *rng.R, id string, ci *caseInfo) {
	ucmp := gen.Comparer(id)
	icmp := leveldb.VerifIComparer(ucmp)
	all := distinctIKeys(r, icmp, 1+r.Intn(g.sz.MaxEntries))
	fb, d, nfail := g.makeFailBlocks(r, icmp, all, ci)
	strict := r.Chance(1, 2)
	sb := 0
	if strict {
		sb = 1
	}
	line := fmt.Sprintf("it new eindexed %s %d %s", id, sb, d)
	ci.site = "indexedIterator(failing blocks)"
	ci.replay["state"] = line
	it := iterator.NewIndexedIterator(iterator.NewArrayIndexer(fb), strict)
	nerrf := 0
	it.(iterator.ErrorCallbackSetter).SetErrorCallback(func(error) { nerrf++ })
	univ := gen.Universe(r, 5, 3)
	kind := "indexed over failing blocks, non-strict"
	if strict {
		kind = "indexed over failing blocks, strict"
	}
	mvs, outs := g.walkErr(r, kind, ci, it, strict, all, icmp.Compare, randIKeySeek(r, all, func() []byte { return gen.KeyFrom(r, univ) }), &nerrf)
	it.Release()
	g.emitWalk(line, mvs, outs)
	g.sample("eindexed", line, mvs, outs)
	g.s.Count("error walks: children with a failure plan", fmt.Sprint(nfail))
	g.nState["indexederr"]++
}

// ---- DB states ---------------------------------------------------------------------------------------

type snapRec struct {
	s   *leveldb.Snapshot
	seq uint64
}

// stateDB builds one DB and walks iterators on `want` of its states.
func (g *generator) stateDB(r *rng.R, id string, want int, ci *caseInfo) {
	ucmp := gen.Comparer(id)
	icmp := leveldb.VerifIComparer(ucmp)
	o := &opt.Options{
		Comparer:               ucmp,
		WriteBuffer:            256 << uint(r.Intn(3)),
		CompactionTableSize:    256 << uint(r.Intn(3)),
		CompactionTotalSize:    1024 << uint(r.Intn(2)),
		BlockSize:              32 << uint(r.Intn(4)),
		BlockRestartInterval:   1 + r.Intn(4),
		CompactionL0Trigger:    2 + r.Intn(3),
		Compression:            opt.NoCompression,
		DisableSeeksCompaction: r.Chance(1, 2),
		IteratorSamplingRate:   16 << uint(r.Intn(6)),
	}
	if r.Chance(1, 2) {
		o.Compression = opt.SnappyCompression
	}
	useTx := r.Chance(2, 3)
	evict := r.Chance(1, 2)
	if useTx && WorkaroundDiscardCache {
		evict = true // see WorkaroundDiscardCache
		g.s.Count("workaround", "DB with transactions run with BlockCacheEvictRemoved=true")
	} else if useTx {
		g.s.Count("workaround", "DB with transactions, no workaround")
	} else {
		g.s.Count("workaround", "DB without transactions (not needed)")
	}
	o.BlockCacheEvictRemoved = evict
	ci.replay["options"] = fmt.Sprintf("%+v", map[string]interface{}{"WriteBuffer": o.WriteBuffer, "CompactionTableSize": o.CompactionTableSize,
		"CompactionTotalSize": o.CompactionTotalSize, "BlockSize": o.BlockSize, "BlockRestartInterval": o.BlockRestartInterval,
		"CompactionL0Trigger": o.CompactionL0Trigger, "Compression": o.Compression, "DisableSeeksCompaction": o.DisableSeeksCompaction,
		"IteratorSamplingRate": o.IteratorSamplingRate, "BlockCacheEvictRemoved": o.BlockCacheEvictRemoved, "transactions": useTx})
	stor := storage.NewMemStorage()
	ci.site = "leveldb.Open"
	db, err := leveldb.Open(stor, o)
	if err != nil {
		g.violate(ci, "error", fmt.Sprintf("Open of an empty storage failed: %v", err), nil)
		return
	}
	defer db.Close()
	univ := gen.Universe(r, 4+r.Intn(g.sz.MaxUniverse-3), 4)
	var snaps []snapRec
	defer func() {
		for _, s := range snaps {
			s.s.Release()
		}
	}()
	done := 0
	var history []string // the calls made so far, for replays
	ci.replay["history"] = &history
	// No DB call may fail on a memory storage, under any comparer (the states damaged by tFiles.getOverlaps
	// comparing user keys with bytes.Compare — former finding D1 — are no longer skipped).
	failed := func(site string, err error) bool {
		if err == nil {
			return false
		}
		ci.site = site
		g.violate(ci, "error", fmt.Sprintf("%s failed on a healthy in-memory DB (comparer %s): %v", site, id, err), nil)
		g.nState["abandoned-after-error"]++
		return true
	}
	for step := 0; done < want && step < 400; step++ {
		// a burst of writes
		nw := 1 + r.Intn(25)
		for i := 0; i < nw; i++ {
			k := gen.KeyFrom(r, univ)
			var werr error
			site := ""
			switch {
			case r.Chance(3, 10):
				site = "DB.Delete"
				history = append(history, "del "+hx(k))
				werr = db.Delete(k, nil)
			case r.Chance(1, 12):
				site = "DB.Write"
				b := new(leveldb.Batch)
				h := "batch"
				for j := 0; j < 2+r.Intn(4); j++ {
					k2 := gen.KeyFrom(r, univ)
					if r.Chance(1, 3) {
						b.Delete(k2)
						h += " del " + hx(k2)
					} else {
						v := gen.Value(r, 30)
						b.Put(k2, v)
						h += " put " + hx(k2) + " " + hx(v)
					}
				}
				history = append(history, h)
				werr = db.Write(b, nil)
			default:
				site = "DB.Put"
				v := gen.Value(r, 60)
				history = append(history, "put "+hx(k)+" "+hx(v))
				werr = db.Put(k, v, nil)
			}
			if failed(site, werr) {
				return
			}
			if r.Chance(1, 10) && len(snaps) < 6 {
				s, err := db.GetSnapshot()
				if failed("DB.GetSnapshot", err) {
					return
				}
				snaps = append(snaps, snapRec{s, leveldb.VerifSnapshotSeq(s)})
				history = append(history, fmt.Sprintf("snapshot (seq %d)", snaps[len(snaps)-1].seq))
			}
		}
		if r.Chance(1, 8) && len(snaps) > 0 {
			i := r.Intn(len(snaps))
			history = append(history, fmt.Sprintf("release snapshot (seq %d)", snaps[i].seq))
			snaps[i].s.Release()
			snaps = append(snaps[:i], snaps[i+1:]...)
		}
		if r.Chance(1, 5) {
			var rg util.Range
			if r.Chance(1, 2) {
				a, b := gen.KeyFrom(r, univ), gen.KeyFrom(r, univ)
				if ucmp.Compare(a, b) > 0 {
					a, b = b, a
				}
				rg = util.Range{Start: a, Limit: b}
			}
			history = append(history, "compact-range "+hxn(rg.Start)+" "+hxn(rg.Limit))
			if failed("DB.CompactRange", db.CompactRange(rg)) {
				return
			}
		}
		if !r.Chance(1, 2) {
			continue
		}
		if failed("DB(background compaction)", leveldb.VerifWaitIdle(db)) {
			return
		}
		history = append(history, "wait-idle")
		st, flat, layers, nlev, okState := g.physical(db, icmp, id, ci)
		if !okState {
			return
		}
		// now and then: a transaction iterator on this state (compared with the specification cursor only —
		// the transaction's private tables are not exported, so there are no Lean lines for it)
		if useTx && r.Chance(1, 3) {
			live := map[string][]byte{}
			for _, e := range visibleOf(ucmp, flat, st.Seq, nil, nil) {
				live[string(e.k)] = e.v
			}
			tr, err := db.OpenTransaction()
			if failed("DB.OpenTransaction", err) {
				return
			}
			history = append(history, "open-transaction")
			for i, n := 0, r.Intn(30); i < n; i++ {
				k := gen.KeyFrom(r, univ)
				if r.Chance(1, 3) {
					history = append(history, "tx del "+hx(k))
					if failed("Transaction.Delete", tr.Delete(k, nil)) {
						tr.Discard()
						return
					}
					delete(live, string(k))
				} else {
					v := gen.Value(r, 60)
					history = append(history, "tx put "+hx(k)+" "+hx(v))
					if failed("Transaction.Put", tr.Put(k, v, nil)) {
						tr.Discard()
						return
					}
					live[string(k)] = v
				}
			}
			var start, limit []byte
			var sl *util.Range
			if r.Chance(1, 2) {
				a, b := seekUser(r, univ), seekUser(r, univ)
				if ucmp.Compare(a, b) > 0 {
					a, b = b, a
				}
				start, limit = a, b
				sl = &util.Range{Start: start, Limit: limit}
			}
			var vis []kv
			for k, v := range live {
				if (start == nil || ucmp.Compare([]byte(k), start) >= 0) && (limit == nil || ucmp.Compare([]byte(k), limit) < 0) {
					vis = append(vis, kv{[]byte(k), v})
				}
			}
			sort.Slice(vis, func(i, j int) bool { return ucmp.Compare(vis[i].k, vis[j].k) < 0 })
			ci.site = "dbIter(Transaction)"
			ci.replay["state"] = fmt.Sprintf("transaction iterator, comparer %s, range %s..%s, %d levels; visible pairs: %s", id, hxn(start), hxn(limit), nlev, entriesStr(vis))
			it := tr.NewIterator(sl, nil)
			g.walk(r, "transaction iterator (cursor only, no model lines)", ci, it, &cursor{xs: vis, pos: -1, cmp: ucmp.Compare}, func() []byte { return seekUser(r, univ) })
			it.Release()
			g.s.Count("range (DB / snapshot / transaction iterators)", rangeClass(start, limit, sl != nil))
			g.s.Count("levels with tables under the iterator", fmt.Sprint(nlev))
			g.s.Count("comparer", id)
			g.nState["tx-iter"]++
			if r.Chance(1, 2) {
				history = append(history, "commit")
				if failed("Transaction.Commit", tr.Commit()) {
					return
				}
				g.s.Count("transaction end", "Commit")
			} else {
				history = append(history, "discard")
				tr.Discard()
				g.s.Count("transaction end", "Discard")
			}
			continue
		}
		// one or two iterators on this state
		for rep := 0; rep < 1+r.Intn(2) && done < want; rep++ {
			seq := st.Seq
			var it iterator.Iterator
			var start, limit []byte
			var sl *util.Range
			if r.Chance(3, 5) {
				a, b := seekUser(r, univ), seekUser(r, univ)
				if ucmp.Compare(a, b) > 0 {
					a, b = b, a
				}
				if r.Chance(3, 4) {
					start = a
				}
				if r.Chance(3, 4) {
					limit = b
				}
				sl = &util.Range{Start: start, Limit: limit}
			}
			src := "DB"
			if len(snaps) > 0 && r.Chance(1, 2) {
				s := snaps[r.Intn(len(snaps))]
				seq = s.seq
				it = s.s.NewIterator(sl, nil)
				src = "Snapshot"
			} else {
				it = db.NewIterator(sl, nil)
			}
			// the iterator must have pinned exactly the dumped state (a seek-triggered compaction from an
			// earlier walk may have installed a new version in between)
			if st2 := leveldb.VerifDump(db); st2.Version.ID != st.Version.ID || st2.HasFrozen != st.HasFrozen || len(st2.Mem) != len(st.Mem) {
				it.Release()
				g.nState["retry-version-changed"]++
				g.s.Count("DB states", "skipped: a seek compaction changed the version between dump and iterator")
				break
			}
			// the specification: live pairs of the view at seq within [start, limit), sorted
			vis := visibleOf(ucmp, flat, seq, start, limit)
			cur := &cursor{xs: vis, pos: -1, cmp: ucmp.Compare}
			line := fmt.Sprintf("it new dbiter %s %d %s %s %s", id, seq, hxn(start), hxn(limit), entriesStr(flat))
			ci.site = "dbIter(" + src + ")"
			ci.replay["state"] = line
			mvs, outs := g.walk(r, src+" iterator", ci, it, cur, func() []byte { return seekUser(r, univ) })
			it.Release()
			g.emitWalk(line, mvs, outs)
			g.emitWalk(fmt.Sprintf("it new dblayers %s %d %s %s %d %s", id, seq, hxn(start), hxn(limit), len(layers), strings.Join(layers, " ")), mvs, outs)
			g.sample("dbiter", line, mvs, outs)
			g.nState["dbiter"]++
			g.s.Count("range (DB / snapshot / transaction iterators)", rangeClass(start, limit, sl != nil))
			g.s.Count("levels with tables under the iterator", fmt.Sprint(nlev))
			g.s.Count("merged sources under the DB iterator (memdbs, level-0 tables, sorted levels)", fmt.Sprint(len(layers)))
			g.s.Count("physical entries under the DB iterator", sizeClass(len(flat)))
			g.s.Count("comparer", id)
			hidden := 0
			for _, e := range flat {
				if _, s, _, err := leveldb.VerifParseInternalKey(e.k); err == nil && s > seq {
					hidden++
				}
			}
			if hidden > 0 {
				g.s.Count("DB states", "entries newer than the iterator's sequence number present")
			}
			if len(flat) > len(vis) {
				g.s.Count("DB states", "tombstones / overwritten versions / out-of-range entries present")
			}
			done++
		}
	}
}

// physical reads the quiescent DB's raw entries: per source (`layers`, in the order newRawIterator merges
// them) and as one icmp-sorted list (`flat`).  ok=false: the table set is malformed (overlapping tables in a
// sorted level, duplicate internal keys) — reported as a violation under every comparer.
func (g *generator) physical(db *leveldb.DB, icmp comparer.Comparer, id string, ci *caseInfo) (st *leveldb.VerifState, flat []kv, layers []string, nlev int, ok bool) {
	st = leveldb.VerifDump(db)
	toKV := func(es []leveldb.VerifEntry) []kv {
		out := make([]kv, len(es))
		for i, e := range es {
			out[i] = kv{e.IKey, e.Value}
		}
		return out
	}
	mem := toKV(st.Mem)
	layers = append(layers, "m "+entriesStr(mem))
	flat = append(flat, mem...)
	if st.HasFrozen {
		fr := toKV(st.Frozen)
		layers = append(layers, "m "+entriesStr(fr))
		flat = append(flat, fr...)
	}
	malformed := ""
	for level, tabs := range st.Version.Levels {
		if len(tabs) == 0 {
			continue
		}
		nlev++
		if level == 0 {
			for _, t := range tabs {
				es, err := leveldb.VerifTableEntries(db, t)
				if err != nil {
					ci.site = "table.Reader"
					g.violate(ci, "error", fmt.Sprintf("reading table %d of level 0: %v", t.Num, err), nil)
					return st, nil, nil, nlev, false
				}
				layers = append(layers, "m "+entriesStr(toKV(es)))
				flat = append(flat, toKV(es)...)
			}
			continue
		}
		var sb strings.Builder
		fmt.Fprintf(&sb, "l %d", len(tabs))
		for i, t := range tabs {
			if i > 0 && icmp.Compare(tabs[i-1].Imax, t.Imin) >= 0 && malformed == "" {
				malformed = fmt.Sprintf("level %d: table %d [%s, %s] is followed by table %d [%s, %s]", level,
					tabs[i-1].Num, hx(tabs[i-1].Imin), hx(tabs[i-1].Imax), t.Num, hx(t.Imin), hx(t.Imax))
			}
			es, err := leveldb.VerifTableEntries(db, t)
			if err != nil {
				ci.site = "table.Reader"
				g.violate(ci, "error", fmt.Sprintf("reading table %d of level %d: %v", t.Num, level, err), nil)
				return st, nil, nil, nlev, false
			}
			sb.WriteString(" " + entriesStr(toKV(es)))
			flat = append(flat, toKV(es)...)
		}
		layers = append(layers, sb.String())
	}
	if malformed != "" {
		ci.site = "version"
		g.violate(ci, "overlapping-tables-in-sorted-level", fmt.Sprintf("comparer %s: tables of a sorted level overlap or are out of order: %s", id, malformed), nil)
		g.nState["abandoned-malformed-level"]++
		return st, nil, nil, nlev, false
	}
	sort.Slice(flat, func(i, j int) bool { return icmp.Compare(flat[i].k, flat[j].k) < 0 })
	for i := 1; i < len(flat); i++ {
		if icmp.Compare(flat[i-1].k, flat[i].k) == 0 {
			ci.site = "version"
			g.violate(ci, "duplicate-internal-key", fmt.Sprintf("internal key %s occurs twice in the physical state", hx(flat[i].k)), nil)
			return st, nil, nil, nlev, false
		}
	}
	return st, flat, layers, nlev, true
}

func seekUser(r *rng.R, univ [][]byte) []byte {
	if r.Chance(3, 4) {
		return gen.KeyFrom(r, univ)
	}
	return gen.Key(r, 4)
}

// visibleOf: per user key the newest entry with seq ≤ seq, kept if it is a value and in range.
func visibleOf(ucmp comparer.Comparer, flat []kv, seq uint64, start, limit []byte) []kv {
	type best struct {
		num uint64
		v   []byte
		u   []byte
	}
	m := map[string]*best{}
	for _, e := range flat {
		u, s, kt, err := leveldb.VerifParseInternalKey(e.k)
		if err != nil {
			panic(err)
		}
		if s > seq {
			continue
		}
		num := s<<8 | uint64(kt)
		if b, ok := m[string(u)]; !ok || num > b.num {
			m[string(u)] = &best{num, e.v, u}
		}
	}
	var out []kv
	for _, b := range m {
		if b.num&0xff != 1 {
			continue
		}
		if start != nil && ucmp.Compare(b.u, start) < 0 {
			continue
		}
		if limit != nil && ucmp.Compare(b.u, limit) >= 0 {
			continue
		}
		out = append(out, kv{b.u, b.v})
	}
	sort.Slice(out, func(i, j int) bool { return ucmp.Compare(out[i].k, out[j].k) < 0 })
	return out
}

// Comparers are the comparer ids the `it` protocol of the Lean driver knows.
var Comparers = []string{"bytewise", "reverse", "lenfirst"}

// RunState builds and walks one state: kind is merged | mergedx | mergeddup | mergederr | indexed | indexederr | db, seed the state's own stream
// (recorded in every replay as state_seed), want the number of DB iterator states (db only).
func (g *generator) runState(kind, id string, seed uint64, want int) {
	ci := &caseInfo{site: kind, replay: map[string]interface{}{"kind": kind, "comparer": id, "state_seed": seed, "db_states": want, "moves": g.sz.Moves,
		"max_entries": g.sz.MaxEntries, "max_universe": g.sz.MaxUniverse}}
	defer func() {
		if p := recover(); p != nil {
			if _, ok := p.(statePanic); !ok { // a panic inside a walk has been reported with the walk
				g.violate(ci, "panic", fmt.Sprintf("panic while building / using the state: %v", p), nil)
			}
			g.nState["abandoned-after-panic"]++
		}
	}()
	r := rng.New(seed)
	switch kind {
	case "merged":
		g.stateMerged(r, id, false, ci)
	case "mergedx":
		g.stateMerged(r, id, true, ci)
	case "mergeddup":
		g.stateMergedDup(r, id, ci)
	case "indexed":
		g.stateIndexed(r, id, ci)
	case "mergederr":
		g.stateMergedErr(r, id, ci)
	case "indexederr":
		g.stateIndexedErr(r, id, ci)
	case "db":
		g.stateDB(r, id, want, ci)
	}
}

// RunState replays one state from the fields of a violation replay.
func RunState(kind, id string, seed uint64, want int, sz Sizes, s *wp.Sink) {
	g := &generator{s: s, sz: sz, nState: map[string]int{}}
	g.runState(kind, id, seed, want)
}

// Run generates sz.States iterator states.
func Run(r *rng.R, sz Sizes, s *wp.Sink) {
	if sz.MaxEntries < 2 {
		sz.MaxEntries = 14
	}
	if sz.MaxUniverse < 4 {
		sz.MaxUniverse = 12
	}
	g := &generator{s: s, sz: sz, nState: map[string]int{}}
	total := 0
	for total < sz.States && s.TimeLeft() {
		id := Comparers[r.Intn(len(Comparers))]
		switch r.Intn(10) {
		case 0, 1:
			sd := r.U64()
			g.runState("merged", id, sd, 0)
			// a duplicate-key state rides on the same draw (own stream derived from it), so that the
			// seeded stream of all other states is what it was before these states existed
			g.runState("mergeddup", id, sd^0x9e3779b97f4a7c15, 0)
			// … and a walk over failing children (merged, strict or not), likewise
			g.runState("mergederr", id, sd^0xc2b2ae3d27d4eb4f, 0)
			total++
		case 2, 3:
			g.runState("mergedx", id, r.U64(), 0)
			total++
		case 4, 5:
			sd := r.U64()
			g.runState("indexed", id, sd, 0)
			g.runState("indexederr", id, sd^0xc2b2ae3d27d4eb4f, 0) // rides on the same draw, as above
			total++
		default:
			n := 3 + r.Intn(6)
			before := g.nState["dbiter"]
			g.runState("db", id, r.U64(), n)
			total += g.nState["dbiter"] - before
			if g.nState["dbiter"] == before {
				total++ // an abandoned DB still counts, so that a failing tree terminates
			}
		}
	}
}
