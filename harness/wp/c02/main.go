// Command c02 is the differential generator for property C02 (iterators).
//
// From a seed it builds
//
//	(a) iterator.NewMergedIterator over array-, memdb- and table-based children (optionally range
//	    restricted, optionally nested indexed iterators) holding pairwise distinct internal keys,
//	(b) iterator.NewIndexedIterator over an iterator.NewArrayIndexer,
//	(c) leveldb.DB / Snapshot iterators on small DB states with tombstones, overwritten versions kept
//	    alive by snapshots, several levels, with and without util.Range,
//
// drives a random walk of First/Last/Seek/Next/Prev (biased towards reversals right after a Seek and at
// both ends) over each, and writes the calls as `it …` lines for the Lean driver (ops.txt) together with
// what the Go code answered (expect.txt).  Independently of Lean, every answer is compared here with the
// specification cursor over the sorted list of live pairs (the statement of C02); a disagreement is
// printed as a SPEC-MISMATCH line and makes the exit status 1.  The Boolean returned by every call is
// also compared with Valid() and with Key() != nil.
package main

import (
	"bytes"
	"flag"
	"fmt"
	"os"
	"path/filepath"
	"sort"
	"strings"

	"bufio"

	"github.com/syndtr/goleveldb/leveldb"
	"github.com/syndtr/goleveldb/leveldb/comparer"
	"github.com/syndtr/goleveldb/leveldb/iterator"
	"github.com/syndtr/goleveldb/leveldb/memdb"
	"github.com/syndtr/goleveldb/leveldb/opt"
	"github.com/syndtr/goleveldb/leveldb/storage"
	"github.com/syndtr/goleveldb/leveldb/table"
	"github.com/syndtr/goleveldb/leveldb/util"

	"verif/harness/gen"
	"verif/harness/rng"
)

type kv struct{ k, v []byte }

var (
	ops, exp   *bufio.Writer
	nLines     int
	nStates    = map[string]int{}
	nMoves     int
	mismatches int
	nMoves0    = 30
)

func hx(b []byte) string { return gen.Hex(b) }
func hxn(b []byte) string {
	if b == nil {
		return "nil"
	}
	return gen.Hex(b)
}

func emit(op, want string) {
	ops.WriteString(op)
	ops.WriteByte('\n')
	exp.WriteString(want)
	exp.WriteByte('\n')
	nLines++
}

func mismatch(format string, a ...interface{}) {
	mismatches++
	fmt.Printf("SPEC-MISMATCH "+format+"\n", a...)
}

// ---- specification cursor (the Go twin of GoLevel/Spec/Cursor.lean) ------------------------------

type cursor struct {
	xs  []kv
	pos int // -1 soi, len eoi
	cmp func(a, b []byte) int
}

func (c *cursor) first() {
	if len(c.xs) == 0 {
		c.pos = 0
	} else {
		c.pos = 0
	}
}
func (c *cursor) last() {
	if len(c.xs) == 0 {
		c.pos = -1
	} else {
		c.pos = len(c.xs) - 1
	}
}
func (c *cursor) seek(k []byte) {
	c.pos = sort.Search(len(c.xs), func(i int) bool { return c.cmp(c.xs[i].k, k) >= 0 })
}
func (c *cursor) next() {
	if c.pos < len(c.xs) {
		c.pos++
	}
}
func (c *cursor) prev() {
	if c.pos >= 0 {
		c.pos--
	}
}
func (c *cursor) get() (bool, []byte, []byte) {
	if c.pos >= 0 && c.pos < len(c.xs) {
		return true, c.xs[c.pos].k, c.xs[c.pos].v
	}
	return false, nil, nil
}

// ---- walks -------------------------------------------------------------------------------------------

type move struct {
	m string
	k []byte
}

// genWalk draws the next move given the previous move and whether the iterator is currently valid.
func genMove(r *rng.R, prev string, valid bool, seekKey func() []byte) move {
	pick := func(ws ...interface{}) string {
		tot := 0
		for i := 1; i < len(ws); i += 2 {
			tot += ws[i].(int)
		}
		x := r.Intn(tot)
		for i := 0; i < len(ws); i += 2 {
			x -= ws[i+1].(int)
			if x < 0 {
				return ws[i].(string)
			}
		}
		return ws[0].(string)
	}
	var m string
	switch {
	case prev == "seek":
		m = pick("prev", 50, "next", 30, "seek", 8, "first", 4, "last", 8)
	case !valid: // off either end (or before the first call)
		m = pick("prev", 35, "next", 35, "seek", 12, "first", 8, "last", 10)
	case prev == "next":
		m = pick("next", 40, "prev", 35, "seek", 15, "first", 4, "last", 6)
	case prev == "prev":
		m = pick("prev", 40, "next", 35, "seek", 15, "first", 6, "last", 4)
	default:
		m = pick("next", 35, "prev", 35, "seek", 20, "first", 5, "last", 5)
	}
	mv := move{m: m}
	if m == "seek" {
		mv.k = seekKey()
	}
	return mv
}

func apply(it iterator.Iterator, mv move) bool {
	switch mv.m {
	case "first":
		return it.First()
	case "last":
		return it.Last()
	case "next":
		return it.Next()
	case "prev":
		return it.Prev()
	case "seek":
		return it.Seek(mv.k)
	}
	panic(mv.m)
}

func applyCur(c *cursor, mv move) {
	switch mv.m {
	case "first":
		c.first()
	case "last":
		c.last()
	case "next":
		c.next()
	case "prev":
		c.prev()
	case "seek":
		c.seek(mv.k)
	}
}

// walk drives `it` and the spec cursor with the same random moves; returns the moves and the Go answers.
func walk(r *rng.R, tag string, it iterator.Iterator, cur *cursor, seekKey func() []byte) ([]move, []string) {
	var mvs []move
	var outs []string
	prev, valid := "", false
	for n := 0; n < nMoves0; n++ {
		mv := genMove(r, prev, valid, seekKey)
		ret := apply(it, mv)
		applyCur(cur, mv)
		k, v := it.Key(), it.Value()
		if ret != it.Valid() || ret != (k != nil) {
			mismatch("%s move %d %s: returned %v, Valid()=%v, Key()!=nil %v", tag, n, mv.m, ret, it.Valid(), k != nil)
		}
		sv, sk, sval := cur.get()
		if sv != ret || (ret && (!bytes.Equal(sk, k) || !bytes.Equal(sval, v))) {
			mismatch("%s move %d %s %s: go=(%v %s %s) cursor=(%v %s %s) walk=%s", tag, n, mv.m, hxn(mv.k), ret, hxn(k), hxn(v), sv, hxn(sk), hxn(sval), fmtMoves(append(mvs, mv)))
		}
		if ret {
			outs = append(outs, fmt.Sprintf("true %s %s", hx(k), hx(v)))
		} else {
			outs = append(outs, "false nil nil")
		}
		mvs = append(mvs, mv)
		prev, valid = mv.m, ret
		nMoves++
	}
	if err := it.Error(); err != nil {
		mismatch("%s: iterator error %v", tag, err)
	}
	return mvs, outs
}

func fmtMoves(mvs []move) string {
	var sb strings.Builder
	for i, m := range mvs {
		if i > 0 {
			sb.WriteByte(',')
		}
		sb.WriteString(m.m)
		if m.m == "seek" {
			sb.WriteString(":" + hx(m.k))
		}
	}
	return sb.String()
}

func emitWalk(newLine string, mvs []move, outs []string) {
	emit(newLine, "ok")
	for i, mv := range mvs {
		if mv.m == "seek" {
			emit("it seek "+hx(mv.k), outs[i])
		} else {
			emit("it "+mv.m, outs[i])
		}
	}
}

// ---- array / memdb / table children -----------------------------------------------------------------------

type kvArray struct {
	kvs []kv
	cmp comparer.Comparer
}

func (a *kvArray) Len() int { return len(a.kvs) }
func (a *kvArray) Search(key []byte) int {
	return sort.Search(len(a.kvs), func(i int) bool { return a.cmp.Compare(a.kvs[i].k, key) >= 0 })
}
func (a *kvArray) Index(i int) (key, value []byte) { return a.kvs[i].k, a.kvs[i].v }

// chk wraps a child iterator and checks "returned Boolean == Valid()" on every call.
type chk struct {
	iterator.Iterator
	tag string
}

func (c *chk) ck(m string, ret bool) bool {
	if ret != c.Iterator.Valid() || ret != (c.Iterator.Key() != nil) {
		mismatch("child %s %s: returned %v, Valid()=%v, Key()!=nil %v", c.tag, m, ret, c.Iterator.Valid(), c.Iterator.Key() != nil)
	}
	return ret
}
func (c *chk) First() bool         { return c.ck("first", c.Iterator.First()) }
func (c *chk) Last() bool          { return c.ck("last", c.Iterator.Last()) }
func (c *chk) Next() bool          { return c.ck("next", c.Iterator.Next()) }
func (c *chk) Prev() bool          { return c.ck("prev", c.Iterator.Prev()) }
func (c *chk) Seek(k []byte) bool  { return c.ck("seek", c.Iterator.Seek(k)) }

type blockIndex struct {
	seps   [][]byte
	blocks [][]kv
	cmp    comparer.Comparer
}

func (x *blockIndex) Len() int { return len(x.seps) }
func (x *blockIndex) Search(key []byte) int {
	return sort.Search(len(x.seps), func(i int) bool { return x.cmp.Compare(x.seps[i], key) >= 0 })
}
func (x *blockIndex) Get(i int) iterator.Iterator {
	return &chk{iterator.NewArrayIterator(&kvArray{x.blocks[i], x.cmp}), "block"}
}

type memFile struct{ bytes.Buffer }

func buildTable(icmp comparer.Comparer, kvs []kv, r *rng.R) *table.Reader {
	o := &opt.Options{Comparer: icmp, BlockSize: 16 << uint(r.Intn(5)), BlockRestartInterval: 1 + r.Intn(4), Compression: opt.NoCompression}
	var buf bytes.Buffer
	w := table.NewWriter(&buf, o, nil, 0)
	for _, e := range kvs {
		if err := w.Append(e.k, e.v); err != nil {
			panic(err)
		}
	}
	if err := w.Close(); err != nil {
		panic(err)
	}
	rd, err := table.NewReader(bytes.NewReader(buf.Bytes()), int64(buf.Len()), storage.FileDesc{Type: storage.TypeTable, Num: 1}, nil, nil, o)
	if err != nil {
		panic(err)
	}
	return rd
}

// distinctIKeys draws n pairwise distinct internal keys over a small user-key universe, sorted by icmp.
func distinctIKeys(r *rng.R, icmp comparer.Comparer, n int) []kv {
	univ := gen.Universe(r, 2+r.Intn(6), 3)
	seen := map[string]bool{}
	var out []kv
	for tries := 0; len(out) < n && tries < 20*n+20; tries++ {
		u := gen.KeyFrom(r, univ)
		seq := uint64(r.Intn(12))
		kt := uint(r.Intn(2))
		ik := leveldb.VerifMakeInternalKey(u, seq, kt)
		// one entry per (ukey, seq): the DB never has a deletion and a value with the same sequence number
		id := string(u) + fmt.Sprint("#", seq)
		if seen[id] {
			continue
		}
		seen[id] = true
		out = append(out, kv{ik, []byte(fmt.Sprintf("v%d", len(out)))})
	}
	sort.Slice(out, func(i, j int) bool { return icmp.Compare(out[i].k, out[j].k) < 0 })
	return out
}

func entriesStr(kvs []kv) string {
	var sb strings.Builder
	fmt.Fprintf(&sb, "%d", len(kvs))
	for _, e := range kvs {
		sb.WriteString(" " + hx(e.k) + " " + hx(e.v))
	}
	return sb.String()
}

func randIKeySeek(r *rng.R, all []kv, univ func() []byte) func() []byte {
	return func() []byte {
		if len(all) > 0 && r.Chance(1, 2) {
			return all[r.Intn(len(all))].k
		}
		return leveldb.VerifMakeInternalKey(univ(), uint64(r.Intn(13)), uint(r.Intn(2)))
	}
}

func inSlice(icmp comparer.Comparer, k, start, limit []byte) bool {
	return (start == nil || icmp.Compare(k, start) >= 0) && (limit == nil || icmp.Compare(k, limit) < 0)
}

// stateMerged: merged iterator over mixed children.
func stateMerged(r *rng.R, id string, mixed bool) {
	ucmp := gen.Comparer(id)
	icmp := leveldb.VerifIComparer(ucmp)
	total := r.Intn(14)
	all := distinctIKeys(r, icmp, total)
	nchild := 1 + r.Intn(4)
	if r.Chance(1, 10) {
		nchild = 0
	}
	parts := make([][]kv, nchild)
	for _, e := range all {
		if nchild > 0 {
			x := r.Intn(nchild)
			parts[x] = append(parts[x], e)
		}
	}
	if nchild == 0 {
		all = nil
	}
	var its []iterator.Iterator
	var desc []string
	var live []kv // what the merged iterator must show (children may be range restricted)
	for x, p := range parts {
		kind := 0
		if mixed {
			kind = r.Intn(5)
		}
		tag := fmt.Sprintf("child%d", x)
		switch kind {
		case 0, 1: // array iterator
			its = append(its, &chk{iterator.NewArrayIterator(&kvArray{p, icmp}), tag + ":array"})
			if mixed {
				desc = append(desc, "a "+entriesStr(p))
			} else {
				desc = append(desc, entriesStr(p))
			}
			live = append(live, p...)
		case 2, 3: // memdb or table iterator, optionally restricted to a range
			var start, limit []byte
			if r.Chance(1, 2) && len(all) > 0 {
				a, b := all[r.Intn(len(all))].k, all[r.Intn(len(all))].k
				if icmp.Compare(a, b) > 0 {
					a, b = b, a
				}
				if r.Chance(2, 3) {
					start = a
				}
				if r.Chance(2, 3) {
					limit = b
				}
			}
			var sl *util.Range
			if start != nil || limit != nil || r.Chance(1, 4) {
				sl = &util.Range{Start: start, Limit: limit}
			}
			if kind == 2 || len(p) == 0 { // (the DB never writes an empty table; Writer.Close needs a last key)
				m := memdb.New(icmp, 64)
				perm := append([]kv(nil), p...)
				for i := len(perm) - 1; i > 0; i-- {
					j := r.Intn(i + 1)
					perm[i], perm[j] = perm[j], perm[i]
				}
				for _, e := range perm {
					if err := m.Put(e.k, e.v); err != nil {
						panic(err)
					}
				}
				its = append(its, &chk{m.NewIterator(sl), tag + ":memdb"})
			} else {
				its = append(its, &chk{buildTable(icmp, p, r).NewIterator(sl, nil), tag + ":table"})
			}
			desc = append(desc, fmt.Sprintf("s %s %s %s", hxn(start), hxn(limit), entriesStr(p)))
			for _, e := range p {
				if inSlice(icmp, e.k, start, limit) {
					live = append(live, e)
				}
			}
		case 4: // nested indexed iterator over blocks of p (with empty blocks)
			bi, d := makeBlocks(r, icmp, p)
			its = append(its, &chk{iterator.NewIndexedIterator(iterator.NewArrayIndexer(bi), true), tag + ":indexed"})
			desc = append(desc, "x "+d)
			live = append(live, p...)
		}
	}
	sort.Slice(live, func(i, j int) bool { return icmp.Compare(live[i].k, live[j].k) < 0 })
	mi := iterator.NewMergedIterator(its, icmp, true)
	cur := &cursor{xs: live, pos: -1, cmp: icmp.Compare}
	univ := gen.Universe(r, 5, 3)
	kindName := "merged"
	if mixed {
		kindName = "mergedx"
	}
	mvs, outs := walk(r, kindName, mi, cur, randIKeySeek(r, all, func() []byte { return gen.KeyFrom(r, univ) }))
	mi.Release()
	line := fmt.Sprintf("it new %s %s %d", kindName, id, nchild)
	if len(desc) > 0 {
		line += " " + strings.Join(desc, " ")
	}
	emitWalk(line, mvs, outs)
	nStates[kindName]++
}

// makeBlocks cuts sorted p into consecutive blocks (some empty) with index keys: for a non-empty block
// its last key, for an empty block the index key of the previous block (or the first key that follows).
func makeBlocks(r *rng.R, icmp comparer.Comparer, p []kv) (*blockIndex, string) {
	bi := &blockIndex{cmp: icmp}
	nblk := r.Intn(5)
	if len(p) > 0 && nblk == 0 {
		nblk = 1
	}
	cuts := make([]int, 0, nblk+1)
	for i := 0; i < nblk-1; i++ {
		cuts = append(cuts, r.Intn(len(p)+1))
	}
	sort.Ints(cuts)
	if nblk > 0 {
		cuts = append([]int{0}, cuts...)
		cuts = append(cuts, len(p))
	}
	for i := 0; i+1 < len(cuts); i++ {
		bi.blocks = append(bi.blocks, p[cuts[i]:cuts[i+1]])
	}
	// index keys
	for i, b := range bi.blocks {
		var sep []byte
		switch {
		case len(b) > 0:
			sep = b[len(b)-1].k
		case i > 0:
			sep = bi.seps[i-1]
		default:
			// leading empty block: any key not above the first real key; use the first key that follows,
			// or an arbitrary key when everything is empty
			for _, b2 := range bi.blocks[i+1:] {
				if len(b2) > 0 {
					sep = b2[0].k
					break
				}
			}
			if sep == nil {
				sep = leveldb.VerifMakeInternalKey([]byte("k"), 3, 1)
			}
		}
		bi.seps = append(bi.seps, sep)
	}
	var sb strings.Builder
	fmt.Fprintf(&sb, "%d", len(bi.blocks))
	for i, b := range bi.blocks {
		sb.WriteString(" " + hx(bi.seps[i]) + " " + entriesStr(b))
	}
	return bi, sb.String()
}

func stateIndexed(r *rng.R, id string) {
	ucmp := gen.Comparer(id)
	icmp := leveldb.VerifIComparer(ucmp)
	all := distinctIKeys(r, icmp, r.Intn(14))
	bi, d := makeBlocks(r, icmp, all)
	it := iterator.NewIndexedIterator(iterator.NewArrayIndexer(bi), true)
	cur := &cursor{xs: all, pos: -1, cmp: icmp.Compare}
	univ := gen.Universe(r, 5, 3)
	mvs, outs := walk(r, "indexed", it, cur, randIKeySeek(r, all, func() []byte { return gen.KeyFrom(r, univ) }))
	it.Release()
	emitWalk(fmt.Sprintf("it new indexed %s %s", id, d), mvs, outs)
	nStates["indexed"]++
}

// ---- DB states ---------------------------------------------------------------------------------------

func must(err error) {
	if err != nil {
		panic(err)
	}
}

type snapRec struct {
	s   *leveldb.Snapshot
	seq uint64
}

func stateDB(r *rng.R, id string, want int) {
	ucmp := gen.Comparer(id)
	icmp := leveldb.VerifIComparer(ucmp)
	o := &opt.Options{
		Comparer:               ucmp,
		WriteBuffer:            256 << uint(r.Intn(3)),
		CompactionTableSize:    256 << uint(r.Intn(3)),
		CompactionTotalSize:    1024 << uint(r.Intn(2)),
		BlockSize:              32 << uint(r.Intn(4)),
		BlockRestartInterval:   1 + r.Intn(4),
		CompactionL0Trigger:    2 + r.Intn(3),
		Compression:            opt.NoCompression,
		DisableSeeksCompaction: r.Chance(1, 2),
		IteratorSamplingRate:   16 << uint(r.Intn(6)),
	}
	if r.Chance(1, 2) {
		o.Compression = opt.SnappyCompression
	}
	// Transactions are used only on DBs that evict the blocks of removed tables: with the default
	// (BlockCacheEvictRemoved=false) a discarded transaction's table number is reused and its cached
	// blocks are served for the new table (finding "discard/block-cache", reproducer in
	// repro_discard_cache/); that is a defect of the table cache, not of the iterators compared here.
	// (bytewise only: with a custom comparer a D1-damaged compaction can slip in between the dump and the
	// transaction's iterator, and the transaction's own tables cannot be inspected)
	useTx := id == "bytewise" && r.Chance(2, 3)
	o.BlockCacheEvictRemoved = useTx
	stor := storage.NewMemStorage()
	db, err := leveldb.Open(stor, o)
	must(err)
	defer db.Close()
	univ := gen.Universe(r, 4+r.Intn(9), 4)
	var snaps []snapRec
	defer func() {
		for _, s := range snaps {
			s.s.Release()
		}
	}()
	done := 0
	// With a custom comparer the DB can damage its own table set (tFiles.getOverlaps compares user keys
	// with bytes.Compare on sorted levels — known finding D1); such states are outside C02's premise
	// ("a DB state"), they are counted and skipped, never compared.
	d1 := func(err error) bool {
		if err == nil {
			return false
		}
		if id == "bytewise" {
			panic(err)
		}
		nStates["abandoned-D1-error"]++
		return true
	}
	for step := 0; done < want && step < 400; step++ {
		// a burst of writes
		nw := 1 + r.Intn(25)
		for i := 0; i < nw; i++ {
			k := gen.KeyFrom(r, univ)
			var werr error
			switch {
			case r.Chance(3, 10):
				werr = db.Delete(k, nil)
			case r.Chance(1, 12):
				b := new(leveldb.Batch)
				for j := 0; j < 2+r.Intn(4); j++ {
					k2 := gen.KeyFrom(r, univ)
					if r.Chance(1, 3) {
						b.Delete(k2)
					} else {
						b.Put(k2, gen.Value(r, 30))
					}
				}
				werr = db.Write(b, nil)
			default:
				werr = db.Put(k, gen.Value(r, 60), nil)
			}
			if d1(werr) {
				return
			}
			if r.Chance(1, 10) && len(snaps) < 6 {
				s, err := db.GetSnapshot()
				must(err)
				snaps = append(snaps, snapRec{s, leveldb.VerifSnapshotSeq(s)})
			}
		}
		if r.Chance(1, 8) && len(snaps) > 0 {
			i := r.Intn(len(snaps))
			snaps[i].s.Release()
			snaps = append(snaps[:i], snaps[i+1:]...)
		}
		if r.Chance(1, 5) {
			var rg util.Range
			if r.Chance(1, 2) {
				a, b := gen.KeyFrom(r, univ), gen.KeyFrom(r, univ)
				if ucmp.Compare(a, b) > 0 {
					a, b = b, a
				}
				rg = util.Range{Start: a, Limit: b}
			}
			if d1(db.CompactRange(rg)) {
				return
			}
		}
		if !r.Chance(1, 2) {
			continue
		}
		if d1(leveldb.VerifWaitIdle(db)) {
			return
		}
		st, flat, layers, nlev, okState := physical(db, icmp, id)
		if !okState {
			return
		}
		// now and then: a transaction iterator on this state (compared with the specification cursor only —
		// the transaction's private tables are not exported, so there are no Lean lines for it)
		if useTx && r.Chance(1, 3) {
			live := map[string][]byte{}
			for _, e := range visibleOf(ucmp, flat, st.Seq, nil, nil) {
				live[string(e.k)] = e.v
			}
			tr, err := db.OpenTransaction()
			if d1(err) {
				return
			}
			for i, n := 0, r.Intn(30); i < n; i++ {
				k := gen.KeyFrom(r, univ)
				if r.Chance(1, 3) {
					must(tr.Delete(k, nil))
					delete(live, string(k))
				} else {
					v := gen.Value(r, 60)
					must(tr.Put(k, v, nil))
					live[string(k)] = v
				}
			}
			var start, limit []byte
			var sl *util.Range
			if r.Chance(1, 2) {
				a, b := seekUser(r, univ), seekUser(r, univ)
				if ucmp.Compare(a, b) > 0 {
					a, b = b, a
				}
				start, limit = a, b
				sl = &util.Range{Start: start, Limit: limit}
			}
			var vis []kv
			for k, v := range live {
				if (start == nil || ucmp.Compare([]byte(k), start) >= 0) && (limit == nil || ucmp.Compare([]byte(k), limit) < 0) {
					vis = append(vis, kv{[]byte(k), v})
				}
			}
			sort.Slice(vis, func(i, j int) bool { return ucmp.Compare(vis[i].k, vis[j].k) < 0 })
			it := tr.NewIterator(sl, nil)
			walk(r, fmt.Sprintf("tx(%s,range=%s..%s,levels=%d)", id, hxn(start), hxn(limit), nlev), it, &cursor{xs: vis, pos: -1, cmp: ucmp.Compare}, func() []byte { return seekUser(r, univ) })
			it.Release()
			nStates["tx-iter(go-vs-spec-only)"]++
			if r.Chance(1, 2) {
				if d1(tr.Commit()) {
					return
				}
			} else {
				tr.Discard()
			}
			continue
		}
		// one or two iterators on this state
		for rep := 0; rep < 1+r.Intn(2) && done < want; rep++ {
			seq := st.Seq
			var it iterator.Iterator
			var start, limit []byte
			var sl *util.Range
			if r.Chance(3, 5) {
				a, b := seekUser(r, univ), seekUser(r, univ)
				if ucmp.Compare(a, b) > 0 {
					a, b = b, a
				}
				if r.Chance(3, 4) {
					start = a
				}
				if r.Chance(3, 4) {
					limit = b
				}
				sl = &util.Range{Start: start, Limit: limit}
			}
			src := "db"
			if len(snaps) > 0 && r.Chance(1, 2) {
				s := snaps[r.Intn(len(snaps))]
				seq = s.seq
				it = s.s.NewIterator(sl, nil)
				src = "snapshot"
			} else {
				it = db.NewIterator(sl, nil)
			}
			// the iterator must have pinned exactly the dumped state (a seek-triggered compaction from an
			// earlier walk may have installed a new version in between)
			if st2 := leveldb.VerifDump(db); st2.Version.ID != st.Version.ID || st2.HasFrozen != st.HasFrozen || len(st2.Mem) != len(st.Mem) {
				it.Release()
				nStates["retry-version-changed"]++
				break
			}
			// the specification: live pairs of the view at seq within [start, limit), sorted
			vis := visibleOf(ucmp, flat, seq, start, limit)
			cur := &cursor{xs: vis, pos: -1, cmp: ucmp.Compare}
			mvs, outs := walk(r, fmt.Sprintf("db(%s,%s,seq=%d,levels=%d)", id, src, seq, nlev), it, cur, func() []byte { return seekUser(r, univ) })
			it.Release()
			emitWalk(fmt.Sprintf("it new dbiter %s %d %s %s %s", id, seq, hxn(start), hxn(limit), entriesStr(flat)), mvs, outs)
			emitWalk(fmt.Sprintf("it new dblayers %s %d %s %s %d %s", id, seq, hxn(start), hxn(limit), len(layers), strings.Join(layers, " ")), mvs, outs)
			nStates["dbiter"]++
			nStates["dblayers"]++
			if nlev >= 2 {
				nStates["db-with->=2-levels"]++
			}
			if sl != nil {
				nStates["db-with-range"]++
			}
			if src == "snapshot" {
				nStates["db-snapshot"]++
			}
			done++
		}
	}
}


// physical reads the quiescent DB's raw entries: per source (`layers`, in the order newRawIterator merges
// them) and as one icmp-sorted list (`flat`).  ok=false: the table set is malformed (finding D1) or not
// duplicate free.
func physical(db *leveldb.DB, icmp comparer.Comparer, id string) (st *leveldb.VerifState, flat []kv, layers []string, nlev int, ok bool) {
	st = leveldb.VerifDump(db)
	malformed := false
	toKV := func(es []leveldb.VerifEntry) []kv {
		out := make([]kv, len(es))
		for i, e := range es {
			out[i] = kv{e.IKey, e.Value}
		}
		return out
	}
	mem := toKV(st.Mem)
	layers = append(layers, "m "+entriesStr(mem))
	flat = append(flat, mem...)
	if st.HasFrozen {
		fr := toKV(st.Frozen)
		layers = append(layers, "m "+entriesStr(fr))
		flat = append(flat, fr...)
	}
	for level, tabs := range st.Version.Levels {
		if len(tabs) == 0 {
			continue
		}
		nlev++
		if level == 0 {
			for _, t := range tabs {
				es, err := leveldb.VerifTableEntries(db, t)
				must(err)
				layers = append(layers, "m "+entriesStr(toKV(es)))
				flat = append(flat, toKV(es)...)
			}
			continue
		}
		var sb strings.Builder
		fmt.Fprintf(&sb, "l %d", len(tabs))
		for i, t := range tabs {
			if i > 0 && icmp.Compare(tabs[i-1].Imax, t.Imin) >= 0 {
				malformed = true // overlapping / unordered tables in a sorted level
			}
			es, err := leveldb.VerifTableEntries(db, t)
			must(err)
			sb.WriteString(" " + entriesStr(toKV(es)))
			flat = append(flat, toKV(es)...)
		}
		layers = append(layers, sb.String())
	}
	if malformed {
		if id == "bytewise" {
			mismatch("db: malformed version with the bytewise comparer")
		}
		nStates["abandoned-D1-malformed-level"]++
		return st, nil, nil, nlev, false
	}
	sort.Slice(flat, func(i, j int) bool { return icmp.Compare(flat[i].k, flat[j].k) < 0 })
	for i := 1; i < len(flat); i++ {
		if icmp.Compare(flat[i-1].k, flat[i].k) == 0 {
			mismatch("db: duplicate internal key %s in the physical state", hx(flat[i].k))
		}
	}
	return st, flat, layers, nlev, true
}

func seekUser(r *rng.R, univ [][]byte) []byte {
	if r.Chance(3, 4) {
		return gen.KeyFrom(r, univ)
	}
	return gen.Key(r, 4)
}

// visibleOf: per user key the newest entry with seq ≤ seq, kept if it is a value and in range.
func visibleOf(ucmp comparer.Comparer, flat []kv, seq uint64, start, limit []byte) []kv {
	type best struct {
		num uint64
		v   []byte
		u   []byte
	}
	m := map[string]*best{}
	for _, e := range flat {
		u, s, kt, err := leveldb.VerifParseInternalKey(e.k)
		must(err)
		if s > seq {
			continue
		}
		num := s<<8 | uint64(kt)
		if b, ok := m[string(u)]; !ok || num > b.num {
			m[string(u)] = &best{num, e.v, u}
		}
	}
	var out []kv
	for _, b := range m {
		if b.num&0xff != 1 {
			continue
		}
		if start != nil && ucmp.Compare(b.u, start) < 0 {
			continue
		}
		if limit != nil && ucmp.Compare(b.u, limit) >= 0 {
			continue
		}
		out = append(out, kv{b.u, b.v})
	}
	sort.Slice(out, func(i, j int) bool { return ucmp.Compare(out[i].k, out[j].k) < 0 })
	return out
}

func main() {
	seed := flag.Uint64("seed", 1, "seed")
	states := flag.Int("states", 400, "number of iterator states (each walked for -moves moves)")
	moves := flag.Int("moves", 30, "moves per walk")
	out := flag.String("out", ".", "directory for ops.txt / expect.txt")
	flag.Parse()
	nMoves0 = *moves
	must(os.MkdirAll(*out, 0o755))
	fo, err := os.Create(filepath.Join(*out, "ops.txt"))
	must(err)
	fe, err := os.Create(filepath.Join(*out, "expect.txt"))
	must(err)
	ops, exp = bufio.NewWriterSize(fo, 1<<20), bufio.NewWriterSize(fe, 1<<20)
	r := rng.New(*seed).Fork().Fork() // (rng.New(seed+1) is rng.New(seed) shifted by one draw)
	cmps := []string{"bytewise", "reverse", "lenfirst"}
	total := 0
	for total < *states {
		id := cmps[r.Intn(len(cmps))]
		switch r.Intn(10) {
		case 0, 1:
			stateMerged(r.Fork(), id, false)
			total++
		case 2, 3:
			stateMerged(r.Fork(), id, true)
			total++
		case 4, 5:
			stateIndexed(r.Fork(), id)
			total++
		default:
			n := 3 + r.Intn(6)
			before := nStates["dbiter"]
			stateDB(r.Fork(), id, n)
			total += nStates["dbiter"] - before
		}
	}
	ops.Flush()
	exp.Flush()
	fo.Close()
	fe.Close()
	keys := make([]string, 0, len(nStates))
	for k := range nStates {
		keys = append(keys, k)
	}
	sort.Strings(keys)
	fmt.Printf("c02: seed=%d lines=%d moves=%d spec-mismatches=%d", *seed, nLines, nMoves, mismatches)
	for _, k := range keys {
		fmt.Printf(" %s=%d", k, nStates[k])
	}
	fmt.Println()
	if mismatches > 0 {
		os.Exit(1)
	}
}
