package wpc02

import (
	"strings"
	"testing"

	"github.com/syndtr/goleveldb/leveldb/comparer"
	"github.com/syndtr/goleveldb/leveldb/iterator"

	"verif/harness/rng"
	"verif/harness/wp"
)

// skipOnPrev is a wrong iterator: Prev right after Seek steps back twice.
type skipOnPrev struct {
	iterator.Iterator
	afterSeek bool
}

func (s *skipOnPrev) Seek(k []byte) bool { s.afterSeek = true; return s.Iterator.Seek(k) }
func (s *skipOnPrev) Next() bool         { s.afterSeek = false; return s.Iterator.Next() }
func (s *skipOnPrev) First() bool        { s.afterSeek = false; return s.Iterator.First() }
func (s *skipOnPrev) Last() bool         { s.afterSeek = false; return s.Iterator.Last() }
func (s *skipOnPrev) Prev() bool {
	if s.afterSeek {
		s.afterSeek = false
		s.Iterator.Prev()
	}
	return s.Iterator.Prev()
}

// The cursor oracle must fire on a wrong iterator and stay silent on the real ones.
func TestCursorOracleFires(t *testing.T) {
	var sigs []string
	s := wp.Discard()
	s.Violate = func(sig, msg string, rp interface{}) { sigs = append(sigs, sig) }
	g := &generator{s: s, sz: Sizes{States: 1, Moves: 60, MaxEntries: 14, MaxUniverse: 12}, nState: map[string]int{}}
	var xs []kv
	for _, k := range []string{"a", "b", "c", "d", "e", "f"} {
		xs = append(xs, kv{[]byte(k), []byte("v" + k)})
	}
	cmp := comparer.DefaultComparer
	r := rng.New(7)
	seek := func() []byte { return xs[r.Intn(len(xs))].k }
	ci := &caseInfo{site: "test", replay: map[string]interface{}{"state": "six pairs"}}
	g.walk(r, "test", ci, iterator.NewArrayIterator(&kvArray{xs, cmp}), &cursor{xs: xs, pos: -1, cmp: cmp.Compare}, seek)
	if len(sigs) != 0 {
		t.Fatalf("violations on a correct iterator: %v", sigs)
	}
	g.walk(r, "test", ci, &skipOnPrev{Iterator: iterator.NewArrayIterator(&kvArray{xs, cmp})}, &cursor{xs: xs, pos: -1, cmp: cmp.Compare}, seek)
	if len(sigs) == 0 || !strings.Contains(sigs[0], "cursor-mismatch") {
		t.Fatalf("no cursor mismatch reported for a wrong iterator: %v", sigs)
	}
	// whole generator, silent on the real code
	sigs = nil
	Run(rng.New(3), Sizes{States: 60, Moves: 20, MaxEntries: 14, MaxUniverse: 12}, s)
	if len(sigs) != 0 {
		t.Fatalf("violations on the real iterators: %v", sigs)
	}
}
