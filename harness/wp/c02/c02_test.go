package wpc02

import (
	"fmt"
	"github.com/syndtr/goleveldb/leveldb"
	"strings"
	"testing"

	"github.com/syndtr/goleveldb/leveldb/comparer"
	"github.com/syndtr/goleveldb/leveldb/iterator"

	"verif/harness/rng"
	"verif/harness/wp"
)

// skipOnPrev is a wrong iterator: Prev right after Seek steps back twice.
type skipOnPrev struct {
	iterator.Iterator
	afterSeek bool
}

func (s *skipOnPrev) Seek(k []byte) bool { s.afterSeek = true; return s.Iterator.Seek(k) }
func (s *skipOnPrev) Next() bool         { s.afterSeek = false; return s.Iterator.Next() }
func (s *skipOnPrev) First() bool        { s.afterSeek = false; return s.Iterator.First() }
func (s *skipOnPrev) Last() bool         { s.afterSeek = false; return s.Iterator.Last() }
func (s *skipOnPrev) Prev() bool {
	if s.afterSeek {
		s.afterSeek = false
		s.Iterator.Prev()
	}
	return s.Iterator.Prev()
}

// The cursor oracle must fire on a wrong iterator and stay silent on the real ones.
func TestCursorOracleFires(t *testing.T) {
	var sigs []string
	s := wp.Discard()
	s.Violate = func(sig, msg string, rp interface{}) { sigs = append(sigs, sig) }
	g := &generator{s: s, sz: Sizes{States: 1, Moves: 60, MaxEntries: 14, MaxUniverse: 12}, nState: map[string]int{}}
	var xs []kv
	for _, k := range []string{"a", "b", "c", "d", "e", "f"} {
		xs = append(xs, kv{[]byte(k), []byte("v" + k)})
	}
	cmp := comparer.DefaultComparer
	r := rng.New(7)
	seek := func() []byte { return xs[r.Intn(len(xs))].k }
	ci := &caseInfo{site: "test", replay: map[string]interface{}{"state": "six pairs"}}
	g.walk(r, "test", ci, iterator.NewArrayIterator(&kvArray{xs, cmp}), &cursor{xs: xs, pos: -1, cmp: cmp.Compare}, seek)
	if len(sigs) != 0 {
		t.Fatalf("violations on a correct iterator: %v", sigs)
	}
	g.walk(r, "test", ci, &skipOnPrev{Iterator: iterator.NewArrayIterator(&kvArray{xs, cmp})}, &cursor{xs: xs, pos: -1, cmp: cmp.Compare}, seek)
	if len(sigs) == 0 || !strings.Contains(sigs[0], "cursor-mismatch") {
		t.Fatalf("no cursor mismatch reported for a wrong iterator: %v", sigs)
	}
	// whole generator, silent on the real code
	sigs = nil
	Run(rng.New(3), Sizes{States: 60, Moves: 20, MaxEntries: 14, MaxUniverse: 12}, s)
	if len(sigs) != 0 {
		t.Fatalf("violations on the real iterators: %v", sigs)
	}
}

// ---- failing children (GoLevel/Props/C02Err.lean) ---------------------------------------------------

func ikeyRaw(ukey []byte, num uint64) []byte {
	k := append([]byte(nil), ukey...)
	for i := 0; i < 8; i++ {
		k = append(k, byte(num>>(8*uint(i))))
	}
	return k
}

// The decided run GoLevel.C02.nonstrict_skips_healthy_entry on the real mergedIterator: children [a,d] [b] [c,e]
// (C02's merged example), child 1 fails at its movement number 1 with a corruption.  Non-strict: the Next after
// three Prevs drops child 1, lands on c and steps over it — d is shown, c (healthy entry of a healthy child) is
// skipped, Error() stays nil, the error callback was called once.  Strict: that Next reports the corruption.
func TestNonStrictSkipsHealthyEntry(t *testing.T) {
	icmp := leveldb.VerifIComparer(comparer.DefaultComparer)
	a := kv{ikeyRaw([]byte{1}, 5), []byte{10}}
	b := kv{ikeyRaw([]byte{2}, 7), []byte{20}}
	c := kv{ikeyRaw([]byte{2}, 3), []byte{30}}
	d := kv{ikeyRaw([]byte{3, 1}, 1), []byte{40}}
	e := kv{ikeyRaw([]byte{4}, 9), []byte{}}
	calls := []string{"last", "prev", "prev", "prev", "next", "next"}
	run := func(strict bool) (vals []string, errs []string, nerrf int) {
		its := []iterator.Iterator{
			&failIter{Iterator: iterator.NewArrayIterator(&kvArray{[]kv{a, d}, icmp}), plan: failPlan{k: -1}},
			&failIter{Iterator: iterator.NewArrayIterator(&kvArray{[]kv{b}, icmp}), plan: failPlan{k: 1, corrupt: true}},
			&failIter{Iterator: iterator.NewArrayIterator(&kvArray{[]kv{c, e}, icmp}), plan: failPlan{k: -1}},
		}
		mi := iterator.NewMergedIterator(its, icmp, strict)
		mi.(iterator.ErrorCallbackSetter).SetErrorCallback(func(error) { nerrf++ })
		for _, cl := range calls {
			ok := apply(mi, move{m: cl})
			if ok {
				vals = append(vals, fmt.Sprint(mi.Value()))
			} else {
				vals = append(vals, "-")
			}
			errs = append(errs, errClass(mi.Error()))
		}
		mi.Release()
		return
	}
	vals, errs, nerrf := run(false)
	if got, want := strings.Join(vals, " "), "[] [40] [30] [20] [40] []"; got != want {
		t.Fatalf("non-strict values %q, the model says %q", got, want)
	}
	if got := strings.Join(errs, " "); got != "ok ok ok ok ok ok" || nerrf != 1 {
		t.Fatalf("non-strict errors %q errf calls %d, the model says all ok and 1 call", got, nerrf)
	}
	vals, errs, _ = run(true)
	if got, want := strings.Join(vals, " "), "[] [40] [30] [20] - -"; got != want {
		t.Fatalf("strict values %q, the model says %q", got, want)
	}
	if got, want := strings.Join(errs, " "), "ok ok ok ok corrupted corrupted"; got != want {
		t.Fatalf("strict errors %q, the model says %q", got, want)
	}
}

// hideErr hides the error of a strict merged iterator: the error-walk oracle must notice that the answers stop
// agreeing with the cursor while Error() is nil.
type hideErr struct{ iterator.Iterator }

func (h *hideErr) Error() error { return nil }

func TestErrorOracleFires(t *testing.T) {
	var sigs []string
	s := wp.Discard()
	s.Violate = func(sig, msg string, rp interface{}) { sigs = append(sigs, sig) }
	g := &generator{s: s, sz: Sizes{States: 1, Moves: 40, MaxEntries: 14, MaxUniverse: 12}, nState: map[string]int{}}
	icmp := leveldb.VerifIComparer(comparer.DefaultComparer)
	var all []kv
	for i := 0; i < 8; i++ {
		all = append(all, kv{leveldb.VerifMakeInternalKey([]byte{byte('a' + i)}, 5, 1), []byte{byte(i)}})
	}
	mk := func() iterator.Iterator {
		its := []iterator.Iterator{
			&failIter{Iterator: iterator.NewArrayIterator(&kvArray{all[:4], icmp}), plan: failPlan{k: 3, corrupt: true}},
			&failIter{Iterator: iterator.NewArrayIterator(&kvArray{all[4:], icmp}), plan: failPlan{k: -1}},
		}
		return iterator.NewMergedIterator(its, icmp, true)
	}
	r := rng.New(11)
	seek := func() []byte { return all[r.Intn(len(all))].k }
	ci := &caseInfo{site: "test", replay: map[string]interface{}{"state": "two children"}}
	n := 0
	g.walkErr(r, "test", ci, mk(), true, all, icmp.Compare, seek, &n)
	if len(sigs) != 0 {
		t.Fatalf("violations on the real strict iterator: %v", sigs)
	}
	g.walkErr(r, "test", ci, &hideErr{mk()}, true, all, icmp.Compare, seek, &n)
	if len(sigs) == 0 {
		t.Fatalf("an iterator that hides its error went unnoticed")
	}
}
