// Package wpc12 generates the cases of property C12 (journal writer/reader).
//
// A case is a writer program (Next / Write / Flush / Close calls) executed on the real journal.Writer,
// the resulting stream, optionally a mutation of that stream (truncation, zero / garbage extension, bit
// flips, overwritten headers, blocks and ranges), and the result of the recoverJournal consumer loop on the
// real journal.Reader under the four (strict, checksum) combinations.
//
// Every case is handed to the sink twice:
//   - as a `jrn …` line for the Lean model driver together with the implementation's answer
//     (protocol: lean/GoLevel/Driver/Journal.lean), and
//   - through the implementation-side oracles of this file, which judge the real code's answers without
//     any model (see checkIntact / checkDamaged).
package wpc12

import (
	"bytes"
	"fmt"
	"hash/crc32"
	"io"
	"math/rand"
	"strings"

	"github.com/syndtr/goleveldb/leveldb/errors"
	"github.com/syndtr/goleveldb/leveldb/journal"

	"verif/harness/wp"
)

var castagnoli = crc32.MakeTable(crc32.Castagnoli)

const (
	blockSize  = 32768
	headerSize = 7
	// smallSweep: streams up to this length get one explicit `dec` line per truncation offset as well
	smallSweep = 600
)

// Sizes scales the generator.
type Sizes struct {
	Cases     int // number of random enc/dec lines
	Sweeps    int // truncation sweeps over short (< 2 blocks) streams; kinds rotate small / block-crossing / padded
	SweepStep int // offset step of the sweeps over streams longer than 600 bytes (1 = every offset)
}

func genBytes(n, seed int) []byte {
	b := make([]byte, n)
	for k := range b {
		b[k] = byte((seed + 31*k + 17*(k/256)) % 256)
	}
	return b
}

func hexField(b []byte) string {
	if len(b) == 0 {
		return "-"
	}
	return fmt.Sprintf("%x", b)
}

func digest(b []byte) string {
	n := len(b)
	first := b
	if n > 16 {
		first = b[:16]
	}
	last := b
	if n > 16 {
		last = b[n-16:]
	}
	return fmt.Sprintf("%d:%08x:%s:%s", n, crc32.Checksum(b, castagnoli), hexField(first), hexField(last))
}

type op struct {
	kind      byte // n w f c
	len, seed int
}

func (o op) String() string {
	if o.kind == 'w' {
		return fmt.Sprintf("w%d:%d", o.len, o.seed)
	}
	return string(o.kind)
}

func opsString(ops []op) string {
	s := make([]string, len(ops))
	for i, o := range ops {
		s[i] = o.String()
	}
	return strings.Join(s, " ")
}

// writeRes is what one writer program produced.
type writeRes struct {
	stream     []byte
	lens       []int    // stream length after every op
	recs       [][]byte // the records the writer API accepted: one per successful Next, the successful Writes appended
	unfinished bool     // the program ended with a record neither flushed nor closed
	panicked   string
}

// runWriter executes ops on a real journal.Writer.
func runWriter(ops []op) (res writeRes) {
	defer func() {
		if r := recover(); r != nil {
			res.panicked = fmt.Sprint(r)
		}
	}()
	var buf bytes.Buffer
	w := journal.NewWriter(&buf)
	var cur io.Writer
	pending := false
	for _, o := range ops {
		switch o.kind {
		case 'n':
			x, err := w.Next()
			if err == nil {
				cur = x
				res.recs = append(res.recs, []byte{})
				pending = true
			}
		case 'w':
			if cur != nil {
				data := genBytes(o.len, o.seed)
				if _, err := cur.Write(data); err == nil { // stale / closed ⇒ error, nothing written
					res.recs[len(res.recs)-1] = append(res.recs[len(res.recs)-1], data...)
				}
			}
		case 'f':
			if w.Flush() == nil {
				pending = false
			}
		case 'c':
			if w.Close() == nil {
				pending = false
			}
		}
		res.lens = append(res.lens, buf.Len())
	}
	res.unfinished = pending
	res.stream = append([]byte(nil), buf.Bytes()...)
	return res
}

// event is one thing the consumer loop saw: a delivered record or a Drop call.
type event struct {
	rec   []byte // record payload (drop == false)
	drop  bool
	size  int
	class string // z t o c p m ?
}

func (e event) String() string {
	if e.drop {
		if e.size < 0 {
			return "D?:" + e.class
		}
		return fmt.Sprintf("D%d:%s", e.size, e.class)
	}
	return fmt.Sprintf("R%d:%08x", len(e.rec), crc32.Checksum(e.rec, castagnoli))
}

type readRes struct {
	ev       []event
	fin      string // eof corrupt other loop
	panicked string
}

func (r *readRes) String() string {
	if r.panicked != "" {
		return "panic:" + r.panicked
	}
	e := "-"
	if len(r.ev) > 0 {
		s := make([]string, len(r.ev))
		for i, x := range r.ev {
			s[i] = x.String()
		}
		e = strings.Join(s, ",")
	}
	return fmt.Sprintf("ev=%s fin=%s", e, r.fin)
}

func (r *readRes) records() [][]byte {
	var out [][]byte
	for _, e := range r.ev {
		if !e.drop {
			out = append(out, e.rec)
		}
	}
	return out
}

type dropper struct{ ev *[]event }

func (d dropper) Drop(err error) {
	e, ok := err.(*journal.ErrCorrupted)
	if !ok {
		*d.ev = append(*d.ev, event{drop: true, size: -1, class: err.Error()})
		return
	}
	c := "?"
	switch {
	case e.Reason == "zero header":
		c = "z"
	case strings.HasPrefix(e.Reason, "invalid chunk type"):
		c = "t"
	case e.Reason == "chunk length overflows block":
		c = "o"
	case e.Reason == "checksum mismatch":
		c = "c"
	case e.Reason == "orphan chunk":
		c = "p"
	case e.Reason == "missing chunk part":
		c = "m"
	}
	*d.ev = append(*d.ev, event{drop: true, size: e.Size, class: c})
}

// readAll is the consumer loop of DB.recoverJournal: ErrUnexpectedEOF from a record ⇒ next record.
func readAll(stream []byte, strict, checksum bool) (res *readRes) {
	return readAllWith(stream, strict, checksum, false)
}

// readAllWith: with nilDropper the reader gets no dropper at all (`NewReader` documents "The dropper may be nil"): the
// records and the way the stream ends must be those of the run with a dropper, and it must not panic.
func readAllWith(stream []byte, strict, checksum, nilDropper bool) (res *readRes) {
	res = &readRes{}
	defer func() {
		if r := recover(); r != nil {
			res.panicked = fmt.Sprint(r)
		}
	}()
	var dr journal.Dropper = dropper{&res.ev}
	if nilDropper {
		dr = nil
	}
	jr := journal.NewReader(bytes.NewReader(stream), dr, strict, checksum)
	for iter := 0; ; iter++ {
		if iter > len(stream)+10 {
			res.fin = "loop"
			break
		}
		rd, err := jr.Next()
		if err == io.EOF {
			res.fin = "eof"
			break
		}
		if err != nil {
			if errors.IsCorrupted(err) {
				res.fin = "corrupt"
			} else {
				res.fin = "other"
			}
			break
		}
		data, err := io.ReadAll(rd)
		if err == nil {
			if data == nil {
				data = []byte{}
			}
			res.ev = append(res.ev, event{rec: data})
			continue
		}
		if err == io.ErrUnexpectedEOF {
			continue
		}
		if errors.IsCorrupted(err) {
			res.fin = "corrupt"
		} else {
			res.fin = "other"
		}
		break
	}
	return res
}

func sameRecords(a, b [][]byte) bool {
	if len(a) != len(b) {
		return false
	}
	for i := range a {
		if !bytes.Equal(a[i], b[i]) {
			return false
		}
	}
	return true
}

var allFlags = [][2]bool{{true, true}, {true, false}, {false, true}, {false, false}}

func flagStr(f [2]bool) string {
	b := []byte("00")
	if f[0] {
		b[0] = '1'
	}
	if f[1] {
		b[1] = '1'
	}
	return string(b)
}

func flagsString(fl [][2]bool) string {
	s := make([]string, len(fl))
	for i, f := range fl {
		s[i] = flagStr(f)
	}
	return strings.Join(s, ",")
}

type mut struct {
	kind    byte // t z g x s r
	a, b, c int
}

func (m mut) String() string {
	switch m.kind {
	case 't', 'z':
		return fmt.Sprintf("%c%d", m.kind, m.a)
	case 'r':
		return fmt.Sprintf("r%d:%d:%d", m.a, m.b, m.c)
	}
	return fmt.Sprintf("%c%d:%d", m.kind, m.a, m.b)
}

func applyMuts(stream []byte, ms []mut) []byte {
	b := append([]byte(nil), stream...)
	for _, m := range ms {
		switch m.kind {
		case 't':
			if m.a < len(b) {
				b = b[:m.a]
			}
		case 'z':
			b = append(b, make([]byte, m.a)...)
		case 'g':
			b = append(b, genBytes(m.a, m.b)...)
		case 'x':
			if m.a < len(b) {
				b[m.a] ^= byte(m.b)
			}
		case 's':
			if m.a < len(b) {
				b[m.a] = byte(m.b)
			}
		case 'r':
			for i := m.a; i < m.a+m.b && i < len(b); i++ {
				b[i] = byte(m.c)
			}
		}
	}
	return b
}

func mutsString(ms []mut) string {
	s := make([]string, len(ms))
	for i, m := range ms {
		s[i] = m.String()
	}
	return strings.Join(s, " ")
}

// ---------------------------------------------------------------- generation

func recLen(r *rand.Rand, big bool) int {
	switch k := r.Intn(100); {
	case k < 14:
		return []int{0, 1, 6, 7, 8}[r.Intn(5)]
	case k < 34:
		return 32753 + r.Intn(32775-32753+1)
	case k < 46:
		if !big {
			return r.Intn(200)
		}
		return 65500 + r.Intn(65540-65500+1)
	case k < 90:
		return r.Intn(200)
	default:
		if !big {
			return r.Intn(3000)
		}
		return r.Intn(100001)
	}
}

// genOps: records with random flush patterns and random splitting of a record into Write calls.
func genOps(r *rand.Rand, nrec int, big bool, wild bool) []op {
	var ops []op
	for i := 0; i < nrec; i++ {
		ops = append(ops, op{kind: 'n'})
		n := recLen(r, big)
		seed := r.Intn(256)
		// split into 1..3 writes
		parts := 1 + r.Intn(3)
		for p := 0; p < parts && n >= 0; p++ {
			l := n
			if p < parts-1 && n > 0 {
				l = r.Intn(n + 1)
			}
			if l > 0 || r.Intn(4) == 0 {
				ops = append(ops, op{kind: 'w', len: l, seed: (seed + p) % 256})
			}
			n -= l
			if p == parts-1 {
				break
			}
		}
		switch k := r.Intn(10); {
		case k < 3:
			ops = append(ops, op{kind: 'f'})
			if r.Intn(5) == 0 {
				ops = append(ops, op{kind: 'f'})
			}
			if wild && r.Intn(6) == 0 { // stale write after a flush
				ops = append(ops, op{kind: 'w', len: 1 + r.Intn(20), seed: 9})
			}
		}
	}
	if r.Intn(3) == 0 {
		ops = append(ops, op{kind: 'f'})
	} else {
		ops = append(ops, op{kind: 'c'})
	}
	if wild && r.Intn(4) == 0 { // things after close
		ops = append(ops, op{kind: 'n'}, op{kind: 'w', len: 5, seed: 1}, op{kind: 'f'})
	}
	return ops
}

// chunkStarts scans an intact stream and returns the offsets of all chunk headers.
func chunkStarts(stream []byte) []int {
	var res []int
	off := 0
	for off < len(stream) {
		inblk := off % blockSize
		if blockSize-inblk < headerSize {
			off += blockSize - inblk
			continue
		}
		if off+headerSize > len(stream) {
			break
		}
		l := int(stream[off+4]) | int(stream[off+5])<<8
		res = append(res, off)
		off += headerSize + l
	}
	return res
}

func interestingOffsets(r *rand.Rand, stream []byte, k int) []int {
	cs := chunkStarts(stream)
	var cand []int
	for _, c := range cs {
		for d := -2; d <= 9; d++ {
			cand = append(cand, c+d)
		}
	}
	for b := blockSize; b <= len(stream)+blockSize; b += blockSize {
		for d := -9; d <= 9; d++ {
			cand = append(cand, b+d)
		}
	}
	cand = append(cand, 0, 1, 6, 7, 8, len(stream)-1, len(stream), len(stream)-7, len(stream)-8)
	var res []int
	for i := 0; i < k; i++ {
		var o int
		if r.Intn(4) == 0 && len(stream) > 0 {
			o = r.Intn(len(stream) + 1)
		} else {
			o = cand[r.Intn(len(cand))]
		}
		if o < 0 {
			o = 0
		}
		if o > len(stream) {
			o = len(stream)
		}
		res = append(res, o)
	}
	return res
}

// ---------------------------------------------------------------- the generator

type generator struct {
	r       *rand.Rand
	s       *wp.Sink
	samples map[string]bool
}

// prog is a writer program together with everything derived from its intact stream.
type prog struct {
	ops    []op
	opsStr string
	w      writeRes
	lay    []recSpan // per written record the blocks its chunks lie in; nil when the layout could not be established
}

func (g *generator) newProg(ops []op) *prog {
	p := &prog{ops: ops, opsStr: opsString(ops)}
	p.w = runWriter(ops)
	if p.w.panicked != "" {
		g.s.Violate("journal.Writer:panic", "the writer panicked: "+p.w.panicked, map[string]interface{}{"ops": p.opsStr})
		return p
	}
	g.describeProg(p)
	g.checkLayout(p)
	return p
}

func (g *generator) encCase(p *prog) {
	line := "jrn enc " + p.opsStr
	g.s.Eval(line, len(p.w.stream) > 0)
	g.s.Count("line kind", "enc")
	if p.w.panicked != "" {
		g.s.Emit(line, "panic:"+p.w.panicked)
		return
	}
	ls := make([]string, len(p.w.lens))
	for i, l := range p.w.lens {
		ls[i] = fmt.Sprint(l)
	}
	d := digest(p.w.stream)
	want := fmt.Sprintf("%s lens=%s %s", d, strings.Join(ls, ","), d)
	g.s.Emit(line, want)
	g.sample("enc", line, want)
}

// decCase reads the (mutated) stream under all four flag combinations, applies the oracles and emits the line.
func (g *generator) decCase(p *prog, ms []mut, kind string) {
	mutated := applyMuts(p.w.stream, ms)
	line := "jrn dec " + flagsString(allFlags) + " " + p.opsStr + " | " + mutsString(ms)
	changed := !bytes.Equal(mutated, p.w.stream)
	if len(ms) == 0 {
		g.s.Eval(line, len(p.w.recs) > 0 && len(p.w.stream) > 0)
	} else {
		g.s.Eval(line, changed)
	}
	g.s.Count("line kind", "dec")
	g.s.Count("mutation kind", kind)
	if len(ms) > 0 && !changed {
		g.s.Count("mutation effect", "stream unchanged")
	} else if len(ms) > 0 {
		g.s.Count("mutation effect", "stream changed")
	}
	want := g.readAndCheck(p, mutated, ms, kind)
	g.s.Emit(line, want)
	g.sample("dec "+kind, line, want)
}

// readAndCheck runs the reader under the four flag combinations on `mutated`, judges the answers and returns
// the answer string of the line protocol.
func (g *generator) readAndCheck(p *prog, mutated []byte, ms []mut, kind string) string {
	parts := make([]string, len(allFlags))
	for i, f := range allFlags {
		rr := readAll(mutated, f[0], f[1])
		parts[i] = rr.String()
		g.describeRead(f, rr)
		g.judge(p, mutated, ms, kind, f, rr)
		// the same stream through a reader WITHOUT a dropper
		rn := readAllWith(mutated, f[0], f[1], true)
		g.s.Count("nil-dropper runs", flagStr(f))
		if rn.panicked != "" {
			g.s.Violate("journal.Reader:nil-dropper:panic", fmt.Sprintf("flags (strict,checksum)=%s: the reader created with a nil dropper panicked: %s", flagStr(f), rn.panicked),
				map[string]interface{}{"ops": p.opsStr, "mutations": fmt.Sprint(ms), "kind": kind})
		} else if rn.fin != rr.fin || !sameRecords(rn.records(), rr.records()) {
			g.s.Violate("journal.Reader:nil-dropper:differs", fmt.Sprintf("flags (strict,checksum)=%s: with a nil dropper the reader yields %d records and ends with %s; with a dropper %d records and %s", flagStr(f), len(rn.records()), rn.fin, len(rr.records()), rr.fin),
				map[string]interface{}{"ops": p.opsStr, "mutations": fmt.Sprint(ms), "kind": kind})
		}
	}
	return strings.Join(parts, " ; ")
}

func (g *generator) sample(kind, line, want string) {
	if g.samples[kind] || len(line) > 400 {
		return
	}
	g.samples[kind] = true
	g.s.Sample(map[string]string{"kind": kind, "driver_line": line, "implementation": want})
}

// Run generates sz.Cases random lines and sz.Sweeps truncation sweeps.
func Run(r *rand.Rand, sz Sizes, s *wp.Sink) {
	g := &generator{r: r, s: s, samples: map[string]bool{}}
	if sz.SweepStep < 1 {
		sz.SweepStep = 1
	}
	emitted := 0
	dec := func(p *prog, ms []mut, kind string) { g.decCase(p, ms, kind); emitted++ }

	for emitted < sz.Cases && s.TimeLeft() {
		big := r.Intn(5) == 0
		nrec := 1 + r.Intn(8)
		if !big && r.Intn(3) == 0 {
			nrec = 1 + r.Intn(40)
		}
		wild := r.Intn(5) == 0
		p := g.newProg(genOps(r, nrec, big, wild))
		if wild {
			s.Count("writer program", "with stale / after-close calls")
		} else {
			s.Count("writer program", "regular")
		}
		g.encCase(p)
		emitted++
		if p.w.panicked != "" {
			continue
		}
		dec(p, nil, "intact")
		stream := p.w.stream
		if len(stream) == 0 {
			continue
		}
		// truncations
		for _, o := range interestingOffsets(r, stream, 3) {
			dec(p, []mut{{kind: 't', a: o}}, "truncate")
		}
		// zero / garbage extension (also after a truncation)
		zs := []int{1, 6, 7, 8, 13, 14, 100, blockSize - len(stream)%blockSize, blockSize - len(stream)%blockSize + 7, blockSize, 2*blockSize + 5, r.Intn(70000)}
		dec(p, []mut{{kind: 'z', a: zs[r.Intn(len(zs))]}}, "zero-extend")
		dec(p, []mut{{kind: 'g', a: zs[r.Intn(len(zs))], b: r.Intn(256)}}, "garbage-extend")
		dec(p, []mut{{kind: 't', a: interestingOffsets(r, stream, 1)[0]}, {kind: 'z', a: zs[r.Intn(len(zs))]}}, "truncate+zero-extend")
		// flips / overwrites
		cs := chunkStarts(stream)
		for k := 0; k < 4; k++ {
			var ms []mut
			kinds := map[string]bool{}
			nm := 1 + r.Intn(2)
			for q := 0; q < nm; q++ {
				var pos int
				if len(cs) > 0 && r.Intn(3) != 0 {
					pos = cs[r.Intn(len(cs))] + r.Intn(9) // header bytes or first payload bytes
				} else {
					pos = r.Intn(len(stream))
				}
				switch r.Intn(4) {
				case 0:
					ms = append(ms, mut{kind: 'x', a: pos, b: 1 << uint(r.Intn(8))})
					kinds["bit-flip"] = true
				case 1:
					ms = append(ms, mut{kind: 'x', a: pos, b: 1 + r.Intn(255)})
					kinds["byte-xor"] = true
				case 2:
					ms = append(ms, mut{kind: 's', a: pos, b: []int{0, 1, 2, 3, 4, 5, 255}[r.Intn(7)]})
					kinds["byte-set"] = true
				default:
					// zero a whole header
					if len(cs) > 0 {
						h := cs[r.Intn(len(cs))]
						for d := 0; d < headerSize; d++ {
							ms = append(ms, mut{kind: 's', a: h + d, b: 0})
						}
						kinds["header-zeroed"] = true
					} else {
						ms = append(ms, mut{kind: 's', a: pos, b: 0})
						kinds["byte-set"] = true
					}
				}
			}
			var ks []string
			for _, k := range []string{"bit-flip", "byte-xor", "byte-set", "header-zeroed"} {
				if kinds[k] {
					ks = append(ks, k)
				}
			}
			dec(p, ms, strings.Join(ks, "+"))
		}
		// a whole block, or a random range, overwritten
		{
			nb := (len(stream) + blockSize - 1) / blockSize
			blk := r.Intn(nb)
			val := []int{0, 255, 1, 4, r.Intn(256)}[r.Intn(5)]
			if r.Intn(2) == 0 {
				dec(p, []mut{{kind: 'r', a: blk * blockSize, b: blockSize, c: val}}, "block-overwritten")
			} else {
				q := r.Intn(len(stream))
				dec(p, []mut{{kind: 'r', a: q, b: 1 + r.Intn(40), c: val}}, "range-overwritten")
			}
		}
	}

	// truncation sweeps over short streams (< 2 blocks), every flag combination
	for sw := 0; sw < sz.Sweeps && s.TimeLeft(); sw++ {
		var ops []op
		var kind string
		switch sw % 3 {
		case 0: // a few small records: every offset individually as well
			kind = "small records"
			for i, n := 0, 2+r.Intn(4); i < n; i++ {
				ops = append(ops, op{kind: 'n'}, op{kind: 'w', len: r.Intn(60), seed: r.Intn(256)})
				if r.Intn(3) == 0 {
					ops = append(ops, op{kind: 'f'})
				}
			}
			ops = append(ops, op{kind: 'c'})
		case 1: // crosses the first block boundary with a multi-chunk record
			kind = "record across the block boundary"
			ops = []op{{kind: 'n'}, {kind: 'w', len: r.Intn(300), seed: 1}, {kind: 'n'}, {kind: 'w', len: 32700 + r.Intn(200), seed: 2},
				{kind: 'n'}, {kind: 'w', len: r.Intn(50), seed: 3}, {kind: 'c'}}
		case 2: // padding at the end of the first block
			kind = "padded block end"
			ops = []op{{kind: 'n'}, {kind: 'w', len: 32768 - 7 - 7 - 1 - r.Intn(6), seed: 4}, {kind: 'n'}, {kind: 'w', len: 0, seed: 0},
				{kind: 'n'}, {kind: 'w', len: 10 + r.Intn(300), seed: 5}, {kind: 'n'}, {kind: 'c'}}
		}
		p := g.newProg(ops)
		stream := p.w.stream
		if p.w.panicked != "" || len(stream) >= 2*blockSize {
			continue
		}
		step, from := 1, 0
		if len(stream) > smallSweep && sz.SweepStep > 1 {
			step = sz.SweepStep
			from = r.Intn(step)
		}
		s.Count("sweep", fmt.Sprintf("%s, step %d", kind, step))
		var h uint32
		cnt := 0
		id := crc32.Checksum([]byte(p.opsStr), castagnoli)
		for off := from; off <= len(stream); off += step {
			ms := []mut{{kind: 't', a: off}}
			s.Eval(fmt.Sprintf("sweep/%08x/%d/t%d", id, sw, off), off < len(stream))
			s.Count("mutation kind", "truncate (sweep)")
			line := g.readAndCheck(p, stream[:off], ms, "truncate") + "\n"
			h = crc32.Update(h, castagnoli, []byte(line))
			cnt++
		}
		line := fmt.Sprintf("jrn sweep %s %s | %d %d %d", flagsString(allFlags), p.opsStr, from, len(stream), step)
		want := fmt.Sprintf("%d %08x", cnt, h)
		s.Count("line kind", "sweep")
		s.Emit(line, want)
		g.sample("sweep", line, want)
		if len(stream) <= smallSweep {
			for off := 0; off <= len(stream); off++ {
				g.decCase(p, []mut{{kind: 't', a: off}}, "truncate")
			}
		} else if step > 1 {
			// the sweep is thinned out: keep every offset next to a chunk header, the block boundary and the end
			seen := map[int]bool{}
			var offs []int
			add := func(o int) {
				if o >= 0 && o <= len(stream) && !seen[o] {
					seen[o] = true
					offs = append(offs, o)
				}
			}
			for _, c := range chunkStarts(stream) {
				for d := -2; d <= 9; d++ {
					add(c + d)
				}
			}
			for d := -9; d <= 9; d++ {
				add(blockSize + d)
			}
			for d := 0; d <= 9; d++ {
				add(len(stream) - d)
			}
			for _, o := range offs {
				g.decCase(p, []mut{{kind: 't', a: o}}, "truncate")
			}
		}
	}
}
