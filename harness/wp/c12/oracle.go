package wpc12

import (
	"bytes"
	"encoding/binary"
	"fmt"
	"hash/crc32"
)

// The implementation-side oracles of C12.  They look only at what the real journal.Writer / journal.Reader
// did: the records the writer API accepted (`written`), the bytes it produced, the mutation applied to those
// bytes, and the records / Drop calls / final error the consumer loop observed.
//
//	(a) intact stream: the records read back are exactly the written ones, no Drop call, final state eof,
//	    under all four (strict, checksum) combinations;
//	(b) truncated and / or zero-extended stream, checksums on: the records read back are a prefix of the
//	    written ones; without strict the loop ends with eof; with strict it ends with eof or with exactly one
//	    corruption error, which is the last thing that happened (orphan-chunk drops do not stop a strict
//	    reader and are not counted); a pure extension (zeroes or garbage appended) loses no record;
//	(c) any damaged stream, checksums on: every record read back is one of the written records and they come
//	    in the written order (a subsequence; with equal records the earliest embedding is taken) — none of the
//	    generator's mutations can forge a CRC, so an invented record is a violation; without strict every
//	    written record none of whose chunks lies in a 32 KiB block touched by the mutation must be read back;
//	(d) neither the writer nor the reader panics; a reader that is not strict never ends with an error.

// recSpan: the blocks the chunks of one written record occupy (chunks of a record are contiguous).
type recSpan struct{ first, last int }

func lenClass(n int) string {
	switch {
	case n == 0:
		return "0"
	case n <= 6:
		return "1-6"
	case n <= 8:
		return "7-8"
	case n < 200:
		return "9-199"
	case n < 3000:
		return "200-2999"
	case n < 32753:
		return "3000-32752"
	case n <= 32775:
		return "32753-32775 (one block ± header)"
	case n < 65500:
		return "32776-65499"
	case n <= 65540:
		return "65500-65540 (two blocks ± headers)"
	default:
		return "65541-100000"
	}
}

func nClass(n int, bounds ...int) string {
	lo := 0
	for _, b := range bounds {
		if n <= b {
			if lo == b {
				return fmt.Sprint(b)
			}
			return fmt.Sprintf("%d-%d", lo, b)
		}
		lo = b + 1
	}
	return fmt.Sprintf("%d+", lo)
}

func (g *generator) describeProg(p *prog) {
	for _, rec := range p.w.recs {
		g.s.Count("record length", lenClass(len(rec)))
	}
	g.s.Count("records per stream", nClass(len(p.w.recs), 0, 1, 4, 8, 16, 40))
	g.s.Count("stream blocks", nClass((len(p.w.stream)+blockSize-1)/blockSize, 0, 1, 2, 3, 8))
	last := byte('f')
	for _, o := range p.ops {
		if o.kind == 'c' {
			last = 'c'
		}
	}
	if last == 'c' {
		g.s.Count("stream end", "Close")
	} else {
		g.s.Count("stream end", "Flush only")
	}
}

func maskedCRC(b []byte) uint32 {
	c := crc32.Checksum(b, castagnoli)
	return ((c >> 15) | (c << 17)) + 0xa282ead8
}

// checkLayout parses the intact stream with an independent chunk scanner (header CRCs verified, padding
// must be zero, chunk types must form full | first middle* last), compares the assembled records with the
// written ones and remembers in which blocks every record lives.
func (g *generator) checkLayout(p *prog) {
	st := p.w.stream
	bad := func(what, msg string) {
		g.s.Violate("journal.Writer:"+what, msg, map[string]interface{}{"ops": p.opsStr})
		p.lay = nil
	}
	if p.w.unfinished {
		g.s.Count("writer program", "ends with an unfinished record (layout not checked)")
		return
	}
	var lay []recSpan
	var cur []byte
	inRec := false
	nrec := 0
	chunksOfRec := 0
	off := 0
	for off < len(st) {
		inblk := off % blockSize
		if blockSize-inblk < headerSize {
			for _, x := range st[off:minInt(len(st), off+blockSize-inblk)] {
				if x != 0 {
					bad("padding", fmt.Sprintf("non-zero block trailer at %d", off))
					return
				}
			}
			off += blockSize - inblk
			continue
		}
		if off+headerSize > len(st) {
			bad("layout", fmt.Sprintf("stream ends inside a chunk header at %d", off))
			return
		}
		sum := binary.LittleEndian.Uint32(st[off:])
		l := int(binary.LittleEndian.Uint16(st[off+4:]))
		typ := st[off+6]
		if inblk+headerSize+l > blockSize || off+headerSize+l > len(st) {
			bad("layout", fmt.Sprintf("chunk at %d (length %d) leaves its block or the stream", off, l))
			return
		}
		if sum != maskedCRC(st[off+6:off+headerSize+l]) {
			bad("chunk-crc", fmt.Sprintf("chunk at %d carries a wrong checksum", off))
			return
		}
		blk := off / blockSize
		switch {
		case (typ == 1 || typ == 2) && !inRec:
			cur = append([]byte{}, st[off+headerSize:off+headerSize+l]...)
			lay = append(lay, recSpan{blk, blk})
			chunksOfRec = 1
			inRec = typ == 2
		case (typ == 3 || typ == 4) && inRec:
			cur = append(cur, st[off+headerSize:off+headerSize+l]...)
			lay[len(lay)-1].last = blk
			chunksOfRec++
			inRec = typ == 3
		default:
			bad("layout", fmt.Sprintf("chunk type %d at %d does not continue the chunk sequence", typ, off))
			return
		}
		if !inRec {
			if nrec >= len(p.w.recs) || !bytes.Equal(cur, p.w.recs[nrec]) {
				bad("records", fmt.Sprintf("record %d in the stream is not the record written", nrec))
				return
			}
			nrec++
			g.s.Count("chunks per record", nClass(chunksOfRec, 0, 1, 2, 3))
		}
		off += headerSize + l
	}
	if inRec || nrec != len(p.w.recs) {
		bad("records", fmt.Sprintf("the stream holds %d complete records, %d were written", nrec, len(p.w.recs)))
		return
	}
	p.lay = lay
	if lay == nil {
		p.lay = []recSpan{}
	}
}

func minInt(a, b int) int {
	if a < b {
		return a
	}
	return b
}

func (g *generator) describeRead(f [2]bool, rr *readRes) {
	fs := "strict=" + flagStr(f)[:1] + " checksum=" + flagStr(f)[1:]
	if rr.panicked != "" {
		g.s.Count("reader outcome", fs+": panic")
		return
	}
	g.s.Count("reader outcome", fs+": "+rr.fin)
	for _, e := range rr.ev {
		if e.drop {
			g.s.Count("drop class", map[string]string{"z": "zero header", "t": "invalid chunk type", "o": "length overflows block",
				"c": "checksum mismatch", "p": "orphan chunk", "m": "missing chunk part"}[e.class])
		}
	}
}

// touched computes which blocks of the original stream the mutation may have changed: blocks ≥ tail (cut off
// or re-filled by an extension) and the individually marked ones.
func touched(streamLen int, ms []mut) (tail int, marked map[int]bool) {
	tail = int(^uint(0) >> 1)
	marked = map[int]bool{}
	cur := streamLen
	for _, m := range ms {
		switch m.kind {
		case 't':
			if m.a < cur {
				if b := m.a / blockSize; b < tail {
					tail = b
				}
				cur = m.a
			}
		case 'z', 'g':
			if m.a > 0 {
				if b := cur / blockSize; b < tail {
					tail = b // the block the extension starts in, and everything behind it
				}
				cur += m.a
			}
		case 'x', 's':
			if m.a < cur {
				marked[m.a/blockSize] = true
			}
		case 'r':
			if m.a < cur && m.b > 0 {
				end := minInt(m.a+m.b, cur) - 1
				for b := m.a / blockSize; b <= end/blockSize; b++ {
					marked[b] = true
				}
			}
		}
	}
	return tail, marked
}

// embed matches the records read back against the written ones: the earliest order-preserving embedding.
// It returns the index of the first record read back that has no place (‑1: all fit) and which written
// records were matched.
func embed(got, written [][]byte) (bad int, matched []bool) {
	matched = make([]bool, len(written))
	p := 0
	for j, r := range got {
		i := p
		for i < len(written) && !(len(written[i]) == len(r) && bytes.Equal(written[i], r)) {
			i++
		}
		if i == len(written) {
			return j, matched
		}
		matched[i] = true
		p = i + 1
	}
	return -1, matched
}

// covers: is there an order-preserving assignment of the records read back to equal written records that
// uses every required written record?  (Equal records — several empty ones, say — make the choice matter.)
func covers(got, written [][]byte, required []bool) bool {
	n, m := len(written), len(got)
	ok := make([][]bool, n+1)
	for i := range ok {
		ok[i] = make([]bool, m+1)
	}
	ok[0][0] = true
	for i := 0; i < n; i++ {
		for j := 0; j <= m; j++ {
			if !ok[i][j] {
				continue
			}
			if !required[i] {
				ok[i+1][j] = true
			}
			if j < m && len(written[i]) == len(got[j]) && bytes.Equal(written[i], got[j]) {
				ok[i+1][j+1] = true
			}
		}
	}
	return ok[n][m]
}

func isPrefix(got, written [][]byte) bool {
	if len(got) > len(written) {
		return false
	}
	for i := range got {
		if !bytes.Equal(got[i], written[i]) {
			return false
		}
	}
	return true
}

// judge applies the oracles to one reader run.
func (g *generator) judge(p *prog, mutated []byte, ms []mut, kind string, f [2]bool, rr *readRes) {
	strict, checksum := f[0], f[1]
	replay := map[string]interface{}{
		"ops": p.opsStr, "mutation": mutsString(ms), "strict": strict, "checksum": checksum,
		"driver_line": "jrn dec " + flagStr(f) + " " + p.opsStr + " | " + mutsString(ms), "implementation": rr.String(),
	}
	viol := func(rule, msg string) { g.s.Violate("journal.Reader:"+rule, msg, replay) }
	// (d)
	if rr.panicked != "" {
		viol("panic", "the reader panicked: "+rr.panicked)
		return
	}
	if rr.fin == "other" || rr.fin == "loop" {
		viol("final-error", "the consumer loop ended with `"+rr.fin+"` (neither eof nor a corruption error)")
	}
	if !strict && rr.fin != "eof" {
		viol("tolerant-ends-with-error", "a reader that is not strict ended with `"+rr.fin+"`")
	}
	if p.w.unfinished {
		return
	}
	written := p.w.recs
	got := rr.records()
	ndrops, nstop, lastStop := 0, 0, -1
	for i, e := range rr.ev {
		if e.drop {
			ndrops++
			if e.class != "p" {
				nstop++
				lastStop = i
			}
		}
	}
	// (a)
	if len(ms) == 0 {
		g.s.Count("oracle applied", "(a) intact round trip")
		if ndrops != 0 || rr.fin != "eof" || len(got) != len(written) || !isPrefix(got, written) {
			viol("intact-roundtrip", fmt.Sprintf("intact stream: %d records written, %d read back (equal prefix: %v), %d drops, fin=%s",
				len(written), len(got), isPrefix(got, written), ndrops, rr.fin))
		}
		return
	}
	if !checksum {
		g.s.Count("oracle applied", "(d) only: checksums off on a damaged stream")
		return
	}
	// (b)
	onlyCutOrZero, onlyExtend := true, true
	for _, m := range ms {
		if m.kind != 't' && m.kind != 'z' {
			onlyCutOrZero = false
		}
		if m.kind != 'z' && m.kind != 'g' {
			onlyExtend = false
		}
	}
	if onlyCutOrZero {
		g.s.Count("oracle applied", "(b) prefix after truncation / zero extension")
		if !isPrefix(got, written) {
			viol("truncated-prefix", fmt.Sprintf("the %d records read back are not a prefix of the %d written", len(got), len(written)))
		}
		if strict {
			switch {
			case rr.fin == "eof" && nstop != 0:
				viol("strict-one-error", fmt.Sprintf("strict reader reported %d corruptions and still ended with eof", nstop))
			case rr.fin == "corrupt" && (nstop != 1 || lastStop != len(rr.ev)-1):
				viol("strict-one-error", fmt.Sprintf("strict reader ended with a corruption error after %d corruption reports (the last at event %d of %d)", nstop, lastStop+1, len(rr.ev)))
			}
		}
	}
	if onlyExtend {
		g.s.Count("oracle applied", "(b) extension loses nothing")
		if len(got) != len(written) || !isPrefix(got, written) {
			viol("extension-keeps-all", fmt.Sprintf("bytes were only appended, yet %d of %d records were read back", len(got), len(written)))
		}
	}
	// (c)
	g.s.Count("oracle applied", "(c) subsequence, nothing invented")
	bad, matched := embed(got, written)
	if bad >= 0 {
		in := false
		for _, w := range written {
			if bytes.Equal(w, got[bad]) {
				in = true
			}
		}
		if in {
			viol("order", fmt.Sprintf("record %d read back (%d bytes) is a written record but out of the written order", bad, len(got[bad])))
		} else {
			viol("invented-record", fmt.Sprintf("record %d read back (%d bytes, %s) was never written", bad, len(got[bad]), digest(got[bad])))
		}
		return
	}
	if strict || p.lay == nil {
		return
	}
	tail, marked := touched(len(p.w.stream), ms)
	need := 0
	required := make([]bool, len(written))
	for i, sp := range p.lay {
		hit := sp.last >= tail
		for b := sp.first; b <= sp.last && !hit; b++ {
			hit = marked[b]
		}
		if !hit {
			required[i] = true
			need++
		}
	}
	lost := -1
	if need > 0 && !covers(got, written, required) {
		// name one: the first required record the earliest embedding leaves out
		for i := range written {
			if required[i] && !matched[i] && lost < 0 {
				lost = i
			}
		}
		if lost < 0 {
			lost = 0
		}
	}
	g.s.Count("oracle applied", "(c) records outside the damaged blocks survive")
	g.s.Count("records outside the damaged blocks", nClass(need, 0, 1, 4, 16))
	if len(written) > 0 {
		if need == len(written) {
			g.s.Count("damage", "touches no record's block")
		} else if need == 0 {
			g.s.Count("damage", "touches every record's block")
		} else {
			g.s.Count("damage", "touches some records' blocks")
		}
	}
	if lost >= 0 {
		viol("undamaged-record-lost", fmt.Sprintf("written record %d (%d bytes, blocks %d..%d) lies outside the damaged blocks and was not read back (%d of %d records read back; no order-preserving assignment covers the %d undamaged records)",
			lost, len(written[lost]), p.lay[lost].first, p.lay[lost].last, len(got), len(written), need))
	}
}
