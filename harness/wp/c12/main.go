// Differential generator for property C12 (journal writer/reader).
//
// Prints one line per case: "<driver input line>\t<expected driver answer>".
// The expected answer is computed with the real journal.Writer / journal.Reader.
// The line protocol is documented in lean/GoLevel/Driver/Journal.lean.
//
//	go run . -seed 1 -n 2000 > cases.tsv
//	cut -f1 cases.tsv | gldriver > got.txt ; cut -f2 cases.tsv | diff - got.txt
package main

import (
	"bufio"
	"bytes"
	"flag"
	"fmt"
	"hash/crc32"
	"io"
	"math/rand"
	"os"
	"strings"

	"github.com/syndtr/goleveldb/leveldb/errors"
	"github.com/syndtr/goleveldb/leveldb/journal"
)

var castagnoli = crc32.MakeTable(crc32.Castagnoli)

const blockSize = 32768

func gen(n, seed int) []byte {
	b := make([]byte, n)
	for k := range b {
		b[k] = byte((seed + 31*k + 17*(k/256)) % 256)
	}
	return b
}

func hexField(b []byte) string {
	if len(b) == 0 {
		return "-"
	}
	return fmt.Sprintf("%x", b)
}

func digest(b []byte) string {
	n := len(b)
	first := b
	if n > 16 {
		first = b[:16]
	}
	last := b
	if n > 16 {
		last = b[n-16:]
	}
	return fmt.Sprintf("%d:%08x:%s:%s", n, crc32.Checksum(b, castagnoli), hexField(first), hexField(last))
}

type op struct {
	kind      byte // n w f c
	len, seed int
}

func (o op) String() string {
	if o.kind == 'w' {
		return fmt.Sprintf("w%d:%d", o.len, o.seed)
	}
	return string(o.kind)
}

func opsString(ops []op) string {
	s := make([]string, len(ops))
	for i, o := range ops {
		s[i] = o.String()
	}
	return strings.Join(s, " ")
}

// runWriter executes ops on a real journal.Writer; returns the stream and its length after every op.
func runWriter(ops []op) (stream []byte, lens []int, panicked string) {
	defer func() {
		if r := recover(); r != nil {
			panicked = fmt.Sprint(r)
		}
	}()
	var buf bytes.Buffer
	w := journal.NewWriter(&buf)
	var cur io.Writer
	for _, o := range ops {
		switch o.kind {
		case 'n':
			x, err := w.Next()
			if err == nil {
				cur = x
			}
		case 'w':
			if cur != nil {
				_, _ = cur.Write(gen(o.len, o.seed)) // stale / closed ⇒ error, nothing written
			}
		case 'f':
			_ = w.Flush()
		case 'c':
			_ = w.Close()
		}
		lens = append(lens, buf.Len())
	}
	return append([]byte(nil), buf.Bytes()...), lens, ""
}

type dropper struct{ ev *[]string }

func (d dropper) Drop(err error) {
	e, ok := err.(*journal.ErrCorrupted)
	if !ok {
		*d.ev = append(*d.ev, "D?:"+err.Error())
		return
	}
	c := "?"
	switch {
	case e.Reason == "zero header":
		c = "z"
	case strings.HasPrefix(e.Reason, "invalid chunk type"):
		c = "t"
	case e.Reason == "chunk length overflows block":
		c = "o"
	case e.Reason == "checksum mismatch":
		c = "c"
	case e.Reason == "orphan chunk":
		c = "p"
	case e.Reason == "missing chunk part":
		c = "m"
	}
	*d.ev = append(*d.ev, fmt.Sprintf("D%d:%s", e.Size, c))
}

// readAll is the consumer loop of DB.recoverJournal: ErrUnexpectedEOF from a record ⇒ next record.
func readAll(stream []byte, strict, checksum bool) (res string) {
	var ev []string
	fin := ""
	defer func() {
		if r := recover(); r != nil {
			res = fmt.Sprintf("panic:%v", r)
		}
	}()
	jr := journal.NewReader(bytes.NewReader(stream), dropper{&ev}, strict, checksum)
	for iter := 0; ; iter++ {
		if iter > len(stream)+10 {
			fin = "loop"
			break
		}
		rd, err := jr.Next()
		if err == io.EOF {
			fin = "eof"
			break
		}
		if err != nil {
			if errors.IsCorrupted(err) {
				fin = "corrupt"
			} else {
				fin = "other"
			}
			break
		}
		data, err := io.ReadAll(rd)
		if err == nil {
			ev = append(ev, fmt.Sprintf("R%d:%08x", len(data), crc32.Checksum(data, castagnoli)))
			continue
		}
		if err == io.ErrUnexpectedEOF {
			continue
		}
		if errors.IsCorrupted(err) {
			fin = "corrupt"
		} else {
			fin = "other"
		}
		break
	}
	e := "-"
	if len(ev) > 0 {
		e = strings.Join(ev, ",")
	}
	return fmt.Sprintf("ev=%s fin=%s", e, fin)
}

var allFlags = [][2]bool{{true, true}, {true, false}, {false, true}, {false, false}}

func flagsString(fl [][2]bool) string {
	s := make([]string, len(fl))
	for i, f := range fl {
		b := []byte("00")
		if f[0] {
			b[0] = '1'
		}
		if f[1] {
			b[1] = '1'
		}
		s[i] = string(b)
	}
	return strings.Join(s, ",")
}

func decAnswer(stream []byte, fl [][2]bool) string {
	s := make([]string, len(fl))
	for i, f := range fl {
		s[i] = readAll(stream, f[0], f[1])
	}
	return strings.Join(s, " ; ")
}

type mut struct {
	kind    byte // t z g x s r
	a, b, c int
}

func (m mut) String() string {
	switch m.kind {
	case 't', 'z':
		return fmt.Sprintf("%c%d", m.kind, m.a)
	case 'r':
		return fmt.Sprintf("r%d:%d:%d", m.a, m.b, m.c)
	}
	return fmt.Sprintf("%c%d:%d", m.kind, m.a, m.b)
}

func applyMuts(stream []byte, ms []mut) []byte {
	b := append([]byte(nil), stream...)
	for _, m := range ms {
		switch m.kind {
		case 't':
			if m.a < len(b) {
				b = b[:m.a]
			}
		case 'z':
			b = append(b, make([]byte, m.a)...)
		case 'g':
			b = append(b, gen(m.a, m.b)...)
		case 'x':
			if m.a < len(b) {
				b[m.a] ^= byte(m.b)
			}
		case 's':
			if m.a < len(b) {
				b[m.a] = byte(m.b)
			}
		case 'r':
			for i := m.a; i < m.a+m.b && i < len(b); i++ {
				b[i] = byte(m.c)
			}
		}
	}
	return b
}

func mutsString(ms []mut) string {
	s := make([]string, len(ms))
	for i, m := range ms {
		s[i] = m.String()
	}
	return strings.Join(s, " ")
}

// ---------------------------------------------------------------- generation

func recLen(r *rand.Rand, big bool) int {
	switch k := r.Intn(100); {
	case k < 14:
		return []int{0, 1, 6, 7, 8}[r.Intn(5)]
	case k < 34:
		return 32753 + r.Intn(32775-32753+1)
	case k < 46:
		if !big {
			return r.Intn(200)
		}
		return 65500 + r.Intn(65540-65500+1)
	case k < 90:
		return r.Intn(200)
	default:
		if !big {
			return r.Intn(3000)
		}
		return r.Intn(100001)
	}
}

// genOps: records with random flush patterns and random splitting of a record into Write calls.
func genOps(r *rand.Rand, nrec int, big bool, wild bool) []op {
	var ops []op
	for i := 0; i < nrec; i++ {
		ops = append(ops, op{kind: 'n'})
		n := recLen(r, big)
		seed := r.Intn(256)
		// split into 1..3 writes
		parts := 1 + r.Intn(3)
		for p := 0; p < parts && n >= 0; p++ {
			l := n
			if p < parts-1 && n > 0 {
				l = r.Intn(n + 1)
			}
			if l > 0 || r.Intn(4) == 0 {
				ops = append(ops, op{kind: 'w', len: l, seed: (seed + p) % 256})
			}
			n -= l
			if p == parts-1 {
				break
			}
		}
		switch k := r.Intn(10); {
		case k < 3:
			ops = append(ops, op{kind: 'f'})
			if r.Intn(5) == 0 {
				ops = append(ops, op{kind: 'f'})
			}
			if wild && r.Intn(6) == 0 { // stale write after a flush
				ops = append(ops, op{kind: 'w', len: 1 + r.Intn(20), seed: 9})
			}
		}
	}
	if r.Intn(3) == 0 {
		ops = append(ops, op{kind: 'f'})
	} else {
		ops = append(ops, op{kind: 'c'})
	}
	if wild && r.Intn(4) == 0 { // things after close
		ops = append(ops, op{kind: 'n'}, op{kind: 'w', len: 5, seed: 1}, op{kind: 'f'})
	}
	return ops
}

// chunkStarts scans an intact stream and returns the offsets of all chunk headers.
func chunkStarts(stream []byte) []int {
	var res []int
	off := 0
	for off < len(stream) {
		inblk := off % blockSize
		if blockSize-inblk < 7 {
			off += blockSize - inblk
			continue
		}
		if off+7 > len(stream) {
			break
		}
		l := int(stream[off+4]) | int(stream[off+5])<<8
		res = append(res, off)
		off += 7 + l
	}
	return res
}

func interestingOffsets(r *rand.Rand, stream []byte, k int) []int {
	cs := chunkStarts(stream)
	var cand []int
	for _, c := range cs {
		for d := -2; d <= 9; d++ {
			cand = append(cand, c+d)
		}
	}
	for b := blockSize; b <= len(stream)+blockSize; b += blockSize {
		for d := -9; d <= 9; d++ {
			cand = append(cand, b+d)
		}
	}
	cand = append(cand, 0, 1, 6, 7, 8, len(stream)-1, len(stream), len(stream)-7, len(stream)-8)
	var res []int
	for i := 0; i < k; i++ {
		var o int
		if r.Intn(4) == 0 && len(stream) > 0 {
			o = r.Intn(len(stream) + 1)
		} else {
			o = cand[r.Intn(len(cand))]
		}
		if o < 0 {
			o = 0
		}
		if o > len(stream) {
			o = len(stream)
		}
		res = append(res, o)
	}
	return res
}

func main() {
	seed := flag.Int64("seed", 1, "random seed")
	n := flag.Int("n", 2000, "number of random cases (lines)")
	sweeps := flag.Int("sweeps", 6, "number of all-offset truncation sweeps over short streams")
	flag.Parse()
	r := rand.New(rand.NewSource(*seed))
	out := bufio.NewWriter(os.Stdout)
	defer out.Flush()
	emit := func(in, want string) { fmt.Fprintf(out, "%s\t%s\n", in, want) }

	encCase := func(ops []op) []byte {
		stream, lens, p := runWriter(ops)
		if p != "" {
			emit("jrn enc "+opsString(ops), "panic:"+p)
			return stream
		}
		ls := make([]string, len(lens))
		for i, l := range lens {
			ls[i] = fmt.Sprint(l)
		}
		d := digest(stream)
		emit("jrn enc "+opsString(ops), fmt.Sprintf("%s lens=%s %s", d, strings.Join(ls, ","), d))
		return stream
	}
	decCase := func(ops []op, stream []byte, ms []mut) {
		emit("jrn dec "+flagsString(allFlags)+" "+opsString(ops)+" | "+mutsString(ms), decAnswer(applyMuts(stream, ms), allFlags))
	}

	for c := 0; c < *n; {
		big := r.Intn(5) == 0
		nrec := 1 + r.Intn(8)
		if !big && r.Intn(3) == 0 {
			nrec = 1 + r.Intn(40)
		}
		ops := genOps(r, nrec, big, r.Intn(5) == 0)
		stream := encCase(ops)
		c++
		decCase(ops, stream, nil)
		c++
		if len(stream) == 0 {
			continue
		}
		// truncations
		for _, o := range interestingOffsets(r, stream, 3) {
			decCase(ops, stream, []mut{{kind: 't', a: o}})
			c++
		}
		// zero / garbage extension (also after a truncation)
		zs := []int{1, 6, 7, 8, 13, 14, 100, blockSize - len(stream)%blockSize, blockSize - len(stream)%blockSize + 7, blockSize, 2*blockSize + 5, r.Intn(70000)}
		decCase(ops, stream, []mut{{kind: 'z', a: zs[r.Intn(len(zs))]}})
		decCase(ops, stream, []mut{{kind: 'g', a: zs[r.Intn(len(zs))], b: r.Intn(256)}})
		decCase(ops, stream, []mut{{kind: 't', a: interestingOffsets(r, stream, 1)[0]}, {kind: 'z', a: zs[r.Intn(len(zs))]}})
		c += 3
		// flips / overwrites
		cs := chunkStarts(stream)
		for k := 0; k < 4; k++ {
			var ms []mut
			nm := 1 + r.Intn(2)
			for q := 0; q < nm; q++ {
				var pos int
				if len(cs) > 0 && r.Intn(3) != 0 {
					pos = cs[r.Intn(len(cs))] + r.Intn(9) // header bytes or first payload bytes
				} else {
					pos = r.Intn(len(stream))
				}
				switch r.Intn(4) {
				case 0:
					ms = append(ms, mut{kind: 'x', a: pos, b: 1 << uint(r.Intn(8))})
				case 1:
					ms = append(ms, mut{kind: 'x', a: pos, b: 1 + r.Intn(255)})
				case 2:
					ms = append(ms, mut{kind: 's', a: pos, b: []int{0, 1, 2, 3, 4, 5, 255}[r.Intn(7)]})
				default:
					// zero a whole header
					if len(cs) > 0 {
						h := cs[r.Intn(len(cs))]
						for d := 0; d < 7; d++ {
							ms = append(ms, mut{kind: 's', a: h + d, b: 0})
						}
					} else {
						ms = append(ms, mut{kind: 's', a: pos, b: 0})
					}
				}
			}
			decCase(ops, stream, ms)
			c++
		}
		// a whole block, or a random range, overwritten
		{
			nb := (len(stream) + blockSize - 1) / blockSize
			blk := r.Intn(nb)
			val := []int{0, 255, 1, 4, r.Intn(256)}[r.Intn(5)]
			if r.Intn(2) == 0 {
				decCase(ops, stream, []mut{{kind: 'r', a: blk * blockSize, b: blockSize, c: val}})
			} else {
				p := r.Intn(len(stream))
				decCase(ops, stream, []mut{{kind: 'r', a: p, b: 1 + r.Intn(40), c: val}})
			}
			c++
		}
	}

	// all truncation offsets of short streams (< 2 blocks), every flag combination
	for s := 0; s < *sweeps; s++ {
		var ops []op
		switch s % 3 {
		case 0: // a few small records: every offset individually as well
			ops = nil
			for i, n := 0, 2+r.Intn(4); i < n; i++ {
				ops = append(ops, op{kind: 'n'}, op{kind: 'w', len: r.Intn(60), seed: r.Intn(256)})
				if r.Intn(3) == 0 {
					ops = append(ops, op{kind: 'f'})
				}
			}
			ops = append(ops, op{kind: 'c'})
		case 1: // crosses the first block boundary with a multi-chunk record
			ops = []op{{kind: 'n'}, {kind: 'w', len: r.Intn(300), seed: 1}, {kind: 'n'}, {kind: 'w', len: 32700 + r.Intn(200), seed: 2},
				{kind: 'n'}, {kind: 'w', len: r.Intn(50), seed: 3}, {kind: 'c'}}
		case 2: // padding at the end of the first block
			ops = []op{{kind: 'n'}, {kind: 'w', len: 32768 - 7 - 7 - 1 - r.Intn(6), seed: 4}, {kind: 'n'}, {kind: 'w', len: 0, seed: 0},
				{kind: 'n'}, {kind: 'w', len: 10 + r.Intn(300), seed: 5}, {kind: 'n'}, {kind: 'c'}}
		}
		stream, _, _ := runWriter(ops)
		if len(stream) >= 2*blockSize {
			continue
		}
		var h uint32
		cnt := 0
		for off := 0; off <= len(stream); off++ {
			line := decAnswer(stream[:off], allFlags) + "\n"
			h = crc32.Update(h, castagnoli, []byte(line))
			cnt++
		}
		emit(fmt.Sprintf("jrn sweep %s %s | 0 %d 1", flagsString(allFlags), opsString(ops), len(stream)), fmt.Sprintf("%d %08x", cnt, h))
		if len(stream) <= 600 {
			for off := 0; off <= len(stream); off++ {
				decCase(ops, stream, []mut{{kind: 't', a: off}})
			}
		}
	}
}
