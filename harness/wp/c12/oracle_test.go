package wpc12

import (
	"math/rand"
	"strings"
	"testing"

	"verif/harness/wp"
)

// The oracles must fire on wrong reader answers (they are silent on the real reader, see Run).
func TestOraclesFire(t *testing.T) {
	var sigs []string
	s := wp.Discard()
	s.Violate = func(sig, msg string, _ interface{}) { sigs = append(sigs, sig) }
	g := &generator{r: rand.New(rand.NewSource(1)), s: s, samples: map[string]bool{}}
	// three records: block 0, blocks 0-1, block 1 (two of them empty and therefore equal)
	p := g.newProg([]op{{kind: 'n'}, {kind: 'n'}, {kind: 'w', len: 32760, seed: 1}, {kind: 'n'}, {kind: 'n'}, {kind: 'w', len: 9, seed: 2}, {kind: 'c'}})
	if len(sigs) != 0 || len(p.lay) != 4 || p.lay[1] != (recSpan{0, 1}) || p.lay[2] != (recSpan{1, 1}) {
		t.Fatalf("layout: %v %v", sigs, p.lay)
	}
	w := p.w.recs
	expect := func(name string, ms []mut, f [2]bool, rr *readRes, want string) {
		sigs = nil
		g.judge(p, applyMuts(p.w.stream, ms), ms, "", f, rr)
		got := strings.Join(sigs, ",")
		if (want == "") != (got == "") || !strings.Contains(got, want) {
			t.Errorf("%s: violations %q, want %q", name, got, want)
		}
	}
	rec := func(xs ...[]byte) []event {
		var ev []event
		for _, x := range xs {
			ev = append(ev, event{rec: x})
		}
		return ev
	}
	tol, str := [2]bool{false, true}, [2]bool{true, true}
	hdr0 := []mut{{kind: 's', a: 0, b: 0}} // damages block 0 only
	expect("intact ok", nil, tol, &readRes{ev: rec(w...), fin: "eof"}, "")
	expect("intact lost", nil, tol, &readRes{ev: rec(w[:3]...), fin: "eof"}, "intact-roundtrip")
	expect("tolerant error", hdr0, tol, &readRes{ev: rec(w[2], w[3]), fin: "corrupt"}, "tolerant-ends-with-error")
	expect("block 1 records survive", hdr0, tol, &readRes{ev: rec(w[2], w[3]), fin: "eof"}, "")
	expect("empty record of block 1 lost", hdr0, tol, &readRes{ev: rec(w[3]), fin: "eof"}, "undamaged-record-lost")
	expect("empty record of block 0 only", hdr0, tol, &readRes{ev: rec(w[0]), fin: "eof"}, "undamaged-record-lost")
	expect("strict may stop", hdr0, str, &readRes{ev: []event{{drop: true, size: 5, class: "c"}}, fin: "corrupt"}, "")
	expect("invented", hdr0, str, &readRes{ev: rec([]byte("x")), fin: "eof"}, "invented-record")
	expect("order", hdr0, tol, &readRes{ev: rec(w[3], w[2]), fin: "eof"}, "order")
	cut := []mut{{kind: 't', a: 32770}}
	expect("prefix ok", cut, tol, &readRes{ev: rec(w[0]), fin: "eof"}, "")
	expect("not a prefix", cut, tol, &readRes{ev: rec(w[1]), fin: "eof"}, "truncated-prefix")
	expect("strict two errors", cut, str, &readRes{ev: []event{{drop: true, class: "c"}, {drop: true, class: "o"}}, fin: "corrupt"}, "strict-one-error")
	expect("strict error then eof", cut, str, &readRes{ev: []event{{drop: true, class: "c"}}, fin: "eof"}, "strict-one-error")
	expect("extension", []mut{{kind: 'z', a: 9}}, tol, &readRes{ev: rec(w[:3]...), fin: "eof"}, "extension-keeps-all")
	expect("panic", cut, tol, &readRes{panicked: "boom"}, "panic")
}
