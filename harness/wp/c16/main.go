// Command c16 is the byte-exact differential for property C16 (Bloom filter / util.Hash):
// it derives cases from one splitmix64 stream, runs the real goleveldb code in-process, writes one
// operation per line ("bloom ..." lines of the gldriver protocol), pipes the lines to the compiled
// Lean driver and compares the answers line by line.  It also evaluates the property oracle directly
// on the implementation (every added key must be reported present).
//
//	go run . -driver /path/to/gldriver [-seed N] [-scale N] [-keep file]
//
// Build inside a module with `replace github.com/syndtr/goleveldb => /repo`.
// Exit status 0 = all lines agree and the oracle holds; 1 = mismatch/violation; 2 = usage/IO error.
package main

import (
	"bufio"
	"bytes"
	"encoding/hex"
	"flag"
	"fmt"
	"os"
	"os/exec"
	"strconv"
	"strings"

	"github.com/syndtr/goleveldb/leveldb/filter"
	"github.com/syndtr/goleveldb/leveldb/util"
)

// ---- PRNG -------------------------------------------------------------------------------------

type rng struct{ s uint64 }

func (r *rng) next() uint64 {
	r.s += 0x9e3779b97f4a7c15
	z := r.s
	z = (z ^ (z >> 30)) * 0xbf58476d1ce4e5b9
	z = (z ^ (z >> 27)) * 0x94d049bb133111eb
	return z ^ (z >> 31)
}
func (r *rng) intn(n int) int { return int(r.next() % uint64(n)) }

// ---- key generation ---------------------------------------------------------------------------

type keygen struct {
	r        *rng
	prefixes [][]byte
}

func newKeygen(r *rng) *keygen {
	g := &keygen{r: r}
	for i := 0; i < 6; i++ {
		p := make([]byte, 1+r.intn(24))
		for j := range p {
			p[j] = byte(r.next())
		}
		g.prefixes = append(g.prefixes, p)
	}
	return g
}

// key of length 0..40: random bytes, runs of 0x00 / 0xff, shared prefixes, small alphabets
func (g *keygen) key() []byte {
	r := g.r
	n := r.intn(41)
	k := make([]byte, n)
	switch r.intn(8) {
	case 0: // run of 0x00
		// already zero
	case 1: // run of 0xff
		for i := range k {
			k[i] = 0xff
		}
	case 2: // mixed runs of 00/ff
		for i := range k {
			if r.intn(2) == 0 {
				k[i] = 0xff
			}
		}
	case 3, 4: // shared prefix + random suffix
		p := g.prefixes[r.intn(len(g.prefixes))]
		for i := range k {
			if i < len(p) {
				k[i] = p[i]
			} else {
				k[i] = byte(r.next())
			}
		}
	case 5: // shared prefix + 00/ff tail
		p := g.prefixes[r.intn(len(g.prefixes))]
		for i := range k {
			if i < len(p) {
				k[i] = p[i]
			} else if r.intn(2) == 0 {
				k[i] = 0xff
			}
		}
	case 6: // small alphabet
		for i := range k {
			k[i] = "ab"[r.intn(2)]
		}
	default:
		for i := range k {
			k[i] = byte(r.next())
		}
	}
	return k
}

func hx(b []byte) string {
	if len(b) == 0 {
		return "-"
	}
	return hex.EncodeToString(b)
}

// ---- the implementation under test ------------------------------------------------------------

// generate runs NewBloomFilter(bpk).NewGenerator(), Add for every key, Generate into a fresh util.Buffer.
func generate(bpk int, keys [][]byte) (out []byte, panicked bool) {
	defer func() {
		if e := recover(); e != nil {
			out, panicked = nil, true
		}
	}()
	g := filter.NewBloomFilter(bpk).NewGenerator()
	for _, k := range keys {
		g.Add(k)
	}
	var buf util.Buffer
	g.Generate(&buf)
	return append([]byte(nil), buf.Bytes()...), false
}

func contains(bpk int, f, key []byte) (res string) {
	defer func() {
		if e := recover(); e != nil {
			res = "panic"
		}
	}()
	if filter.NewBloomFilter(bpk).Contains(f, key) {
		return "1"
	}
	return "0"
}

// ---- case construction ------------------------------------------------------------------------

type suite struct {
	in, want []string
	counts   map[string]int
	oracle   int // members reported absent by the implementation
	members  int
}

func (s *suite) add(kind, line, want string) {
	s.in = append(s.in, line)
	s.want = append(s.want, want)
	s.counts[kind]++
}

func (s *suite) hashCases(r *rng, n int) {
	seeds := []uint32{0, 1, 0xbc9f1d34, 0xffffffff, 0x80000000}
	one := func(d []byte, seed uint32) {
		s.add("hash", fmt.Sprintf("bloom hash %d %s", seed, hx(d)), strconv.FormatUint(uint64(util.Hash(d, seed)), 10))
	}
	for l := 0; l <= 17; l++ { // every tail length with fixed patterns
		for _, fill := range []int{0x00, 0xff, 0x80, -1} {
			d := make([]byte, l)
			for i := range d {
				if fill < 0 {
					d[i] = byte(r.next())
				} else {
					d[i] = byte(fill)
				}
			}
			for _, sd := range seeds {
				one(d, sd)
			}
		}
	}
	for i := 0; i < n; i++ {
		l := r.intn(65)
		if r.intn(10) == 0 {
			l = r.intn(1025)
		}
		d := make([]byte, l)
		for j := range d {
			d[j] = byte(r.next())
		}
		one(d, uint32(r.next()))
	}
}

func (s *suite) kCases() {
	bs := []int{}
	for b := 0; b <= 1200; b++ {
		bs = append(bs, b)
	}
	bs = append(bs, 1<<31, 1<<32-1, 1<<32, 1<<32+100, 1<<40+371)
	for _, b := range bs {
		f, _ := generate(b, nil)
		s.add("k", fmt.Sprintf("bloom k %d", b), strconv.Itoa(int(f[len(f)-1])))
	}
}

// setCase: one key set under one bitsPerKey: the generated filter byte for byte, then Contains for
// (a sample of) the members and as many non-members.
func (s *suite) setCase(r *rng, bpk, size, maxProbe int) {
	g := newKeygen(r)
	keys := make([][]byte, size)
	member := map[string]bool{}
	var sb strings.Builder
	fmt.Fprintf(&sb, "bloom gen %d", bpk)
	for i := range keys {
		keys[i] = g.key()
		member[string(keys[i])] = true
		sb.WriteByte(' ')
		sb.WriteString(hx(keys[i]))
	}
	f, p := generate(bpk, keys)
	if p {
		s.add("gen-panic", sb.String(), "panic")
		return
	}
	s.add("gen", sb.String(), hx(f))

	// members
	probe := keys
	if len(probe) > maxProbe {
		probe = make([][]byte, maxProbe)
		for i := range probe {
			probe[i] = keys[r.intn(len(keys))]
		}
	}
	// non-members
	var non [][]byte
	for tries := 0; len(non) < len(probe)+8 && tries < 4*len(probe)+64; tries++ {
		k := g.key()
		if r.intn(4) == 0 && len(keys) > 0 { // near miss: a member with one byte changed / appended
			k = append([]byte(nil), keys[r.intn(len(keys))]...)
			if len(k) > 0 && r.intn(2) == 0 {
				k[r.intn(len(k))] ^= byte(1 << uint(r.intn(8)))
			} else {
				k = append(k, byte(r.next()))
			}
		}
		if !member[string(k)] {
			non = append(non, k)
		}
	}
	for _, grp := range [][][]byte{probe, non} {
		var lb, wb strings.Builder
		lb.WriteString("bloom hasmany ")
		lb.WriteString(hx(f))
		for _, k := range grp {
			lb.WriteByte(' ')
			lb.WriteString(hx(k))
			c := contains(bpk, f, k)
			wb.WriteString(c)
			s.counts["contains-queries"]++
			if member[string(k)] {
				s.members++
				if c != "1" {
					s.oracle++
					fmt.Printf("ORACLE VIOLATION: bpk=%d size=%d key=%s reported absent\n", bpk, size, hx(k))
				}
			}
		}
		w := wb.String()
		if len(grp) == 0 {
			w = "-"
		}
		s.add("hasmany", lb.String(), w)
	}
	// a few single-key lines
	for i := 0; i < 3 && i < len(probe); i++ {
		k := probe[r.intn(len(probe))]
		s.add("has", fmt.Sprintf("bloom has %s %s", hx(f), hx(k)), contains(bpk, f, k))
	}
	for i := 0; i < 3 && i < len(non); i++ {
		k := non[r.intn(len(non))]
		s.add("has", fmt.Sprintf("bloom has %s %s", hx(f), hx(k)), contains(bpk, f, k))
	}
}

// readerEdgeCases: Contains on filters that no generator of this version produces
// (short, k = 0, k > 30, arbitrary bytes, odd lengths).
func (s *suite) readerEdgeCases(r *rng, n int) {
	g := newKeygen(r)
	try := func(f []byte) {
		for i := 0; i < 4; i++ {
			k := g.key()
			s.add("has-raw", fmt.Sprintf("bloom has %s %s", hx(f), hx(k)), contains(10, f, k))
		}
	}
	try(nil)
	for k := 0; k < 256; k++ {
		try([]byte{byte(k)})
		try([]byte{0xff, byte(k)})
		try([]byte{0x00, byte(k)})
		try([]byte{0xa5, 0x5a, 0x3c, byte(k)})
	}
	for i := 0; i < n; i++ {
		f := make([]byte, 1+r.intn(48))
		dens := r.intn(4)
		for j := range f {
			b := byte(r.next())
			for d := 0; d < dens; d++ {
				b |= byte(r.next())
			}
			f[j] = b
		}
		f[len(f)-1] = byte(r.intn(40))
		try(f)
	}
}

func main() {
	seed := flag.Uint64("seed", 1, "PRNG seed (VERIF_SEED overrides)")
	driver := flag.String("driver", "", "path of the compiled Lean driver (gldriver)")
	scale := flag.Int("scale", 1, "multiplier for the number of random cases")
	keep := flag.String("keep", "", "write the input lines to this file (replay)")
	flag.Parse()
	if v := os.Getenv("VERIF_SEED"); v != "" {
		if x, err := strconv.ParseUint(v, 10, 64); err == nil {
			*seed = x
		}
	}
	if *driver == "" {
		fmt.Fprintln(os.Stderr, "usage: c16 -driver <gldriver> [-seed N] [-scale N] [-keep file]")
		os.Exit(2)
	}
	r := &rng{s: *seed}
	s := &suite{counts: map[string]int{}}

	s.hashCases(r, 20000**scale)
	s.kCases()
	// bitsPerKey 1..64 × key sets of size 0..2000
	for rep := 0; rep < *scale; rep++ {
		for bpk := 1; bpk <= 64; bpk++ {
			s.setCase(r, bpk, r.intn(9), 1<<30)
			s.setCase(r, bpk, r.intn(101), 1<<30)
			s.setCase(r, bpk, r.intn(2001), 1<<30)
			s.setCase(r, bpk, 1000+r.intn(1001), 1<<30)
		}
		// 0 and values where uint8(f*69/100) wraps or clamps
		for _, bpk := range []int{0, 65, 100, 144, 145, 255, 371, 372, 373, 400, 415, 1000} {
			s.setCase(r, bpk, r.intn(9), 1<<30)
			s.setCase(r, bpk, r.intn(300), 1<<30)
		}
		// a few large sets
		for _, n := range []int{10000, 20000, 30000} {
			s.setCase(r, 1+r.intn(64), n, 400)
		}
		// uint32 wrap of len*bitsPerKey (cheap to reach with a huge bitsPerKey)
		for _, c := range [][2]int{{1 << 31, 2}, {1 << 32, 1}, {1 << 32, 7}, {1<<32 + 100, 50}, {1<<33 + 17, 40},
			{1<<32 - 1, 1}, {1<<32 - 7, 1}, {1<<31 - 1, 2}, {(1<<32 - 1) / 3, 3}, {(1<<32 - 1) / 5, 5}} {
			s.setCase(r, c[0], c[1], 1<<30)
		}
	}
	s.readerEdgeCases(r, 300**scale)

	if *keep != "" {
		if err := os.WriteFile(*keep, []byte(strings.Join(s.in, "\n")+"\n"), 0o644); err != nil {
			fmt.Fprintln(os.Stderr, err)
			os.Exit(2)
		}
	}

	cmd := exec.Command(*driver)
	cmd.Stdin = strings.NewReader(strings.Join(s.in, "\n") + "\n")
	var out bytes.Buffer
	cmd.Stdout = &out
	cmd.Stderr = os.Stderr
	if err := cmd.Run(); err != nil {
		fmt.Fprintln(os.Stderr, "driver:", err)
		os.Exit(2)
	}
	sc := bufio.NewScanner(&out)
	sc.Buffer(make([]byte, 1<<20), 1<<28)
	var got []string
	for sc.Scan() {
		got = append(got, sc.Text())
	}
	mism := 0
	if len(got) != len(s.want) {
		fmt.Printf("MISMATCH: driver answered %d lines, expected %d\n", len(got), len(s.want))
		mism++
	}
	for i := 0; i < len(got) && i < len(s.want); i++ {
		if got[i] != s.want[i] {
			mism++
			if mism <= 10 {
				trunc := func(x string) string {
					if len(x) > 160 {
						return x[:160] + "…"
					}
					return x
				}
				fmt.Printf("MISMATCH line %d: %s\n  go:   %s\n  lean: %s\n", i+1, trunc(s.in[i]), trunc(s.want[i]), trunc(got[i]))
			}
		}
	}
	fmt.Printf("c16 differential seed=%d scale=%d: lines=%d", *seed, *scale, len(s.in))
	for _, k := range []string{"hash", "k", "gen", "gen-panic", "hasmany", "has", "has-raw", "contains-queries"} {
		fmt.Printf(" %s=%d", k, s.counts[k])
	}
	fmt.Printf(" members-checked=%d oracle-violations=%d mismatches=%d\n", s.members, s.oracle, mism)
	if mism > 0 || s.oracle > 0 {
		os.Exit(1)
	}
}
