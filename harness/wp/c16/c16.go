// Package wpc16 generates the byte-exact cases of property C16 for util.Hash and the Bloom filter
// (filter.NewBloomFilter): hash values, the probe count byte, generated filters byte for byte, Contains on
// members / non-members / near misses, and Contains on filter bytes no generator of this version produces.
//
// Every case goes to the sink as a `bloom …` line of the gldriver protocol (lean/GoLevel/Driver/Bloom.lean)
// with the implementation's answer, and through the implementation-side oracle:
//
//   - every key added to a generator is reported by Contains on the generated filter (no false negative),
//     also when len(keys)·bitsPerKey wraps around uint32;
//   - the generated filter is well formed: last byte k with 1 ≤ k ≤ 30 (k = ⌊0.69·bitsPerKey⌋ clamped to
//     [1,30] for bitsPerKey ≤ 100), and — when len(keys)·bitsPerKey does not wrap — exactly
//     ⌈max(64, len(keys)·bitsPerKey)/8⌉ filter bytes in front of it;
//   - Generate / Contains do not panic as long as len(keys)·bitsPerKey+7 fits uint32 (see PanicDomain).
package wpc16

import (
	"encoding/hex"
	"fmt"
	"hash/crc32"
	"strconv"
	"strings"

	"github.com/syndtr/goleveldb/leveldb/filter"
	"github.com/syndtr/goleveldb/leveldb/util"

	"verif/harness/rng"
	"verif/harness/wp"
)

// Sizes scales the generator.
type Sizes struct {
	Hashes    int   // random util.Hash cases (besides the fixed tail-length grid)
	Reps      int   // repetitions of the bitsPerKey 1..64 × four set sizes grid (and of the odd / wrapping bitsPerKey sets)
	LargeSets []int // sizes of the large key sets, per repetition (Contains sampled: 400 members + as many non-members)
	RawFilter int   // random raw filters for the reader edge cases (besides the fixed short ones)
}

// ---- key generation ---------------------------------------------------------------------------

type keygen struct {
	r        *rng.R
	prefixes [][]byte
	count    func(shape string)
}

func newKeygen(r *rng.R, count func(string)) *keygen {
	g := &keygen{r: r, count: count}
	for i := 0; i < 6; i++ {
		g.prefixes = append(g.prefixes, r.Bytes(1+r.Intn(24)))
	}
	return g
}

// key of length 0..40: random bytes, runs of 0x00 / 0xff, shared prefixes, small alphabets
func (g *keygen) key() []byte {
	r := g.r
	n := r.Intn(41)
	k := make([]byte, n)
	shape := ""
	switch r.Intn(8) {
	case 0: // run of 0x00
		shape = "run of 0x00"
	case 1: // run of 0xff
		shape = "run of 0xff"
		for i := range k {
			k[i] = 0xff
		}
	case 2: // mixed runs of 00/ff
		shape = "mixed 0x00/0xff"
		for i := range k {
			if r.Intn(2) == 0 {
				k[i] = 0xff
			}
		}
	case 3, 4: // shared prefix + random suffix
		shape = "shared prefix + random"
		p := g.prefixes[r.Intn(len(g.prefixes))]
		for i := range k {
			if i < len(p) {
				k[i] = p[i]
			} else {
				k[i] = byte(r.U64())
			}
		}
	case 5: // shared prefix + 00/ff tail
		shape = "shared prefix + 0x00/0xff"
		p := g.prefixes[r.Intn(len(g.prefixes))]
		for i := range k {
			if i < len(p) {
				k[i] = p[i]
			} else if r.Intn(2) == 0 {
				k[i] = 0xff
			}
		}
	case 6: // small alphabet
		shape = "alphabet {a,b}"
		for i := range k {
			k[i] = "ab"[r.Intn(2)]
		}
	default:
		shape = "random"
		for i := range k {
			k[i] = byte(r.U64())
		}
	}
	if n == 0 {
		shape = "empty"
	}
	g.count(shape)
	return k
}

func hx(b []byte) string {
	if len(b) == 0 {
		return "-"
	}
	return hex.EncodeToString(b)
}

// ---- the implementation under test ------------------------------------------------------------

// generate runs NewBloomFilter(bpk).NewGenerator(), Add for every key, Generate into a fresh util.Buffer.
func generate(bpk int, keys [][]byte) (out []byte, panicked string) {
	defer func() {
		if e := recover(); e != nil {
			out, panicked = nil, fmt.Sprint(e)
		}
	}()
	g := filter.NewBloomFilter(bpk).NewGenerator()
	for _, k := range keys {
		g.Add(k)
	}
	var buf util.Buffer
	g.Generate(&buf)
	return append([]byte(nil), buf.Bytes()...), ""
}

func contains(bpk int, f, key []byte) (res string) {
	defer func() {
		if e := recover(); e != nil {
			res = "panic"
		}
	}()
	if filter.NewBloomFilter(bpk).Contains(f, key) {
		return "1"
	}
	return "0"
}

// PanicDomain: Generate divides by the number of filter bits; when uint32(len(keys)·bitsPerKey) lies in
// [2³²−7, 2³²−1] the rounding to whole bytes wraps to 0 bits and the division panics.  That needs
// ≥ 2³²−7 requested bits (429 million keys at 10 bits per key in ONE filter block, or an absurd bitsPerKey) and
// is kept as generated coverage (the model answers "panic" as well) but is not counted as a violation.
func PanicDomain(bpk, nkeys int) bool {
	bits := uint32(uint64(nkeys) * uint64(bpk))
	return bits > 1<<32-8
}

func wraps(bpk, nkeys int) bool {
	p := uint64(nkeys) * uint64(bpk)
	return p >= 1<<32 || (nkeys != 0 && p/uint64(nkeys) != uint64(bpk))
}

// ---- case construction ------------------------------------------------------------------------

type suite struct {
	s       *wp.Sink
	samples map[string]bool
}

func (s *suite) add(kind, line, want string) {
	s.s.Emit(line, want)
	s.s.Count("line kind", kind)
	if !s.samples[kind] && len(line) < 300 && len(line) > 30 && (kind == "gen" || kind == "hasmany" || kind == "hash") {
		s.samples[kind] = true
		s.s.Sample(map[string]string{"kind": kind, "driver_line": line, "implementation": want})
	}
}

func lenClass(n int) string {
	switch {
	case n == 0:
		return "0"
	case n <= 3:
		return "1-3 (tail only)"
	case n <= 8:
		return "4-8"
	case n <= 17:
		return "9-17"
	case n <= 64:
		return "18-64"
	default:
		return "65-1024"
	}
}

func (s *suite) hashCases(r *rng.R, n int) {
	seeds := []uint32{0, 1, 0xbc9f1d34, 0xffffffff, 0x80000000}
	one := func(d []byte, seed uint32, src string) {
		line := fmt.Sprintf("bloom hash %d %s", seed, hx(d))
		s.s.Eval(line, len(d) > 0)
		s.s.Count("hash input length", lenClass(len(d)))
		s.s.Count("hash case", src)
		s.add("hash", line, strconv.FormatUint(uint64(util.Hash(d, seed)), 10))
	}
	for l := 0; l <= 17; l++ { // every tail length with fixed patterns
		for _, fill := range []int{0x00, 0xff, 0x80, -1} {
			d := make([]byte, l)
			for i := range d {
				if fill < 0 {
					d[i] = byte(r.U64())
				} else {
					d[i] = byte(fill)
				}
			}
			for _, sd := range seeds {
				one(d, sd, "grid: lengths 0-17 × {00,ff,80,random} × 5 seeds")
			}
		}
	}
	for i := 0; i < n && s.s.TimeLeft(); i++ {
		l := r.Intn(65)
		if r.Intn(10) == 0 {
			l = r.Intn(1025)
		}
		one(r.Bytes(l), uint32(r.U64()), "random bytes, random seed")
	}
}

func bpkClass(b int) string {
	switch {
	case b == 0:
		return "0"
	case b <= 4:
		return "1-4"
	case b <= 8:
		return "5-8"
	case b <= 16:
		return "9-16"
	case b <= 32:
		return "17-32"
	case b <= 64:
		return "33-64"
	case b <= 1200:
		return "65-1200 (k clamps / uint8 wraps)"
	default:
		return ">= 2^31-1 (keys·bits wraps uint32)"
	}
}

func sizeClass(n int) string {
	switch {
	case n == 0:
		return "0"
	case n <= 8:
		return "1-8"
	case n <= 100:
		return "9-100"
	case n <= 1000:
		return "101-1000"
	case n <= 2000:
		return "1001-2000"
	default:
		return "10000+"
	}
}

func wantK(bpk int) int {
	k := bpk * 69 / 100
	if k < 1 {
		k = 1
	}
	if k > 30 {
		k = 30
	}
	return k
}

// checkFilter: the well-formedness part of the oracle.
func (s *suite) checkFilter(bpk, nkeys int, f []byte, replay interface{}) {
	if len(f) < 2 {
		s.s.Violate("bloomFilterGenerator.Generate:length", fmt.Sprintf("filter of %d bytes for %d keys at %d bits per key", len(f), nkeys, bpk), replay)
		return
	}
	k := int(f[len(f)-1])
	if k < 1 || k > 30 {
		s.s.Violate("bloomFilterGenerator.Generate:k", fmt.Sprintf("probe count byte %d outside 1..30 (bitsPerKey %d)", k, bpk), replay)
	} else if bpk >= 0 && bpk <= 100 && k != wantK(bpk) {
		s.s.Violate("bloomFilterGenerator.Generate:k", fmt.Sprintf("probe count byte %d, want %d for bitsPerKey %d", k, wantK(bpk), bpk), replay)
	}
	s.s.Count("probe count k", fmt.Sprint(k))
	if !wraps(bpk, nkeys) {
		bits := uint64(nkeys) * uint64(bpk)
		if bits < 64 {
			bits = 64
		}
		if want := int((bits + 7) / 8); len(f)-1 != want {
			s.s.Violate("bloomFilterGenerator.Generate:length", fmt.Sprintf("%d filter bytes for %d keys at %d bits per key, want %d", len(f)-1, nkeys, bpk, want), replay)
		}
	}
}

func (s *suite) kCases() {
	bs := []int{}
	for b := 0; b <= 1200; b++ {
		bs = append(bs, b)
	}
	bs = append(bs, 1<<31, 1<<32-1, 1<<32, 1<<32+100, 1<<40+371)
	for _, b := range bs {
		line := fmt.Sprintf("bloom k %d", b)
		f, p := generate(b, nil)
		s.s.Eval(line, b > 0)
		if p != "" {
			s.s.Violate("bloomFilterGenerator.Generate:panic", "empty key set: "+p, map[string]interface{}{"bitsPerKey": b, "keys": []string{}})
			s.add("k", line, "panic")
			continue
		}
		s.checkFilter(b, 0, f, map[string]interface{}{"bitsPerKey": b, "keys": []string{}})
		s.s.Count("bits per key (k cases)", bpkClass(b))
		s.add("k", line, strconv.Itoa(int(f[len(f)-1])))
	}
}

// setCase: one key set under one bitsPerKey: the generated filter byte for byte, then Contains for
// (a sample of) the members and as many non-members.
func (s *suite) setCase(r *rng.R, bpk, size, maxProbe int) {
	g := newKeygen(r, func(shape string) { s.s.Count("key shape", shape) })
	keys := make([][]byte, size)
	member := map[string]bool{}
	var sb strings.Builder
	fmt.Fprintf(&sb, "bloom gen %d", bpk)
	h := crc32.NewIEEE()
	for i := range keys {
		keys[i] = g.key()
		member[string(keys[i])] = true
		sb.WriteByte(' ')
		sb.WriteString(hx(keys[i]))
		h.Write(keys[i])
		h.Write([]byte{0xff, byte(len(keys[i]))})
	}
	replay := func() interface{} {
		ks := make([]string, len(keys))
		for i, k := range keys {
			ks[i] = hx(k)
		}
		return map[string]interface{}{"bitsPerKey": bpk, "keys": ks}
	}
	s.s.Count("bits per key", bpkClass(bpk))
	s.s.Count("key-set size", sizeClass(size))
	s.s.Count("distinct keys in the set", sizeClass(len(member)))
	if wraps(bpk, size) {
		s.s.Count("keys·bitsPerKey", "wraps uint32")
	} else {
		s.s.Count("keys·bitsPerKey", "fits uint32")
	}
	evalKey := fmt.Sprintf("gen/%d/%d/%08x", bpk, size, h.Sum32())
	f, p := generate(bpk, keys)
	if p != "" {
		s.s.Eval(evalKey, false)
		if PanicDomain(bpk, size) {
			s.s.Count("generate outcome", "panic: keys·bitsPerKey mod 2^32 in [2^32-7, 2^32-1] (outside the stated domain)")
			s.s.Note("Generate panics (%s) for %d keys at bitsPerKey %d: uint32(keys·bitsPerKey)+7 wraps to 0 bits; outside the domain of the no-panic oracle", p, size, bpk)
		} else {
			s.s.Violate("bloomFilterGenerator.Generate:panic", p, replay())
		}
		s.add("gen-panic", sb.String(), "panic")
		return
	}
	s.s.Count("generate outcome", "filter")
	s.checkFilter(bpk, size, f, replay())
	s.add("gen", sb.String(), hx(f))

	// members
	probe := keys
	if len(probe) > maxProbe {
		probe = make([][]byte, maxProbe)
		for i := range probe {
			probe[i] = keys[r.Intn(len(keys))]
		}
	}
	// non-members
	var non [][]byte
	for tries := 0; len(non) < len(probe)+8 && tries < 4*len(probe)+64; tries++ {
		k := g.key()
		if r.Intn(4) == 0 && len(keys) > 0 { // near miss: a member with one byte changed / appended
			k = append([]byte(nil), keys[r.Intn(len(keys))]...)
			if len(k) > 0 && r.Intn(2) == 0 {
				k[r.Intn(len(k))] ^= byte(1 << uint(r.Intn(8)))
			} else {
				k = append(k, byte(r.U64()))
			}
		}
		if !member[string(k)] {
			non = append(non, k)
		}
	}
	membersChecked, absent := 0, 0
	ask := func(k []byte) string {
		c := contains(bpk, f, k)
		switch {
		case c == "panic":
			s.s.Count("contains", "panic")
			s.s.Violate("bloomFilter.Contains:panic", "Contains panicked on a generated filter", map[string]interface{}{"bitsPerKey": bpk, "filter": hx(f), "key": hx(k)})
		case member[string(k)]:
			membersChecked++
			if c == "1" {
				s.s.Count("contains", "member: present")
			} else {
				absent++
				s.s.Count("contains", "member: ABSENT")
				rp := replay().(map[string]interface{})
				rp["absent"] = hx(k)
				rp["filter"] = hx(f)
				s.s.Violate("bloomFilter.Contains:false-negative", fmt.Sprintf("key %s was added (bitsPerKey %d, %d keys) and is reported absent", hx(k), bpk, size), rp)
			}
		case c == "1":
			s.s.Count("contains", "non-member: present (false positive)")
		default:
			s.s.Count("contains", "non-member: absent")
		}
		return c
	}
	for _, grp := range [][][]byte{probe, non} {
		var lb, wb strings.Builder
		lb.WriteString("bloom hasmany ")
		lb.WriteString(hx(f))
		for _, k := range grp {
			lb.WriteByte(' ')
			lb.WriteString(hx(k))
			wb.WriteString(ask(k))
		}
		w := wb.String()
		if len(grp) == 0 {
			w = "-"
		}
		s.add("hasmany", lb.String(), w)
	}
	// a few single-key lines
	for i := 0; i < 3 && i < len(probe); i++ {
		k := probe[r.Intn(len(probe))]
		s.add("has", fmt.Sprintf("bloom has %s %s", hx(f), hx(k)), ask(k))
	}
	for i := 0; i < 3 && i < len(non); i++ {
		k := non[r.Intn(len(non))]
		s.add("has", fmt.Sprintf("bloom has %s %s", hx(f), hx(k)), ask(k))
	}
	// non-trivial: at least one member was asked for and the filter is not saturated / empty
	s.s.Eval(evalKey, membersChecked > 0 && absent == 0 && bitsSet(f[:len(f)-1]) > 0)
}

func bitsSet(b []byte) int {
	n := 0
	for _, x := range b {
		for ; x != 0; x &= x - 1 {
			n++
		}
	}
	return n
}

// readerEdgeCases: Contains on filters that no generator of this version produces
// (short, k = 0, k > 30, arbitrary bytes, odd lengths).
func (s *suite) readerEdgeCases(r *rng.R, n int) {
	g := newKeygen(r, func(string) {})
	try := func(f []byte, src string) {
		for i := 0; i < 4; i++ {
			k := g.key()
			line := fmt.Sprintf("bloom has %s %s", hx(f), hx(k))
			c := contains(10, f, k)
			s.s.Eval(line, len(f) >= 2)
			s.s.Count("raw filter", src)
			if c == "panic" {
				s.s.Violate("bloomFilter.Contains:panic", "Contains panicked on raw filter bytes", map[string]interface{}{"filter": hx(f), "key": hx(k)})
			}
			if len(f) >= 2 && f[len(f)-1] > 30 && c == "0" {
				s.s.Violate("bloomFilter.Contains:reserved-k", "a filter with k > 30 (reserved encoding) must be treated as a match", map[string]interface{}{"filter": hx(f), "key": hx(k)})
			}
			s.add("has-raw", line, c)
		}
	}
	try(nil, "empty")
	for k := 0; k < 256; k++ {
		try([]byte{byte(k)}, "1 byte (k only)")
		try([]byte{0xff, byte(k)}, "2-4 bytes, every k byte")
		try([]byte{0x00, byte(k)}, "2-4 bytes, every k byte")
		try([]byte{0xa5, 0x5a, 0x3c, byte(k)}, "2-4 bytes, every k byte")
	}
	for i := 0; i < n && s.s.TimeLeft(); i++ {
		f := make([]byte, 1+r.Intn(48))
		dens := r.Intn(4)
		for j := range f {
			b := byte(r.U64())
			for d := 0; d < dens; d++ {
				b |= byte(r.U64())
			}
			f[j] = b
		}
		f[len(f)-1] = byte(r.Intn(40))
		try(f, "random 1-48 bytes, k byte 0-39")
	}
}

// Run generates all case kinds.
func Run(r *rng.R, sz Sizes, sink *wp.Sink) {
	s := &suite{s: sink, samples: map[string]bool{}}
	s.hashCases(r, sz.Hashes)
	s.kCases()
	// bitsPerKey 1..64 × key sets of size 0..2000
	for rep := 0; rep < sz.Reps && sink.TimeLeft(); rep++ {
		for bpk := 1; bpk <= 64 && sink.TimeLeft(); bpk++ {
			s.setCase(r, bpk, r.Intn(9), 1<<30)
			s.setCase(r, bpk, r.Intn(101), 1<<30)
			s.setCase(r, bpk, r.Intn(2001), 1<<30)
			s.setCase(r, bpk, 1000+r.Intn(1001), 1<<30)
		}
		// 0 and values where uint8(f*69/100) wraps or clamps
		for _, bpk := range []int{0, 65, 100, 144, 145, 255, 371, 372, 373, 400, 415, 1000} {
			s.setCase(r, bpk, r.Intn(9), 1<<30)
			s.setCase(r, bpk, r.Intn(300), 1<<30)
		}
		// a few large sets
		for _, n := range sz.LargeSets {
			if !sink.TimeLeft() {
				break
			}
			s.setCase(r, 1+r.Intn(64), n, 400)
		}
		// uint32 wrap of len*bitsPerKey (cheap to reach with a huge bitsPerKey)
		for _, c := range [][2]int{{1 << 31, 2}, {1 << 32, 1}, {1 << 32, 7}, {1<<32 + 100, 50}, {1<<33 + 17, 40},
			{1<<32 - 1, 1}, {1<<32 - 7, 1}, {1<<31 - 1, 2}, {(1<<32 - 1) / 3, 3}, {(1<<32 - 1) / 5, 5}} {
			s.setCase(r, c[0], c[1], 1<<30)
		}
	}
	s.readerEdgeCases(r, sz.RawFilter)
}
