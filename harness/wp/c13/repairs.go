package wpc13

// Three damage classes around the table reader's handling of the parts of a table that carry no data
// (findings 1, 2 and 5 of the Recover hunt wp60; model: Model/Table.lean `ReaderFix`, Props/C13.lean (i)).
//
//  1. metaindex damage — every byte of the metaindex block and of its trailer altered (all of them on small
//     tables, a sample with the block edges on larger ones).  Oracle: the reader is constructed and EVERY
//     operation answers like the intact table does unfiltered (the metaindex block holds no entry: its loss
//     costs the filter, nothing else); never "corrupt", never a panic; with and without cache + pool.
//  2. footer handles — the 40 handle bytes of the footer rewritten, magic intact: offsets / lengths of the
//     metaindex or index handle just beyond the file, at 2^32 (+ε), 2^62, 2^63, 2^64-1, in-file edge values
//     (block ending exactly at the footer, trailer reaching into the footer), and varints that overflow 64 bits
//     (11 bytes; 10 bytes with a last byte > 1) in each of the four positions.  Oracle: no panic; no call
//     allocates more than allocLimit(file) bytes (runtime.MemStats.TotalAlloc around NewReader + first lookup);
//     every answer is the intact answer (filtered lookups may give the unfiltered one) or a corruption error.
//     Lengths are tried in ascending order; once a call has been seen to allocate what the footer claims
//     (the code as found), lengths in [2^20, 2^48) are no longer tried in this run: they would make the process
//     touch gigabytes (the CRC runs over the buffer) or die in an unrecoverable out-of-memory error.  Lengths
//     from 2^48 on end in a recoverable panic on such a tree and are always tried.
//  3. short reads with a warm buffer pool — a table A with the same keys and layout but other values (hence a
//     byte-identical metaindex block) is read through a util.BufferPool; then, through the SAME pool, a table
//     B' made from the case's table B such that a block handle reaches beyond the end of the file:
//     (a) the footer's metaindex (or index) offset moved beyond the end, (b) the file cut inside the metaindex /
//     index block with the footer put back, (c) the data region cut short and the footer handles moved along, so
//     that data-block handles of the (checksummed, intact) index block point beyond the end.
//     Oracle: no panic; the answers do not depend on what the pool's buffers held (warm pool = no pool); every
//     answer is B's answer or a corruption error; never A's data.
//
// Every damaged file also goes to the model (`tbl read`), expecting the answers of the pool-less reader; in these
// classes the operation list ends with `e`, the class of the reader's permanent error (footer / block / none),
// which the model answers from `Table.openE`.

import (
	"bytes"
	"encoding/binary"
	"fmt"
	"math/rand"
	"runtime"
	"strings"

	"github.com/syndtr/goleveldb/leveldb/cache"
	"github.com/syndtr/goleveldb/leveldb/opt"
	"github.com/syndtr/goleveldb/leveldb/util"

	"verif/harness/wp"
)

// RepairStats counts what the three classes did.
type RepairStats struct {
	MetaDamaged, FooterVariants, ShortReadFiles, RepairOps int
	AllocProbes, StaleSkipped                              int
	MaxProbeAlloc                                          int // largest allocation seen in a probe (bytes)
}

// footerAllocSeen: a reader allocated a buffer of the length a footer handle claimed (reset by Run).
var footerAllocSeen bool

// allocLimit: what opening a table of that size and one lookup may allocate (reader struct, options, index and
// filter block copies, iterator, the pool's baseline buffers, the result): generous, far below any claimed length.
func allocLimit(file []byte, c *Case) uint64 {
	return uint64(1<<20 + 8*len(file) + 16*c.BlockSize)
}

// allocDuring runs f and returns the bytes allocated meanwhile (TotalAlloc is cumulative; C13 runs its cases
// on one goroutine).
func allocDuring(f func()) uint64 {
	var a, b runtime.MemStats
	runtime.ReadMemStats(&a)
	f()
	runtime.ReadMemStats(&b)
	return b.TotalAlloc - a.TotalAlloc
}

func uv(x uint64) []byte {
	var b [binary.MaxVarintLen64]byte
	return append([]byte{}, b[:binary.PutUvarint(b[:], x)]...)
}

// withFooter replaces the footer of file by one made of the given handle bytes (padded to 40) and the magic.
func withFooter(body []byte, magic []byte, parts ...[]byte) []byte {
	var hs []byte
	for _, p := range parts {
		hs = append(hs, p...)
	}
	if len(hs) > 40 {
		panic("footer handles too long")
	}
	out := append([]byte{}, body...)
	out = append(out, hs...)
	out = append(out, make([]byte, 40-len(hs))...)
	return append(out, magic...)
}

func (c *Case) mutatedValues() *Case {
	a := *c
	a.kvs = make([]kv, len(c.kvs))
	for i, e := range c.kvs {
		v := append([]byte{}, e.v...)
		for j := range v {
			v[j] ^= 0x55
		}
		a.kvs[i] = kv{e.k, v}
	}
	return &a
}

// readerRepairs runs the three classes on one intact table.
func readerRepairs(c *Case, file []byte, blks []blk, ops, g1 []string, r *rand.Rand, sz Sizes, s *wp.Sink, st *Stats,
	viol func(sig, format string, a ...interface{})) {
	if len(file) > sz.RepairMaxFile {
		return
	}
	// one more operation in these classes: the class of the reader's permanent error (model: `Table.openE`)
	ops = append(append([]string{}, ops...), "e")
	g1 = append(append([]string{}, g1...), runOps(file, c, false, []string{"e"})[0])
	if g1[len(g1)-1] != "e:ok" {
		viol("intact-error", "the intact table's reader carries an error: %s", g1[len(g1)-1])
		return
	}
	var mb, ib blk
	for _, b := range blks {
		switch b.kind {
		case 'm':
			mb = b
		case 'i':
			ib = b
		}
	}
	footerPos := len(file) - 48
	magic := file[len(file)-8:]
	unfOf := func(i int) string {
		if strings.HasPrefix(ops[i], "F:") || strings.HasPrefix(ops[i], "K:") {
			return g1[i-1]
		}
		return g1[i]
	}
	readLine := func(f []byte) string {
		return fmt.Sprintf("tbl read %s %s 1 %s %s", c.Filter, c.Cmp, hx(f), strings.Join(ops, " "))
	}
	small := len(file) <= sz.DamageMaxFile

	// ---- 1. metaindex damage ----------------------------------------------------------------------------
	var positions []int
	if small {
		for p := mb.off; p < mb.off+mb.ln+5; p++ {
			positions = append(positions, p)
		}
	} else {
		positions = []int{mb.off, mb.off + mb.ln - 1, mb.off + mb.ln, mb.off + mb.ln + 1, mb.off + mb.ln + 4, mb.off + r.Intn(mb.ln+5)}
	}
	for _, p := range positions {
		dam := append([]byte{}, file...)
		dam[p] ^= byte(1 + r.Intn(255))
		d1 := runOps(dam, c, false, ops)
		d2 := runOps(dam, c, true, ops)
		curRO = &opt.ReadOptions{DontFillCache: true}
		d3 := runOps(dam, c, true, ops)
		curRO = nil
		for i := range ops {
			for _, a := range []string{d1[i], d2[i], d3[i]} {
				if a != unfOf(i) && !(strings.HasPrefix(ops[i], "o:") && a == fmt.Sprintf("ok:%d", mb.off)) {
					viol("meta-damage", "byte %d of the metaindex block %d+%d(+5) altered, op %s: answer %s; the intact table answers %s (unfiltered): "+
						"the metaindex block holds no entry, its loss may cost the filter only", p, mb.off, mb.ln, ops[i], a, unfOf(i))
					break
				}
			}
		}
		s.Emit(readLine(dam), strings.Join(d1, " "))
		st.Repairs.MetaDamaged++
		st.Repairs.RepairOps += 3 * len(ops)
		s.Count("reader repairs", "metaindex byte altered")
	}

	// ---- 2. footer handles --------------------------------------------------------------------------------
	type variant struct {
		name  string
		parts [4][]byte // metaindex offset, length, index offset, length (varint bytes)
		big   uint64    // claimed length when a length field is rewritten, else 0
	}
	orig := [4]uint64{uint64(mb.off), uint64(mb.ln), uint64(ib.off), uint64(ib.ln)}
	mk := func(name string, field int, val uint64) variant {
		v := variant{name: name}
		for i := range orig {
			v.parts[i] = uv(orig[i])
		}
		v.parts[field] = uv(val)
		if field == 1 || field == 3 {
			v.big = val
		}
		return v
	}
	fieldName := []string{"meta.offset", "meta.length", "index.offset", "index.length"}
	var vars []variant
	eps := uint64(1 + r.Intn(1000))
	for field := 0; field < 4; field++ {
		// ascending: just beyond the file, beyond, moderate, then the huge ones
		vals := []uint64{0, uint64(len(file)), uint64(len(file)) + eps, 1 << 20, 1 << 26,
			1 << 32, 1<<32 + eps, 1 << 40, 1 << 62, 1 << 63, 1<<64 - 1}
		if field&1 == 0 {
			// offset fields: the block would end one byte beyond the footer's start / exactly there / start there
			vals[0] = uint64(footerPos) - orig[field+1] + 1
			vals = append(vals, uint64(footerPos)-orig[field+1], uint64(footerPos))
		} else {
			// length fields: one beyond / the block ends exactly at the footer (in range: its trailer lies in the footer)
			vals[0] = uint64(footerPos) - orig[field-1] + 1
			vals = append(vals, uint64(footerPos)-orig[field-1])
		}
		for _, x := range vals {
			vars = append(vars, mk(fmt.Sprintf("%s=%d", fieldName[field], x), field, x))
		}
		// overflowing varints in this position
		for k, ov := range [][]byte{bytes.Repeat([]byte{0xff}, 11), append(bytes.Repeat([]byte{0x80}, 9), 0x02)} {
			v := mk(fmt.Sprintf("%s=overflow%d", fieldName[field], k), field, 0)
			v.parts[field] = ov
			vars = append(vars, v)
		}
	}
	if !small {
		// larger tables: a few variants only (the lines carry the whole file), none of the lengths that are only
		// safe to try after the ascending probes of a small table
		var keep []variant
		for _, v := range vars {
			if !(v.big >= 1<<20 && v.big < 1<<48) {
				keep = append(keep, v)
			}
		}
		r.Shuffle(len(keep), func(i, j int) { keep[i], keep[j] = keep[j], keep[i] })
		vars = keep[:4]
	}
	for _, v := range vars {
		if footerAllocSeen && v.big >= 1<<20 && v.big < 1<<48 {
			st.Repairs.StaleSkipped++
			continue
		}
		total := 0
		for _, p := range v.parts {
			total += len(p)
		}
		if total > 40 {
			continue
		}
		f2 := withFooter(file[:footerPos], magic, v.parts[0], v.parts[1], v.parts[2], v.parts[3])
		var p1, p2 []string
		a1 := allocDuring(func() { p1 = probe(f2, c, false, ops) })
		a2 := allocDuring(func() { p2 = probe(f2, c, true, ops) })
		st.Repairs.AllocProbes += 2
		if m := int(a1); m > st.Repairs.MaxProbeAlloc {
			st.Repairs.MaxProbeAlloc = m
		}
		if m := int(a2); m > st.Repairs.MaxProbeAlloc {
			st.Repairs.MaxProbeAlloc = m
		}
		lim := allocLimit(file, c)
		if a1 > lim || a2 > lim {
			footerAllocSeen = true
			viol("footer-handle:alloc", "footer rewritten (%s, intact magic) on a table of %d bytes: opening it and one lookup allocated %d bytes "+
				"without / %d bytes with cache and pool (limit %d): the reader allocates the length the unchecksummed footer claims", v.name, len(file), a1, a2, lim)
		}
		d1, d2 := p1, p2
		if !(footerAllocSeen && v.big >= 1<<20 && v.big < 1<<48) {
			// (on a tree that allocates claimed lengths the probe's single answer is all that is taken for those)
			d1 = runOps(f2, c, false, ops)
			d2 = runOps(f2, c, true, ops)
		}
		for i := range d1 {
			for _, a := range []string{d1[i], d2[i]} {
				switch {
				case strings.HasPrefix(a, "PANIC"):
					viol("footer-handle:panic", "footer rewritten (%s, intact magic), op %s: %s", v.name, ops[i], a)
				case !acceptable(ops[i], a, g1[i], unfOf(i), len(file)):
					viol("footer-handle:answer", "footer rewritten (%s, intact magic), op %s: answer %s, the intact table answers %s", v.name, ops[i], a, g1[i])
				}
			}
		}
		if len(d1) == len(ops) {
			s.Emit(readLine(f2), strings.Join(d1, " "))
		}
		st.Repairs.FooterVariants++
		st.Repairs.RepairOps += 2 * len(ops)
		s.Count("reader repairs", "footer handle "+strings.SplitN(v.name, "=", 2)[0])
	}

	// ---- 3. short reads through a warm pool -----------------------------------------------------------------
	if c.N == 0 {
		return
	}
	ca := c.mutatedValues()
	fileA := ca.write()
	if len(fileA) != len(file) {
		return // (compression made the layouts differ)
	}
	gA := runOps(fileA, ca, false, ops)
	dataEnd := mb.off
	nData := 0
	for _, b := range blks {
		if b.kind == 'f' {
			dataEnd = b.off
		}
		if b.kind == 'd' {
			nData++
		}
	}
	type shortFile struct {
		name string
		f    []byte
	}
	var sfs []shortFile
	beyond := uint64(len(file) + r.Intn(64))
	sfs = append(sfs,
		shortFile{"metaindex offset beyond the end", withFooter(file[:footerPos], magic, uv(beyond), uv(orig[1]), uv(orig[2]), uv(orig[3]))},
		shortFile{"index offset beyond the end", withFooter(file[:footerPos], magic, uv(orig[0]), uv(orig[1]), uv(beyond), uv(orig[3]))},
		shortFile{"file cut inside the metaindex block", append(append([]byte{}, file[:mb.off+1+r.Intn(mb.ln+4)]...), file[footerPos:]...)},
		shortFile{"file cut inside the index block", append(append([]byte{}, file[:ib.off+1+r.Intn(ib.ln+4)]...), file[footerPos:]...)},
	)
	if dataEnd > 1 {
		// data region cut at k, the rest of the file moved down, the footer handles adjusted
		// the block cache is keyed by block offset: the moved index block must not land on an offset that a handle
		// of a checksummed block (a data block of the index, the filter block of the metaindex) still names — that
		// would be a second inconsistency of the file (two different blocks under one cache key), not a short read
		named := map[int]bool{dataEnd: true}
		for _, b := range blks {
			if b.kind == 'd' {
				named[b.off] = true
			}
		}
		for n := 0; n < 2; n++ {
			k, ok := 0, false
			for try := 0; try < 20 && !ok; try++ {
				k = r.Intn(dataEnd)
				if n == 0 && nData > 1 {
					k = r.Intn(blks[0].ln + 5 + 1) // inside / right after the first data block
				}
				ok = !named[k] && !named[ib.off-(dataEnd-k)] && !named[mb.off-(dataEnd-k)]
			}
			if !ok {
				continue
			}
			cut := uint64(dataEnd - k)
			f3 := append([]byte{}, file[:k]...)
			f3 = append(f3, file[dataEnd:footerPos]...)
			f3 = withFooter(f3, magic, uv(orig[0]-cut), uv(orig[1]), uv(orig[2]-cut), uv(orig[3]))
			sfs = append(sfs, shortFile{fmt.Sprintf("data region cut at %d of %d, footer handles moved along", k, dataEnd), f3})
		}
	}
	prev := runtime.GOMAXPROCS(1) // the pool is a sync.Pool: one P makes "the buffer released last" the buffer handed out next
	defer runtime.GOMAXPROCS(prev)
	for _, sf := range sfs {
		cold := runOpsWith(sf.f, c, nil, nil, ops)
		bp := util.NewBufferPool(c.BlockSize + 5)
		runOpsWith(fileA, ca, nil, bp, ops) // A's data blocks, index and filter block pass through the pool
		runOpsWith(fileA, ca, nil, bp, nil) // open + release: A's metaindex block is the buffer released last
		warm := runOpsWith(sf.f, c, nil, bp, ops)
		bp2 := util.NewBufferPool(c.BlockSize + 5)
		cg := &cache.NamespaceGetter{Cache: cache.NewCache(cache.NewLRU(1 << 20)), NS: 7}
		runOpsWith(fileA, ca, nil, bp2, ops)
		warmCached := runOpsWith(sf.f, c, cg, bp2, ops)
		for i := range ops {
			for wi, a := range []string{cold[i], warm[i], warmCached[i]} {
				switch {
				case strings.HasPrefix(a, "PANIC"):
					viol("short-read:panic", "%s, op %s: %s", sf.name, ops[i], a)
				case a != "corrupt" && gA[i] != g1[i] && a == gA[i]:
					viol("short-read:other-table", "%s, op %s (reader %d of cold/warm/warm+cache): the answer %s is what table A, read before through the same buffer pool, "+
						"holds; this table holds %s", sf.name, ops[i], wi, a, g1[i])
				case !acceptable(ops[i], a, g1[i], unfOf(i), len(file)):
					viol("short-read:answer", "%s, op %s: answer %s, the intact table answers %s", sf.name, ops[i], a, g1[i])
				}
			}
			if warm[i] != cold[i] || warmCached[i] != cold[i] {
				if warm[i] == cold[i] {
					warm[i] = warmCached[i]
				}
				viol("short-read:depends-on-pool-history", "%s, op %s: without a buffer pool the reader answers %s, through a pool that served table A "+
					"(same metaindex block) before it answers %s: a short read is verified against the recycled buffer's old contents", sf.name, ops[i], cold[i], warm[i])
			}
		}
		s.Emit(readLine(sf.f), strings.Join(cold, " "))
		st.Repairs.ShortReadFiles++
		st.Repairs.RepairOps += 3 * len(ops)
		s.Count("reader repairs", "short read: "+strings.SplitN(sf.name, " at ", 2)[0])
	}
}

// acceptable: the answer to op on a damaged file is the intact answer (a filtered lookup may give the unfiltered one),
// a corruption error, or — for OffsetOf, an approximation that falls back on the reader's dataEnd, which comes from
// the footer / the metaindex block — any offset within the original file.
func acceptable(op, a, intact, unf string, fileLen int) bool {
	if op == "e" {
		return a == "e:ok" || a == "e:footer" || a == "e:block"
	}
	if a == "corrupt" || a == intact || a == unf {
		return true
	}
	if strings.HasPrefix(op, "o:") && strings.HasPrefix(a, "ok:") {
		var n int
		if _, err := fmt.Sscanf(a, "ok:%d", &n); err == nil && n >= 0 && n <= fileLen {
			return true
		}
	}
	return false
}

// probe opens the file and answers the first operation only.
func probe(file []byte, c *Case, cached bool, ops []string) []string {
	return runOps(file, c, cached, ops[:1])
}
