// Package wpc13 generates the cases of property C13 (sorted tables: table.Writer / table.Reader).
//
// A case is a strictly increasing key/value set with table options (block size, restart interval, filter,
// filter base, comparer; NoCompression, every third table SnappyCompression), written with the real table.NewWriter into a buffer.
//
// Handed to the sink as lines for the Lean model driver (protocol: lean/GoLevel/Driver/Table.lean) with the
// implementation's answer:
//
//	tbl write   <blockSize> <ri> <filter> <baseLg> <cmp> <k> <v> …   expect: the FILE BYTES (hex)
//	            — everything is compared, including the bloom filter bytes (the driver carries an executable
//	            copy of the builtin bloom filter) and the checksums (table-driven CRC32C in the driver)
//	tbl handles <filter> <cmp> <file>                                expect: the block handles, parsed here from
//	            the file independently of the library (footer, index block, metaindex block); they must tile the
//	            file up to the footer
//	tbl read    <filter> <cmp> 1 <file> <op> …                       expect: the answers of table.NewReader (no
//	            cache, no buffer pool) to Find / FindKey (filtered and not), Get, OffsetOf for present keys,
//	            absent neighbours, keys before and after all, a full forward iteration and range iterations
//	tbl raw 1   <damaged file> <off> <len>                           expect: corrupt   (one byte of a checksummed
//	            block altered; the model's readRawBlock with verification must reject the block)
//	tbl read    … <damaged file> …                                   expect: what the cache-less reader answers
//	tbl biter   <cmp> <ri> <block> [s:<start>:<limit>:<incl>] <move> …   expect: what the REAL table.blockIter answers to a
//	            random walk (First/Last/Seek/Next/Prev, runs past both ends, Prev after Seek, Next after Last …) over
//	            that block: the index block (restart interval 1, inclLimit = true) and the first / last / a sought
//	            data block, unsliced and sliced with a util.Range.  blockIter is unexported: the generator takes the
//	            `index` field of the iterator that Reader.NewIterator returns (reflect + unsafe, read-only) — an
//	            IteratorIndexer whose embedded *blockIter walks the index block and whose Get() hands out fresh
//	            data-block blockIters.  On single-block tables the walk is also made through the public iterator alone.
//
// Implementation-side oracles (no model involved), reported through Sink.Violate:
//   - reader with block cache + buffer pool answers exactly like the reader without,
//   - a full forward iteration is the input, a full backward iteration its reverse,
//   - OffsetOf never decreases as the key grows,
//   - on a damaged file (strict options) every operation answers with the original answer (a filtered lookup
//     may give the unfiltered answer: a damaged filter or metaindex block makes the reader drop the filter; OffsetOf
//     beyond the last key may then answer with the metaindex offset instead of the filter offset) or with a
//     corruption error, and nothing panics,
//   - the three damage classes of repairs.go (metaindex block, footer handles, short reads through a warm pool).
//
// Known finding (reported through Sink.Note, not compared): on an EMPTY table an iterator with non-nil Start and
// non-nil Limit reports "entries offset not aligned" instead of yielding nothing.
package wpc13

import (
	"bytes"
	"encoding/binary"
	"encoding/hex"
	"fmt"
	"math/rand"
	"reflect"
	"sort"
	"strconv"
	"strings"
	"unsafe"

	"github.com/golang/snappy"

	"github.com/syndtr/goleveldb/leveldb/cache"
	"github.com/syndtr/goleveldb/leveldb/comparer"
	lerrors "github.com/syndtr/goleveldb/leveldb/errors"
	"github.com/syndtr/goleveldb/leveldb/filter"
	"github.com/syndtr/goleveldb/leveldb/iterator"
	"github.com/syndtr/goleveldb/leveldb/opt"
	"github.com/syndtr/goleveldb/leveldb/storage"
	"github.com/syndtr/goleveldb/leveldb/table"
	"github.com/syndtr/goleveldb/leveldb/util"

	"verif/harness/wp"
)

// Sizes scales the generator.
type Sizes struct {
	Tables        int // number of tables
	DamageMaxFile int // tables up to this many bytes get the single-byte damage treatment
	DamageAll     int // … all positions if the checksummed part is at most this long, else DamageSample + block edges
	DamageSample  int
	SnappyStreams int // hand-built / mutated snappy block streams decoded by snappy.Decode and by the model
	RepairMaxFile int // tables up to this many bytes get the reader-repair classes (repairs.go)
}

// DefaultSizes: ≥ 600 tables.
func DefaultSizes() Sizes {
	return Sizes{Tables: 700, DamageMaxFile: 1500, DamageAll: 220, DamageSample: 40, SnappyStreams: 1500, RepairMaxFile: 6000}
}

// nilSep orders like bytes.Compare and never shortens a key (driver comparer id "nilsep").
type nilSep struct{}

func (nilSep) Compare(a, b []byte) int           { return bytes.Compare(a, b) }
func (nilSep) Name() string                      { return "wp.c13.nilsep" }
func (nilSep) Separator(dst, a, b []byte) []byte { return nil }
func (nilSep) Successor(dst, b []byte) []byte    { return nil }

func hx(b []byte) string {
	if len(b) == 0 {
		return "-"
	}
	return hex.EncodeToString(b)
}

func unhex(s string) []byte {
	if s == "-" {
		return []byte{}
	}
	b, err := hex.DecodeString(s)
	if err != nil {
		panic(err)
	}
	return b
}

type kv struct{ k, v []byte }

// Case is one generated table (also the replay record of a violation).
type Case struct {
	Seed      int64
	BlockSize int
	RI        int
	Filter    string // "none" | "bloom<bits>"
	Bits      int
	BaseLg    int
	Cmp       string // "bytewise" | "nilsep"
	Mode      int
	N         int
	Snappy    bool // written with opt.SnappyCompression (reader side only is compared with the model)
	kvs       []kv
}

func (c *Case) options() *opt.Options {
	o := &opt.Options{
		BlockSize:            c.BlockSize,
		BlockRestartInterval: c.RI,
		FilterBaseLg:         c.BaseLg,
		Compression:          opt.NoCompression,
		Strict:               opt.StrictAll,
	}
	if c.Snappy {
		o.Compression = opt.SnappyCompression
	}
	if c.Filter != "none" {
		o.Filter = filter.NewBloomFilter(c.Bits)
	}
	if c.Cmp == "nilsep" {
		o.Comparer = nilSep{}
	} else {
		o.Comparer = comparer.DefaultComparer
	}
	return o
}

func randBytes(r *rand.Rand, n int, alpha int) []byte {
	b := make([]byte, n)
	for i := range b {
		switch alpha {
		case 0:
			b[i] = byte(r.Intn(256))
		case 1:
			b[i] = byte('a' + r.Intn(4))
		default:
			if r.Intn(3) == 0 {
				b[i] = 0xff
			} else {
				b[i] = byte(r.Intn(3))
			}
		}
	}
	return b
}

// Gen derives a case from a seed; index selects the forced shapes (empty table, single entry).
func Gen(seed int64, index int) *Case {
	r := rand.New(rand.NewSource(seed))
	c := &Case{Seed: seed}
	bss := []int{64, 96, 128, 200, 256, 512, 1024, 2048, 4096}
	c.BlockSize = bss[r.Intn(len(bss))]
	c.RI = 1 + r.Intn(16)
	c.BaseLg = 4 + r.Intn(8)
	switch r.Intn(4) {
	case 0:
		c.Filter = "none"
	case 1:
		c.Bits = 1
	case 2:
		c.Bits = 10
	case 3:
		c.Bits = 16
	}
	if c.Filter == "" {
		c.Filter = "bloom" + strconv.Itoa(c.Bits)
	}
	c.Cmp = "bytewise"
	if r.Intn(5) == 0 {
		c.Cmp = "nilsep"
	}
	c.Mode = r.Intn(10)
	c.Snappy = index%3 == 2
	rz := rand.New(rand.NewSource(seed ^ 0x5a5a)) // shapes values of compressed tables only
	n := 0
	switch {
	case index%37 == 0:
		n = 0
	case index%37 == 1:
		n = 1
	default:
		n = 1 + r.Intn(120)
		if r.Intn(6) == 0 {
			n = 1 + r.Intn(600)
		}
	}
	set := map[string][]byte{}
	prefix := randBytes(r, 10+r.Intn(150), 1)
	for len(set) < n {
		var k []byte
		switch c.Mode {
		case 0, 1: // random binary keys (the empty key included)
			k = randBytes(r, r.Intn(24), 0)
		case 2, 3: // long shared prefix + short tail
			k = append(append([]byte{}, prefix...), randBytes(r, r.Intn(6), 1)...)
		case 4: // small alphabet: keys that are prefixes of each other
			k = randBytes(r, r.Intn(10), 1)
		case 5: // 0x00 / 0xff heavy (separator / successor edge cases)
			k = randBytes(r, r.Intn(8), 2)
		case 6: // decimal counters
			k = []byte(fmt.Sprintf("key%08d", r.Intn(100000)))
		case 7: // internal-key like: user key + 8 byte trailer
			k = append(randBytes(r, 1+r.Intn(6), 1), randBytes(r, 8, 0)...)
		default:
			k = randBytes(r, 1+r.Intn(40), r.Intn(3))
		}
		var v []byte
		switch r.Intn(8) {
		case 0:
			v = nil
		case 1:
			if r.Intn(4) == 0 {
				v = randBytes(r, c.BlockSize+r.Intn(2*c.BlockSize), 0) // bigger than a block
			} else {
				v = randBytes(r, r.Intn(200), 0)
			}
		default:
			v = randBytes(r, r.Intn(30), 0)
		}
		if c.Snappy && rz.Intn(2) == 0 { // compressible values: runs (overlapping copies) and repeated patterns
			pat := randBytes(rz, 1+rz.Intn(7), rz.Intn(2))
			v = bytes.Repeat(pat, 1+rz.Intn(60))
			if rz.Intn(3) == 0 {
				v = append(v, randBytes(rz, rz.Intn(20), 0)...)
			}
		}
		if r.Intn(40) == 0 {
			k = randBytes(r, c.BlockSize+r.Intn(c.BlockSize), 1) // key bigger than a block
		}
		set[string(k)] = v
	}
	keys := make([]string, 0, len(set))
	for k := range set {
		keys = append(keys, k)
	}
	sort.Strings(keys)
	for _, k := range keys {
		c.kvs = append(c.kvs, kv{[]byte(k), set[k]})
	}
	c.N = len(c.kvs)
	return c
}

func (c *Case) write() []byte {
	var buf bytes.Buffer
	w := table.NewWriter(&buf, c.options(), nil, 0)
	for _, e := range c.kvs {
		if err := w.Append(e.k, e.v); err != nil {
			panic(err)
		}
	}
	if err := w.Close(); err != nil {
		panic(err)
	}
	return buf.Bytes()
}

func classify(err error) string {
	if err == table.ErrNotFound {
		return "nf"
	}
	if lerrors.IsCorrupted(err) {
		return "corrupt"
	}
	return "err(" + strings.ReplaceAll(err.Error(), " ", "_") + ")"
}

// runOps answers the ops on a real reader; a panic is reported as "PANIC(...)".
func runOps(file []byte, c *Case, cached bool, ops []string) (res []string) {
	var cg *cache.NamespaceGetter
	var bp *util.BufferPool
	if cached {
		cg = &cache.NamespaceGetter{Cache: cache.NewCache(cache.NewLRU(1 << 20)), NS: 1}
		bp = util.NewBufferPool(c.BlockSize + 5)
	}
	return runOpsWith(file, c, cg, bp, ops)
}

// runOpsWith: runOps on a reader with the given block cache and buffer pool (either may be nil).
func runOpsWith(file []byte, c *Case, cg *cache.NamespaceGetter, bp *util.BufferPool, ops []string) (res []string) {
	o := c.options()
	res = make([]string, 0, len(ops))
	var r *table.Reader
	func() {
		defer func() {
			if p := recover(); p != nil {
				for range ops {
					res = append(res, fmt.Sprintf("PANIC(open:%v)", p))
				}
			}
		}()
		var err error
		r, err = table.NewReader(bytes.NewReader(file), int64(len(file)), storage.FileDesc{Type: storage.TypeTable, Num: 1}, cg, bp, o)
		if err != nil {
			for range ops {
				res = append(res, classify(err))
			}
		}
	}()
	if len(res) > 0 || r == nil {
		return
	}
	for i, op := range ops {
		a := runOp(r, op)
		res = append(res, a)
		if strings.HasPrefix(a, "PANIC") {
			// a panic inside the block cache's load callback leaves the cache node locked: the reader is not used
			// (nor released) any further, the remaining operations carry the same answer
			for range ops[i+1:] {
				res = append(res, a)
			}
			return
		}
	}
	r.Release()
	return
}

// curRO is the opt.ReadOptions the reader calls of runOp/iterAll use (nil = defaults); the damage pass also
// runs with DontFillCache, which exercises the reader's non-caching block path.
var curRO *opt.ReadOptions

func iterAll(r *table.Reader, slice *util.Range) string {
	it := r.NewIterator(slice, curRO)
	defer it.Release()
	var sb strings.Builder
	sb.WriteString("it:")
	first := true
	for it.Next() {
		if !first {
			sb.WriteByte(',')
		}
		first = false
		sb.WriteString(hx(it.Key()))
		sb.WriteByte('=')
		sb.WriteString(hx(it.Value()))
	}
	if err := it.Error(); err != nil {
		return classify(err)
	}
	return sb.String()
}

func runOp(r *table.Reader, op string) (out string) {
	defer func() {
		if p := recover(); p != nil {
			out = strings.ReplaceAll(fmt.Sprintf("PANIC(%v)", p), " ", "_")
		}
	}()
	parts := strings.Split(op, ":")
	switch parts[0] {
	case "e":
		// class of the reader's permanent error (NewReader leaves it in r.err; every call returns it)
		_, _, err := r.Find([]byte{}, false, curRO)
		if ce, ok := err.(*lerrors.ErrCorrupted); ok {
			if te, ok := ce.Err.(*table.ErrCorrupted); ok {
				switch te.Kind {
				case "table", "table-footer":
					return "e:footer"
				case "meta-block", "index-block":
					return "e:block"
				}
			}
		}
		return "e:ok"
	case "f", "F":
		k, v, err := r.Find(unhex(parts[1]), parts[0] == "F", curRO)
		if err != nil {
			return classify(err)
		}
		return "ok:" + hx(k) + ":" + hx(v)
	case "k", "K":
		k, err := r.FindKey(unhex(parts[1]), parts[0] == "K", curRO)
		if err != nil {
			return classify(err)
		}
		return "ok:" + hx(k)
	case "g":
		v, err := r.Get(unhex(parts[1]), curRO)
		if err != nil {
			return classify(err)
		}
		return "ok:" + hx(v)
	case "o":
		n, err := r.OffsetOf(unhex(parts[1]))
		if err != nil {
			return classify(err)
		}
		return "ok:" + strconv.FormatInt(n, 10)
	case "it":
		return iterAll(r, nil)
	case "r":
		sl := &util.Range{}
		if parts[1] != "nil" {
			sl.Start = unhex(parts[1])
		}
		if parts[2] != "nil" {
			sl.Limit = unhex(parts[2])
		}
		return iterAll(r, sl)
	}
	panic("bad op " + op)
}

// backward iteration must be the reverse of the input
func checkBackward(file []byte, c *Case) error {
	r, err := table.NewReader(bytes.NewReader(file), int64(len(file)), storage.FileDesc{Type: storage.TypeTable, Num: 1}, nil, nil, c.options())
	if err != nil {
		return err
	}
	defer r.Release()
	it := r.NewIterator(nil, nil)
	defer it.Release()
	i := len(c.kvs) - 1
	for ok := it.Last(); ok; ok = it.Prev() {
		if i < 0 || !bytes.Equal(it.Key(), c.kvs[i].k) || !bytes.Equal(it.Value(), c.kvs[i].v) {
			return fmt.Errorf("backward iteration differs at %d", i)
		}
		i--
	}
	if i != -1 {
		return fmt.Errorf("backward iteration stopped early at %d", i)
	}
	return it.Error()
}

func (c *Case) queryKeys(r *rand.Rand) [][]byte {
	var qs [][]byte
	qs = append(qs, []byte{}, []byte{0}, bytes.Repeat([]byte{0xff}, 3), bytes.Repeat([]byte{0xff}, 200))
	n := len(c.kvs)
	pick := func() []byte { return c.kvs[r.Intn(n)].k }
	if n > 0 {
		qs = append(qs, c.kvs[0].k, c.kvs[n-1].k)
		for i := 0; i < 12; i++ {
			k := pick()
			qs = append(qs, k)
			qs = append(qs, append(append([]byte{}, k...), 0)) // absent neighbours
			if len(k) > 0 {
				k2 := append([]byte{}, k...)
				k2[len(k2)-1]--
				qs = append(qs, k2)
				qs = append(qs, k[:len(k)-1])
				k3 := append([]byte{}, k...)
				k3[r.Intn(len(k3))] ^= byte(1 + r.Intn(255))
				qs = append(qs, k3)
			}
		}
	}
	for i := 0; i < 4; i++ {
		qs = append(qs, randBytes(r, r.Intn(12), r.Intn(3)))
	}
	return qs
}

// ---- independent parse of the file layout (footer, index block, metaindex block) ----

type blk struct {
	kind    byte // d f m i
	off, ln int
}

func parseBlock(data []byte) (out []kv, ok bool) {
	defer func() {
		if recover() != nil {
			ok = false
		}
	}()
	n := len(data)
	nr := int(binary.LittleEndian.Uint32(data[n-4:]))
	end := n - 4*(nr+1)
	var key []byte
	for p := 0; p < end; {
		sh, a := binary.Uvarint(data[p:])
		ns, b := binary.Uvarint(data[p+a:])
		vl, c := binary.Uvarint(data[p+a+b:])
		p += a + b + c
		key = append(append([]byte{}, key[:sh]...), data[p:p+int(ns)]...)
		p += int(ns)
		out = append(out, kv{key, data[p : p+int(vl)]})
		p += int(vl)
	}
	return out, true
}

func parseHandle(b []byte) (off, ln int) {
	o, n := binary.Uvarint(b)
	l, _ := binary.Uvarint(b[n:])
	return int(o), int(l)
}

// rawBlock returns the (decompressed) contents of the block at a handle.
func rawBlock(file []byte, off, ln int) []byte {
	payload := file[off : off+ln]
	if file[off+ln] == 1 {
		dec, err := snappy.Decode(nil, payload)
		if err != nil {
			panic(err)
		}
		return dec
	}
	return payload
}

// layout lists data blocks (in index order), filter block, metaindex block, index block.
func layout(file []byte) (bs []blk, ok bool) {
	defer func() {
		if recover() != nil {
			ok = false
		}
	}()
	foot := file[len(file)-48:]
	mo, n := binary.Uvarint(foot)
	ml, n2 := binary.Uvarint(foot[n:])
	io, n3 := binary.Uvarint(foot[n+n2:])
	il, _ := binary.Uvarint(foot[n+n2+n3:])
	ix, ok1 := parseBlock(rawBlock(file, int(io), int(il)))
	me, ok2 := parseBlock(rawBlock(file, int(mo), int(ml)))
	if !ok1 || !ok2 {
		return nil, false
	}
	for _, e := range ix {
		o, l := parseHandle(e.v)
		bs = append(bs, blk{'d', o, l})
	}
	for _, e := range me {
		if strings.HasPrefix(string(e.k), "filter.") {
			o, l := parseHandle(e.v)
			bs = append(bs, blk{'f', o, l})
		}
	}
	bs = append(bs, blk{'m', int(mo), int(ml)}, blk{'i', int(io), int(il)})
	return bs, true
}

// Stats of a run (also printed by the standalone runner).
type Stats struct {
	Tables, MultiBlock, WithFilter, Big, FileBytes, ReadOps, Damaged, DamageOps, Known int
	Compressed, CompressedBlocks, SnappyStreams, SnappyBad                             int
	BiterWalks, BiterMoves, BiterSliced                                                int
	Repairs                                                                            RepairStats
}

// Run generates sz.Tables cases.
func Run(r *rand.Rand, sz Sizes, s *wp.Sink) Stats {
	var st Stats
	footerAllocSeen = false
	for i := 0; i < sz.Tables && s.TimeLeft(); i++ {
		one(r.Int63(), i, sz, s, &st)
	}
	for i := 0; i < sz.SnappyStreams && s.TimeLeft(); i++ {
		snappyStream(rand.New(rand.NewSource(r.Int63())), s, &st)
	}
	if st.Known > 0 {
		s.Note("KNOWN-FINDING C13: on an empty table NewIterator(&util.Range{Start: non-nil, Limit: non-nil}) reports corruption "+
			"(\"entries offset not aligned\": newBlockIter seeks the limit in the empty data block with riStart = restartsLen, and "+
			"block.seek reads the restart count as an offset) instead of yielding nothing; seen %d times", st.Known)
	}
	return st
}

func one(seed int64, index int, sz Sizes, s *wp.Sink, st *Stats) {
	c := Gen(seed, index)
	r := rand.New(rand.NewSource(seed ^ 0x5eed))
	viol := func(sig, format string, a ...interface{}) {
		s.Violate("C13/"+sig, fmt.Sprintf("seed=%d bs=%d ri=%d filter=%s lg=%d cmp=%s n=%d snappy=%v: ", c.Seed, c.BlockSize, c.RI, c.Filter, c.BaseLg, c.Cmp, c.N, c.Snappy)+
			fmt.Sprintf(format, a...), c)
	}
	file := c.write()
	st.Tables++
	st.FileBytes += len(file)

	// 1. file bytes (the writer model covers NoCompression; compressed tables are compared on the reader side only)
	if !c.Snappy {
		var sb strings.Builder
		fmt.Fprintf(&sb, "tbl write %d %d %s %d %s", c.BlockSize, c.RI, c.Filter, c.BaseLg, c.Cmp)
		for _, e := range c.kvs {
			sb.WriteByte(' ')
			sb.WriteString(hx(e.k))
			sb.WriteByte(' ')
			sb.WriteString(hx(e.v))
		}
		s.Emit(sb.String(), hx(file))
		s.Count("compression", "none")
	} else {
		st.Compressed++
		s.Count("compression", "snappy")
	}

	// 2. block handles, parsed independently; they must tile the file
	blks, ok := layout(file)
	pos := 0
	var hs []string
	for _, b := range blks {
		if b.off != pos {
			ok = false
		}
		pos = b.off + b.ln + 5
		hs = append(hs, fmt.Sprintf("%c:%d:%d", b.kind, b.off, b.ln))
	}
	if !ok || pos != len(file)-48 {
		viol("layout", "blocks do not tile the file: %v", hs)
		return
	}
	s.Emit(fmt.Sprintf("tbl handles %s %s %s", c.Filter, c.Cmp, hx(file)), strings.Join(hs, " "))
	nData := 0
	for _, b := range blks {
		if b.kind == 'd' {
			nData++
		}
		if file[b.off+b.ln] == 1 {
			st.CompressedBlocks++
		}
	}
	if nData > 1 {
		st.MultiBlock++
		s.Count("data blocks", "several")
	} else {
		s.Count("data blocks", "one")
	}
	if c.Filter != "none" {
		st.WithFilter++
	}
	s.Count("filter", c.Filter)
	s.Count("comparer", c.Cmp)
	s.Count("key shape", strconv.Itoa(c.Mode))
	switch {
	case c.N == 0:
		s.Count("entries", "0")
	case c.N == 1:
		s.Count("entries", "1")
	case c.N <= 120:
		s.Count("entries", "2-120")
	default:
		s.Count("entries", ">120")
	}
	if len(file) > 20000 {
		st.Big++
	}

	// 3. read operations
	var ops []string
	qs := c.queryKeys(r)
	sort.Slice(qs, func(i, j int) bool { return bytes.Compare(qs[i], qs[j]) < 0 })
	for _, q := range qs {
		h := hx(q)
		ops = append(ops, "f:"+h, "F:"+h, "k:"+h, "K:"+h, "g:"+h, "o:"+h)
	}
	ops = append(ops, "it")
	for i := 0; i < 6; i++ {
		a, b := qs[r.Intn(len(qs))], qs[r.Intn(len(qs))]
		if bytes.Compare(a, b) > 0 {
			a, b = b, a
		}
		sa, sb2 := hx(a), hx(b)
		switch r.Intn(5) {
		case 0:
			sa = "nil"
		case 1:
			sb2 = "nil"
		default:
			if c.N == 0 { // both bounds on an empty table: known finding, probed separately below
				sb2 = "nil"
			}
		}
		ops = append(ops, "r:"+sa+":"+sb2)
	}
	// inverted bounds (Limit < Start) and bounds outside the key range
	for i := 0; i < 3; i++ {
		a, b := qs[r.Intn(len(qs))], qs[r.Intn(len(qs))]
		if bytes.Compare(a, b) < 0 {
			a, b = b, a
		}
		ops = append(ops, "r:"+hx(a)+":"+hx(b))
	}
	ops = append(ops, "r:"+hx(bytes.Repeat([]byte{0xff}, 201))+":nil", "r:nil:-", "r:"+hx(bytes.Repeat([]byte{0xff}, 201))+":"+hx(bytes.Repeat([]byte{0xff}, 202)))
	g1 := runOps(file, c, false, ops)
	g2 := runOps(file, c, true, ops)
	if c.N == 0 {
		if a := runOps(file, c, false, []string{"r:-:6363"}); a[0] == "corrupt" {
			st.Known++
			viol("empty-table:range-iterator-reports-corruption", "empty table, NewIterator(Range{Start: \"\", Limit: \"cc\"}) reports corruption instead of yielding nothing: %s", a[0])
		} else if a[0] != "it:" {
			viol("empty-range", "empty table, range [\"\", \"cc\"): %s", a[0])
		}
	}
	for i := range ops {
		if g1[i] != g2[i] {
			viol("cache", "op %s: reader without cache answers %s, with cache and buffer pool %s", ops[i], g1[i], g2[i])
		}
		if strings.HasPrefix(g1[i], "PANIC") || strings.HasPrefix(g1[i], "err(") {
			viol("intact-error", "op %s on the intact table: %s", ops[i], g1[i])
		}
	}
	readLine := func(f []byte) string {
		return fmt.Sprintf("tbl read %s %s 1 %s %s", c.Filter, c.Cmp, hx(f), strings.Join(ops, " "))
	}
	s.Emit(readLine(file), strings.Join(g1, " "))
	st.ReadOps += len(ops)
	s.Eval(fmt.Sprintf("%d/%d/%d/%s/%d/%s/%d", c.Seed, c.BlockSize, c.RI, c.Filter, c.BaseLg, c.Cmp, c.N), c.N > 0)
	s.Sample(map[string]interface{}{"seed": c.Seed, "blockSize": c.BlockSize, "restartInterval": c.RI, "filter": c.Filter,
		"baseLg": c.BaseLg, "cmp": c.Cmp, "entries": c.N, "fileBytes": len(file), "dataBlocks": nData, "ops": len(ops)})

	// implementation-side oracles on the intact table
	{
		var sb3 strings.Builder
		sb3.WriteString("it:")
		for i, e := range c.kvs {
			if i > 0 {
				sb3.WriteByte(',')
			}
			sb3.WriteString(hx(e.k) + "=" + hx(e.v))
		}
		last := int64(-1)
		for i, op := range ops {
			if op == "it" && g1[i] != sb3.String() {
				viol("iteration", "a full forward iteration is not the input")
			}
			if strings.HasPrefix(op, "o:") {
				v, _ := strconv.ParseInt(strings.TrimPrefix(g1[i], "ok:"), 10, 64)
				if v < last {
					viol("offsets", "OffsetOf decreases at %s", op)
				}
				last = v
			}
		}
		if err := checkBackward(file, c); err != nil {
			viol("backward", "%v", err)
		}
	}

	// 3b. walks of the real blockIter (index block, data blocks; unsliced and sliced)
	biterCases(c, file, blks, qs, r, s, st, viol)

	// 3c. the reader repairs: metaindex damage, footer handles, short reads through a warm pool (repairs.go)
	readerRepairs(c, file, blks, ops, g1, r, sz, s, st, viol)

	// 4. single-byte damage inside checksummed blocks
	if len(file) > sz.DamageMaxFile {
		return
	}
	limit := len(file) - 48
	var positions []int
	if limit <= sz.DamageAll {
		for p := 0; p < limit; p++ {
			positions = append(positions, p)
		}
	} else {
		for i := 0; i < sz.DamageSample; i++ {
			positions = append(positions, r.Intn(limit))
		}
		// block edges: first / last payload byte, type byte, first and last checksum byte of every block
		for _, b := range blks {
			positions = append(positions, b.off, b.off+b.ln-1, b.off+b.ln, b.off+b.ln+1, b.off+b.ln+4)
		}
	}
	for _, p := range positions {
		dam := append([]byte{}, file...)
		dam[p] ^= byte(1 + r.Intn(255))
		var hb blk
		for _, b := range blks {
			if p >= b.off && p < b.off+b.ln+5 {
				hb = b
			}
		}
		s.Emit(fmt.Sprintf("tbl raw 1 %s %d %d", hx(dam), hb.off, hb.ln), "corrupt")
		d1 := runOps(dam, c, false, ops)
		d2 := runOps(dam, c, true, ops)
		curRO = &opt.ReadOptions{DontFillCache: true}
		d3 := runOps(dam, c, false, ops)
		d4 := runOps(dam, c, true, ops)
		curRO = nil
		for i := range ops {
			// ops come in groups f,F,k,K: the unfiltered twin of a filtered lookup is i-1
			unf := g1[i]
			if strings.HasPrefix(ops[i], "F:") || strings.HasPrefix(ops[i], "K:") {
				unf = g1[i-1]
			}
			for _, a := range []string{d1[i], d2[i], d3[i], d4[i]} {
				if !acceptable(ops[i], a, g1[i], unf, len(file)) {
					viol("damage", "byte %d (%c block) altered, op %s: answer %s, original %s", p, hb.kind, ops[i], a, g1[i])
				}
			}
		}
		s.Emit(readLine(dam), strings.Join(d1, " "))
		st.Damaged++
		st.DamageOps += 4 * len(ops)
		s.Count("damaged block", string(hb.kind))
	}
}

// ---- snappy block streams: snappy.Decode versus the model's decoder (driver line `tbl snappy <hex>`) ----

// snappyStream builds a valid element sequence by hand (literals in every length encoding, copies with 1-, 2- and
// 4-byte offsets, overlapping copies), or takes snappy.Encode of compressible data, optionally damages it after the
// length header (or states a wrong length), and emits it with the answer of snappy.Decode.
func snappyStream(r *rand.Rand, s *wp.Sink, st *Stats) {
	var body, out []byte
	kind := "hand-built"
	if r.Intn(4) == 0 {
		kind = "encoder"
		n := r.Intn(3000)
		for len(out) < n {
			if r.Intn(2) == 0 {
				out = append(out, bytes.Repeat(randBytes(r, 1+r.Intn(5), 1), 1+r.Intn(40))...)
			} else {
				out = append(out, randBytes(r, r.Intn(30), 0)...)
			}
		}
		enc := snappy.Encode(nil, out)
		_, hl := binary.Uvarint(enc)
		body = enc[hl:]
	} else {
		for e, ne := 0, 1+r.Intn(12); e < ne; e++ {
			if len(out) == 0 || r.Intn(3) == 0 {
				l := 1 + r.Intn(70)
				if r.Intn(6) == 0 {
					l = 1 + r.Intn(400)
				}
				lit := randBytes(r, l, r.Intn(2))
				x := l - 1
				enc := r.Intn(5) // 0: shortest form, 1..4: that many length bytes (if it fits)
				switch {
				case enc == 0 && x < 60:
					body = append(body, byte(x<<2))
				case enc <= 1 && x < 1<<8:
					body = append(body, 60<<2, byte(x))
				case enc <= 2 && x < 1<<16:
					body = append(body, 61<<2, byte(x), byte(x>>8))
				case enc <= 3:
					body = append(body, 62<<2, byte(x), byte(x>>8), byte(x>>16))
				default:
					body = append(body, 63<<2, byte(x), byte(x>>8), byte(x>>16), byte(x>>24))
				}
				body = append(body, lit...)
				out = append(out, lit...)
				continue
			}
			off := 1 + r.Intn(len(out))
			if r.Intn(3) == 0 && len(out) > 8 {
				off = 1 + r.Intn(8) // short offsets: overlapping copies
			}
			var l int
			switch t := r.Intn(3); {
			case t == 0 && off < 2048:
				l = 4 + r.Intn(8)
				body = append(body, byte(1|(l-4)<<2|(off>>8)<<5), byte(off))
			case t <= 1:
				l = 1 + r.Intn(64)
				body = append(body, byte(2|(l-1)<<2), byte(off), byte(off>>8))
			default:
				l = 1 + r.Intn(64)
				body = append(body, byte(3|(l-1)<<2), byte(off), byte(off>>8), byte(off>>16), byte(off>>24))
			}
			for i := 0; i < l; i++ {
				out = append(out, out[len(out)-off])
			}
		}
	}
	dlen := len(out)
	mut := "intact"
	switch r.Intn(6) {
	case 0:
		if len(body) > 0 {
			mut = "byte altered"
			body = append([]byte{}, body...)
			body[r.Intn(len(body))] ^= byte(1 + r.Intn(255))
		}
	case 1:
		mut = "truncated"
		body = body[:r.Intn(len(body)+1)]
	case 2:
		mut = "wrong length"
		dlen += []int{-1, 1, 100}[r.Intn(3)]
		if dlen < 0 {
			dlen = 0
		}
	case 3:
		if r.Intn(3) == 0 {
			mut = "trailing bytes"
			body = append(append([]byte{}, body...), randBytes(r, 1+r.Intn(4), 0)...)
		}
	}
	var hdr [10]byte
	stream := append(hdr[:binary.PutUvarint(hdr[:], uint64(dlen))], body...)
	want := "corrupt"
	if dec, err := snappy.Decode(nil, stream); err == nil {
		want = "ok:" + hx(dec)
		if mut == "intact" && !bytes.Equal(dec, out) {
			s.Violate("C13/snappy-roundtrip", "snappy.Decode of a "+kind+" stream is not the intended output", hx(stream))
		}
	} else {
		st.SnappyBad++
		if mut == "intact" {
			s.Violate("C13/snappy-roundtrip", "snappy.Decode rejects a valid "+kind+" stream: "+err.Error(), hx(stream))
		}
	}
	s.Emit("tbl snappy "+hx(stream), want)
	s.Count("snappy stream", kind+", "+mut)
	st.SnappyStreams++
}

// ---- walks of the real table.blockIter versus the byte-level model (driver line `tbl biter …`) ----

// seeker is what a walk needs of an iterator (iterator.Iterator and iterator.IteratorIndexer both have it).
type seeker interface {
	First() bool
	Last() bool
	Seek(key []byte) bool
	Next() bool
	Prev() bool
	Valid() bool
	Key() []byte
	Value() []byte
	Error() error
}

// indexSeeker: the table's indexIter (Key/Value come from its embedded *blockIter).
type indexSeeker interface {
	seeker
	Get() iterator.Iterator
}

// indexOf returns the unexported `index` field of the *indexedIterator that Reader.NewIterator returns: the
// table's indexIter, whose embedded *blockIter iterates the index block and whose Get() creates the blockIter of
// the data block under the cursor.  Read-only use of reflect/unsafe; nil if the layout is not as expected.
func indexOf(outer iterator.Iterator) (idx indexSeeker) {
	defer func() {
		if recover() != nil {
			idx = nil
		}
	}()
	rv := reflect.ValueOf(outer)
	if rv.Kind() != reflect.Ptr || rv.Elem().Kind() != reflect.Struct {
		return nil
	}
	f := rv.Elem().FieldByName("index")
	if !f.IsValid() {
		return nil
	}
	f = reflect.NewAt(f.Type(), unsafe.Pointer(f.UnsafeAddr())).Elem()
	idx, _ = f.Interface().(indexSeeker)
	return idx
}

func showPos(ok bool, it seeker) string {
	var sb strings.Builder
	if ok {
		sb.WriteString("1:")
	} else {
		sb.WriteString("0:")
	}
	if it.Valid() {
		sb.WriteString(hx(it.Key()) + "=" + hx(it.Value()))
	} else {
		sb.WriteString(".")
	}
	if err := it.Error(); err != nil {
		if lerrors.IsCorrupted(err) {
			sb.WriteString("!corrupt")
		} else {
			sb.WriteString("!err(" + strings.ReplaceAll(err.Error(), " ", "_") + ")")
		}
	}
	return sb.String()
}

// walk makes n random moves on it (after the moves `pre`, already made by the caller, whose answers are taken
// now) and returns the moves and the answers; bad is set when a returned Boolean differs from Valid().
func walk(it seeker, r *rand.Rand, qs [][]byte, n, burst int) (moves, answers []string, bad string) {
	do := func(m string) {
		var ok bool
		func() {
			defer func() {
				if p := recover(); p != nil {
					answers = append(answers, strings.ReplaceAll(fmt.Sprintf("PANIC(%v)", p), " ", "_"))
					ok = false
					bad = "panic on " + m
				}
			}()
			switch m[0] {
			case 'F':
				ok = it.First()
			case 'L':
				ok = it.Last()
			case 'N':
				ok = it.Next()
			case 'P':
				ok = it.Prev()
			case 'S':
				ok = it.Seek(unhex(m[2:]))
			}
			answers = append(answers, showPos(ok, it))
			if ok != it.Valid() && bad == "" {
				bad = fmt.Sprintf("move %d (%s) returned %v but Valid() = %v", len(moves), m, ok, it.Valid())
			}
		}()
		moves = append(moves, m)
	}
	for len(moves) < n && bad == "" {
		switch x := r.Intn(100); {
		case x < 22:
			do("N")
		case x < 44:
			do("P")
		case x < 52: // a run in one direction, often past the end and beyond
			m := "N"
			if r.Intn(2) == 0 {
				m = "P"
			}
			for k := 1 + r.Intn(burst); k > 0 && bad == ""; k-- {
				do(m)
			}
		case x < 60:
			do("F")
		case x < 68:
			do("L")
		case x < 72: // Next after Last, Prev after First
			if r.Intn(2) == 0 {
				do("L")
				do("N")
				if r.Intn(2) == 0 {
					do("N")
				}
				do("P")
			} else {
				do("F")
				do("P")
				if r.Intn(2) == 0 {
					do("P")
				}
				do("N")
			}
		default: // Seek, half of the time followed by Prev
			do("S:" + hx(qs[r.Intn(len(qs))]))
			if r.Intn(2) == 0 && bad == "" {
				do("P")
			}
		}
	}
	return
}

func sliceTok(sl *util.Range, incl bool) string {
	a, b := "nil", "nil"
	if sl.Start != nil {
		a = hx(sl.Start)
	}
	if sl.Limit != nil {
		b = hx(sl.Limit)
	}
	if incl {
		return "s:" + a + ":" + b + ":1"
	}
	return "s:" + a + ":" + b + ":0"
}

// biterCases: random walks on the real blockIter of the index block and of data blocks.
func biterCases(c *Case, file []byte, blks []blk, qs [][]byte, r *rand.Rand, s *wp.Sink, st *Stats, viol func(sig, format string, a ...interface{})) {
	rd, err := table.NewReader(bytes.NewReader(file), int64(len(file)), storage.FileDesc{Type: storage.TypeTable, Num: 1}, nil, nil, c.options())
	if err != nil {
		return
	}
	defer rd.Release()
	var dataBlks []blk
	var indexBlk blk
	for _, b := range blks {
		switch b.kind {
		case 'd':
			dataBlks = append(dataBlks, b)
		case 'i':
			indexBlk = b
		}
	}
	indexHex := hx(rawBlock(file, indexBlk.off, indexBlk.ln))
	emit := func(what string, ri int, blockHex, tok string, moves, answers []string, bad string) {
		line := fmt.Sprintf("tbl biter %s %d %s", c.Cmp, ri, blockHex)
		if tok != "" {
			line += " " + tok
			st.BiterSliced++
			s.Count("blockIter walk", what+", sliced")
		} else {
			s.Count("blockIter walk", what+", whole block")
		}
		s.Emit(line+" "+strings.Join(moves, " "), strings.Join(answers, " "))
		st.BiterWalks++
		st.BiterMoves += len(moves)
		if bad != "" {
			viol("blockiter-bool", "%s blockIter %s: %s", what, tok, bad)
		}
		for _, a := range answers {
			if strings.Contains(a, "!") || strings.HasPrefix(a, "PANIC") {
				viol("blockiter-error", "%s blockIter %s on an intact block answers %s", what, tok, a)
				break
			}
		}
	}
	randSlice := func() *util.Range {
		a, b := qs[r.Intn(len(qs))], qs[r.Intn(len(qs))]
		if bytes.Compare(a, b) > 0 && r.Intn(4) != 0 { // one in four inverted pairs stays inverted
			a, b = b, a
		}
		sl := &util.Range{Start: a, Limit: b}
		switch r.Intn(4) {
		case 0:
			sl.Start = nil
		case 1:
			sl.Limit = nil
		}
		if c.N == 0 && sl.Start != nil { // known finding: empty table, non-nil Start
			sl.Start = nil
		}
		return sl
	}
	burst := 2*c.RI + 3
	for rep := 0; rep < 3; rep++ {
		var sl *util.Range
		if rep > 0 {
			sl = randSlice()
		}
		// a. the index block
		outer := rd.NewIterator(sl, nil)
		idx := indexOf(outer)
		if idx == nil {
			outer.Release()
			s.Note("C13: the index field of the table iterator is not reachable; blockIter walks are skipped")
			return
		}
		tok := ""
		if sl != nil {
			tok = sliceTok(sl, true)
		}
		mv, an, bad := walk(idx, r, qs, 30+r.Intn(30), 4)
		emit("index", 1, indexHex, tok, mv, an, bad)
		// b. data blocks: position the index, take a fresh data blockIter from Get()
		var hFirst, hLast []byte
		if idx.First() {
			hFirst = append([]byte{}, idx.Value()...)
		}
		if idx.Last() {
			hLast = append([]byte{}, idx.Value()...)
		}
		for _, how := range []string{"F", "L", "S"} {
			var ok bool
			switch how {
			case "F":
				ok = idx.First()
			case "L":
				ok = idx.Last()
			default:
				ok = idx.Seek(qs[r.Intn(len(qs))])
			}
			if !ok {
				continue
			}
			h := append([]byte{}, idx.Value()...)
			off, ln := parseHandle(h)
			known := false
			for _, b := range dataBlks {
				if b.off == off && b.ln == ln {
					known = true
				}
			}
			if !known {
				viol("blockiter-handle", "index entry does not name a data block: %d:%d", off, ln)
				continue
			}
			dtok := ""
			if sl != nil && (bytes.Equal(h, hFirst) || bytes.Equal(h, hLast)) {
				dtok = sliceTok(sl, false)
			}
			data := idx.Get()
			if data == nil {
				continue
			}
			mv, an, bad := walk(data, r, qs, 30+r.Intn(40), burst)
			data.Release()
			emit("data", c.RI, hx(rawBlock(file, off, ln)), dtok, mv, an, bad)
		}
		outer.Release()
		// c. single data block: the same walk through the public iterator only
		if len(dataBlks) == 1 {
			pub := rd.NewIterator(sl, nil)
			mv, an, bad := walk(pub, r, qs, 30+r.Intn(40), burst)
			pub.Release()
			ptok := ""
			if sl != nil {
				ptok = sliceTok(sl, false)
			}
			emit("public single-block", c.RI, hx(rawBlock(file, dataBlks[0].off, dataBlks[0].ln)), ptok, mv, an, bad)
		}
	}
}
