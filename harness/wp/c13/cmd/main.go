// Standalone runner of the C13 generator: collects the driver lines, pipes them through gldriver in batches
// (the driver flushes only at end of input) and compares line by line.
//
//	go run ./wp/c13/cmd -driver /path/to/gldriver [-n 700] [-seed 1]
package main

import (
	"flag"
	"fmt"
	"math/rand"
	"os"
	"os/exec"
	"strings"

	"verif/harness/wp"
	wpc13 "verif/harness/wp/c13"
)

func main() {
	drv := flag.String("driver", "", "path to gldriver")
	n := flag.Int("n", 700, "number of tables")
	seed := flag.Int64("seed", 1, "seed")
	flag.Parse()
	if *drv == "" {
		fmt.Println("need -driver")
		os.Exit(2)
	}
	var ops, exps []string
	lines, mism, viols := 0, 0, 0
	flush := func() {
		if len(ops) == 0 {
			return
		}
		cmd := exec.Command(*drv)
		cmd.Stdin = strings.NewReader(strings.Join(ops, "\n") + "\n")
		cmd.Stderr = os.Stderr
		out, err := cmd.Output()
		if err != nil {
			fmt.Println("driver:", err)
			os.Exit(2)
		}
		res := strings.Split(strings.TrimRight(string(out), "\n"), "\n")
		if len(res) != len(ops) {
			fmt.Printf("driver answered %d lines for %d\n", len(res), len(ops))
			os.Exit(2)
		}
		for i := range ops {
			lines++
			if res[i] != exps[i] {
				mism++
				if mism <= 10 {
					cut := func(s string) string {
						if len(s) > 300 {
							return s[:300] + "…"
						}
						return s
					}
					fmt.Printf("VIOLATION C13 model/implementation mismatch\n  line:   %s\n  impl:   %s\n  model:  %s\n", cut(ops[i]), cut(exps[i]), cut(res[i]))
				}
			}
		}
		ops, exps = ops[:0], exps[:0]
	}
	size := 0
	s := wp.Discard()
	s.Emit = func(op, expect string) {
		ops = append(ops, op)
		exps = append(exps, expect)
		size += len(op)
		if size > 8<<20 {
			flush()
			size = 0
		}
	}
	s.Violate = func(sig, msg string, replay interface{}) {
		viols++
		if viols <= 10 {
			fmt.Printf("VIOLATION %s: %s\n", sig, msg)
		}
	}
	s.Note = func(format string, a ...interface{}) { fmt.Printf(format+"\n", a...) }
	sz := wpc13.DefaultSizes()
	sz.Tables = *n
	st := wpc13.Run(rand.New(rand.NewSource(*seed)), sz, s)
	flush()
	fmt.Printf("c13: tables=%d (multi-block=%d, with-filter=%d, >20kB=%d) file-bytes=%d read-ops=%d (x2 readers) compressed=%d (blocks=%d) snappy-streams=%d (rejected by Go: %d) damaged-files=%d damage-ops=%d blockiter-walks=%d (sliced %d, moves %d) driver-lines=%d mismatches=%d oracle-violations=%d\n",
		st.Tables, st.MultiBlock, st.WithFilter, st.Big, st.FileBytes, st.ReadOps, st.Compressed, st.CompressedBlocks, st.SnappyStreams, st.SnappyBad, st.Damaged, st.DamageOps, st.BiterWalks, st.BiterSliced, st.BiterMoves, lines, mism, viols)
	if mism > 0 || viols > 0 {
		os.Exit(1)
	}
}
