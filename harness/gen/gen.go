// Package gen holds the generators shared by the checks: keys, values, comparers, option sets.
package gen

import (
	"bytes"
	"fmt"

	"github.com/syndtr/goleveldb/leveldb/comparer"
	"github.com/syndtr/goleveldb/leveldb/filter"
	"github.com/syndtr/goleveldb/leveldb/opt"

	"verif/harness/rng"
)

// ---- keys and values ----------------------------------------------------------------------

// Key draws a user key from a small alphabet with shared prefixes, the empty key, 0x00/0xff runs.
func Key(r *rng.R, maxLen int) []byte {
	switch r.Intn(12) {
	case 0:
		return []byte{}
	case 1:
		return bytes.Repeat([]byte{0xff}, 1+r.Intn(3))
	case 2:
		return bytes.Repeat([]byte{0x00}, 1+r.Intn(3))
	}
	n := r.Intn(maxLen + 1)
	b := make([]byte, n)
	const alpha = "ab\x00\xffk"
	for i := range b {
		b[i] = alpha[r.Intn(len(alpha))]
	}
	return b
}

// KeyFrom draws from a fixed small universe (so that overwrites and deletes hit existing keys).
func KeyFrom(r *rng.R, universe [][]byte) []byte { return universe[r.Intn(len(universe))] }

func Universe(r *rng.R, n, maxLen int) [][]byte {
	seen := map[string]bool{}
	var u [][]byte
	for tries := 0; len(u) < n && tries < 8*n+16; tries++ {
		k := Key(r, maxLen)
		if !seen[string(k)] {
			seen[string(k)] = true
			u = append(u, k)
		}
	}
	return u
}

// Value draws a value; sizes are biased to small, with some larger than `big`.
func Value(r *rng.R, big int) []byte {
	var n int
	switch r.Intn(10) {
	case 0:
		n = 0
	case 1:
		n = big + r.Intn(big+1)
	case 2, 3:
		n = r.Intn(big/2 + 1)
	default:
		n = r.Intn(40)
	}
	b := make([]byte, n)
	c := byte('A' + r.Intn(26))
	for i := range b {
		b[i] = c + byte(i%7)
	}
	return b
}

// ---- comparers ------------------------------------------------------------------------------

type cmpImpl struct {
	name string
	cmp  func(a, b []byte) int
	sep  func(dst, a, b []byte) []byte
	succ func(dst, b []byte) []byte
}

func (c *cmpImpl) Compare(a, b []byte) int           { return c.cmp(a, b) }
func (c *cmpImpl) Name() string                      { return c.name }
func (c *cmpImpl) Separator(dst, a, b []byte) []byte { return c.sep(dst, a, b) }
func (c *cmpImpl) Successor(dst, b []byte) []byte    { return c.succ(dst, b) }

func nilSep(dst, a, b []byte) []byte { return nil }
func nilSucc(dst, b []byte) []byte   { return nil }

func lenFirst(a, b []byte) int {
	if len(a) != len(b) {
		if len(a) < len(b) {
			return -1
		}
		return 1
	}
	return bytes.Compare(a, b)
}

// CmpIDs are the comparer ids known to both the harness and the Lean driver (Driver/Key.lean).
var CmpIDs = []string{"bytewise", "reverse", "lenfirst", "nilsep", "unshort"}

func Comparer(id string) comparer.Comparer {
	switch id {
	case "bytewise":
		return comparer.DefaultComparer
	case "reverse":
		return &cmpImpl{"verif.reverse", func(a, b []byte) int { return bytes.Compare(b, a) }, nilSep, nilSucc}
	case "lenfirst":
		return &cmpImpl{"verif.lenfirst", lenFirst, nilSep, nilSucc}
	case "nilsep":
		return &cmpImpl{"verif.nilsep", bytes.Compare, nilSep, nilSucc}
	case "blankins":
		// NOT injective: trailing blanks are ignored, and Separator returns the canonical (trimmed) spelling of
		// `a`, which compares equal to `a` — allowed by "a <= x < b".  Used only by implementation-side law checks.
		trim := func(x []byte) []byte { return bytes.TrimRight(x, " ") }
		return &cmpImpl{"verif.blankins", func(a, b []byte) int { return bytes.Compare(trim(a), trim(b)) },
			func(dst, a, b []byte) []byte {
				ta := trim(a)
				if len(ta) < len(a) && bytes.Compare(ta, trim(b)) < 0 {
					return append(dst, ta...)
				}
				return nil
			}, nilSucc}
	case "unshort":
		return &cmpImpl{"verif.unshort", bytes.Compare,
			func(dst, a, b []byte) []byte { return append(dst, a...) },
			func(dst, b []byte) []byte { return append(dst, b...) }}
	}
	panic("unknown comparer " + id)
}

// ---- options --------------------------------------------------------------------------------

// Opts is a replayable description of an option set.
type Opts struct {
	Cmp                 string  `json:"cmp"`
	WriteBuffer         int     `json:"write_buffer"`
	TableSize           int     `json:"table_size"`
	TotalSize           int     `json:"total_size"`
	BlockSize           int     `json:"block_size"`
	Restart             int     `json:"restart"`
	L0Trigger           int     `json:"l0_trigger"`
	Compression         int     `json:"compression"` // 1 none, 2 snappy
	FilterBits          int     `json:"filter_bits"` // 0 = none
	FilterBaseLg        int     `json:"filter_base_lg"`
	OpenFiles           int     `json:"open_files"`
	BlockCache          int     `json:"block_cache"` // -1 disabled
	DisableBufferPool   bool    `json:"disable_buffer_pool"`
	DisableSeeks        bool    `json:"disable_seeks"`
	NoWriteMerge        bool    `json:"no_write_merge"`
	DisableLargeBatchTx bool    `json:"disable_large_batch_tx"`
	MaxManifest         int64   `json:"max_manifest"` // 0 = default
	IterSampling        int     `json:"iter_sampling"`
	NoSync              bool    `json:"no_sync"`
	MaxMemCompLevel     int     `json:"max_mem_comp_level"`
	TotalSizeMult       float64 `json:"total_size_mult,omitempty"` // 0 = default (10): a small factor gives deep trees with little data
}

func RandOpts(r *rng.R) Opts {
	o := Opts{
		Cmp:                 "bytewise",
		WriteBuffer:         256 << uint(r.Intn(5)),
		TableSize:           256 << uint(r.Intn(4)),
		TotalSize:           1024 << uint(r.Intn(3)),
		BlockSize:           32 << uint(r.Intn(5)),
		Restart:             1 + r.Intn(4),
		L0Trigger:           2 + r.Intn(3),
		Compression:         1 + r.Intn(2),
		OpenFiles:           2 + r.Intn(10),
		DisableBufferPool:   r.Chance(1, 4),
		DisableSeeks:        r.Chance(1, 3),
		NoWriteMerge:        r.Chance(1, 4),
		DisableLargeBatchTx: r.Chance(1, 2),
		IterSampling:        r.Pick(0, 64, 1024),
		MaxMemCompLevel:     r.Pick(0, 1, 2, 2),
	}
	if r.Chance(1, 2) {
		o.FilterBits = r.Pick(1, 4, 10, 16)
		o.FilterBaseLg = r.Pick(4, 6, 8, 11)
	}
	switch r.Intn(3) {
	case 0:
		o.BlockCache = -1
	case 1:
		o.BlockCache = 4096
	default:
		o.BlockCache = 0 // default
	}
	if r.Chance(1, 3) {
		o.MaxManifest = int64(64 << uint(r.Intn(6)))
	}
	if r.Chance(1, 2) {
		o.TotalSizeMult = []float64{1.2, 1.5, 2, 3}[r.Intn(4)]
	}
	return o
}

func (o Opts) Options() *opt.Options {
	oo := &opt.Options{
		Comparer:                     Comparer(o.Cmp),
		WriteBuffer:                  o.WriteBuffer,
		CompactionTableSize:          o.TableSize,
		CompactionTotalSize:          o.TotalSize,
		BlockSize:                    o.BlockSize,
		BlockRestartInterval:         o.Restart,
		CompactionL0Trigger:          o.L0Trigger,
		Compression:                  opt.Compression(o.Compression),
		OpenFilesCacheCapacity:       o.OpenFiles,
		DisableBufferPool:            o.DisableBufferPool,
		DisableSeeksCompaction:       o.DisableSeeks,
		NoWriteMerge:                 o.NoWriteMerge,
		DisableLargeBatchTransaction: o.DisableLargeBatchTx,
		IteratorSamplingRate:         o.IterSampling,
		NoSync:                       o.NoSync,
	}
	if o.FilterBits > 0 {
		oo.Filter = filter.NewBloomFilter(o.FilterBits)
		oo.FilterBaseLg = o.FilterBaseLg
	}
	if o.BlockCache < 0 {
		oo.DisableBlockCache = true
	} else if o.BlockCache > 0 {
		oo.BlockCacheCapacity = o.BlockCache
	}
	if o.MaxManifest > 0 {
		oo.MaxManifestFileSize = o.MaxManifest
	}
	if o.TotalSizeMult > 0 {
		oo.CompactionTotalSizeMultiplier = o.TotalSizeMult
	}
	return oo
}

// Hex renders bytes for replays ("-" for empty), like the Lean driver's fields.
func Hex(b []byte) string {
	if len(b) == 0 {
		return "-"
	}
	return fmt.Sprintf("%x", b)
}
