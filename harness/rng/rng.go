// Package rng is the single source of randomness of the harness: a splitmix64 stream derived from
// VERIF_SEED, so that every generated case replays exactly.
package rng

type R struct{ s uint64 }

// New mixes the seed so that consecutive seeds give unrelated streams.
func New(seed uint64) *R {
	z := seed + 0x9E3779B97F4A7C15
	z = (z ^ (z >> 30)) * 0xBF58476D1CE4E5B9
	z = (z ^ (z >> 27)) * 0x94D049BB133111EB
	return &R{s: z ^ (z >> 31)}
}

func (r *R) U64() uint64 {
	r.s += 0x9E3779B97F4A7C15
	z := r.s
	z = (z ^ (z >> 30)) * 0xBF58476D1CE4E5B9
	z = (z ^ (z >> 27)) * 0x94D049BB133111EB
	return z ^ (z >> 31)
}

// Intn returns a value in [0,n); n ≤ 0 yields 0.
func (r *R) Intn(n int) int {
	if n <= 0 {
		return 0
	}
	return int(r.U64() % uint64(n))
}

func (r *R) Bool() bool { return r.U64()&1 == 1 }

// Chance is true with probability num/den.
func (r *R) Chance(num, den int) bool { return r.Intn(den) < num }

// Fork derives an independent stream (for sub-cases) without disturbing the replay of the parent.
func (r *R) Fork() *R { return New(r.U64()) }

func (r *R) Bytes(n int) []byte {
	b := make([]byte, n)
	for i := range b {
		b[i] = byte(r.U64())
	}
	return b
}

// Pick returns one of the given ints.
func (r *R) Pick(xs ...int) int { return xs[r.Intn(len(xs))] }
