// Package stor is the checker-supplied storage.Storage: an in-memory file system that records every
// operation, keeps a synced prefix per file (so that any admissible post-crash image can be
// materialised at any point), can fail any operation (with or without effect), and keeps the bytes of
// removed files so that the checker can still read tables that a compaction consumed.
package stor

import (
	"bytes"
	"errors"
	"fmt"
	"os"
	"sort"
	"sync"
	"time"

	"github.com/syndtr/goleveldb/leveldb/storage"

	"verif/harness/rng"
)

type Kind string

const (
	OpCreate  Kind = "create"
	OpWrite   Kind = "write"
	OpSync    Kind = "sync"
	OpClose   Kind = "close"
	OpRemove  Kind = "remove"
	OpRename  Kind = "rename"
	OpSetMeta Kind = "setmeta"
	OpOpen    Kind = "open"
	OpRead    Kind = "read"
	OpList    Kind = "list"
	OpGetMeta Kind = "getmeta"
	OpLock    Kind = "lock"
	OpUnlock  Kind = "unlock"
)

// Mutating reports whether an operation kind changes what is stored.
func (k Kind) Mutating() bool {
	switch k {
	case OpCreate, OpWrite, OpSync, OpRemove, OpRename, OpSetMeta:
		return true
	}
	return false
}

type Op struct {
	Seq  int              `json:"seq"`
	Kind Kind             `json:"kind"`
	Fd   storage.FileDesc `json:"fd"`
	N    int              `json:"n,omitempty"`
	Err  string           `json:"err,omitempty"`
}

func (o Op) String() string {
	return fmt.Sprintf("#%d %s %s-%d n=%d %s", o.Seq, o.Kind, ftName(o.Fd.Type), o.Fd.Num, o.N, o.Err)
}

func ftName(t storage.FileType) string {
	switch t {
	case storage.TypeManifest:
		return "manifest"
	case storage.TypeJournal:
		return "journal"
	case storage.TypeTable:
		return "table"
	case storage.TypeTemp:
		return "temp"
	}
	return "none"
}

func FtName(t storage.FileType) string { return ftName(t) }

// FaultMode says what an injected failure does.
type FaultMode int

const (
	NoFault FaultMode = iota
	FailNoEffect
	FailWithEffect // the operation takes effect (e.g. bytes reach the file) but an error is returned
)

var ErrInjected = errors.New("verif: injected storage error")

type File struct {
	Data   []byte
	Synced int
	Open   bool
}

type Stor struct {
	mu      sync.Mutex
	files   map[storage.FileDesc]*File
	grave   map[storage.FileDesc][]byte // last contents of removed files
	meta    storage.FileDesc
	hasMeta bool
	locked  bool
	// renameTo is the destination of the Rename being announced to the hooks (zero otherwise).
	renameTo storage.FileDesc
	ops     []Op
	keepOps bool
	nops    int
	nmut    int

	// Fault, when set, is asked before every operation (with mu held).
	Fault func(op Op) FaultMode
	// Before, when set, is called before every mutating operation is applied (with mu held): the
	// place to take crash images.
	Before func(s *Stor, op Op)
	// ListOrder: 0 ascending by (type, number), 1 descending, 2 a fixed scrambled order.
	ListOrder int
	// Delay, when set, is asked (outside the lock) how many milliseconds to stall an operation.
	Delay func(k Kind, fd storage.FileDesc) int
	// LogLines collects storage.Log lines when non-nil.
	LogLines *[]string
}

func New() *Stor {
	return &Stor{files: map[storage.FileDesc]*File{}, grave: map[storage.FileDesc][]byte{}, keepOps: true}
}

func (s *Stor) pre(k Kind, fd storage.FileDesc, n int) (Op, FaultMode) {
	op := Op{Seq: s.nops, Kind: k, Fd: fd, N: n}
	s.nops++
	if k.Mutating() {
		s.nmut++
		if s.Before != nil {
			s.Before(s, op)
		}
	}
	m := NoFault
	if s.Fault != nil {
		m = s.Fault(op)
	}
	if m != NoFault {
		op.Err = "injected"
	}
	if s.keepOps {
		s.ops = append(s.ops, op)
	}
	return op, m
}

// ---- storage.Storage ------------------------------------------------------------------------

type locker struct{ s *Stor }

func (l locker) Unlock() {
	l.s.mu.Lock()
	l.s.pre(OpUnlock, storage.FileDesc{}, 0)
	l.s.locked = false
	l.s.mu.Unlock()
}

func (s *Stor) Lock() (storage.Locker, error) {
	s.mu.Lock()
	defer s.mu.Unlock()
	s.pre(OpLock, storage.FileDesc{}, 0)
	if s.locked {
		return nil, storage.ErrLocked
	}
	s.locked = true
	return locker{s}, nil
}

func (s *Stor) Log(str string) {
	if s.LogLines != nil {
		s.mu.Lock()
		*s.LogLines = append(*s.LogLines, str)
		s.mu.Unlock()
	}
}

func (s *Stor) SetMeta(fd storage.FileDesc) error {
	s.mu.Lock()
	defer s.mu.Unlock()
	_, m := s.pre(OpSetMeta, fd, 0)
	if m == FailNoEffect {
		return ErrInjected
	}
	s.meta, s.hasMeta = fd, true
	if m == FailWithEffect {
		return ErrInjected
	}
	return nil
}

func (s *Stor) GetMeta() (storage.FileDesc, error) {
	s.mu.Lock()
	defer s.mu.Unlock()
	_, m := s.pre(OpGetMeta, storage.FileDesc{}, 0)
	if m != NoFault {
		return storage.FileDesc{}, ErrInjected
	}
	if !s.hasMeta {
		return storage.FileDesc{}, os.ErrNotExist
	}
	return s.meta, nil
}

func (s *Stor) List(ft storage.FileType) ([]storage.FileDesc, error) {
	s.mu.Lock()
	defer s.mu.Unlock()
	_, m := s.pre(OpList, storage.FileDesc{Type: ft}, 0)
	if m != NoFault {
		return nil, ErrInjected
	}
	var fds []storage.FileDesc
	for fd := range s.files {
		if fd.Type&ft != 0 {
			fds = append(fds, fd)
		}
	}
	sort.Slice(fds, func(i, j int) bool {
		if fds[i].Type != fds[j].Type {
			return fds[i].Type < fds[j].Type
		}
		return fds[i].Num < fds[j].Num
	})
	// the Storage contract promises no order
	switch s.ListOrder {
	case 1:
		for i, j := 0, len(fds)-1; i < j; i, j = i+1, j-1 {
			fds[i], fds[j] = fds[j], fds[i]
		}
	case 2:
		h := func(fd storage.FileDesc) uint32 { return uint32(fd.Num)*2654435761 ^ uint32(fd.Type)*40503 }
		sort.Slice(fds, func(i, j int) bool { return h(fds[i]) < h(fds[j]) })
	}
	return fds, nil
}

type reader struct {
	*bytes.Reader
	s  *Stor
	fd storage.FileDesc
}

func (r *reader) Close() error { return nil }

func (r *reader) Read(p []byte) (int, error) {
	r.s.mu.Lock()
	_, m := r.s.pre(OpRead, r.fd, len(p))
	r.s.mu.Unlock()
	if m != NoFault {
		return 0, ErrInjected
	}
	return r.Reader.Read(p)
}

func (r *reader) ReadAt(p []byte, off int64) (int, error) {
	r.s.mu.Lock()
	_, m := r.s.pre(OpRead, r.fd, len(p))
	r.s.mu.Unlock()
	if m != NoFault {
		return 0, ErrInjected
	}
	return r.Reader.ReadAt(p, off)
}

func (s *Stor) Open(fd storage.FileDesc) (storage.Reader, error) {
	s.mu.Lock()
	defer s.mu.Unlock()
	_, m := s.pre(OpOpen, fd, 0)
	if m != NoFault {
		return nil, ErrInjected
	}
	f, ok := s.files[fd]
	if !ok {
		return nil, os.ErrNotExist
	}
	return &reader{bytes.NewReader(append([]byte(nil), f.Data...)), s, fd}, nil
}

type writer struct {
	s      *Stor
	fd     storage.FileDesc
	f      *File
	closed bool
}

func (w *writer) Write(p []byte) (int, error) {
	if d := w.s.Delay; d != nil {
		if ms := d(OpWrite, w.fd); ms > 0 {
			time.Sleep(time.Duration(ms) * time.Millisecond)
		}
	}
	w.s.mu.Lock()
	defer w.s.mu.Unlock()
	_, m := w.s.pre(OpWrite, w.fd, len(p))
	if m == FailNoEffect {
		return 0, ErrInjected
	}
	w.f.Data = append(w.f.Data, p...)
	if m == FailWithEffect {
		return len(p), ErrInjected
	}
	return len(p), nil
}

func (w *writer) Sync() error {
	if d := w.s.Delay; d != nil {
		if ms := d(OpSync, w.fd); ms > 0 {
			time.Sleep(time.Duration(ms) * time.Millisecond)
		}
	}
	w.s.mu.Lock()
	defer w.s.mu.Unlock()
	_, m := w.s.pre(OpSync, w.fd, 0)
	if m == FailNoEffect {
		return ErrInjected
	}
	w.f.Synced = len(w.f.Data)
	if m == FailWithEffect {
		return ErrInjected
	}
	return nil
}

func (w *writer) Close() error {
	w.s.mu.Lock()
	defer w.s.mu.Unlock()
	_, m := w.s.pre(OpClose, w.fd, 0)
	w.f.Open = false
	w.closed = true
	if m != NoFault {
		return ErrInjected
	}
	return nil
}

func (s *Stor) Create(fd storage.FileDesc) (storage.Writer, error) {
	if d := s.Delay; d != nil {
		if ms := d(OpCreate, fd); ms > 0 {
			time.Sleep(time.Duration(ms) * time.Millisecond)
		}
	}
	s.mu.Lock()
	defer s.mu.Unlock()
	_, m := s.pre(OpCreate, fd, 0)
	if m == FailNoEffect {
		return nil, ErrInjected
	}
	f := &File{Open: true}
	s.files[fd] = f
	if m == FailWithEffect {
		return nil, ErrInjected
	}
	return &writer{s: s, fd: fd, f: f}, nil
}

func (s *Stor) Remove(fd storage.FileDesc) error {
	s.mu.Lock()
	defer s.mu.Unlock()
	_, m := s.pre(OpRemove, fd, 0)
	if m == FailNoEffect {
		return ErrInjected
	}
	f, ok := s.files[fd]
	if !ok {
		return os.ErrNotExist
	}
	s.grave[fd] = f.Data
	delete(s.files, fd)
	if m == FailWithEffect {
		return ErrInjected
	}
	return nil
}

// RenameToLocked is the destination of the Rename a Before/Fault hook is being called for.
func (s *Stor) RenameToLocked() storage.FileDesc { return s.renameTo }

func (s *Stor) Rename(a, b storage.FileDesc) error {
	s.mu.Lock()
	defer s.mu.Unlock()
	s.renameTo = b
	_, m := s.pre(OpRename, a, 0)
	s.renameTo = storage.FileDesc{}
	if m == FailNoEffect {
		return ErrInjected
	}
	f, ok := s.files[a]
	if !ok {
		return os.ErrNotExist
	}
	delete(s.files, a)
	s.files[b] = f
	if m == FailWithEffect {
		return ErrInjected
	}
	return nil
}

func (s *Stor) Close() error { return nil }

// ---- checker side ---------------------------------------------------------------------------

// Ops returns a copy of the operation log.
func (s *Stor) Ops() []Op {
	s.mu.Lock()
	defer s.mu.Unlock()
	return append([]Op(nil), s.ops...)
}

func (s *Stor) NumOps() int      { s.mu.Lock(); defer s.mu.Unlock(); return s.nops }
func (s *Stor) NumMutating() int { s.mu.Lock(); defer s.mu.Unlock(); return s.nmut }
func (s *Stor) KeepOps(b bool)   { s.mu.Lock(); s.keepOps = b; s.mu.Unlock() }
func (s *Stor) IsLocked() bool   { s.mu.Lock(); defer s.mu.Unlock(); return s.locked }

// SetHooks installs the hooks under the lock.
func (s *Stor) SetHooks(fault func(op Op) FaultMode, before func(s *Stor, op Op)) {
	s.mu.Lock()
	s.Fault, s.Before = fault, before
	s.mu.Unlock()
}

// FileBytes returns the current (or, for a removed file, the last) contents of a file.
func (s *Stor) FileBytes(fd storage.FileDesc) ([]byte, bool) {
	s.mu.Lock()
	defer s.mu.Unlock()
	if f, ok := s.files[fd]; ok {
		return append([]byte(nil), f.Data...), true
	}
	if b, ok := s.grave[fd]; ok {
		return append([]byte(nil), b...), true
	}
	return nil, false
}

// Files lists the files present now.
func (s *Stor) Files() []storage.FileDesc {
	s.mu.Lock()
	defer s.mu.Unlock()
	var fds []storage.FileDesc
	for fd := range s.files {
		fds = append(fds, fd)
	}
	sort.Slice(fds, func(i, j int) bool {
		if fds[i].Type != fds[j].Type {
			return fds[i].Type < fds[j].Type
		}
		return fds[i].Num < fds[j].Num
	})
	return fds
}

func (s *Stor) Meta() (storage.FileDesc, bool) {
	s.mu.Lock()
	defer s.mu.Unlock()
	return s.meta, s.hasMeta
}

// TotalBytes is the space currently used.
func (s *Stor) TotalBytes() int {
	s.mu.Lock()
	defer s.mu.Unlock()
	n := 0
	for _, f := range s.files {
		n += len(f.Data)
	}
	return n
}

// Clone copies the storage as it is (a clean copy: everything counts as synced, unlocked).
func (s *Stor) Clone() *Stor {
	s.mu.Lock()
	defer s.mu.Unlock()
	return s.imageLocked(nil)
}

// TailPolicy says what a crash does to the unsynced tail of one file.
type TailPolicy int

const (
	TailLost TailPolicy = iota
	TailKept
	TailCut
	TailCutZeros
	TailCutGarbage
)

// ImageLocked materialises one admissible post-crash image; it must be called with the storage lock
// held, i.e. from a Before hook.  r == nil keeps everything.
func (s *Stor) ImageLocked(r *rng.R) *Stor { return s.imageLocked(r) }

// Image is ImageLocked for callers outside a hook.
func (s *Stor) Image(r *rng.R) *Stor {
	s.mu.Lock()
	defer s.mu.Unlock()
	return s.imageLocked(r)
}

func (s *Stor) imageLocked(r *rng.R) *Stor {
	n := New()
	n.ListOrder = s.ListOrder
	n.meta, n.hasMeta = s.meta, s.hasMeta
	// deterministic order
	fds := make([]storage.FileDesc, 0, len(s.files))
	for fd := range s.files {
		fds = append(fds, fd)
	}
	sort.Slice(fds, func(i, j int) bool {
		if fds[i].Type != fds[j].Type {
			return fds[i].Type < fds[j].Type
		}
		return fds[i].Num < fds[j].Num
	})
	for _, fd := range fds {
		f := s.files[fd]
		nf := &File{}
		if r == nil {
			nf.Data = append([]byte(nil), f.Data...)
		} else {
			tail := f.Data[f.Synced:]
			pol := TailPolicy(r.Intn(5))
			if len(tail) == 0 && !f.Open && pol >= TailCutZeros {
				// nothing was in flight for this file: a crash cannot grow it
				pol = TailKept
			}
			c := 0
			if len(tail) > 0 {
				c = r.Intn(len(tail) + 1)
			}
			switch pol {
			case TailLost:
				nf.Data = append([]byte(nil), f.Data[:f.Synced]...)
			case TailKept:
				nf.Data = append([]byte(nil), f.Data...)
			case TailCut:
				nf.Data = append([]byte(nil), f.Data[:f.Synced+c]...)
			case TailCutZeros:
				nf.Data = append([]byte(nil), f.Data[:f.Synced+c]...)
				if fd.Type != storage.TypeTable {
					nf.Data = append(nf.Data, make([]byte, r.Intn(64))...)
				}
			case TailCutGarbage:
				nf.Data = append([]byte(nil), f.Data[:f.Synced+c]...)
				if fd.Type != storage.TypeTable {
					nf.Data = append(nf.Data, r.Bytes(r.Intn(40))...)
				}
			}
		}
		nf.Synced = len(nf.Data)
		n.files[fd] = nf
	}
	return n
}

// PutFile overwrites a file (used to damage or remove files between runs).
func (s *Stor) PutFile(fd storage.FileDesc, data []byte) {
	s.mu.Lock()
	s.files[fd] = &File{Data: append([]byte(nil), data...), Synced: len(data)}
	s.mu.Unlock()
}

func (s *Stor) DeleteFile(fd storage.FileDesc) {
	s.mu.Lock()
	delete(s.files, fd)
	s.mu.Unlock()
}

func (s *Stor) ClearMeta() { s.mu.Lock(); s.hasMeta = false; s.mu.Unlock() }

// ForceUnlock drops the lock (a crashed process does not unlock).
func (s *Stor) ForceUnlock() { s.mu.Lock(); s.locked = false; s.mu.Unlock() }
