package checks

import (
	"fmt"
	"sort"
	"strings"

	"github.com/syndtr/goleveldb/leveldb/cache"

	"verif/harness/rng"
)

// C17: the cache map + LRU.  (a) sequential differential against Model/Cache.lean through the `cache …` line
// protocol (Driver/Cache.lean); (b) concurrent stress with implementation-side oracles (c17conc.go).

func init() { Registry["C17"] = runC17 }

// c17rec collects what ran during one sequential call.
type c17rec struct {
	fin, del []int
	ctor     bool
}

type c17val struct {
	id  int
	rec *c17rec
	n   int // times finalised
}

func (v *c17val) Release() {
	v.n++
	v.rec.fin = append(v.rec.fin, v.id)
}

func intsStr(x []int) string {
	sort.Ints(x)
	s := make([]string, len(x))
	for i, v := range x {
		s[i] = fmt.Sprint(v)
	}
	return strings.Join(s, ",")
}

type c17seq struct {
	c       *Ctx
	cc      *cache.Cache
	rec     c17rec
	hs      []*cache.Handle
	live    []int // handle numbers not yet released
	vals    []*c17val
	nextDel int
	delRuns map[int]int
	ops     []string // replay
	flags   map[string]bool
	closed  bool
	noClose bool
	capNow  int
	tstats  string // buckets/grow/shrink of the hash table, as of the last call before Close
	kmap    []uint64 // key index -> key (nil = identity); skewed sequences map every index into one bucket
}

func (q *c17seq) keyOf(i int) uint64 {
	if q.kmap == nil {
		return uint64(i)
	}
	return q.kmap[i]
}

// c17murmur is murmur32 of leveldb/cache/cache.go (unexported there), used only to pick keys that collide in the
// low bits so that the overflow-driven growth of the table (mOverflowThreshold / mOverflowGrowThreshold) happens.
func c17murmur(ns, key uint64, seed uint32) uint32 {
	const m = uint32(0x5bd1e995)
	mix := func(k uint32) uint32 { k *= m; k ^= k >> 24; k *= m; return k }
	h := seed
	for _, k := range []uint32{uint32(ns >> 32), uint32(ns), uint32(key >> 32), uint32(key)} {
		h *= m
		h ^= mix(k)
	}
	h ^= h >> 13
	h *= m
	h ^= h >> 15
	return h
}

// c17SkewKeys returns n keys of namespace 0 whose hash has the given low `bits` bits equal to `want`.
func c17SkewKeys(n int, bits uint, want uint32, start uint64) []uint64 {
	var ks []uint64
	for k := start; len(ks) < n; k++ {
		if c17murmur(0, k, 0xf00)&((1<<bits)-1) == want {
			ks = append(ks, k)
		}
	}
	return ks
}

// stats must be read before Close: GetStats dereferences the table head, which Close sets to nil.
func (q *c17seq) stats() {
	st := q.cc.GetStats()
	q.c.Res.CountN("table", "grow", int(st.GrowCount))
	q.c.Res.CountN("table", "shrink", int(st.ShrinkCount))
	q.c.Res.CountN("stats", "hit", int(st.HitCount))
	q.c.Res.CountN("stats", "miss", int(st.MissCount))
}

func (q *c17seq) tail(ctor bool) string {
	cflag := 0
	if ctor {
		cflag = 1
	}
	s := fmt.Sprintf(" c%d f[%s] d[%s] n%d s%d", cflag, intsStr(q.rec.fin), intsStr(q.rec.del), q.cc.Nodes(), q.cc.Size())
	// the hash table itself, answered on the Lean side by Model/CacheTable.lean (GetStats dereferences the table
	// head, which Close sets to nil: after Close the table is not touched any more and the last reading stands)
	if !q.closed {
		st := q.cc.GetStats()
		q.tstats = fmt.Sprintf("%d/%d/%d", st.Buckets, st.GrowCount, st.ShrinkCount)
	}
	s += fmt.Sprintf(" t%d/%s", q.cc.Nodes(), q.tstats)
	return s
}

func (q *c17seq) emit(op, res string) {
	q.ops = append(q.ops, op)
	q.c.Lean("cache "+op, res+q.tail(q.rec.ctor))
	if len(q.rec.fin) > 0 {
		q.flags["fin:"+strings.Fields(op)[0]] = true
	}
	if len(q.rec.del) > 0 {
		q.flags["delf:"+strings.Fields(op)[0]] = true
	}
	for _, v := range q.rec.fin {
		if q.vals[v].n != 1 {
			q.c.Res.Violate("cache:finalised-twice", fmt.Sprintf("value %d finalised %d times", v, q.vals[v].n), map[string]interface{}{"ops": append([]string{}, q.ops...)})
		}
	}
	q.rec = c17rec{}
}

func (q *c17seq) step(r *rng.R, nkeys, nns int) {
	key := func() (uint64, uint64) { return uint64(r.Intn(nns)), q.keyOf(r.Intn(nkeys)) }
	x := r.Intn(1000)
	switch {
	case x < 420:
		ns, k := key()
		sf := "-"
		var f func() (int, cache.Value)
		switch y := r.Intn(20); {
		case y < 2:
		case y < 3:
			sz := r.Intn(4)
			sf = fmt.Sprintf("n%d", sz)
			f = func() (int, cache.Value) { q.rec.ctor = true; return sz, nil }
		default:
			var sz int
			switch z := r.Intn(12); {
			case z < 1:
				sz = 0
			case z < 2:
				sz = q.capNow
			case z < 3:
				sz = q.capNow + 1
			case z < 4:
				sz = q.capNow/2 + 1
			default:
				sz = 1 + r.Intn(3)
			}
			sf = fmt.Sprintf("v%d", sz)
			f = func() (int, cache.Value) {
				q.rec.ctor = true
				v := &c17val{id: len(q.vals), rec: &q.rec}
				q.vals = append(q.vals, v)
				return sz, v
			}
		}
		h := q.cc.Get(ns, k, f)
		res := "nil"
		if h != nil {
			v, _ := h.Value().(*c17val)
			if v == nil {
				res = fmt.Sprintf("h%d:nil", len(q.hs))
			} else {
				res = fmt.Sprintf("h%d:v%d", len(q.hs), v.id)
			}
			q.live = append(q.live, len(q.hs))
			q.hs = append(q.hs, h)
			if !q.rec.ctor {
				q.flags["hit"] = true
			}
		}
		q.emit(fmt.Sprintf("get %d %d %s", ns, k, sf), res)
	case x < 700:
		if len(q.hs) == 0 {
			return
		}
		var h int
		if len(q.live) > 0 && r.Chance(9, 10) {
			i := r.Intn(len(q.live))
			h = q.live[i]
			q.live = append(q.live[:i], q.live[i+1:]...)
		} else {
			h = r.Intn(len(q.hs)) // possibly a repeated release
		}
		q.hs[h].Release()
		q.emit(fmt.Sprintf("rel %d", h), "ok")
	case x < 740:
		if len(q.hs) == 0 {
			return
		}
		h := r.Intn(len(q.hs))
		res := "nil"
		if v, _ := q.hs[h].Value().(*c17val); v != nil {
			res = fmt.Sprintf("v%d", v.id)
		}
		q.emit(fmt.Sprintf("val %d", h), res)
	case x < 840:
		ns, k := key()
		w := 0
		var f func()
		if r.Bool() {
			w = 1
			d := q.nextDel
			q.nextDel++
			f = func() { q.delRuns[d]++; q.rec.del = append(q.rec.del, d) }
		}
		ok := q.cc.Delete(ns, k, f)
		if ok && len(q.rec.del) == 0 && w == 1 {
			q.flags["del-deferred"] = true
		}
		q.emit(fmt.Sprintf("del %d %d %d", ns, k, w), fmt.Sprint(ok))
	case x < 900:
		ns, k := key()
		ok := q.cc.Evict(ns, k)
		q.emit(fmt.Sprintf("evict %d %d", ns, k), fmt.Sprint(ok))
	case x < 925:
		ns := uint64(r.Intn(nns))
		q.cc.EvictNS(ns)
		q.emit(fmt.Sprintf("evictns %d", ns), "ok")
	case x < 935:
		q.cc.EvictAll()
		q.emit("evictall", "ok")
	case x < 965:
		c := r.Pick(0, 1, 2, 3, 5, 8, 13, 40, nkeys, 2*nkeys)
		q.cc.SetCapacity(c)
		q.capNow = c
		q.emit(fmt.Sprintf("setcap %d", c), "ok")
	case x < 968:
		if q.noClose {
			return
		}
		force := r.Intn(2)
		if !q.closed {
			q.stats()
		}
		q.cc.Close(force == 1)
		q.closed = true
		q.flags[fmt.Sprintf("close%d", force)] = true
		q.emit(fmt.Sprintf("close %d", force), "ok")
	}
}

// c17Sequence runs one random op sequence on a fresh cache.
func c17Sequence(c *Ctx, r *rng.R, nops, nkeys, nns, capacity int, big bool, kmap ...[]uint64) {
	q := &c17seq{c: c, delRuns: map[int]int{}, flags: map[string]bool{}, capNow: capacity, noClose: big}
	if len(kmap) > 0 {
		q.kmap = kmap[0]
	}
	q.cc = cache.NewCache(cache.NewLRU(capacity))
	q.tstats = fmt.Sprintf("%d/0/0", q.cc.GetStats().Buckets)
	c.Lean(fmt.Sprintf("cache new %d", capacity), "ok")
	q.ops = append(q.ops, fmt.Sprintf("new %d", capacity))
	c.Guard("cache:sequential", map[string]interface{}{"ops": q.ops}, func() {
		cycles := 1
		if big {
			cycles = 2
		}
		for cy := 0; cy < cycles; cy++ {
			if big {
				// fill past the grow threshold of the hash table, then (below) drain to shrink it
				for i := 0; i < nkeys; i++ {
					ns, k := uint64(i%nns), q.keyOf(i)
					sf := "v1"
					h := q.cc.Get(ns, k, func() (int, cache.Value) {
						q.rec.ctor = true
						v := &c17val{id: len(q.vals), rec: &q.rec}
						q.vals = append(q.vals, v)
						return 1, v
					})
					v := h.Value().(*c17val)
					res := fmt.Sprintf("h%d:v%d", len(q.hs), v.id)
					q.hs = append(q.hs, h)
					q.emit(fmt.Sprintf("get %d %d %s", ns, k, sf), res)
					if i%3 != 0 {
						h.Release()
						q.emit(fmt.Sprintf("rel %d", len(q.hs)-1), "ok")
					} else {
						q.live = append(q.live, len(q.hs)-1)
					}
				}
			}
			for i := 0; i < nops; i++ {
				q.step(r, nkeys, nns)
			}
			if big {
				q.cc.SetCapacity(nkeys + 50)
				q.capNow = nkeys + 50
				q.emit(fmt.Sprintf("setcap %d", nkeys+50), "ok")
				q.cc.EvictAll()
				q.emit("evictall", "ok")
				for _, h := range q.live {
					q.hs[h].Release()
					q.emit(fmt.Sprintf("rel %d", h), "ok")
				}
				q.live = nil
			}
		}
		// end of sequence: release everything and close; then every value was finalised once
		for _, h := range q.live {
			q.hs[h].Release()
			q.emit(fmt.Sprintf("rel %d", h), "ok")
		}
		q.live = nil
		if !q.closed {
			q.stats()
			q.cc.Close(false)
			q.closed = true
			q.emit("close 0", "ok")
		}
	})
	for _, v := range q.vals {
		if v.n != 1 {
			c.Res.Violate("cache:finalise-count", fmt.Sprintf("value %d finalised %d times after release of every handle and Close", v.id, v.n), map[string]interface{}{"ops": q.ops})
			break
		}
	}
	nontriv := q.flags["fin:get"] && q.flags["hit"]
	for f := range q.flags {
		c.Res.Count("seq-flags", f)
	}
	c.Res.Eval(fmt.Sprintf("seq/%d/%d/%d/%d/%s", nops, nkeys, capacity, len(q.ops), q.ops[len(q.ops)/2]), nontriv)
	for _, op := range q.ops {
		c.Res.Count("ops", strings.Fields(op)[0])
	}
	if len(c.Res.Samples) < 2 {
		c.Res.Sample(map[string]interface{}{"kind": "sequential", "capacity": capacity, "keys": nkeys, "first_ops": q.ops[:minInt(12, len(q.ops))]})
	}
}

func runC17(c *Ctx) {
	c.Res.Rule = "(a) random op sequences on cache.NewCache(cache.NewLRU(cap)) — Get with/without setFunc (nil-value setFuncs, charges 0/1..3/cap/cap+1), Handle.Release (also repeated), Handle.Value, Delete with/without delFunc, Evict, EvictNS, EvictAll, SetCapacity, Close(force)/Close(weak) — every call's observable outcome (handle/value identity, setFunc ran, finalisers run, delFuncs run, Nodes(), Size()) compared line by line with Model/Cache.lean; small dense key spaces plus sequences over hundreds of keys that grow and shrink the hash table, and skewed key sets (all keys in one bucket) that grow it through the overflow counter; every line is also answered by the hash-table model Model/CacheTable.lean (Nodes, bucket count, grow and shrink counts); non-trivial = a Get evicted and finalised another value and some Get was a hit; (b) concurrent stress, see c17conc.go; (c) targeted stress of Handle.Release racing with Get;Release;Close(false) — the interleaving of Lean theorem close_race_delfunc_twice: no delFunc may run twice (regression detector for D30) — and racing with Get;Close(false) while the new handle is kept — the interleaving of close_race_finalises_under_handle: the value must not be released under the outstanding handle (regression detector for D32); 3 s each in quick, 60 s each in thorough; and rounds of Get/Release workers on a cache of capacity 1 with a Close after 1-5 ms and a 10 s watchdog (regression detector for D36, the recursive read lock of unRefExternal; 2 s quick, 20 s thorough); (d) the block cache under file-number reuse on the real DB: a discarded transaction's table is removed, its number given back and used by the next table (sequentially, and with a compaction allocating inside the removal callback's window held open by a waiting LRU): reads must never be served from the removed table's blocks (D20, D50)"
	r := c.R
	nseq := c.Scale(400, 4000)
	for i := 0; i < nseq && c.TimeLeft(); i++ {
		rr := r.Fork()
		nkeys := rr.Pick(3, 6, 12, 30)
		capacity := rr.Pick(0, 1, 2, 4, 7, 12, 25)
		c17Sequence(c, rr, 120+rr.Intn(200), nkeys, 1+rr.Intn(3), capacity, false)
	}
	nbig := c.Scale(5, 50)
	for i := 0; i < nbig && c.TimeLeft(); i++ {
		rr := r.Fork()
		nkeys := 560 + rr.Intn(300)
		c17Sequence(c, rr, 150, nkeys, 1+rr.Intn(3), nkeys+rr.Intn(50), true)
	}
	// skewed key sets: every key of the sequence hashes into the same bucket of the 16-bucket table (and, for
	// half of them, of the 32-bucket table too), so the table grows through the overflow counter long before
	// the node-count threshold, and shrinks again when the sequence drains it
	nskew := c.Scale(6, 40)
	for i := 0; i < nskew && c.TimeLeft(); i++ {
		rr := r.Fork()
		nkeys := 170 + rr.Intn(260)
		bits := uint(4 + rr.Intn(3))
		ks := c17SkewKeys(nkeys, bits, uint32(rr.Intn(1<<bits)), uint64(rr.Intn(1000)))
		c17Sequence(c, rr, 150, nkeys, 1, nkeys+rr.Intn(50), true, ks)
	}
	c17Concurrent(c)
	if len(c.Res.Violations) > 0 {
		return
	}
	// (d) the block cache as the DB uses it: namespaces are file numbers, and a number given back by a removed table
	// (Transaction.Discard) names another table later — its cached blocks must be gone by then, also when a compaction
	// allocates concurrently (the scenarios of C11: c11StaleCache, sequential; c11StaleCacheRace, the held window)
	once := &crSigOnce{}
	nd := c.Scale(12, 120)
	for i := 0; i < nd && c.TimeLeft() && len(c.Res.Violations) == 0; i++ {
		rr := r.Fork()
		c.Guard("block-cache-namespace:harness", i, func() { c11StaleCache(c, once, rr, i) })
	}
	if len(c.Res.Violations) == 0 {
		c11StaleCacheRace(c)
	}
}
