package checks

// C09 scenarios around the compaction-error goroutine and SetReadOnly (lock-flow model, Props/C09.lean:
// setReadOnly_takes_effect, persistent_error_fails_fast, hang_without_haserr_readonly_case, write_lock_lost).
//
//  E. SetReadOnly while a compaction sits in its retry loop after a transient storage error (the error goroutine is
//     in its "transient error" state): SetReadOnly must return, every write-side call issued afterwards must return,
//     Close must return — whether the failures go on or stop right after SetReadOnly (then the retry succeeds and
//     reports nil to the error goroutine), with and without back-off, and with Close started while SetReadOnly is
//     between its two selects.  C09's oracle: every call returns under the watchdog.
//  F. the interleaving `write_lock_lost` of the model on the real code (defect repaired by 832d000; kept as a
//     regression detector): a table compaction reports a corruption while SetReadOnly is between its two selects
//     (yield point s.readonly.locked), then Close starts (before 832d000 it ran to completion at this point; now it
//     waits for SetReadOnly's token), then SetReadOnly resumes.  Oracle: SetReadOnly and Close return, and once
//     Close has returned the write-lock token stays in writeLockC (Close keeps it for good); the verif export
//     VerifLocks reads it.  With VERIF_C09_CRCLOSED=1 it is also a violation when the CompactRange whose
//     compaction died of the corruption returns ErrClosed although the DB is open (finding, not a C09 clause).

import (
	"bytes"
	"fmt"
	"os"
	"sync"
	"sync/atomic"
	"time"

	"github.com/syndtr/goleveldb/leveldb"
	lerrors "github.com/syndtr/goleveldb/leveldb/errors"
	"github.com/syndtr/goleveldb/leveldb/opt"
	"github.com/syndtr/goleveldb/leveldb/storage"
	"github.com/syndtr/goleveldb/leveldb/util"

	"verif/harness/stor"
)

type c09ROCfg struct {
	Heal      bool `json:"faults_stop_after_setreadonly"`
	NoBackoff bool `json:"disable_compaction_backoff"`
	CloseRace bool `json:"close_starts_between_the_selects"`
	Flush     bool `json:"failing_memdb_flush_instead_of_table_compaction"`
}

func runC09ReadOnlyDuringRetry(c *Ctx, cfg c09ROCfg) (sig, msg string, nontrivial bool) {
	st := stor.New()
	st.KeepOps(false)
	var failing int32
	st.SetHooks(func(op stor.Op) stor.FaultMode {
		if atomic.LoadInt32(&failing) == 1 && op.Kind == stor.OpCreate && op.Fd.Type == storage.TypeTable && (cfg.Flush || inTableCompaction()) {
			return stor.FailNoEffect
		}
		return stor.NoFault
	}, nil)
	o := &opt.Options{WriteBuffer: 2 << 10, DisableCompactionBackoff: cfg.NoBackoff, CompactionTableSize: 4 << 10}
	db, err := leveldb.Open(st, o)
	if err != nil {
		return "open:error", err.Error(), false
	}
	val := func(n int) []byte { return bytes.Repeat([]byte{'v'}, n) }
	for i := 0; i < 60; i++ {
		db.Put([]byte(fmt.Sprintf("k%02d", i%25)), val(100), nil)
	}
	if !cfg.Flush {
		// tables in place, buffer empty: the failing compaction below is a table compaction
		if _, ok := watch(30*time.Second, func() error { return db.CompactRange(util.Range{}) }); !ok {
			return "ro-retry:setup:hang", "CompactRange without faults did not return\n" + dumpBlocked(), false
		}
		for i := 0; i < 12; i++ {
			db.Put([]byte(fmt.Sprintf("k%02d", i)), val(100), nil)
		}
	}
	leveldb.VerifWaitIdle(db)
	atomic.StoreInt32(&failing, 1)
	if cfg.Flush {
		db.Put([]byte("k-flush"), val(100), nil)
	}
	// a compaction that cannot create its output: CompactRange returns the transient error, the compaction
	// goroutine stays in compactionTransact's retry loop
	cerr, ok := watch(30*time.Second, func() error { return db.CompactRange(util.Range{}) })
	if !ok {
		return "ro-retry:compactRange-under-failing-creates:hang", "CompactRange did not return\n" + dumpBlocked(), false
	}
	nontrivial = cerr != nil
	c.Res.Count("ro-retry", fmt.Sprintf("transient-error-reached=%v", nontrivial))
	closeDone := make(chan struct{})
	var once sync.Once
	if cfg.CloseRace {
		leveldb.VerifYield = func(p string) {
			if p == "s.readonly.locked" {
				once.Do(func() {
					go func() { db.Close(); close(closeDone) }()
					time.Sleep(3 * time.Millisecond)
				})
			}
		}
	}
	serr, ok := watch(30*time.Second, db.SetReadOnly)
	leveldb.VerifYield = nil
	if !ok {
		return "ro-retry:setReadOnly:hang", fmt.Sprintf("SetReadOnly called while a compaction was retrying after a transient error did not return (%+v); locks: %+v\n%s", cfg, leveldb.VerifLocks(db), dumpBlocked()), nontrivial
	}
	c.Res.Count("ro-retry", fmt.Sprintf("setReadOnly=%v", serr))
	if cfg.Heal {
		atomic.StoreInt32(&failing, 0)
		time.Sleep(20 * time.Millisecond) // let a retry succeed and report nil to the error goroutine
	}
	b := new(leveldb.Batch)
	b.Put([]byte("ro-b"), []byte("x"))
	big := new(leveldb.Batch)
	big.Put([]byte("ro-big"), val(3<<10))
	for _, a := range []c09Call{
		{"put", func() error { return db.Put([]byte("ro-p"), []byte("x"), nil) }},
		{"delete", func() error { return db.Delete([]byte("k00"), nil) }},
		{"write-sync", func() error { return db.Write(b, &opt.WriteOptions{Sync: true}) }},
		{"write-large", func() error { return db.Write(big, nil) }},
		{"transaction", func() error {
			t, err := db.OpenTransaction()
			if err == nil {
				t.Discard()
			}
			return err
		}},
		{"compact", func() error { return db.CompactRange(util.Range{}) }},
		{"get", func() error { _, err := db.Get([]byte("k01"), nil); return err }},
	} {
		err, ok := watch(30*time.Second, a.f)
		if !ok {
			return "ro-retry:" + a.name + "-after-setReadOnly:hang", fmt.Sprintf("after SetReadOnly (returned %v; called while a compaction was retrying after a transient error; %+v) %s did not return within 30 s; locks: %+v\n%s", serr, cfg, a.name, leveldb.VerifLocks(db), dumpBlocked()), nontrivial
		}
		if serr == nil && !cfg.CloseRace && a.name != "get" && err == nil {
			return "ro-retry:" + a.name + "-after-setReadOnly:succeeded", fmt.Sprintf("SetReadOnly returned nil (called while a compaction was retrying after a transient error; %+v), and a later %s succeeded", cfg, a.name), nontrivial
		}
	}
	if cfg.CloseRace {
		select {
		case <-closeDone:
		case <-time.After(30 * time.Second):
			return "ro-retry:close-racing-setReadOnly:hang", fmt.Sprintf("Close started between the two selects of SetReadOnly (compaction retrying; %+v) did not return\n%s", cfg, dumpBlocked()), nontrivial
		}
		return "", "", nontrivial
	}
	if _, ok := watch(30*time.Second, db.Close); !ok {
		return "ro-retry:close:hang", fmt.Sprintf("Close after SetReadOnly (returned %v; compaction retrying; %+v) did not return; locks: %+v\n%s", serr, cfg, leveldb.VerifLocks(db), dumpBlocked()), nontrivial
	}
	return "", "", nontrivial
}

// gateStor lets a table Open wait (without holding the storage's mutex).
type gateStor struct {
	*stor.Stor
	gate func(fd storage.FileDesc)
}

func (g *gateStor) Open(fd storage.FileDesc) (storage.Reader, error) {
	if g.gate != nil {
		g.gate(fd)
	}
	return g.Stor.Open(fd)
}

func runC09LockLost() (sig, msg string, nontrivial bool, crClosedOnOpen bool) {
	st := stor.New()
	st.KeepOps(false)
	o := &opt.Options{WriteBuffer: 4 << 10, DisableCompactionBackoff: true, CompactionTableSize: 8 << 10, DisableBlockCache: true}
	db, err := leveldb.Open(st, o)
	if err != nil {
		return "open:error", err.Error(), false, false
	}
	val := func(i int) []byte { return bytes.Repeat([]byte{byte('a' + i%26)}, 120) }
	for i := 0; i < 300; i++ {
		db.Put([]byte(fmt.Sprintf("k%03d", i%150)), val(i), nil)
	}
	db.CompactRange(util.Range{})
	db.Close()
	// damage a data block of every table (block checksums are verified by default)
	n := 0
	for _, fd := range st.Files() {
		if fd.Type != storage.TypeTable {
			continue
		}
		data, _ := st.FileBytes(fd)
		if len(data) < 200 {
			continue
		}
		d := append([]byte(nil), data...)
		d[len(d)/3] ^= 0x55
		st.PutFile(fd, d)
		n++
	}
	if n == 0 {
		return "", "scenario not reached: no table to damage", false, false
	}
	var gateOn int32
	atTable := make(chan struct{})
	srLocked := make(chan struct{})
	var onceAt sync.Once
	gs := &gateStor{Stor: st}
	gs.gate = func(fd storage.FileDesc) {
		if fd.Type == storage.TypeTable && atomic.LoadInt32(&gateOn) == 1 {
			onceAt.Do(func() { close(atTable) })
			select {
			case <-srLocked:
			case <-time.After(20 * time.Second):
			}
		}
	}
	db, err = leveldb.Open(gs, o)
	if err != nil {
		return "", "scenario not reached: Open noticed the damage: " + err.Error(), false, false
	}
	// fresh entries over the whole key range: CompactRange flushes them and compacts the new level-0 table with
	// the damaged tables below it
	for i := 0; i < 150; i += 7 {
		db.Put([]byte(fmt.Sprintf("k%03d", i)), val(i+1), nil)
	}
	atomic.StoreInt32(&gateOn, 1)
	crDone := make(chan error, 1)
	go func() { crDone <- db.CompactRange(util.Range{}) }()
	select {
	case <-atTable:
	case err := <-crDone:
		// no table was opened (nothing to compact)
		db.Close()
		return "", fmt.Sprintf("scenario not reached: CompactRange returned %v without opening a table", err), false, false
	case <-time.After(20 * time.Second):
		close(srLocked)
		return "locklost:setup:hang", "the range compaction did not reach a table\n" + dumpBlocked(), false, false
	}
	var crErr error
	persistent := false
	closeDone := make(chan struct{})
	var once sync.Once
	leveldb.VerifYield = func(p string) {
		if p != "s.readonly.locked" {
			return
		}
		once.Do(func() {
			// SetReadOnly holds the token and has set compWriteLocking: let the compaction read the damaged table
			close(srLocked)
			select {
			case crErr = <-crDone:
			case <-time.After(20 * time.Second):
				return
			}
			// CompactRange gets the corruption through compErrC, or ErrClosed from the dying tCompaction's deferred
			// ack; a Put tells whether the error goroutine is in its persistent state (it fails at once)
			perr, pok := watch(10*time.Second, func() error { return db.Put([]byte("probe"), []byte("x"), nil) })
			if !pok || !lerrors.IsCorrupted(perr) {
				return
			}
			persistent = true
			// the error goroutine is in its persistent state; Close runs until it has returned (before 832d000) or
			// waits for our token
			go func() { db.Close(); close(closeDone) }()
			select {
			case <-closeDone:
			case <-time.After(100 * time.Millisecond):
			}
		})
	}
	serr, ok := watch(60*time.Second, db.SetReadOnly)
	leveldb.VerifYield = nil
	atomic.StoreInt32(&gateOn, 0)
	if !ok {
		return "locklost:setReadOnly:hang", "SetReadOnly (a corruption was reported between its two selects, then Close started) did not return\n" + dumpBlocked(), persistent, false
	}
	crClosedOnOpen = persistent && crErr == leveldb.ErrClosed
	if !persistent {
		go db.Close()
		return "", fmt.Sprintf("scenario not reached: CompactRange=%v persistent=%v SetReadOnly=%v", crErr, persistent, serr), false, false
	}
	select {
	case <-closeDone:
	case <-time.After(30 * time.Second):
		return "locklost:close:hang", fmt.Sprintf("Close started while SetReadOnly was between its two selects (persistent error state; SetReadOnly returned %v) did not return\n%s", serr, dumpBlocked()), true, crClosedOnOpen
	}
	ls := leveldb.VerifLocks(db)
	if !ls.WriteLock {
		return "setReadOnly:corruption-then-close:write-lock-lost", fmt.Sprintf("a table compaction reported a corruption (%v) while SetReadOnly was between its two selects; Close then ran to completion and SetReadOnly returned %v; afterwards writeLockC is EMPTY although Close acquired the write lock for good: the error goroutine (persistent state, reading the compWriteLocking flag SetReadOnly had set) took SetReadOnly's token on closeC, Close acquired the lock, and SetReadOnly's closeC arm took Close's token out (model: C09.write_lock_lost)", crErr, serr), true, crClosedOnOpen
	}
	return "", "", true, crClosedOnOpen
}

func runC09ReadOnly(c *Ctx) {
	n := 0
	for _, flush := range []bool{false, true} {
		for _, heal := range []bool{true, false} {
			for _, race := range []bool{false, true} {
				cfg := c09ROCfg{Heal: heal, NoBackoff: n%2 == 0 || !c.Thorough, CloseRace: race, Flush: flush}
				n++
				if c.Hung {
					return
				}
				sig, msg, nt := runC09ReadOnlyDuringRetry(c, cfg)
				c.Res.Eval(fmt.Sprintf("ro-retry/%+v", cfg), nt)
				if sig != "" {
					c.Res.Violate(sig, msg, cfg)
					if len(sig) > 5 && sig[len(sig)-5:] == ":hang" {
						c.Hung = true
					}
				}
			}
		}
	}
	for i := 0; i < c.Scale(3, 12) && !c.Hung; i++ {
		sig, msg, nt, crClosed := runC09LockLost()
		c.Res.Eval(fmt.Sprintf("lock-lost/%d", i), nt)
		c.Res.Count("lock-lost", fmt.Sprintf("reached=%v fired=%v %s", nt, sig != "", map[bool]string{true: "", false: msg}[sig != ""]))
		c.Res.Count("lock-lost", fmt.Sprintf("CompactRange-returned-ErrClosed-on-open-db=%v", crClosed))
		if sig != "" {
			c.Res.Violate(sig, msg, map[string]interface{}{"scenario": "corruption while SetReadOnly is at the s.readonly.locked yield point, then Close", "attempt": i})
			if len(sig) > 5 && sig[len(sig)-5:] == ":hang" {
				c.Hung = true
			}
		}
		if crClosed && os.Getenv("VERIF_C09_CRCLOSED") != "" {
			c.Res.Violate("compactRange:errClosed-on-open-db:compaction-died-of-corruption", "CompactRange returned leveldb.ErrClosed although the DB was open (no Close had been called): its table compaction hit a corruption, tCompaction left through compactionExitTransact and its deferred x.ack(ErrClosed) won the race against the compErrC arm of compTriggerRange; the corruption error was available (a Put issued right afterwards returned it)", map[string]interface{}{"attempt": i})
		}
	}
}
