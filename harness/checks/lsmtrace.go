package checks

import (
	"encoding/binary"
	"bytes"
	"fmt"
	"strings"
	"sync"

	"github.com/syndtr/goleveldb/leveldb"
	"github.com/syndtr/goleveldb/leveldb/memdb"
	"github.com/syndtr/goleveldb/leveldb/opt"
	"github.com/syndtr/goleveldb/leveldb/storage"
	"github.com/syndtr/goleveldb/leveldb/table"

	"verif/harness/gen"
)

// lsmTracer turns the hook events of one DB program into `lsm …` lines for the Lean trace validator
// (lean/GoLevel/Driver/LSM.lean): every installed version, every flush, every table compaction and
// trivial move, with the contents of the table files involved read back from the recording storage, plus
// sampled state dumps with the answer DB.Get gave.
type lsmTracer struct {
	c  *Ctx
	r  *Runner
	mu sync.Mutex
	q  []traceEv

	sent     map[int64]string  // table number → identity already sent as a fact
	seen     map[string]bool   // table identities captured at an event
	files    map[string][]byte // their bytes, until sent
	snapSeqs func() []uint64
	nInstall int
	nCompact int
	nGets    int
	nScore, nScoreGE1 int
	visits             []string        // (level num) pairs of the lookup in progress
	sentVer            map[int64]bool // versions the driver knows
	nVisits, nCharged  int
	visitLens          map[int]int
	bad      bool
}

type traceEv struct {
	point string
	args  []interface{}
	mem   []leveldb.VerifEntry // c.flush: contents of the frozen buffer at the event
}

func attachTracer(c *Ctx, r *Runner) *lsmTracer {
	t := &lsmTracer{c: c, r: r, sent: map[int64]string{}, seen: map[string]bool{}, files: map[string][]byte{}}
	r.InstallSink()
	r.OnEvent = func(ev Event) {
		switch ev.Point {
		case "v.install", "c.table", "c.move":
			if ev.Point == "c.table" {
				// (L3) the compaction's minSeq must not exceed any snapshot the client holds
				if minSeq, ok := ev.Args[1].(uint64); ok {
					r.snapMu.Lock()
					for _, sq := range r.snapSeqs {
						if minSeq > sq {
							r.fail("compaction:minSeq-above-live-snapshot", fmt.Sprintf("table compaction uses minSeq %d while a snapshot at %d is held", minSeq, sq), -1)
						}
					}
					r.snapMu.Unlock()
				}
			}
			t.mu.Lock()
			t.capture(ev.Args)
			t.q = append(t.q, traceEv{point: ev.Point, args: ev.Args})
			t.mu.Unlock()
		case "g.visit", "g.done":
			t.mu.Lock()
			t.q = append(t.q, traceEv{point: ev.Point, args: ev.Args})
			t.mu.Unlock()
		case "c.flush":
			te := traceEv{point: ev.Point, args: ev.Args}
			if m, ok := ev.Args[0].(*memdb.DB); ok && m != nil {
				te.mem = leveldb.VerifMemEntries(m)
			}
			t.mu.Lock()
			t.capture(ev.Args)
			t.q = append(t.q, te)
			t.mu.Unlock()
		}
	}
	c.Lean("lsm reset "+r.P.Opts.Cmp, "ok")
	return t
}

func (t *lsmTracer) reset() {
	t.drain()
	t.sent = map[int64]string{}
	t.sentVer = map[int64]bool{}
	t.visits = nil
	t.mu.Lock()
	t.seen, t.files = map[string]bool{}, map[string][]byte{}
	t.mu.Unlock()
	t.c.Lean("lsm reset "+t.r.P.Opts.Cmp, "ok")
}

func tableID(tb leveldb.VerifTable) string {
	return fmt.Sprintf("%d/%d/%x/%x", tb.Num, tb.Size, tb.Imin, tb.Imax)
}

// capture copies, at the time of the event (in the goroutine of the DB, t.mu held), the bytes of every table the
// event names and that was not seen before: a removed table's file number may be handed out again
// (tOps.remove -> reuseFileNum) before the client goroutine drains the queue.
func (t *lsmTracer) capture(args []interface{}) {
	one := func(tb leveldb.VerifTable) {
		id := tableID(tb)
		if t.seen[id] {
			return
		}
		if b, ok := t.r.St.FileBytes(storage.FileDesc{Type: storage.TypeTable, Num: tb.Num}); ok && int64(len(b)) == tb.Size {
			t.seen[id] = true
			t.files[id] = b
		}
	}
	for _, a := range args {
		switch x := a.(type) {
		case *leveldb.VerifVersion:
			if x != nil {
				for _, l := range x.Levels {
					for _, tb := range l {
						one(tb)
					}
				}
			}
		case *leveldb.VerifRecord:
			if x != nil {
				for _, tb := range x.Added {
					one(tb)
				}
			}
		case []leveldb.VerifTable:
			for _, tb := range x {
				one(tb)
			}
		}
	}
}

// readTable decodes the bytes of a table captured at its event.
func (t *lsmTracer) readTable(tb leveldb.VerifTable) ([]leveldb.VerifEntry, bool) {
	id := tableID(tb)
	t.mu.Lock()
	b, ok := t.files[id]
	delete(t.files, id)
	t.mu.Unlock()
	if !ok {
		// not captured (named only by a dump): the live file, if it is that table
		if b, ok = t.r.St.FileBytes(storage.FileDesc{Type: storage.TypeTable, Num: tb.Num}); !ok || int64(len(b)) != tb.Size {
			return nil, false
		}
	}
	o := &opt.Options{Comparer: leveldb.VerifIComparer(t.r.Cmp), Strict: opt.StrictAll}
	rd, err := table.NewReader(bytes.NewReader(b), int64(len(b)), storage.FileDesc{Type: storage.TypeTable, Num: tb.Num}, nil, nil, o)
	if err != nil {
		return nil, false
	}
	defer rd.Release()
	it := rd.NewIterator(nil, nil)
	defer it.Release()
	var es []leveldb.VerifEntry
	for it.Next() {
		es = append(es, leveldb.VerifEntry{IKey: cp(it.Key()), Value: cp(it.Value())})
	}
	return es, it.Error() == nil
}

func entriesStr(es []leveldb.VerifEntry) string {
	var sb strings.Builder
	fmt.Fprintf(&sb, "%d", len(es))
	for _, e := range es {
		sb.WriteByte(' ')
		sb.WriteString(gen.Hex(e.IKey))
		sb.WriteByte(' ')
		sb.WriteString(gen.Hex(e.Value))
	}
	return sb.String()
}

func (t *lsmTracer) fact(tb leveldb.VerifTable) {
	id := tableID(tb)
	if t.sent[tb.Num] == id {
		return
	}
	es, ok := t.readTable(tb)
	if !ok {
		t.c.Res.Note("table %d could not be read back from storage at its event", tb.Num)
		t.bad = true
		return
	}
	t.sent[tb.Num] = id
	t.c.Lean(fmt.Sprintf("lsm table %d %d %s %s %s", tb.Num, tb.Size, gen.Hex(tb.Imin), gen.Hex(tb.Imax), entriesStr(es)), "ok")
}

func numsStr(ts []leveldb.VerifTable) string {
	var sb strings.Builder
	fmt.Fprintf(&sb, "%d", len(ts))
	for _, x := range ts {
		fmt.Fprintf(&sb, " %d", x.Num)
	}
	return sb.String()
}

// drain emits the queued events in order; called from the client goroutine between operations.
func (t *lsmTracer) drain() {
	t.mu.Lock()
	q := t.q
	t.q = nil
	t.mu.Unlock()
	for _, ev := range q {
		if t.bad {
			return
		}
		switch ev.point {
		case "v.install":
			v, _ := ev.args[0].(*leveldb.VerifVersion)
			if v == nil {
				continue
			}
			var sb strings.Builder
			fmt.Fprintf(&sb, "lsm install %d %d", v.ID, len(v.Levels))
			for _, l := range v.Levels {
				for _, tb := range l {
					t.fact(tb)
				}
				sb.WriteByte(' ')
				sb.WriteString(numsStr(l))
			}
			if t.bad {
				return
			}
			t.c.Lean(sb.String(), "ok")
			t.nInstall++
			if t.sentVer == nil {
				t.sentVer = map[int64]bool{}
			}
			t.sentVer[v.ID] = true
			// differential tie of the scoring (lean/GoLevel/Model/Score.lean): the model's computeCompaction on this version
			// with the real trigger and level limits must leave the cLevel / cScore >= 1 the real one left
			sb.Reset()
			cl := "none"
			// a version without levels: -1 when computeCompaction ran, 0 for the initial version newVersion() made (never
			// scored); either way cScore < 1 and nobody reads cLevel
			if v.CLevel >= 0 && len(v.Levels) > 0 {
				cl = fmt.Sprint(v.CLevel)
			}
			fmt.Fprintf(&sb, "lsm score %d %d %s %v %d", v.ID, t.r.O.GetCompactionL0Trigger(), cl, v.ScoreGE1, len(v.Levels))
			for l := range v.Levels {
				fmt.Fprintf(&sb, " %d", t.r.O.GetCompactionTotalSize(l))
			}
			t.c.Lean(sb.String(), "ok")
			t.nScore++
			if v.ScoreGE1 {
				t.nScoreGE1++
			}
		case "g.visit":
			lvl, _ := ev.args[1].(int)
			num, _ := ev.args[2].(int64)
			t.visits = append(t.visits, fmt.Sprintf("%d %d", lvl, num))
		case "g.done":
			// differential tie of the lookup walk (lean/GoLevel/Model/Seek.lean): the tables version.get consulted, in order,
			// and whether it charged the first one a seek
			vid, _ := ev.args[0].(int64)
			ik, _ := ev.args[1].([]byte)
			tseek, _ := ev.args[2].(bool)
			naux, _ := ev.args[3].(int)
			clean, _ := ev.args[4].(bool)
			vis := t.visits
			t.visits = nil
			if naux != 0 || !clean || len(ik) < 8 || !t.sentVer[vid] {
				continue
			}
			num := binary.LittleEndian.Uint64(ik[len(ik)-8:])
			charged := "none none"
			if ts, ok := ev.args[5].([2]int64); ok && tseek {
				charged = fmt.Sprintf("%d %d", ts[0], ts[1])
			}
			t.c.Lean(fmt.Sprintf("lsm visits %d %s %d %s %d %s", vid, gen.Hex(ik[:len(ik)-8]), num>>8, charged, len(vis), strings.Join(vis, " ")), "ok")
			t.nVisits++
			if tseek {
				t.nCharged++
			}
			if t.visitLens == nil {
				t.visitLens = map[int]int{}
			}
			t.visitLens[len(vis)]++
		case "c.flush":
			rec, _ := ev.args[1].(*leveldb.VerifRecord)
			if rec == nil || len(rec.Added) != 1 {
				continue
			}
			t.fact(rec.Added[0])
			if t.bad {
				return
			}
			t.c.Lean(fmt.Sprintf("lsm flush %d %s", rec.Added[0].Num, entriesStr(ev.mem)), "ok")
		case "c.table":
			src, _ := ev.args[0].(int)
			minSeq, _ := ev.args[1].(uint64)
			v, _ := ev.args[2].(*leveldb.VerifVersion)
			s0, _ := ev.args[3].([]leveldb.VerifTable)
			s1, _ := ev.args[4].([]leveldb.VerifTable)
			rec, _ := ev.args[5].(*leveldb.VerifRecord)
			if v == nil || rec == nil {
				continue
			}
			for _, tb := range rec.Added {
				t.fact(tb)
			}
			if t.bad {
				return
			}
			t.c.Lean(fmt.Sprintf("lsm compact %d %d %d %s %s %s", v.ID, src, minSeq, numsStr(s0), numsStr(s1), numsStr(rec.Added)), "ok")
			// differential tie of the selection logic (lean/GoLevel/Model/Pick.lean): the model's expand, run on the
			// pinned version from the real level-L inputs with the growing step disabled (limit 0), must settle on
			// exactly the real level-L and level-L+1 sets (for level 0: the inputs are their own overlap closure)
			t.c.Lean(fmt.Sprintf("lsm pick %d %d 0 %s", v.ID, src, numsStr(s0)), numsStr(s0)+" "+numsStr(s1))
			t.nCompact++
		case "c.move":
			src, _ := ev.args[0].(int)
			num, _ := ev.args[1].(int64)
			v, _ := ev.args[2].(*leveldb.VerifVersion)
			if v == nil {
				continue
			}
			t.c.Lean(fmt.Sprintf("lsm move %d %d %d", v.ID, src, num), "ok")
			// the model's newCompaction from the moved table, with the real limits, must be trivial() as well
			t.c.Lean(fmt.Sprintf("lsm trivial %d %d %d %d %d", v.ID, src, t.r.O.GetCompactionExpandLimit(src), t.r.O.GetCompactionGPOverlaps(src), num), "yes")
		}
	}
}

// get dumps the state and records the answer DB.Get gave, for comparison with the model's dbGet.
func (t *lsmTracer) get(k []byte, v []byte, err error) {
	if t.bad || t.r.DB == nil {
		return
	}
	st := leveldb.VerifDump(t.r.DB)
	t.drain()
	if st.Version == nil || t.bad {
		return
	}
	fr := "none"
	if st.HasFrozen {
		fr = entriesStr(st.Frozen)
	}
	t.c.Lean(fmt.Sprintf("lsm state %d %s %s", st.Version.ID, entriesStr(st.Mem), fr), "ok")
	exp := "notfound"
	if err == nil {
		exp = "value " + gen.Hex(v)
	}
	t.c.Lean(fmt.Sprintf("lsm get %s %d", gen.Hex(k), st.Seq), exp)
	t.nGets++
}
