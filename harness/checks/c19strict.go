package checks

// C19 with opt.StrictJournal: Recover replays every journal it finds, also one whose contents were already flushed
// into a table — what a crash in the window between the commit of a flush and the removal of its journal leaves, and
// what an interrupted Recover leaves itself.  Such a journal is neither damaged nor invalid: Recover must succeed
// with the strict option too (defect D55: "batch corrupted: invalid sequence number", for ever).

import (
	"fmt"

	"github.com/syndtr/goleveldb/leveldb"
	"github.com/syndtr/goleveldb/leveldb/opt"
	"github.com/syndtr/goleveldb/leveldb/storage"

	"verif/harness/rng"
	"verif/harness/stor"
)

func c19StrictJournal(c *Ctx, n int) {
	for i := 0; i < n && c.TimeLeft() && len(c.Res.Violations) == 0; i++ {
		r := c.R.Fork()
		seed := r.U64()
		rr := rng.New(seed)
		rp := map[string]interface{}{"seed": seed, "how": "Open on a memory storage (WriteBuffer 64 KiB), put 20-200 small keys (they stay in the journal), Close; Recover with default options, the storage copied before Recover's removal of the journal it has just flushed (a process dying there); Recover the copy with opt.StrictJournal"}
		st := stor.New()
		st.KeepOps(false)
		o := &opt.Options{WriteBuffer: 64 << 10}
		db, err := leveldb.Open(st, o)
		if err != nil {
			return
		}
		nk := 20 + rr.Intn(180)
		for k := 0; k < nk; k++ {
			db.Put([]byte(fmt.Sprintf("key-%04d", k)), []byte(fmt.Sprintf("v-%d", rr.U64())), nil)
		}
		db.Close()
		var img *stor.Stor
		st.SetHooks(nil, func(s *stor.Stor, op stor.Op) {
			if img == nil && op.Kind == stor.OpRemove && op.Fd.Type == storage.TypeJournal {
				img = s.ImageLocked(nil)
			}
		})
		db, err = leveldb.Recover(st, o)
		st.SetHooks(nil, nil)
		if err != nil {
			c.Res.Violate("recover:strict-journal:first-recover-failed", err.Error(), rp)
			return
		}
		db.Close()
		if img == nil {
			c.Res.Count("strict_journal", "no-journal-removal-seen")
			continue
		}
		c.Res.Count("strict_journal", "image-with-flushed-journal")
		c.Res.Eval(fmt.Sprintf("SJ/%d", seed), true)
		so := &opt.Options{WriteBuffer: 64 << 10, Strict: opt.StrictJournal}
		db, err = leveldb.Recover(img, so)
		if err != nil {
			c.Res.Violate("recover:strict-journal:flushed-journal-refused", fmt.Sprintf("Recover with opt.StrictJournal on the directory a dying Recover left (the journal it had flushed is still there) fails: %v", err), rp)
			return
		}
		cnt := 0
		it := db.NewIterator(nil, nil)
		for it.Next() {
			cnt++
		}
		ierr := it.Error()
		it.Release()
		db.Close()
		if ierr != nil || cnt != nk {
			c.Res.Violate("recover:strict-journal:contents", fmt.Sprintf("after the strict Recover a scan shows %d of %d keys, error %v", cnt, nk, ierr), rp)
			return
		}
	}
}
