package checks

import (
	"bytes"
	"fmt"
	"runtime"
	"sync"
	"sync/atomic"
	"time"

	"github.com/syndtr/goleveldb/leveldb"
	"github.com/syndtr/goleveldb/leveldb/opt"
	"github.com/syndtr/goleveldb/leveldb/util"

	"verif/harness/gen"
	"verif/harness/rng"
	"verif/harness/stor"
)

// C10: the write-merge protocol.  Many writers call Put/Write at the same time; the verif hooks in
// db_write.go log lock acquisition, merge decisions, group formation, acknowledgements, hand-off and
// release; the harness adds `call`/`ret` for every writer call.  The log is (a) checked here directly
// (mutual exclusion of leaders, every member of a group returns the group's result, exactly one result per
// call, nobody left waiting) and (b) sent line by line to the Lean validator of the proved protocol model.

type wpCfg struct {
	Opts       gen.Opts `json:"opts"`
	Writers    int      `json:"writers"`
	Calls      int      `json:"calls"` // per writer
	BigChance  int      `json:"big_chance"`
	NoMerge    int      `json:"no_merge_chance"`
	SyncFault  int      `json:"sync_fault"`
	CloseAtMs  int      `json:"close_at_ms"`
	Competitor bool     `json:"competitor"` // a goroutine alternating OpenTransaction/Discard and CompactRange
	YieldMask  uint32   `json:"yield_mask"`
	Procs      int      `json:"procs"`
	Seed       uint64   `json:"seed"`
}

type wpEvent struct {
	kind    string // call lock leader flushed accept overflow group applied publish ack handoff release ret sent
	w       int    // writer call id (or -1)
	a, b, c uint64
	s       string
}

type wpRun struct {
	mu     sync.Mutex
	ev     []wpEvent
	byBat  sync.Map // *leveldb.Batch → call id
	byKey  sync.Map // string(key) → call id (Put)
	nextID int32
	fails  []string
	sigs   []string
}

func (wr *wpRun) log(e wpEvent) { wr.mu.Lock(); wr.ev = append(wr.ev, e); wr.mu.Unlock() }

func (wr *wpRun) idOf(batch, key interface{}) int {
	if b, ok := batch.(*leveldb.Batch); ok && b != nil {
		if v, ok := wr.byBat.Load(b); ok {
			return v.(int)
		}
	}
	if k, ok := key.([]byte); ok && k != nil {
		if v, ok := wr.byKey.Load(string(k)); ok {
			return v.(int)
		}
	}
	return -1
}

func (wr *wpRun) sink(point string, args []interface{}) {
	arg := func(i int) interface{} {
		if i < len(args) {
			return args[i]
		}
		return nil
	}
	switch point {
	case "w.lock":
		wr.log(wpEvent{kind: "lock", w: wr.idOf(arg(0), arg(1))})
	case "w.sent":
		wr.log(wpEvent{kind: "sent", w: wr.idOf(arg(0), arg(1))})
	case "w.leader":
		wr.log(wpEvent{kind: "leader", w: wr.idOf(arg(0), arg(1))})
	case "w.flushed":
		e := wpEvent{kind: "flushed", w: -1}
		if err, _ := arg(1).(error); err != nil {
			e.a = 1
			e.s = concErrClass(err)
		}
		wr.log(e)
	case "w.accept":
		wr.log(wpEvent{kind: "accept", w: wr.idOf(arg(0), arg(1))})
	case "w.overflow":
		wr.log(wpEvent{kind: "overflow", w: wr.idOf(arg(0), arg(1))})
	case "w.group":
		seq, _ := arg(0).(uint64)
		n, _ := arg(1).(int)
		nb, _ := arg(2).(int)
		e := wpEvent{kind: "group", w: -1, a: seq, b: uint64(n), c: uint64(nb)}
		if sy, _ := arg(3).(bool); sy {
			e.s = "sync"
		}
		wr.log(e)
	case "w.applied":
		wr.log(wpEvent{kind: "applied", w: -1})
	case "w.publish":
		seq, _ := arg(0).(uint64)
		wr.log(wpEvent{kind: "publish", w: -1, a: seq})
	case "w.ack":
		wr.log(wpEvent{kind: "ack", w: -1})
	case "w.handoff":
		wr.log(wpEvent{kind: "handoff", w: -1})
	case "w.release":
		wr.log(wpEvent{kind: "release", w: -1})
	}
}

func b2u(b bool) uint64 {
	if b {
		return 1
	}
	return 0
}

func (wr *wpRun) fail(sig, msg string) {
	wr.mu.Lock()
	if len(wr.fails) < 6 {
		wr.fails = append(wr.fails, msg)
		wr.sigs = append(wr.sigs, sig)
	}
	wr.mu.Unlock()
}

func runWp(cfg wpCfg) (*wpRun, map[string]int) {
	wr := &wpRun{}
	stats := map[string]int{}
	r := rng.New(cfg.Seed)
	st := stor.New()
	st.KeepOps(false)
	if cfg.SyncFault > 0 {
		var n int32
		st.SetHooks(func(op stor.Op) stor.FaultMode {
			if op.Kind == stor.OpSync && op.Fd.Type == 2 {
				if int(atomic.AddInt32(&n, 1)) == cfg.SyncFault {
					return stor.FailNoEffect
				}
			}
			return stor.NoFault
		}, nil)
	}
	if cfg.Procs > 0 {
		defer runtime.GOMAXPROCS(runtime.GOMAXPROCS(cfg.Procs))
	}
	var yc uint64
	leveldb.VerifYield = func(point string) {
		if len(point) > 2 && point[:2] == "w." {
			h := uint32(0)
			for _, ch := range point {
				h = h*31 + uint32(ch)
			}
			if cfg.YieldMask&(1<<(h%32)) != 0 {
				if atomic.AddUint64(&yc, 1)%4 == 0 {
					time.Sleep(50 * time.Microsecond)
				} else {
					runtime.Gosched()
				}
			}
		}
	}
	leveldb.VerifSink = wr.sink
	defer func() { leveldb.VerifYield = nil; leveldb.VerifSink = nil }()

	db, err := leveldb.Open(st, cfg.Opts.Options())
	if err != nil {
		wr.fail("open:error", err.Error())
		return wr, stats
	}
	type callRes struct {
		id   int
		err  error
		keys [][]byte
		val  []byte
	}
	var resMu sync.Mutex
	var results []callRes
	var wg sync.WaitGroup
	start := make(chan struct{})
	var closed int32
	for w := 0; w < cfg.Writers; w++ {
		wg.Add(1)
		go func(w int, rr *rng.R) {
			defer wg.Done()
			<-start
			for i := 0; i < cfg.Calls; i++ {
				id := int(atomic.AddInt32(&wr.nextID, 1))
				size := rr.Intn(200)
				if rr.Intn(100) < cfg.BigChance {
					size = cfg.Opts.WriteBuffer/2 + rr.Intn(cfg.Opts.WriteBuffer)
				}
				val := bytes.Repeat([]byte{byte('a' + id%26)}, size)
				noMerge := rr.Intn(100) < cfg.NoMerge
				wo := &opt.WriteOptions{NoWriteMerge: noMerge, Sync: rr.Chance(1, 5)}
				merge := 1
				if noMerge || cfg.Opts.NoWriteMerge {
					merge = 0
				}
				var err error
				var keys [][]byte
				viaTx := false
				if rr.Bool() {
					k := []byte(fmt.Sprintf("k%06d", id))
					keys = [][]byte{k}
					wr.byKey.Store(string(k), id)
					// b: the Sync flag the write path uses (wo.Sync && !o.NoSync); s: the kind of call, for the Lean model
					wr.log(wpEvent{kind: "call", w: id, a: uint64(merge), b: b2u(wo.Sync && !cfg.Opts.NoSync), c: 1, s: "put"})
					err = db.Put(k, val, wo)
				} else {
					b := new(leveldb.Batch)
					for j := 0; j <= rr.Intn(3); j++ {
						k := []byte(fmt.Sprintf("k%06d-%d", id, j))
						keys = append(keys, k)
						b.Put(k, val)
					}
					if b.Len() == 0 {
						continue
					}
					// a batch larger than the write buffer is routed through a transaction: it competes for the
					// write lock like any other lock holder but takes no part in the merge protocol
					ilen := 0
					for _, k := range keys {
						ilen += len(k) + len(val) + 8
					}
					viaTx = ilen > cfg.Opts.WriteBuffer && !cfg.Opts.DisableLargeBatchTx
					if !viaTx {
						wr.byBat.Store(b, id)
						wr.log(wpEvent{kind: "call", w: id, a: uint64(merge), b: b2u(wo.Sync && !cfg.Opts.NoSync), c: uint64(b.Len()), s: "write"})
					}
					before, blen := append([]byte(nil), b.Dump()...), b.Len()
					err = db.Write(b, wo)
					// C20: the callee must not modify the caller's batch (e.g. by appending merged records to it)
					if b.Len() != blen || !bytes.Equal(before, b.Dump()) {
						wr.fail("write:caller-batch-modified", fmt.Sprintf("call %d: DB.Write changed the caller's batch: Len %d -> %d, %d -> %d bytes", id, blen, b.Len(), len(before), len(b.Dump())))
					}
				}
				if !viaTx {
					wr.log(wpEvent{kind: "ret", w: id, s: concErrClass(err)})
				}
				resMu.Lock()
				results = append(results, callRes{id, err, keys, val})
				resMu.Unlock()
				if err == leveldb.ErrClosed {
					return
				}
			}
		}(w, r.Fork())
	}
	stopComp := make(chan struct{})
	var cwg sync.WaitGroup
	if cfg.Competitor {
		cwg.Add(1)
		go func(rr *rng.R) {
			defer cwg.Done()
			<-start
			for {
				select {
				case <-stopComp:
					return
				default:
				}
				if rr.Bool() {
					if tr, err := db.OpenTransaction(); err == nil {
						tr.Put([]byte("tx"), []byte("v"), nil)
						tr.Discard()
					} else if err == leveldb.ErrClosed {
						return
					}
				} else {
					if err := db.CompactRange(util.Range{Start: []byte("k0"), Limit: []byte("k1")}); err == leveldb.ErrClosed {
						return
					}
				}
				time.Sleep(time.Duration(rr.Intn(400)) * time.Microsecond)
			}
		}(r.Fork())
	}
	if cfg.CloseAtMs > 0 {
		go func() {
			<-start
			time.Sleep(time.Duration(cfg.CloseAtMs) * time.Millisecond)
			atomic.StoreInt32(&closed, 1)
			db.Close()
		}()
	}
	close(start)
	done := make(chan struct{})
	go func() { wg.Wait(); close(done) }()
	select {
	case <-done:
	case <-time.After(45 * time.Second):
		buf := make([]byte, 1<<20)
		buf = buf[:runtime.Stack(buf, true)]
		wr.fail("writers:hang", "writer calls did not all return within 45 s:\n"+blockedSummary(string(buf)))
		return wr, stats
	}
	close(stopComp)
	cwg.Wait()

	// ---- direct checks on the log -------------------------------------------------------------
	wr.mu.Lock()
	evs := append([]wpEvent(nil), wr.ev...)
	wr.mu.Unlock()
	leader := -1             // call id currently holding the write lock as a writer
	var group []int          // accepted members of the current leader
	groupOf := map[int]int{} // member → leader
	rets := map[int]string{}
	wantSync := map[int]bool{}
	nrec := map[int]uint64{}
	for i, e := range evs {
		stats[e.kind]++
		switch e.kind {
		case "call":
			wantSync[e.w] = e.b == 1
			nrec[e.w] = e.c
		case "group":
			// a group consists of its leader and the writers it accepted, nothing else: the number of records it
			// journals (and of sequence numbers it consumes) is the sum of theirs
			if leader != -1 {
				want := nrec[leader]
				for _, m := range group {
					want += nrec[m]
				}
				if e.b != want {
					wr.fail("group:record-count", fmt.Sprintf("event %d: the group led by call %d (members %v) journals %d records at sequence %d, its members issued %d", i, leader, group, e.b, e.a, want))
				}
			}
			// C04 through the merge: a group is journalled with Sync as soon as its leader or any merged member asked for it
			if leader != -1 && !cfg.Opts.NoSync && e.s != "sync" {
				for _, m := range append([]int{leader}, group...) {
					if wantSync[m] {
						wr.fail("group:sync-dropped", fmt.Sprintf("event %d: the group led by call %d (members %v) is journalled without Sync although call %d asked for Sync", i, leader, group, m))
						break
					}
				}
			}
			if e.s == "sync" {
				stats["group-synced"]++
			}
		case "leader":
			if leader != -1 {
				wr.fail("mutex:two-leaders", fmt.Sprintf("event %d: writer %d becomes leader while writer %d still leads", i, e.w, leader))
			}
			leader = e.w
			group = nil
		case "accept":
			if leader == -1 {
				wr.fail("merge:accept-without-leader", fmt.Sprintf("event %d: accept of %d with no leader", i, e.w))
			}
			group = append(group, e.w)
			groupOf[e.w] = leader
		case "handoff", "release":
			if leader == -1 && e.kind == "handoff" {
				wr.fail("handoff:without-leader", fmt.Sprintf("event %d", i))
			}
			if leader != -1 {
				leader = -1
			}
		case "ret":
			if _, dup := rets[e.w]; dup {
				wr.fail("result:answered-twice", fmt.Sprintf("call %d returned twice", e.w))
			}
			rets[e.w] = e.s
		}
	}
	for m, l := range groupOf {
		rm, okm := rets[m]
		rl, okl := rets[l]
		if !okm || !okl {
			wr.fail("result:missing", fmt.Sprintf("member %d of the group led by %d: returned=%v leader returned=%v", m, l, okm, okl))
		} else if rm != rl {
			wr.fail("group-result:differs", fmt.Sprintf("call %d was merged into the group led by %d but returned %q while the leader returned %q", m, l, rm, rl))
		}
	}
	// contents: every acknowledged write present, a failed one whole or absent
	if atomic.LoadInt32(&closed) == 0 {
		for _, cr := range results {
			present := 0
			for _, k := range cr.keys {
				v, err := db.Get(k, nil)
				if err == nil && bytes.Equal(v, cr.val) {
					present++
				}
			}
			if cr.err == nil && present != len(cr.keys) {
				wr.fail("contents:acknowledged-write-missing", fmt.Sprintf("call %d returned nil but %d of %d keys are readable", cr.id, present, len(cr.keys)))
			}
			if cr.err != nil && present != 0 && present != len(cr.keys) {
				wr.fail("contents:failed-write-partial", fmt.Sprintf("call %d returned %v and %d of %d keys are readable", cr.id, cr.err, present, len(cr.keys)))
			}
		}
		cdone := make(chan struct{})
		go func() { db.Close(); close(cdone) }()
		select {
		case <-cdone:
		case <-time.After(30 * time.Second):
			buf := make([]byte, 1<<20)
			buf = buf[:runtime.Stack(buf, true)]
			wr.fail("close:hang", "Close did not return within 30 s:\n"+blockedSummary(string(buf)))
		}
	}
	return wr, stats
}

// wpLines renders the log in the grammar of lean/GoLevel/Driver/WriteProto.lean.
func wpLines(c *Ctx, evs []wpEvent) {
	c.Lean("wp reset", "ok")
	// ErrClosed returned by a writer that took part in a group (leader or merged member) is that group's
	// error result; only a writer that never got that far "returns closed" in the sense of the model
	inGroup := map[int]bool{}
	for _, e := range evs {
		switch e.kind {
		case "lock", "leader", "accept":
			inGroup[e.w] = true
		}
	}
	for _, e := range evs {
		switch e.kind {
		case "call":
			// merge flag, effective Sync flag, number of records, Put/Delete or Write(batch): the validator replays
			// the merge loop of the model on these and compares what the group carries (see "group")
			c.Lean(fmt.Sprintf("wp call %d %d %d %d %s", e.w, e.a, e.b, e.c, e.s), "ok")
		case "lock", "leader", "accept", "overflow":
			c.Lean(fmt.Sprintf("wp %s %d", e.kind, e.w), "ok")
		case "flushed":
			c.Lean(fmt.Sprintf("wp flushed %d", e.a), "ok")
		case "group":
			// record count, batch count and sync flag of the group must be the model's (gn, |batches|, gsync)
			c.Lean(fmt.Sprintf("wp group %d %d %d %d", e.a, e.b, e.c, b2u(e.s == "sync")), "ok")
		case "publish":
			c.Lean(fmt.Sprintf("wp publish %d", e.a), "ok")
		case "applied", "ack", "handoff", "release":
			c.Lean("wp "+e.kind, "ok")
		case "ret":
			s := e.s
			if s != "ok" && (s != "closed" || inGroup[e.w]) {
				s = "err"
			}
			c.Lean(fmt.Sprintf("wp ret %d %s", e.w, s), "ok")
		}
	}
	c.Lean("wp end", "ok")
}

var wpEmitLean = true // switched on once the Lean validator (Driver/WriteProto.lean) is wired into gldriver

func init() {
	Registry["C10"] = func(c *Ctx) {
		c.Res.Rule = "2–32 writers issuing Put/Write concurrently (sizes below and above the merge limit of a small write buffer, NoWriteMerge on a fraction), optionally a transaction/CompactRange competitor, a failing journal sync, or Close in the middle; GOMAXPROCS 1/2/4/16 with yields at the w.* hook points; the hook log is checked for: one leader at a time, every merged writer returns its group's result, one result per call, acknowledged writes present and failed writes whole or absent; non-trivial = at least one merge and one overflow/hand-off or error happened; distinct by configuration"
		n := c.Scale(60, 800)
		for i := 0; i < n && c.TimeLeft() && !c.Hung; i++ {
			r := c.R.Fork()
			o := gen.RandOpts(r)
			o.Cmp = "bytewise"
			o.WriteBuffer = 1024 << uint(r.Intn(3))
			o.NoWriteMerge = r.Chance(1, 10)
			o.DisableLargeBatchTx = r.Bool()
			cfg := wpCfg{Opts: o, Writers: 2 + r.Intn(31), Calls: 4 + r.Intn(20), BigChance: r.Pick(0, 5, 20), NoMerge: r.Pick(0, 0, 10, 50),
				Competitor: r.Chance(1, 3), YieldMask: uint32(r.U64()), Procs: r.Pick(1, 2, 4, 16), Seed: r.U64()}
			switch r.Intn(6) {
			case 0:
				cfg.SyncFault = 1 + r.Intn(10)
			case 1:
				cfg.CloseAtMs = 1 + r.Intn(5)
			}
			wr, stats := runWp(cfg)
			for k, v := range stats {
				c.Res.CountN("events", k, v)
			}
			c.Res.Count("gomaxprocs", fmt.Sprint(cfg.Procs))
			nontriv := stats["accept"] > 0 && (stats["overflow"]+stats["handoff"] > 0 || cfg.SyncFault > 0 || cfg.CloseAtMs > 0)
			c.Res.Eval(fmt.Sprintf("%+v", cfg), nontriv)
			if i < 2 {
				c.Res.Sample(map[string]interface{}{"config": cfg, "events": stats})
			}
			if len(wr.fails) > 0 {
				c.Res.Violate(wr.sigs[0], wr.fails[0], map[string]interface{}{"config": cfg, "all": wr.fails})
				if wr.sigs[0] == "writers:hang" || wr.sigs[0] == "close:hang" {
					c.Hung = true
				}
				return
			}
			if wpEmitLean && i%3 == 0 {
				wr.mu.Lock()
				evs := append([]wpEvent(nil), wr.ev...)
				wr.mu.Unlock()
				wpLines(c, evs)
			}
		}
	}
}
