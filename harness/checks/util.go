package checks

import "time"

func sleepMs(n int) { time.Sleep(time.Duration(n) * time.Millisecond) }
