package checks

import (
	"bytes"
	"encoding/binary"
	"fmt"
	"runtime"
	"strings"
	"sync"
	"sync/atomic"
	"time"

	"github.com/syndtr/goleveldb/leveldb"
	"github.com/syndtr/goleveldb/leveldb/opt"
	"github.com/syndtr/goleveldb/leveldb/util"

	"verif/harness/gen"
	"verif/harness/rng"
	"verif/harness/stor"
)

// ---------------------------------------------------------------------------------------------
// Concurrent scenarios (C05, C10): W writers, R readers, S snapshot/iterator users on one DB with tiny
// buffers so that merges, rotations, flushes and compactions happen all the time; verif yield points
// stretch the windows the properties are about.
//
// Writer w owns the key pair (A_w, B_w) and a set of extra keys; its n-th write is ONE batch (or a Put pair
// merged by the DB's own write merging when issued as separate Puts is NOT assumed atomic) that sets
// A_w = B_w = n.  From this the linearizability consequences are checked without a search:
//   * a snapshot or iterator sees A_w == B_w                                   (consistent cut, batch atomicity)
//   * Get(A_w) followed by Get(B_w) sees B ≥ A                                 (no older state after a newer one)
//   * per reader and key, observed values never decrease                        (monotone reads)
//   * a value ≥ the last acknowledged n (loaded before the read) is observed    (acknowledged ⇒ visible)
//   * no value above the last issued n is observed                              (nothing from the future)

type ConcCfg struct {
	Opts      gen.Opts `json:"opts"`
	Writers   int      `json:"writers"`
	Readers   int      `json:"readers"`
	Snappers  int      `json:"snappers"`
	Rounds    int      `json:"rounds"`
	BigEvery  int      `json:"big_every"`  // every n-th write is larger than the write buffer (transaction path); 0 = never
	PutPairs  bool     `json:"put_pairs"`  // also issue single Puts on private keys (exercise putRec merging)
	TxEvery   int      `json:"tx_every"`   // every n-th write of writer 0 is an explicit transaction
	Compact   bool     `json:"compact"`    // one goroutine calls CompactRange now and then
	CloseAt   int      `json:"close_at"`   // > 0: Close is called after that many milliseconds
	YieldMask uint32   `json:"yield_mask"` // which hook points sleep
	YieldUs   int      `json:"yield_us"`
	Procs     int      `json:"procs"`
	Seed      uint64   `json:"seed"`
	SyncFault int      `json:"sync_fault"` // > 0: the k-th journal sync fails (group result propagation)
}

var yieldPoints = []string{"r.seq", "r.mems", "w.applied", "v.install", "m.drop", "m.rotate", "t.installed", "w.group", "c.table", "c.flush",
	// inside the readers' critical sections: between the read of db.seq and the registration (snapsMu), with the
	// buffers pinned (memMu.RLock), with the version pinned (vmu)
	"s.acquire", "r.getmems", "r.version"}

func encN(n uint64, pad int) []byte {
	b := make([]byte, 8+pad)
	binary.BigEndian.PutUint64(b, n)
	for i := 8; i < len(b); i++ {
		b[i] = byte('a' + i%26)
	}
	return b
}

func decN(b []byte) uint64 {
	if len(b) < 8 {
		return 0
	}
	return binary.BigEndian.Uint64(b)
}

type concRun struct {
	cfg     ConcCfg
	db      *leveldb.DB
	st      *stor.Stor
	issued  []uint64 // per writer: last n whose write was issued
	acked   []uint64 // per writer: last n whose write returned nil
	failMu  sync.Mutex
	fails   []string
	sigs    []string
	stop    int32
	wdone   int32
	opened  int32
	events  []Event
	evMu    sync.Mutex
	results sync.Map // writer call id → error class (for C10)
	stats   map[string]*int64
	// reader side of the trace (concread.go)
	traceReads bool
	rt         readTrace
}

func (cr *concRun) fail(sig, msg string) {
	cr.failMu.Lock()
	if len(cr.fails) < 8 {
		cr.fails = append(cr.fails, msg)
		cr.sigs = append(cr.sigs, sig)
	}
	cr.failMu.Unlock()
	atomic.StoreInt32(&cr.stop, 1)
}

func keyA(w int) []byte { return []byte(fmt.Sprintf("A%03d", w)) }
func keyB(w int) []byte { return []byte(fmt.Sprintf("zB%03d", w)) } // far from A in key order: other blocks/tables
const sharedKeys = 4

func keyG(i int) []byte { return []byte(fmt.Sprintf("G%02d", i)) }

func keyP(w, i int) []byte { return []byte(fmt.Sprintf("p%03d-%02d", w, i)) }

func concErrClass(err error) string {
	switch {
	case err == nil:
		return "ok"
	case err == leveldb.ErrClosed:
		return "closed"
	case err == leveldb.ErrNotFound:
		return "notfound"
	case err == leveldb.ErrReadOnly:
		return "readonly"
	}
	return "err"
}

// runConc executes one scenario; record = keep hook events (for the C10 trace).
func runConc(cfg ConcCfg, record bool) *concRun {
	cr := &concRun{cfg: cfg, st: stor.New(), issued: make([]uint64, cfg.Writers), acked: make([]uint64, cfg.Writers)}
	cr.st.KeepOps(false)
	deadline := time.Now().Add(4 * time.Second) // writers stop issuing after this long, whatever Rounds says
	r := rng.New(cfg.Seed)
	if cfg.Procs > 0 {
		defer runtime.GOMAXPROCS(runtime.GOMAXPROCS(cfg.Procs))
	}
	if cfg.SyncFault > 0 {
		var n int32
		cr.st.SetHooks(func(op stor.Op) stor.FaultMode {
			if op.Kind == stor.OpSync && op.Fd.Type == 2 /* journal */ {
				if int(atomic.AddInt32(&n, 1)) == cfg.SyncFault {
					return stor.FailNoEffect
				}
			}
			return stor.NoFault
		}, nil)
	}
	// yields
	mask := cfg.YieldMask
	yus := cfg.YieldUs
	var ycount uint64
	leveldb.VerifYield = func(point string) {
		for i, p := range yieldPoints {
			if p == point && mask&(1<<uint(i)) != 0 {
				n := atomic.AddUint64(&ycount, 1)
				if n%3 == 0 {
					time.Sleep(time.Duration(yus) * time.Microsecond)
				} else {
					runtime.Gosched()
				}
				return
			}
		}
	}
	if record {
		leveldb.VerifSink = func(point string, args []interface{}) {
			switch point {
			case "w.group", "w.applied", "w.publish", "m.rotate", "c.flush", "v.install", "m.drop", "c.table", "t.open", "t.installed", "t.publish", "t.done", "t.discard":
				if atomic.LoadInt32(&cr.opened) == 0 {
					return // recovery and the initial buffer belong to Open
				}
				cr.evMu.Lock()
				cr.events = append(cr.events, Event{point, args})
				cr.evMu.Unlock()
			case "w.batches":
				// the contents of the group, decoded now (the batches are recycled): user keys and value ids
				if atomic.LoadInt32(&cr.opened) == 0 || len(args) < 2 {
					return
				}
				bs, _ := args[1].([]*leveldb.Batch)
				toks := batchTokens(bs)
				cr.evMu.Lock()
				cr.events = append(cr.events, Event{point, []interface{}{args[0], toks}})
				cr.evMu.Unlock()
			case "t.put":
				if atomic.LoadInt32(&cr.opened) == 0 || len(args) < 4 {
					return
				}
				kt, _ := args[1].(uint)
				key, _ := args[2].([]byte)
				val, _ := args[3].([]byte)
				tok := "d" + hexField(key)
				if kt == 1 {
					tok = "p" + hexField(key) + ":" + valID(val)
				}
				cr.evMu.Lock()
				cr.events = append(cr.events, Event{point, []interface{}{args[0], tok}})
				cr.evMu.Unlock()
			default:
				if readerPoint(point) && atomic.LoadInt32(&cr.opened) != 0 {
					cr.sinkReader(point, args)
				}
			}
		}
	}
	defer func() { leveldb.VerifYield = nil; leveldb.VerifSink = nil }()

	o := cfg.Opts.Options()
	db, err := leveldb.Open(cr.st, o)
	if err != nil {
		cr.fail("open:error", err.Error())
		return cr
	}
	cr.db = db
	cr.traceReads = record
	atomic.StoreInt32(&cr.opened, 1)
	var wg sync.WaitGroup
	closed := int32(0)
	pad := func(rr *rng.R) int { return rr.Intn(40) }

	// writers
	for w := 0; w < cfg.Writers; w++ {
		wg.Add(1)
		go func(w int, rr *rng.R) {
			defer wg.Done()
			defer atomic.AddInt32(&cr.wdone, 1)
			for n := uint64(1); n <= uint64(cfg.Rounds) && atomic.LoadInt32(&cr.stop) == 0 && time.Now().Before(deadline); n++ {
				atomic.StoreUint64(&cr.issued[w], n)
				var err error
				v := encN(n, pad(rr))
				switch {
				case cfg.TxEvery > 0 && w == 0 && int(n)%cfg.TxEvery == 0:
					var tr *leveldb.Transaction
					tr, err = db.OpenTransaction()
					if err == nil {
						tr.Put(keyA(w), v, nil)
						tr.Put(keyB(w), v, nil)
						if rr.Chance(1, 4) {
							tr.Discard()
							atomic.StoreUint64(&cr.issued[w], n-1) // nothing issued
							continue
						}
						err = tr.Commit()
						if err != nil {
							tr.Discard()
						}
					}
				default:
					b := new(leveldb.Batch)
					b.Put(keyA(w), v)
					if cfg.BigEvery > 0 && int(n)%cfg.BigEvery == 0 {
						b.Put(keyP(w, 99), bytes.Repeat([]byte{'x'}, cfg.Opts.WriteBuffer+100))
					}
					for i := 0; i < rr.Intn(3); i++ {
						b.Put(keyP(w, rr.Intn(8)), encN(n, pad(rr)))
					}
					if cfg.Writers > 1 && rr.Chance(1, 3) {
						// every batch that touches the shared group overwrites ALL its keys with one token, in a
						// rotated order: in any consistent view the four keys carry the same token
						tok := encN(uint64(w+1)<<32|n, 0)
						off := rr.Intn(sharedKeys)
						for i := 0; i < sharedKeys; i++ {
							b.Put(keyG((off+i)%sharedKeys), tok)
						}
					}
					b.Put(keyB(w), v)
					err = db.Write(b, &opt.WriteOptions{Sync: rr.Chance(1, 6), NoWriteMerge: rr.Chance(1, 8)})
				}
				if err == nil {
					atomic.StoreUint64(&cr.acked[w], n)
					// read-your-write
					if g, gerr := cr.tGet(keyA(w)); gerr == nil {
						if decN(g) != n {
							cr.fail("get:own-write-not-visible", fmt.Sprintf("writer %d wrote %d (acknowledged) and then read %d", w, n, decN(g)))
						}
					} else if gerr != leveldb.ErrClosed {
						cr.fail("get:own-write-missing", fmt.Sprintf("writer %d wrote %d (acknowledged) and then Get failed: %v", w, n, gerr))
					}
				} else if err == leveldb.ErrClosed && atomic.LoadInt32(&closed) != 0 {
					return
				} else if cfg.SyncFault > 0 {
					// a failed group: its fate is unknown; readers tolerate n being present or absent
				} else {
					cr.fail("write:error", fmt.Sprintf("writer %d write %d: %v", w, n, err))
				}
				if cfg.PutPairs && rr.Chance(1, 3) {
					if perr := db.Put(keyP(w, 20+rr.Intn(4)), encN(n, pad(rr)), nil); perr != nil && perr != leveldb.ErrClosed && cfg.SyncFault == 0 {
						cr.fail("put:error", perr.Error())
					}
				}
			}
		}(w, r.Fork())
	}
	writersDone := make(chan struct{})

	chk := func(tag string, w int, before, a, b uint64, hasA, hasB bool, pair bool) {
		hi := atomic.LoadUint64(&cr.issued[w])
		if (hasA && a > hi) || (hasB && b > hi) {
			cr.fail(tag+":future-value", fmt.Sprintf("%s: writer %d: observed A=%d B=%d but only %d were issued", tag, w, a, b, hi))
		}
		if cfg.SyncFault == 0 {
			if (!hasA && before > 0) || (hasA && a < before) {
				cr.fail(tag+":acknowledged-write-not-visible", fmt.Sprintf("%s: writer %d: %d was acknowledged before the read started, A observed %d (present=%v)", tag, w, before, a, hasA))
			}
		}
		if pair && (hasA != hasB || a != b) {
			cr.fail(tag+":torn-batch", fmt.Sprintf("%s: writer %d: A=%d (present=%v) B=%d (present=%v) in one consistent view", tag, w, a, hasA, b, hasB))
		}
	}

	// point readers
	for q := 0; q < cfg.Readers; q++ {
		wg.Add(1)
		go func(q int, rr *rng.R) {
			defer wg.Done()
			last := make([][2]uint64, cfg.Writers)
			mine := 0
			for atomic.LoadInt32(&cr.stop) == 0 {
				select {
				case <-writersDone:
					return
				default:
				}
				if cr.traceReads && !cr.pace(rr, &mine, tracedReadsPerReader) {
					return
				}
				w := rr.Intn(cfg.Writers)
				before := atomic.LoadUint64(&cr.acked[w])
				va, ea := cr.tGet(keyA(w))
				vb, eb := cr.tGet(keyB(w))
				if ea == leveldb.ErrClosed || eb == leveldb.ErrClosed {
					return
				}
				if (ea != nil && ea != leveldb.ErrNotFound) || (eb != nil && eb != leveldb.ErrNotFound) {
					cr.fail("get:error", fmt.Sprintf("Get: %v %v", ea, eb))
					return
				}
				a, b := decN(va), decN(vb)
				chk("get", w, before, a, b, ea == nil, eb == nil, false)
				if ea == nil && (eb != nil || b < a) {
					cr.fail("get:older-state-after-newer", fmt.Sprintf("reader %d: Get(A_%d)=%d then Get(B_%d)=%d (present=%v)", q, w, a, w, b, eb == nil))
				}
				if a < last[w][0] || b < last[w][1] {
					cr.fail("get:non-monotone", fmt.Sprintf("reader %d: writer %d: saw (%d,%d) after (%d,%d)", q, w, a, b, last[w][0], last[w][1]))
				}
				last[w] = [2]uint64{a, b}
				atomic.AddInt64(cr.stat("gets"), 2)
				if cr.traceReads && rr.Chance(1, 4) {
					// a private key that may or may not exist yet, or the large value of the transaction path
					k := keyP(w, rr.Intn(10))
					if rr.Chance(1, 5) {
						k = keyP(w, 99)
					}
					if rr.Bool() {
						cr.tHas(k)
					} else {
						cr.tGet(k)
					}
				}
			}
		}(q, r.Fork())
	}
	// snapshot / iterator users
	for q := 0; q < cfg.Snappers; q++ {
		wg.Add(1)
		go func(q int, rr *rng.R) {
			defer wg.Done()
			lastSeen := make([]uint64, cfg.Writers)
			mine := 0
			for atomic.LoadInt32(&cr.stop) == 0 {
				select {
				case <-writersDone:
					return
				default:
				}
				if cr.traceReads && !cr.pace(rr, &mine, tracedReadsPerSnapper) {
					return
				}
				befores := make([]uint64, cfg.Writers)
				for w := range befores {
					befores[w] = atomic.LoadUint64(&cr.acked[w])
				}
				if rr.Bool() {
					sn, sid, err := cr.tSnap()
					if err != nil {
						return
					}
					if rr.Chance(1, 2) {
						time.Sleep(time.Duration(rr.Intn(300)) * time.Microsecond) // let writers, flushes, compactions pass
					}
					for w := 0; w < cfg.Writers; w++ {
						va, ea := cr.tSnapGet(sn, sid, keyA(w))
						vb, eb := cr.tSnapGet(sn, sid, keyB(w))
						if ea == leveldb.ErrClosed || eb == leveldb.ErrClosed {
							cr.tSnapRelease(sn, sid)
							return
						}
						chk("snapshot", w, befores[w], decN(va), decN(vb), ea == nil, eb == nil, true)
						if decN(va) < lastSeen[w] {
							cr.fail("snapshot:non-monotone", fmt.Sprintf("snapshot user %d: writer %d: %d after %d", q, w, decN(va), lastSeen[w]))
						}
						lastSeen[w] = decN(va)
					}
					var g0 []byte
					for i := 0; i < sharedKeys; i++ {
						gv, ge := cr.tSnapGet(sn, sid, keyG(i))
						if ge == leveldb.ErrClosed {
							break
						}
						if ge != nil {
							gv = nil
						}
						if i == 0 {
							g0 = gv
						} else if !bytes.Equal(g0, gv) {
							cr.fail("snapshot:shared-group-torn", fmt.Sprintf("snapshot: shared group keys G00 and G%02d carry tokens %x and %x although every batch writes all of them together", i, g0, gv))
						}
					}
					cr.tSnapRelease(sn, sid)
					atomic.AddInt64(cr.stat("snapshots"), 1)
				} else {
					it, itOp := cr.tIter()
					if rr.Chance(1, 2) {
						time.Sleep(time.Duration(rr.Intn(300)) * time.Microsecond)
					}
					as, bs := map[int]uint64{}, map[int]uint64{}
					avals, bvals := map[int][]byte{}, map[int][]byte{}
					var gtoks []string
					var prev []byte
					for it.Next() {
						k := it.Key()
						if prev != nil && bytes.Compare(prev, k) >= 0 {
							cr.fail("iterator:order", fmt.Sprintf("iterator keys out of order: %q then %q", prev, k))
						}
						prev = append(prev[:0], k...)
						var w int
						if len(k) == 3 && k[0] == 'G' {
							gtoks = append(gtoks, string(it.Value()))
						} else if n, _ := fmt.Sscanf(string(k), "A%03d", &w); n == 1 {
							as[w] = decN(it.Value())
							avals[w] = cp(it.Value())
						} else if n, _ := fmt.Sscanf(string(k), "zB%03d", &w); n == 1 {
							bs[w] = decN(it.Value())
							bvals[w] = cp(it.Value())
						}
					}
					ierr := it.Error()
					it.Release()
					if ierr == leveldb.ErrClosed {
						return
					}
					if ierr != nil {
						cr.fail("iterator:error", ierr.Error())
						return
					}
					if itOp != nil {
						// what the walk showed for the pair keys, present or absent, against the model's lookups at the
						// iterator's triple
						var res []readRes
						for w := 0; w < cfg.Writers; w++ {
							va, ha := avals[w]
							vb, hb := bvals[w]
							res = append(res, readRes{keyA(w), ha, va}, readRes{keyB(w), hb, vb})
						}
						cr.tIterDone(itOp, res)
					}
					for w := 0; w < cfg.Writers; w++ {
						a, ha := as[w]
						b, hb := bs[w]
						chk("iterator", w, befores[w], a, b, ha, hb, true)
					}
					for i := 1; i < len(gtoks); i++ {
						if gtoks[i] != gtoks[0] || len(gtoks) != sharedKeys {
							cr.fail("iterator:shared-group-torn", fmt.Sprintf("iterator: the shared group shows tokens %x (every batch writes all %d keys together)", gtoks, sharedKeys))
							break
						}
					}
					atomic.AddInt64(cr.stat("iterators"), 1)
				}
			}
		}(q, r.Fork())
	}
	if cfg.Compact {
		wg.Add(1)
		go func(rr *rng.R) {
			defer wg.Done()
			for atomic.LoadInt32(&cr.stop) == 0 {
				select {
				case <-writersDone:
					return
				case <-time.After(time.Duration(1+rr.Intn(5)) * time.Millisecond):
				}
				if err := db.CompactRange(util.Range{}); err != nil && err != leveldb.ErrClosed {
					cr.fail("compact:error", err.Error())
					return
				}
				atomic.AddInt64(cr.stat("compactranges"), 1)
			}
		}(r.Fork())
	}
	if cfg.CloseAt > 0 {
		go func() {
			time.Sleep(time.Duration(cfg.CloseAt) * time.Millisecond)
			atomic.StoreInt32(&closed, 1)
			db.Close()
		}()
	}
	// wait for writers (they are the first cfg.Writers goroutines added) — simplest: poll issued/stop
	go func() {
		for {
			done := int(atomic.LoadInt32(&cr.wdone)) == cfg.Writers
			if done || atomic.LoadInt32(&cr.stop) != 0 || atomic.LoadInt32(&closed) != 0 {
				time.Sleep(3 * time.Millisecond)
				close(writersDone)
				return
			}
			time.Sleep(time.Millisecond)
		}
	}()
	waitC := make(chan struct{})
	go func() { wg.Wait(); close(waitC) }()
	select {
	case <-waitC:
	case <-time.After(60 * time.Second):
		buf := make([]byte, 1<<20)
		buf = buf[:runtime.Stack(buf, true)]
		cr.fail("hang", "goroutines of the scenario did not finish within 60 s:\n"+blockedSummary(string(buf)))
		return cr
	}
	if atomic.LoadInt32(&closed) == 0 {
		// final state: every acknowledged write visible
		for w := 0; w < cfg.Writers; w++ {
			a, ea := cr.tGet(keyA(w))
			b, eb := cr.tGet(keyB(w))
			if ack := atomic.LoadUint64(&cr.acked[w]); ack > 0 && cfg.SyncFault == 0 {
				if ea != nil || eb != nil || decN(a) != ack || decN(b) != ack {
					cr.fail("final:acknowledged-write-lost", fmt.Sprintf("writer %d: last acknowledged %d, final A=%d(%v) B=%d(%v)", w, ack, decN(a), ea, decN(b), eb))
				}
			}
		}
		var g0 []byte
		for i := 0; i < sharedKeys; i++ {
			gv, ge := cr.tGet(keyG(i))
			if ge != nil {
				gv = nil
			}
			if i == 0 {
				g0 = gv
			} else if !bytes.Equal(g0, gv) && cfg.SyncFault == 0 {
				cr.fail("final:shared-group-torn", fmt.Sprintf("final state: shared group keys G00 and G%02d carry tokens %x and %x: no serial order of the batches gives that", i, g0, gv))
			}
		}
		// sequence numbers are unique per entry: look at everything the DB still holds
		if st := leveldb.VerifDump(db); st != nil && cfg.SyncFault == 0 {
			seen := map[uint64]string{}
			dup := func(es []leveldb.VerifEntry) {
				for _, e := range es {
					q := seqOf(e.IKey)
					if prev, ok := seen[q]; ok && prev != string(e.IKey) {
						cr.fail("final:sequence-number-used-twice", fmt.Sprintf("sequence number %d is carried by two different entries: %x and %x", q, prev, e.IKey))
						return
					}
					seen[q] = string(e.IKey)
				}
			}
			dup(st.Mem)
			dup(st.Frozen)
		}
		cdone := make(chan error, 1)
		go func() { cdone <- db.Close() }()
		select {
		case <-cdone:
		case <-time.After(30 * time.Second):
			buf := make([]byte, 1<<20)
			buf = buf[:runtime.Stack(buf, true)]
			cr.fail("close:hang", "Close did not return within 30 s:\n"+blockedSummary(string(buf)))
		}
	}
	return cr
}

func (cr *concRun) stat(name string) *int64 {
	cr.failMu.Lock()
	defer cr.failMu.Unlock()
	if cr.stats == nil {
		cr.stats = map[string]*int64{}
	}
	p := cr.stats[name]
	if p == nil {
		p = new(int64)
		cr.stats[name] = p
	}
	return p
}

func randConcCfg(r *rng.R) ConcCfg {
	o := gen.RandOpts(r)
	o.Cmp = "bytewise"
	o.WriteBuffer = 512 << uint(r.Intn(4))
	o.MaxManifest = 0
	if r.Chance(1, 4) {
		o.MaxManifest = int64(256 << uint(r.Intn(4)))
	}
	cfg := ConcCfg{
		Opts: o, Writers: 1 + r.Intn(6), Readers: 1 + r.Intn(4), Snappers: 1 + r.Intn(3), Rounds: 60 + r.Intn(200),
		PutPairs: r.Bool(), Compact: r.Chance(1, 3), YieldMask: uint32(r.U64()), YieldUs: 20 + r.Intn(400),
		Procs: r.Pick(1, 2, 4, 16), Seed: r.U64(),
	}
	if r.Chance(1, 3) {
		cfg.BigEvery = 7 + r.Intn(20)
	}
	if r.Chance(1, 3) {
		cfg.TxEvery = 5 + r.Intn(20)
	}
	return cfg
}

func init() {
	Registry["C05"] = func(c *Ctx) {
		c.Res.Rule = "concurrent scenarios: 1–6 writers (each owns a key pair set by ONE batch per round, plus private keys, large batches through the transaction path, explicit transactions), 1–4 point readers, 1–3 snapshot/iterator users, optional CompactRange caller, tiny buffers, GOMAXPROCS 1/2/4/16, random subsets of the verif yield points sleeping; oracles: consistent cut in snapshots/iterators, no older state after a newer one, monotone reads, acknowledged ⇒ visible, nothing from the future; in every second run ALL reads are recorded (paced readers) and replayed with the writer/flush/compaction/transaction events through the interleaving model: snapshot acquisition, getMems, version(), release as the reader steps of the model, the snapshot list against db.minSeq(), and every answer (Get, Has, Snapshot.Get, iterator pairs) against the model's lookup at the reader's triple; non-trivial = ≥ 2 goroutine kinds ran and ≥ 100 reads happened; distinct by configuration"
		n := c.Scale(40, 600)
		for i := 0; i < n && c.TimeLeft() && !c.Hung; i++ {
			cfg := randConcCfg(c.R.Fork())
			traced := i%2 == 0
			cr := runConc(cfg, traced)
			if traced && len(cr.fails) == 0 {
				cr.evMu.Lock()
				evs := append([]Event(nil), cr.events...)
				cr.evMu.Unlock()
				concLines(c, evs)
				c.Res.CountN("trace", "events", len(evs))
			}
			reads := int64(0)
			for k, v := range cr.stats {
				c.Res.CountN("activity", k, int(atomic.LoadInt64(v)))
				reads += atomic.LoadInt64(v)
			}
			c.Res.Count("gomaxprocs", fmt.Sprint(cfg.Procs))
			c.Res.Count("writers", fmt.Sprint(cfg.Writers))
			c.Res.Eval(fmt.Sprintf("%+v", cfg), reads >= 100)
			if i < 2 {
				c.Res.Sample(cfg)
			}
			if len(cr.fails) > 0 {
				c.Res.Violate(cr.sigs[0], cr.fails[0], map[string]interface{}{"config": cfg, "all": cr.fails})
				if cr.sigs[0] == "hang" || cr.sigs[0] == "close:hang" {
					c.Hung = true
				}
				return
			}
		}
	}
}

// tracedReadsPerReader / tracedReadsPerSnapper bound the read operations of one reader goroutine in a TRACED run: there
// every read is recorded (the snapshot list of the model is driven by all acquisitions and releases), so the
// readers are paced and stop after their share; the untraced runs read at full speed.
const (
	tracedReadsPerReader  = 300
	tracedReadsPerSnapper = 30
)

func (cr *concRun) pace(rr *rng.R, mine *int, limit int) bool {
	if *mine >= limit {
		return false
	}
	*mine++
	time.Sleep(time.Duration(20+rr.Intn(500)) * time.Microsecond)
	return true
}

// concLines renders the recorded synchronisation events in the grammar of lean/GoLevel/Driver/Conc.lean.
func concLines(c *Ctx, evs []Event) {
	r := &renderer{ops: map[int]*opState{}}
	r.emit("conc reset 0")
	flushTable := int64(-1)
	var gseq uint64
	var gn int
	var gtoks, trToks []string
	for _, e := range evs {
		arg := func(i int) interface{} {
			if i < len(e.Args) {
				return e.Args[i]
			}
			return nil
		}
		if r.reader(e) {
			continue
		}
		switch e.Point {
		case "w.group":
			// the entries go into the buffer only after the journal write succeeded (`w.applied`)
			gseq, _ = arg(0).(uint64)
			gn, _ = arg(1).(int)
			gtoks = nil
		case "w.batches":
			gtoks, _ = arg(1).([]string)
		case "w.applied":
			line := fmt.Sprintf("conc insert %d %d", gseq, gn)
			if len(gtoks) > 0 {
				line += " " + strings.Join(gtoks, " ")
			}
			if gseq > r.pub+1 {
				r.setPub(gseq - 1) // numbers consumed without entries: the model skips them here
			}
			r.emit(line)
		case "w.publish":
			seq, _ := arg(0).(uint64)
			r.setPub(seq)
			r.emit(fmt.Sprintf("conc publish %d", seq))
		case "m.rotate":
			r.emit("conc rotate")
		case "c.flush":
			if rec, _ := arg(1).(*leveldb.VerifRecord); rec != nil && len(rec.Added) == 1 {
				flushTable = rec.Added[0].Num
			}
		case "v.install":
			if rec, _ := arg(1).(*leveldb.VerifRecord); rec != nil && flushTable >= 0 {
				for _, t := range rec.Added {
					if t.Num == flushTable {
						r.emit("conc flushinstall")
						flushTable = -1
						break
					}
				}
			}
		case "m.drop":
			r.emit("conc drop")
		case "c.table":
			minSeq, _ := arg(1).(uint64)
			r.emit(fmt.Sprintf("conc compact %d", minSeq))
		case "t.open":
			base, _ := arg(0).(uint64)
			trToks = nil
			if base > r.pub {
				r.setPub(base)
			}
			r.emit(fmt.Sprintf("conc tropen %d", base))
		case "t.put":
			tok, _ := arg(1).(string)
			trToks = append(trToks, tok)
		case "t.installed":
			seq, _ := arg(0).(uint64)
			line := fmt.Sprintf("conc trinstall %d", seq)
			if len(trToks) > 0 {
				line += " " + strings.Join(trToks, " ")
			}
			r.emit(line)
		case "t.publish":
			seq, _ := arg(0).(uint64)
			r.setPub(seq)
			r.emit(fmt.Sprintf("conc trpublish %d", seq))
		case "t.discard":
			// Discard moves db.seq over the numbers the transaction used: logged before it does
			seq, _ := arg(0).(uint64)
			r.setPub(seq)
			r.emit(fmt.Sprintf("conc trdone %d", seq))
		case "t.done":
			// the sequence number the transaction reached (after a commit, or after the t.discard above, the model's
			// transaction is already gone: a no-op)
			if seq, ok := arg(0).(uint64); ok {
				r.emit(fmt.Sprintf("conc trdone %d", seq))
			} else {
				r.emit("conc trdone")
			}
		}
	}
	for _, l := range r.flatten() {
		c.Lean(l, "ok")
	}
	c.Res.CountN("trace", "reader-acquisitions-moved-before-a-publication", r.moved)
	c.Res.CountN("trace", "reader-acquisitions-stale", r.stale)
}
