package checks

// C08 tie to the Lean model: trace validation of the write path under storage faults.
//
// Small dedicated runs (one client, a write buffer that never fills, a journal shorter than one block):
// 6-16 writes of 1-3 puts/deletes, half of them with Sync; 1-3 of the journal Write/Sync operations fail,
// without or with effect.  For every client write the journal operations actually performed, their
// outcomes, the bytes that reached the file and the call's result go to gldriver as `dur w …` lines
// (lean/GoLevel/Driver/Durable.lean), which replays them through the write-path fragment of `Dur.step` and
// must accept every step; at the end the model must predict the contents of the running DB, of the DB
// reopened after Close, and of the DB reopened after a crash that loses every unsynced journal byte.

import (
	"fmt"
	"strings"
	"sync"

	"github.com/syndtr/goleveldb/leveldb"
	"github.com/syndtr/goleveldb/leveldb/opt"
	"github.com/syndtr/goleveldb/leveldb/storage"

	"verif/harness/gen"
	"verif/harness/rng"
	"verif/harness/stor"
)

type c08wEvent struct {
	kind stor.Kind
	mode stor.FaultMode
	n    int
}

type c08wFault struct {
	kind stor.Kind
	k    int // the k-th operation of that kind on the journal after Open
	mode stor.FaultMode
}

func c08wOutcome(m stor.FaultMode) string {
	switch m {
	case stor.FailNoEffect:
		return "fail"
	case stor.FailWithEffect:
		return "faileff"
	}
	return "ok"
}

// c08WriteTraces emits n traces (fewer when a trace has an unexpected shape; these are counted).
func c08WriteTraces(c *Ctx, n int) {
	r := rng.New(c.Seed*0x9e3779b97f4a7c15 + 0xc08)
	for i := 0; i < n && c.TimeLeft(); i++ {
		rr := r.Fork()
		c.Guard("write-trace:harness", i, func() { c08wOne(c, rr) })
	}
}

func c08wOne(c *Ctx, r *rng.R) {
	o := &opt.Options{DisableLargeBatchTransaction: true, NoWriteMerge: r.Chance(1, 2)}
	st := stor.New()
	st.KeepOps(false)
	var db *leveldb.DB
	if err, hung := crCall(crWdTimeout, func() (err error) { db, err = leveldb.Open(st, o); return }); err != nil || hung {
		c.Res.Count("write_trace", "skipped:open")
		return
	}
	// the fault plan: sync faults keep the writer usable, a failed Write poisons it (journal.Writer keeps the error)
	nw := 6 + r.Intn(11)
	var faults []c08wFault
	for i, nf := 0, 1+r.Intn(3); i < nf; i++ {
		f := c08wFault{kind: stor.OpSync, k: 1 + r.Intn(nw/2+1), mode: stor.FailNoEffect}
		if r.Chance(1, 3) {
			f.kind, f.k = stor.OpWrite, 1+r.Intn(nw)
		}
		if r.Chance(1, 2) {
			f.mode = stor.FailWithEffect
		}
		faults = append(faults, f)
	}
	var (
		mu      sync.Mutex
		events  []c08wEvent
		counts  = map[stor.Kind]int{}
		strange string
		jfd     storage.FileDesc
		jlen    int // journal bytes in the file
		jsynced int // of which synced
	)
	st.SetHooks(func(op stor.Op) stor.FaultMode {
		if op.Kind == stor.OpLock || op.Kind == stor.OpUnlock {
			return stor.NoFault
		}
		mu.Lock()
		defer mu.Unlock()
		if op.Fd.Type != storage.TypeJournal || (op.Kind != stor.OpWrite && op.Kind != stor.OpSync) {
			if op.Kind.Mutating() && strange == "" {
				strange = op.String()
			}
			return stor.NoFault
		}
		jfd = op.Fd
		counts[op.Kind]++
		m := stor.NoFault
		for _, f := range faults {
			if f.kind == op.Kind && f.k == counts[op.Kind] {
				m = f.mode
			}
		}
		events = append(events, c08wEvent{op.Kind, m, op.N})
		if m != stor.FailNoEffect {
			if op.Kind == stor.OpWrite {
				jlen += op.N
			} else {
				jsynced = jlen
			}
		}
		return m
	}, nil)
	var lines []string
	add := func(format string, a ...interface{}) { lines = append(lines, fmt.Sprintf(format, a...)) }
	add("dur w reset")
	fired := 0
	scan := func(db *leveldb.DB) (string, bool) {
		var got kvmap
		err, hung := crCall(crWdTimeout, func() (err error) { got, err = crDumpDB(db); return })
		if err != nil || hung {
			return "", false
		}
		return "ok " + crDigest(got), true
	}
	type exp struct{ line, want string }
	var tail []exp
	for i := 0; i < nw; i++ {
		b := new(leveldb.Batch)
		var sb strings.Builder
		nrec := 1 + r.Intn(3)
		for j := 0; j < nrec; j++ {
			k := []byte(fmt.Sprintf("k%d", r.Intn(8)))
			if r.Chance(1, 4) {
				b.Delete(k)
				fmt.Fprintf(&sb, " 0 %s -", gen.Hex(k))
			} else {
				v := []byte(fmt.Sprintf("v%d.%d%s", i, j, strings.Repeat("x", r.Intn(12))))
				b.Put(k, v)
				fmt.Fprintf(&sb, " 1 %s %s", gen.Hex(k), gen.Hex(v))
			}
		}
		sync_ := r.Chance(1, 2)
		mu.Lock()
		events = events[:0]
		before := jlen
		mu.Unlock()
		err, hung := crCall(crWdTimeout, func() error { return db.Write(b, &opt.WriteOptions{Sync: sync_}) })
		if hung {
			c.Res.Count("write_trace", "skipped:hang")
			go db.Close()
			return
		}
		mu.Lock()
		evs := append([]c08wEvent(nil), events...)
		odd := strange
		mu.Unlock()
		shape := len(evs) == 0 && err != nil ||
			len(evs) == 1 && evs[0].kind == stor.OpWrite ||
			len(evs) == 2 && evs[0].kind == stor.OpWrite && evs[1].kind == stor.OpSync
		if odd != "" || !shape || jlen > 30000 {
			c.Res.Count("write_trace", "skipped:shape")
			c.Res.Note("write trace: unexpected operations (%q, %d journal operations in one Write, err=%v)", odd, len(evs), err)
			crCall(crWdTimeout, db.Close)
			return
		}
		add("dur w put %d %d%s", map[bool]int{false: 0, true: 1}[sync_], nrec, sb.String())
		if len(evs) == 0 {
			add("dur w noappend")
		}
		for _, e := range evs {
			if e.mode != stor.NoFault {
				fired++
			}
			if e.kind == stor.OpWrite {
				hexs := "-"
				if e.mode != stor.FailNoEffect {
					data, _ := st.FileBytes(jfd)
					if before+e.n > len(data) {
						c.Res.Count("write_trace", "skipped:shape")
						crCall(crWdTimeout, db.Close)
						return
					}
					hexs = gen.Hex(data[before : before+e.n])
				}
				add("dur w append %s %s", c08wOutcome(e.mode), hexs)
			} else {
				add("dur w sync %s", c08wOutcome(e.mode))
			}
		}
		if err == nil {
			add("dur w ret ok")
		} else {
			add("dur w ret err")
			c.Res.Count("write_trace_calls", "error")
		}
		c.Res.Count("write_trace_calls", "all")
	}
	// the running DB, the DB after Close + Open, the DB after losing the unsynced journal tail + Open
	if d, ok := scan(db); ok {
		tail = append(tail, exp{"dur w scan", d})
	}
	if err, hung := crCall(crWdTimeout, db.Close); err != nil || hung {
		c.Res.Count("write_trace", "skipped:close")
		return
	}
	st.SetHooks(nil, nil)
	reopen := func(img *stor.Stor, line string) {
		var db2 *leveldb.DB
		err, hung := crCall(crWdTimeout, func() (err error) { db2, err = leveldb.Open(img, o); return })
		if hung {
			return
		}
		if err != nil {
			tail = append(tail, exp{line, "err " + crErrClass(err)})
			return
		}
		if d, ok := scan(db2); ok {
			tail = append(tail, exp{line, d})
		}
		crCall(crWdTimeout, db2.Close)
	}
	reopen(st.Clone(), "dur w reopen")
	if jfd.Type == storage.TypeJournal {
		img := st.Clone()
		data, _ := img.FileBytes(jfd)
		if jsynced <= len(data) {
			img.PutFile(jfd, data[:jsynced])
			reopen(img, "dur w crash")
		}
	}
	crLeanMu.Lock()
	for _, l := range lines {
		c.Lean(l, "ok")
	}
	for _, e := range tail {
		c.Lean(e.line, e.want)
	}
	crLeanMu.Unlock()
	c.Res.Count("write_trace", "emitted")
	if fired > 0 {
		c.Res.Count("write_trace", "emitted:with-fired-fault")
	}
}
