package checks

// C19 with Options.Strict == opt.StrictReader exactly (a documented value: "only the reader is strict"): recoverTable
// masks StrictReader out of its private copy of the options so that a damaged block costs only its own entries
// ("lets StrictRecovery doing its job").  With exactly that bit set the mask leaves 0, which opt.Options.GetStrict
// reads as "unset, use DefaultStrict" — StrictReader included: the rebuild stopped at the first damaged block and every
// entry BEHIND it in the table was dropped although its block was intact (defect D58, reported by the wave-14 sub-agent
// of C19 as a side observation and exhibited here).  The same scenario is run with a Strict value that has the
// checksum bit and not the reader bit, where the mask has nothing to do.
//
// Oracle: one byte inside ONE value of a table of ~30 data blocks is altered, the manifest is removed, Recover runs;
// every key but a short run around the altered entry (at most two blocks' worth) must come back with its value.

import (
	"bytes"
	"fmt"

	"github.com/syndtr/goleveldb/leveldb"
	"github.com/syndtr/goleveldb/leveldb/opt"
	"github.com/syndtr/goleveldb/leveldb/storage"
	"github.com/syndtr/goleveldb/leveldb/util"

	"verif/harness/rng"
	"verif/harness/stor"
)

func c19StrictReaderOnly(c *Ctx, n int) {
	stricts := []struct {
		name string
		s    opt.Strict
	}{
		{"StrictReader", opt.StrictReader},
		{"StrictBlockChecksum", opt.StrictBlockChecksum},
		{"StrictReader|StrictBlockChecksum", opt.StrictReader | opt.StrictBlockChecksum},
		{"StrictBlockChecksum|StrictJournalChecksum|StrictCompaction", opt.StrictBlockChecksum | opt.StrictJournalChecksum | opt.StrictCompaction},
	}
	for i := 0; i < n && c.TimeLeft() && len(c.Res.Violations) == 0; i++ {
		r := c.R.Fork()
		seed := r.U64()
		rr := rng.New(seed)
		sc := stricts[i%len(stricts)]
		nk := 200 + rr.Intn(200)
		victim := nk/5 + rr.Intn(nk/2)
		rp := map[string]interface{}{"seed": seed, "strict": sc.name, "keys": nk, "victim": victim,
			"how": "Open on a memory storage with Options{Strict, BlockSize 1024, NoCompression}; put keys key00000.. with 100-byte values; CompactRange (one table); Close; alter one byte inside the value of key <victim> in the table file; remove the manifests and the CURRENT pointer; Recover with the same options; Get every key"}
		st := stor.New()
		st.KeepOps(false)
		o := &opt.Options{Strict: sc.s, BlockSize: 1024, Compression: opt.NoCompression, DisableBlockCache: true}
		db, err := leveldb.Open(st, o)
		if err != nil {
			return
		}
		val := func(k int) []byte {
			return []byte(fmt.Sprintf("val%05d-%s", k, bytes.Repeat([]byte{byte('a' + k%26)}, 90)))
		}
		for k := 0; k < nk; k++ {
			db.Put([]byte(fmt.Sprintf("key%05d", k)), val(k), nil)
		}
		db.CompactRange(util.Range{})
		db.Close()
		var tfd storage.FileDesc
		nt := 0
		for _, fd := range st.Files() {
			if fd.Type == storage.TypeTable {
				tfd = fd
				nt++
			}
		}
		if nt != 1 {
			c.Res.Count("strict_reader_only", "setup-not-one-table")
			continue
		}
		data, _ := st.FileBytes(tfd)
		data = append([]byte(nil), data...)
		pos := bytes.Index(data, val(victim))
		if pos < 0 {
			c.Res.Count("strict_reader_only", "setup-value-not-found")
			continue
		}
		data[pos+20+rr.Intn(60)] ^= 0x01
		st.PutFile(tfd, data)
		for _, fd := range st.Files() {
			if fd.Type == storage.TypeManifest {
				st.DeleteFile(fd)
			}
		}
		st.ClearMeta()
		c.Res.Count("strict_reader_only", sc.name)
		c.Res.Eval(fmt.Sprintf("SR/%d", seed), true)
		db, err = leveldb.Recover(st, o)
		if err != nil {
			c.Res.Violate("recover:strict-reader-only:recover-failed", fmt.Sprintf("Recover with Options.Strict = %s fails on a table with one altered byte: %v", sc.name, err), rp)
			return
		}
		first, last, missing := -1, -1, 0
		for k := 0; k < nk; k++ {
			v, gerr := db.Get([]byte(fmt.Sprintf("key%05d", k)), nil)
			if gerr == nil && bytes.Equal(v, val(k)) {
				continue
			}
			if first < 0 {
				first = k
			}
			last = k
			missing++
		}
		db.Close()
		// a data block of 1024 bytes holds about nine of these entries: the altered block (and, if the byte were in a
		// trailer, nothing else) may be lost
		if missing > 24 || (missing > 0 && (victim < first || victim > last)) {
			c.Res.Violate("recover:strict-reader-only:undamaged-blocks-lost", fmt.Sprintf("Options.Strict = %s: one byte inside the value of key%05d was altered; after Recover %d of %d keys are gone or wrong (key%05d..key%05d): entries in undamaged blocks behind the damaged one were dropped", sc.name, victim, missing, nk, first, last), rp)
			return
		}
	}
}
