package checks

import (
	"bytes"
	"fmt"
	"sort"

	"github.com/syndtr/goleveldb/leveldb"
	"github.com/syndtr/goleveldb/leveldb/iterator"
	"github.com/syndtr/goleveldb/leveldb/opt"
	"github.com/syndtr/goleveldb/leveldb/storage"

	"verif/harness/rng"
	"verif/harness/stor"
)

// ---- C08 part 2: the iterator oracle on damaged data ------------------------------------------------
//
// The statement checked is GoLevel.C02.strict_error_is_reported_db (lean/GoLevel/Props/C02Err.lean): with the
// default options (strict reader, block checksums) every answer a DB iterator gives while Error() is nil is
// the answer of the specification cursor over the sorted list of the pairs the UNDAMAGED database holds;
// the call during which the damage is met returns false, Valid() is false, Key()/Value() are nil and
// Error() is non-nil, and every later call returns false with that same error.  So a forward scan shows a
// gapless prefix of the sorted pairs and then (if it is not complete) an error; a backward scan a gapless
// prefix of the reversed list; Seek(k) lands on the first pair >= k and a Prev after it on the pair before
// that — or an error is reported.  (The previous oracle compared only the set of pairs of one forward scan
// with the expected map.)

type c08Pair struct{ k, v string }

func c08Sorted(expected kvmap, cmp func(a, b []byte) int) []c08Pair {
	out := make([]c08Pair, 0, len(expected))
	for k, v := range expected {
		out = append(out, c08Pair{k, v})
	}
	sort.Slice(out, func(i, j int) bool { return cmp([]byte(out[i].k), []byte(out[j].k)) < 0 })
	return out
}

// c08Sticky: after Error() became err every call returns false, shows nothing, and keeps that error.
func c08Sticky(it iterator.Iterator, err error, probe []byte) string {
	calls := []struct {
		name string
		f    func() bool
	}{
		{"Next", it.Next}, {"Prev", it.Prev}, {"First", it.First}, {"Last", it.Last},
		{"Seek", func() bool { return it.Seek(probe) }}, {"Next", it.Next}, {"Prev", it.Prev},
	}
	for _, cl := range calls {
		ret := cl.f()
		if ret || it.Valid() || it.Key() != nil || it.Value() != nil || it.Error() != err {
			return fmt.Sprintf("after Error()=%v: %s() returned %v, Valid()=%v, Key()=%q, Error()=%v", err, cl.name, ret, it.Valid(), it.Key(), it.Error())
		}
	}
	return ""
}

// c08ScanOracle runs the iterator oracle on db against the pairs of the undamaged database.  It reports at
// most one violation (signature prefix sigp) and returns false then.
func c08ScanOracle(c *Ctx, once *crSigOnce, db *leveldb.DB, expected kvmap, cmp func(a, b []byte) int, r *rng.R, sigp, when string, dc interface{}) bool {
	sorted := c08Sorted(expected, cmp)
	n := len(sorted)
	bad := func(sig, msg string) bool {
		once.report(c, sigp+":"+sig, when+": "+msg, dc)
		return false
	}
	sawErr := false
	// after a call that returned false: nothing shown; with an error, it is sticky
	ended := func(it iterator.Iterator, what string) string {
		if it.Valid() || it.Key() != nil || it.Value() != nil {
			return fmt.Sprintf("%s returned false but Valid()=%v Key()=%q", what, it.Valid(), it.Key())
		}
		if err := it.Error(); err != nil {
			sawErr = true
			return c08Sticky(it, err, []byte("k15"))
		}
		return ""
	}
	// forward scan
	{
		it := db.NewIterator(nil, nil)
		i := 0
		for it.Next() {
			if it.Error() != nil {
				it.Release()
				return bad("iter-valid-with-error", fmt.Sprintf("forward scan: Next() returned true with Error()=%v", it.Error()))
			}
			if i >= n || string(it.Key()) != sorted[i].k || string(it.Value()) != sorted[i].v {
				msg := fmt.Sprintf("forward scan: pair #%d is %q=%.24q, the sorted undamaged contents have %d pairs", i, it.Key(), it.Value(), n)
				if i < n {
					msg = fmt.Sprintf("forward scan: pair #%d is %q=%.24q, expected %q=%.24q (not a gapless prefix of the sorted contents)", i, it.Key(), it.Value(), sorted[i].k, sorted[i].v)
				}
				it.Release()
				return bad("scan-forward-not-a-prefix", msg)
			}
			i++
		}
		if msg := ended(it, "forward scan: Next()"); msg != "" {
			it.Release()
			return bad("iter-after-false", msg)
		}
		if it.Error() == nil && i != n {
			it.Release()
			return bad("scan-silently-incomplete", fmt.Sprintf("forward scan without error returned %d of %d pairs", i, n))
		}
		it.Release()
	}
	// backward scan
	{
		it := db.NewIterator(nil, nil)
		i := 0
		for ok := it.Last(); ok; ok = it.Prev() {
			if it.Error() != nil {
				it.Release()
				return bad("iter-valid-with-error", fmt.Sprintf("backward scan: returned true with Error()=%v", it.Error()))
			}
			j := n - 1 - i
			if j < 0 || string(it.Key()) != sorted[j].k || string(it.Value()) != sorted[j].v {
				msg := fmt.Sprintf("backward scan: pair #%d from the end is %q=%.24q, the sorted undamaged contents have %d pairs", i, it.Key(), it.Value(), n)
				if j >= 0 {
					msg = fmt.Sprintf("backward scan: pair #%d from the end is %q=%.24q, expected %q=%.24q (not a gapless prefix of the reversed sorted contents; Error()=%v)", i, it.Key(), it.Value(), sorted[j].k, sorted[j].v, it.Error())
				}
				it.Release()
				return bad("scan-backward-not-a-prefix", msg)
			}
			i++
		}
		if msg := ended(it, "backward scan: Last()/Prev()"); msg != "" {
			it.Release()
			return bad("iter-after-false", msg)
		}
		if it.Error() == nil && i != n {
			it.Release()
			return bad("scan-silently-incomplete", fmt.Sprintf("backward scan without error returned %d of %d pairs", i, n))
		}
		it.Release()
	}
	// Seek(k) then Prev
	for t := 0; t < 6; t++ {
		var k []byte
		switch {
		case n > 0 && r.Chance(2, 3):
			k = []byte(sorted[r.Intn(n)].k)
		case r.Chance(1, 4):
			k = []byte("zzzzzzzz") // beyond every key: Prev after it is Last
		default:
			k = []byte(fmt.Sprintf("k%02d", r.Intn(31)))
		}
		pos := sort.Search(n, func(i int) bool { return cmp([]byte(sorted[i].k), k) >= 0 })
		it := db.NewIterator(nil, nil)
		ok := it.Seek(k)
		switch {
		case ok && (it.Error() != nil || pos >= n || string(it.Key()) != sorted[pos].k || string(it.Value()) != sorted[pos].v):
			msg := fmt.Sprintf("Seek(%q) shows %q=%.24q with Error()=%v; first pair >= the key in the undamaged contents: index %d of %d", k, it.Key(), it.Value(), it.Error(), pos, n)
			it.Release()
			return bad("seek-wrong-pair", msg)
		case !ok:
			if msg := ended(it, fmt.Sprintf("Seek(%q)", k)); msg != "" {
				it.Release()
				return bad("iter-after-false", msg)
			}
			if it.Error() == nil && pos < n {
				it.Release()
				return bad("seek-hides-pairs", fmt.Sprintf("Seek(%q) returned false without error, the undamaged contents have %q >= it", k, sorted[pos].k))
			}
		}
		if it.Error() == nil {
			ok2 := it.Prev()
			switch {
			case ok2 && (it.Error() != nil || pos-1 < 0 || string(it.Key()) != sorted[pos-1].k || string(it.Value()) != sorted[pos-1].v):
				msg := fmt.Sprintf("Seek(%q) then Prev() shows %q=%.24q with Error()=%v; the pair before index %d of the undamaged contents", k, it.Key(), it.Value(), it.Error(), pos)
				if pos-1 >= 0 {
					msg += fmt.Sprintf(" is %q=%.24q", sorted[pos-1].k, sorted[pos-1].v)
				} else {
					msg += " does not exist"
				}
				it.Release()
				return bad("seek-prev-wrong-pair", msg)
			case !ok2:
				if msg := ended(it, fmt.Sprintf("Seek(%q), Prev()", k)); msg != "" {
					it.Release()
					return bad("iter-after-false", msg)
				}
				if it.Error() == nil && pos > 0 {
					it.Release()
					return bad("seek-prev-hides-pairs", fmt.Sprintf("Seek(%q) then Prev() returned false without error, the undamaged contents have %q before it", k, sorted[pos-1].k))
				}
			}
		}
		it.Release()
	}
	if sawErr {
		c.Res.Count("damage_outcome", "iterator-oracle:"+when+":error-reported-and-sticky")
	} else {
		c.Res.Count("damage_outcome", "iterator-oracle:"+when+":complete-without-error")
	}
	return true
}

// c08DamageD40 builds the layout of defect D40 on the real DB: a level-0 table (written by journal recovery,
// which keeps every version) in which the newer version of the last key — a deletion, or an overwrite — ends one
// block and its older value starts the next; the block with the newer version is damaged.  Backward calls that
// start behind the key (Last; Seek beyond it then Prev) must report the damage and not serve the old value.
func c08DamageD40(c *Ctx, once *crSigOnce, r *rng.R, variant int) {
	o := &opt.Options{BlockSize: 64, Compression: opt.NoCompression, DisableSeeksCompaction: true}
	type lay struct {
		st       *stor.Stor
		fd       storage.FileDesc
		data     []byte
		off      int64
		expected kvmap
	}
	build := func(ysz int) *lay {
		st := stor.New()
		st.KeepOps(false)
		db, err := leveldb.Open(st, o)
		if err != nil {
			return nil
		}
		for i := 0; i < 6; i++ {
			db.Put([]byte(fmt.Sprintf("k%02d", i)), bytes.Repeat([]byte{'x'}, 20), nil)
		}
		db.Put([]byte("y"), bytes.Repeat([]byte{'y'}, ysz), nil)
		db.Put([]byte("z"), bytes.Repeat([]byte{'A'}, 100), nil)
		if variant%2 == 0 {
			db.Delete([]byte("z"), nil)
		} else {
			db.Put([]byte("z"), []byte("B"), nil)
		}
		db.Close()
		if db, err = leveldb.Open(st, o); err != nil { // journal recovery writes the buffer to a level-0 table, all versions kept
			return nil
		}
		leveldb.VerifWaitIdle(db)
		expected, err := crDumpDB(db)
		dump := leveldb.VerifDump(db)
		db.Close()
		if err != nil || dump.Version == nil {
			return nil
		}
		var tables []leveldb.VerifTable
		for _, l := range dump.Version.Levels {
			tables = append(tables, l...)
		}
		if len(tables) != 1 {
			return nil
		}
		fd := storage.FileDesc{Type: storage.TypeTable, Num: tables[0].Num}
		data, _ := st.FileBytes(fd)
		ents, blockOf, _, err := crTableBlocks(data, fd, o)
		n := len(ents)
		if err != nil || n < 3 || blockOf[n-1] == blockOf[n-2] || blockOf[n-2] != blockOf[n-3] {
			return nil // the two versions of z share a block, or the newer one does not end its block
		}
		return &lay{st, fd, data, blockOf[n-2], expected}
	}
	var l *lay
	for ysz := 20; ysz < 50 && l == nil; ysz++ {
		l = build(ysz)
	}
	if l == nil {
		c.Res.Count("damage", "d40-layout-not-reached")
		return
	}
	off := int(l.off) + 2 + r.Intn(8)
	dc := &c08DamageCase{Target: "table-data-block(D40 layout: newer version of the last key ends the damaged block, its older value starts the next)", File: crFdName(l.fd), Offset: off, Old: l.data[off], Note: c08OptNote}
	crFlipByte(r, l.data, off)
	dc.New = l.data[off]
	l.st.PutFile(l.fd, l.data)
	c.Res.Count("damage", "table-data-block(D40 layout)")
	var db2 *leveldb.DB
	err, hung := crCall(crWdTimeout, func() (err error) { db2, err = leveldb.Open(l.st, o); return })
	if hung || err != nil {
		c.Res.Count("damage_outcome", "d40-layout:open-failed")
		return
	}
	defer func() { crCall(crWdTimeout, db2.Close) }()
	_, hung = crCall(crWdTimeout, func() error {
		c08ScanOracle(c, once, db2, l.expected, o.GetComparer().Compare, r, "damage:table-data-block", "D40 layout", dc)
		return nil
	})
	if hung {
		once.report(c, "damage:table-data-block:iter:hang", "the iterator oracle did not return within 20 s", dc)
	}
	c.Res.Eval(fmt.Sprintf("damage/d40/%d/%d", variant, off), true)
}
