package checks

// C18 scenario: SetReadOnly while a background compaction sits in its retry loop after a transient storage error.
// The switch must still take: afterwards every write-side call is rejected with ErrReadOnly, reads are served, and
// Close returns.

import (
	"fmt"
	"sync/atomic"

	"github.com/syndtr/goleveldb/leveldb"
	"github.com/syndtr/goleveldb/leveldb/opt"
	"github.com/syndtr/goleveldb/leveldb/storage"

	"github.com/syndtr/goleveldb/leveldb/util"

	"verif/harness/stor"
)

func (k *c18Case) scenarioSwitchedDuringError(base *stor.Stor, m0 kvmap) {
	c := k.c
	k.scen = "switchedRO-during-compaction-error"
	k.tail = nil
	st := base.Clone()
	m := m0.clone()
	db, cls, err := k.open(st, false)
	if cls != "ok" {
		if cls != "hang" {
			c.Res.Violate("open:error", fmt.Sprintf("Open of the storage a cleanly closed DB left failed: %v", err), k.replay("open"))
		}
		return
	}
	var failing int32 = 1
	st.SetHooks(func(op stor.Op) stor.FaultMode {
		if atomic.LoadInt32(&failing) == 1 && op.Kind == stor.OpCreate && op.Fd.Type == storage.TypeTable {
			return stor.FailNoEffect
		}
		return stor.NoFault
	}, nil)
	k.logf("table creations fail from now on")
	// a write, then a flush that cannot succeed: the compaction error state becomes "transient error, retrying"
	key := []byte("c18-err-key")
	pcls, _ := c18Call(func() error { return db.Put(key, []byte("v"), nil) })
	if pcls == "ok" {
		m[string(key)] = "v"
	}
	ccls, cdetail := c18Call(func() error { return db.CompactRange(util.Range{}) })
	k.logf("Put: %s, CompactRange while table creations fail: %s", pcls, ccls)
	c.Res.Count("switched-during-error", "CompactRange under failing creates: "+ccls)
	if ccls == "hang" {
		c.Res.Violate("compactRange:hang-under-failing-creates", cdetail, k.replay("compact"))
		c.Hung = true
		return
	}
	scls, sdetail := c18Call(db.SetReadOnly)
	k.logf("SetReadOnly: %s", scls)
	c.Res.Eval(fmt.Sprintf("%d/switched-during-error/SetReadOnly", k.no), k.nontrivial)
	if scls == "hang" {
		c.Res.Violate("setReadOnly:hang-during-compaction-error", sdetail, k.replay("SetReadOnly"))
		c.Hung = true
		return
	}
	if scls != "ok" && scls != "readonly" {
		c.Res.Violate("setReadOnly:error-during-compaction-error", fmt.Sprintf("SetReadOnly returned %s: %s", scls, sdetail), k.replay("SetReadOnly"))
	}
	atomic.StoreInt32(&failing, 0)
	b := new(leveldb.Batch)
	b.Put([]byte("c18-err-b"), []byte("x"))
	calls := []struct {
		name string
		f    func() error
	}{
		{"Put", func() error { return db.Put([]byte("c18-err-p"), []byte("x"), nil) }},
		{"Delete", func() error { return db.Delete(key, nil) }},
		{"Write", func() error { return db.Write(b, &opt.WriteOptions{Sync: true}) }},
		{"OpenTransaction", func() error {
			tr, err := db.OpenTransaction()
			if err == nil {
				tr.Discard()
			}
			return err
		}},
		{"CompactRange", func() error { return db.CompactRange(util.Range{}) }},
	}
	for _, cl := range calls {
		cls, detail := c18Call(cl.f)
		c.Res.Eval(fmt.Sprintf("%d/switched-during-error/%s", k.no, cl.name), k.nontrivial)
		c.Res.Count("switched-during-error", cl.name+": "+cls)
		switch cls {
		case "readonly":
		case "hang":
			c.Res.Violate("switchedRO-during-error:"+cl.name+":hang", fmt.Sprintf("after SetReadOnly (called while a compaction was retrying after a transient error) %s did not return within the watchdog:\n%s", cl.name, detail), k.replay(cl.name))
			c.Hung = true
			go db.Close()
			return
		default:
			c.Res.Violate("switchedRO-during-error:"+cl.name+":not-rejected", fmt.Sprintf("after SetReadOnly %s returned %s (%s), the property demands a read-only error", cl.name, cls, detail), k.replay(cl.name))
		}
	}
	k.compare(db, m, "switchedRO-during-error:data-mismatch")
	cls, detail := c18Call(db.Close)
	c.Res.Eval(fmt.Sprintf("%d/switched-during-error/Close", k.no), k.nontrivial)
	if cls == "hang" {
		c.Res.Violate("switchedRO-during-error:Close:hang", "Close did not return within the watchdog:\n"+detail, k.replay("Close"))
		c.Hung = true
	} else if cls != "ok" && cls != "other" {
		c.Res.Violate("switchedRO-during-error:Close:"+cls, detail, k.replay("Close"))
	}
}
