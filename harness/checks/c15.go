package checks

import (
	"bytes"
	"fmt"
	"sort"

	"github.com/syndtr/goleveldb/leveldb"
	"github.com/syndtr/goleveldb/leveldb/comparer"

	"verif/harness/gen"
	"verif/harness/rng"
)

func init() { Registry["C15"] = runC15 }

type ikey struct {
	u   []byte
	seq uint64
	kt  uint
}

func (k ikey) enc() []byte { return leveldb.VerifMakeInternalKey(k.u, k.seq, k.kt) }

func randIKey(r *rng.R, univ [][]byte) ikey {
	var seq uint64
	switch r.Intn(8) {
	case 0:
		seq = 0
	case 1:
		seq = (1 << 56) - 1
	case 2:
		seq = uint64(r.Intn(4))
	default:
		seq = r.U64() >> uint(8+r.Intn(56))
	}
	var u []byte
	if r.Chance(2, 3) {
		u = gen.KeyFrom(r, univ)
	} else {
		u = gen.Key(r, 6)
	}
	return ikey{u, seq, uint(r.Intn(2))}
}

func sgn(x int) int {
	if x < 0 {
		return -1
	} else if x > 0 {
		return 1
	}
	return 0
}

func ordStr(x int) string { return [...]string{"lt", "eq", "gt"}[sgn(x)+1] }

func optHex(b []byte) string {
	if b == nil {
		return "nil"
	}
	return gen.Hex(b)
}

// c15Laws checks the order and shortening laws on the implementation for one triple.
func c15Laws(c *Ctx, id string, ic comparer.Comparer, uc comparer.Comparer, a, b, d ikey) {
	ea, eb, ed := a.enc(), b.enc(), d.enc()
	rp := map[string]interface{}{"cmp": id, "a": gen.Hex(ea), "b": gen.Hex(eb), "d": gen.Hex(ed)}
	ab, ba := sgn(ic.Compare(ea, eb)), sgn(ic.Compare(eb, ea))
	if ic.Compare(ea, ea) != 0 {
		c.Res.Violate("iComparer.Compare:irreflexive", "Compare(a,a) != 0", rp)
	}
	if ab != -ba {
		c.Res.Violate("iComparer.Compare:antisymmetric", fmt.Sprintf("Compare(a,b)=%d Compare(b,a)=%d", ab, ba), rp)
	}
	same := uc.Compare(a.u, b.u) == 0 && a.seq == b.seq && a.kt == b.kt
	if (ab == 0) != same {
		c.Res.Violate("iComparer.Compare:eq-iff-same", fmt.Sprintf("Compare=%d same=%v", ab, same), rp)
	}
	// user key ascending, then newest first
	u := sgn(uc.Compare(a.u, b.u))
	want := u
	if u == 0 {
		na, nb := a.seq<<8|uint64(a.kt), b.seq<<8|uint64(b.kt)
		switch {
		case na > nb:
			want = -1
		case na < nb:
			want = 1
		}
	}
	if ab != want {
		c.Res.Violate("iComparer.Compare:order", fmt.Sprintf("Compare=%d want %d", ab, want), rp)
	}
	bd := sgn(ic.Compare(eb, ed))
	if ab < 0 && bd < 0 && ic.Compare(ea, ed) >= 0 {
		c.Res.Violate("iComparer.Compare:transitive", "a<b<d but not a<d", rp)
	}
	// separator as the table writer uses it (nil ⇒ a itself)
	if ab <= 0 {
		sep := ic.Separator(nil, ea, eb)
		x := sep
		if x == nil {
			x = ea
		}
		if ic.Compare(ea, x) > 0 || (ab < 0 && ic.Compare(x, eb) >= 0) {
			c.Res.Violate("iComparer.Separator:between", fmt.Sprintf("sep=%s not in [a,b)", optHex(sep)), rp)
		}
		if sep != nil {
			c.Res.Count("sep", "shortened")
		} else {
			c.Res.Count("sep", "nil")
		}
	}
	suc := ic.Successor(nil, eb)
	y := suc
	if y == nil {
		y = eb
	}
	if ic.Compare(eb, y) > 0 {
		c.Res.Violate("iComparer.Successor:ge", fmt.Sprintf("succ=%s < b", optHex(suc)), rp)
	}
}

// c15Probe checks probe placement on a sorted list built by the implementation's comparer.
func c15Probe(c *Ctx, id string, ic, uc comparer.Comparer, es []ikey, k []byte, s uint64) {
	encs := make([][]byte, 0, len(es))
	seen := map[string]bool{}
	for _, e := range es {
		key := fmt.Sprintf("%x/%d", e.u, e.seq)
		if seen[key] {
			continue
		}
		seen[key] = true
		encs = append(encs, e.enc())
	}
	sort.Slice(encs, func(i, j int) bool { return ic.Compare(encs[i], encs[j]) < 0 })
	p := leveldb.VerifMakeInternalKey(k, s, 1)
	i := sort.Search(len(encs), func(i int) bool { return ic.Compare(encs[i], p) >= 0 })
	// expected: entry of k with largest seq ≤ s
	var best []byte
	var bestSeq uint64
	for _, e := range encs {
		u, q, _, _ := leveldb.VerifParseInternalKey(e)
		if uc.Compare(u, k) == 0 && q <= s && (best == nil || q > bestSeq) {
			best, bestSeq = e, q
		}
	}
	var got []byte
	if i < len(encs) {
		u, _, _, _ := leveldb.VerifParseInternalKey(encs[i])
		if uc.Compare(u, k) == 0 {
			got = encs[i]
		}
	}
	if string(got) != string(best) {
		hx := make([]string, len(encs))
		for j, e := range encs {
			hx[j] = gen.Hex(e)
		}
		c.Res.Violate("iComparer:probe-placement", fmt.Sprintf("first ≥ probe is %s, newest ≤ s is %s", optHex(got), optHex(best)),
			map[string]interface{}{"cmp": id, "sorted": hx, "k": gen.Hex(k), "s": s})
	}
}

func runC15(c *Ctx) {
	c.Res.Rule = "random internal-key triples per comparer (keys from a small universe with shared prefixes, empty key, 0x00/0xff runs; boundary sequence numbers); non-trivial = the two first keys differ; distinct by (comparer, a, b, d); plus probe placement on random sorted lists; thorough adds the exhaustive short-key space"
	r := c.R
	n := c.Scale(40000, 400000)
	for _, id := range gen.CmpIDs {
		uc := gen.Comparer(id)
		ic := leveldb.VerifIComparer(uc)
		for i := 0; i < n; i++ {
			if i%2000 == 0 {
				// fresh small universe now and then
			}
			univ := gen.Universe(r, 6, 5)
			a, b, d := randIKey(r, univ), randIKey(r, univ), randIKey(r, univ)
			ea, eb := a.enc(), b.enc()
			c.Res.Eval(fmt.Sprintf("%s/%x/%x/%x", id, ea, eb, d.enc()), string(ea) != string(eb))
			c15Laws(c, id, ic, uc, a, b, d)
			// correspondence with the Lean model (sampled: the model run costs more than the Go run)
			if i%4 == 0 {
				c.Lean(fmt.Sprintf("key cmp %s %s %s", id, gen.Hex(ea), gen.Hex(eb)), ordStr(ic.Compare(ea, eb)))
				c.Lean(fmt.Sprintf("key ucmp %s %s %s", id, gen.Hex(a.u), gen.Hex(b.u)), ordStr(uc.Compare(a.u, b.u)))
				c.Lean(fmt.Sprintf("key sep %s %s %s", id, gen.Hex(ea), gen.Hex(eb)), optHex(ic.Separator(nil, ea, eb)))
				c.Lean(fmt.Sprintf("key succ %s %s", id, gen.Hex(eb)), optHex(ic.Successor(nil, eb)))
				c.Lean(fmt.Sprintf("key usep %s %s %s", id, gen.Hex(a.u), gen.Hex(b.u)), optHex(uc.Separator(nil, a.u, b.u)))
				c.Lean(fmt.Sprintf("key usucc %s %s", id, gen.Hex(b.u)), optHex(uc.Successor(nil, b.u)))
				u, s, kt, err := leveldb.VerifParseInternalKey(ea)
				exp := "err"
				if err == nil {
					exp = fmt.Sprintf("%s %d %d", gen.Hex(u), s, kt)
				}
				c.Lean(fmt.Sprintf("key parse %s", gen.Hex(ea)), exp)
				c.Lean(fmt.Sprintf("key make %s %d %d", gen.Hex(a.u), a.seq, a.kt), gen.Hex(ea))
			}
			if i%16 == 0 {
				m := 2 + r.Intn(12)
				es := make([]ikey, m)
				for j := range es {
					es[j] = randIKey(r, univ)
					es[j].seq = uint64(r.Intn(12))
				}
				c15Probe(c, id, ic, uc, es, gen.KeyFrom(r, univ), uint64(r.Intn(13)))
				c.Res.Count("probe", "lists")
			}
			if i < 3 && id == "bytewise" {
				c.Res.Sample(map[string]string{"cmp": id, "a": gen.Hex(ea), "b": gen.Hex(eb), "compare": ordStr(ic.Compare(ea, eb)), "sep": optHex(ic.Separator(nil, ea, eb))})
			}
		}
		c.Res.CountN("comparer", id, n)
	}
	// a comparer that identifies distinct byte strings (trailing blanks ignored) and shortens to the canonical
	// spelling: outside the Lean model (LawfulUCmp.eq_of), so the laws are checked on the implementation only
	{
		uc := gen.Comparer("blankins")
		ic := leveldb.VerifIComparer(uc)
		for i := 0; i < n/4; i++ {
			univ := gen.Universe(r, 5, 4)
			mk := func() ikey {
				k := randIKey(r, univ)
				k.u = append(append([]byte{}, k.u...), bytes.Repeat([]byte{' '}, r.Intn(3))...)
				return k
			}
			a, b, d := mk(), mk(), mk()
			c.Res.Eval(fmt.Sprintf("blankins/%x/%x", a.enc(), b.enc()), string(a.u) != string(b.u))
			c15Laws(c, "blankins", ic, uc, a, b, d)
		}
		c.Res.CountN("comparer", "blankins(non-injective, laws only)", n/4)
	}
	// malformed stream for the parser
	for i := 0; i < c.Scale(2000, 20000); i++ {
		b := r.Bytes(r.Intn(12))
		u, s, kt, err := leveldb.VerifParseInternalKey(b)
		exp := "err"
		if err == nil {
			exp = fmt.Sprintf("%s %d %d", gen.Hex(u), s, kt)
			c.Res.Count("parse", "ok")
		} else {
			c.Res.Count("parse", "err")
		}
		c.Lean(fmt.Sprintf("key parse %s", gen.Hex(b)), exp)
	}
	if c.Thorough {
		// exhaustive: all user keys over {0x00,'a',0xff} up to length 3 × boundary seqs × both kinds
		var keys [][]byte
		var rec func(p []byte, d int)
		rec = func(p []byte, d int) {
			keys = append(keys, append([]byte(nil), p...))
			if d == 0 {
				return
			}
			for _, ch := range []byte{0x00, 'a', 0xff} {
				rec(append(p, ch), d-1)
			}
		}
		rec(nil, 3)
		seqs := []uint64{0, 1, 2, (1 << 56) - 1}
		var all []ikey
		for _, k := range keys {
			for _, s := range seqs {
				for kt := uint(0); kt < 2; kt++ {
					all = append(all, ikey{k, s, kt})
				}
			}
		}
		for _, id := range gen.CmpIDs {
			uc := gen.Comparer(id)
			ic := leveldb.VerifIComparer(uc)
			for i, a := range all {
				for j, b := range all {
					d := all[(i*7+j*13)%len(all)]
					c.Res.Eval(fmt.Sprintf("x/%s/%d/%d", id, i, j), i != j)
					c15Laws(c, id, ic, uc, a, b, d)
				}
			}
		}
		c.Res.Count("exhaustive", fmt.Sprintf("%d keys squared x 5 comparers", len(all)))
	}
}
