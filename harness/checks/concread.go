package checks

import (
	"encoding/hex"
	"fmt"
	"hash/fnv"
	"runtime"
	"strings"
	"sync"
	"sync/atomic"

	"github.com/syndtr/goleveldb/leveldb"
	"github.com/syndtr/goleveldb/leveldb/iterator"
)

// ---------------------------------------------------------------------------------------------
// The READER side of a traced concurrent run (C05).
//
// Every read the scenario issues (DB.Get, DB.NewIterator, GetSnapshot / Snapshot.Get / Release) goes through a
// wrapper that registers the operation under the id of the calling goroutine; the hook events that the DB
// emits on that goroutine while the call runs are then attributed to the operation:
//
//   s.acquire seq      (acquireSnapshot, under snapsMu)        → conc racq <rid> <seq>   /  conc snap <sid> <seq>
//   r.seq seq          (db.get, for Snapshot.Get)              → conc racqs <rid> <sid> <seq>
//   r.getmems frozen   (getMems, under memMu.RLock)            → conc rmems <rid> <0|1>
//   r.version id       (session.version, under vmu)            → conc rver <rid>
//   s.release seq ref  (releaseSnapshot, under snapsMu)        → conc rrel <rid>         /  conc snaprel <sid>
//   s.minseq m         (minSeq returned the front element)     → conc minseq <m>
//   (the call returned)                                        → conc rget <rid> <key> <found|notfound> <value-id>
//
// The hooks sit INSIDE the critical sections, next to those of the events they race with (m.rotate / m.drop under
// memMu, v.install under vmu, all snapshot-list events under snapsMu), so their order in the log is the order of
// the critical sections.  The one exception is db.seq, which is read and written without a lock: every change of
// db.seq is logged BEFORE it takes effect (w.publish, t.publish, t.discard), and acquireSnapshot logs the value
// AFTER it read it.  A sequence number that is older than the log position of its s.acquire event therefore
// belongs before the first logged publication above it; renderReaders moves the line there — never further
// back than the last publication logged before the operation began (a value older than that is a stale read
// of db.seq and is left in place for the model to refuse).
//
// A read that is answered by a memdb never calls version(): its `rver` is emitted together with its release
// (the model's reader pins a version anyway; the answer is that of the buffers by lookup_order_irrelevant).

type readKind int

const (
	opGet readKind = iota
	opIter
	opSnap
	opSnapGet
	opSnapRel
)

type readOp struct {
	id   int
	kind readKind
	sid  int
}

type readRes struct {
	Key   []byte
	Found bool
	Val   []byte // nil with Found: any value (a Has)
}

type readTrace struct {
	cur     sync.Map // goroutine id → *readOp
	nextOp  int64
	nextSid int64
	ops     int64 // traced read operations so far
}

func goid() uint64 {
	var buf [64]byte
	n := runtime.Stack(buf[:], false)
	// "goroutine 123 ["
	var id uint64
	for _, c := range buf[10:n] {
		if c < '0' || c > '9' {
			break
		}
		id = id*10 + uint64(c-'0')
	}
	return id
}

func valID(v []byte) string {
	h := fnv.New64a()
	h.Write(v)
	return hex.EncodeToString(h.Sum(nil))
}

// readerPoints are the hook points attributed to the read operation of the calling goroutine.
func readerPoint(p string) bool {
	switch p {
	case "s.acquire", "s.release", "s.minseq", "r.getmems", "r.version", "r.seq":
		return true
	}
	return false
}

// sinkReader is called from the VerifSink (on the goroutine that hit the hook).
func (cr *concRun) sinkReader(point string, args []interface{}) {
	op := -1
	if v, ok := cr.rt.cur.Load(goid()); ok {
		op = v.(*readOp).id
	}
	if op < 0 && point != "s.minseq" && point != "s.acquire" && point != "s.release" {
		return // getMems / version() of a compaction, of VerifDump, of an iterator's sampling …
	}
	cr.evMu.Lock()
	cr.events = append(cr.events, Event{point, append([]interface{}{op}, args...)})
	cr.evMu.Unlock()
}

func (cr *concRun) begin(kind readKind, sid int) *readOp {
	op := &readOp{id: int(atomic.AddInt64(&cr.rt.nextOp, 1)), kind: kind, sid: sid}
	atomic.AddInt64(&cr.rt.ops, 1)
	cr.evMu.Lock()
	cr.events = append(cr.events, Event{"h.begin", []interface{}{op.id, int(kind), sid}})
	cr.evMu.Unlock()
	cr.rt.cur.Store(goid(), op)
	return op
}

func (cr *concRun) end(op *readOp, res []readRes) {
	cr.rt.cur.Delete(goid())
	cr.evMu.Lock()
	cr.events = append(cr.events, Event{"h.end", []interface{}{op.id, res}})
	cr.evMu.Unlock()
}

// tGet is DB.Get, traced when the run records reader events.
func (cr *concRun) tGet(key []byte) ([]byte, error) {
	if !cr.traceReads {
		return cr.db.Get(key, nil)
	}
	op := cr.begin(opGet, 0)
	v, err := cr.db.Get(key, nil)
	var res []readRes
	if err == nil {
		res = []readRes{{cp(key), true, cp(v)}}
	} else if err == leveldb.ErrNotFound {
		res = []readRes{{cp(key), false, nil}}
	}
	cr.end(op, res)
	return v, err
}

// tHas is DB.Has (only traced runs issue it: the answer is checked by the model alone).
func (cr *concRun) tHas(key []byte) {
	op := cr.begin(opGet, 0)
	ok, err := cr.db.Has(key, nil)
	var res []readRes
	if err == nil {
		res = []readRes{{cp(key), ok, nil}}
	}
	cr.end(op, res)
}

// tIter is DB.NewIterator; the results of the walk are reported with tIterDone.
func (cr *concRun) tIter() (iterator.Iterator, *readOp) {
	if !cr.traceReads {
		return cr.db.NewIterator(nil, nil), nil
	}
	op := cr.begin(opIter, 0)
	it := cr.db.NewIterator(nil, nil)
	cr.end(op, nil)
	return it, op
}

func (cr *concRun) tIterDone(op *readOp, res []readRes) {
	if op == nil {
		return
	}
	cr.evMu.Lock()
	cr.events = append(cr.events, Event{"h.end", []interface{}{op.id, res}})
	cr.evMu.Unlock()
}

func (cr *concRun) tSnap() (*leveldb.Snapshot, int, error) {
	if !cr.traceReads {
		sn, err := cr.db.GetSnapshot()
		return sn, 0, err
	}
	sid := int(atomic.AddInt64(&cr.rt.nextSid, 1))
	op := cr.begin(opSnap, sid)
	sn, err := cr.db.GetSnapshot()
	cr.end(op, nil)
	return sn, sid, err
}

func (cr *concRun) tSnapGet(sn *leveldb.Snapshot, sid int, key []byte) ([]byte, error) {
	if !cr.traceReads {
		return sn.Get(key, nil)
	}
	op := cr.begin(opSnapGet, sid)
	v, err := sn.Get(key, nil)
	var res []readRes
	if err == nil {
		res = []readRes{{cp(key), true, cp(v)}}
	} else if err == leveldb.ErrNotFound {
		res = []readRes{{cp(key), false, nil}}
	}
	cr.end(op, res)
	return v, err
}

func (cr *concRun) tSnapRelease(sn *leveldb.Snapshot, sid int) {
	if !cr.traceReads {
		sn.Release()
		return
	}
	op := cr.begin(opSnapRel, sid)
	sn.Release()
	cr.end(op, nil)
}

// entTokens decodes the batches of a write group (w.batches) into the entry tokens of a `conc insert` line.
type entCollector struct{ toks []string }

func (e *entCollector) Put(key, value []byte) {
	e.toks = append(e.toks, "p"+hexField(key)+":"+valID(value))
}
func (e *entCollector) Delete(key []byte) { e.toks = append(e.toks, "d"+hexField(key)) }

func hexField(b []byte) string {
	if len(b) == 0 {
		return "-"
	}
	return hex.EncodeToString(b)
}

func batchTokens(bs []*leveldb.Batch) []string {
	ec := &entCollector{}
	for _, b := range bs {
		_ = b.Replay(ec)
	}
	return ec.toks
}

// ---------------------------------------------------------------------------------------------
// rendering

type cline struct {
	text string   // without reader ids: "%R<op>" stands for the model index of the reader of operation <op>
	pre  []cline  // lines moved to just before this one (acquisitions that read db.seq before this publication took effect)
	acq  int      // > 0: this line creates the model reader of operation acq
}

type opState struct {
	kind     readKind
	sid      int
	beginPub int // index into pubs of the last publication logged before the operation began (-1: none)
	acquired bool
	mems     bool
	ver      bool
	released bool
	seq      uint64
}

type pubChange struct {
	line          int // index into lines
	before, after uint64
}

type renderer struct {
	lines []cline
	pubs  []pubChange
	pub   uint64
	ops   map[int]*opState
	moved int
	stale int
}

func (r *renderer) emit(text string) { r.lines = append(r.lines, cline{text: text}) }

func (r *renderer) setPub(to uint64) {
	if to > r.pub {
		r.pubs = append(r.pubs, pubChange{line: len(r.lines), before: r.pub, after: to})
		r.pub = to
	}
}

// place puts a line that read db.seq = seq where the model has that value: here if it is the current one,
// otherwise just before the logged publication that moved db.seq above it (not before beginPub).
func (r *renderer) place(l cline, seq uint64, beginPub int) {
	if seq >= r.pub {
		r.lines = append(r.lines, l)
		return
	}
	for j := len(r.pubs) - 1; j >= 0 && j >= beginPub; j-- {
		p := r.pubs[j]
		if p.before <= seq && seq < p.after {
			if p.before == seq {
				r.lines[p.line].pre = append(r.lines[p.line].pre, l)
				r.moved++
				return
			}
			break
		}
		if p.after <= seq {
			break
		}
	}
	r.stale++
	r.lines = append(r.lines, l) // the model refuses it: the value is not one db.seq could have had since the call began
}

func (r *renderer) flatten() []string {
	var flat []cline
	var walk func(l cline)
	walk = func(l cline) {
		for _, p := range l.pre {
			walk(p)
		}
		flat = append(flat, l)
	}
	for _, l := range r.lines {
		walk(l)
	}
	rid := map[int]int{}
	out := make([]string, 0, len(flat))
	for _, l := range flat {
		if l.acq > 0 {
			rid[l.acq] = len(rid)
		}
		t := l.text
		if i := strings.Index(t, "%R"); i >= 0 {
			j := i + 2
			for j < len(t) && t[j] >= '0' && t[j] <= '9' {
				j++
			}
			var op int
			fmt.Sscanf(t[i+2:j], "%d", &op)
			n, ok := rid[op]
			if !ok {
				n = 1 << 30 // a line of a reader that never acquired: refused by the model
			}
			t = t[:i] + fmt.Sprint(n) + t[j:]
		}
		out = append(out, t)
	}
	return out
}

// reader renders one reader-side event; returns false if the event is not a reader event.
func (r *renderer) reader(e Event) bool {
	argInt := func(i int) int {
		if i < len(e.Args) {
			if v, ok := e.Args[i].(int); ok {
				return v
			}
		}
		return -1
	}
	argU := func(i int) uint64 {
		if i < len(e.Args) {
			if v, ok := e.Args[i].(uint64); ok {
				return v
			}
		}
		return 0
	}
	switch e.Point {
	case "h.begin":
		r.ops[argInt(0)] = &opState{kind: readKind(argInt(1)), sid: argInt(2), beginPub: len(r.pubs) - 1}
	case "s.acquire":
		op, seq := argInt(0), argU(1)
		o := r.ops[op]
		if o == nil {
			r.emit(fmt.Sprintf("conc untracked-acquire %d", seq)) // bad-op: every acquisition of a traced run is a traced read
			return true
		}
		o.acquired, o.seq = true, seq
		if o.kind == opSnap {
			r.place(cline{text: fmt.Sprintf("conc snap %d %d", o.sid, seq)}, seq, o.beginPub)
		} else {
			r.place(cline{text: fmt.Sprintf("conc racq %%R%d %d", op, seq), acq: op}, seq, o.beginPub)
		}
	case "r.seq":
		op, seq := argInt(0), argU(1)
		if o := r.ops[op]; o != nil && o.kind == opSnapGet && !o.acquired {
			o.acquired, o.seq = true, seq
			r.lines = append(r.lines, cline{text: fmt.Sprintf("conc racqs %%R%d %d %d", op, o.sid, seq), acq: op})
		}
	case "r.getmems":
		op := argInt(0)
		if o := r.ops[op]; o != nil && o.acquired && !o.mems {
			o.mems = true
			f := 0
			if b, _ := e.Args[1].(bool); b {
				f = 1
			}
			r.emit(fmt.Sprintf("conc rmems %%R%d %d", op, f))
		}
	case "r.version":
		op := argInt(0)
		if o := r.ops[op]; o != nil && o.mems && !o.ver {
			o.ver = true
			r.emit(fmt.Sprintf("conc rver %%R%d", op))
		}
	case "s.release":
		op := argInt(0)
		o := r.ops[op]
		if o == nil {
			r.emit(fmt.Sprintf("conc untracked-release %d", argU(1)))
			return true
		}
		if o.kind == opSnapRel {
			r.emit(fmt.Sprintf("conc snaprel %d", o.sid))
		} else if o.acquired && !o.released {
			r.release(op, o)
		}
	case "s.minseq":
		r.emit(fmt.Sprintf("conc minseq %d", argU(1)))
	case "h.end":
		op := argInt(0)
		o := r.ops[op]
		if o == nil || !o.acquired {
			return true
		}
		if o.kind == opSnapGet && !o.released {
			r.release(op, o) // the end of snap.mu.RLock
		}
		if res, _ := e.Args[1].([]readRes); res != nil && o.mems {
			for _, x := range res {
				if x.Found && x.Val == nil {
					r.emit(fmt.Sprintf("conc rget %%R%d %s found *", op, hexField(x.Key)))
				} else if x.Found {
					r.emit(fmt.Sprintf("conc rget %%R%d %s found %s", op, hexField(x.Key), valID(x.Val)))
				} else {
					r.emit(fmt.Sprintf("conc rget %%R%d %s notfound -", op, hexField(x.Key)))
				}
			}
		}
	default:
		return false
	}
	return true
}

func (r *renderer) release(op int, o *opState) {
	o.released = true
	if o.mems && !o.ver {
		o.ver = true
		r.emit(fmt.Sprintf("conc rver %%R%d", op)) // answered by a memdb: version() was never called
	}
	r.emit(fmt.Sprintf("conc rrel %%R%d", op))
}
