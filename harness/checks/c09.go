package checks

import (
	"bytes"
	"fmt"
	"runtime"
	"runtime/debug"
	"strings"
	"sync"
	"sync/atomic"
	"time"

	"github.com/syndtr/goleveldb/leveldb"
	"github.com/syndtr/goleveldb/leveldb/opt"
	"github.com/syndtr/goleveldb/leveldb/storage"
	"github.com/syndtr/goleveldb/leveldb/util"

	"verif/harness/gen"
	"verif/harness/rng"
	"verif/harness/stor"
)

// C09: no call blocks forever and Close always returns.
//
// Two families of scenarios, every public call under a watchdog:
//  A. single client + injected storage failures on the paths that hold the write lock or the
//     compaction-commit lock; after every call returned the lock state (verif export) must be "nothing
//     held" (or "held by the open transaction"); after the faults stop, a Put must return and Close must
//     return.
//  B. many clients (Put, large Write, OpenTransaction/Commit/Discard, CompactRange, readers) racing with
//     one Close, no faults: every call returns, Close returns.

type c09Call struct {
	name string
	f    func() error
}

// watch runs f under a watchdog; ok=false means it did not return.
func watch(d time.Duration, f func() error) (err error, ok bool) {
	ch := make(chan error, 1)
	go func() { ch <- f() }()
	select {
	case err = <-ch:
		return err, true
	case <-time.After(d):
		return nil, false
	}
}

func dumpBlocked() string {
	buf := make([]byte, 1<<20)
	buf = buf[:runtime.Stack(buf, true)]
	return blockedSummary(string(buf))
}

type faultPlan struct {
	Kind   stor.Kind        `json:"kind"`
	FType  storage.FileType `json:"ftype"`
	From   int              `json:"from"`  // first failing occurrence (1-based) counted after arming
	Count  int              `json:"count"` // how many consecutive occurrences fail
	Effect bool             `json:"effect"`
}

type c09Cfg struct {
	Opts   gen.Opts  `json:"opts"`
	Fault  faultPlan `json:"fault"`
	Script []string  `json:"script"`
	Seed   uint64    `json:"seed"`
}

// scenario A
func runC09Faults(c *Ctx, cfg c09Cfg) (sig, msg string) {
	st := stor.New()
	st.KeepOps(false)
	var armed int32
	var seen int32
	st.SetHooks(func(op stor.Op) stor.FaultMode {
		if atomic.LoadInt32(&armed) == 0 || op.Kind != cfg.Fault.Kind || op.Fd.Type != cfg.Fault.FType {
			return stor.NoFault
		}
		n := int(atomic.AddInt32(&seen, 1))
		if n >= cfg.Fault.From && n < cfg.Fault.From+cfg.Fault.Count {
			if cfg.Fault.Effect {
				return stor.FailWithEffect
			}
			return stor.FailNoEffect
		}
		return stor.NoFault
	}, nil)
	db, err := leveldb.Open(st, cfg.Opts.Options())
	if err != nil {
		return "open:error", err.Error()
	}
	r := rng.New(cfg.Seed)
	val := func(n int) []byte { return bytes.Repeat([]byte{'v'}, n) }
	// some data first so that flushes/compactions have work
	for i := 0; i < 40; i++ {
		db.Put([]byte(fmt.Sprintf("k%03d", r.Intn(60))), val(50+r.Intn(100)), nil)
	}
	leveldb.VerifWaitIdle(db)
	atomic.StoreInt32(&armed, 1)
	var tr *leveldb.Transaction
	const wd = 30 * time.Second // commit retries back off 1 s, 2 s, 4 s … while holding compCommitLk: bursts are kept ≤ 3 so that this bound is generous
	for step, name := range cfg.Script {
		var call func() error
		switch name {
		case "put":
			call = func() error { return db.Put([]byte(fmt.Sprintf("k%03d", r.Intn(60))), val(50+r.Intn(100)), nil) }
		case "putsync":
			call = func() error {
				return db.Put([]byte(fmt.Sprintf("k%03d", r.Intn(60))), val(50), &opt.WriteOptions{Sync: true})
			}
		case "bigwrite":
			call = func() error {
				b := new(leveldb.Batch)
				for i := 0; i < 6; i++ {
					b.Put([]byte(fmt.Sprintf("b%03d", r.Intn(60))), val(cfg.Opts.WriteBuffer/4+10))
				}
				return db.Write(b, nil)
			}
		case "tropen":
			if tr != nil {
				continue
			}
			call = func() error {
				t, err := db.OpenTransaction()
				if err == nil {
					tr = t
				}
				return err
			}
		case "trput":
			if tr == nil {
				continue
			}
			call = func() error {
				return tr.Put([]byte(fmt.Sprintf("t%03d", r.Intn(60))), val(cfg.Opts.WriteBuffer/3), nil)
			}
		case "trcommit":
			if tr == nil {
				continue
			}
			t := tr
			call = func() error {
				err := t.Commit()
				if err != nil {
					t.Discard() // the documented reaction to a failed Commit
				}
				return err
			}
			tr = nil
		case "trdiscard":
			if tr == nil {
				continue
			}
			t := tr
			call = func() error { t.Discard(); return nil }
			tr = nil
		case "compact":
			call = func() error { return db.CompactRange(util.Range{}) }
		case "get":
			call = func() error { _, err := db.Get([]byte(fmt.Sprintf("k%03d", r.Intn(60))), nil); return err }
		case "iter":
			call = func() error {
				it := db.NewIterator(nil, nil)
				for i := 0; i < 20 && it.Next(); i++ {
				}
				it.Release()
				return nil
			}
		case "heal":
			atomic.StoreInt32(&armed, 0)
			continue
		}
		err, ok := watch(wd, call)
		c.Res.Count("calls", name)
		if !ok {
			ls := leveldb.VerifLocks(db)
			return name + ":hang", fmt.Sprintf("step %d: %s did not return within %v (fault %+v); locks: %+v\n%s", step, name, wd, cfg.Fault, ls, dumpBlocked())
		}
		if err != nil {
			c.Res.Count("errors", name)
		}
	}
	atomic.StoreInt32(&armed, 0)
	if tr != nil {
		tr.Discard()
	}
	// Once the failures have stopped the DB serves calls again, or fails them at once with its persistent
	// error: every kind of call must RETURN (retries with back-off are allowed for: generous watchdog).
	const wd2 = 45 * time.Second
	after := []c09Call{
		{"put", func() error { return db.Put([]byte("after"), []byte("x"), nil) }},
		{"transaction", func() error {
			t, err := db.OpenTransaction()
			if err != nil {
				return err
			}
			t.Put([]byte("after-tx"), val(cfg.Opts.WriteBuffer+50), nil)
			if err := t.Commit(); err != nil {
				t.Discard()
				return err
			}
			return nil
		}},
		{"bigwrite", func() error {
			b := new(leveldb.Batch)
			b.Put([]byte("after-big"), val(cfg.Opts.WriteBuffer+50))
			return db.Write(b, nil)
		}},
		{"compact", func() error { return db.CompactRange(util.Range{}) }},
		{"get", func() error { _, err := db.Get([]byte("after"), nil); return err }},
	}
	for _, a := range after {
		if _, ok := watch(wd2, a.f); !ok {
			return a.name + "-after-faults:hang", fmt.Sprintf("%s issued after the faults stopped did not return within %v (script %v, fault %+v); locks: %+v\n%s", a.name, wd2, cfg.Script, cfg.Fault, leveldb.VerifLocks(db), dumpBlocked())
		}
	}
	if _, ok := watch(wd2, db.Close); !ok {
		return "close:hang", fmt.Sprintf("Close did not return within %v (script %v, fault %+v)\n%s", wd2, cfg.Script, cfg.Fault, dumpBlocked())
	}
	return "", ""
}

// scenario B
type c09Race struct {
	Opts      gen.Opts `json:"opts"`
	Clients   int      `json:"clients"`
	CloseAtUs int      `json:"close_at_us"`
	Procs     int      `json:"procs"`
	Seed      uint64   `json:"seed"`
	Readers   bool     `json:"readers"` // many tables, a table cache of 1-2 entries, clients mostly reading
}

func runC09Race(c *Ctx, cfg c09Race) (sig, msg string) {
	st := stor.New()
	st.KeepOps(false)
	if cfg.Procs > 0 {
		defer runtime.GOMAXPROCS(runtime.GOMAXPROCS(cfg.Procs))
	}
	db, err := leveldb.Open(st, cfg.Opts.Options())
	if err != nil {
		return "open:error", err.Error()
	}
	r := rng.New(cfg.Seed)
	if cfg.Readers {
		// many small tables, so that every read has to open one and evicts another from the table cache
		for i := 0; i < 600; i++ {
			db.Put([]byte(fmt.Sprintf("r%04d", i)), bytes.Repeat([]byte{'r'}, 60), nil)
		}
		db.CompactRange(util.Range{})
		leveldb.VerifWaitIdle(db)
	}
	var wg sync.WaitGroup
	var stop, closing int32
	var iterMu sync.RWMutex
	var panicMu sync.Mutex
	var panicked string
	start := make(chan struct{})
	for i := 0; i < cfg.Clients; i++ {
		wg.Add(1)
		go func(i int, rr *rng.R) {
			defer wg.Done()
			defer func() {
				if p := recover(); p != nil {
					panicMu.Lock()
					if panicked == "" {
						panicked = fmt.Sprintf("client %d panicked: %v\n%s", i, p, debug.Stack())
					}
					panicMu.Unlock()
				}
			}()
			<-start
			for n := 0; n < 400 && atomic.LoadInt32(&stop) == 0; n++ {
				var err error
				op := rr.Intn(8)
				if cfg.Readers && op != 0 {
					op = 6
				}
				switch op {
				case 0, 1, 2:
					err = db.Put([]byte(fmt.Sprintf("k%02d-%03d", i, n)), bytes.Repeat([]byte{'v'}, rr.Intn(200)), nil)
				case 3:
					b := new(leveldb.Batch)
					b.Put([]byte(fmt.Sprintf("b%02d", i)), bytes.Repeat([]byte{'w'}, cfg.Opts.WriteBuffer+10))
					err = db.Write(b, nil)
				case 4:
					var tr *leveldb.Transaction
					tr, err = db.OpenTransaction()
					if err == nil {
						tr.Put([]byte(fmt.Sprintf("t%02d", i)), []byte("x"), nil)
						if rr.Bool() {
							if err = tr.Commit(); err != nil {
								tr.Discard()
							}
						} else {
							tr.Discard()
						}
					}
				case 5:
					err = db.CompactRange(util.Range{})
				case 6:
					if cfg.Readers {
						_, err = db.Get([]byte(fmt.Sprintf("r%04d", rr.Intn(600))), nil)
					} else {
						_, err = db.Get([]byte(fmt.Sprintf("k%02d-%03d", i, rr.Intn(n+1))), nil)
					}
					if err == leveldb.ErrNotFound {
						err = nil
					}
				default:
					// Close's documented precondition: all iterators are released before Close is called
					iterMu.RLock()
					if atomic.LoadInt32(&closing) == 0 {
						it := db.NewIterator(nil, nil)
						for j := 0; j < 10 && it.Next(); j++ {
						}
						err = it.Error()
						it.Release()
					}
					iterMu.RUnlock()
				}
				if err == leveldb.ErrClosed {
					return
				}
			}
		}(i, r.Fork())
	}
	close(start)
	time.Sleep(time.Duration(cfg.CloseAtUs) * time.Microsecond)
	atomic.StoreInt32(&closing, 1)
	iterMu.Lock() // wait for the iterators in use; none is created afterwards
	iterMu.Unlock()
	if _, ok := watch(30*time.Second, db.Close); !ok {
		atomic.StoreInt32(&stop, 1)
		return "close:hang:racing-clients", fmt.Sprintf("Close racing %d clients did not return within 30 s\n%s", cfg.Clients, dumpBlocked())
	}
	done := make(chan struct{})
	go func() { wg.Wait(); close(done) }()
	select {
	case <-done:
	case <-time.After(30 * time.Second):
		atomic.StoreInt32(&stop, 1)
		return "call:hang:after-close", fmt.Sprintf("client calls did not return within 30 s after Close returned\n%s", dumpBlocked())
	}
	panicMu.Lock()
	defer panicMu.Unlock()
	if panicked != "" {
		return "call:panic:racing-close", panicked
	}
	return "", ""
}

// scenario C: SetReadOnly racing Close.  The yield point after SetReadOnly's closed check lets Close run in
// the window; whether the write-lock token is then left behind depends on two `select` coin flips, so the
// scenario is repeated a few times.
func runC09SetReadOnlyClose(attempts int) (sig, msg string, fired int) {
	for a := 0; a < attempts; a++ {
		st := stor.New()
		st.KeepOps(false)
		db, err := leveldb.Open(st, &opt.Options{})
		if err != nil {
			return "open:error", err.Error(), a
		}
		closeDone := make(chan struct{})
		var once sync.Once
		leveldb.VerifYield = func(p string) {
			if p == "s.readonly.locked" {
				once.Do(func() {
					go func() { db.Close(); close(closeDone) }()
					time.Sleep(3 * time.Millisecond) // let Close set the flag and close closeC
				})
			}
		}
		_, returned := watch(10*time.Second, db.SetReadOnly)
		leveldb.VerifYield = nil
		if !returned {
			return "setReadOnly:close-race:hang", "SetReadOnly racing Close did not return\n" + dumpBlocked(), a
		}
		select {
		case <-closeDone:
		case <-time.After(10 * time.Second):
			return "setReadOnly:close-race:write-lock-leaked:close-hang", fmt.Sprintf("attempt %d: SetReadOnly raced Close (Close ran between SetReadOnly's closed check and its second select) and returned; Close has not returned after 10 s\n%s", a, dumpBlocked()), a
		}
	}
	return "", "", attempts
}

func init() {
	Registry["C09"] = func(c *Ctx) {
		c.Res.Rule = "A: single-client scripts (put, sync put, large batch, explicit transaction open/put/commit/discard, CompactRange, get, iterator) with one injected failure window (kind × file type × first occurrence × length × with/without effect) on journal/manifest/table create, write, sync, remove; after every return the lock state (verif export) must be free or owned by the open transaction; after healing, Put and Close must return; D: with the level-0 count at WriteL0PauseTrigger and every table compaction failing, OpenTransaction / a large batch return the error and the calls issued after the failures stop must return; E: SetReadOnly while a memdb flush / a table compaction sits in its retry loop after failing table creations (failures going on or stopping right after SetReadOnly, Close afterwards or started between SetReadOnly's two selects): SetReadOnly, every later Put/Delete/Write/large Write/OpenTransaction/CompactRange/Get and Close must return, and after a nil SetReadOnly no write-side call may succeed; F: a table compaction reports a corruption while SetReadOnly is between its two selects (yield point), then Close: both return and Close keeps the write-lock token (defect repaired by 832d000); B: 4–24 clients mixing Put, large Write, transactions, CompactRange and readers racing one Close, no faults; G: one kind of write-side call (transactions incl. a client that takes ErrClosed from Commit as final and never calls Discard, Put/Delete/Write on a DB made read-only by SetReadOnly or Options.ReadOnly, SetReadOnly, more closers, a mix) racing Close at yield points (x.write.ok, x.otx.register, x.close.lock): Close and every call return, nothing panics; every call under a watchdog; non-trivial = the fault window was reached or Close raced live clients; distinct by configuration"
		kinds := []stor.Kind{stor.OpSync, stor.OpWrite, stor.OpCreate, stor.OpRemove}
		ftypes := []storage.FileType{storage.TypeManifest, storage.TypeJournal, storage.TypeTable}
		scripts := [][]string{
			{"put", "put", "bigwrite", "put", "heal", "put"},
			{"tropen", "trput", "trput", "trput", "trcommit", "put", "heal", "compact"},
			{"put", "compact", "put", "tropen", "trput", "trdiscard", "heal", "put"},
			{"putsync", "putsync", "bigwrite", "compact", "heal", "get", "iter"},
			{"tropen", "trput", "trcommit", "tropen", "trput", "trcommit", "heal", "put"},
			{"bigwrite", "bigwrite", "put", "compact", "heal", "tropen", "trput", "trcommit"},
		}
		// scenario C first (cheap): the SetReadOnly/Close race of the lock-flow model
		if sig, msg, at := runC09SetReadOnlyClose(c.Scale(16, 200)); sig != "" {
			c.Res.Violate(sig, msg, map[string]interface{}{"scenario": "SetReadOnly racing Close at the s.readonly yield point", "attempt": at})
			c.Res.Count("race", "setreadonly-close-fired")
		} else {
			c.Res.Count("race", "setreadonly-close-clean")
		}
		c.Res.Eval("setreadonly-close", true)
		// scenario F: Close during a Commit that retries a failing manifest write, a compaction waiting for compCommitLk
		for i := 0; i < c.Scale(3, 30) && !c.Hung; i++ {
			seed := c.R.Fork().U64()
			if sig, msg := runC09CommitCloseRace(c, seed); sig != "" {
				c.Res.Violate(sig, msg, map[string]interface{}{"scenario": "close during commit retry", "seed": seed})
				c.Hung = true
			}
			c.Res.Eval(fmt.Sprintf("commit-close/%d", seed), true)
		}
		// scenario D: lock competitors waiting for a failing compaction at the pause trigger
		for i := 0; i < c.Scale(6, 60) && !c.Hung; i++ {
			cfg := c09PauseCfg{Seed: c.R.Fork().U64(), Pause: 2 + i%3, Big: i%2 == 1}
			if sig, msg := runC09Pause(c, cfg); sig != "" {
				c.Res.Violate(sig, msg, cfg)
				c.Hung = true
			}
			c.Res.Eval(fmt.Sprintf("pause/%+v", cfg), true)
		}
		// scenario E: SetReadOnly while a compaction is in its retry loop; F: the lost write lock (regression detector)
		if !c.Hung {
			runC09ReadOnly(c)
		}
		// calls racing Close that could leave Close (or themselves) hanging: transactions opened behind Close's back,
		// writes on a read-only DB taking the lock given back for Close (c18race.go; the whole campaign is C18's)
		runCloseRaces(c, time.Duration(c.Scale(5, 60))*time.Second, true)
		n := c.Scale(70, 1500)
		for i := 0; i < n && c.TimeLeft() && !c.Hung; i++ {
			r := c.R.Fork()
			o := gen.RandOpts(r)
			o.Cmp = "bytewise"
			o.WriteBuffer = 1024 << uint(r.Intn(3))
			o.DisableLargeBatchTx = false
			var sig, msg string
			var replay interface{}
			if i%3 != 2 {
				cfg := c09Cfg{Opts: o, Seed: r.U64(), Script: scripts[r.Intn(len(scripts))],
					Fault: faultPlan{Kind: kinds[r.Intn(len(kinds))], FType: ftypes[r.Intn(len(ftypes))], From: 1 + r.Intn(4), Count: r.Pick(1, 1, 2, 3), Effect: r.Bool()}}
				// A failed manifest *write* poisons the manifest journal writer for good (known finding D8): it is
				// probed once per run (first case), the random part uses the other fault classes so that the
				// watchdog time is spent on unknown territory.
				if i == 0 {
					cfg.Fault.Kind, cfg.Fault.FType = stor.OpWrite, storage.TypeManifest
					cfg.Script = scripts[4]
				} else if cfg.Fault.Kind == stor.OpWrite && cfg.Fault.FType == storage.TypeManifest {
					cfg.Fault.Kind = stor.OpSync
				}
				c.Res.Count("fault", fmt.Sprintf("%s/%s", cfg.Fault.Kind, stor.FtName(cfg.Fault.FType)))
				sig, msg = runC09Faults(c, cfg)
				replay = cfg
				c.Res.Eval(fmt.Sprintf("%+v", cfg), true)
				if i < 2 {
					c.Res.Sample(cfg)
				}
			} else {
				cfg := c09Race{Opts: o, Clients: 4 + r.Intn(21), CloseAtUs: r.Intn(3000), Procs: r.Pick(1, 2, 4, 16), Seed: r.U64()}
				if i%6 == 5 {
					// reads that must open a table (and evict another) racing Close
					cfg.Readers = true
					cfg.Opts.OpenFiles = 1 + r.Intn(2)
					cfg.Opts.TableSize = 2048
					cfg.Opts.BlockCache = 512
					cfg.CloseAtUs = 1000 + r.Intn(7000)
					cfg.Procs = 16
				}
				c.Res.Count("race", fmt.Sprintf("clients-%d", cfg.Clients/8*8))
				sig, msg = runC09Race(c, cfg)
				replay = cfg
				c.Res.Eval(fmt.Sprintf("%+v", cfg), true)
			}
			if sig != "" {
				if strings.Contains(msg, "compactionTransact") && strings.Contains(msg, "CompCommitLk:true") {
					sig = "compactionCommit:retry-holding-compCommitLk:" + sig
				}
				c.Res.Violate(sig, msg, replay)
				if i == 0 && strings.HasPrefix(sig, "compactionCommit:retry-holding-compCommitLk:") {
					continue // the probe of the known class; the goroutines it leaves behind sleep in their back-off
				}
				c.Hung = true // stuck goroutines of this DB remain: stop generating in this process
				return
			}
		}
	}
}
