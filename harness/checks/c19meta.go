package checks

import (
	"bytes"
	"encoding/binary"
	"fmt"

	"verif/harness/rng"
)

// Part C of C19 (wp64; findings 1, 2 and 5 of the Recover hunt wp60): Recover on settled DBs whose live tables are
// damaged in the parts that hold no entry.
//
//	C-metaindex-damage  one byte of the metaindex block (payload, type byte or checksum) of one, two or all live
//	                    tables altered, plus a manifest variant.  The metaindex block only says where the filter
//	                    block is: NOTHING may be lost — the oracle of part A applies unchanged (full scan and every
//	                    Get equal the plain map, the DB is used, closed and reopened).
//	C-footer-handle     the footer of one live table rewritten under an intact magic so that the metaindex or the
//	                    index handle does not lie within the file: offset beyond the end (by a few bytes / far), a
//	                    length reaching beyond the end by up to 1 MiB, 2^62, 2^63, 2^64-1, an overflowing varint.
//	                    (Lengths between 2^27 and 2^48 are not generated: a reader that believes the footer would
//	                    allocate and checksum gigabytes in each of the parallel workers, or die without a
//	                    recoverable panic.)  The footer carries no checksum, such a table cannot be read: all its
//	                    entries count as damaged.  The oracle of part B applies with them marked lost: Recover
//	                    succeeds without panic, everything whose newest version lies in another table or the journal
//	                    comes back exactly, nothing is invented, scan and Get of the recovered DB work without error
//	                    (a table accepted by Recover must be readable afterwards), use, Close, Open.
//
// Signatures: recover:metaindex-damage:<oracle>, recover:footer-handle:<oracle>.
const c19HowC = c19How + "; part C: damaged_blocks lists the altered byte (metaindex-damage: inside the metaindex block that starts at block_start) or the table whose footer was rewritten (footer-handle: see footer_rewrite)"

// c19FooterHandles parses the two block handles of a table file's footer.
func c19FooterHandles(data []byte) (h [4]uint64, ok bool) {
	if len(data) < 48 {
		return h, false
	}
	foot := data[len(data)-48:]
	p := 0
	for i := range h {
		v, n := binary.Uvarint(foot[p:])
		if n <= 0 {
			return h, false
		}
		h[i] = v
		p += n
	}
	return h, p <= 40
}

func c19Uv(x uint64) []byte {
	var b [binary.MaxVarintLen64]byte
	return append([]byte{}, b[:binary.PutUvarint(b[:], x)]...)
}

func c19PartC(c *Ctx, once *crSigOnce, d *c19DB, h *c19Hist, r *rng.R, i int) {
	if len(d.tables) == 0 {
		return
	}
	if i%2 == 0 {
		c19MetaDamage(c, once, d, h, r)
	} else {
		c19FooterHandle(c, once, d, h, r)
	}
}

func c19MetaDamage(c *Ctx, once *crSigOnce, d *c19DB, h *c19Hist, r *rng.R) {
	cs := &c19Case{Hist: h, Manifest: c19Variants[r.Intn(4)], VarSeed: r.U64(), How: c19HowC, Class: "metaindex-damage"}
	vr := rng.New(cs.VarSeed)
	img := d.st.Clone()
	c19ApplyManifest(img, d, cs, vr)
	_, tis, ok := c19Collect(c, d, img, h)
	if !ok {
		return
	}
	n := 1 + vr.Intn(2)
	if vr.Chance(1, 4) {
		n = len(tis)
	}
	perm := make([]int, len(tis))
	for j := range perm {
		perm[j] = j
	}
	for j := len(perm) - 1; j > 0; j-- {
		k := vr.Intn(j + 1)
		perm[j], perm[k] = perm[k], perm[j]
	}
	for j := 0; j < n && j < len(tis); j++ {
		ti := tis[perm[j]]
		fh, ok := c19FooterHandles(ti.data)
		if !ok || int(fh[0]+fh[1])+5 > len(ti.data)-48 {
			c.Res.Count("skipped", "C:footer-unreadable-before-damage")
			return
		}
		off := int(fh[0]) + vr.Intn(int(fh[1])+5)
		dm := c19Damage{Table: ti.fd.Num, Offset: off, Block: int64(fh[0]), Old: ti.data[off]}
		crFlipByte(vr, ti.data, off)
		dm.New = ti.data[off]
		cs.Damage = append(cs.Damage, dm)
		img.PutFile(ti.fd, ti.data)
	}
	c.Res.Count("variant", "C:metaindex-damage:"+cs.Manifest)
	c.Res.Count("C_metaindex_tables_damaged", c14BucketSafe(len(cs.Damage)))
	c.Res.Eval(fmt.Sprintf("C/meta/%d/%v", h.Seed, cs.Damage), len(d.tables) >= 2 && d.deleted > 0)
	c19Recover(c, once, d, img, cs, nil, vr)
}

func c19FooterHandle(c *Ctx, once *crSigOnce, d *c19DB, h *c19Hist, r *rng.R) {
	cs := &c19Case{Hist: h, Manifest: c19Variants[r.Intn(4)], VarSeed: r.U64(), How: c19HowC, Class: "footer-handle"}
	vr := rng.New(cs.VarSeed)
	img := d.st.Clone()
	c19ApplyManifest(img, d, cs, vr)
	vers, tis, ok := c19Collect(c, d, img, h)
	if !ok {
		return
	}
	// the newest tables are read last by recoverTable (ascending file numbers): prefer one that is not the first,
	// so that the buffer pool has served other tables before
	ti := tis[vr.Intn(len(tis))]
	fh, ok := c19FooterHandles(ti.data)
	if !ok {
		c.Res.Count("skipped", "C:footer-unreadable-before-damage")
		return
	}
	size := uint64(len(ti.data))
	field := vr.Intn(4)
	names := []string{"metaindex.offset", "metaindex.length", "index.offset", "index.length"}
	parts := [4][]byte{c19Uv(fh[0]), c19Uv(fh[1]), c19Uv(fh[2]), c19Uv(fh[3])}
	var what string
	switch k := vr.Intn(10); {
	case k < 3: // just beyond the end
		v := size - 48 + 1 + uint64(vr.Intn(64))
		if field&1 == 1 {
			v = size - 48 - fh[field-1] + 1 + uint64(vr.Intn(64))
		}
		parts[field], what = c19Uv(v), fmt.Sprintf("%s=%d (file size %d)", names[field], v, size)
	case k < 5: // far beyond, still cheap for a reader that believes it
		v := size + uint64(vr.Intn(1<<20))
		parts[field], what = c19Uv(v), fmt.Sprintf("%s=%d (file size %d)", names[field], v, size)
	case k < 8: // absurd
		v := []uint64{1 << 62, 1 << 63, 1<<64 - 1}[vr.Intn(3)]
		parts[field], what = c19Uv(v), fmt.Sprintf("%s=%d", names[field], v)
	default: // a varint that overflows 64 bits
		ov := bytes.Repeat([]byte{0xff}, 11)
		if vr.Chance(1, 2) {
			ov = append(bytes.Repeat([]byte{0x80}, 9), 0x02)
		}
		parts[field], what = ov, fmt.Sprintf("%s=varint %x", names[field], ov)
	}
	var hs []byte
	for _, p := range parts {
		hs = append(hs, p...)
	}
	if len(hs) > 40 {
		// keep the handle area: the other handle becomes a short (equally out-of-place) one
		other := (field/2 ^ 1) * 2
		parts[other], parts[other+1] = c19Uv(1), c19Uv(1)
		hs = hs[:0]
		for _, p := range parts {
			hs = append(hs, p...)
		}
		what += ", the other handle 1+1"
	}
	foot := ti.data[len(ti.data)-48:]
	copy(foot, make([]byte, 40))
	copy(foot, hs)
	cs.Footer = what
	cs.Damage = []c19Damage{{Table: ti.fd.Num, Offset: len(ti.data) - 48, Block: -1}}
	lost := 0
	for _, v := range ti.vs {
		if v != nil && !v.lost {
			v.lost = true
			lost++
		}
	}
	img.PutFile(ti.fd, ti.data)
	c.Res.Count("variant", "C:footer-handle:"+cs.Manifest)
	c.Res.Count("C_footer_rewrite", names[field])
	c.Res.Eval(fmt.Sprintf("C/footer/%d/%d/%s", h.Seed, ti.fd.Num, what), lost > 0)
	c19Recover(c, once, d, img, cs, vers, vr)
}
