package checks

import (
	"errors"
	"fmt"
	"reflect"
	"runtime"
	"runtime/debug"
	"sort"
	"strings"
	"syscall"
	"time"

	"github.com/syndtr/goleveldb/leveldb"
	"github.com/syndtr/goleveldb/leveldb/iterator"
	"github.com/syndtr/goleveldb/leveldb/storage"
	"github.com/syndtr/goleveldb/leveldb/table"
	"github.com/syndtr/goleveldb/leveldb/util"

	"verif/harness/stor"
)

// ---------------------------------------------------------------------------------------------
// C18 machinery: calling one method under a watchdog, classifying what it returned, the hand-written
// method tables (checked against reflection), and the probe record that ties one call to the Lean table.

const c18Watchdog = 10 * time.Second

// c18Class maps an error to the error classes of GoLevel/Model/Lifecycle.lean.
func c18Class(err error) string {
	switch {
	case err == nil:
		return "ok"
	case err == leveldb.ErrNotFound:
		return "notfound"
	case err == leveldb.ErrClosed:
		return "closed"
	case err == leveldb.ErrReadOnly:
		return "readonly"
	case err == leveldb.ErrSnapshotReleased, err == leveldb.ErrIterReleased, err == table.ErrReaderReleased:
		return "released"
	case err == storage.ErrLocked, errors.Is(err, syscall.EAGAIN), errors.Is(err, syscall.EWOULDBLOCK):
		return "locked"
	case err.Error() == "leveldb: transaction already closed": // errTransactionDone is not exported
		return "txdone"
	}
	return "other"
}

// c18Call runs f under the watchdog; a panic is the class "panic", no return within 10 s is "hang"
// (detail = goroutine dump).
func c18Call(f func() error) (cls, detail string) {
	type res struct{ cls, detail string }
	ch := make(chan res, 1)
	go func() {
		defer func() {
			if p := recover(); p != nil {
				ch <- res{"panic", fmt.Sprintf("panic: %v\n%s", p, debug.Stack())}
			}
		}()
		err := f()
		d := ""
		if err != nil {
			d = err.Error()
		}
		ch <- res{c18Class(err), d}
	}()
	select {
	case r := <-ch:
		return r.cls, r.detail
	case <-time.After(c18Watchdog):
		buf := make([]byte, 1<<20)
		buf = buf[:runtime.Stack(buf, true)]
		return "hang", blockedSummary(string(buf))
	}
}

// ---- the method tables (by hand; c18Coverage compares them with reflection) --------------------

var c18DBMethods = []string{"Close", "CompactRange", "Delete", "Get", "Get:miss", "GetProperty", "GetProperty:bad",
	"GetSnapshot", "Has", "NewIterator", "OpenTransaction", "Put", "SetReadOnly", "SizeOf", "Stats",
	"Write", "Write:empty", "Write:nil", "Write:large"}
var c18SnapMethods = []string{"Get", "Get:miss", "Has", "NewIterator", "Release", "String"}
var c18TxMethods = []string{"Commit", "Delete", "Discard", "Get", "Get:miss", "Has", "NewIterator", "Put", "Write", "Write:empty"}
var c18IterMethods = []string{"First", "Last", "Seek", "Next", "Prev", "Valid", "Key", "Value", "Error", "Release", "SetReleaser"}

// c18Coverage: every exported method of the value's type must have a row in the table and vice versa.
func c18Coverage(c *Ctx, v interface{}, typ string, table []string) {
	have := map[string]bool{}
	for _, m := range table {
		have[strings.SplitN(m, ":", 2)[0]] = true
	}
	t := reflect.TypeOf(v)
	seen := map[string]bool{}
	for i := 0; i < t.NumMethod(); i++ {
		n := t.Method(i).Name
		seen[n] = true
		if strings.HasPrefix(n, "Verif") {
			continue
		}
		if !have[n] {
			c.Res.Violate("coverage:"+typ+"."+n+":not-in-table", "exported method "+typ+"."+n+" has no row in the C18 method table: the check does not cover it", map[string]string{"type": typ, "method": n})
		}
	}
	for n := range have {
		if !seen[n] {
			c.Res.Violate("coverage:"+typ+"."+n+":no-such-method", "the C18 method table names "+typ+"."+n+" which the type no longer has", map[string]string{"type": typ, "method": n})
		}
	}
	c.Res.Count("coverage", fmt.Sprintf("%s: %d exported methods, %d table rows", typ, t.NumMethod(), len(table)))
}

// ---- probes -----------------------------------------------------------------------------------

type c18Probe struct {
	recv, method string
	f            func() error // the call; the returned error is what gets classified
	trig         bool         // may start background work where background loops run (reads, writes, moves, releases)
	write        bool         // must be rejected with ErrReadOnly on a read-only DB
	void         bool         // the Go method has no error result (and the class is not derived from Error())
	after        func(cls string)
}

// c18Env is one DB in one lifecycle state together with the handles the probes act on.
type c18Env struct {
	k      *c18Case
	mode   string // openRW openRW+tx openRO switchedRO closed
	db     *leveldb.DB
	st     *stor.Stor
	m      kvmap
	hit    []byte // a key present in m (nil if m is empty)
	miss   []byte // a key absent from m
	wb     int    // write buffer size
	exact  bool   // no background loop can run in this state: storage operation counts are exact
	bg     bool   // background loops exist
	noLean bool   // do not emit model lines (used when re-running a call for diagnosis)
}

func (e *c18Env) dbProbes(withClose bool) []c18Probe {
	db := e.db
	hit := e.hit
	var ps []c18Probe
	add := func(p c18Probe) { p.recv = "db"; ps = append(ps, p) }
	add(c18Probe{method: "CompactRange", f: func() error { return db.CompactRange(util.Range{}) }, trig: true, write: true})
	add(c18Probe{method: "Delete", f: func() error { return db.Delete(cp(e.miss), nil) }, trig: true, write: true})
	if hit != nil {
		add(c18Probe{method: "Get", trig: true, f: func() error {
			v, err := db.Get(cp(hit), nil)
			if err == nil && string(v) != e.m[string(hit)] {
				return fmt.Errorf("c18: Get(%x) = %.30q, expected %.30q", hit, v, e.m[string(hit)])
			}
			return err
		}})
		add(c18Probe{method: "Has", trig: true, f: func() error {
			h, err := db.Has(cp(hit), nil)
			if err == nil && !h {
				return fmt.Errorf("c18: Has(%x) = false for a present key", hit)
			}
			return err
		}})
	}
	add(c18Probe{method: "Get:miss", trig: true, f: func() error { _, err := db.Get(cp(e.miss), nil); return err }})
	props := []string{"leveldb.stats", "leveldb.num-files-at-level0", "leveldb.iostats", "leveldb.writedelay", "leveldb.sstables",
		"leveldb.blockpool", "leveldb.cachedblock", "leveldb.openedtables", "leveldb.alivesnaps", "leveldb.aliveiters", "leveldb.compcount"}
	add(c18Probe{method: "GetProperty", f: func() error {
		for _, p := range props {
			if _, err := db.GetProperty(p); err != nil {
				return err
			}
		}
		return nil
	}})
	add(c18Probe{method: "GetProperty:bad", f: func() error {
		_, e1 := db.GetProperty("leveldb.nope")
		_, e2 := db.GetProperty("nope")
		if c18Class(e1) != c18Class(e2) {
			return fmt.Errorf("c18: GetProperty(bad names): %v vs %v", e1, e2)
		}
		return e1
	}})
	add(c18Probe{method: "GetSnapshot", f: func() error {
		s, err := db.GetSnapshot()
		if err == nil {
			s.Release()
		}
		return err
	}})
	add(c18Probe{method: "NewIterator", trig: true, f: func() error {
		it := db.NewIterator(nil, nil)
		defer it.Release()
		err := it.Error()
		if err != nil && (it.First() || it.Valid() || it.Key() != nil) {
			return fmt.Errorf("c18: iterator with error %v yields data", err)
		}
		return err
	}})
	add(c18Probe{method: "OpenTransaction", trig: true, write: true, f: func() error {
		tr, err := db.OpenTransaction()
		if err == nil {
			tr.Discard()
		}
		return err
	}})
	pk := []byte("\x03c18-put")
	add(c18Probe{method: "Put", trig: true, write: true, f: func() error { return db.Put(cp(pk), []byte("put-value"), nil) },
		after: func(cls string) {
			if cls == "ok" {
				e.m[string(pk)] = "put-value"
			}
		}})
	add(c18Probe{method: "SizeOf", f: func() error {
		_, err := db.SizeOf([]util.Range{{}, {Start: cp(e.miss)}})
		return err
	}})
	add(c18Probe{method: "Stats", f: func() error { var s leveldb.DBStats; return db.Stats(&s) }})
	wk := []byte("\x03c18-write")
	add(c18Probe{method: "Write", trig: true, write: true, f: func() error {
		b := new(leveldb.Batch)
		b.Put(cp(wk), []byte("write-value"))
		b.Delete(cp(e.miss))
		return db.Write(b, nil)
	}, after: func(cls string) {
		if cls == "ok" {
			e.m[string(wk)] = "write-value"
		}
	}})
	add(c18Probe{method: "Write:empty", f: func() error { return db.Write(new(leveldb.Batch), nil) }})
	add(c18Probe{method: "Write:nil", f: func() error { return db.Write(nil, nil) }})
	add(c18Probe{method: "Write:large", trig: true, write: true, f: func() error {
		b := new(leveldb.Batch)
		for i := 0; i*64 < e.wb+e.wb/2+128; i++ {
			b.Put([]byte(fmt.Sprintf("\x03c18-L%03d", i)), []byte(strings.Repeat("L", 56)))
		}
		return db.Write(b, nil)
	}, after: func(cls string) {
		if cls == "ok" {
			for i := 0; i*64 < e.wb+e.wb/2+128; i++ {
				e.m[fmt.Sprintf("\x03c18-L%03d", i)] = strings.Repeat("L", 56)
			}
		}
	}})
	if e.mode != "openRW" && e.mode != "openRW+tx" { // on a read-write DB SetReadOnly is the transition, done by the scenario
		add(c18Probe{method: "SetReadOnly", write: false, f: func() error { return db.SetReadOnly() }})
	}
	if withClose {
		add(c18Probe{method: "Close", trig: true, f: func() error { return db.Close() }})
	}
	return ps
}

func (e *c18Env) snapProbes(recv string, s *leveldb.Snapshot, m kvmap) []c18Probe {
	var ps []c18Probe
	add := func(p c18Probe) { p.recv = recv; ps = append(ps, p) }
	var hit []byte
	for _, k := range m.sorted(e.k.cmp, nil, nil) {
		hit = []byte(k)
		break
	}
	if hit != nil {
		add(c18Probe{method: "Get", trig: true, f: func() error {
			v, err := s.Get(cp(hit), nil)
			if err == nil && string(v) != m[string(hit)] {
				return fmt.Errorf("c18: Snapshot.Get(%x) = %.30q, expected %.30q", hit, v, m[string(hit)])
			}
			return err
		}})
		add(c18Probe{method: "Has", trig: true, f: func() error { _, err := s.Has(cp(hit), nil); return err }})
	}
	add(c18Probe{method: "Get:miss", trig: true, f: func() error { _, err := s.Get(cp(e.miss), nil); return err }})
	add(c18Probe{method: "NewIterator", trig: true, f: func() error {
		it := s.NewIterator(nil, nil)
		defer it.Release()
		return it.Error()
	}})
	add(c18Probe{method: "String", void: true, f: func() error {
		if str := s.String(); !strings.HasPrefix(str, "leveldb.Snapshot{") {
			return fmt.Errorf("c18: Snapshot.String() = %q", str)
		}
		return nil
	}})
	return ps
}

func (e *c18Env) snapRelease(recv string, s *leveldb.Snapshot) c18Probe {
	return c18Probe{recv: recv, method: "Release", void: true, f: func() error { s.Release(); return nil }}
}

// txProbes: everything but Commit/Discard (the scenario decides how a live transaction ends).
func (e *c18Env) txProbes(recv string, tr *leveldb.Transaction, m kvmap, hit []byte) []c18Probe {
	var ps []c18Probe
	add := func(p c18Probe) { p.recv = recv; ps = append(ps, p) }
	tk := []byte("\x03c18-trput")
	add(c18Probe{method: "Put", trig: true, f: func() error { return tr.Put(cp(tk), []byte("tr-value"), nil) }, after: func(cls string) {
		if cls == "ok" && m != nil {
			m[string(tk)] = "tr-value"
		}
	}})
	add(c18Probe{method: "Delete", trig: true, f: func() error { return tr.Delete(cp(e.miss), nil) }})
	wk := []byte("\x03c18-trwrite")
	add(c18Probe{method: "Write", trig: true, f: func() error {
		b := new(leveldb.Batch)
		b.Put(cp(wk), []byte("trw-value"))
		return tr.Write(b, nil)
	}, after: func(cls string) {
		if cls == "ok" && m != nil {
			m[string(wk)] = "trw-value"
		}
	}})
	add(c18Probe{method: "Write:empty", f: func() error { return tr.Write(new(leveldb.Batch), nil) }})
	if hit != nil {
		add(c18Probe{method: "Get", trig: true, f: func() error {
			v, err := tr.Get(cp(hit), nil)
			if err == nil && m != nil && string(v) != m[string(hit)] {
				return fmt.Errorf("c18: Transaction.Get(%x) = %.30q, expected %.30q", hit, v, m[string(hit)])
			}
			return err
		}})
		add(c18Probe{method: "Has", trig: true, f: func() error { _, err := tr.Has(cp(hit), nil); return err }})
	}
	add(c18Probe{method: "Get:miss", trig: true, f: func() error { _, err := tr.Get(cp(e.miss), nil); return err }})
	add(c18Probe{method: "NewIterator", trig: true, f: func() error {
		it := tr.NewIterator(nil, nil)
		defer it.Release()
		return it.Error()
	}})
	return ps
}

func (e *c18Env) txCommit(recv string, tr *leveldb.Transaction, done func(cls string)) c18Probe {
	return c18Probe{recv: recv, method: "Commit", trig: true, f: func() error { return tr.Commit() }, after: done}
}

func (e *c18Env) txDiscard(recv string, tr *leveldb.Transaction, done func(cls string)) c18Probe {
	return c18Probe{recv: recv, method: "Discard", trig: true, void: true, f: func() error { tr.Discard(); return nil }, after: done}
}

type c18NopReleaser struct{}

func (c18NopReleaser) Release() {}

// iterProbe builds the probe of one iterator method; the class is that of Error() right after the call.
func (e *c18Env) iterProbe(recv, method string, it iterator.Iterator, seekKey []byte) c18Probe {
	p := c18Probe{recv: recv, method: method}
	var call func()
	switch method {
	case "First":
		call, p.trig = func() { it.First() }, true
	case "Last":
		call, p.trig = func() { it.Last() }, true
	case "Seek":
		call, p.trig = func() { it.Seek(cp(seekKey)) }, true
	case "Next":
		call, p.trig = func() { it.Next() }, true
	case "Prev":
		call, p.trig = func() { it.Prev() }, true
	case "Valid":
		call = func() { it.Valid() }
	case "Key":
		call = func() { it.Key() }
	case "Value":
		call = func() { it.Value() }
	case "Error":
		call = func() {}
	case "Release":
		call, p.trig = func() { it.Release() }, true
	case "SetReleaser":
		call = func() { it.SetReleaser(nil) }
	default:
		panic("c18: unknown iterator method " + method)
	}
	p.f = func() error { call(); return it.Error() }
	return p
}

// quiesce waits until no mutating storage operation has happened for a little while (and, on a
// read-write DB, until the flush and the due compactions are done).
func (e *c18Env) quiesce(window time.Duration) {
	if e.mode == "openRW" && e.db != nil && !e.k.gateClosed() {
		leveldb.VerifWaitIdle(e.db)
	}
	deadline := time.Now().Add(3 * time.Second)
	last, since := e.st.NumMutating(), time.Now()
	for time.Now().Before(deadline) {
		time.Sleep(250 * time.Microsecond)
		if n := e.st.NumMutating(); n != last {
			last, since = n, time.Now()
			continue
		}
		if time.Since(since) >= window {
			return
		}
	}
}

// run executes one probe in this environment: watchdog, classification, storage accounting, model
// lines, and the property's demands for the state.  It returns the class.
func (e *c18Env) run(p c18Probe) string {
	k, c := e.k, e.k.c
	if c.Hung {
		return "skipped"
	}
	ops0, mut0 := e.st.NumOps(), e.st.NumMutating()
	cls, detail := c18Call(p.f)
	tag := e.mode + ":" + c18Type(p.recv) + "." + p.method
	if cls == "hang" {
		c.Res.Violate(tag+":hang", "the call did not return within 10 s; goroutine dump:\n"+detail, k.replay(tag))
		c.Hung = true
		return cls
	}
	if e.bg && p.trig {
		e.quiesce(2 * time.Millisecond)
	}
	nops, nmut := e.st.NumOps()-ops0, e.st.NumMutating()-mut0
	if e.bg && !p.trig && nmut > 0 {
		// a call that cannot start background work coincided with storage mutations: late background work of an
		// earlier call, or really this call?  Let things settle and repeat the call once.
		e.quiesce(20 * time.Millisecond)
		c.Res.Count("c18", "late-background-work")
		m1 := e.st.NumMutating()
		cls2, _ := c18Call(p.f)
		e.quiesce(2 * time.Millisecond)
		if cls2 == cls {
			nmut = e.st.NumMutating() - m1
		}
	}
	if p.after != nil {
		p.after(cls)
	}
	c.Res.Eval(fmt.Sprintf("%d/%s/%s/%s/%s", k.no, k.scen, e.mode, p.recv, p.method), k.nontrivial)
	c.Res.Count("class:"+e.mode+"/"+p.recv, p.method+"="+cls)
	if !e.noLean {
		c.Lean(fmt.Sprintf("life obs %s %s %s %s %d", e.mode, p.recv, p.method, cls, nmut), "conform")
		if e.exact && !(e.mode == "closed" && p.recv == "iter-live") {
			flag := "nomut"
			if nmut > 0 {
				flag = "mut"
			}
			c.Lean(fmt.Sprintf("life %s %s %s", e.mode, p.recv, p.method), cls+" "+flag)
		}
	}
	e.demand(p, tag, cls, detail, nops, nmut)
	return cls
}

func c18Type(recv string) string {
	switch {
	case recv == "db":
		return "DB"
	case strings.HasPrefix(recv, "snap"):
		return "Snapshot"
	case strings.HasPrefix(recv, "tx"):
		return "Transaction"
	}
	return "Iterator"
}

// demand evaluates what property C18 asks of this call in this state, directly on what the
// implementation did.
func (e *c18Env) demand(p c18Probe, tag, cls, detail string, nops, nmut int) {
	k, c := e.k, e.k.c
	rp := func() interface{} { return k.replayWith(tag, map[string]interface{}{"class": cls, "detail": detail, "storage_ops": nops, "mutating_ops": nmut}) }
	typ := c18Type(p.recv)
	released := strings.HasSuffix(p.recv, "-released") || strings.HasSuffix(p.recv, "-released-used")
	txDone := p.recv == "tx-committed" || p.recv == "tx-discarded" || (p.recv == "tx-live" && e.mode == "closed")
	if cls == "panic" {
		if typ == "Iterator" && p.method == "SetReleaser" && released {
			c.Res.Count("c18", "documented panic: SetReleaser on a released iterator")
		} else if typ == "Iterator" && e.mode == "closed" && !released {
			c.Res.Note("%s: %s (%v)", "out-of-scope:iterator-held-over-close:panic", fmt.Sprintf("iterator still held when the DB was closed (the documentation calls this unsafe): %s panics instead of reporting ErrClosed: %s", p.method, detail), rp())
		} else {
			pre := e.mode
			if released {
				pre = "released"
			}
			c.Res.Violate(pre+":"+typ+"."+p.method+":panic", fmt.Sprintf("%s.%s on %s in state %s panicked: %s", typ, p.method, p.recv, e.mode, detail), rp())
		}
		return
	}
	switch {
	case released && typ == "Snapshot":
		if !p.void && cls != "released" {
			c.Res.Violate("released:Snapshot."+p.method+":not-released-error", fmt.Sprintf("released snapshot, DB %s: %s returned class %s (%s)", e.mode, p.method, cls, detail), rp())
		}
	case released && typ == "Iterator":
		moves := map[string]bool{"First": true, "Last": true, "Seek": true, "Next": true, "Prev": true}
		if moves[p.method] && cls != "released" {
			c.Res.Violate("released:Iterator."+p.method+":not-released-error", fmt.Sprintf("released iterator, DB %s: Error() after %s is class %s (%s)", e.mode, p.method, cls, detail), rp())
		}
	case txDone:
		want := cls == "txdone" || (e.mode == "closed" && cls == "closed") || (p.method == "Discard" && cls == "ok")
		if !want {
			if e.mode == "closed" {
				c.Res.Violate("closed:Transaction."+p.method+":not-closed-error", fmt.Sprintf("after DB.Close, %s on a finished transaction (%s) returned class %s (%s)", p.method, p.recv, cls, detail), rp())
			} else {
				// (an empty batch used to be accepted with a nil error by a finished transaction: repaired in the repository)
				c.Res.Violate("released:Transaction."+p.method+":not-done-error", fmt.Sprintf("finished transaction (%s), DB %s: %s returned class %s (%s)", p.recv, e.mode, p.method, cls, detail), rp())
			}
		}
	case e.mode == "closed" && typ == "Iterator":
		if cls != "ok" && cls != "closed" && cls != "released" {
			c.Res.Note("%s: %s (%v)", "out-of-scope:iterator-held-over-close:bogus-error", fmt.Sprintf("iterator still held when the DB was closed (the documentation calls this unsafe): Error() after %s is %q — not ErrClosed, and the files are intact", p.method, detail), rp())
		}
	case e.mode == "closed":
		if !p.void && cls != "closed" {
			c.Res.Violate("closed:"+typ+"."+p.method+":not-closed-error", fmt.Sprintf("after Close, %s.%s returned class %s (%s) instead of ErrClosed", typ, p.method, cls, detail), rp())
		}
	case e.mode == "openRO" || e.mode == "switchedRO":
		switch {
		case p.write && cls != "readonly":
			c.Res.Violate("readonly:"+typ+"."+p.method+":not-rejected", fmt.Sprintf("DB in state %s: %s.%s returned class %s (%s) instead of ErrReadOnly", e.mode, typ, p.method, cls, detail), rp())
		case p.method == "SetReadOnly":
			if cls != "ok" && cls != "readonly" {
				c.Res.Violate("readonly:DB.SetReadOnly:error", fmt.Sprintf("SetReadOnly on a %s DB returned class %s (%s)", e.mode, cls, detail), rp())
			}
		case !p.write:
			want := "ok"
			if strings.HasSuffix(p.method, ":miss") || strings.HasSuffix(p.method, ":bad") {
				want = "notfound"
			}
			if cls != want {
				c.Res.Violate("readonly:"+typ+"."+p.method+":read-failed", fmt.Sprintf("DB in state %s: %s.%s returned class %s (%s), expected %s", e.mode, typ, p.method, cls, detail, want), rp())
			}
		}
	default: // openRW
		want := "ok"
		if strings.HasSuffix(p.method, ":miss") || strings.HasSuffix(p.method, ":bad") {
			want = "notfound"
		}
		if cls != want {
			c.Res.Violate("openRW:"+typ+"."+p.method+":error", fmt.Sprintf("open DB: %s.%s returned class %s (%s), expected %s", typ, p.method, cls, detail, want), rp())
		}
	}
	// storage
	switch {
	case e.mode == "closed" && nops > 0:
		c.Res.Violate("closed:"+typ+"."+p.method+":storage-op", fmt.Sprintf("after Close, %s.%s on %s issued %d storage operations (%d mutating): %s", typ, p.method, p.recv, nops, nmut, c18LastOps(e.st, nops)), rp())
	case e.mode == "openRO" && nmut > 0:
		c.Res.Violate("openRO:"+typ+"."+p.method+":mutates", fmt.Sprintf("DB opened read-only: %s.%s on %s was followed by %d mutating storage operations: %s", typ, p.method, p.recv, nmut, c18LastOps(e.st, nops)), rp())
	}
}

func c18LastOps(st *stor.Stor, n int) string {
	ops := st.Ops()
	if n > len(ops) {
		n = len(ops)
	}
	if n > 12 {
		n = 12
	}
	var out []string
	for _, o := range ops[len(ops)-n:] {
		out = append(out, o.String())
	}
	return strings.Join(out, "; ")
}

// c18Files is a snapshot of everything a storage holds.
func c18Files(st *stor.Stor) map[string]string {
	out := map[string]string{}
	for _, fd := range st.Files() {
		b, _ := st.FileBytes(fd)
		out[fmt.Sprintf("%s-%d", stor.FtName(fd.Type), fd.Num)] = string(b)
	}
	if m, ok := st.Meta(); ok {
		out["meta"] = fmt.Sprintf("%s-%d", stor.FtName(m.Type), m.Num)
	}
	return out
}

func c18FilesDiff(a, b map[string]string) []string {
	var d []string
	for n, x := range a {
		if y, ok := b[n]; !ok {
			d = append(d, n+" removed")
		} else if x != y {
			d = append(d, n+" changed")
		}
	}
	for n := range b {
		if _, ok := a[n]; !ok {
			d = append(d, n+" created")
		}
	}
	sort.Strings(d)
	return d
}

func c18CountJournals(st *stor.Stor) int {
	n := 0
	for _, fd := range st.Files() {
		if fd.Type == storage.TypeJournal {
			n++
		}
	}
	return n
}

func c18CountTables(st *stor.Stor) int {
	n := 0
	for _, fd := range st.Files() {
		if fd.Type == storage.TypeTable {
			n++
		}
	}
	return n
}
