package checks

import (
	wpc16 "verif/harness/wp/c16"
)

func init() { Registry["C16B"] = runC16B }

// runC16B: util.Hash and the Bloom filter, byte for byte.  Generator and oracle live in verif/harness/wp/c16.
// (C16 itself — registered in dbchecks.go — replays DB programs; this is its filter / hash part.)
func runC16B(c *Ctx) {
	c.Res.Rule = "util.Hash: every length 0-17 × fill {00, ff, 80, random} × 5 seeds, plus random inputs (length < 65, every tenth < 1025) " +
		"with random seeds; probe count byte for bitsPerKey 0-1200 and five values ≥ 2^31; key sets: bitsPerKey 1-64 × four sizes " +
		"(< 9, < 101, < 2001, 1000-2000), bitsPerKey {0, 65, 100, 144, 145, 255, 371-373, 400, 415, 1000} × two sizes, large sets " +
		"(10000-30000 keys, thorough up to 60000), ten (bitsPerKey ≥ 2^31-1, 1-50 keys) pairs whose product wraps uint32; keys of " +
		"length 0-40: runs of 00 / ff, shared prefixes, two-letter alphabet, random; per set the generated filter (byte exact), " +
		"Contains for all members (large sets: 400 sampled) and as many non-members (a quarter of them near misses: one bit flipped " +
		"or one byte appended); Contains on raw filters (every k byte 0-255 on 1-4 byte filters, random 1-48 byte filters). " +
		"One evaluation = one hash input, one bitsPerKey (k cases), one (bitsPerKey, key set), or one (raw filter, key) query. " +
		"Non-trivial = non-empty hash input; bitsPerKey > 0; a set of which ≥ 1 member was queried, none absent, filter has a bit set; " +
		"raw filter of ≥ 2 bytes. Distinct by input (bitsPerKey + checksum of the key list for sets)."
	sz := wpc16.Sizes{Hashes: 20000, Reps: 1, LargeSets: []int{10000, 20000, 30000}, RawFilter: 300}
	if c.Thorough {
		sz = wpc16.Sizes{Hashes: 200000, Reps: 8, LargeSets: []int{10000, 20000, 30000, 60000}, RawFilter: 3000}
	}
	wpc16.Run(c.R.Fork(), sz, wpSink(c))
}
