package checks

import (
	"bufio"
	"encoding/json"
	"fmt"
	"os"
	"os/exec"
	"path/filepath"
	"sort"
	"strings"
	"sync"
	"sync/atomic"
	"time"

	"github.com/syndtr/goleveldb/leveldb"
	"github.com/syndtr/goleveldb/leveldb/opt"
	"github.com/syndtr/goleveldb/leveldb/storage"
	"github.com/syndtr/goleveldb/leveldb/util"

	"verif/harness/gen"
	"verif/harness/rng"
	"verif/harness/stor"
)

func init() { Registry["C08"] = runC08 }

// c08Fault fails the K-th .. (K+N-1)-th operation of (Kind, file type), counted from the moment the
// faults are armed (after the first Open for phase "run", before the reopen for phase "reopen").
type c08Fault struct {
	Kind stor.Kind `json:"kind"`
	Type string    `json:"file_type"`
	K    int       `json:"k"`
	N    int       `json:"n"`
	Mode string    `json:"mode"` // no-effect | with-effect
}

func (f c08Fault) String() string {
	return fmt.Sprintf("%s/%s#%d x%d %s", f.Kind, f.Type, f.K, f.N, f.Mode)
}

type c08Plan struct {
	Workload *crSpec    `json:"workload"`
	Phase    string     `json:"phase"` // run | reopen
	Faults   []c08Fault `json:"faults"`
	Note     string     `json:"options_note"`
}

// crSigOnce reports one violation per signature and counts the rest.
type crSigOnce struct {
	mu   sync.Mutex
	seen map[string]int
}

func (s *crSigOnce) report(c *Ctx, sig, msg string, replay interface{}) {
	s.mu.Lock()
	if s.seen == nil {
		s.seen = map[string]int{}
	}
	s.seen[sig]++
	first := s.seen[sig] == 1
	s.mu.Unlock()
	c.Res.Count("signature", sig)
	if first {
		c.Res.Violate(sig, msg, replay)
	}
}

type c08Injector struct {
	mu      sync.Mutex
	armed   int32
	counts  map[string]int // per kind/type since arming (under the storage lock)
	total   map[string]int // per kind/type over the whole run
	faults  []c08Fault
	fired   []stor.Op
	lastHit int                 // index into faults of the last injected fault, -1 none
	ctx     string              // client call in progress (set by the runner)
	ctxOf   map[string][]string // per kind/type: the call context of the 1st, 2nd, ... armed operation
}

func (fi *c08Injector) setCtx(s string) { fi.mu.Lock(); fi.ctx = s; fi.mu.Unlock() }

func c08NewInjector(faults []c08Fault) *c08Injector {
	return &c08Injector{counts: map[string]int{}, total: map[string]int{}, faults: faults, lastHit: -1, ctx: "idle", ctxOf: map[string][]string{}}
}

func (fi *c08Injector) hook(op stor.Op) stor.FaultMode {
	if op.Kind == stor.OpLock || op.Kind == stor.OpUnlock {
		return stor.NoFault
	}
	fi.mu.Lock()
	defer fi.mu.Unlock()
	key := string(op.Kind) + "/" + stor.FtName(op.Fd.Type)
	fi.total[key]++
	if atomic.LoadInt32(&fi.armed) == 0 {
		return stor.NoFault
	}
	fi.counts[key]++
	fi.ctxOf[key] = append(fi.ctxOf[key], fi.ctx)
	n := fi.counts[key]
	for i, f := range fi.faults {
		if f.Kind == op.Kind && f.Type == stor.FtName(op.Fd.Type) && n >= f.K && n < f.K+f.N {
			fi.fired = append(fi.fired, op)
			fi.lastHit = i
			if f.Mode == "with-effect" {
				return stor.FailWithEffect
			}
			return stor.FailNoEffect
		}
	}
	return stor.NoFault
}

func (fi *c08Injector) firedOps() []stor.Op {
	fi.mu.Lock()
	defer fi.mu.Unlock()
	return append([]stor.Op(nil), fi.fired...)
}

func c08Options(spec *crSpec) *opt.Options {
	o := spec.options()
	o.DisableCompactionBackoff = true // a burst of failures must not be mistaken for a hang
	return o
}

const c08OptNote = "options = workload.opts plus DisableCompactionBackoff=true; checksum verification is at its default (Options.Strict = 0 => DefaultStrict = StrictJournalChecksum|StrictBlockChecksum|StrictCompaction|StrictReader)"

type c08Run struct {
	c    *Ctx
	once *crSigOnce
	plan *c08Plan
	bs   []*crBatch
	o    *opt.Options
	r    *rng.R

	status      []int // 0 not issued, 1 acknowledged, 2 returned an error (fate open), 3 discarded
	failedCalls []string
	inj         *c08Injector
	outcome     string
	firedAny    bool
	everWritten map[string]map[string]bool
}

func (fr *c08Run) allowed(id int) bool {
	return id >= 0 && id < len(fr.status) && (fr.status[id] == 1 || fr.status[id] == 2)
}

func (fr *c08Run) acked() []int {
	var a []int
	for id, s := range fr.status {
		if s == 1 {
			a = append(a, id)
		}
	}
	return a
}

func (fr *c08Run) lastFault() (kind, typ string) {
	fr.inj.mu.Lock()
	defer fr.inj.mu.Unlock()
	if fr.inj.lastHit < 0 {
		return "none", "none"
	}
	f := fr.inj.faults[fr.inj.lastHit]
	return string(f.Kind), f.Type
}

func (fr *c08Run) lastFailed() string {
	if len(fr.failedCalls) == 0 {
		return ""
	}
	return fr.failedCalls[len(fr.failedCalls)-1]
}

func (fr *c08Run) replay(extra map[string]interface{}) map[string]interface{} {
	fired := make([]string, 0, len(fr.inj.fired))
	for _, op := range fr.inj.firedOps() {
		fired = append(fired, op.String())
	}
	var st []string
	for id, s := range fr.status {
		if s == 2 {
			st = append(st, fmt.Sprintf("%d:%s", id, fr.bs[id].Kind))
		}
	}
	rp := map[string]interface{}{"plan": fr.plan, "injected": fired, "calls_that_returned_errors": fr.failedCalls, "batches_with_error": st,
		"how": "run the workload (crSpec.gen) on stor.Stor; after Open returned arm the faults (k counts operations of that kind and file type from then on); on Commit error Discard; every 10 batches and at the end dump+Get; Close; reopen a Clone without faults"}
	for k, v := range extra {
		rp[k] = v
	}
	return rp
}

func (fr *c08Run) violate(sig, msg string, extra map[string]interface{}) {
	fr.once.report(fr.c, sig, fmt.Sprintf("faults %v: %s", fr.plan.Faults, msg), fr.replay(extra))
	if fr.outcome == "" || fr.outcome == "ok" {
		fr.outcome = "violation:" + sig
	}
}

// hang classifies a call that did not return by the locks that are held and the last failure.
func (fr *c08Run) hang(db *leveldb.DB, call string, detail ...interface{}) {
	dump := crGoroutines()
	lk := leveldb.VerifLocks(db)
	kind, typ := fr.lastFault()
	lastFailed := fr.lastFailed()
	sig := ""
	switch {
	case lk.CompCommitLk && typ == "manifest" && crDumpMentions(dump, "compactionTransact", "compactionCommit"):
		// a background commit is alive and retrying: it holds compCommitLk (not a leaked lock)
		sig = "compactionCommit:poisoned-manifest-writer:hang"
	case strings.HasPrefix(lastFailed, "Transaction.Commit") && lk.CompCommitLk:
		sig = "Transaction.Commit:compCommitLk-leaked:hang"
	case strings.HasPrefix(lastFailed, "OpenTransaction") && lk.WriteLock:
		sig = "OpenTransaction:write-lock-leaked:hang"
	case strings.HasPrefix(lastFailed, "Write(big)") && lk.WriteLock && typ == "journal":
		sig = "OpenTransaction:write-lock-leaked:hang:via-large-batch-Write"
	case strings.HasPrefix(lastFailed, "Write(big)") && lk.WriteLock:
		sig = "DB.Write:large-batch-commit-failed-no-discard:hang"
	case lk.CompCommitLk && typ == "manifest" && crDumpMentions(dump, "compactionTransact", "compactionCommit"):
		sig = "compactionCommit:poisoned-manifest-writer:hang"
	default:
		sig = fmt.Sprintf("fault:%s/%s:hang:%s:locks=w%vc%v", kind, typ, call, lk.WriteLock, lk.CompCommitLk)
	}
	if len(detail) > 0 {
		call += " " + fmt.Sprint(detail...)
	}
	fr.violate(sig, fmt.Sprintf("%s did not return within 20 s; locks held: write=%v compCommit=%v; last call that returned an error: %q; last injected fault: %s/%s; blocked goroutines:\n%s",
		call, lk.WriteLock, lk.CompCommitLk, lastFailed, kind, typ, blockedSummary(dump)), nil)
	fr.c.Res.Count("outcome", "hang")
}

// readCheck dumps the DB and evaluates the value oracle; read errors are allowed.
func (fr *c08Run) readCheck(db *leveldb.DB, where string, afterReopen bool) (hung bool) {
	var got kvmap
	err, hung := crCall(crWdTimeout, func() (err error) { got, err = crDumpDB(db); return })
	if hung {
		fr.hang(db, "NewIterator", where)
		return true
	}
	if fr.panicked("NewIterator", err) {
		return false
	}
	if err != nil {
		fr.c.Res.Count("reads", "iterator-error")
		// the pairs returned before the error must still be values that were written
		for k, v := range got {
			if !fr.everWritten[k][v] {
				fr.violate("fault:read:never-written-value", fmt.Sprintf("%s: iterator (which then failed with %v) returned %q=%.24q, never written", where, err, k, v), nil)
				return false
			}
		}
	} else {
		fr.c.Res.Count("reads", "scan-ok")
		oracle, msg, _ := crSubsetOracle(fr.bs, got, fr.allowed, fr.acked())
		if oracle != "" {
			fr.classify(oracle, where, msg, afterReopen)
			return false
		}
	}
	// point reads
	for i := 0; i < 6; i++ {
		k := fmt.Sprintf("k%02d", fr.r.Intn(30))
		if i == 0 && len(fr.status) > 0 {
			k = crHeadKey(fr.r.Intn(len(fr.status)))
		}
		var v []byte
		gerr, hung := crCall(crWdTimeout, func() (err error) { v, err = db.Get([]byte(k), nil); return })
		if hung {
			fr.hang(db, "Get", where)
			return true
		}
		if fr.panicked("Get", gerr) {
			return false
		}
		switch {
		case gerr == nil:
			fr.c.Res.Count("reads", "get-value")
			if err == nil && got[k] != string(v) {
				fr.violate("fault:read:get-vs-scan", fmt.Sprintf("%s: Get(%q)=%.24q but the scan just before gave %.24q", where, k, v, got[k]), nil)
				return false
			}
			if !fr.everWritten[k][string(v)] {
				fr.violate("fault:read:never-written-value", fmt.Sprintf("%s: Get(%q)=%.24q, never written", where, k, v), nil)
				return false
			}
		case gerr == leveldb.ErrNotFound:
			fr.c.Res.Count("reads", "get-notfound")
			if _, ok := got[k]; ok && err == nil {
				fr.violate("fault:read:get-vs-scan", fmt.Sprintf("%s: Get(%q) not found but the scan just before gave %.24q", where, k, got[k]), nil)
				return false
			}
		default:
			fr.c.Res.Count("reads", "get-error")
		}
	}
	return false
}

// classify maps a failing oracle to a signature: known defects get their fixed names.
func (fr *c08Run) classify(oracle, where, msg string, afterReopen bool) {
	kind, typ := fr.lastFault()
	journalWriteFailed := false
	jkind := ""
	for _, op := range fr.inj.firedOps() {
		if op.Fd.Type == storage.TypeJournal && (op.Kind == stor.OpSync || op.Kind == stor.OpWrite) {
			journalWriteFailed = true
			jkind = string(op.Kind)
		}
	}
	failedWrite := false
	for _, s := range fr.status {
		if s == 2 {
			failedWrite = true
		}
	}
	sig := fmt.Sprintf("fault:%s/%s:%s", kind, typ, oracle)
	if afterReopen {
		sig += ":after-reopen"
		if (oracle == "acked-missing" || oracle == "contents-mismatch") && journalWriteFailed && failedWrite {
			sig = "writeLocked:journal-sync-failed:seq-reused:" + oracle + ":after-" + jkind + "/journal"
		} else if fam := fr.manifestFamily(); fam != "" {
			// an edit abandoned in memory whose record reached the manifest (sequence number ahead, tables that
			// were then removed or overwritten): the same root as the missing-files outcome
			sig = fam + ":" + oracle + ":after-reopen"
		}
	}
	fr.violate(sig, where+": "+msg, nil)
}

// panicked reports a call that panicked.
func (fr *c08Run) panicked(call string, err error) bool {
	pe, ok := err.(*crPanicErr)
	if !ok {
		return false
	}
	kind, typ := fr.lastFault()
	fr.violate(fmt.Sprintf("fault:%s/%s:panic:%s:%s", kind, typ, strings.SplitN(call, " ", 2)[0], crPanicSite(pe.Stack)), fmt.Sprintf("%s panicked: %v\n%s", call, pe.Val, pe.Stack), nil)
	return true
}

// call runs one client call under the watchdog, labelling the storage operations it causes.
func (fr *c08Run) call(ctx string, f func() error) (error, bool) {
	fr.inj.setCtx(ctx)
	err, hung := crCall(crWdTimeout, f)
	if !hung {
		fr.inj.setCtx("idle")
	}
	fr.panicked(ctx, err)
	return err, hung
}

func (fr *c08Run) run() {
	c := fr.c
	fr.outcome = "ok"
	fr.status = make([]int, len(fr.bs))
	fr.everWritten = map[string]map[string]bool{}
	for _, b := range fr.bs {
		for _, op := range b.Ops {
			if !op.Del {
				if fr.everWritten[op.K] == nil {
					fr.everWritten[op.K] = map[string]bool{}
				}
				fr.everWritten[op.K][op.V] = true
			}
		}
	}
	st := stor.New()
	st.KeepOps(false)
	if os.Getenv("VERIF_LOG") != "" { // debugging aid of FAULTPLAN: storage log + operations on stderr at the end
		var lines []string
		st.LogLines = &lines
		st.KeepOps(true)
		defer func() {
			time.Sleep(100 * time.Millisecond)
			ops := st.Ops()
			for _, op := range ops {
				fmt.Fprintln(os.Stderr, "op", op.String())
			}
			for _, l := range lines {
				fmt.Fprintln(os.Stderr, "log", l)
			}
		}()
	}
	fr.inj = c08NewInjector(fr.plan.Faults)
	st.SetHooks(fr.inj.hook, nil)
	var db *leveldb.DB
	if err, hung := crCall(crWdTimeout, func() (err error) { db, err = leveldb.Open(st, fr.o); return }); err != nil || hung {
		fr.violate("fault:none:open", fmt.Sprintf("creating the DB: %v hung=%v", err, hung), nil)
		return
	}
	if fr.plan.Phase == "run" {
		atomic.StoreInt32(&fr.inj.armed, 1)
	}
	failed := func(call string, id int, err error) {
		fr.failedCalls = append(fr.failedCalls, fmt.Sprintf("%s batch %d: %v", call, id, err))
		c.Res.Count("call_errors", strings.SplitN(call, " ", 2)[0])
	}
	hungRun := false
	noSettle := false
	for _, b := range fr.bs {
		hung := false
		switch b.Kind {
		case "write", "big":
			call := "Write"
			if b.Kind == "big" {
				call = "Write(big)"
			}
			lb := b.batch(0, len(b.Ops))
			var err error
			err, hung = fr.call(call, func() error { return db.Write(lb, &opt.WriteOptions{Sync: b.Sync}) })
			if hung {
				fr.status[b.ID] = 2
				fr.hang(db, call, "batch", b.ID)
				break
			}
			if err != nil {
				fr.status[b.ID] = 2
				failed(call, b.ID, err)
			} else {
				fr.status[b.ID] = 1
			}
		case "tx", "txdiscard":
			var tr *leveldb.Transaction
			var err error
			err, hung = fr.call("OpenTransaction", func() (err error) { tr, err = db.OpenTransaction(); return })
			if hung {
				fr.hang(db, "OpenTransaction", "batch", b.ID)
				break
			}
			if err != nil {
				failed("OpenTransaction", b.ID, err)
				fr.status[b.ID] = 3
				break
			}
			lb := b.batch(0, len(b.Ops))
			err, hung = fr.call("Transaction.Write", func() error { return tr.Write(lb, nil) })
			if hung {
				fr.hang(db, "Transaction.Write", "batch", b.ID)
				break
			}
			commit := b.Kind == "tx"
			if err != nil {
				failed("Transaction.Write", b.ID, err)
				commit = false
			}
			if commit {
				fr.status[b.ID] = 2
				err, hung = fr.call("Transaction.Commit", tr.Commit)
				if hung {
					fr.hang(db, "Transaction.Commit", "batch", b.ID)
					break
				}
				if err == nil {
					fr.status[b.ID] = 1
					break
				}
				failed("Transaction.Commit", b.ID, err)
				// the documented reaction to a failed Commit: discard (fate of the batch: open)
			} else {
				fr.status[b.ID] = 3
			}
			_, hung = fr.call("Transaction.Discard", func() error { tr.Discard(); return nil })
			if hung {
				fr.hang(db, "Transaction.Discard", "batch", b.ID)
			}
		}
		if !hung && b.Compact {
			var err error
			err, hung = fr.call("CompactRange", func() error { return db.CompactRange(util.Range{}) })
			if hung {
				fr.hang(db, "CompactRange", "after batch", b.ID)
			} else if err != nil {
				failed("CompactRange", b.ID, err)
			}
		}
		if !hung && fr.plan.Workload.Settle && !noSettle {
			// background work runs to completion between client calls (reproducible operation order)
			if _, h := fr.call("background", func() error { return leveldb.VerifWaitIdle(db) }); h {
				noSettle = true
				fr.inj.setCtx("idle")
			}
		}
		if !hung && (b.ID%10 == 9 || b.ID == len(fr.bs)-1) {
			fr.inj.setCtx("read")
			hung = fr.readCheck(db, fmt.Sprintf("after batch %d", b.ID), false)
			if !hung {
				fr.inj.setCtx("idle")
			}
		}
		if hung {
			hungRun = true
			break
		}
		if strings.HasPrefix(fr.outcome, "violation") {
			break
		}
		// the client closes and reopens twice in the run (the faults stay armed; a failing Open is retried without)
		if b.ID == len(fr.bs)/3 || b.ID == 2*len(fr.bs)/3 {
			err, h := fr.call("Close", db.Close)
			if h {
				fr.hang(db, "Close", "mid-run")
				hungRun = true
				break
			}
			if err != nil {
				failed("Close", b.ID, err)
			}
			var ndb *leveldb.DB
			err, h = fr.call("Open", func() (err error) { ndb, err = leveldb.Open(st, fr.o); return })
			if h {
				fr.violate("fault:reopen:open:hang", "Open under faults did not return within 20 s:\n"+blockedSummary(crGoroutines()), nil)
				return
			}
			if err != nil {
				failed("Open", b.ID, err)
				st.ForceUnlock()
				atomic.StoreInt32(&fr.inj.armed, 0)
				err, h = fr.call("Open", func() (err error) { ndb, err = leveldb.Open(st, fr.o); return })
				if fr.plan.Phase == "run" {
					atomic.StoreInt32(&fr.inj.armed, 1)
				}
				if h || err != nil {
					kind, typ := fr.lastFault()
					fr.firedAny = true
					fr.violate(fr.reopenSig(err, kind, typ), fmt.Sprintf("mid-run: after Close, Open failed under faults and then also without faults: %v hung=%v (acknowledged batches hidden: %s)", err, h, crIDRanges(fr.acked())), map[string]interface{}{"image": crImageHex(st.Clone())})
					c.Res.Count("outcome", "reopen-error")
					return
				}
			}
			db = ndb
			if fr.readCheck(db, fmt.Sprintf("after mid-run reopen at batch %d", b.ID), true) {
				hungRun = true
				break
			}
			if strings.HasPrefix(fr.outcome, "violation") {
				break
			}
		}
	}
	closedOK := false
	if !hungRun {
		err, hung := fr.call("Close", db.Close)
		if hung {
			fr.hang(db, "Close")
			hungRun = true
		} else {
			closedOK = true
			if err != nil {
				failed("Close", -1, err)
			}
		}
	}
	atomic.StoreInt32(&fr.inj.armed, 0)
	fr.firedAny = len(fr.inj.firedOps()) > 0
	img := st.Clone()
	if hungRun {
		go db.Close() // lets the background retry loops end; may itself stay blocked
	}
	if fr.plan.Phase == "reopen" && closedOK {
		// recovery under faults: Open may fail, but must not damage anything
		inj2 := c08NewInjector(fr.plan.Faults)
		inj2.ctx = "Open"
		atomic.StoreInt32(&inj2.armed, 1)
		fr.inj = inj2
		img.SetHooks(inj2.hook, nil)
		var db2 *leveldb.DB
		err, hung := crCall(crWdTimeout, func() (err error) { db2, err = leveldb.Open(img, fr.o); return })
		switch {
		case hung:
			fr.violate("fault:reopen:open:hang", "Open under faults did not return within 20 s:\n"+blockedSummary(crGoroutines()), nil)
			return
		case err != nil:
			c.Res.Count("reopen_under_faults", "open-error")
			failed("Open", -1, err)
		default:
			c.Res.Count("reopen_under_faults", "open-ok")
			h := fr.readCheck(db2, "after reopen under faults", false)
			if !h {
				if _, hung := crCall(crWdTimeout, db2.Close); hung {
					fr.hang(db2, "Close", "after reopen under faults")
					h = true
				}
			}
			if h {
				go db2.Close()
			}
		}
		atomic.StoreInt32(&inj2.armed, 0)
		fr.firedAny = fr.firedAny || len(inj2.firedOps()) > 0
		img.SetHooks(nil, nil)
		img.ForceUnlock()
		img = img.Clone()
	}
	// the later reopen, without faults
	var db3 *leveldb.DB
	err, hung := crCall(crWdTimeout, func() (err error) { db3, err = leveldb.Open(img, fr.o); return })
	if hung {
		fr.violate("fault:reopen:hang", "fault-free reopen did not return within 20 s", nil)
		return
	}
	if err != nil {
		kind, typ := fr.lastFault()
		sig := fr.reopenSig(err, kind, typ)
		fr.violate(sig, fmt.Sprintf("reopen of a copy of the files without faults failed: %v (acknowledged batches hidden: %s)", err, crIDRanges(fr.acked())), map[string]interface{}{"image": crImageHex(img)})
		c.Res.Count("outcome", "reopen-error")
		return
	}
	fr.readCheck(db3, "after reopen", true)
	if err, hung := crCall(crWdTimeout, func() error { return db3.Put([]byte("zz-after"), []byte("x"), nil) }); hung || err != nil {
		sig := "fault:reopen:put"
		if fam := fr.manifestFamily(); fam != "" && err != nil && crErrClass(err) != "other" {
			sig = fam + ":" + crErrClass(err) + "-after-reopen"
		}
		fr.violate(sig, fmt.Sprintf("Put after fault-free reopen: %v hung=%v", err, hung), nil)
	}
	crCall(crWdTimeout, db3.Close)
}

// manifestFamily returns "session.commit:manifest-<sync|write>-failed-then-<discard|revert>" when a manifest
// write or sync failure was injected (the record may have reached the file although the edit was abandoned).
func (fr *c08Run) manifestFamily() string {
	manifestFault := ""
	for _, op := range fr.inj.firedOps() {
		if op.Fd.Type == storage.TypeManifest && (op.Kind == stor.OpSync || op.Kind == stor.OpWrite) && manifestFault != "sync" {
			manifestFault = string(op.Kind)
		}
	}
	if manifestFault == "" {
		for _, op := range fr.inj.firedOps() {
			if op.Fd.Type == storage.TypeManifest && op.Kind == stor.OpRemove {
				// newManifest returns the error of removing the OLD manifest after it has switched to the new one:
				// the commit is reported as failed (edit abandoned in memory) although it is durable
				return "session.newManifest:old-manifest-remove-failed-after-switch"
			}
		}
		return ""
	}
	then := "revert"
	for _, f := range fr.failedCalls {
		if strings.HasPrefix(f, "Transaction.Commit") {
			then = "discard"
		}
	}
	return "session.commit:manifest-" + manifestFault + "-failed-then-" + then
}

// reopenSig names a failed fault-free reopen: known defect families get their fixed names.
func (fr *c08Run) reopenSig(err error, kind, typ string) string {
	if err == nil {
		return "fault:reopen:hang"
	}
	sig := fmt.Sprintf("fault:%s/%s:reopen-error:%s", kind, typ, crErrClass(err))
	commitFailed := false
	for _, f := range fr.failedCalls {
		if strings.HasPrefix(f, "Transaction.Commit") {
			commitFailed = true
		}
	}
	manifestFault, setmetaEffect := "", false
	for i, op := range fr.inj.firedOps() {
		_ = i
		if op.Fd.Type == storage.TypeManifest && (op.Kind == stor.OpSync || op.Kind == stor.OpWrite) && manifestFault != "sync" {
			manifestFault = string(op.Kind)
		}
		if op.Kind == stor.OpSetMeta {
			for _, f := range fr.plan.Faults {
				if f.Kind == stor.OpSetMeta && f.Mode == "with-effect" {
					setmetaEffect = true
				}
			}
		}
	}
	switch {
	case crErrClass(err) == "missing-files" && fr.manifestFamily() != "":
		// the edit was abandoned in memory but its record reached the manifest; the caller then removed the tables
		_, _ = commitFailed, manifestFault
		sig = fr.manifestFamily() + ":open-missing-files"
	case setmetaEffect && strings.Contains(err.Error(), "entry point"):
		sig = "newManifest:setmeta-failed-with-effect-then-manifest-removed:open-entry-point-missing"
	}
	return sig
}

// ---- enumeration ---------------------------------------------------------------------------------

var c08Kinds = []stor.Kind{stor.OpWrite, stor.OpSync, stor.OpCreate, stor.OpRemove, stor.OpOpen, stor.OpRead, stor.OpSetMeta, stor.OpList, stor.OpGetMeta} // Close failures are not in the fault alphabet of the property ("writes, syncs, creates, opens, reads, removes or renames")
var c08Types = []string{"journal", "manifest", "table", "none"}

func c08HasEffect(k stor.Kind) bool {
	switch k {
	case stor.OpWrite, stor.OpSync, stor.OpCreate, stor.OpRemove, stor.OpSetMeta:
		return true
	}
	return false
}

func c08Spec(r *rng.R, i int) *crSpec {
	o := gen.Opts{Cmp: "bytewise", WriteBuffer: 1024, TableSize: 1024, TotalSize: 2048, BlockSize: 128, L0Trigger: 2, Compression: 1 + r.Intn(2),
		OpenFiles: 4 + r.Intn(20), NoWriteMerge: true, MaxMemCompLevel: 2}
	if i%3 == 1 {
		// 64: every commit rotates the manifest (also each retry of a failed commit), which is what exposes
		// errors returned by newManifest after the switch
		o.MaxManifest = int64(r.Pick(64, 64, 256, 1024))
		if i == 1 {
			o.MaxManifest = 64
		}
	}
	return &crSpec{Config: fmt.Sprintf("faults-%d", i), Opts: o, Seed: r.U64(), N: 80, BigPct: 8, TxPct: 9, DiscardPct: 25, CompactPct: 6, Settle: i%4 != 3}
}

func runC08(c *Ctx) {
	c.Res.Rule = "per workload (80 marker batches incl. large-batch writes, explicit transactions - discarded after a failed Commit, as documented - and CompactRange; tiny buffers; background work settles between client calls so that operation order repeats): a fault-free run records every storage operation as (kind x file type x client call in progress), then the workload is re-run once per fault plan: the k-th operation of a (kind, type) fails, without effect or with effect (bytes written / file synced / created / removed / CURRENT set although an error is returned), singly, as a burst of 2-5 consecutive failures, or as a sampled pair, or combined with removes of one file type that keep failing; phase run = armed after Open, phase reopen = armed during a reopen of the populated DB. Quick takes the first, the last and a random position of every (kind, type, call) class, thorough all positions. The DB is used on after the fault (writes, transactions, CompactRange, scan + Gets every 10 batches), closed, and a Clone is reopened without faults. Oracles at every read and after the reopen: contents = exactly the batches whose markers are present, applied in issue order; present only batches that were issued; every batch whose call returned nil present (in the run and after the reopen); reads may fail but never return a value that disagrees; every call under a 20 s watchdog. One evaluation = one faulted run; non-trivial = at least one fault fired; distinct by fault plan. Before those: compactions retried after one failing table Sync on a three-level tree with deletion markers (contents = plain map, also after reopen), and concurrent writers whose merged group is hit by a journal Sync failing with effect (every write acknowledged before or after is there after Close and reopen). Part 2 (damaged data, default checksum options): one byte flipped in a table data block or a journal chunk of a settled closed DB: every Get returns the right value or an error; DB iterators answer like the specification cursor over the undamaged contents until they report an error, which then ends them for good (GoLevel.C02.strict_error_is_reported_db): a forward scan shows a gapless prefix of the sorted pairs, a backward scan (Last, Prev, …) a gapless prefix of the reversed list, Seek(k) and Seek(k)+Prev land where the cursor lands, complete when no error is reported; plus the layout of defect D40 built on purpose (journal-recovery table in which the newer version of the last key — deletion or overwrite — ends the damaged block and the older value starts the next: Last() / Seek-beyond+Prev must report the damage, not serve the old value); journal damage may drop whole batches only. " + c08OptNote
	if !crIsWorker() {
		crIsolated(c, c08OnCrash)
		return
	}
	defer crWorkerCheckpoint(c)()
	if os.Getenv("VERIF_C08_CLOSE") != "" { // outside the property's fault alphabet; for experiments only
		c08Kinds = append(c08Kinds, stor.OpClose)
	}
	once := &crSigOnce{}
	c08WriteTraces(c, c.Scale(200, 2000))    // write-path traces for the Lean model (c08lean.go)
	c08RetryCompaction(c, c.Scale(40, 600))  // compactions retried after a transient error (c08retry.go)
	c08ConcurrentFaults(c, c.Scale(25, 400)) // a journal failure hitting a merged group (c08conc.go)
	nwl := c.Scale(3, 10)
	type job struct {
		plan    *c08Plan
		r       *rng.R
		isolate bool // run in a process of its own (plans of a shape known to kill the process)
	}
	var jobs []job
	for w := 0; w < nwl; w++ {
		r := c.R.Fork()
		spec := c08Spec(r, w)
		// fault-free baseline, both phases
		base := &c08Run{c: c, once: once, plan: &c08Plan{Workload: spec, Phase: "run", Note: c08OptNote}, bs: spec.gen(), o: c08Options(spec), r: r.Fork()}
		base.run()
		c.Res.Eval(fmt.Sprintf("%s/baseline", spec.Config), false)
		if base.outcome != "ok" {
			c.Res.Note("baseline of %s not clean: %s", spec.Config, base.outcome)
		}
		baseR := &c08Run{c: c, once: once, plan: &c08Plan{Workload: spec, Phase: "reopen", Note: c08OptNote}, bs: base.bs, o: base.o, r: r.Fork()}
		baseR.run()
		add := func(phase string, fs ...c08Fault) {
			jobs = append(jobs, job{&c08Plan{Workload: spec, Phase: phase, Faults: fs, Note: c08OptNote}, r.Fork(), len(fs) > 1 && fs[0].N >= 1<<30})
		}
		for _, phase := range []string{"run", "reopen"} {
			ctxOf := base.inj.ctxOf
			if phase == "reopen" {
				ctxOf = baseR.inj.ctxOf
			}
			for _, kind := range c08Kinds {
				for _, typ := range c08Types {
					key := string(kind) + "/" + typ
					ctxs := ctxOf[key]
					if len(ctxs) == 0 {
						continue
					}
					// positions per call context
					byCtx := map[string][]int{}
					var order []string
					for i, cx := range ctxs {
						if _, ok := byCtx[cx]; !ok {
							order = append(order, cx)
						}
						byCtx[cx] = append(byCtx[cx], i+1)
						c.Res.Count("baseline_ops_"+phase, key+"@"+cx)
					}
					sort.Strings(order)
					for _, cx := range order {
						pos := byCtx[cx]
						var ks []int
						if c.Thorough || len(pos) <= 3 {
							ks = pos
						} else if typ == "journal" && (kind == stor.OpSync || kind == stor.OpWrite) {
							// the window in which a failed journal write shows (until the next flush) is short: denser
							for i := 0; i < len(pos); i += 3 {
								ks = append(ks, pos[i])
							}
						} else {
							a := 1 + r.Intn(len(pos)-2)
							ks = []int{pos[0], pos[a], pos[len(pos)-1]}
						}
						modes := []string{"no-effect"}
						if c08HasEffect(kind) {
							modes = append(modes, "with-effect")
						}
						if kind == stor.OpRemove && typ == "manifest" && (cx == "Transaction.Commit" || cx == "Write(big)") {
							// directed: the removal of the old manifest fails in all three attempts of a transaction commit
							// that rotates the manifest (newManifest returns that error after it has switched)
							for _, k := range pos {
								add(phase, c08Fault{kind, typ, k, 3, "no-effect"})
							}
						}
						for i, k := range ks {
							if c.Thorough || (kind != stor.OpRead && kind != stor.OpList && kind != stor.OpGetMeta) || i == 0 {
								for _, m := range modes {
									add(phase, c08Fault{kind, typ, k, 1, m})
								}
							}
							// bursts (>= 3 defeats the three attempts of Transaction.Commit)
							if !c.Thorough || i%4 == 0 {
								add(phase, c08Fault{kind, typ, k, 3 + r.Intn(3), modes[r.Intn(len(modes))]})
							}
							if c.Thorough && i%4 == 2 {
								add(phase, c08Fault{kind, typ, k, 2, modes[r.Intn(len(modes))]})
							}
						}
					}
				}
			}
		}
		// sampled pairs of faults on different classes
		var classes []string
		for k := range base.inj.counts {
			kind := stor.Kind(strings.SplitN(k, "/", 2)[0])
			if kind != stor.OpList && kind != stor.OpGetMeta && kind != stor.OpClose {
				classes = append(classes, k)
			}
		}
		sort.Strings(classes)
		for i := 0; i < c.Scale(20, 600) && len(classes) > 1; i++ {
			a, b := classes[r.Intn(len(classes))], classes[r.Intn(len(classes))]
			pa, pb := strings.SplitN(a, "/", 2), strings.SplitN(b, "/", 2)
			fa := c08Fault{stor.Kind(pa[0]), pa[1], 1 + r.Intn(base.inj.counts[a]), 1 + r.Intn(2), "no-effect"}
			fb := c08Fault{stor.Kind(pb[0]), pb[1], 1 + r.Intn(base.inj.counts[b]), 1 + r.Intn(3), "no-effect"}
			if c08HasEffect(fb.Kind) && r.Chance(1, 2) {
				fb.Mode = "with-effect"
			}
			if a == b {
				continue
			}
			add("run", fa, fb)
		}
		// removes that keep failing (files cannot be deleted) combined with one other failure
		for _, rt := range []string{"table", "journal", "manifest"} {
			for _, kind := range []stor.Kind{stor.OpWrite, stor.OpSync, stor.OpCreate} {
				for _, typ := range []string{"table", "journal", "manifest"} {
					n := base.inj.counts[string(kind)+"/"+typ]
					if n == 0 || base.inj.counts["remove/"+rt] == 0 {
						continue
					}
					for i := 0; i < c.Scale(2, 10); i++ {
						mode := "no-effect"
						if r.Chance(1, 3) {
							mode = "with-effect"
						}
						add("run", c08Fault{stor.OpRemove, rt, 1, 1 << 30, "no-effect"}, c08Fault{kind, typ, 1 + r.Intn(n), 1, mode})
					}
				}
			}
		}
	}
	c.Res.Note("fault plans generated: %d", len(jobs))
	// a budget cut must not drop one kind of plan: shuffle (seeded)
	sr := c.R.Fork()
	for i := len(jobs) - 1; i > 0; i-- {
		j := sr.Intn(i + 1)
		jobs[i], jobs[j] = jobs[j], jobs[i]
	}
	// run the plans; hung runs only sleep, so many are kept in flight
	par := 128
	if v := os.Getenv("VERIF_C08_PAR"); v != "" {
		fmt.Sscanf(v, "%d", &par)
	}
	trace := os.Getenv("VERIF_C08_TRACE") != ""
	traceFile, _ := os.Create(filepath.Join(c.OutDir, "trace.txt")) // which plans were in flight, should the process die
	var traceMu sync.Mutex
	tracef := func(format string, a ...interface{}) {
		if traceFile != nil {
			traceMu.Lock()
			fmt.Fprintf(traceFile, format, a...)
			traceMu.Unlock()
		}
	}
	sem := make(chan struct{}, par)
	var wg sync.WaitGroup
	var done int64
	for i, j := range jobs {
		if !c.TimeLeft() {
			c.Res.Note("time budget reached after %d of %d fault plans", i, len(jobs))
			break
		}
		sem <- struct{}{}
		wg.Add(1)
		go func(i int, j job) {
			defer wg.Done()
			defer func() { <-sem }()
			spec := j.plan.Workload
			if j.isolate {
				c08RunIsolated(c, once, j.plan, i)
				return
			}
			fr := &c08Run{c: c, once: once, plan: j.plan, bs: spec.gen(), o: c08Options(spec), r: j.r}
			pj, _ := json.Marshal(j.plan)
			tracef("START %d %s\n", i, pj)
			if trace {
				fmt.Fprintf(os.Stderr, "START %d %s\n", i, pj)
			}
			c.Guard("fault:panic", j.plan, func() { fr.run() })
			tracef("END %d\n", i)
			if trace {
				fmt.Fprintf(os.Stderr, "END %d %s\n", i, fr.outcome)
			}
			fired := fr.firedAny
			c.Res.Eval(fmt.Sprintf("%v/%s/%v", spec.Seed, j.plan.Phase, j.plan.Faults), fired)
			for _, f := range j.plan.Faults {
				shape := "single"
				if len(j.plan.Faults) > 1 {
					shape = "pair"
				} else if f.N > 1 {
					shape = "burst"
				}
				c.Res.Count("fault", fmt.Sprintf("%s:%s/%s:%s:%s", j.plan.Phase, f.Kind, f.Type, f.Mode, shape))
			}
			oc := fr.outcome
			if !fired {
				oc = "fault-not-reached"
			}
			if strings.HasPrefix(oc, "violation:") {
				oc = "violation"
			}
			c.Res.Count("outcome", oc)
			if n := len(fr.failedCalls); n > 0 {
				c.Res.Count("outcome", "some-call-returned-error")
			}
			if atomic.AddInt64(&done, 1) <= 3 {
				c.Res.Sample(map[string]interface{}{"plan": j.plan, "outcome": fr.outcome, "calls_that_returned_errors": fr.failedCalls})
			}
		}(i, j)
	}
	wg.Wait()
	c08Damage(c, once)
}

// ---- part 2: damaged data under the default checksum options --------------------------------------

func crFlipByte(r *rng.R, data []byte, off int) {
	old := data[off]
	for data[off] == old {
		if r.Chance(1, 2) {
			data[off] ^= 1 << uint(r.Intn(8))
		} else {
			data[off] = byte(r.Intn(256))
		}
	}
}

type c08DamageCase struct {
	Workload *crSpec `json:"workload"`
	Target   string  `json:"target"`
	File     string  `json:"file"`
	Offset   int     `json:"offset"`
	Old, New byte
	Note     string `json:"options_note"`
}

func c08Damage(c *Ctx, once *crSigOnce) {
	n := c.Scale(60, 1500)
	type job struct {
		r *rng.R
		i int
	}
	sem := make(chan struct{}, 16)
	var wg sync.WaitGroup
	for i := 0; i < n; i++ {
		r := c.R.Fork()
		if !c.TimeLeft() && i >= 16 {
			break
		}
		sem <- struct{}{}
		wg.Add(1)
		go func(i int, r *rng.R) {
			defer wg.Done()
			defer func() { <-sem }()
			c.Guard("damage:panic", i, func() { c08DamageOne(c, once, r, i) })
		}(i, r)
	}
	wg.Wait()
	// the layout of defect D40 (backward iteration over a damaged block that holds the newer version of a key)
	for v := 0; v < c.Scale(4, 40); v++ {
		r := c.R.Fork()
		c.Guard("damage:panic", 1<<20+v, func() { c08DamageD40(c, once, r, v) })
	}
}

func c08DamageOne(c *Ctx, once *crSigOnce, r *rng.R, i int) {
	spec := crashSpec(r, "compact-range", false)
	spec.Config = "damage"
	spec.N = 60 + r.Intn(80)
	spec.Opts.OpenFiles = 50
	bs := spec.gen()
	o := spec.Opts.Options()
	st := stor.New()
	st.KeepOps(false)
	db, err := leveldb.Open(st, o)
	if err != nil {
		return
	}
	for _, b := range bs {
		if err := db.Write(b.batch(0, len(b.Ops)), &opt.WriteOptions{Sync: b.Sync}); err != nil {
			db.Close()
			return
		}
		if b.Compact {
			db.CompactRange(util.Range{})
		}
	}
	leveldb.VerifWaitIdle(db)
	expected, err := crDumpDB(db)
	dump := leveldb.VerifDump(db)
	db.Close()
	if err != nil || dump.Version == nil {
		return
	}
	dc := &c08DamageCase{Workload: spec, Note: c08OptNote}
	target := r.Intn(3)
	jfd := storage.FileDesc{Type: storage.TypeJournal, Num: dump.JournalNum}
	jb, _ := st.FileBytes(jfd)
	var tables []leveldb.VerifTable
	for _, l := range dump.Version.Levels {
		tables = append(tables, l...)
	}
	if target == 2 && len(jb) == 0 {
		target = 0
	}
	if target < 2 && len(tables) == 0 {
		return
	}
	damagedBlockKeys := map[string]bool{}
	switch target {
	case 0, 1: // a data block of a live table
		t := tables[r.Intn(len(tables))]
		fd := storage.FileDesc{Type: storage.TypeTable, Num: t.Num}
		data, _ := st.FileBytes(fd)
		ents, blockOf, starts, err := crTableBlocks(data, fd, o)
		if err != nil || len(starts) == 0 {
			c.Res.Count("damage", "table-unreadable-before-damage")
			return
		}
		bi := r.Intn(len(starts))
		lo, hi := starts[bi], starts[bi]+16
		if bi+1 < len(starts) {
			hi = starts[bi+1]
		}
		off := int(lo) + r.Intn(int(hi-lo))
		dc.Target, dc.File, dc.Offset, dc.Old = "table-data-block", crFdName(fd), off, data[off]
		crFlipByte(r, data, off)
		dc.New = data[off]
		st.PutFile(fd, data)
		for j, e := range ents {
			if blockOf[j] == lo {
				damagedBlockKeys[string(ukeyOf(e.IKey))] = true
			}
		}
	case 2:
		off := r.Intn(len(jb))
		dc.Target, dc.File, dc.Offset, dc.Old = "journal-chunk", crFdName(jfd), off, jb[off]
		crFlipByte(r, jb, off)
		dc.New = jb[off]
		st.PutFile(jfd, jb)
	}
	c.Res.Count("damage", dc.Target)
	nontrivial := true
	defer func() {
		c.Res.Eval(fmt.Sprintf("damage/%d/%s/%s/%d", spec.Seed, dc.Target, dc.File, dc.Offset), nontrivial)
	}()
	var db2 *leveldb.DB
	err, hung := crCall(crWdTimeout, func() (err error) { db2, err = leveldb.Open(st, o); return })
	if hung {
		once.report(c, "damage:"+dc.Target+":open:hang", "Open did not return within 20 s", dc)
		return
	}
	if err != nil {
		c.Res.Count("damage_outcome", dc.Target+":open-error:"+crErrClass(err))
		return
	}
	defer func() { crCall(crWdTimeout, db2.Close) }()
	if dc.Target == "journal-chunk" {
		got, err := crDumpDB(db2)
		if err != nil {
			c.Res.Count("damage_outcome", "journal-chunk:scan-error")
			return
		}
		oracle, msg, present := crSubsetOracle(bs, got, func(id int) bool { return true }, nil)
		if oracle != "" {
			once.report(c, "damage:journal-chunk:"+oracle, "after a flipped journal byte the reopened DB is not a set of whole batches: "+msg, dc)
			return
		}
		if len(present) == len(bs) {
			c.Res.Count("damage_outcome", "journal-chunk:nothing-lost(padding or already flushed)")
		} else {
			c.Res.Count("damage_outcome", fmt.Sprintf("journal-chunk:whole-batches-dropped-silently"))
		}
		return
	}
	// table damage: every read is right or an error
	check := func(when string) bool {
		errs, right := 0, 0
		keys := map[string]bool{}
		for k := range expected {
			keys[k] = true
		}
		for j := 0; j < 30; j++ {
			keys[fmt.Sprintf("k%02d", j)] = true
		}
		for k := range keys {
			var v []byte
			gerr, hung := crCall(crWdTimeout, func() (err error) { v, err = db2.Get([]byte(k), nil); return })
			if hung {
				once.report(c, "damage:table-data-block:get:hang", when, dc)
				return false
			}
			want, ok := expected[k]
			switch {
			case gerr == nil && (!ok || want != string(v)):
				once.report(c, "damage:table-data-block:wrong-value", fmt.Sprintf("%s: Get(%q)=%.24q, expected %.24q (present=%v); key in damaged block: %v", when, k, v, want, ok, damagedBlockKeys[k]), dc)
				return false
			case gerr == leveldb.ErrNotFound && ok:
				once.report(c, "damage:table-data-block:hidden-as-not-found", fmt.Sprintf("%s: Get(%q) reports not found, expected %.24q; key in damaged block: %v", when, k, want, damagedBlockKeys[k]), dc)
				return false
			case gerr != nil && gerr != leveldb.ErrNotFound:
				errs++
			default:
				right++
			}
		}
		got, serr := crDumpDB(db2)
		for k, v := range got {
			if expected[k] != v {
				once.report(c, "damage:table-data-block:scan-wrong-pair", fmt.Sprintf("%s: scan returned %q=%.24q, expected %.24q", when, k, v, expected[k]), dc)
				return false
			}
		}
		if serr == nil && len(got) != len(expected) {
			once.report(c, "damage:table-data-block:scan-silently-incomplete", fmt.Sprintf("%s: scan without error returned %d of %d pairs", when, len(got), len(expected)), dc)
			return false
		}
		// the iterator oracle (c08scan.go): forward and backward scans are gapless prefixes, Seek / Seek+Prev land
		// where the cursor over the undamaged contents lands, an error ends the iterator for good
		okScan := true
		if _, hung := crCall(crWdTimeout, func() error {
			okScan = c08ScanOracle(c, once, db2, expected, o.GetComparer().Compare, r, "damage:table-data-block", when, dc)
			return nil
		}); hung {
			once.report(c, "damage:table-data-block:iter:hang", when+": the iterator oracle did not return within 20 s", dc)
			return false
		}
		if !okScan {
			return false
		}
		switch {
		case errs > 0 || serr != nil:
			c.Res.Count("damage_outcome", "table-data-block:"+when+":errors-reported")
		default:
			c.Res.Count("damage_outcome", "table-data-block:"+when+":all-right(damage not reached)")
		}
		return true
	}
	if !check("after-open") {
		return
	}
	if err, hung := crCall(crWdTimeout, func() error { return db2.CompactRange(util.Range{}) }); hung {
		once.report(c, "damage:table-data-block:compact:hang", "CompactRange did not return within 20 s:\n"+blockedSummary(crGoroutines()), dc)
		return
	} else if err != nil {
		c.Res.Count("damage_outcome", "table-data-block:compact-error:"+crErrClass(err))
	} else {
		c.Res.Count("damage_outcome", "table-data-block:compact-ok")
	}
	check("after-compaction")
}

// c08OnCrash pins a died worker down to the fault plan: the plans that were in flight are re-run one
// by one in their own processes.
func c08OnCrash(c *Ctx, dir, stderr string) bool {
	f, err := os.Open(filepath.Join(dir, "trace.txt"))
	if err != nil {
		return false
	}
	inflight := map[int]string{}
	var order []int
	sc := bufio.NewScanner(f)
	sc.Buffer(make([]byte, 1<<20), 1<<24)
	for sc.Scan() {
		l := sc.Text()
		var i int
		if strings.HasPrefix(l, "START ") {
			parts := strings.SplitN(l, " ", 3)
			if len(parts) == 3 {
				fmt.Sscanf(parts[1], "%d", &i)
				inflight[i] = parts[2]
				order = append(order, i)
			}
		} else if strings.HasPrefix(l, "END ") {
			fmt.Sscanf(l[4:], "%d", &i)
			delete(inflight, i)
		}
	}
	f.Close()
	msg0, site0, trace0 := crPanicOf(stderr)
	if msg0 == "" {
		return false
	}
	exe, _ := os.Executable()
	type hit struct {
		plan, msg, site, trace string
	}
	var mu sync.Mutex
	var hits []hit
	var cands []string
	sem := make(chan struct{}, 16)
	var wg sync.WaitGroup
	n := 0
	for k := len(order) - 1; k >= 0 && n < 160; k-- {
		i := order[k]
		pj, ok := inflight[i]
		if !ok {
			continue
		}
		n++
		cands = append(cands, pj)
		wg.Add(1)
		sem <- struct{}{}
		go func(i int, pj string) {
			defer wg.Done()
			defer func() { <-sem }()
			pdir := filepath.Join(dir, fmt.Sprintf("pin-%d", i))
			os.MkdirAll(pdir, 0o755)
			pf := filepath.Join(pdir, "plan.json")
			os.WriteFile(pf, []byte(pj), 0o644)
			for try := 0; try < 2; try++ {
				mu.Lock()
				found := len(hits) > 0
				mu.Unlock()
				if found {
					return
				}
				cmd := exec.Command(exe, "-prop", "FAULTPLAN", "-out", pdir)
				cmd.Env = append(os.Environ(), "VERIF_REPLAY="+pf)
				var out strings.Builder
				cmd.Stdout, cmd.Stderr = &out, &out
				if err := cmd.Start(); err != nil {
					return
				}
				done := make(chan error, 1)
				go func() { done <- cmd.Wait() }()
				select {
				case err := <-done:
					if err != nil {
						if m, s, t := crPanicOf(out.String()); m != "" {
							mu.Lock()
							hits = append(hits, hit{pj, m, s, t})
							mu.Unlock()
							return
						}
					}
				case <-time.After(90 * time.Second):
					cmd.Process.Kill()
					return
				}
			}
		}(i, pj)
	}
	wg.Wait()
	if len(hits) > 0 {
		h := hits[0]
		var plan c08Plan
		json.Unmarshal([]byte(h.plan), &plan)
		kind, typ := "none", "none"
		if len(plan.Faults) > 0 {
			f := plan.Faults[len(plan.Faults)-1]
			kind, typ = string(f.Kind), f.Type
		}
		c.Res.Violate(fmt.Sprintf("fault:%s/%s:background-panic:%s", kind, typ, h.site), fmt.Sprintf("faults %v: a background goroutine of the DB panicked and killed the process: %s\n%s", plan.Faults, h.msg, h.trace),
			map[string]interface{}{"plan": plan, "how": "VERIF_REPLAY=<file holding replay.plan> vh -prop FAULTPLAN -out DIR (re-run in its own process: reproduced)"})
		c.Res.Count("signature", "fault:"+kind+"/"+typ+":background-panic:"+h.site)
		return true
	}
	var plans []json.RawMessage
	for _, p := range cands {
		if len(plans) < 40 {
			plans = append(plans, json.RawMessage(p))
		}
	}
	c.Res.Violate("fault:background-panic:"+site0, fmt.Sprintf("a background goroutine of the DB panicked and killed the worker process (not reproduced when the %d plans in flight were re-run alone): %s\n%s", len(cands), msg0, trace0),
		map[string]interface{}{"plans_in_flight": plans})
	return true
}

// c08RunIsolated runs one plan in a process of its own and folds its outcome into the result.
func c08RunIsolated(c *Ctx, once *crSigOnce, plan *c08Plan, i int) {
	exe, _ := os.Executable()
	dir := filepath.Join(c.OutDir, fmt.Sprintf("iso-%d", i))
	os.MkdirAll(dir, 0o755)
	pf := filepath.Join(dir, "plan.json")
	pj, _ := json.Marshal(plan)
	os.WriteFile(pf, pj, 0o644)
	cmd := exec.Command(exe, "-prop", "FAULTPLAN", "-out", dir)
	cmd.Env = append(os.Environ(), "VERIF_REPLAY="+pf, "VERIF_WORKER=")
	var out strings.Builder
	cmd.Stdout, cmd.Stderr = &out, &out
	if err := cmd.Start(); err != nil {
		return
	}
	done := make(chan error, 1)
	go func() { done <- cmd.Wait() }()
	var runErr error
	select {
	case runErr = <-done:
	case <-time.After(150 * time.Second):
		cmd.Process.Kill()
		c.Res.Count("outcome", "isolated-run-timeout")
		return
	}
	c.Res.Eval(fmt.Sprintf("%v/%s/%v", plan.Workload.Seed, plan.Phase, plan.Faults), true)
	for _, f := range plan.Faults {
		c.Res.Count("fault", fmt.Sprintf("%s:%s/%s:%s:combined-with-persistent-remove", plan.Phase, f.Kind, f.Type, f.Mode))
	}
	if runErr != nil {
		if m, site, t := crPanicOf(out.String()); m != "" {
			f := plan.Faults[len(plan.Faults)-1]
			once.report(c, fmt.Sprintf("fault:%s/%s:background-panic:%s", f.Kind, f.Type, site), fmt.Sprintf("faults %v: a background goroutine of the DB panicked and killed the process: %s\n%s", plan.Faults, m, t),
				map[string]interface{}{"plan": plan, "how": "VERIF_REPLAY=<file holding replay.plan> vh -prop FAULTPLAN -out DIR"})
			c.Res.Count("outcome", "process-killed-by-panic")
			return
		}
		c.Res.Count("outcome", "isolated-run-failed")
		return
	}
	var cr crChildResult
	if b, err := os.ReadFile(filepath.Join(dir, "result.json")); err == nil {
		json.Unmarshal(b, &cr)
	}
	for _, v := range cr.Violations {
		var replay interface{}
		if b, err := os.ReadFile(v.File); err == nil {
			var w struct {
				Replay interface{} `json:"replay"`
			}
			json.Unmarshal(b, &w)
			replay = w.Replay
		}
		once.report(c, v.Signature, v.Message, replay)
	}
	if len(cr.Violations) > 0 {
		c.Res.Count("outcome", "violation")
	} else {
		c.Res.Count("outcome", "ok")
	}
	os.RemoveAll(dir)
}
