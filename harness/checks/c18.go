package checks

import (
	"fmt"
	"io"
	"sort"
	"strings"
	"sync"
	"time"

	"github.com/syndtr/goleveldb/leveldb"
	"github.com/syndtr/goleveldb/leveldb/comparer"
	"github.com/syndtr/goleveldb/leveldb/iterator"
	"github.com/syndtr/goleveldb/leveldb/opt"
	"github.com/syndtr/goleveldb/leveldb/storage"

	"verif/harness/gen"
	"verif/harness/rng"
	"verif/harness/stor"
)

// Property C18 — ownership and lifecycle.
//
// Every case starts from the storage left behind by a random DB program (GenProg/NewRunner: tables on several
// levels, deletions, reopen, transactions).  Clones of that storage are then driven into each lifecycle
// state and EVERY public method of *DB, *Snapshot, *Transaction and of the DB iterator is called there:
//
//   closed     open, write a tail that stays in the journal, create handles (live/released snapshot, committed/
//              discarded/still-open transaction, live/released iterators), optionally leave a frozen buffer
//              unflushed, Close; then all methods; then reopen and compare with the plain map
//   openRO     clone of the storage as Close left it (journal-only data, possibly two journals), opened with
//              ReadOnly: all methods, exact data, zero mutating storage operations, files bit-identical
//   switchedRO open, (all methods in openRW), handles, SetReadOnly, wait for the in-flight background work;
//              all methods; reads that exhaust seek allowances; nothing may be mutated any more
//   ownership  second Open while one is open (locked), Open after Close, random open/close traces, a real
//              file storage in a temporary directory
//   race       NewIterator/Get overlapping Close at the hook points r.seq / r.mems
//
// Each call is classified (ok notfound closed readonly released txdone locked other panic hang) and compared
// (a) with what the property demands in that state and (b) with the table of GoLevel/Model/Lifecycle.lean
// (`life …` lines).

func init() { Registry["C18"] = runC18 }

type c18Gate struct {
	mu sync.Mutex
	ch chan struct{}
}

func (g *c18Gate) close() {
	g.mu.Lock()
	if g.ch == nil {
		g.ch = make(chan struct{})
	}
	g.mu.Unlock()
}

func (g *c18Gate) open() {
	g.mu.Lock()
	if g.ch != nil {
		close(g.ch)
		g.ch = nil
	}
	g.mu.Unlock()
}

func (g *c18Gate) wait() {
	g.mu.Lock()
	ch := g.ch
	g.mu.Unlock()
	if ch != nil {
		<-ch
	}
}

func (g *c18Gate) closed() bool {
	g.mu.Lock()
	defer g.mu.Unlock()
	return g.ch != nil
}

type c18Case struct {
	c          *Ctx
	no         int
	scen       string
	r          *rng.R
	prog       *Prog
	cmp        comparer.Comparer
	nontrivial bool
	tail       []string
	gate       *c18Gate
}

func (k *c18Case) gateClosed() bool { return k.gate != nil && k.gate.closed() }

func (k *c18Case) logf(f string, a ...interface{}) { k.tail = append(k.tail, fmt.Sprintf(f, a...)) }

func (k *c18Case) replay(at string) interface{} { return k.replayWith(at, nil) }

func (k *c18Case) replayWith(at string, extra map[string]interface{}) interface{} {
	m := map[string]interface{}{"seed": k.c.Seed, "case": k.no, "scenario": k.scen, "at": at,
		"program": k.prog, "after_program": append([]string(nil), k.tail...)}
	for a, b := range extra {
		m[a] = b
	}
	return m
}

func (k *c18Case) options(readOnly bool) *opt.Options {
	o := k.prog.Opts.Options()
	o.BlockCacheEvictRemoved = true // discarded transactions reuse file numbers (see project notes)
	o.ReadOnly = readOnly
	return o
}

// gated returns a clone whose table creations can be held back.
func (k *c18Case) gated(st *stor.Stor) *stor.Stor {
	cl := st.Clone()
	k.gate = &c18Gate{}
	g := k.gate
	cl.Delay = func(kd stor.Kind, fd storage.FileDesc) int {
		if kd == stor.OpCreate && fd.Type == storage.TypeTable {
			g.wait()
		}
		return 0
	}
	return cl
}

func (k *c18Case) open(st *stor.Stor, readOnly bool) (*leveldb.DB, string, error) {
	var db *leveldb.DB
	var oerr error
	cls, detail := c18Call(func() error {
		var err error
		db, err = leveldb.Open(st, k.options(readOnly))
		oerr = err
		return err
	})
	if cls == "hang" {
		k.c.Res.Violate("open:hang", "Open did not return within 10 s; goroutine dump:\n"+detail, k.replay("open"))
		k.c.Hung = true
	}
	return db, cls, oerr
}

// replayJournals says how many journals a recovery of this storage replays: a clone is opened read-write and the
// journal files it opens are counted (files below the manifest's journal number are left-overs that nobody reads).
func (k *c18Case) replayJournals(st *stor.Stor) int {
	cl := st.Clone()
	db, cls, _ := k.open(cl, false)
	if cls != "ok" {
		return c18CountJournals(st)
	}
	seen := map[int64]bool{}
	for _, o := range cl.Ops() {
		if o.Kind == stor.OpOpen && o.Fd.Type == storage.TypeJournal {
			seen[o.Fd.Num] = true
		}
	}
	db.Close()
	return len(seen)
}

func (k *c18Case) pickKeys(m kvmap) (hit, miss []byte) {
	ks := m.sorted(k.cmp, nil, nil)
	if len(ks) > 0 {
		hit = []byte(ks[k.r.Intn(len(ks))])
	}
	miss = []byte("\x03c18-miss")
	for i := 0; ; i++ {
		if _, ok := m[string(miss)]; !ok {
			return
		}
		miss = append(miss, byte('0'+i%10))
	}
}

// compare checks that the DB serves exactly m (full scan, then Get of every key and of some absent ones).
func (k *c18Case) compare(db *leveldb.DB, m kvmap, sig string) bool {
	ok := true
	cls, detail := c18Call(func() error {
		it := db.NewIterator(nil, nil)
		defer it.Release()
		ks := m.sorted(k.cmp, nil, nil)
		i := 0
		for it.Next() {
			if i >= len(ks) || string(it.Key()) != ks[i] || string(it.Value()) != m[ks[i]] {
				want := "<end>"
				if i < len(ks) {
					want = fmt.Sprintf("%x=%.20q", ks[i], m[ks[i]])
				}
				return fmt.Errorf("scan position %d: got %x=%.20q, plain map expects %s", i, it.Key(), it.Value(), want)
			}
			i++
		}
		if err := it.Error(); err != nil {
			return fmt.Errorf("scan error: %v", err)
		}
		if i != len(ks) {
			return fmt.Errorf("scan ended after %d keys, plain map has %d (first missing %x)", i, len(ks), ks[i])
		}
		for _, key := range ks {
			v, err := db.Get([]byte(key), nil)
			if err != nil || string(v) != m[key] {
				return fmt.Errorf("Get(%x) = %.20q, %v; plain map says %.20q", key, v, err, m[key])
			}
		}
		for _, key := range []string{"\x03c18-absent", "", "\xff\xff\xff\xff"} {
			if _, ok := m[key]; ok {
				continue
			}
			if v, err := db.Get([]byte(key), nil); err != leveldb.ErrNotFound {
				return fmt.Errorf("Get(%x) of an absent key = %.20q, %v", key, v, err)
			}
		}
		return nil
	})
	if cls != "ok" {
		ok = false
		if cls == "hang" {
			k.c.Hung = true
		}
		k.c.Res.Violate(sig, fmt.Sprintf("the DB does not serve the plain map (%d keys): %s: %s", len(m), cls, detail), k.replay(sig))
	}
	return ok
}

type c18Handles struct {
	snapLive  *leveldb.Snapshot
	snapLiveM kvmap
	snapRel   *leveldb.Snapshot
	txC, txD  *leveldb.Transaction
	txLive    *leveldb.Transaction
	itRel     []iterator.Iterator // one fresh released iterator per iterator method
	itUsed    iterator.Iterator   // released, then moved once
	itLive    []iterator.Iterator // one per iterator method, each positioned on the second key
	journalKV int                 // keys written after the last flush: only in the journal
	frozen    bool
}

func (k *c18Case) must(what string, err error) bool {
	if err != nil {
		k.c.Res.Note("case %d (%s): setup step %s failed: %v", k.no, k.scen, what, err)
		k.c.Res.Count("c18", "setup-failed:"+what)
		return false
	}
	return true
}

// setup builds the handles and the tail of one open read-write DB.  wantTx and wantFrozen exclude each other
// (OpenTransaction waits for the flush).
func (k *c18Case) setup(db *leveldb.DB, st *stor.Stor, m kvmap, wantTx, wantFrozen, wantIterLive bool) *c18Handles {
	r := k.r
	h := &c18Handles{}
	wb := k.prog.Opts.WriteBuffer
	// finished transactions first (OpenTransaction flushes the buffer)
	tr, err := db.OpenTransaction()
	if !k.must("OpenTransaction", err) {
		return nil
	}
	for i := 0; i < 1+r.Intn(3); i++ {
		key, v := fmt.Sprintf("\x02c18-tc%d", i), fmt.Sprintf("committed-%d-%d", k.no, i)
		tr.Put([]byte(key), []byte(v), nil)
		m[key] = v
	}
	if !k.must("Commit", tr.Commit()) {
		return nil
	}
	h.txC = tr
	k.logf("transaction: put, commit")
	tr, err = db.OpenTransaction()
	if !k.must("OpenTransaction", err) {
		return nil
	}
	spill := r.Chance(1, 2)
	n := 2
	if spill {
		n = wb/48 + 4
	}
	for i := 0; i < n; i++ {
		tr.Put([]byte(fmt.Sprintf("\x02c18-td%03d", i)), []byte(strings.Repeat("d", 40)), nil)
	}
	tr.Get([]byte("\x02c18-td000"), nil)
	tr.Discard()
	h.txD = tr
	k.logf("transaction: %d puts (spill=%v), get, discard", n, spill)
	// tail that stays in the journal
	nt := 1 + r.Intn(3)
	for i := 0; i < nt; i++ {
		key, v := fmt.Sprintf("\x02c18-j%d", i), fmt.Sprintf("journal-%d-%d", k.no, i)
		if !k.must("Put", db.Put([]byte(key), []byte(v), &opt.WriteOptions{Sync: r.Chance(1, 4)})) {
			return nil
		}
		m[key] = v
	}
	if ks := m.sorted(k.cmp, nil, nil); len(ks) > 0 && r.Chance(1, 2) {
		key := ks[r.Intn(len(ks))]
		if !k.must("Delete", db.Delete([]byte(key), nil)) {
			return nil
		}
		delete(m, key)
		nt++
	}
	h.journalKV = nt
	k.logf("%d writes that stay in the journal", nt)
	// snapshots
	s, err := db.GetSnapshot()
	if !k.must("GetSnapshot", err) {
		return nil
	}
	s.Release()
	h.snapRel = s
	h.snapLive, err = db.GetSnapshot()
	if !k.must("GetSnapshot", err) {
		return nil
	}
	h.snapLiveM = m.clone()
	// iterators
	for range c18IterMethods {
		it := db.NewIterator(nil, nil)
		it.First()
		it.Release()
		h.itRel = append(h.itRel, it)
	}
	h.itUsed = db.NewIterator(nil, nil)
	h.itUsed.First()
	h.itUsed.Release()
	h.itUsed.Next()
	if wantIterLive {
		h.itLive = k.liveIters(db)
		k.logf("%d live iterators positioned on the second key", len(h.itLive))
	}
	switch {
	case wantTx:
		tr, err := db.OpenTransaction()
		if !k.must("OpenTransaction", err) {
			return nil
		}
		n := 1 + r.Intn(3)
		if r.Chance(1, 2) {
			n = wb/48 + 4
		}
		for i := 0; i < n; i++ {
			tr.Put([]byte(fmt.Sprintf("\x02c18-tl%03d", i)), []byte(strings.Repeat("l", 40)), nil)
		}
		h.txLive = tr
		h.journalKV = 0 // OpenTransaction flushed the tail
		k.logf("open transaction with %d puts", n)
	case wantFrozen:
		k.gate.close()
		for i := 0; i < 24; i++ {
			key, v := fmt.Sprintf("\x02c18-f%02d", i), strings.Repeat(string(rune('a'+i%26)), wb/4)
			if !k.must("Put", db.Put([]byte(key), []byte(v), nil)) {
				return nil
			}
			m[key] = v
			if leveldb.VerifDump(db).HasFrozen {
				h.frozen = true
				break
			}
		}
		if h.frozen {
			key, v := "\x02c18-f-after", "in the second journal"
			if !k.must("Put", db.Put([]byte(key), []byte(v), nil)) {
				return nil
			}
			m[key] = v
			k.logf("buffer filled until it was frozen; its flush is held back; one more put into the new journal")
		} else {
			k.gate.open()
		}
	}
	return h
}

// liveIters: one iterator per iterator method, each positioned on the second key.
func (k *c18Case) liveIters(db *leveldb.DB) []iterator.Iterator {
	var its []iterator.Iterator
	for range c18IterMethods {
		it := db.NewIterator(nil, nil)
		it.First()
		it.Next()
		its = append(its, it)
	}
	return its
}

func c18ReleaseAll(its []iterator.Iterator) {
	for _, it := range its {
		it.Release()
	}
}

// probeHandles calls every method of the snapshot, transaction and iterator handles in env's state.
func (k *c18Case) probeHandles(e *c18Env, h *c18Handles, liveSnap, liveIter bool) {
	// released snapshot
	for _, p := range e.snapProbes("snap-released", h.snapRel, kvmap{}) {
		e.run(p)
	}
	e.run(e.snapRelease("snap-released", h.snapRel))
	// live snapshot (its content is the plain map at creation)
	if liveSnap && h.snapLive != nil {
		for _, p := range e.snapProbes("snap-live", h.snapLive, h.snapLiveM) {
			e.run(p)
		}
		e.run(e.snapRelease("snap-live", h.snapLive))
		rel := *e
		for _, p := range rel.snapProbes("snap-released", h.snapLive, kvmap{}) {
			if p.method == "Get:miss" {
				rel.run(p)
			}
		}
		h.snapLive = nil
	}
	// finished transactions
	for _, t := range []struct {
		recv string
		tr   *leveldb.Transaction
	}{{"tx-committed", h.txC}, {"tx-discarded", h.txD}, {"tx-live", h.txLive}} {
		if t.tr == nil || (t.recv == "tx-live" && e.mode != "closed") {
			continue
		}
		for _, p := range e.txProbes(t.recv, t.tr, nil, e.hit) {
			e.run(p)
		}
		e.run(e.txCommit(t.recv, t.tr, nil))
		e.run(e.txDiscard(t.recv, t.tr, nil))
	}
	// released iterators: a fresh one per method, then the one that was already moved after its release
	for i, mth := range c18IterMethods {
		e.run(e.iterProbe("iter-released", mth, h.itRel[i], e.miss))
	}
	for _, mth := range c18IterMethods {
		e.run(e.iterProbe("iter-released-used", mth, h.itUsed, e.miss))
	}
	if liveIter && h.itLive != nil {
		for i, mth := range c18IterMethods {
			e.run(e.iterProbe("iter-live", mth, h.itLive[i], e.miss))
		}
		c18ReleaseAll(h.itLive)
		h.itLive = nil
		if e.bg {
			e.quiesce(2 * time.Millisecond)
		}
	}
}

func (k *c18Case) lockedCheck(st *stor.Stor, db *leveldb.DB, holder string) {
	if holder == "openRW" {
		(&c18Env{k: k, mode: "openRW", db: db, st: st}).quiesce(2 * time.Millisecond)
	}
	var got []string
	for _, ro := range []bool{false, true} {
		m0, n0 := st.NumMutating(), st.NumOps()
		db2, cls, err := k.open(st, ro)
		got = append(got, cls)
		k.c.Res.Eval(fmt.Sprintf("%d/%s/second-open/%s/%v", k.no, k.scen, holder, ro), k.nontrivial)
		k.c.Res.Count("ownership", fmt.Sprintf("second Open(ro=%v) while %s: %s", ro, holder, cls))
		if cls == "ok" {
			k.c.Res.Violate("single-owner:second-open-succeeded", fmt.Sprintf("Open(readOnly=%v) succeeded on a storage owned by an open DB (%s)", ro, holder), k.replay("second-open"))
			db2.Close()
			continue
		}
		if cls != "locked" {
			k.c.Res.Violate("single-owner:second-open:wrong-error", fmt.Sprintf("Open(readOnly=%v) on an owned storage (%s) failed with %v (class %s) instead of storage.ErrLocked", ro, holder, err, cls), k.replay("second-open"))
		}
		if st.NumMutating() != m0 {
			k.c.Res.Violate("single-owner:second-open:mutates", fmt.Sprintf("the refused Open issued %d mutating storage operations: %s", st.NumMutating()-m0, c18LastOps(st, st.NumOps()-n0)), k.replay("second-open"))
		}
	}
	first := "rw:1"
	if holder == "openRO" {
		first = "ro:1:1"
	}
	if got[0] != "ok" && got[1] != "ok" {
		k.c.Lean("life own excl "+first+" rw:2 ro:2:1", "ok "+got[0]+" "+got[1]+" owners=1")
	}
}

// ---- scenario: closed (and, from the storage Close leaves, openRO) ------------------------------

func (k *c18Case) scenarioClosed(base *stor.Stor, m0 kvmap) {
	c, r := k.c, k.r
	k.scen = "closed"
	k.tail = nil
	wantTx, wantFrozen := false, false
	switch r.Intn(3) {
	case 0:
		wantTx = true
	case 1:
		wantFrozen = true
	}
	st := k.gated(base)
	defer k.gate.open()
	m := m0.clone()
	db, cls, err := k.open(st, false)
	if cls != "ok" {
		if cls != "hang" {
			c.Res.Violate("open:error", fmt.Sprintf("Open of the storage a cleanly closed DB left failed: %v", err), k.replay("open"))
		}
		return
	}
	k.lockedCheck(st, db, "openRW")
	h := k.setup(db, st, m, wantTx, wantFrozen, r.Chance(1, 2))
	if h == nil {
		k.gate.open()
		db.Close()
		return
	}
	c.Res.Count("closed:setup", fmt.Sprintf("tx-live=%v frozen-at-close=%v iter-live=%v", h.txLive != nil, h.frozen, h.itLive != nil))
	// Close (the held-back flush is let go shortly after Close has started)
	if h.frozen {
		go func() { time.Sleep(time.Millisecond); k.gate.open() }()
	}
	pre := &c18Env{k: k, mode: "openRW", db: db, st: st, m: m, wb: k.prog.Opts.WriteBuffer, bg: true}
	if h.txLive != nil {
		pre.mode = "openRW+tx"
	}
	pre.hit, pre.miss = k.pickKeys(m)
	if pre.run(c18Probe{recv: "db", method: "Close", trig: true, f: func() error { return db.Close() }}) != "ok" {
		return
	}
	k.logf("Close")
	if st.IsLocked() {
		c.Res.Violate("close:lock-not-released", "the storage is still locked after Close returned", k.replay("close"))
	}
	time.Sleep(500 * time.Microsecond)
	// every method on the closed DB and on the handles; Close again is the "second Close"
	e := &c18Env{k: k, mode: "closed", db: db, st: st, m: m, wb: k.prog.Opts.WriteBuffer, exact: true}
	e.hit, e.miss = pre.hit, pre.miss
	n0 := st.NumOps()
	for _, p := range e.dbProbes(true) {
		e.run(p)
	}
	k.probeHandles(e, h, true, true)
	if n := st.NumOps() - n0; n != 0 {
		c.Res.Violate("closed:storage-touched", fmt.Sprintf("%d storage operations were issued after Close: %s", n, c18LastOps(st, n)), k.replay("closed"))
	}
	if c.Hung {
		return
	}
	nj := k.replayJournals(st)
	c.Res.Count("journals-after-close", fmt.Sprintf("to replay=%d files=%d", nj, c18CountJournals(st)))
	// read-only open of exactly what Close left
	k.scenarioOpenRO(st.Clone(), m.clone(), nj, h.journalKV)
	if c.Hung {
		return
	}
	k.scen = "closed"
	// the storage is available again, and holds everything that was written (the open transaction is gone)
	db2, cls, err := k.open(st, false)
	c.Res.Eval(fmt.Sprintf("%d/closed/reopen", k.no), k.nontrivial)
	if cls != "ok" {
		if cls != "hang" {
			c.Res.Violate("reopen-after-close:error", fmt.Sprintf("Open after Close failed: %v", err), k.replay("reopen"))
		}
		return
	}
	k.compare(db2, m, "reopen-after-close:data-mismatch")
	if cls, d := c18Call(db2.Close); cls != "ok" {
		c.Res.Violate("reopen-after-close:close-"+cls, d, k.replay("reopen"))
		c.Hung = c.Hung || cls == "hang"
	}
	c.Lean("life own excl rw:1 close:1 close:1 rw:2 close:2", "ok ok closed ok ok owners=-")
}

func (k *c18Case) scenarioOpenRO(st *stor.Stor, m kvmap, nj, journalKV int) {
	c := k.c
	k.scen = "openRO"
	k.logf("clone of the storage; Open with ReadOnly (%d journals, %d tail writes only in the journal)", nj, journalKV)
	files0 := c18Files(st)
	st.ListOrder = k.no % 3 // Storage.List promises no order
	c.Res.Count("openRO:list-order", []string{"ascending", "descending", "scrambled"}[st.ListOrder])
	db, cls, err := k.open(st, true)
	c.Res.Eval(fmt.Sprintf("%d/openRO/open/%d", k.no, nj), k.nontrivial)
	c.Res.Count("openRO:open", fmt.Sprintf("journals=%d: %s", nj, cls))
	if cls == "hang" {
		return
	}
	own := "owners=1"
	if cls != "ok" {
		own = "owners=-"
	}
	c.Lean(fmt.Sprintf("life own excl ro:1:%d", nj), cls+" "+own)
	if cls != "ok" {
		if err == io.EOF && nj >= 2 {
			c.Res.Violate("openRO:eof-two-journals", fmt.Sprintf("read-only Open fails with io.EOF when %d journals have to be replayed (recoverJournalRO returns the stale error of journal.Reader.Reset); the same storage opens read-write", nj), k.replay("open-readonly"))
		} else {
			c.Res.Violate("openRO:open-error", fmt.Sprintf("read-only Open failed: %v (class %s, %d journals)", err, cls, nj), k.replay("open-readonly"))
		}
		if st.IsLocked() {
			c.Res.Violate("openRO:failed-open-keeps-lock", "the failed read-only Open left the storage locked", k.replay("open-readonly"))
		}
		if n := st.NumMutating(); n != 0 {
			c.Res.Violate("openRO:failed-open-mutates", fmt.Sprintf("the failed read-only Open issued %d mutating storage operations", n), k.replay("open-readonly"))
		}
		return
	}
	if n := st.NumMutating(); n != 0 {
		c.Res.Violate("openRO:open-mutates", fmt.Sprintf("read-only Open issued %d mutating storage operations: %s", n, c18LastOps(st, st.NumOps())), k.replay("open-readonly"))
	}
	k.lockedCheck(st, db, "openRO")
	e := &c18Env{k: k, mode: "openRO", db: db, st: st, m: m, wb: k.prog.Opts.WriteBuffer, exact: true}
	e.hit, e.miss = k.pickKeys(m)
	// handles of a read-only DB
	h := &c18Handles{}
	if s, err := db.GetSnapshot(); err == nil {
		s.Release()
		h.snapRel = s
	}
	h.snapLive, _ = db.GetSnapshot()
	h.snapLiveM = m
	for range c18IterMethods {
		it := db.NewIterator(nil, nil)
		it.First()
		it.Release()
		h.itRel = append(h.itRel, it)
	}
	h.itUsed = db.NewIterator(nil, nil)
	h.itUsed.Release()
	h.itUsed.Seek(e.miss)
	h.itLive = k.liveIters(db)
	if h.snapRel == nil || h.snapLive == nil {
		c.Res.Violate("readonly:DB.GetSnapshot:read-failed", "GetSnapshot failed on a read-only DB", k.replay("openRO"))
		db.Close()
		return
	}
	for _, p := range e.dbProbes(false) {
		e.run(p)
	}
	k.probeHandles(e, h, true, true)
	if k.compare(db, m, "openRO:data-mismatch") && journalKV > 0 {
		c.Res.Count("openRO", "served data that was only in the journal")
	}
	if n := st.NumMutating(); n != 0 {
		c.Res.Violate("openRO:mutates", fmt.Sprintf("%d mutating storage operations on a DB opened read-only: %s", n, c18LastOps(st, 12)), k.replay("openRO"))
	}
	if e.run(c18Probe{recv: "db", method: "Close", trig: true, f: func() error { return db.Close() }}) == "hang" {
		return
	}
	if st.IsLocked() {
		c.Res.Violate("close:lock-not-released", "the storage is still locked after Close of a read-only DB", k.replay("close"))
	}
	if d := c18FilesDiff(files0, c18Files(st)); len(d) > 0 || st.NumMutating() != 0 {
		c.Res.Violate("openRO:files-changed", fmt.Sprintf("a read-only session changed the stored files: %v (%d mutating operations)", d, st.NumMutating()), k.replay("openRO"))
	}
	ec := &c18Env{k: k, mode: "closed", db: db, st: st, m: m, wb: e.wb, exact: true, hit: e.hit, miss: e.miss}
	for _, p := range ec.dbProbes(true) {
		ec.run(p)
	}
}

// ---- scenario: switchedRO -----------------------------------------------------------------------

func (k *c18Case) scenarioSwitched(base *stor.Stor, m0 kvmap, probeRW bool) {
	c, r := k.c, k.r
	k.scen = "switchedRO"
	k.tail = nil
	st := k.gated(base)
	defer k.gate.open()
	m := m0.clone()
	db, cls, err := k.open(st, false)
	if cls != "ok" {
		if cls != "hang" {
			c.Res.Violate("open:error", fmt.Sprintf("Open of the storage a cleanly closed DB left failed: %v", err), k.replay("open"))
		}
		return
	}
	wb := k.prog.Opts.WriteBuffer
	if probeRW {
		// all methods on the open read-write DB (SetReadOnly and Close are the transitions below)
		e := &c18Env{k: k, mode: "openRW", db: db, st: st, m: m, wb: wb, bg: true}
		e.hit, e.miss = k.pickKeys(m)
		e.quiesce(2 * time.Millisecond)
		for _, p := range e.dbProbes(false) {
			e.run(p)
		}
		// a live transaction: every method, then commit or discard; while it is open the writers block
		tr, err := db.OpenTransaction()
		if k.must("OpenTransaction", err) {
			trM := m.clone()
			et := *e
			et.mode = "openRW+tx"
			for _, p := range et.txProbes("tx-live", tr, trM, e.hit) {
				et.run(p)
			}
			if r.Chance(1, 3) {
				k.blocksCheck(&et, tr) // ends the transaction itself
			} else if r.Chance(1, 2) {
				et.run(et.txCommit("tx-live", tr, func(cls string) {
					if cls == "ok" {
						for a, b := range trM {
							m[a] = b
						}
					}
				}))
			} else {
				et.run(et.txDiscard("tx-live", tr, nil))
			}
		}
		// live snapshot and live iterator
		if s, err := db.GetSnapshot(); k.must("GetSnapshot", err) {
			for _, p := range e.snapProbes("snap-live", s, m.clone()) {
				e.run(p)
			}
			e.run(e.snapRelease("snap-live", s))
		}
		its := k.liveIters(db)
		e.quiesce(2 * time.Millisecond)
		if k.no == 0 {
			c18Coverage(c, its[0], "Iterator", c18IterMethods)
		}
		for i, mth := range c18IterMethods {
			e.run(e.iterProbe("iter-live", mth, its[i], e.miss))
		}
		c18ReleaseAll(its)
		k.logf("all methods on the open DB")
		if !k.compare(db, m, "openRW:data-mismatch") {
			db.Close()
			return
		}
	}
	overlap := !k.prog.Opts.DisableSeeks && r.Chance(2, 3)
	if overlap {
		// two generations of the same keys, each flushed: tables whose ranges overlap, so that reads consult two tables
		for round := 0; round < 2; round++ {
			for i := 0; i < 6; i++ {
				key, v := fmt.Sprintf("\x02c18-s%d", i), strings.Repeat(string(rune('A'+round)), wb/3)
				if !k.must("Put", db.Put([]byte(key), []byte(v), nil)) {
					db.Close()
					return
				}
				m[key] = v
			}
			leveldb.VerifWaitIdle(db)
		}
		k.logf("two flushed generations of six keys \\x02c18-s0..5")
	}
	h := k.setup(db, st, m, false, r.Chance(1, 3), true)
	if h == nil {
		k.gate.open()
		db.Close()
		return
	}
	c.Res.Count("switchedRO:setup", fmt.Sprintf("flush-in-flight=%v", h.frozen))
	pre := &c18Env{k: k, mode: "openRW", db: db, st: st, m: m, wb: wb, bg: true}
	pre.hit, pre.miss = k.pickKeys(m)
	pre.quiesce(2 * time.Millisecond)
	if pre.run(c18Probe{recv: "db", method: "SetReadOnly", f: func() error { return db.SetReadOnly() }}) != "ok" {
		k.gate.open()
		db.Close()
		return
	}
	k.logf("SetReadOnly")
	k.gate.open()
	// the iterator created before the switch pins a version: releasing it may delete files that a compaction
	// replaced, which is part of the work in flight
	c18ReleaseAll(h.itLive)
	h.itLive = nil
	e := &c18Env{k: k, mode: "switchedRO", db: db, st: st, m: m, wb: wb, bg: true}
	e.hit, e.miss = pre.hit, pre.miss
	e.quiesce(25 * time.Millisecond)
	// (a frozen buffer whose flush trigger got lost — rotateMem's non-blocking compTrigger — simply stays: it is
	// still served from memory and its journal, and nothing will flush it on a read-only DB)
	c.Res.Count("switchedRO:after-drain", fmt.Sprintf("frozen buffer still unflushed=%v", leveldb.VerifDump(db).HasFrozen))
	mut0, ops0 := st.NumMutating(), st.NumOps()
	var s0 leveldb.DBStats
	db.Stats(&s0)
	files0 := c18Files(st)
	h.itLive = k.liveIters(db)
	e.quiesce(2 * time.Millisecond) // positioning the iterators reads: let what that may have started finish
	for _, p := range e.dbProbes(false) {
		e.run(p)
	}
	k.probeHandles(e, h, true, true)
	k.compare(db, m, "switchedRO:data-mismatch")
	// reads that use up seek allowances (what the regular probes rarely reach)
	nreads := 0
	if !k.prog.Opts.DisableSeeks {
		ks := m.sorted(k.cmp, nil, nil)
		for round := 0; round < 6 && len(ks) > 0; round++ {
			for _, key := range ks {
				db.Get([]byte(key), nil)
				db.Get(append([]byte(key), 0), nil)
				nreads += 2
			}
			if nreads > 1500 {
				break
			}
		}
		if overlap {
			for i := 0; i < 6; i++ {
				for j := 0; j < 70; j++ {
					db.Get([]byte(fmt.Sprintf("\x02c18-s%d\x00", i)), nil)
					nreads++
				}
			}
		}
	}
	e.quiesce(25 * time.Millisecond)
	var s1 leveldb.DBStats
	db.Stats(&s1)
	nmut := st.NumMutating() - mut0
	seekComps := int(s1.SeekComp - s0.SeekComp)
	c.Res.Eval(fmt.Sprintf("%d/switchedRO/quiescence", k.no), k.nontrivial)
	c.Res.Count("switchedRO:after-drain", fmt.Sprintf("seek-compactions=%d mutated=%v", minInt(seekComps, 3), nmut > 0))
	// the same history on the model's machine: reads that hit, then as many compactions as were counted
	evs := []string{"db.SetReadOnly:0", "mark"}
	for i := 0; i < minInt(seekComps, 4); i++ {
		evs = append(evs, "db.Get:1", "bgCompact:0")
	}
	evs = append(evs, "db.Get:0", "db.Put:1", "bgCompact:0", "bgFlush:0")
	flag := "nomut"
	if nmut > 0 {
		flag = "mut"
	}
	seeks := "seeks"
	if k.prog.Opts.DisableSeeks {
		seeks = "noseeks"
	}
	if nmut > 0 && seekComps == 0 {
		// not explained by the model's seek compactions: report, do not compare
	} else {
		c.Lean("life run "+seeks+" openRW 1 0 0 none "+strings.Join(evs, " "), "switchedRO frozen=0 due=0 pins=0 tx=none "+flag)
		// The same history as an outside observer sees it, now WITH what the reads above are there for: reads that
		// exhaust seek allowances, each followed by a wake-up of tCompaction.  Whether an allowance really was exhausted
		// cannot be observed once the loop parks (no compaction is counted any more), so for the histories built for it
		// (overlapping generations, 420 targeted reads) the line ASSUMES three hits: with a parking loop the model's
		// answer is "nomut" with or without them, which is what must be observed.  (Against a loop that does not park
		// the assumption is often wrong — measured: 7 of 47 such histories end in a seek compaction — and the line then
		// disagrees in addition to the violation `setReadOnly:compaction-after-drain`.)  The flush that was pending
		// when SetReadOnly was called completes before the mark.
		fr := "0"
		if h.frozen {
			fr = "1"
		}
		q := []string{"db.SetReadOnly:0", "bgFlush:0", "bgCompact:0", "mark"}
		hits := minInt(seekComps, 4)
		if overlap && hits < 3 {
			hits = 3
		}
		for i := 0; i < hits; i++ {
			q = append(q, "db.Get:1", "bgCompact:0")
		}
		if hits > 0 {
			q = append(q, "snap-live.Get:1", "bgCompact:1", "iter-live.Next:1", "bgCompact:0")
		}
		q = append(q, "db.Get:0", "db.Put:1", "db.CompactRange:1", "bgCompact:0", "bgFlush:0")
		c.Lean("life quiet "+seeks+" openRW 1 "+fr+" 0 none "+strings.Join(q, " "), "switchedRO "+flag)
		c.Res.Count("switchedRO:quiet-line", fmt.Sprintf("%s seek-hits asserted=%d pending-flush=%s observed=%s", seeks, hits, fr, flag))
	}
	if nmut > 0 {
		d := c18FilesDiff(files0, c18Files(st))
		msg := fmt.Sprintf("after SetReadOnly and after the background work had drained, %d reads later the storage was mutated by %d operations (seek compactions: +%d, level-0: +%d, other: +%d, flushes: +%d): %v; last operations: %s",
			nreads, nmut, seekComps, s1.Level0Comp-s0.Level0Comp, s1.NonLevel0Comp-s0.NonLevel0Comp, s1.MemComp-s0.MemComp, d, c18LastOps(st, minInt(st.NumOps()-ops0, 10)))
		if seekComps > 0 || s1.Level0Comp != s0.Level0Comp || s1.NonLevel0Comp != s0.NonLevel0Comp {
			c.Res.Violate("setReadOnly:compaction-after-drain", msg, k.replay("after-drain"))
		} else {
			c.Res.Violate("setReadOnly:mutation-after-drain", msg, k.replay("after-drain"))
		}
		k.compare(db, m, "switchedRO:data-mismatch-after-compaction")
	}
	if e.run(c18Probe{recv: "db", method: "Close", trig: true, f: func() error { return db.Close() }}) != "ok" {
		return
	}
	if st.IsLocked() {
		c.Res.Violate("close:lock-not-released", "the storage is still locked after Close", k.replay("close"))
	}
	ec := &c18Env{k: k, mode: "closed", db: db, st: st, m: m, wb: wb, exact: true, hit: e.hit, miss: e.miss}
	for _, p := range ec.dbProbes(true) {
		ec.run(p)
	}
	db2, cls, err := k.open(st, false)
	if cls != "ok" {
		if cls != "hang" {
			c.Res.Violate("reopen-after-close:error", fmt.Sprintf("Open after SetReadOnly+Close failed: %v", err), k.replay("reopen"))
		}
		return
	}
	k.compare(db2, m, "reopen-after-close:data-mismatch")
	db2.Close()
}

// blocksCheck: while a transaction is open the calls that need the write lock do not return; they complete
// once it is finished (here: they are cancelled by nothing, so each is started, observed to be parked, and
// collected after the caller ends the transaction).
func (k *c18Case) blocksCheck(e *c18Env, tr *leveldb.Transaction) {
	c := k.c
	db := e.db
	type pend struct {
		name string
		done chan error
	}
	var ps []pend
	start := func(name string, f func() error) {
		ch := make(chan error, 1)
		go func() { ch <- f() }()
		ps = append(ps, pend{name, ch})
	}
	// only one writer is started: several parked writers would merge with each other when the lock is freed
	key := []byte("\x03c18-blocked")
	start("Put", func() error { return db.Put(cp(key), []byte("after-tx"), nil) })
	time.Sleep(3 * time.Millisecond)
	for _, p := range ps {
		cls := "blocks"
		select {
		case err := <-p.done:
			cls = c18Class(err)
			p.done <- err
		default:
		}
		c.Res.Eval(fmt.Sprintf("%d/switchedRO/openRW+tx/db/%s", k.no, p.name), k.nontrivial)
		c.Res.Count("class:openRW+tx/db", p.name+"="+cls)
		c.Lean(fmt.Sprintf("life obs openRW+tx db %s %s 0", p.name, cls), "conform")
		c.Lean(fmt.Sprintf("life openRW+tx db %s", p.name), cls+" nomut")
	}
	// the reads are not blocked
	for _, p := range e.dbProbes(false) {
		if !p.write && p.method != "SetReadOnly" {
			e.run(p)
		}
	}
	// end the transaction so that the parked call returns
	tr.Discard()
	for _, p := range ps {
		select {
		case err := <-p.done:
			if err != nil {
				c.Res.Violate("openRW:DB."+p.name+":error", fmt.Sprintf("%s parked behind a transaction returned %v once it was discarded", p.name, err), k.replay("blocks"))
			} else {
				e.m[string(key)] = "after-tx"
			}
		case <-time.After(c18Watchdog):
			c.Res.Violate("openRW+tx:DB."+p.name+":hang", "a writer parked behind a transaction did not return after Discard", k.replay("blocks"))
			c.Hung = true
		}
	}
}

// ---- scenario: NewIterator / Get overlapping Close ------------------------------------------------

func (k *c18Case) scenarioRace(base *stor.Stor, m kvmap) {
	c := k.c
	k.scen = "race"
	for _, v := range []struct{ call, point string }{{"NewIterator", "r.mems"}, {"Get", "r.seq"}, {"Get", "r.mems"}, {"Snapshot.NewIterator", "r.mems"}} {
		if c.Hung {
			return
		}
		k.tail = []string{fmt.Sprintf("%s; at hook point %s the DB is closed by another caller before the call continues", v.call, v.point)}
		st := base.Clone()
		db, cls, _ := k.open(st, false)
		if cls != "ok" {
			return
		}
		hit, _ := k.pickKeys(m)
		var snap *leveldb.Snapshot
		if v.call == "Snapshot.NewIterator" {
			snap, _ = db.GetSnapshot()
		}
		armed := true
		leveldb.VerifYield = func(p string) {
			if p == v.point && armed {
				armed = false
				db.Close()
			}
		}
		var got string
		cls, detail := c18Call(func() error {
			switch v.call {
			case "Get":
				if hit == nil {
					return leveldb.ErrClosed
				}
				val, err := db.Get(hit, nil)
				if err == nil && string(val) != m[string(hit)] {
					return fmt.Errorf("wrong value %.20q", val)
				}
				return err
			default:
				var it iterator.Iterator
				if snap != nil {
					it = snap.NewIterator(nil, nil)
				} else {
					it = db.NewIterator(nil, nil)
				}
				defer it.Release()
				n := 0
				ks := m.sorted(k.cmp, nil, nil)
				for it.Next() {
					if n >= len(ks) || string(it.Key()) != ks[n] {
						return fmt.Errorf("wrong key at position %d", n)
					}
					n++
				}
				got = fmt.Sprintf("%d of %d keys", n, len(ks))
				if err := it.Error(); err != nil {
					return err
				}
				if n != len(ks) {
					return fmt.Errorf("c18-silent: iterator ended after %s without an error", got)
				}
				return nil
			}
		})
		UninstallSink()
		db.Close()
		c.Res.Eval(fmt.Sprintf("%d/race/%s@%s", k.no, v.call, v.point), k.nontrivial && len(m) > 0)
		c.Res.Count("race", fmt.Sprintf("%s close at %s: %s", v.call, v.point, cls))
		sigCall := "newIterator"
		if v.call == "Get" {
			sigCall = "get"
		}
		switch {
		case cls == "ok" || cls == "closed":
		case cls == "panic" && strings.Contains(detail, "nil pointer"):
			c.Res.Violate(sigCall+":close-race-nil-mem", fmt.Sprintf("%s overlapping Close (closed at %s) dereferences nil: %s", v.call, v.point, detail), k.replay("race"))
		case cls == "panic":
			c.Res.Violate(sigCall+":close-race-panic", fmt.Sprintf("%s overlapping Close (closed at %s) panics: %s", v.call, v.point, detail), k.replay("race"))
		case cls == "hang":
			c.Res.Violate(sigCall+":close-race-hang", detail, k.replay("race"))
			c.Hung = true
		case strings.Contains(detail, "c18-silent"):
			c.Res.Violate(sigCall+":close-race-silent-truncation", fmt.Sprintf("%s overlapping Close (closed at %s, after the call had passed its closed-check) returns an iterator that reports no error but yields %s: neither the contents before Close nor ErrClosed", v.call, v.point, got), k.replay("race"))
		default:
			c.Res.Violate(sigCall+":close-race-wrong-result", fmt.Sprintf("%s overlapping Close (closed at %s): %s", v.call, v.point, detail), k.replay("race"))
		}
	}
}

// ---- scenario: ownership traces -------------------------------------------------------------------

func (k *c18Case) scenarioOwnership(base *stor.Stor, m kvmap) {
	c, r := k.c, k.r
	k.scen = "ownership"
	st := base.Clone()
	dbs := map[int]*leveldb.DB{}
	var evs, want []string
	var owners []int
	nev := 4 + r.Intn(8)
	for i := 0; i < nev && !c.Hung; i++ {
		id := 1 + r.Intn(3)
		if db, ok := dbs[id]; ok && r.Chance(2, 3) {
			cls, _ := c18Call(db.Close)
			evs = append(evs, fmt.Sprintf("close:%d", id))
			want = append(want, cls)
			for j, o := range owners {
				if o == id {
					owners = append(owners[:j], owners[j+1:]...)
					break
				}
			}
			if r.Chance(1, 2) {
				delete(dbs, id)
			}
			continue
		}
		if _, ok := dbs[id]; ok {
			continue // the handle is kept for a later second Close
		}
		ro := r.Chance(1, 3)
		nj := 1
		if ro && len(owners) == 0 {
			nj = k.replayJournals(st)
		}
		mut0 := st.NumMutating()
		db, cls, _ := k.open(st, ro)
		if ro {
			evs = append(evs, fmt.Sprintf("ro:%d:%d", id, nj))
		} else {
			evs = append(evs, fmt.Sprintf("rw:%d", id))
		}
		want = append(want, cls)
		if cls == "ok" {
			if len(owners) > 0 {
				c.Res.Violate("single-owner:second-open-succeeded", fmt.Sprintf("Open succeeded while DB %d holds the storage", owners[0]), map[string]interface{}{"events": evs, "program": k.prog})
			}
			owners = append([]int{id}, owners...)
			dbs[id] = db
			if r.Chance(1, 2) {
				k.compare(db, m, "ownership:data-mismatch")
			}
		} else if ro && len(owners) == 0 && st.NumMutating() != mut0 {
			c.Res.Violate("openRO:failed-open-mutates", "a refused read-only Open mutated the storage", map[string]interface{}{"events": evs, "program": k.prog})
		}
		if (len(owners) > 0) != st.IsLocked() {
			c.Res.Violate("single-owner:lock-state", fmt.Sprintf("storage locked=%v but open DBs=%v", st.IsLocked(), owners), map[string]interface{}{"events": evs, "program": k.prog})
		}
	}
	for id, db := range dbs {
		for _, o := range owners {
			if o == id {
				db.Close()
			}
		}
	}
	os := "-"
	if len(owners) > 0 {
		var s []string
		for _, o := range owners {
			s = append(s, fmt.Sprint(o))
		}
		os = strings.Join(s, ",")
	}
	c.Res.Eval(fmt.Sprintf("%d/ownership/%s", k.no, strings.Join(evs, " ")), true)
	c.Res.Count("ownership", fmt.Sprintf("trace of %d events", len(evs)))
	c.Lean("life own excl "+strings.Join(evs, " "), strings.TrimSpace(strings.Join(want, " ")+" owners="+os))
}

// ---- driver -----------------------------------------------------------------------------------------

func runC18(c *Ctx) {
	c.Res.Rule = "each case: a random DB program (puts/deletes/batches/large batches/compactions/reopen/transactions, tiny buffers, mostly bytewise comparer) builds a storage; clones of it are driven into the states closed (tail only in the journal, live/released snapshots and iterators, committed/discarded/open transaction, in a third of the cases a frozen buffer still unflushed at Close), openRO (the storage exactly as Close left it, opened with ReadOnly) and switchedRO (SetReadOnly, drain of the background work), plus openRW, and switchedRO entered while a compaction is retrying after failing table creations (every write-side call must then return the read-only error, Close must return); in each state EVERY public method of DB, Snapshot, Transaction and the DB iterator is called under a 10 s watchdog on the recording storage. One evaluation = one call (state × receiver × method) or one direct check (second Open refused, reopen after Close serves the plain map, read-only session leaves the files bit-identical, nothing mutated after SetReadOnly+drain, NewIterator/Get overlapping Close, ownership traces, a real file storage, and the close-race campaign: one kind of call × plain / SetReadOnly / Options.ReadOnly racing Close at a random moment with yield points widening the narrow windows, each result normal-and-correct or a closed-class error, never a panic, hang, internal error or made-up answer, nothing touches the storage after Close returned, a reopen shows the preloaded data); it is checked against the property's demand for that state and against the Lean table (`life` lines). Non-trivial = the case's DB holds ≥ 3 keys and ≥ 1 table; distinct by (case, scenario, state, receiver, method)."
	defer UninstallSink()
	ncases := c.Scale(120, 1500)
	for i := 0; i < ncases && c.TimeLeft() && !c.Hung; i++ {
		r := c.R.Fork()
		o := gen.RandOpts(r)
		if r.Chance(1, 6) {
			o.Cmp = gen.CmpIDs[r.Intn(len(gen.CmpIDs))]
		}
		o.WriteBuffer = 256 << uint(r.Intn(3))
		w := DefaultWeights
		w.Iter, w.Snap, w.SnapGet, w.SnapRel, w.Get, w.Has = 2, 1, 1, 1, 4, 1
		w.Reopen, w.Compact, w.Tx, w.BigWrite = 1, 3, 2, 1
		nops := 20 + r.Intn(140)
		if i%7 == 0 {
			nops = r.Intn(6) // nearly empty DBs too
		}
		p := GenProg(r, o, nops, w)
		p.Settle = r.Chance(1, 3)
		k := &c18Case{c: c, no: i, r: r, prog: p, cmp: gen.Comparer(o.Cmp), scen: "history"}
		run := NewRunner(p)
		run.O.BlockCacheEvictRemoved = true
		cls, detail := c18CallLong(func() error { run.Run(); return nil }, 60*time.Second)
		if cls == "hang" {
			c.Res.Violate("history:hang", "the DB program that builds the state did not finish within 60 s:\n"+detail, k.replay("history"))
			c.Hung = true
			return
		}
		if cls != "ok" || run.Failed {
			c.Res.Count("c18", "history-failed (not a C18 matter): "+cls+" "+run.FailSig)
			c.Res.Note("case %d: the program that builds the DB state failed (%s %s); case skipped", i, cls, run.FailSig)
			continue
		}
		base, m := run.St, run.M
		if base.IsLocked() {
			c.Res.Violate("close:lock-not-released", "the storage is still locked after the program closed its DB", k.replay("history"))
			base.ForceUnlock()
		}
		k.nontrivial = len(m) >= 3 && c18CountTables(base) >= 1
		c.Res.Count("case", fmt.Sprintf("keys>=3=%v tables=%d cmp=%s", len(m) >= 3, minInt(c18CountTables(base), 4), o.Cmp))
		if i == 0 {
			c18Coverage(c, (*leveldb.DB)(nil), "DB", c18DBMethods)
			c18Coverage(c, (*leveldb.Snapshot)(nil), "Snapshot", c18SnapMethods)
			c18Coverage(c, (*leveldb.Transaction)(nil), "Transaction", c18TxMethods)
		}
		k.scenarioClosed(base, m)
		if c.Hung {
			return
		}
		k.scenarioSwitched(base, m, i%2 == 0)
		if c.Hung {
			return
		}
		if i%4 == 1 {
			k.scenarioSwitchedDuringError(base, m)
			if c.Hung {
				return
			}
		}
		if i%3 == 0 {
			k.scenarioRace(base, m)
		}
		if c.Hung {
			return
		}
		k.scenarioOwnership(base, m)
		if i%10 == 1 && !c.Hung {
			k.scenarioFileStorage(m)
		}
		if i < 2 {
			c.Res.Sample(map[string]interface{}{"case": i, "opts": p.Opts, "program_ops": len(p.Ops), "keys": len(m), "tables": c18CountTables(base),
				"then": "closed / openRO / switchedRO / ownership scenarios, every method in every state"})
		}
	}
	if !c.Hung {
		c18BruteRace(c, time.Duration(c.Scale(3, 20))*time.Second)
	}
	// the competitors of the write lock that wait for a failing compaction at the level-0 pause trigger (C09's scenario D):
	// OpenTransaction / a large batch must hand the lock back on that error path too, or Close never returns
	for i := 0; i < c.Scale(6, 30) && !c.Hung && len(c.Res.Violations) == 0; i++ {
		cfg := c09PauseCfg{Seed: c.R.Fork().U64(), Pause: 2 + i%3, Big: i%2 == 1}
		if sig, msg := runC09Pause(c, cfg); sig != "" {
			c.Res.Violate(sig, msg, cfg)
			c.Hung = true
		}
		c.Res.Eval(fmt.Sprintf("pause/%+v", cfg), true)
	}
	// calls racing Close, one kind of call at a time, yield points widening the narrow windows (c18race.go)
	runCloseRaces(c, time.Duration(c.Scale(14, 240))*time.Second, false)
}

// c18CallLong is c18Call with another time limit.
func c18CallLong(f func() error, d time.Duration) (string, string) {
	type res struct{ cls, detail string }
	ch := make(chan res, 1)
	go func() {
		defer func() {
			if p := recover(); p != nil {
				ch <- res{"panic", fmt.Sprint(p)}
			}
		}()
		err := f()
		ch <- res{c18Class(err), fmt.Sprint(err)}
	}()
	select {
	case r := <-ch:
		return r.cls, r.detail
	case <-time.After(d):
		return "hang", "timeout"
	}
}

var _ = sort.Strings
