package checks

// C07 scenario (3): a table written by a discarded transaction is still used by an iterator obtained from it; the
// physical removal is deferred until that iterator is released.  Whatever happens in between — in particular another
// transaction (or flush) committing a table — releasing the old iterator must remove only the discarded table.

import (
	"fmt"
	"strings"

	"github.com/syndtr/goleveldb/leveldb"
	"github.com/syndtr/goleveldb/leveldb/iterator"
	"github.com/syndtr/goleveldb/leveldb/util"

	"verif/harness/gen"
	"verif/harness/rng"
	"verif/harness/stor"
)

type c07TxScn struct {
	Seed uint64   `json:"seed"`
	Opts gen.Opts `json:"opts"`
	How  string   `json:"how"`
}

func c07TxIter(c *Ctx, r *rng.R, idx int) (stop bool) {
	o := gen.RandOpts(r)
	o.Cmp = "bytewise"
	o.WriteBuffer = 512 << uint(r.Intn(3))
	o.DisableLargeBatchTx = true
	scn := &c07TxScn{Seed: r.U64(), Opts: o, How: "rng.New(seed): base Puts; tx1: Puts spilling >= 1 table, 1-3 iterators from tx1 (one positioned), Discard; then in random order: tx2 spilling tables + Commit / Puts + CompactRange / tx3 + Discard; release the old iterators one by one; after each step: every key readable (Get + scan = plain map), settled storage = live set"}
	r = rng.New(scn.Seed)
	st := stor.New()
	st.KeepOps(false)
	oo := o.Options()
	db, err := leveldb.Open(st, oo)
	if err != nil {
		c.Res.Violate("txiter:open", err.Error(), scn)
		return false
	}
	defer func() { crCall(crWdTimeout, db.Close) }()
	m := kvmap{}
	val := func(tag string, i int) string {
		return fmt.Sprintf("%s-%d-%s", tag, i, strings.Repeat(tag[:1], 30+r.Intn(o.WriteBuffer/4)))
	}
	for i := 0; i < 5+r.Intn(20); i++ {
		k, v := fmt.Sprintf("k%02d", r.Intn(40)), val("base", i)
		if err := db.Put([]byte(k), []byte(v), nil); err != nil {
			c.Res.Violate("txiter:put", err.Error(), scn)
			return false
		}
		m[k] = v
	}
	check := func(when string, allReleased bool) bool {
		got, err := crDumpDB(db)
		if err != nil {
			c.Res.Violate("txiter:read-error", fmt.Sprintf("%s: scanning the DB fails: %v", when, err), scn)
			return false
		}
		if d, ok := c11Equal(m, got); !ok {
			c.Res.Violate("txiter:contents", fmt.Sprintf("%s: %s", when, d), scn)
			return false
		}
		for k, v := range m {
			g, err := db.Get([]byte(k), nil)
			if err != nil || string(g) != v {
				c.Res.Violate("txiter:get", fmt.Sprintf("%s: Get(%s) = %.20q, %v; want %.20q", when, k, g, err, v), scn)
				return false
			}
		}
		if !allReleased {
			// the discarded tables stay until their iterators are released; no live file may be missing
			leveldb.VerifWaitIdle(db)
			if _, missing := c07FileDiff(db, st); len(missing) > 0 {
				c.Res.Violate("files:missing", fmt.Sprintf("tx-iterator scenario, %s: live files missing from storage: %v", when, missing), scn)
				return false
			}
			return true
		}
		return c07Settled(c, db, st, nil, scn, "tx-iterator scenario, "+when)
	}
	txBody := func(tr *leveldb.Transaction, tag string, tables int) (kvmap, error) {
		tm := m.clone()
		for sz, i := 0, 0; sz < o.WriteBuffer*tables+o.WriteBuffer/2; i++ {
			k, v := fmt.Sprintf("k%02d", r.Intn(40)), val(tag, i)
			if err := tr.Put([]byte(k), []byte(v), nil); err != nil {
				return nil, err
			}
			tm[k] = v
			sz += len(v) + 12
		}
		return tm, nil
	}
	tr1, err := db.OpenTransaction()
	if err != nil {
		c.Res.Violate("txiter:open-tx", err.Error(), scn)
		return false
	}
	tm1, err := txBody(tr1, "one", 1+r.Intn(2))
	if err != nil {
		c.Res.Violate("txiter:tx-put", err.Error(), scn)
		return false
	}
	var its []iterator.Iterator
	for i := 0; i <= r.Intn(3); i++ {
		it := tr1.NewIterator(nil, nil)
		if i == 0 {
			it.First()
		}
		its = append(its, it)
	}
	tr1.Discard()
	c.Res.Count("txiter", fmt.Sprintf("held-iterators=%d", len(its)))
	if !check("after Discard with its iterators still open", false) {
		return c.Hung
	}
	steps := []int{0, 1, 2}
	for i := 2; i > 0; i-- {
		j := r.Intn(i + 1)
		steps[i], steps[j] = steps[j], steps[i]
	}
	for _, s := range steps[:1+r.Intn(3)] {
		switch s {
		case 0:
			tr, err := db.OpenTransaction()
			if err != nil {
				c.Res.Violate("txiter:open-tx", err.Error(), scn)
				return false
			}
			tm, err := txBody(tr, "two", 1+r.Intn(2))
			if err == nil {
				err = tr.Commit()
			}
			if err != nil {
				c.Res.Violate("txiter:commit", err.Error(), scn)
				return false
			}
			m = tm
			c.Res.Count("txiter", "step:second-transaction-committed")
		case 1:
			for i := 0; i < 10+r.Intn(30); i++ {
				k, v := fmt.Sprintf("k%02d", r.Intn(40)), val("put", i)
				if err := db.Put([]byte(k), []byte(v), nil); err != nil {
					c.Res.Violate("txiter:put", err.Error(), scn)
					return false
				}
				m[k] = v
			}
			if r.Bool() {
				db.CompactRange(util.Range{})
			}
			c.Res.Count("txiter", "step:puts")
		case 2:
			tr, err := db.OpenTransaction()
			if err != nil {
				c.Res.Violate("txiter:open-tx", err.Error(), scn)
				return false
			}
			if _, err := txBody(tr, "three", 1); err != nil {
				c.Res.Violate("txiter:tx-put", err.Error(), scn)
				return false
			}
			tr.Discard()
			c.Res.Count("txiter", "step:third-transaction-discarded")
		}
		// the held iterators still show the discarded transaction's view where they stand
		if it := its[0]; it.Valid() {
			if want, ok := tm1[string(it.Key())]; !ok || want != string(it.Value()) {
				c.Res.Violate("txiter:held-iterator-changed", fmt.Sprintf("the iterator of the discarded transaction stands on %s=%.20q, the transaction had %.20q", it.Key(), it.Value(), want), scn)
				return false
			}
		}
	}
	for i, it := range its {
		it.Release()
		if !check(fmt.Sprintf("after releasing iterator %d of the discarded transaction", i), i == len(its)-1) {
			return c.Hung
		}
	}
	c.Res.Eval(fmt.Sprintf("txiter/%d", scn.Seed), true)
	_ = idx
	return false
}
