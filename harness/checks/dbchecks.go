package checks

import (
	"encoding/json"
	"fmt"
	"os"
	"path/filepath"
	"runtime"
	"strings"
	"time"

	"verif/harness/gen"
	"verif/harness/rng"
)

// runProg executes one program with the given checks and reports the (shrunk) failure.
func runProg(c *Ctx, p *Prog, ck ProgChecks, sigPrefix string) (*Runner, bool) {
	r := NewRunner(p)
	r.Checks = ck
	if ck.Trace {
		r.Tracer = attachTracer(c, r)
		defer UninstallSink()
	}
	var msg string
	var failAt int
	r.Fail = func(sig, m string, at int) { msg, failAt = m, at }
	done := make(chan bool, 1)
	go func() { done <- c.Guard(sigPrefix+"db-program", p, func() { r.Run() }) }()
	select {
	case panicked := <-done:
		if panicked {
			return r, true
		}
	case <-time.After(90 * time.Second):
		buf := make([]byte, 1<<20)
		buf = buf[:runtime.Stack(buf, true)]
		c.Res.Violate(sigPrefix+"hang", "a call of the program did not return within 90 s; goroutine dump:\n"+blockedSummary(string(buf)),
			map[string]interface{}{"program": p, "stats": r.Stats})
		c.Hung = true
		return r, true
	}
	if r.Tracer != nil {
		c.Res.CountN("lsm-score", "versions-scored", r.Tracer.nScore)
		c.Res.CountN("lsm-score", "score>=1", r.Tracer.nScoreGE1)
		c.Res.CountN("lsm-visits", "lookups-walked", r.Tracer.nVisits)
		c.Res.CountN("lsm-visits", "seek-charged", r.Tracer.nCharged)
		for n, k := range r.Tracer.visitLens {
			c.Res.CountN("lsm-visits-tables-consulted", fmt.Sprint(n), k)
		}
	}
	if r.Failed {
		small := shrinkProg(p, ck, r.FailSig, failAt)
		c.Res.Violate(sigPrefix+r.FailSig, msg, map[string]interface{}{"program": small, "original_ops": len(p.Ops), "fail_at": failAt})
		return r, true
	}
	return r, false
}

func failsWith(p *Prog, ck ProgChecks, sig string) bool {
	r := NewRunner(p)
	r.Checks = ck
	res := make(chan bool, 1)
	go func() {
		ok := false
		func() {
			defer func() {
				if recover() != nil {
					ok = strings.HasSuffix(sig, "panic")
				}
			}()
			r.Run()
		}()
		res <- ok || (r.Failed && r.FailSig == sig)
	}()
	select {
	case b := <-res:
		return b
	case <-time.After(20 * time.Second):
		return sig == "hang"
	}
}

// shrinkProg: truncate after the failing op, then delta-debug the op list (bounded effort).
func shrinkProg(p *Prog, ck ProgChecks, sig string, failAt int) *Prog {
	cur := *p
	if failAt >= 0 && failAt+1 < len(cur.Ops) {
		cur.Ops = append([]POp(nil), cur.Ops[:failAt+1]...)
	}
	det := cur
	det.Settle = true
	if failsWith(&det, ck, sig) {
		cur = det
	} else if !failsWith(&cur, ck, sig) {
		return p // not reproducible on replay (timing dependent): keep the original
	}
	budget := 400
	deadline := time.Now().Add(45 * time.Second)
	for chunk := len(cur.Ops) / 2; chunk >= 1 && budget > 0 && time.Now().Before(deadline); {
		removed := false
		for i := 0; i+chunk <= len(cur.Ops) && budget > 0 && time.Now().Before(deadline); {
			cand := cur
			cand.Ops = append(append([]POp(nil), cur.Ops[:i]...), cur.Ops[i+chunk:]...)
			budget--
			if failsWith(&cand, ck, sig) {
				cur = cand
				removed = true
			} else {
				i += chunk
			}
		}
		if !removed || chunk > len(cur.Ops) {
			chunk /= 2
		}
	}
	return &cur
}

func progKey(p *Prog) string { return fmt.Sprintf("%v/%d/%v", p.Opts, len(p.Ops), p.Ops[len(p.Ops)/2]) }

type progPlan struct {
	weights  ProgWeights
	checks   ProgChecks
	nprogs   [2]int // quick, thorough
	nops     int
	cmps     []string
	poison   bool
	mutate   func(r *rng.R, o *gen.Opts)
	nontriv  func(r *Runner) bool
	rule     string
	variants func(p *Prog) []*Prog // extra configurations the same program is replayed under
}

func runPlan(c *Ctx, pl progPlan) {
	c.Res.Rule = pl.rule
	// corpus of minimised past failures runs first
	for _, cp := range loadCorpus() {
		q := *cp.p
		if pl.poison {
			q.Poison = true
		}
		run, failed := runProg(c, &q, pl.checks, "")
		c.Res.Eval("corpus/"+cp.name, true)
		c.Res.Count("corpus", cp.name)
		_ = run
		if failed {
			return
		}
	}
	n := c.Scale(pl.nprogs[0], pl.nprogs[1])
	for i := 0; i < n && c.TimeLeft() && !c.Hung; i++ {
		r := c.R.Fork()
		o := gen.RandOpts(r)
		o.Cmp = pl.cmps[i%len(pl.cmps)]
		if pl.mutate != nil {
			pl.mutate(r, &o)
		}
		w := pl.weights
		w.InvertedRanges = r.Chance(1, 4)
		p := GenProg(r, o, pl.nops/2+r.Intn(pl.nops), w)
		p.Poison = pl.poison
		p.Settle = r.Chance(1, 3)
		progs := []*Prog{p}
		if pl.variants != nil {
			progs = append(progs, pl.variants(p)...)
		}
		var first *Runner
		for vi, q := range progs {
			run, failed := runProg(c, q, pl.checks, "")
			nt := pl.nontriv == nil || pl.nontriv(run)
			c.Res.Eval(progKey(q), nt)
			for k, v := range run.Stats {
				c.Res.CountN("ops", k, v)
			}
			c.Res.Count("comparer", q.Opts.Cmp)
			if failed {
				return
			}
			if vi == 0 {
				first = run
			} else if strings.Join(first.Transcript, ",") != strings.Join(run.Transcript, ",") {
				c.Res.Violate("variant:transcript-differs", "the same program returned different read results under another configuration",
					map[string]interface{}{"program": p, "variant_opts": q.Opts})
				return
			}
		}
		if i < 2 {
			c.Res.Sample(map[string]interface{}{"opts": p.Opts, "ops": len(p.Ops), "first_ops": p.Ops[:minInt(6, len(p.Ops))]})
		}
	}
}

func minInt(a, b int) int {
	if a < b {
		return a
	}
	return b
}

func hasTables(r *Runner) bool {
	for k := range r.Stats {
		if strings.HasPrefix(k, "levels-") && k != "levels-0" {
			return true
		}
	}
	return r.Stats["compact"]+r.Stats["reopen"] > 0
}

func init() {
	Registry["C01"] = func(c *Ctx) {
		runPlan(c, progPlan{
			weights: DefaultWeights, checks: ProgChecks{Trace: true},
			nprogs: [2]int{400, 4000}, nops: 300, cmps: gen.CmpIDs,
			nontriv: func(r *Runner) bool { return r.Stats["get"] > 5 && r.Stats["put"] > 20 },
			rule:    "random single-client programs (put/delete/batch/large batch/get/has/snapshots/iterators/CompactRange/reopen/transactions) under random layout options and the five comparers; plain-map oracle after every read, full scan after reopen and at the end; non-trivial = ≥ 20 puts and > 5 gets; distinct by (options, length, middle op)",
		})
	}
	Registry["C03"] = func(c *Ctx) {
		w := DefaultWeights
		w.Snap, w.SnapGet, w.SnapRel, w.Iter, w.Compact = 10, 16, 3, 14, 6
		w.HeldIters = true
		runPlan(c, progPlan{
			weights: w, checks: ProgChecks{Trace: true}, nprogs: [2]int{400, 4000}, nops: 320, cmps: []string{"bytewise", "reverse", "bytewise", "lenfirst"},
			nontriv: func(r *Runner) bool { return r.Stats["snapget"] > 5 && r.Stats["snap"] > 1 },
			rule:    "programs biased to many simultaneously live snapshots and long-held iterators interleaved with writes, deletes, flushes (tiny buffers) and manual/automatic compactions; every snapshot/iterator read is compared with a copy of the plain map taken at creation; held iterators are re-walked after later compactions; non-trivial = > 1 snapshot and > 5 snapshot reads",
		})
	}
	Registry["C06"] = func(c *Ctx) {
		w := DefaultWeights
		w.Compact, w.Reopen, w.Tx, w.BigWrite = 6, 3, 4, 2
		runPlan(c, progPlan{
			weights: w, checks: ProgChecks{Structure: true, Trace: true}, nprogs: [2]int{300, 3000}, nops: 300, cmps: gen.CmpIDs,
			nontriv: hasTables,
			rule:    "programs with frequent flushes, automatic/seek/manual compactions, trivial moves, large-batch transaction commits and reopen under the five comparers; after every mutating call the live version is dumped (verif export) and every table is read back: file present with recorded size, entries strictly ordered, recorded bounds exact, levels ≥ 1 ordered and user-key disjoint, shallower strictly newer per user key; non-trivial = tables existed",
		})
	}
	Registry["C20"] = func(c *Ctx) {
		// (a) concurrent part: the caller's batch stays intact when its Write leads a merged group
		for i := 0; i < c.Scale(12, 150) && !c.Hung; i++ {
			r := c.R.Fork()
			o := gen.RandOpts(r)
			o.Cmp = "bytewise"
			o.WriteBuffer = 4096
			o.NoWriteMerge = false
			cfg := wpCfg{Opts: o, Writers: 4 + r.Intn(12), Calls: 6 + r.Intn(10), Competitor: true, YieldMask: uint32(r.U64()), Procs: r.Pick(2, 4, 16), Seed: r.U64()}
			wr, stats := runWp(cfg)
			c.Res.Eval(fmt.Sprintf("conc/%+v", cfg), stats["accept"] > 0)
			c.Res.CountN("concurrent", "merged-writers", stats["accept"])
			for j, sg := range wr.sigs {
				if sg == "write:caller-batch-modified" || sg == "writers:hang" {
					c.Res.Violate(sg, wr.fails[j], map[string]interface{}{"config": cfg})
					return
				}
			}
		}
		w := DefaultWeights
		w.Get, w.Iter = 24, 10
		runPlan(c, progPlan{
			weights: w, poison: true, checks: ProgChecks{}, nprogs: [2]int{300, 3000}, nops: 250, cmps: []string{"bytewise"},
			mutate: func(r *rng.R, o *gen.Opts) {
				// enumerate the configuration lattice of the property: pool × cache × compression
				x := r.Intn(8)
				o.DisableBufferPool = x&1 == 1
				if x&2 == 2 {
					o.BlockCache = -1
				} else {
					o.BlockCache = 0
				}
				o.Compression = 1 + (x>>2)&1
			},
			nontriv: func(r *Runner) bool { return r.Stats["get"] > 10 },
			rule:    "(a) concurrent Put/Write scenarios in which the caller's batch is compared before and after DB.Write (a leader must not append merged records to it); (b) C01-style programs with poisoning: every argument buffer (keys, values, batch contents, range bounds, seek keys) is overwritten right after the call returns, every Get result is overwritten and the Get repeated, iterator key/value are checked for stability until the next move; over buffer pool on/off × block cache on/off × compression none/snappy; results must still match the plain map",
		})
	}
	Registry["C16"] = func(c *Ctx) {
		// first the filter itself, byte for byte against the Lean model (hash, bloom generate/contains) …
		runC16B(c)
		rule1 := c.Res.Rule
		defer func() { c.Res.Rule = rule1 + " || DB level: " + c.Res.Rule }()
		// … then whole DB programs replayed under different filter settings
		runPlan(c, progPlan{
			weights: DefaultWeights, checks: ProgChecks{}, nprogs: [2]int{100, 1000}, nops: 260, cmps: []string{"bytewise", "bytewise", "reverse"},
			mutate: func(r *rng.R, o *gen.Opts) { o.FilterBits = 0 },
			variants: func(p *Prog) []*Prog {
				var out []*Prog
				for _, fb := range [][2]int{{10, 11}, {1, 4}, {16, 6}} {
					q := *p
					q.Opts.FilterBits, q.Opts.FilterBaseLg = fb[0], fb[1]
					q.Settle = p.Settle
					out = append(out, &q)
				}
				// a policy migration: every open of the program uses another policy for new tables and lists the
				// earlier ones in AltFilters, so tables written under different policies coexist
				m := *p
				m.Opts.FilterBits, m.FilterMigration = 0, true
				m.Settle = p.Settle
				out = append(out, &m)
				return out
			},
			nontriv: hasTables,
			rule:    "DB programs replayed under five filter settings (none; bloom 10 bits/base 2^11; 1 bit/2^4; 16 bits/2^6; a policy migration: each (re)open switches among three differently named policies and none, the others listed in AltFilters): every read must match the plain map in each, and the read transcripts must be identical across the settings",
		})
	}
}

// blockedSummary keeps the goroutines that are parked inside goleveldb or the harness.
func blockedSummary(dump string) string {
	var out []string
	for _, g := range strings.Split(dump, "\n\n") {
		if strings.Contains(g, "goleveldb/leveldb") || strings.Contains(g, "verif/harness/checks") {
			lines := strings.Split(g, "\n")
			if len(lines) > 14 {
				lines = lines[:14]
			}
			out = append(out, strings.Join(lines, "\n"))
		}
		if len(out) >= 12 {
			break
		}
	}
	return strings.Join(out, "\n\n")
}

type corpusProg struct {
	name string
	p    *Prog
}

func verifRoot() string {
	if v := os.Getenv("VERIF_ROOT"); v != "" {
		return v
	}
	return "/verif"
}

func loadCorpus() []corpusProg {
	dir := filepath.Join(verifRoot(), "corpus", "dbprog")
	ents, _ := os.ReadDir(dir)
	var out []corpusProg
	for _, e := range ents {
		if !strings.HasSuffix(e.Name(), ".json") {
			continue
		}
		b, err := os.ReadFile(filepath.Join(dir, e.Name()))
		if err != nil {
			continue
		}
		var w struct {
			Program *Prog `json:"program"`
		}
		if json.Unmarshal(b, &w) == nil && w.Program != nil {
			out = append(out, corpusProg{e.Name(), w.Program})
		}
	}
	return out
}

func init() {
	// PROG runs the single program named by VERIF_PROG (a corpus/replay file) with every oracle on.
	Registry["PROG"] = func(c *Ctx) {
		b, err := os.ReadFile(os.Getenv("VERIF_PROG"))
		if err != nil {
			panic(err)
		}
		var w struct {
			Program *Prog `json:"program"`
			Replay  struct {
				Program *Prog `json:"program"`
			} `json:"replay"`
		}
		if err := json.Unmarshal(b, &w); err != nil {
			panic(err)
		}
		p := w.Program
		if p == nil {
			p = w.Replay.Program
		}
		run, failed := runProg(c, p, ProgChecks{Structure: true, Files: true}, "")
		c.Res.Eval("prog", true)
		fmt.Println("failed:", failed, run.FailSig, run.Stats)
		for _, v := range c.Res.Violations {
			fmt.Println(v.Signature, v.Message)
		}
	}
}
