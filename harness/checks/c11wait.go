package checks

// C11 scenario (6): Commit has to wait for a table compaction after it installed the transaction (the commit lifts the
// number of level-0 tables to WriteL0PauseTrigger) and that compaction fails, or the DB is closed meanwhile.  What
// Commit reports must match what is visible: nil = everything, an error = nothing, and the documented reaction to an
// error (Discard) must not damage the DB either way.

import (
	"fmt"
	"sync/atomic"
	"time"

	"github.com/syndtr/goleveldb/leveldb"
	"github.com/syndtr/goleveldb/leveldb/opt"
	"github.com/syndtr/goleveldb/leveldb/storage"

	"verif/harness/rng"
	"verif/harness/stor"
)

func c11CommitWaits(c *Ctx, once *crSigOnce, r *rng.R, i int) {
	o := c11Opts(r)
	o.L0Trigger = 2
	scn := &c11Scn{Kind: "commit-waits-for-compaction", Opts: o, Seed: r.U64(), How: "rng.New(seed): WriteL0PauseTrigger 2-4; base Puts; OpenTransaction; body spilling pause+1 tables over 30 keys; from the first manifest write of Commit on, table creations fail (n times or until Commit returned) / are held while Close is called; Commit; on error Discard; Puts; dump; Close; reopen a Clone"}
	r = rng.New(scn.Seed)
	pause := 2 + r.Intn(3)
	withClose := r.Chance(1, 3)
	nfail := 1 + r.Intn(6)
	scn.Args = map[string]interface{}{"pause_trigger": pause, "close_during_commit": withClose, "failing_table_creates": nfail}
	st := stor.New()
	st.KeepOps(false)
	oo := o.Options()
	oo.DisableCompactionBackoff = true
	oo.WriteL0PauseTrigger = pause
	oo.WriteL0SlowdownTrigger = pause
	db, err := leveldb.Open(st, oo)
	if c11Skip(c, "open", err, false) {
		return
	}
	m := kvmap{}
	if c11Skip(c, "base", c11Base(db, r, m, 5+r.Intn(20)), false) {
		db.Close()
		return
	}
	leveldb.VerifWaitIdle(db)
	var tr *leveldb.Transaction
	err, h := crCall(crWdTimeout, func() (err error) { tr, err = db.OpenTransaction(); return })
	if c11Skip(c, "open-tx", err, h) {
		return
	}
	tm, err := c11Body(tr, r, m, o.WriteBuffer, "tx", pause+1)
	if c11Skip(c, "body", err, false) {
		return
	}
	var armed, committedSeen, fired int32
	gate := make(chan struct{})
	var held int32
	st.SetHooks(func(op stor.Op) stor.FaultMode {
		if atomic.LoadInt32(&armed) == 0 {
			return stor.NoFault
		}
		if op.Fd.Type == storage.TypeManifest && op.Kind == stor.OpWrite {
			atomic.StoreInt32(&committedSeen, 1)
		}
		if !withClose && atomic.LoadInt32(&committedSeen) == 1 && op.Kind == stor.OpCreate && op.Fd.Type == storage.TypeTable && int(atomic.LoadInt32(&fired)) < nfail {
			atomic.AddInt32(&fired, 1)
			return stor.FailNoEffect
		}
		return stor.NoFault
	}, nil)
	if withClose {
		st.Delay = func(k stor.Kind, fd storage.FileDesc) int {
			if atomic.LoadInt32(&armed) == 1 && atomic.LoadInt32(&committedSeen) == 1 && k == stor.OpCreate && fd.Type == storage.TypeTable {
				atomic.StoreInt32(&held, 1)
				select {
				case <-gate:
				case <-time.After(10 * time.Second):
				}
			}
			return 0
		}
	}
	atomic.StoreInt32(&armed, 1)
	var cerr error
	var hung bool
	closedByUs := false
	if withClose {
		done := make(chan error, 1)
		go func() { done <- tr.Commit() }()
		// wait until the compaction that Commit waits for sits in its table creation, then close
		for t0 := time.Now(); atomic.LoadInt32(&held) == 0 && time.Since(t0) < 2*time.Second; {
			select {
			case cerr = <-done:
				done <- cerr
				t0 = t0.Add(-time.Hour)
			default:
				time.Sleep(200 * time.Microsecond)
			}
		}
		if atomic.LoadInt32(&held) == 1 {
			closedByUs = true
			cdone := make(chan struct{})
			go func() { db.Close(); close(cdone) }()
			time.Sleep(2 * time.Millisecond)
			close(gate)
			select {
			case <-cdone:
			case <-time.After(crWdTimeout):
				once.report(c, "Transaction.Commit:close-during-wait:Close-hang", "Close did not return:\n"+blockedSummary(crGoroutines()), scn)
				return
			}
		} else {
			close(gate)
		}
		select {
		case cerr = <-done:
		case <-time.After(crWdTimeout):
			hung = true
		}
	} else {
		cerr, hung = crCall(crWdTimeout, tr.Commit)
	}
	atomic.StoreInt32(&armed, 0)
	c.Res.Eval(fmt.Sprintf("commit-waits/%d", scn.Seed), atomic.LoadInt32(&fired) > 0 || closedByUs)
	c.Res.Count("scenario", fmt.Sprintf("commit-waits:pause=%d close=%v fired=%v", pause, closedByUs, atomic.LoadInt32(&fired) > 0))
	if hung {
		once.report(c, "Transaction.Commit:waiting-for-compaction:hang", "Commit did not return within 20 s:\n"+blockedSummary(crGoroutines()), scn)
		go db.Close()
		return
	}
	committed := cerr == nil
	c.Res.Count("commit_waits_outcome", fmt.Sprintf("commit-error=%v close=%v", !committed, closedByUs))
	if !committed {
		// the documented reaction
		if _, h := crCall(crWdTimeout, func() error { tr.Discard(); return nil }); h {
			once.report(c, "Transaction.Discard:after-failed-commit:hang", "Discard did not return within 20 s:\n"+blockedSummary(crGoroutines()), scn)
			return
		}
	} else {
		m = tm
	}
	if !closedByUs {
		for j := 0; j < 3; j++ {
			k := fmt.Sprintf("a%02d", j)
			if err, h := crCall(crWdTimeout, func() error { return db.Put([]byte(k), []byte("after"), &opt.WriteOptions{Sync: true}) }); h {
				once.report(c, "Transaction.Commit:waiting-for-compaction:later-Put:hang", blockedSummary(crGoroutines()), scn)
				go db.Close()
				return
			} else if err == nil {
				m[k] = "after"
			}
		}
		got, derr := crDumpDB(db)
		if derr != nil {
			once.report(c, "Transaction.Commit:reported-"+map[bool]string{true: "nil", false: "error"}[committed]+":reads-fail-afterwards",
				fmt.Sprintf("Commit returned %v (then Discard on error); scanning the running DB fails: %v", cerr, derr), scn)
			crCall(crWdTimeout, db.Close)
			return
		}
		if d, ok := c11Equal(m, got); !ok {
			sig := "Transaction.Commit:reported-error-but-visible"
			if committed {
				sig = "Transaction.Commit:reported-nil-but-not-visible"
			}
			once.report(c, sig, fmt.Sprintf("Commit returned %v; running DB: %s", cerr, d), scn)
			crCall(crWdTimeout, db.Close)
			return
		}
		if _, h := crCall(crWdTimeout, db.Close); h {
			once.report(c, "Transaction.Commit:waiting-for-compaction:Close:hang", blockedSummary(crGoroutines()), scn)
			return
		}
	}
	st.SetHooks(nil, nil)
	st.Delay = nil
	img := st.Clone()
	db2, err := leveldb.Open(img, oo)
	if err != nil {
		once.report(c, "Transaction.Commit:waiting-for-compaction:reopen-"+crErrClass(err), fmt.Sprintf("Commit returned %v (close during commit=%v); reopening the files fails: %v", cerr, closedByUs, err), scn)
		return
	}
	defer db2.Close()
	got2, err := crDumpDB(db2)
	if err != nil {
		once.report(c, "Transaction.Commit:waiting-for-compaction:scan-error-after-reopen", err.Error(), scn)
		return
	}
	if _, ok := c11Equal(m, got2); ok {
		c.Res.Count("commit_waits_outcome", "after-reopen:as-reported")
		return
	}
	if !committed {
		// an error from Commit leaves the outcome open, but it must be all or nothing
		if _, ok := c11Equal(c11Overlay(m, tm, true), got2); ok {
			c.Res.Count("commit_waits_outcome", "after-reopen:error-reported-transaction-present-whole")
			return
		}
	}
	d, _ := c11Equal(m, got2)
	once.report(c, "Transaction.Commit:waiting-for-compaction:contents-after-reopen", fmt.Sprintf("Commit returned %v; after reopen: %s", cerr, d), scn)
}
