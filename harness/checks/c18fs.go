package checks

import (
	"fmt"
	"io"
	"os"
	"path/filepath"
	"runtime/debug"
	"sort"
	"strings"
	"sync"
	"time"

	"github.com/syndtr/goleveldb/leveldb"
	"github.com/syndtr/goleveldb/leveldb/opt"
	"github.com/syndtr/goleveldb/leveldb/storage"

	"verif/harness/stor"
)

// c18DirSnapshot reads a directory: name → "size/mtime/content".
func c18DirSnapshot(dir string) map[string]string {
	out := map[string]string{}
	ents, _ := os.ReadDir(dir)
	for _, e := range ents {
		b, _ := os.ReadFile(filepath.Join(dir, e.Name()))
		fi, _ := e.Info()
		mt := ""
		if fi != nil {
			mt = fi.ModTime().String()
		}
		out[e.Name()] = fmt.Sprintf("%d/%s/%s", len(b), mt, b)
	}
	return out
}

func c18DirJournals(dir string) int {
	n := 0
	ents, _ := os.ReadDir(dir)
	for _, e := range ents {
		if strings.HasSuffix(e.Name(), ".log") {
			n++
		}
	}
	return n
}

// scenarioFileStorage repeats the ownership and read-only checks on the real file storage, in a temporary
// directory under the output directory.
func (k *c18Case) scenarioFileStorage(m kvmap) {
	c := k.c
	k.scen = "file-storage"
	k.tail = []string{"fresh directory; the case's final plain map is written with Put; one more Put stays in the journal"}
	dir, err := os.MkdirTemp(c.OutDir, "c18fs-")
	if err != nil {
		c.Res.Note("file storage scenario skipped: %v", err)
		return
	}
	defer os.RemoveAll(dir)
	rp := func(at string) interface{} { return k.replayWith(at, map[string]interface{}{"plain_map_keys": len(m)}) }
	openFile := func(ro bool) (*leveldb.DB, string, error) {
		var db *leveldb.DB
		var oerr error
		cls, detail := c18Call(func() error {
			var err error
			db, err = leveldb.OpenFile(dir, k.options(ro))
			oerr = err
			return err
		})
		if cls == "hang" {
			c.Res.Violate("open:hang", "OpenFile did not return within 10 s:\n"+detail, rp("open"))
			c.Hung = true
		}
		return db, cls, oerr
	}
	eval := func(what string) { c.Res.Eval(fmt.Sprintf("%d/file-storage/%s", k.no, what), true) }
	db1, cls, err := openFile(false)
	if cls != "ok" {
		if cls != "hang" {
			c.Res.Violate("file-storage:open-error", fmt.Sprintf("OpenFile on a fresh directory: %v", err), rp("open"))
		}
		return
	}
	m = m.clone()
	for _, key := range m.sorted(k.cmp, nil, nil) {
		db1.Put([]byte(key), []byte(m[key]), nil)
	}
	leveldb.VerifWaitIdle(db1)
	m["\x02c18-fsj"] = "only in the journal"
	db1.Put([]byte("\x02c18-fsj"), []byte("only in the journal"), &opt.WriteOptions{Sync: true})
	// the directory is owned: a second OpenFile (read-write or read-only) is refused
	var got []string
	for _, ro := range []bool{false, true} {
		db2, cls, err := openFile(ro)
		got = append(got, cls)
		eval(fmt.Sprintf("second-openfile/ro=%v", ro))
		c.Res.Count("ownership", fmt.Sprintf("file storage: second OpenFile(ro=%v) while open read-write: %s", ro, cls))
		if cls == "ok" {
			c.Res.Violate("single-owner:file-storage:second-open-succeeded", fmt.Sprintf("OpenFile(readOnly=%v) succeeded on a directory owned by an open DB", ro), rp("second-open"))
			db2.Close()
		} else if cls != "locked" {
			c.Res.Violate("single-owner:file-storage:second-open:wrong-error", fmt.Sprintf("OpenFile(readOnly=%v) on an owned directory failed with %v, not with a lock error", ro, err), rp("second-open"))
		}
	}
	if got[0] == "locked" && got[1] == "locked" {
		c.Lean("life own excl rw:1 rw:2 ro:2:1", "ok locked locked owners=1")
	}
	if cls, d := c18Call(db1.Close); cls != "ok" {
		c.Res.Violate("file-storage:close-"+cls, d, rp("close"))
		c.Hung = c.Hung || cls == "hang"
		return
	}
	// read-only session on the closed directory: exact data, nothing changes on disk
	before := c18DirSnapshot(dir)
	nj := c18DirJournals(dir)
	ro1, cls, err := openFile(true)
	eval("open-readonly")
	if cls != "ok" {
		if err == io.EOF && nj >= 2 {
			c.Res.Violate("openRO:eof-two-journals", fmt.Sprintf("read-only OpenFile fails with io.EOF (%d journals)", nj), rp("open-readonly"))
		} else if cls != "hang" {
			c.Res.Violate("openRO:open-error", fmt.Sprintf("read-only OpenFile failed: %v (%d journals)", err, nj), rp("open-readonly"))
		}
	} else {
		k.compare(ro1, m, "openRO:data-mismatch")
		if err := ro1.Put([]byte("x"), []byte("y"), nil); err != leveldb.ErrReadOnly {
			c.Res.Violate("readonly:DB.Put:not-rejected", fmt.Sprintf("Put on a DB opened read-only from a directory returned %v", err), rp("openRO"))
		}
		eval("readonly-put")
		// a writer is refused while the reader is there; another reader has its own storage object and shares the flock
		rw2, cls, err := openFile(false)
		eval("rw-while-ro")
		c.Res.Count("ownership", "file storage: OpenFile(rw) while open read-only: "+cls)
		if cls == "ok" {
			c.Res.Violate("single-owner:file-storage:second-open-succeeded", "read-write OpenFile succeeded while a read-only DB has the directory open", rp("rw-while-ro"))
			rw2.Close()
		} else if cls != "locked" {
			c.Res.Violate("single-owner:file-storage:second-open:wrong-error", fmt.Sprintf("read-write OpenFile while a read-only DB is open failed with %v", err), rp("rw-while-ro"))
		}
		ro2, cls, _ := openFile(true)
		c.Res.Count("ownership", "file storage: second read-only OpenFile (separate storage object, shared flock): "+cls)
		if cls == "ok" {
			k.compare(ro2, m, "openRO:data-mismatch")
			ro2.Close()
		}
		if cls, d := c18Call(ro1.Close); cls != "ok" {
			c.Res.Violate("file-storage:close-"+cls, d, rp("close"))
			c.Hung = c.Hung || cls == "hang"
			return
		}
		eval("files-unchanged")
		if d := c18FilesDiff(before, c18DirSnapshot(dir)); len(d) > 0 {
			c.Res.Violate("openRO:file-storage:files-changed", fmt.Sprintf("read-only sessions changed the directory: %v", d), rp("openRO"))
		}
	}
	// one storage object, two DBs
	fs, err := storage.OpenFile(dir, false)
	if err != nil {
		c.Res.Violate("file-storage:storage-open-error", fmt.Sprintf("storage.OpenFile after all DBs were closed: %v", err), rp("storage"))
		return
	}
	a, err := leveldb.Open(fs, k.options(false))
	if err != nil {
		c.Res.Violate("reopen-after-close:error", fmt.Sprintf("Open on the file storage after Close: %v", err), rp("storage"))
		fs.Close()
		return
	}
	_, errb := leveldb.Open(fs, k.options(false))
	a.Close()
	b2, errb2 := leveldb.Open(fs, k.options(false))
	eval("storage-object-rw")
	if errb != storage.ErrLocked || errb2 != nil {
		c.Res.Violate("single-owner:file-storage:lock", fmt.Sprintf("same file storage object: second Open while open gave %v (want ErrLocked), Open after Close gave %v (want nil)", errb, errb2), rp("storage"))
	} else {
		k.compare(b2, m, "reopen-after-close:data-mismatch")
		c.Lean("life own excl rw:1 rw:2 close:1 rw:2 close:2", "ok locked ok ok ok owners=-")
	}
	if b2 != nil {
		b2.Close()
	}
	fs.Close()
	// one READ-ONLY storage object, two DBs: its Lock() is a dummy
	before = c18DirSnapshot(dir)
	fsr, err := storage.OpenFile(dir, true)
	if err != nil {
		c.Res.Violate("file-storage:storage-open-error", fmt.Sprintf("storage.OpenFile(readOnly) failed: %v", err), rp("storage-ro"))
		return
	}
	nj = c18DirJournals(dir)
	d1, e1 := leveldb.Open(fsr, k.options(true))
	d2, e2 := leveldb.Open(fsr, k.options(true))
	eval("storage-object-ro")
	own := []string{}
	if e2 == nil {
		own = append(own, "2")
	}
	if e1 == nil {
		own = append(own, "1")
	}
	os := "-"
	if len(own) > 0 {
		os = strings.Join(own, ",")
	}
	c.Lean(fmt.Sprintf("life own shro ro:1:%d ro:2:%d", nj, nj), c18Class(e1)+" "+c18Class(e2)+" owners="+os)
	c.Res.Count("ownership", fmt.Sprintf("read-only file storage object: two Opens: %s, %s", c18Class(e1), c18Class(e2)))
	if e1 == nil && e2 == nil {
		c.Res.Note("%s: %s (%v)", "single-owner:readonly-file-storage:shared-by-design", "two DBs are open at the same time on ONE storage object returned by storage.OpenFile(path, readOnly=true): its Lock() hands out a dummy lock every time (both DBs are read-only and serve the data)", rp("storage-ro"))
		k.compare(d2, m, "openRO:data-mismatch")
	}
	if d1 != nil {
		k.compare(d1, m, "openRO:data-mismatch")
		d1.Close()
	}
	if d2 != nil {
		d2.Close()
	}
	fsr.Close()
	if d := c18FilesDiff(before, c18DirSnapshot(dir)); len(d) > 0 {
		c.Res.Violate("openRO:file-storage:files-changed", fmt.Sprintf("read-only sessions changed the directory: %v", d), rp("storage-ro"))
	}
}

// c18BruteRace: NewIterator in a loop against Close without any forced interleaving (stops at the first panic).
func c18BruteRace(c *Ctx, d time.Duration) {
	deadline := time.Now().Add(d)
	attempts, panics := 0, 0
	for time.Now().Before(deadline) && panics == 0 {
		st := stor.New()
		db, err := leveldb.Open(st, &opt.Options{WriteBuffer: 1024})
		if err != nil {
			return
		}
		for i := 0; i < 30; i++ {
			db.Put([]byte(fmt.Sprintf("k%02d", i)), []byte("v"), nil)
		}
		var wg sync.WaitGroup
		var mu sync.Mutex
		var trace string
		for g := 0; g < 4; g++ {
			wg.Add(1)
			go func() {
				defer wg.Done()
				defer func() {
					if p := recover(); p != nil {
						mu.Lock()
						panics++
						trace = fmt.Sprintf("panic: %v\n%s", p, debug.Stack())
						mu.Unlock()
					}
				}()
				for i := 0; i < 2000; i++ {
					it := db.NewIterator(nil, nil)
					it.First()
					err := it.Error()
					it.Release()
					if err == leveldb.ErrClosed {
						return
					}
				}
			}()
		}
		time.Sleep(time.Duration(attempts%200) * time.Microsecond)
		db.Close()
		done := make(chan struct{})
		go func() { wg.Wait(); close(done) }()
		select {
		case <-done:
		case <-time.After(c18Watchdog):
			c.Res.Violate("newIterator:close-race-hang", "NewIterator loops racing Close did not finish", map[string]int{"attempt": attempts})
			c.Hung = true
			return
		}
		attempts++
		if panics > 0 {
			sig := "newIterator:close-race-panic"
			if strings.Contains(trace, "nil pointer") {
				sig = "newIterator:close-race-nil-mem"
			}
			c.Res.Violate(sig, "NewIterator racing Close (no forced interleaving, 4 goroutines): "+trace, map[string]int{"attempt": attempts})
		}
	}
	c.Res.Eval("brute-race", true)
	c.Res.Count("race", fmt.Sprintf("unforced NewIterator||Close attempts: %d, panics: %d", attempts, panics))
}

var _ = sort.Strings
