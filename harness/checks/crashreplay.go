package checks

import (
	"encoding/hex"
	"encoding/json"
	"fmt"
	"os"
	"strings"

	"github.com/syndtr/goleveldb/leveldb"
	"github.com/syndtr/goleveldb/leveldb/opt"
	"github.com/syndtr/goleveldb/leveldb/storage"
	"github.com/syndtr/goleveldb/leveldb/util"

	"verif/harness/gen"
	"verif/harness/stor"
)

// CRASHIMG replays the self-contained part of a C04/C11 crash-image violation: the image bytes stored
// in the replay file (VERIF_REPLAY) are loaded into a storage, reopened with the recorded options, and
// the subset-of-batches oracle is evaluated again.  VERIF_LOG=1 prints the storage log and operations.
func init() {
	Registry["CRASHIMG"] = func(c *Ctx) {
		b, err := os.ReadFile(os.Getenv("VERIF_REPLAY"))
		if err != nil {
			panic(err)
		}
		var w struct {
			Replay struct {
				Workload *crSpec `json:"workload"`
				Issued   int     `json:"issued_before_crash"`
				Acked    string  `json:"acked_before_crash"`
				Image    struct {
					Current string            `json:"current"`
					Files   map[string]string `json:"files"`
				} `json:"image"`
			} `json:"replay"`
		}
		if err := json.Unmarshal(b, &w); err != nil {
			panic(err)
		}
		if os.Getenv("VERIF_FULL") != "" {
			var w2 struct {
				Replay struct {
					Workload *crSpec   `json:"workload"`
					Path     []crPoint `json:"crash_path"`
				} `json:"replay"`
			}
			json.Unmarshal(b, &w2)
			replayCrashPath(c, w2.Replay.Workload, w2.Replay.Path)
			return
		}
		st, err := crLoadImage(w.Replay.Image.Files, w.Replay.Image.Current)
		if err != nil {
			panic(err)
		}
		var lines []string
		if os.Getenv("VERIF_LOG") != "" {
			st.LogLines = &lines
		}
		spec := w.Replay.Workload
		bs := spec.gen()
		db, err := leveldb.Open(st, spec.options())
		if os.Getenv("VERIF_LOG") != "" {
			for _, op := range st.Ops() {
				fmt.Println("op", op.String())
			}
			for _, l := range lines {
				fmt.Println("log", l)
			}
		}
		c.Res.Eval("replay", true)
		if err != nil {
			fmt.Println("reopen error:", err)
			c.Res.Violate("crash-image:reopen-error:"+crErrClass(err), err.Error(), nil)
			return
		}
		defer db.Close()
		got, err := crDumpDB(db)
		if err != nil {
			fmt.Println("read error:", err)
			c.Res.Violate("crash-image:read-error", err.Error(), nil)
			return
		}
		oracle, msg, present := crSubsetOracle(bs, got, func(id int) bool { return id < w.Replay.Issued && bs[id].Kind != "txdiscard" }, crParseRanges(w.Replay.Acked))
		fmt.Println("present:", crIDRanges(crSortedIDs(present)), "oracle:", oracle, msg)
		if oracle != "" {
			c.Res.Violate("crash-image:"+oracle, msg, nil)
		}
	}
}

func crParseFdName(name string) (storage.FileDesc, error) {
	i := strings.LastIndexByte(name, '-')
	if i < 0 {
		return storage.FileDesc{}, fmt.Errorf("bad file name %q", name)
	}
	var fd storage.FileDesc
	switch name[:i] {
	case "manifest":
		fd.Type = storage.TypeManifest
	case "journal":
		fd.Type = storage.TypeJournal
	case "table":
		fd.Type = storage.TypeTable
	case "temp":
		fd.Type = storage.TypeTemp
	default:
		return fd, fmt.Errorf("bad file type in %q", name)
	}
	_, err := fmt.Sscanf(name[i+1:], "%d", &fd.Num)
	return fd, err
}

func crLoadImage(files map[string]string, current string) (*stor.Stor, error) {
	st := stor.New()
	for name, hx := range files {
		fd, err := crParseFdName(name)
		if err != nil {
			return nil, err
		}
		data, err := hex.DecodeString(hx)
		if err != nil {
			return nil, err
		}
		st.PutFile(fd, data)
	}
	if current != "none" && current != "" {
		fd, err := crParseFdName(current)
		if err != nil {
			return nil, err
		}
		if err := st.SetMeta(fd); err != nil {
			return nil, err
		}
	}
	_ = gen.Hex
	return st, nil
}

// replayCrashPath re-runs the workload, takes the image at the recorded storage operation with the
// recorded image seed, and follows the nested crash points through the recoveries (exact only when the
// operation order of the run repeats, i.e. for settle=true workloads).
func replayCrashPath(c *Ctx, spec *crSpec, path []crPoint) {
	bs := spec.gen()
	o := spec.options()
	st := stor.New()
	db, err := leveldb.Open(st, o)
	if err != nil {
		panic(err)
	}
	var img *stor.Stor
	issued := 0
	sh := crShadowOf(st)
	st.SetHooks(nil, func(s *stor.Stor, op stor.Op) {
		if img == nil && op.Seq == path[0].OpSeq {
			fmt.Println("level 1 crash before", op.String(), "recorded:", path[0].Op)
			if path[0].ManifestCut > 0 {
				mfd, _, _, _ := sh.currentManifest()
				img = sh.takeImageCut(s, path[0].ImgSeed, mfd, path[0].ManifestCut)
			} else {
				img = sh.takeImage(s, path[0].ImgSeed)
			}
		}
		sh.apply(op)
	})
	for _, b := range bs {
		if img != nil {
			break
		}
		issued = b.ID + 1
		switch b.Kind {
		case "write", "big":
			if err := db.Write(b.batch(0, len(b.Ops)), &opt.WriteOptions{Sync: b.Sync}); err != nil {
				panic(err)
			}
		default:
			tr, err := db.OpenTransaction()
			if err != nil {
				panic(err)
			}
			tr.Write(b.batch(0, len(b.Ops)), nil)
			if b.Kind == "tx" {
				tr.Commit()
			} else {
				tr.Discard()
			}
		}
		if b.Compact {
			db.CompactRange(util.Range{})
		}
		if spec.Settle {
			leveldb.VerifWaitIdle(db)
		}
	}
	if img == nil {
		fmt.Println("crash point not reached")
		return
	}
	for lvl := 1; ; lvl++ {
		fmt.Printf("image at level %d:\n", lvl)
		for _, fd := range img.Files() {
			bb, _ := img.FileBytes(fd)
			fmt.Printf("  %s %d bytes\n", crFdName(fd), len(bb))
			if fd.Type == storage.TypeManifest {
				fmt.Printf("    %x\n", bb)
			}
		}
		m, _ := img.Meta()
		fmt.Println("  current:", crFdName(m))
		work := img.Clone()
		var lines []string
		work.LogLines = &lines
		var next *stor.Stor
		if lvl < len(path) {
			p := path[lvl]
			sh2 := crShadowOf(work)
			work.SetHooks(nil, func(s *stor.Stor, op stor.Op) {
				if next == nil && op.Seq == p.OpSeq {
					fmt.Println("level", lvl+1, "crash before", op.String(), "recorded:", p.Op)
					next = sh2.takeImage(s, p.ImgSeed)
				}
				sh2.apply(op)
			})
		}
		db2, err := leveldb.Open(work, o)
		work.SetHooks(nil, nil)
		for _, op := range work.Ops() {
			fmt.Println("  op", op.String())
		}
		for _, l := range lines {
			fmt.Println("  log", l)
		}
		if err != nil {
			fmt.Println("reopen error:", err)
			return
		}
		got, err := crDumpDB(db2)
		db2.Close()
		if err != nil {
			fmt.Println("read error at level", lvl, ":", err)
		} else {
			oracle, msg, present := crSubsetOracle(bs, got, func(id int) bool { return id < issued && bs[id].Kind != "txdiscard" }, nil)
			fmt.Println("level", lvl, "present:", crIDRanges(crSortedIDs(present)), "oracle:", oracle, msg)
		}
		if next == nil {
			return
		}
		img = next
	}
}

// FAULTPLAN re-runs one C08 fault plan: VERIF_REPLAY names a C08 violation file (its replay.plan is
// used) or a file holding just the plan.
func init() {
	Registry["FAULTPLAN"] = func(c *Ctx) {
		b, err := os.ReadFile(os.Getenv("VERIF_REPLAY"))
		if err != nil {
			panic(err)
		}
		var w struct {
			Replay struct {
				Plan *c08Plan `json:"plan"`
			} `json:"replay"`
		}
		json.Unmarshal(b, &w)
		plan := w.Replay.Plan
		if plan == nil {
			plan = &c08Plan{}
			if err := json.Unmarshal(b, plan); err != nil {
				panic(err)
			}
		}
		spec := plan.Workload
		fr := &c08Run{c: c, once: &crSigOnce{}, plan: plan, bs: spec.gen(), o: c08Options(spec), r: c.R.Fork()}
		fr.run()
		c.Res.Eval("plan", true)
		fmt.Println("outcome:", fr.outcome)
		for _, op := range fr.inj.firedOps() {
			fmt.Println("injected:", op.String())
		}
		for _, f := range fr.failedCalls {
			fmt.Println("call error:", f)
		}
		for _, v := range c.Res.Violations {
			fmt.Println("VIOLATION", v.Signature, "\n ", v.Message)
		}
	}
}

// crParseRanges reads what crIDRanges wrote ("[0-3 7 9-12]").
func crParseRanges(t string) []int {
	var out []int
	for _, f := range strings.Fields(strings.Trim(t, "[]")) {
		var a, b int
		if n, _ := fmt.Sscanf(f, "%d-%d", &a, &b); n == 2 {
			for i := a; i <= b; i++ {
				out = append(out, i)
			}
		} else if n, _ := fmt.Sscanf(f, "%d", &a); n == 1 {
			out = append(out, a)
		}
	}
	return out
}
