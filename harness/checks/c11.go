package checks

// C11, crash/durability part: atomicity of transactions (explicit and large-batch) across crashes,
// no residue after Discard / Close, blocking of other writers, failed commits.  Isolation proper is
// checked by the LSM/Conc checks; two lifetime defects that show through discarded transactions
// (D16, stale block cache after file-number reuse) are probed here because they need Discard.

import (
	"bytes"
	"fmt"
	"runtime"
	"sort"
	"strings"
	"sync"
	"sync/atomic"
	"time"

	"github.com/syndtr/goleveldb/leveldb"
	"github.com/syndtr/goleveldb/leveldb/opt"
	"github.com/syndtr/goleveldb/leveldb/storage"
	"github.com/syndtr/goleveldb/leveldb/util"

	"verif/harness/gen"
	"verif/harness/rng"
	"verif/harness/stor"
)

func init() { Registry["C11"] = runC11 }

func runC11(c *Ctx) {
	if !crIsWorker() {
		crIsolated(c, nil)
		return
	}
	defer crWorkerCheckpoint(c)()
	c.Res.Rule = "(1) crash images as in C04 on transaction-heavy workloads (40% explicit transactions with bodies of 1-40 operations written in 1-3 Transaction.Write calls and spanning several internal table flushes, a third discarded; 10% batches larger than the write buffer, which DB.Write routes through a transaction): in every image taken after Commit returned nil the transaction is entirely present; a discarded one or one whose Commit had not been called is entirely absent; with Commit in flight entirely present or absent (head and tail marker agree, contents equal the present batches applied in order); a concurrent Put issued while the transaction is open has not returned before Commit/Discard and returns afterwards (watchdog); nested images during recovery. (2) residue: the table files a transaction spilled are gone from storage (stor.Files vs VerifDump live set) after Discard + settle, and after Close with the transaction still open + reopen. (3) failed commits: manifest write/sync failures (1-4 consecutive, with/without effect) injected into Commit; on error Discard; more writes; Close; reopen a copy: opens, every acknowledged write present, the transaction whole or absent. (4) an iterator obtained from a transaction and kept across Discard still shows what it showed (D16). (5) after Discard the file number of a spilled table is reused: reads must not come from cached blocks of the discarded table. (6) Commit waits for a table compaction after installing the transaction (level-0 count at WriteL0PauseTrigger 2-4) and that compaction fails or the DB is closed meanwhile: what Commit reports matches what is visible (nil = all, error + Discard = none or, after reopen, all), reads keep working, the files reopen. One evaluation = one reopened image (1) or one scenario (2-6); non-trivial = a transaction spilled at least one table / at least one batch issued. (6) trace validation: transaction-heavy concurrent runs (explicit transactions every 2-5 rounds, large batches via the transaction path) whose synchronisation events and reads are replayed through the compiled interleaving model; a sample of the crash images of (1) is decoded and recovered by the compiled durable model and compared with the reopened DB."
	once := &crSigOnce{}
	c11StaleCacheRace(c)
	if len(c.Res.Violations) > 0 {
		return
	}
	// ---- (2)-(5): scenarios, a small share of the budget -----------------------------------------
	nsc := c.Scale(600, 15000)
	par := runtime.GOMAXPROCS(0)
	if par > 16 {
		par = 16
	}
	sem := make(chan struct{}, par)
	var wg sync.WaitGroup
	scDeadline := time.Duration(float64(c.Budget) * 0.3)
	for i := 0; i < nsc; i++ {
		r := c.R.Fork()
		if time.Since(c.Start) > scDeadline {
			break
		}
		sem <- struct{}{}
		wg.Add(1)
		go func(i int, r *rng.R) {
			defer wg.Done()
			defer func() { <-sem }()
			c.Guard("tx-scenario:harness", i, func() {
				switch i % 5 {
				case 0:
					c11Residue(c, once, r, i)
				case 1:
					c11CommitFault(c, once, r, i)
				case 2:
					c11IterAfterDiscard(c, once, r, i)
				case 3:
					c11StaleCache(c, once, r, i)
				case 4:
					c11CommitWaits(c, once, r, i)
				}
			})
		}(i, r)
	}
	wg.Wait()
	// ---- (1): crash images -------------------------------------------------------------------------
	nwl := c.Scale(24, 4000)
	type job struct {
		spec *crSpec
		r    *rng.R
	}
	var jobs []job
	for i := 0; i < nwl; i++ {
		r := c.R.Fork()
		s := crashSpec(r, "transactions", c.Thorough)
		s.Config = []string{"tx-explicit", "tx-and-large-batch", "tx-tiny-manifest", "tx-compact"}[i%4]
		s.TxPct, s.DiscardPct = 40, 33
		s.N = 60 + r.Intn(80)
		switch s.Config {
		case "tx-and-large-batch":
			s.BigPct, s.Opts.DisableLargeBatchTx = 12, false
		case "tx-tiny-manifest":
			s.Opts.MaxManifest = int64(64 << uint(r.Intn(6)))
			s.BigPct, s.Opts.DisableLargeBatchTx = 6, false
		case "tx-compact":
			s.CompactPct = 6
		}
		jobs = append(jobs, job{s, r})
	}
	var images int64
	leanLeft := int64(c.Scale(150, 1500))
	for i, j := range jobs {
		if !c.TimeLeft() || c.Hung {
			break
		}
		sem <- struct{}{}
		if !c.TimeLeft() || c.Hung {
			<-sem
			break
		}
		wg.Add(1)
		go func(i int, j job) {
			defer wg.Done()
			defer func() { <-sem }()
			e := &crashEnv{c: c, sigPref: "Transaction:", spec: j.spec, batches: j.spec.gen(), o: j.spec.options(),
				maxDepth: c.Scale(1, 2), nestProb: [2]int{1, 12}, usable: 4, leanLeft: &leanLeft, leanEvery: c.Scale(2, 20)}
			cr := &crashRun{env: e, every: c.Scale(3, 1), maxImgs: c.Scale(2, 6), probeBlocked: true}
			c.Guard("Transaction:crash-image:workload", j.spec, func() { cr.run(j.r) })
			atomic.AddInt64(&images, e.nimg)
			c.Res.CountN("config", j.spec.Config, int(e.nimg))
			if i < 2 {
				c.Res.Sample(map[string]interface{}{"workload": j.spec, "images_checked": e.nimg})
			}
		}(i, j)
	}
	wg.Wait()
	c.Res.Note("crash images reopened: %d", images)
	// ---- (6): trace validation against the interleaving model C11's isolation theorems are about ----
	// transaction-heavy concurrent runs (explicit transactions every 2-5 rounds, large batches through the
	// transaction path), every synchronisation event and every read replayed by the compiled Conc model
	ntr := c.Scale(6, 80)
	for i := 0; i < ntr && c.TimeLeft() && !c.Hung; i++ {
		r := c.R.Fork()
		cfg := randConcCfg(r)
		cfg.TxEvery = 2 + r.Intn(4)
		if r.Chance(1, 2) {
			cfg.BigEvery = 3 + r.Intn(6)
		}
		cr := runConc(cfg, true)
		if len(cr.fails) > 0 {
			c.Res.Violate("Transaction:concurrent:"+cr.sigs[0], cr.fails[0], map[string]interface{}{"config": cfg, "all": cr.fails})
			return
		}
		cr.evMu.Lock()
		evs := append([]Event(nil), cr.events...)
		cr.evMu.Unlock()
		crLeanMu.Lock()
		concLines(c, evs)
		crLeanMu.Unlock()
		c.Res.CountN("trace", "events", len(evs))
		for k, v := range cr.stats {
			c.Res.CountN("activity", k, int(atomic.LoadInt64(v)))
		}
	}
}

// ---- shared scenario helpers ----------------------------------------------------------------------

type c11Scn struct {
	Kind string                 `json:"scenario"`
	Opts gen.Opts               `json:"opts"`
	Seed uint64                 `json:"seed"`
	Args map[string]interface{} `json:"args,omitempty"`
	How  string                 `json:"how"`
}

func c11Opts(r *rng.R) gen.Opts {
	o := crashOpts(r, false)
	o.WriteBuffer = 1024 << uint(r.Intn(3))
	o.DisableLargeBatchTx = false
	switch r.Intn(3) {
	case 0:
		o.BlockCache = -1
	case 1:
		o.BlockCache = 8 << 20
	}
	return o
}

func c11TableSet(st *stor.Stor) map[int64]bool {
	m := map[int64]bool{}
	for _, fd := range st.Files() {
		if fd.Type == storage.TypeTable {
			m[fd.Num] = true
		}
	}
	return m
}

func c11Live(db *leveldb.DB) map[int64]bool {
	m := map[int64]bool{}
	s := leveldb.VerifDump(db)
	if s.Version != nil {
		for _, l := range s.Version.Levels {
			for _, t := range l {
				m[t.Num] = true
			}
		}
	}
	return m
}

func c11Nums(m map[int64]bool) []int64 {
	var ns []int64
	for n := range m {
		ns = append(ns, n)
	}
	sort.Slice(ns, func(i, j int) bool { return ns[i] < ns[j] })
	return ns
}

// c11Base writes some acknowledged base data.
func c11Base(db *leveldb.DB, r *rng.R, m kvmap, n int) error {
	for i := 0; i < n; i++ {
		k := fmt.Sprintf("k%02d", r.Intn(30))
		v := fmt.Sprintf("base%d-%s", i, strings.Repeat("b", r.Intn(80)))
		if err := db.Put([]byte(k), []byte(v), nil); err != nil {
			return err
		}
		m[k] = v
	}
	return nil
}

// c11Body writes a transaction body that spills at least `tables` tables; returns the view inside.
func c11Body(tr *leveldb.Transaction, r *rng.R, base kvmap, wb int, tag string, spill int) (kvmap, error) {
	tm := base.clone()
	target := wb*spill + wb/2
	sz := 0
	for i := 0; sz < target; i++ {
		k := fmt.Sprintf("k%02d", r.Intn(30))
		if r.Chance(1, 6) {
			if err := tr.Delete([]byte(k), nil); err != nil {
				return tm, err
			}
			delete(tm, k)
			sz += 12
			continue
		}
		v := fmt.Sprintf("%s-%d-%s", tag, i, strings.Repeat(tag[:1], 40+r.Intn(wb/4)))
		if err := tr.Put([]byte(k), []byte(v), nil); err != nil {
			return tm, err
		}
		tm[k] = v
		sz += len(v) + 12
	}
	return tm, nil
}

func c11Equal(a, b kvmap) (string, bool) {
	for k, v := range a {
		if w, ok := b[k]; !ok || w != v {
			return fmt.Sprintf("key %q: %.30q vs %.30q (present=%v)", k, v, w, ok), false
		}
	}
	for k, w := range b {
		if _, ok := a[k]; !ok {
			return fmt.Sprintf("key %q: absent vs %.30q", k, w), false
		}
	}
	return "", true
}

func c11Skip(c *Ctx, what string, err error, hung bool) bool {
	if err != nil || hung {
		c.Res.Count("scenario_skipped", what)
		return true
	}
	return false
}

// ---- (2) residue ---------------------------------------------------------------------------------

func c11Residue(c *Ctx, once *crSigOnce, r *rng.R, i int) {
	o := c11Opts(r)
	scn := &c11Scn{Kind: "residue", Opts: o, Seed: r.U64(), How: "rng.New(seed): base Puts, OpenTransaction, body spilling tables, then Discard (mode=discard) or Close with the transaction open (mode=close-open), settle / reopen, compare stor.Files with the live set"}
	r = rng.New(scn.Seed)
	mode := []string{"discard", "close-open", "commit"}[r.Intn(3)]
	scn.Args = map[string]interface{}{"mode": mode}
	st := stor.New()
	st.KeepOps(false)
	oo := o.Options()
	db, err := leveldb.Open(st, oo)
	if c11Skip(c, "open", err, false) {
		return
	}
	m := kvmap{}
	if c11Skip(c, "base", c11Base(db, r, m, 10+r.Intn(40)), false) {
		db.Close()
		return
	}
	leveldb.VerifWaitIdle(db)
	var tr *leveldb.Transaction
	err, hung := crCall(crWdTimeout, func() (err error) { tr, err = db.OpenTransaction(); return })
	if c11Skip(c, "open-tx", err, hung) {
		return
	}
	before := c11TableSet(st)
	tm, err := c11Body(tr, r, m, o.WriteBuffer, "tx", 1+r.Intn(3))
	if c11Skip(c, "body", err, false) {
		return
	}
	spilled := map[int64]bool{}
	for n := range c11TableSet(st) {
		if !before[n] {
			spilled[n] = true
		}
	}
	c.Res.Eval(fmt.Sprintf("residue/%d", scn.Seed), len(spilled) > 0)
	c.Res.Count("scenario", "residue:"+mode)
	c.Res.Count("residue_spilled_tables", c14BucketSafe(len(spilled)))
	switch mode {
	case "discard", "commit":
		if mode == "discard" {
			_, hung = crCall(crWdTimeout, func() error { tr.Discard(); return nil })
		} else {
			err, hung = crCall(crWdTimeout, tr.Commit)
			if err == nil {
				m = tm
			}
		}
		if hung {
			once.report(c, "Transaction."+strings.Title(mode)+":hang", "did not return within 20 s", scn)
			return
		}
		crCall(crWdTimeout, func() error { return leveldb.VerifWaitIdle(db) })
		var left []int64
		for try := 0; try < 100; try++ {
			left = left[:0]
			live, have := c11Live(db), c11TableSet(st)
			for n := range spilled {
				if have[n] && !live[n] {
					left = append(left, n)
				}
			}
			if len(left) == 0 {
				break
			}
			time.Sleep(5 * time.Millisecond)
		}
		if len(left) > 0 {
			once.report(c, "Transaction."+strings.Title(mode)+":residue-table", fmt.Sprintf("after %s and settling storage still holds tables %v written by the transaction that no version references", mode, left), scn)
		}
		got, err := crDumpDB(db)
		if err == nil {
			if d, ok := c11Equal(m, got); !ok {
				once.report(c, "Transaction."+strings.Title(mode)+":contents", "after "+mode+": "+d, scn)
			}
		}
		crCall(crWdTimeout, db.Close)
	case "close-open":
		if _, hung := crCall(crWdTimeout, db.Close); hung {
			once.report(c, "DB.Close:open-transaction:hang", "Close with an open transaction did not return within 20 s:\n"+blockedSummary(crGoroutines()), scn)
			return
		}
		if err := tr.Put([]byte("x"), []byte("y"), nil); err == nil {
			once.report(c, "DB.Close:open-transaction:still-usable", "Put on a transaction of a closed DB succeeded", scn)
		}
	}
	// reopen: nothing of a discarded / abandoned transaction, everything of a committed one
	db2, err := leveldb.Open(st, oo)
	if err != nil {
		once.report(c, "Transaction:"+mode+":reopen-error:"+crErrClass(err), err.Error(), scn)
		return
	}
	defer db2.Close()
	leveldb.VerifWaitIdle(db2)
	got, err := crDumpDB(db2)
	if err == nil {
		if d, ok := c11Equal(m, got); !ok {
			once.report(c, "Transaction:"+mode+":contents-after-reopen", d, scn)
			return
		}
	}
	if mode != "commit" {
		live, have := c11Live(db2), c11TableSet(st)
		var left []int64
		for n := range spilled {
			if have[n] && !live[n] {
				left = append(left, n)
			}
		}
		if len(left) > 0 {
			once.report(c, "Transaction:"+mode+":residue-table-after-reopen", fmt.Sprintf("after reopen storage still holds tables %v of the transaction", left), scn)
		}
	}
}

// ---- (3) failed commits --------------------------------------------------------------------------------

func c11CommitFault(c *Ctx, once *crSigOnce, r *rng.R, i int) {
	o := c11Opts(r)
	scn := &c11Scn{Kind: "commit-fault", Opts: o, Seed: r.U64(), How: "rng.New(seed): base Puts (acknowledged), OpenTransaction, body spilling tables, fail the next n manifest operations of the given kind, Commit; on error Discard; more Puts; Close; reopen a Clone"}
	r = rng.New(scn.Seed)
	kind := []stor.Kind{stor.OpSync, stor.OpWrite}[r.Intn(2)]
	n := 1 + r.Intn(4)
	mode := stor.FailNoEffect
	if r.Chance(1, 2) {
		mode = stor.FailWithEffect
	}
	big := r.Chance(1, 3) // through DB.Write with a batch larger than the write buffer
	scn.Args = map[string]interface{}{"fault_kind": kind, "n": n, "with_effect": mode == stor.FailWithEffect, "large_batch_write": big}
	st := stor.New()
	st.KeepOps(false)
	oo := o.Options()
	oo.DisableCompactionBackoff = true
	db, err := leveldb.Open(st, oo)
	if c11Skip(c, "open", err, false) {
		return
	}
	m := kvmap{}
	if c11Skip(c, "base", c11Base(db, r, m, 10+r.Intn(40)), false) {
		db.Close()
		return
	}
	leveldb.VerifWaitIdle(db)
	var armed, fired int32
	st.SetHooks(func(op stor.Op) stor.FaultMode {
		if atomic.LoadInt32(&armed) == 1 && op.Kind == kind && op.Fd.Type == storage.TypeManifest && int(atomic.LoadInt32(&fired)) < n {
			atomic.AddInt32(&fired, 1)
			return mode
		}
		return stor.NoFault
	}, nil)
	var tm kvmap
	var cerr error
	var hung bool
	if big {
		b := new(leveldb.Batch)
		tm = m.clone()
		for sz := 0; sz < o.WriteBuffer*2; {
			k := fmt.Sprintf("k%02d", r.Intn(30))
			v := fmt.Sprintf("big-%d-%s", sz, strings.Repeat("B", 60+r.Intn(o.WriteBuffer/4)))
			b.Put([]byte(k), []byte(v))
			tm[k] = v
			sz += len(v) + 12
		}
		atomic.StoreInt32(&armed, 1)
		cerr, hung = crCall(crWdTimeout, func() error { return db.Write(b, nil) })
	} else {
		var tr *leveldb.Transaction
		err, h := crCall(crWdTimeout, func() (err error) { tr, err = db.OpenTransaction(); return })
		if c11Skip(c, "open-tx", err, h) {
			return
		}
		tm, err = c11Body(tr, r, m, o.WriteBuffer, "tx", 1+r.Intn(2))
		if c11Skip(c, "body", err, false) {
			return
		}
		atomic.StoreInt32(&armed, 1)
		cerr, hung = crCall(crWdTimeout, tr.Commit)
		if !hung && cerr != nil {
			if _, h := crCall(crWdTimeout, func() error { tr.Discard(); return nil }); h {
				once.report(c, "Transaction.Discard:after-failed-commit:hang", "Discard did not return within 20 s:\n"+blockedSummary(crGoroutines()), scn)
				return
			}
		}
	}
	atomic.StoreInt32(&armed, 0)
	c.Res.Eval(fmt.Sprintf("commit-fault/%d", scn.Seed), fired > 0)
	c.Res.Count("scenario", fmt.Sprintf("commit-fault:%s/manifest x%d effect=%v big=%v", kind, n, mode == stor.FailWithEffect, big))
	if hung {
		lk := leveldb.VerifLocks(db)
		dump := crGoroutines()
		sig := fmt.Sprintf("Transaction.Commit:manifest-%s-failed:hang:locks=w%vc%v", kind, lk.WriteLock, lk.CompCommitLk)
		if lk.CompCommitLk && crDumpMentions(dump, "compactionTransact", "compactionCommit") {
			// a background commit took the injected failure and now retries forever on the poisoned manifest writer
			sig = "compactionCommit:poisoned-manifest-writer:hang"
		}
		once.report(c, sig, "Commit (or the large-batch Write) did not return within 20 s:\n"+blockedSummary(dump), scn)
		go db.Close()
		return
	}
	committed := cerr == nil
	c.Res.Count("commit_fault_outcome", fmt.Sprintf("commit-error=%v", !committed))
	if committed {
		m = tm
	}
	// the DB goes on: other writers proceed, reads are right (the discarded transaction is invisible)
	after := func() error {
		for j := 0; j < 5; j++ {
			k := fmt.Sprintf("a%02d", j)
			if err := db.Put([]byte(k), []byte("after"), &opt.WriteOptions{Sync: true}); err != nil {
				return err
			}
			m[k] = "after"
		}
		return nil
	}
	if err, h := crCall(crWdTimeout, after); h {
		lk := leveldb.VerifLocks(db)
		sig := fmt.Sprintf("Transaction.Commit:manifest-%s-failed:later-Put:hang:locks=w%vc%v", kind, lk.WriteLock, lk.CompCommitLk)
		if !big && lk.CompCommitLk {
			sig = "Transaction.Commit:compCommitLk-leaked:hang"
		} else if big && lk.WriteLock {
			sig = "DB.Write:large-batch-commit-failed-no-discard:hang"
		}
		once.report(c, sig, "a Put after the failed commit did not return within 20 s:\n"+blockedSummary(crGoroutines()), scn)
		go db.Close()
		return
	} else if err != nil {
		c.Res.Count("commit_fault_outcome", "later-put-error")
		// the write did not happen for sure only when nothing was acknowledged: drop the unacknowledged keys
		for j := 0; j < 5; j++ {
			k := fmt.Sprintf("a%02d", j)
			if v, gerr := db.Get([]byte(k), nil); gerr != nil || string(v) != "after" {
				delete(m, k)
			}
		}
	}
	got, derr := crDumpDB(db)
	if derr == nil {
		if d, ok := c11Equal(m, got); !ok {
			other, ok2 := c11Equal(c11Overlay(m, tm, committed), got)
			_ = other
			if !ok2 {
				once.report(c, "Transaction.Commit:manifest-"+string(kind)+"-failed:contents-while-running", fmt.Sprintf("commit error=%v; running DB: %s", !committed, d), scn)
				crCall(crWdTimeout, db.Close)
				return
			}
		}
	}
	if _, h := crCall(crWdTimeout, db.Close); h {
		lk := leveldb.VerifLocks(db)
		sig := fmt.Sprintf("Transaction.Commit:manifest-%s-failed:Close:hang:locks=w%vc%v", kind, lk.WriteLock, lk.CompCommitLk)
		if lk.CompCommitLk && !big {
			sig = "Transaction.Commit:compCommitLk-leaked:hang"
		}
		once.report(c, sig, "Close after the failed commit did not return within 20 s:\n"+blockedSummary(crGoroutines()), scn)
	}
	st.SetHooks(nil, nil)
	img := st.Clone()
	db2, err := leveldb.Open(img, oo)
	if err != nil {
		sig := fmt.Sprintf("session.commit:manifest-%s-failed-then-discard:open-%s", kind, map[string]string{"missing-files": "missing-files", "corrupted": "corrupted", "other": "error"}[crErrClass(err)])
		once.report(c, sig, fmt.Sprintf("after a Commit that failed on injected manifest %s errors (x%d, with effect=%v) and Discard, a reopen of the files fails: %v; all acknowledged writes are hidden", kind, n, mode == stor.FailWithEffect, err), map[string]interface{}{"scenario": scn, "image": crImageHex(img)})
		c.Res.Count("commit_fault_outcome", "reopen-error:"+crErrClass(err))
		return
	}
	defer db2.Close()
	got2, err := crDumpDB(db2)
	if err != nil {
		once.report(c, "Transaction.Commit:manifest-"+string(kind)+"-failed:scan-error-after-reopen", err.Error(), scn)
		return
	}
	// acknowledged data present; the failed transaction whole or absent
	if _, ok := c11Equal(m, got2); ok {
		c.Res.Count("commit_fault_outcome", "after-reopen:as-acknowledged")
		return
	}
	if !committed {
		if _, ok := c11Equal(c11Overlay(m, tm, true), got2); ok {
			c.Res.Count("commit_fault_outcome", "after-reopen:failed-transaction-present-whole")
			return
		}
	}
	d, _ := c11Equal(m, got2)
	once.report(c, "Transaction.Commit:manifest-"+string(kind)+"-failed:contents-after-reopen", fmt.Sprintf("commit error=%v; after reopen neither the acknowledged state nor that plus the whole transaction: %s", !committed, d), scn)
}

// c11Overlay is m with the transaction's view applied underneath the later "a.." keys.
func c11Overlay(m, tm kvmap, apply bool) kvmap {
	if !apply {
		return m
	}
	out := tm.clone()
	for k, v := range m {
		if strings.HasPrefix(k, "a") {
			out[k] = v
		}
	}
	return out
}

// ---- (4) iterator of a discarded transaction ---------------------------------------------------------

func c11Walk(it interface {
	First() bool
	Next() bool
	Key() []byte
	Value() []byte
}) []string {
	var out []string
	for ok := it.First(); ok; ok = it.Next() {
		out = append(out, string(it.Key())+"="+string(it.Value()))
	}
	return out
}

func c11IterAfterDiscard(c *Ctx, once *crSigOnce, r *rng.R, i int) {
	o := c11Opts(r)
	scn := &c11Scn{Kind: "iterator-after-discard", Opts: o, Seed: r.U64(), How: "rng.New(seed): base Puts, OpenTransaction, a few Puts, it := tr.NewIterator, walk, Discard (or Commit), later db.Puts, walk it again: same pairs"}
	r = rng.New(scn.Seed)
	st := stor.New()
	st.KeepOps(false)
	db, err := leveldb.Open(st, o.Options())
	if c11Skip(c, "open", err, false) {
		return
	}
	defer db.Close()
	m := kvmap{}
	if c11Skip(c, "base", c11Base(db, r, m, 5+r.Intn(20)), false) {
		return
	}
	tr, err := db.OpenTransaction()
	if c11Skip(c, "open-tx", err, false) {
		return
	}
	small := r.Chance(1, 2)
	spill := 0
	if !small {
		spill = 1
	}
	if small {
		for j := 0; j < 1+r.Intn(5); j++ {
			tr.Put([]byte(fmt.Sprintf("k%02d", r.Intn(30))), []byte(fmt.Sprintf("tx%d", j)), nil)
		}
	} else if _, err := c11Body(tr, r, m, o.WriteBuffer, "tx", spill); c11Skip(c, "body", err, false) {
		tr.Discard()
		return
	}
	it := tr.NewIterator(nil, nil)
	defer it.Release()
	before := c11Walk(it)
	commit := r.Chance(1, 3)
	end := "Discard"
	if commit {
		end = "Commit"
		if c11Skip(c, "commit", tr.Commit(), false) {
			return
		}
	} else {
		tr.Discard()
	}
	for j := 0; j < 1+r.Intn(6); j++ {
		db.Put([]byte(fmt.Sprintf("later%02d", j)), []byte("L"), nil)
	}
	if r.Chance(1, 2) {
		db.Delete([]byte(fmt.Sprintf("k%02d", r.Intn(30))), nil)
	}
	after := c11Walk(it)
	c.Res.Eval(fmt.Sprintf("iter-after-%s/%d", end, scn.Seed), true)
	c.Res.Count("scenario", "iterator-after-"+end)
	scn.Args = map[string]interface{}{"end": end, "small_body": small}
	if strings.Join(before, "\x00") != strings.Join(after, "\x00") {
		extra := ""
		bs := map[string]bool{}
		for _, p := range before {
			bs[p] = true
		}
		for _, p := range after {
			if !bs[p] {
				extra = p
				break
			}
		}
		once.report(c, "Transaction."+end+":iterator-sees-later-writes", fmt.Sprintf("an iterator created inside the transaction showed %d pairs before %s and %d pairs after later writes to the DB (first new pair %.40q)", len(before), end, len(after), extra), scn)
	}
}

// ---- (5) stale block cache after file-number reuse ------------------------------------------------------

func c11StaleCache(c *Ctx, once *crSigOnce, r *rng.R, i int) {
	o := c11Opts(r)
	o.BlockCache = r.Pick(0, 8<<20)
	o.Compression = 1 + r.Intn(2)
	scn := &c11Scn{Kind: "discard-then-reuse-file-number", Opts: o, Seed: r.U64(), How: "rng.New(seed): OpenTransaction, body spilling tables, read inside the transaction (Get / iterator: fills the block cache), Discard; then a second transaction (or plain writes and a flush) of the same shape with other values, Commit; Get / scan must return the second values"}
	r = rng.New(scn.Seed)
	st := stor.New()
	st.KeepOps(false)
	db, err := leveldb.Open(st, o.Options())
	if c11Skip(c, "open", err, false) {
		return
	}
	defer db.Close()
	m := kvmap{}
	if r.Chance(1, 2) {
		if c11Skip(c, "base", c11Base(db, r, m, r.Intn(10)), false) {
			return
		}
	}
	tr, err := db.OpenTransaction()
	if c11Skip(c, "open-tx", err, false) {
		return
	}
	before := c11TableSet(st)
	spill := 1 + r.Intn(2)
	bodySeed := r.U64()
	tm1, err := c11Body(tr, rng.New(bodySeed), m, o.WriteBuffer, "X", spill)
	if c11Skip(c, "body", err, false) {
		tr.Discard()
		return
	}
	spilled := 0
	for n := range c11TableSet(st) {
		if !before[n] {
			spilled++
		}
	}
	// read inside the transaction
	if r.Chance(1, 2) {
		it := tr.NewIterator(nil, nil)
		for it.Next() {
		}
		it.Release()
	} else {
		for k := range tm1 {
			tr.Get([]byte(k), nil)
		}
	}
	tr.Discard()
	// same shape again (same keys and sizes: same block layout), other values
	var want kvmap
	second := "transaction"
	if r.Chance(2, 3) {
		tr2, err := db.OpenTransaction()
		if c11Skip(c, "open-tx2", err, false) {
			return
		}
		want, err = c11Body(tr2, rng.New(bodySeed), m, o.WriteBuffer, "Y", spill)
		if c11Skip(c, "body2", err, false) {
			tr2.Discard()
			return
		}
		if c11Skip(c, "commit2", tr2.Commit(), false) {
			return
		}
	} else {
		second = "plain-writes"
		want = m.clone()
		rr := rng.New(bodySeed)
		for sz := 0; sz < o.WriteBuffer*spill+o.WriteBuffer/2; {
			k := fmt.Sprintf("k%02d", rr.Intn(30))
			v := fmt.Sprintf("Y-%d-%s", sz, strings.Repeat("Y", 40+rr.Intn(o.WriteBuffer/4)))
			if c11Skip(c, "put2", db.Put([]byte(k), []byte(v), nil), false) {
				return
			}
			want[k] = v
			sz += len(v) + 12
		}
		db.CompactRange(util.Range{})
	}
	c.Res.Eval(fmt.Sprintf("stale-cache/%d", scn.Seed), spilled > 0)
	c.Res.Count("scenario", "discard-then-"+second)
	scn.Args = map[string]interface{}{"second": second, "spilled_tables": spilled}
	for k, v := range want {
		g, err := db.Get([]byte(k), nil)
		if err != nil || !bytes.Equal(g, []byte(v)) {
			sig := "Transaction.Discard:stale-block-cache:file-number-reused"
			if err == nil && !strings.HasPrefix(string(g), "X-") {
				sig = "Transaction.Discard:then-" + second + ":get-wrong-value"
			}
			once.report(c, sig, fmt.Sprintf("after Discard and a committed %s Get(%q) = %.30q err=%v, expected %.30q (a value starting with X- belongs to the discarded transaction)", second, k, g, err, v), scn)
			return
		}
	}
	got, err := crDumpDB(db)
	if err != nil {
		once.report(c, "Transaction.Discard:stale-block-cache:file-number-reused:scan-error", fmt.Sprintf("scan after Discard and a committed %s: %v", second, err), scn)
		return
	}
	if d, ok := c11Equal(want, got); !ok {
		once.report(c, "Transaction.Discard:stale-block-cache:file-number-reused:scan", "scan after Discard and a committed "+second+": "+d, scn)
	}
}
