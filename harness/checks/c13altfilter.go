package checks

// C13: a table records the NAME of the filter policy it was written with; a reader uses a policy only when that name
// matches Options.Filter or one of Options.AltFilters, and otherwise reads the table without a filter.  A filter block
// must never be handed to a policy of another name (its Contains may answer "absent" for stored keys: filtered
// Find / FindKey would lose written pairs while Get and iteration look healthy).  Added after wave 14 (a seeded change
// let the reader adopt the LAST alternative when none matched).
//
// Tables are written under three policies of unrelated formats and opened under every combination of Filter / AltFilters
// drawn from them; every stored key must be found by the filtered lookups, every absent neighbour must not.

import (
	"bytes"
	"fmt"
	"reflect"
	"strings"
	"unsafe"

	"github.com/syndtr/goleveldb/leveldb/filter"
	"github.com/syndtr/goleveldb/leveldb/opt"
	"github.com/syndtr/goleveldb/leveldb/storage"
	"github.com/syndtr/goleveldb/leveldb/table"

	"verif/harness/rng"
)

func c13AltFilters(c *Ctx, n int) {
	policies := []filter.Filter{filter.NewBloomFilter(10), namedBloom{filter.NewBloomFilter(6), "verif.policyB"}, lenPolicy{}}
	name := func(f filter.Filter) string {
		if f == nil {
			return "none"
		}
		return f.Name()
	}
	for i := 0; i < n && c.TimeLeft() && len(c.Res.Violations) == 0; i++ {
		r := c.R.Fork()
		seed := r.U64()
		rr := rng.New(seed)
		wp := policies[i%len(policies)]
		wo := &opt.Options{Filter: wp, BlockSize: 64 << rr.Intn(4), FilterBaseLg: 5 + rr.Intn(7), Compression: opt.NoCompression}
		var buf bytes.Buffer
		w := table.NewWriter(&buf, wo, nil, 0)
		nk := 1 + rr.Intn(120)
		var keys [][]byte
		for k := 0; k < nk; k++ {
			key := []byte(fmt.Sprintf("k%05d%s", k*3, bytes.Repeat([]byte("x"), rr.Intn(9))))
			keys = append(keys, key)
			if err := w.Append(key, []byte(fmt.Sprintf("v%d", k))); err != nil {
				c.Res.Violate("table:alt-filters:write-error", err.Error(), nil)
				return
			}
		}
		if err := w.Close(); err != nil {
			c.Res.Violate("table:alt-filters:write-error", err.Error(), nil)
			return
		}
		file := buf.Bytes()
		// reader option sets: Filter ∈ {nil, each policy}, AltFilters ∈ subsets (in both orders)
		var sets []*opt.Options
		alts := [][]filter.Filter{nil, {policies[0]}, {policies[1]}, {policies[2]}, {policies[0], policies[1]}, {policies[1], policies[0]},
			{policies[0], policies[2]}, {policies[2], policies[0]}, {policies[1], policies[2]}, {policies[2], policies[1]}, {policies[0], policies[1], policies[2]}}
		for _, f := range append([]filter.Filter{nil}, policies...) {
			for _, a := range alts {
				sets = append(sets, &opt.Options{Filter: f, AltFilters: a})
			}
		}
		for si, ro := range sets {
			rd, err := table.NewReader(bytes.NewReader(file), int64(len(file)), storage.FileDesc{Type: storage.TypeTable, Num: 1}, nil, nil, ro)
			if err != nil {
				c.Res.Violate("table:alt-filters:open-error", err.Error(), nil)
				return
			}
			var an []string
			for _, a := range ro.AltFilters {
				an = append(an, name(a))
			}
			c.Res.Eval(fmt.Sprintf("alt-filters/%d/%d", seed, si), true)
			// differential tie of the choice (lean/GoLevel/Model/FilterSelect.lean): the policy the real reader adopted
			mainN := "-"
			if ro.Filter != nil {
				mainN = name(ro.Filter)
			}
			adopted := "none"
			if fv := reflect.ValueOf(rd).Elem().FieldByName("filter"); fv.IsValid() && !fv.IsNil() {
				if f, ok := reflect.NewAt(fv.Type(), unsafe.Pointer(fv.UnsafeAddr())).Elem().Interface().(filter.Filter); ok && f != nil {
					adopted = f.Name()
				}
			}
			c.Lean(strings.TrimSpace(fmt.Sprintf("tbl select %s %s %s", name(wp), mainN, strings.Join(an, " "))), adopted)
			for ki, key := range keys {
				rk, rv, err := rd.Find(key, true, nil)
				fk, err2 := rd.FindKey(key, true, nil)
				if err != nil || err2 != nil || !bytes.Equal(rk, key) || !bytes.Equal(fk, key) || string(rv) != fmt.Sprintf("v%d", ki) {
					c.Res.Violate("table:alt-filters:stored-key-hidden", fmt.Sprintf("table written under policy %s (%d keys), opened with Filter=%s AltFilters=%v: filtered Find(%q) = (%q, %q, %v), FindKey = (%q, %v); the stored pair is (%q, v%d)", name(wp), nk, name(ro.Filter), an, key, rk, rv, err, fk, err2, key, ki),
						map[string]interface{}{"seed": seed, "written_under": name(wp), "reader_filter": name(ro.Filter), "reader_alt_filters": an})
					rd.Release()
					return
				}
			}
			rd.Release()
		}
		c.Res.Count("alt_filters", "tables under "+name(wp))
	}
}
