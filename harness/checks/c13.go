package checks

import (
	wpc13 "verif/harness/wp/c13"
)

func init() { Registry["C13"] = runC13 }

// runC13: table writer / reader.  Generator and oracles live in verif/harness/wp/c13.
func runC13(c *Ctx) {
	c.Res.Rule = "random strictly increasing key/value sets (empty table, single entry, long shared prefixes, empty values, entries larger than a block) " +
		"× block size 64…4096 × restart interval 1…16 × filter none/bloom(1,10,16) × filter base 2^4…2^11, written by the real table.Writer, two thirds without compression (the file bytes are compared with the Lean model's " +
		"Table.write byte for byte) and one third with Snappy compression (reader side only: the model decodes the compressed blocks); " +
		"hand-built, encoder-made and damaged Snappy block streams are decoded by snappy.Decode and by the model; Find / filtered Find / FindKey / Get / OffsetOf / full and range " +
		"iteration on table.Reader (with and without block cache + buffer pool) are compared with the model run on the same bytes; small tables get " +
		"random walks (First/Last/Seek/Next/Prev, past both ends) on the real table.blockIter of the index block and of data blocks, whole and sliced with a util.Range, are compared with the byte-level blockIter model; " +
		"every (or sampled) single-byte alteration inside checksummed blocks: answers must be original pairs or corruption, never a panic; " +
		"the reader repairs of wp64 (tables up to 6 kB): every byte of the metaindex block and its trailer altered — the table must answer like the intact one unfiltered, never with corruption; " +
		"footer handles rewritten under an intact magic (just beyond the file, 2^20 … 2^64-1, in-file edge values, overflowing varints in each position) — no panic, no allocation beyond 1 MiB + 8 × file size " +
		"(runtime.MemStats.TotalAlloc around open + first lookup; lengths tried in ascending order, and lengths in [2^20, 2^48) no longer once a reader was seen to allocate a claimed length), original answer or corruption; " +
		"short reads (footer offsets beyond the end, file cut inside the metaindex / index block, data region cut with the footer moved along) through a buffer pool that served a table with the same " +
		"layout and other values before — answers independent of the pool's history, never the other table's data; all of these files also go to the model; " +
		"Go-only oracles: round trip, backward iteration, monotone offsets, cached = uncached; the empty table under seven ranges (nil, empty, Start only, Limit only, both, inverted) and eleven movements: nothing yielded, no error. Non-trivial = multi-block or filtered table; distinct by case seed."
	c13EmptyTable(c)
	if len(c.Res.Violations) > 0 {
		return
	}
	c13AltFilters(c, c.Scale(12, 200))
	if len(c.Res.Violations) > 0 {
		return
	}
	sz := wpc13.DefaultSizes()
	sz.Tables = c.Scale(200, 4000)
	if c.Thorough {
		sz.DamageMaxFile, sz.DamageAll = 4000, 600
	}
	st := wpc13.Run(mathRand(c), sz, wpSink(c))
	c.Res.CountN("tables", "multi-block", st.MultiBlock)
	c.Res.CountN("tables", "with-filter", st.WithFilter)
	c.Res.CountN("tables", "over-20kB", st.Big)
	c.Res.CountN("tables", "damaged-files", st.Damaged)
	c.Res.CountN("tables", "snappy-compressed", st.Compressed)
	c.Res.CountN("ops", "compressed-blocks-read-by-model", st.CompressedBlocks)
	c.Res.CountN("ops", "snappy-streams", st.SnappyStreams)
	c.Res.CountN("ops", "snappy-streams-rejected", st.SnappyBad)
	c.Res.CountN("ops", "read-ops", st.ReadOps)
	c.Res.CountN("ops", "damage-checks", st.DamageOps)
	c.Res.CountN("ops", "blockiter-walks", st.BiterWalks)
	c.Res.CountN("ops", "blockiter-walks-sliced", st.BiterSliced)
	c.Res.CountN("ops", "blockiter-moves", st.BiterMoves)
	c.Res.CountN("reader repairs (files)", "metaindex-byte-altered", st.Repairs.MetaDamaged)
	c.Res.CountN("reader repairs (files)", "footer-rewritten", st.Repairs.FooterVariants)
	c.Res.CountN("reader repairs (files)", "short-read-through-warm-pool", st.Repairs.ShortReadFiles)
	c.Res.CountN("reader repairs (files)", "footer-lengths-not-tried-after-an-allocation-was-seen", st.Repairs.StaleSkipped)
	c.Res.CountN("ops", "reader-repair-checks", st.Repairs.RepairOps)
	c.Res.CountN("ops", "allocation-probes", st.Repairs.AllocProbes)
	c.Res.CountN("reader repairs (files)", "largest-allocation-in-a-probe-KiB", st.Repairs.MaxProbeAlloc>>10)
}
