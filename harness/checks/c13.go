package checks

import (
	wpc13 "verif/harness/wp/c13"
)

func init() { Registry["C13"] = runC13 }

// runC13: table writer / reader.  Generator and oracles live in verif/harness/wp/c13.
func runC13(c *Ctx) {
	c.Res.Rule = "random strictly increasing key/value sets (empty table, single entry, long shared prefixes, empty values, entries larger than a block) " +
		"× block size 64…4096 × restart interval 1…16 × filter none/bloom(1,10,16) × filter base 2^4…2^11, written by the real table.Writer, two thirds without compression (the file bytes are compared with the Lean model's " +
		"Table.write byte for byte) and one third with Snappy compression (reader side only: the model decodes the compressed blocks); " +
		"hand-built, encoder-made and damaged Snappy block streams are decoded by snappy.Decode and by the model; Find / filtered Find / FindKey / Get / OffsetOf / full and range " +
		"iteration on table.Reader (with and without block cache + buffer pool) are compared with the model run on the same bytes; small tables get " +
		"random walks (First/Last/Seek/Next/Prev, past both ends) on the real table.blockIter of the index block and of data blocks, whole and sliced with a util.Range, are compared with the byte-level blockIter model; " +
		"every (or sampled) single-byte alteration inside checksummed blocks: answers must be original pairs or corruption, never a panic; " +
		"Go-only oracles: round trip, backward iteration, monotone offsets, cached = uncached. Non-trivial = multi-block or filtered table; distinct by case seed."
	sz := wpc13.DefaultSizes()
	sz.Tables = c.Scale(200, 4000)
	if c.Thorough {
		sz.DamageMaxFile, sz.DamageAll = 4000, 600
	}
	st := wpc13.Run(mathRand(c), sz, wpSink(c))
	c.Res.CountN("tables", "multi-block", st.MultiBlock)
	c.Res.CountN("tables", "with-filter", st.WithFilter)
	c.Res.CountN("tables", "over-20kB", st.Big)
	c.Res.CountN("tables", "damaged-files", st.Damaged)
	c.Res.CountN("tables", "snappy-compressed", st.Compressed)
	c.Res.CountN("ops", "compressed-blocks-read-by-model", st.CompressedBlocks)
	c.Res.CountN("ops", "snappy-streams", st.SnappyStreams)
	c.Res.CountN("ops", "snappy-streams-rejected", st.SnappyBad)
	c.Res.CountN("ops", "read-ops", st.ReadOps)
	c.Res.CountN("ops", "damage-checks", st.DamageOps)
	c.Res.CountN("ops", "blockiter-walks", st.BiterWalks)
	c.Res.CountN("ops", "blockiter-walks-sliced", st.BiterSliced)
	c.Res.CountN("ops", "blockiter-moves", st.BiterMoves)
}
