package checks

// Process isolation for the fault checks: goleveldb's background goroutines can panic under injected
// faults (no harness goroutine can recover that), which would take the whole check down without a
// replay.  The check body therefore runs in a child process (the same binary, VERIF_WORKER=1); the
// parent merges the child's result and, when the child died, turns the panic into a violation and
// starts another child with a derived seed for the rest of the budget.

import (
	"encoding/json"
	"fmt"
	"os"
	"os/exec"
	"path/filepath"
	"regexp"
	"strings"
	"time"
)

type crChildResult struct {
	Evaluations int                       `json:"evaluations"`
	Distinct    int                       `json:"distinct_nontrivial"`
	Rule        string                    `json:"rule"`
	Samples     []interface{}             `json:"samples"`
	Hist        map[string]map[string]int `json:"histograms"`
	Violations  []struct {
		Signature string `json:"signature"`
		Message   string `json:"message"`
		File      string `json:"file"`
	} `json:"violations"`
	Notes []string `json:"notes"`
}

func crIsWorker() bool { return os.Getenv("VERIF_WORKER") != "" }

// crWorkerCheckpoint keeps result.json of a worker fresh so that a crash loses little.
func crWorkerCheckpoint(c *Ctx) (stop func()) {
	done := make(chan struct{})
	go func() {
		t := time.NewTicker(2 * time.Second)
		defer t.Stop()
		for {
			select {
			case <-done:
				return
			case <-t.C:
				c.Res.Write()
			}
		}
	}()
	return func() { close(done) }
}

var crPanicRe = regexp.MustCompile(`(?m)^(panic: .*|fatal error: .*)$`)

// crPanicOf extracts the panic message and the goleveldb frames from a crashed child's stderr.
func crPanicOf(stderr string) (msg, site, trace string) {
	m := crPanicRe.FindAllString(stderr, -1)
	if len(m) == 0 {
		return "", "unknown", ""
	}
	msg = m[len(m)-1]
	i := strings.LastIndex(stderr, msg)
	trace = stderr[i:]
	if len(trace) > 6000 {
		trace = trace[:6000]
	}
	// innermost goleveldb frame after the last re-panic
	lines := strings.Split(trace, "\n")
	for j, l := range lines {
		if strings.HasPrefix(l, "github.com/syndtr/goleveldb/leveldb") && !strings.Contains(l, "tCompaction.func1") && !strings.Contains(l, "compactionTransact.func1") && !strings.Contains(l, "mCompaction.func1") {
			_ = j
			site = crPanicSite(l + "\n")
			break
		}
	}
	if site == "" {
		site = "unknown"
	}
	return
}

// crIsolated runs the registered check in child processes and merges their results into c.
// onCrash (optional) may refine a crash into a precise violation; it returns true when it reported one.
func crIsolated(c *Ctx, onCrash func(c *Ctx, dir, stderr string) bool) {
	exe, err := os.Executable()
	if err != nil {
		panic(err)
	}
	tier := "quick"
	if c.Thorough {
		tier = "thorough"
	}
	evalBase := 0
	for attempt := 0; attempt < 6; attempt++ {
		left := c.Budget - time.Since(c.Start)
		if attempt > 0 && left < 5*time.Second {
			break
		}
		if left < 5*time.Second {
			left = 5 * time.Second
		}
		dir := filepath.Join(c.OutDir, fmt.Sprintf("worker-%d", attempt))
		os.MkdirAll(dir, 0o755)
		seed := c.Seed
		if attempt > 0 {
			seed = c.Seed*1000003 + uint64(attempt)
		}
		cmd := exec.Command(exe, "-prop", c.Prop, "-seed", fmt.Sprint(seed), "-tier", tier, "-out", dir)
		cmd.Env = append(os.Environ(), "VERIF_WORKER=1", fmt.Sprintf("VERIF_BUDGET_S=%d", int(left.Seconds())))
		errFile, _ := os.Create(filepath.Join(dir, "stderr.txt"))
		cmd.Stderr = errFile
		cmd.Stdout = errFile
		runErr := cmd.Run()
		errFile.Close()
		// merge
		var cr crChildResult
		if b, err := os.ReadFile(filepath.Join(dir, "result.json")); err == nil {
			json.Unmarshal(b, &cr)
		}
		if cr.Rule != "" {
			c.Res.Rule = cr.Rule
		}
		for i := 0; i < cr.Evaluations; i++ {
			c.Res.Eval(fmt.Sprintf("w%d/%d", attempt, evalBase+i), i < cr.Distinct)
		}
		evalBase += cr.Evaluations
		for h, m := range cr.Hist {
			for b, n := range m {
				c.Res.CountN(h, b, n)
			}
		}
		for _, s := range cr.Samples {
			c.Res.Sample(s)
		}
		for _, n := range cr.Notes {
			c.Res.Note("%s", n)
		}
		for _, v := range cr.Violations {
			var replay interface{}
			if b, err := os.ReadFile(v.File); err == nil {
				var w struct {
					Replay interface{} `json:"replay"`
				}
				json.Unmarshal(b, &w)
				replay = w.Replay
			}
			dup := false
			for _, have := range c.Res.Violations {
				if have.Signature == v.Signature {
					dup = true
				}
			}
			if !dup {
				c.Res.Violate(v.Signature, v.Message, replay)
			}
		}
		crMergeLean(c, dir)
		c.Res.Count("worker_processes", fmt.Sprintf("seed=%d", seed))
		if runErr == nil {
			return
		}
		// the child died
		sb, _ := os.ReadFile(filepath.Join(dir, "stderr.txt"))
		stderr := string(sb)
		c.Res.Count("worker_processes", "crashed")
		if onCrash != nil && onCrash(c, dir, stderr) {
			continue
		}
		msg, site, trace := crPanicOf(stderr)
		if msg == "" {
			tail := stderr
			if len(tail) > 3000 {
				tail = tail[len(tail)-3000:]
			}
			c.Res.Violate("harness:worker-died", fmt.Sprintf("worker process exited abnormally (%v) without a panic message:\n%s", runErr, tail), map[string]interface{}{"seed": seed, "tier": tier})
			continue
		}
		c.Res.Violate("background-panic:"+site, fmt.Sprintf("the process running the check died: %s\n%s", msg, trace),
			map[string]interface{}{"seed": seed, "tier": tier, "how": fmt.Sprintf("VERIF_WORKER=1 vh -prop %s -seed %d -tier %s (timing dependent)", c.Prop, seed, tier)})
	}
}

// crMergeLean appends the model lines a worker recorded (ops.txt / expect.txt in its directory) to the
// parent's; only complete line pairs count (a worker that died may have left a torn tail).
func crMergeLean(c *Ctx, dir string) {
	ob, err1 := os.ReadFile(filepath.Join(dir, "ops.txt"))
	eb, err2 := os.ReadFile(filepath.Join(dir, "expect.txt"))
	if err1 != nil || err2 != nil {
		return
	}
	complete := func(b []byte) []string {
		s := string(b)
		i := strings.LastIndexByte(s, '\n')
		if i < 0 {
			return nil
		}
		return strings.Split(s[:i], "\n")
	}
	ops, exp := complete(ob), complete(eb)
	n := len(ops)
	if len(exp) < n {
		n = len(exp)
	}
	for i := 0; i < n; i++ {
		c.Lean(ops[i], exp[i])
	}
}
