package checks

// C04 with concurrent writers: a Put/Delete/Write acknowledged with Sync must survive a crash also when the write
// was merged into another writer's group (the group is journalled with Sync as soon as one member asks for it).

import (
	"bytes"
	"fmt"
	"sync"
	"time"

	"github.com/syndtr/goleveldb/leveldb"
	"github.com/syndtr/goleveldb/leveldb/opt"
	"github.com/syndtr/goleveldb/leveldb/storage"

	"verif/harness/gen"
	"verif/harness/rng"
	"verif/harness/stor"
)

type c04ConcSpec struct {
	Seed        uint64 `json:"seed"`
	Round       int    `json:"round"`
	Writers     int    `json:"writers"`
	Calls       int    `json:"calls"`
	WriteBuffer int    `json:"write_buffer"`
	JournalMs   int    `json:"journal_write_delay_ms"`
}

func c04ConcurrentSync(c *Ctx, rounds int) {
	for round := 0; round < rounds && c.TimeLeft() && !c.Hung; round++ {
		r := c.R.Fork()
		sp := &c04ConcSpec{Seed: c.Seed, Round: round, Writers: 3 + r.Intn(10), Calls: 10 + r.Intn(25),
			WriteBuffer: r.Pick(2<<10, 16<<10, 4<<20), JournalMs: 1 + r.Intn(2)}
		c.Guard("concurrent-sync", sp, func() { c04ConcRound(c, r, sp) })
	}
}

func c04ConcRound(c *Ctx, r *rng.R, sp *c04ConcSpec) {
	st := stor.New()
	st.KeepOps(false)
	// a slow journal makes the other writers queue up behind the leader, so that they are merged
	st.Delay = func(k stor.Kind, fd storage.FileDesc) int {
		if fd.Type == storage.TypeJournal && (k == stor.OpWrite || k == stor.OpSync) {
			return sp.JournalMs
		}
		return 0
	}
	o := &opt.Options{WriteBuffer: sp.WriteBuffer, CompactionTableSize: 8 << 10}
	db, err := leveldb.Open(st, o)
	if err != nil {
		c.Res.Violate("concurrent-sync:open", err.Error(), sp)
		return
	}
	type acked struct {
		key, val []byte // val == nil: deleted
	}
	var mu sync.Mutex
	var syncAcked []acked
	var wg sync.WaitGroup
	for w := 0; w < sp.Writers; w++ {
		wg.Add(1)
		go func(w int, rr *rng.R) {
			defer wg.Done()
			for i := 0; i < sp.Calls; i++ {
				k := []byte(fmt.Sprintf("w%02d-%03d", w, i))
				v := append([]byte(fmt.Sprintf("v%02d-%03d-", w, i)), gen.Value(rr, 40)...)
				wo := &opt.WriteOptions{Sync: rr.Chance(1, 3)}
				var err error
				switch rr.Intn(4) {
				case 0:
					b := new(leveldb.Batch)
					b.Put(k, v)
					err = db.Write(b, wo)
				case 1:
					// a key stored durably, then deleted: a Delete acknowledged with Sync must not be undone by the crash
					if err = db.Put(k, v, &opt.WriteOptions{Sync: true}); err == nil {
						v = nil
						err = db.Delete(k, wo)
					}
				default:
					err = db.Put(k, v, wo)
				}
				if err == nil && wo.Sync {
					mu.Lock()
					syncAcked = append(syncAcked, acked{k, v})
					mu.Unlock()
				}
				if err != nil {
					c.Res.Violate("concurrent-sync:write-error", fmt.Sprintf("writer %d call %d: %v", w, i, err), sp)
					return
				}
			}
		}(w, r.Fork())
	}
	type shot struct {
		must []acked
		img  *stor.Stor
	}
	var shots []shot
	take := func() {
		// first what has been acknowledged, then the image: everything in `must` was acknowledged before the crash
		mu.Lock()
		must := append([]acked(nil), syncAcked...)
		mu.Unlock()
		shots = append(shots, shot{must, st.Image(r.Fork())})
	}
	done := make(chan struct{})
	go func() { wg.Wait(); close(done) }()
	tick := time.NewTicker(time.Duration(2+r.Intn(6)) * time.Millisecond)
	defer tick.Stop()
loop:
	for len(shots) < 6 {
		select {
		case <-done:
			break loop
		case <-tick.C:
			take()
		case <-time.After(60 * time.Second):
			c.Res.Violate("concurrent-sync:hang", "writers did not finish within 60 s", sp)
			c.Hung = true
			return
		}
	}
	select {
	case <-done:
	case <-time.After(60 * time.Second):
		c.Res.Violate("concurrent-sync:hang", "writers did not finish within 60 s", sp)
		c.Hung = true
		return
	}
	take()
	db.Close()
	for si, sh := range shots {
		// every key is written by one call only (Put, or Put then Delete), so the acknowledged state is final
		db2, err := leveldb.Open(sh.img, o)
		if err != nil {
			c.Res.Violate("concurrent-sync:reopen", fmt.Sprintf("image %d: Open: %v", si, err), sp)
			continue
		}
		for _, a := range sh.must {
			v, gerr := db2.Get(a.key, nil)
			switch {
			case a.val == nil:
				if gerr != leveldb.ErrNotFound {
					c.Res.Violate("concurrent-sync:acked-sync-delete-lost", fmt.Sprintf("image %d: Delete(%s) acknowledged with Sync before the crash, after it Get = %q, %v", si, a.key, v, gerr), sp)
				}
			case gerr != nil || !bytes.Equal(v, a.val):
				c.Res.Violate("concurrent-sync:acked-sync-write-lost", fmt.Sprintf("image %d: the write of %s was acknowledged with Sync before the crash (possibly merged into another writer's group), after it Get = %.30q, %v", si, a.key, v, gerr), sp)
			}
			c.Res.Eval(fmt.Sprintf("concsync/%d/%d/%d/%s", c.Seed, sp.Round, si, a.key), true)
		}
		db2.Close()
		c.Res.CountN("concurrent-sync", "images", 1)
		c.Res.CountN("concurrent-sync", "acked-sync-writes-checked", len(sh.must))
	}
}
