//go:build verif

package checks

// Reproductions, on the real file storage, of what Model/FSMeta.lean finds about GetMeta's preference for pending
// files and about its repair (GoLevel.C04FS.stale_pending_after_smaller_setmeta, repair_destroys_backup).  They need the
// hook storage.VerifStep.

import (
	"fmt"
	"os"
	"path/filepath"
	"sort"
	"strings"
	"testing"

	"github.com/syndtr/goleveldb/leveldb/storage"
)

func fsmTestListing(t *testing.T, dir string) string {
	des, _ := os.ReadDir(dir)
	var out []string
	for _, de := range des {
		n := de.Name()
		if strings.HasPrefix(n, "CURRENT") {
			b, _ := os.ReadFile(filepath.Join(dir, n))
			out = append(out, fmt.Sprintf("%s=%q", n, b))
		} else if n != "LOG" && n != "LOCK" && n != "LOG.old" {
			out = append(out, n)
		}
	}
	sort.Strings(out)
	return strings.Join(out, " ")
}

func fsmTestCopyDir(t *testing.T, src string) string {
	dst, err := os.MkdirTemp("", "repro-copy-")
	if err != nil {
		t.Fatal(err)
	}
	des, _ := os.ReadDir(src)
	for _, de := range des {
		if de.Name() == "LOCK" {
			continue
		}
		b, err := os.ReadFile(filepath.Join(src, de.Name()))
		if err != nil {
			t.Fatal(err)
		}
		os.WriteFile(filepath.Join(dst, de.Name()), b, 0644)
	}
	return dst
}

type fsmTestDied struct{}

// dieAt: run f; the process "dies" (panic, recovered) before the n-th (0-based) hooked call with the given op
func fsmTestDieAt(dir, op string, n int, f func()) (dead bool) {
	seen := 0
	storage.VerifStep = func(o, path string) {
		if strings.HasPrefix(path, dir) && o == op {
			if seen == n {
				panic(fsmTestDied{})
			}
			seen++
		}
	}
	defer func() {
		storage.VerifStep = nil
		if p := recover(); p != nil {
			if _, ok := p.(fsmTestDied); !ok {
				panic(p)
			}
			dead = true
		}
	}()
	f()
	return
}

// (The stale-pending-file-after-RecoverFile scenario, defect D47, lives in c19fs.go: there the directory is COPIED at the
// hooked call instead of unwinding a panic through leveldb.OpenFile, whose deferred clean-ups would run.)

// CURRENT is damaged, CURRENT.bak is good (the case the backup exists for).  GetMeta answers from the backup and then
// "restores CURRENT to proper state" with setMeta, whose first step copies the damaged CURRENT over CURRENT.bak.  If
// the process dies between the truncation of CURRENT.bak and the complete write of CURRENT.<n>, no file names the
// manifest any more.
func TestRepairDestroysBackup(t *testing.T) {
	for _, at := range []struct {
		op string
		n  int
	}{{"write", 0}, {"sync", 0}, {"close", 0}, {"open", 1}, {"write", 1}} {
		dir, _ := os.MkdirTemp("", "repro-")
		os.WriteFile(filepath.Join(dir, "CURRENT"), []byte("garbage"), 0644)
		os.WriteFile(filepath.Join(dir, "CURRENT.bak"), []byte("MANIFEST-000009\n"), 0644)
		os.WriteFile(filepath.Join(dir, "MANIFEST-000009"), []byte("x"), 0644)
		st, err := storage.OpenFile(dir, false)
		if err != nil {
			t.Fatal(err)
		}
		// what an undisturbed GetMeta answers (on a copy)
		cp := fsmTestCopyDir(t, dir)
		st2, _ := storage.OpenFile(cp, false)
		fd, err := st2.GetMeta()
		st2.Close()
		os.RemoveAll(cp)
		if err != nil || fd.Num != 9 {
			t.Fatalf("undisturbed GetMeta: %v %v", fd, err)
		}
		if !fsmTestDieAt(dir, at.op, at.n, func() { st.GetMeta() }) {
			t.Fatalf("GetMeta did not reach %s #%d", at.op, at.n)
		}
		img := fsmTestCopyDir(t, dir)
		st3, _ := storage.OpenFile(img, false)
		fd, err = st3.GetMeta()
		st3.Close()
		t.Logf("death before %s #%d: %s  => GetMeta: %v %v", at.op, at.n, fsmTestListing(t, img), fd, err)
		if err == nil {
			t.Errorf("expected the entry point to be lost")
		}
		os.RemoveAll(img)
		os.RemoveAll(dir)
	}
}
