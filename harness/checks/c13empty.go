package checks

// C13: the empty table (zero entries, which table.Writer.Close writes on purpose) under range-restricted iterators and
// arbitrary movements: nothing is yielded and NO error is reported (defect D57: a range with a non-nil Start made
// block.seek read the restart count as an offset; Seek answered "entries offset not aligned" on an undamaged file).

import (
	"bytes"
	"fmt"

	"github.com/syndtr/goleveldb/leveldb/opt"
	"github.com/syndtr/goleveldb/leveldb/storage"
	"github.com/syndtr/goleveldb/leveldb/table"
	"github.com/syndtr/goleveldb/leveldb/util"
)

func c13EmptyTable(c *Ctx) {
	for _, o := range []*opt.Options{{}, {Compression: opt.NoCompression, BlockRestartInterval: 1}} {
		var buf bytes.Buffer
		w := table.NewWriter(&buf, o, nil, 0)
		if err := w.Close(); err != nil {
			c.Res.Violate("table:empty:write-error", err.Error(), nil)
			return
		}
		file := buf.Bytes()
		r, err := table.NewReader(bytes.NewReader(file), int64(len(file)), storage.FileDesc{Type: storage.TypeTable, Num: 1}, nil, nil, o)
		if err != nil {
			c.Res.Violate("table:empty:open-error", err.Error(), nil)
			return
		}
		ranges := []*util.Range{nil, {}, {Start: []byte("")}, {Start: []byte("a")}, {Limit: []byte("z")}, {Start: []byte("a"), Limit: []byte("z")}, {Start: []byte("z"), Limit: []byte("a")}}
		moves := []string{"seek:", "seek:a", "first", "last", "next", "prev", "seek:zz", "next", "last", "prev", "seek:"}
		for ri, rg := range ranges {
			it := r.NewIterator(rg, nil)
			for mi, mv := range moves {
				var ok bool
				switch {
				case mv == "first":
					ok = it.First()
				case mv == "last":
					ok = it.Last()
				case mv == "next":
					ok = it.Next()
				case mv == "prev":
					ok = it.Prev()
				default:
					ok = it.Seek([]byte(mv[5:]))
				}
				c.Res.Eval(fmt.Sprintf("empty-table/%d/%d", ri, mi), true)
				if ok || it.Valid() || it.Error() != nil {
					c.Res.Violate("table:empty:ranged-iterator", fmt.Sprintf("empty table (%d bytes), range #%d %v, move %d (%s): returned %v, Valid %v, Error %v; an empty table yields nothing and reports no error", len(file), ri, rg, mi, mv, ok, it.Valid(), it.Error()), map[string]interface{}{"range_index": ri, "moves": moves[:mi+1]})
					it.Release()
					r.Release()
					return
				}
			}
			it.Release()
		}
		r.Release()
	}
}
