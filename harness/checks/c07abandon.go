package checks

// C07 scenario (4): failed commits and shutdown.  Manifest writes are made to fail for a while, so that
// `session.commit` fails and sends the id of the version it spawned on `s.abandon` (`f.abandon`), while an
// iterator pins an older version and further versions are installed behind the holes; then the DB is closed with an
// iterator still open (`session.close`: the closing version's reference, the current version's release) and the
// iterator is released afterwards (its release task is dropped).  Every message the real loop handles — the
// abandons and the two messages of `close` included — is replayed through Model/RefLoop.lean (`ref …` lines), every
// delta against the producer model (`ref v`); oracles: no table of a held version is removed (loop decision and
// storage), all keys readable, and after reopen storage = live set.

import (
	"fmt"
	"strings"
	"sync/atomic"
	"time"

	"github.com/syndtr/goleveldb/leveldb"
	"github.com/syndtr/goleveldb/leveldb/storage"
	"github.com/syndtr/goleveldb/leveldb/util"

	"verif/harness/gen"
	"verif/harness/rng"
	"verif/harness/stor"
)

func c07Abandon(c *Ctx, r *rng.R, idx int) (stop bool) {
	o := gen.RandOpts(r)
	o.Cmp = "bytewise"
	o.WriteBuffer = 256 << uint(r.Intn(2))
	o.TableSize = 256 << uint(r.Intn(2))
	st := stor.New()
	st.KeepOps(false)
	tie := newC07Tie(c, st)
	replay := map[string]interface{}{"scenario": "failed-commits-and-close", "opts": o, "seed_index": idx}
	var failing int32
	var failed int32
	st.SetHooks(func(op stor.Op) stor.FaultMode {
		if atomic.LoadInt32(&failing) != 0 && op.Fd.Type == storage.TypeManifest && (op.Kind == stor.OpWrite || op.Kind == stor.OpSync) {
			atomic.AddInt32(&failed, 1)
			return stor.FailNoEffect
		}
		return stor.NoFault
	}, tie.beforeStorage)
	leveldb.VerifSink = func(point string, args []interface{}) { tie.onEvent(Event{point, args}) }
	defer UninstallSink()
	defer func() {
		tie.Flush()
		for _, v := range tie.takeViolations() {
			parts := strings.SplitN(v, "\x00", 2)
			c.Res.Violate(parts[0], parts[1], map[string]interface{}{"scenario": replay, "last_messages": tie.history})
			stop = true
		}
	}()
	db, err := leveldb.Open(st, o.Options())
	if err != nil {
		c.Res.Violate("open:error", err.Error(), replay)
		return true
	}
	m := kvmap{}
	nkeys := 20 + r.Intn(40)
	put := func(n int) bool {
		for i := 0; i < n; i++ {
			k, v := fmt.Sprintf("k%03d", r.Intn(nkeys)), gen.Value(r, 48)
			if len(v) == 0 {
				v = []byte("x")
			}
			err := db.Put([]byte(k), v, nil)
			// a failed flush leaves its error with the writers until a retry of the flush succeeds
			for dl := time.Now().Add(10 * time.Second); err != nil && atomic.LoadInt32(&failing) == 0 &&
				strings.Contains(err.Error(), "injected") && time.Now().Before(dl); {
				time.Sleep(20 * time.Millisecond)
				err = db.Put([]byte(k), v, nil)
			}
			if err != nil {
				if atomic.LoadInt32(&failing) != 0 {
					return true
				}
				c.Res.Violate("put:error", err.Error(), replay)
				return false
			}
			m[k] = string(v)
		}
		return true
	}
	if !put(60 + r.Intn(60)) {
		db.Close()
		return true
	}
	db.CompactRange(util.Range{})
	leveldb.VerifWaitIdle(db)
	// an iterator pins the current version
	it := db.NewIterator(nil, nil)
	it.First()
	held := kvmap{}
	for k, v := range m {
		held[k] = v
	}
	before := tie.abandons()
	// commits fail for a while: every attempt abandons the id it spawned
	atomic.StoreInt32(&failing, 1)
	put(40 + r.Intn(40))
	deadline := time.Now().Add(3 * time.Second)
	for tie.abandons() < before+1+r.Intn(3) && time.Now().Before(deadline) {
		time.Sleep(5 * time.Millisecond)
	}
	atomic.StoreInt32(&failing, 0)
	if tie.abandons() == before {
		c.Res.Count("abandon", "no-commit-failed")
	} else {
		c.Res.CountN("abandon", "failed-commits", tie.abandons()-before)
	}
	// behind the holes: more versions, some of which delete tables of the pinned one
	deadline = time.Now().Add(10 * time.Second)
	for time.Now().Before(deadline) {
		if err := db.Put([]byte("probe"), []byte("x"), nil); err == nil {
			m["probe"] = "x"
			break
		}
		time.Sleep(20 * time.Millisecond)
	}
	if !put(40 + r.Intn(60)) {
		it.Release()
		db.Close()
		return true
	}
	if err := db.CompactRange(util.Range{}); err != nil {
		c.Res.Count("abandon", "compact-range-error")
	}
	leveldb.VerifWaitIdle(db)
	// the pinned iterator still shows its version
	n := 0
	for ok := it.First(); ok; ok = it.Next() {
		if want, has := held[string(it.Key())]; !has || want != string(it.Value()) {
			c.Res.Violate("abandon:held-iterator-changed", fmt.Sprintf("the iterator created before the failed commits shows %s=%.20q, its version had %.20q", it.Key(), it.Value(), want), replay)
			it.Release()
			db.Close()
			return true
		}
		n++
	}
	if err := it.Error(); err != nil || n != len(held) {
		c.Res.Violate("abandon:held-iterator-short", fmt.Sprintf("the iterator created before the failed commits shows %d of %d entries, error %v", n, len(held), err), replay)
		it.Release()
		db.Close()
		return true
	}
	got, err := crDumpDB(db)
	if err != nil {
		c.Res.Violate("abandon:read-error", err.Error(), replay)
	} else if d, ok := c11Equal(m, got); !ok {
		c.Res.Violate("abandon:contents", d, replay)
	}
	closeHeld := idx%2 == 0
	if !closeHeld {
		it.Release()
		leveldb.VerifWaitIdle(db)
		tie.fileRefs(db)
	}
	// close (with the iterator still open in half of the runs); the release after close is dropped
	if err := db.Close(); err != nil {
		c.Res.Count("abandon", "close-error")
	}
	if closeHeld {
		it.Release()
		c.Res.Count("abandon", "closed-with-held-iterator")
	}
	tie.Flush()
	// after reopen: everything readable, storage = live set
	db, err = leveldb.Open(st, o.Options())
	if err != nil {
		c.Res.Violate("reopen:error", err.Error(), replay)
		return true
	}
	defer func() { crCall(crWdTimeout, db.Close) }()
	got, err = crDumpDB(db)
	if err != nil {
		c.Res.Violate("abandon:read-error-after-reopen", err.Error(), replay)
		return false
	}
	if d, ok := c11Equal(m, got); !ok {
		c.Res.Violate("abandon:contents-after-reopen", d, replay)
		return false
	}
	ok := c07Settled(c, db, st, nil, replay, "failed-commits scenario, after reopen")
	c.Res.Eval(fmt.Sprintf("abandon/%d", idx), tie.abandons() > before)
	return !ok && c.Hung
}

func (t *c07Tie) abandons() int {
	t.mu.Lock()
	defer t.mu.Unlock()
	return t.nAbandon
}
