package checks

import (
	wpc12 "verif/harness/wp/c12"
)

func init() { Registry["C12"] = runC12 }

// runC12: journal writer / reader.  Generator and oracles live in verif/harness/wp/c12.
func runC12(c *Ctx) {
	c.Res.Rule = "random writer programs (1-40 records; lengths 0, 1, 6-8, <200, <3000, one block ± a header, two blocks ± headers, " +
		"up to 100000; a record split into 1-3 Write calls; Flush after ~30% of the records; every fifth program with stale writes " +
		"after Flush and calls after Close) run on the real journal.Writer; per program one `enc` case (stream bytes, length after " +
		"every call), the intact stream and 12 damaged variants (3 truncations near chunk headers / block edges / random, zero " +
		"extension, garbage extension, truncation+zero extension, 4× one or two of {bit flip, byte xor, byte set, zeroed header}, a " +
		"block or a short range overwritten), each read by the recoverJournal loop on the real journal.Reader under the four " +
		"(strict, checksum) combinations; plus truncation sweeps over short streams (small records / a record across the block " +
		"boundary / a padded block end): every offset (quick: every 8th offset of the ~33 KB streams plus all offsets within 9 bytes " +
		"of a chunk header, the block boundary and the end). One evaluation = one (program, mutation) read under all four flag " +
		"pairs, or one enc case. Non-trivial = the mutation changed the stream bytes (damaged), ≥1 record and a non-empty stream " +
		"(intact), non-empty stream (enc). Distinct by the driver line (program + mutation)."
	sz := wpc12.Sizes{Cases: c.Scale(1000, 10000), Sweeps: c.Scale(6, 30), SweepStep: c.Scale(8, 1)}
	wpc12.Run(mathRand(c), sz, wpSink(c))
}
