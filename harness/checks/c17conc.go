package checks

import (
	"fmt"
	"os"
	"runtime"
	"runtime/debug"
	"strconv"
	"sync"
	"sync/atomic"
	"time"

	"github.com/syndtr/goleveldb/leveldb/cache"

	"verif/harness/rng"
)

// Concurrent stress of cache.Cache + LRU with implementation-side oracles (C17 (b)):
//   - constructor once per residency: a key never has two live values;
//   - a value is finalised exactly once, and — unless the cache was force-closed — never while a handle that a
//     goroutine got from Get and has not yet released is outstanding;
//   - a delFunc runs exactly once, after the value's finaliser, never while a handle is outstanding;
//   - two handles to the same live key carry the same value object;
//   - at quiescent points Size() ≤ capacity and Nodes() = number of live values;
//   - no panic, no hang.

type ccStress struct {
	c        *Ctx
	seed     uint64
	roundNo  int
	nkeys    int
	live     []atomic.Int32 // per (ns,key): values constructed and not finalised
	ctors    atomic.Int64
	fins     atomic.Int64
	forced   atomic.Bool // Close(true) has been called: finalisation under outstanding handles is allowed
	slowFin  bool        // the finaliser yields (widens the window of races on it)
	mu       sync.Mutex
	vals     []*ccVal
	dels     []*ccDel
	viol     map[string]string
	hits     atomic.Int64
	sameSeen atomic.Int64
}

type ccVal struct {
	st      *ccStress
	ns, key uint64
	idx     int
	fin     atomic.Int32
	out     atomic.Int32 // handles obtained through Get and not yet given to Release
}

type ccDel struct {
	n   atomic.Int32
	v   *ccVal // the value whose handle the deleter held (nil: blind delete)
	key int
}

func (s *ccStress) violate(sig, msg string) {
	s.mu.Lock()
	if _, ok := s.viol[sig]; !ok {
		s.viol[sig] = msg
	}
	s.mu.Unlock()
}

func (v *ccVal) Release() {
	s := v.st
	if v.fin.Add(1) != 1 {
		s.violate("cache:finalised-twice", fmt.Sprintf("value #%d of key (%d,%d) was finalised %d times (forced=%v)", v.idx, v.ns, v.key, v.fin.Load(), s.forced.Load()))
	}
	if o := v.out.Load(); o != 0 && !s.forced.Load() {
		s.violate("cache:finalised-while-handle-outstanding", fmt.Sprintf("value #%d of key (%d,%d) finalised while %d handle(s) are outstanding; the cache was not force-closed", v.idx, v.ns, v.key, o))
	}
	if s.slowFin {
		for i := 0; i < 3; i++ {
			runtime.Gosched()
		}
	}
	s.live[s.ki(v.ns, v.key)].Add(-1)
	s.fins.Add(1)
}

func (s *ccStress) ki(ns, key uint64) int { return int(ns)*s.nkeys + int(key) }

func (s *ccStress) newVal(ns, key uint64) *ccVal {
	v := &ccVal{st: s, ns: ns, key: key}
	if n := s.live[s.ki(ns, key)].Add(1); n != 1 {
		s.violate("cache:constructor-twice-per-residency", fmt.Sprintf("setFunc for key (%d,%d) ran while %d earlier value(s) of that key were still live", ns, key, n-1))
	}
	s.ctors.Add(1)
	s.mu.Lock()
	v.idx = len(s.vals)
	s.vals = append(s.vals, v)
	s.mu.Unlock()
	return v
}

func (s *ccStress) newDel(v *ccVal, key int) *ccDel {
	d := &ccDel{v: v, key: key}
	s.mu.Lock()
	s.dels = append(s.dels, d)
	s.mu.Unlock()
	return d
}

func (d *ccDel) run(s *ccStress) func() {
	return func() {
		if d.n.Add(1) != 1 {
			s.violate("cache:delfunc-twice", fmt.Sprintf("a delFunc of key index %d ran %d times", d.key, d.n.Load()))
		}
		if d.v != nil && !s.forced.Load() {
			if o := d.v.out.Load(); o != 0 {
				s.violate("cache:delfunc-while-handle-outstanding", fmt.Sprintf("delFunc of key (%d,%d) ran while %d handle(s) to value #%d are outstanding", d.v.ns, d.v.key, o, d.v.idx))
			}
			if d.v.fin.Load() != 1 {
				s.violate("cache:delfunc-before-finaliser", fmt.Sprintf("delFunc of key (%d,%d) ran before the value #%d was finalised", d.v.ns, d.v.key, d.v.idx))
			}
		}
	}
}

type ccHeld struct {
	h *cache.Handle
	v *ccVal
}

func (s *ccStress) worker(cc *cache.Cache, r *rng.R, nops, nns, capMax int, keep int) (held []ccHeld) {
	get := func(ns, key uint64, withSet bool) (ccHeld, bool) {
		var f func() (int, cache.Value)
		if withSet {
			sz := 1 + r.Intn(3)
			f = func() (int, cache.Value) { return sz, s.newVal(ns, key) }
		}
		h := cc.Get(ns, key, f)
		if h == nil {
			return ccHeld{}, false
		}
		v, _ := h.Value().(*ccVal)
		if v == nil {
			if !s.forced.Load() {
				s.violate("cache:handle-without-value", fmt.Sprintf("Get(%d,%d) returned a handle whose Value() is nil", ns, key))
			}
			h.Release()
			return ccHeld{}, false
		}
		v.out.Add(1)
		if v.ns != ns || v.key != key {
			s.violate("cache:wrong-value", fmt.Sprintf("Get(%d,%d) returned the value of (%d,%d)", ns, key, v.ns, v.key))
		}
		if v.fin.Load() != 0 && !s.forced.Load() {
			s.violate("cache:get-returned-finalised-value", fmt.Sprintf("Get(%d,%d) returned value #%d, which was already finalised", ns, key, v.idx))
		}
		s.hits.Add(1)
		return ccHeld{h, v}, true
	}
	rel := func(x ccHeld) {
		x.v.out.Add(-1)
		x.h.Release()
	}
	for i := 0; i < nops; i++ {
		ns, key := uint64(r.Intn(nns)), uint64(r.Intn(s.nkeys))
		switch x := r.Intn(100); {
		case x < 38:
			if x, ok := get(ns, key, r.Chance(9, 10)); ok {
				held = append(held, x)
			}
		case x < 44 && len(held) > 0:
			// a second handle to a key that is held: same value object
			a := held[r.Intn(len(held))]
			if b, ok := get(a.v.ns, a.v.key, true); ok {
				if b.v != a.v {
					s.violate("cache:different-values-for-live-key", fmt.Sprintf("key (%d,%d): a handle to value #%d is held, a second Get returned value #%d", a.v.ns, a.v.key, a.v.idx, b.v.idx))
				}
				s.sameSeen.Add(1)
				rel(b)
			}
		case x < 72:
			if len(held) > 0 {
				j := r.Intn(len(held))
				rel(held[j])
				held[j] = held[len(held)-1]
				held = held[:len(held)-1]
			}
		case x < 80:
			if len(held) > 0 && r.Bool() {
				a := held[r.Intn(len(held))]
				cc.Delete(a.v.ns, a.v.key, s.newDel(a.v, s.ki(a.v.ns, a.v.key)).run(s))
			} else if r.Bool() {
				cc.Delete(ns, key, s.newDel(nil, s.ki(ns, key)).run(s))
			} else {
				cc.Delete(ns, key, nil)
			}
		case x < 88:
			cc.Evict(ns, key)
		case x < 91:
			cc.EvictNS(ns)
		case x < 92:
			cc.EvictAll()
		case x < 96:
			cc.SetCapacity(r.Intn(capMax + 1))
		default:
			runtime.Gosched()
		}
		for len(held) > 6 {
			rel(held[0])
			held = held[1:]
		}
	}
	for len(held) > keep {
		rel(held[len(held)-1])
		held = held[:len(held)-1]
	}
	return held
}

// round runs one cache through a concurrent phase, a quiescent check, Close and the final accounting.
// mode 0: everything released, Close(false); 1: everything released, Close(true); 2: handles kept over Close(false);
// 3: handles kept over Close(true); 4: Close(false) races with the releases; 5: Close(true) races with the releases.
func (s *ccStress) round(r *rng.R, mode int) {
	nworkers := 8 + r.Intn(9)
	nns := 1 + r.Intn(3)
	s.nkeys = 4 + r.Intn(24)
	capMax := 4 + r.Intn(40)
	s.live = make([]atomic.Int32, nns*s.nkeys)
	s.vals, s.dels = nil, nil
	s.forced.Store(false)
	s.slowFin = mode >= 4 || r.Chance(1, 4)
	cc := cache.NewCache(cache.NewLRU(capMax))
	keep := 0
	if mode >= 2 {
		keep = 2
	}
	if mode >= 4 {
		keep = 4
	}
	helds := make([][]ccHeld, nworkers)
	var wg sync.WaitGroup
	start := make(chan struct{})
	for w := 0; w < nworkers; w++ {
		wg.Add(1)
		rr := r.Fork()
		go func(w int) {
			defer wg.Done()
			defer func() {
				if p := recover(); p != nil {
					s.violate("cache:panic", fmt.Sprintf("panic in a cache call: %v\n%s", p, debug.Stack()))
				}
			}()
			<-start
			helds[w] = s.worker(cc, rr, 300+rr.Intn(300), nns, capMax, keep)
		}(w)
	}
	close(start)
	wg.Wait()
	outstanding := 0
	for _, h := range helds {
		outstanding += len(h)
	}
	// quiescent point
	func() {
		defer func() {
			if p := recover(); p != nil {
				s.violate("cache:panic", fmt.Sprintf("panic at the quiescent point: %v\n%s", p, debug.Stack()))
			}
		}()
		capNow := r.Intn(capMax + 1)
		cc.SetCapacity(capNow)
		if outstanding == 0 {
			if sz := cc.Size(); sz > capNow {
				s.violate("cache:size-over-capacity", fmt.Sprintf("quiescent, no handle outstanding: Size()=%d > capacity %d (Nodes()=%d)", sz, capNow, cc.Nodes()))
			}
			nlive := 0
			for i := range s.live {
				nlive += int(s.live[i].Load())
			}
			if cc.Nodes() != nlive {
				s.violate("cache:nodes-vs-live-values", fmt.Sprintf("quiescent, no handle outstanding: Nodes()=%d but %d values are live (constructed and not finalised)", cc.Nodes(), nlive))
			}
		}
		switch mode {
		case 0, 2:
			cc.Close(false)
		case 1, 3:
			s.forced.Store(true)
			cc.Close(true)
		case 4, 5:
			// Close races with the release of the kept handles
			var wg2 sync.WaitGroup
			go2 := make(chan struct{})
			for _, hs := range helds {
				for _, x := range hs {
					wg2.Add(1)
					go func(x ccHeld) {
						defer wg2.Done()
						<-go2
						x.v.out.Add(-1)
						x.h.Release()
					}(x)
				}
			}
			wg2.Add(1)
			go func() {
				defer wg2.Done()
				<-go2
				if mode == 5 {
					s.forced.Store(true)
				}
				cc.Close(mode == 5)
			}()
			close(go2)
			wg2.Wait()
			helds = nil
		}
		for _, hs := range helds {
			for _, x := range hs {
				x.v.out.Add(-1)
				x.h.Release()
				x.h.Release() // releasing twice is documented as safe
			}
		}
	}()
	// final accounting: everything was released and the cache is closed
	for _, v := range s.vals {
		if n := v.fin.Load(); n != 1 {
			s.violate("cache:finalise-count", fmt.Sprintf("after release of every handle and Close (mode %d): value #%d of key (%d,%d) was finalised %d times", mode, v.idx, v.ns, v.key, n))
			break
		}
	}
	for _, d := range s.dels {
		if n := d.n.Load(); n != 1 {
			s.violate("cache:delfunc-count", fmt.Sprintf("after release of every handle and Close (mode %d): a delFunc of key index %d ran %d times", mode, d.key, n))
			break
		}
	}
	s.c.Res.Count("conc-mode", fmt.Sprintf("mode%d", mode))
	s.c.Res.CountN("conc", "values", len(s.vals))
	s.c.Res.CountN("conc", "delfuncs", len(s.dels))
	s.c.Res.CountN("conc", "workers", nworkers)
}

// c17StaleFinalizer replays Props/C17 `delTwiceSched` (theorem close_race_delfunc_twice) on the implementation:
//
//	A: the last Handle.Release of node n (counter -> 0) stalls before n.r.mu.RLock() in unRefExternal
//	B: Get(k) revives n (0 -> 1), Release (-> 0): mBucket.delete removes n and runs its delFuncs; Close(false)
//	A: resumes, sees closed, callFinalizer(n): n.delFuncs — run but never cleared by mBucket.delete — run again.
//
// The window in A cannot be held open without editing the code, so this is a stress of exactly these threads
// (about 40 double runs per million trials on the code before the repair of D30; none since mBucket.delete takes
// the delFuncs out of the node).  Part of every C17 run as a regression detector: 3 s in the quick tier, 60 s in the
// thorough tier (VERIF_C17_STALE=<seconds> overrides); reported under cache.Close:stale-callFinalizer:delfunc-twice.
func c17StaleFinalizer(c *Ctx, seconds int) {
	deadline := time.Now().Add(time.Duration(seconds) * time.Second)
	trials, twice := 0, 0
	for time.Now().Before(deadline) && twice == 0 {
		for i := 0; i < 2000 && twice == 0; i++ {
			trials++
			cc := cache.NewCache(cache.NewLRU(0))
			var finRuns, delRuns int32
			v := &c17StaleVal{n: &finRuns}
			hA := cc.Get(0, 1, func() (int, cache.Value) { return 1, v })
			cc.Delete(0, 1, func() { atomic.AddInt32(&delRuns, 1) }) // deferred: hA is outstanding
			var start int32
			var wg sync.WaitGroup
			wg.Add(2)
			go func() {
				defer wg.Done()
				for atomic.LoadInt32(&start) == 0 {
				}
				hA.Release()
			}()
			go func() {
				defer wg.Done()
				for atomic.LoadInt32(&start) == 0 {
				}
				for k := 0; k < 3; k++ {
					if h := cc.Get(0, 1, nil); h != nil {
						h.Release()
					}
				}
				cc.Close(false)
			}()
			runtime.Gosched()
			atomic.StoreInt32(&start, 1)
			wg.Wait()
			if d, f := atomic.LoadInt32(&delRuns), atomic.LoadInt32(&finRuns); d != 1 || f != 1 {
				twice++
				c.Res.Violate("cache.Close:stale-callFinalizer:delfunc-twice",
					fmt.Sprintf("trial %d: after Get, Delete(delFunc), {Release || Get;Release;Close(false)} the delFunc ran %d times and the value was released %d times (Node.unRefExternal decides it holds the last reference before it takes r.mu; a concurrent Get/Release removes the node through mBucket.delete, which runs n.delFuncs without clearing them; after Close the first thread calls callFinalizer on the removed node)", trials, d, f),
					map[string]interface{}{"kind": "targeted-stress", "trials": trials, "lean": "GoLevel.C17.close_race_delfunc_twice"})
			}
		}
	}
	c.Res.CountN("conc", "stale-finalizer-trials", trials)
}

type c17StaleVal struct{ n *int32 }

func (v *c17StaleVal) Release() { atomic.AddInt32(v.n, 1) }

// c17FinaliseUnderHandle replays Props/C17 `raceSched` (theorem close_race_finalises_under_handle) on the
// implementation:
//
//	A: the last Handle.Release of node n (counter -> 0) stalls before n.r.mu.RLock() in unRefExternal
//	B: Get(k) revives n (0 -> 1) and KEEPS the handle; Close(false)
//	A: resumes, sees closed, callFinalizer(n): the value is released while B's handle is outstanding
//	   (Handle.Value() of B's handle is nil from then on).
//
// A stress like c17StaleFinalizer (about 85 hits per million trials on the code before the repair of D32; none
// since the closed branch of unRefExternal re-checks the counter).  Part of every C17 run as a regression detector:
// 3 s in the quick tier, 60 s in the thorough tier (VERIF_C17_UNDER_HANDLE=<seconds> overrides, 0 disables);
// reported under cache.Close:unRefExternal-race:finalised-under-handle.
func c17FinaliseUnderHandle(c *Ctx, seconds int) {
	deadline := time.Now().Add(time.Duration(seconds) * time.Second)
	trials, hits := 0, 0
	for time.Now().Before(deadline) && hits == 0 {
		for i := 0; i < 2000 && hits == 0; i++ {
			trials++
			cc := cache.NewCache(cache.NewLRU(0))
			var finRuns int32
			v := &c17StaleVal{n: &finRuns}
			hA := cc.Get(0, 1, func() (int, cache.Value) { return 1, v })
			var start int32
			var wg sync.WaitGroup
			var hB *cache.Handle
			wg.Add(2)
			go func() {
				defer wg.Done()
				for atomic.LoadInt32(&start) == 0 {
				}
				hA.Release()
			}()
			go func() {
				defer wg.Done()
				for atomic.LoadInt32(&start) == 0 {
				}
				hB = cc.Get(0, 1, nil)
				cc.Close(false)
			}()
			runtime.Gosched()
			atomic.StoreInt32(&start, 1)
			wg.Wait()
			if hB != nil {
				if f := atomic.LoadInt32(&finRuns); f != 0 || hB.Value() == nil {
					hits++
					c.Res.Violate("cache.Close:unRefExternal-race:finalised-under-handle",
						fmt.Sprintf("trial %d: after Get, {Release || h := Get; Close(false)} the value was released %d time(s) while the handle h is outstanding (h.Value() = %v): Node.unRefExternal brought the counter to zero, the concurrent Get revived the node, Close(false) came before unRefExternal's RLock, which then saw `closed` and called callFinalizer", trials, f, hB.Value()),
						map[string]interface{}{"kind": "targeted-stress", "trials": trials, "lean": "GoLevel.C17.close_race_finalises_under_handle"})
				}
				hB.Release()
			}
		}
	}
	c.Res.CountN("conc", "under-handle-trials", trials)
}

// c17CloseDeadlock is the cache-level regression detector for D36 (Lean theorem d36_deadlock): a cache of capacity 1,
// workers that Get and Release distinct keys — every Get evicts the previous node from inside lru.Promote, i.e.
// calls Node.unRefExternal while holding r.mu for reading — and a Close after 1-5 ms.  Before the repair
// unRefExternal read-locked r.mu again, which blocks for ever behind Close's announced r.mu.Lock() (71-100 % of
// the rounds hung).  2 s in the quick tier, 20 s in the thorough tier (VERIF_C17_CLOSE_DEADLOCK=<seconds> overrides,
// 0 disables); a round that does not finish within 10 s is reported under
// cache.Close:unRefExternal-recursive-RLock:deadlock.
func c17CloseDeadlock(c *Ctx, seconds int) {
	deadline := time.Now().Add(time.Duration(seconds) * time.Second)
	r := c.R.Fork()
	rounds := 0
	for time.Now().Before(deadline) {
		rounds++
		cc := cache.NewCache(cache.NewLRU(1))
		var fin int32
		done := make(chan struct{})
		var wg sync.WaitGroup
		const workers = 4
		wg.Add(workers + 1)
		for w := 0; w < workers; w++ {
			go func(w int) {
				defer wg.Done()
				for k := uint64(0); ; k++ {
					h := cc.Get(uint64(w), k, func() (int, cache.Value) { return 1, &c17StaleVal{n: &fin} })
					if h == nil {
						return // closed
					}
					h.Release()
				}
			}(w)
		}
		delay := time.Duration(1+r.Intn(5)) * time.Millisecond
		go func() {
			defer wg.Done()
			time.Sleep(delay)
			cc.Close(false)
		}()
		go func() { wg.Wait(); close(done) }()
		select {
		case <-done:
		case <-time.After(10 * time.Second):
			buf := make([]byte, 1<<20)
			buf = buf[:runtime.Stack(buf, true)]
			c.Res.Violate("cache.Close:unRefExternal-recursive-RLock:deadlock",
				fmt.Sprintf("round %d: %d workers doing Get/Release on a cache of capacity 1 and a Close(false) after %v did not finish within 10 s:\n%s", rounds, workers, delay, blockedSummary(string(buf))),
				map[string]interface{}{"kind": "targeted-stress", "round": rounds, "lean": "GoLevel.C17.d36_deadlock"})
			c.Hung = true
			c.Res.CountN("conc", "close-deadlock-rounds", rounds)
			return
		}
	}
	c.Res.CountN("conc", "close-deadlock-rounds", rounds)
}

func c17Concurrent(c *Ctx) {
	dlSec := c.Scale(2, 20)
	if sec, err := strconv.Atoi(os.Getenv("VERIF_C17_CLOSE_DEADLOCK")); err == nil {
		dlSec = sec
	}
	if dlSec > 0 {
		c17CloseDeadlock(c, dlSec)
		if c.Hung {
			return
		}
	}
	staleSec := c.Scale(3, 60)
	if sec, err := strconv.Atoi(os.Getenv("VERIF_C17_STALE")); err == nil {
		staleSec = sec
	}
	if staleSec > 0 {
		c17StaleFinalizer(c, staleSec)
	}
	underSec := c.Scale(3, 60)
	if sec, err := strconv.Atoi(os.Getenv("VERIF_C17_UNDER_HANDLE")); err == nil {
		underSec = sec
	}
	if underSec > 0 {
		c17FinaliseUnderHandle(c, underSec)
	}
	s := &ccStress{c: c, viol: map[string]string{}}
	r := c.R.Fork()
	nrounds := c.Scale(1200, 12000)
	forceRaceSeen := false
	for i := 0; i < nrounds && c.TimeLeft(); i++ {
		rr := r.Fork()
		mode := i % 6
		if mode == 5 && forceRaceSeen {
			mode = 3
		}
		s.roundNo = i
		done := make(chan struct{})
		go func() { s.round2(rr, mode); close(done) }()
		select {
		case <-done:
		case <-time.After(30 * time.Second):
			buf := make([]byte, 1<<20)
			buf = buf[:runtime.Stack(buf, true)]
			c.Res.Violate("cache:hang", fmt.Sprintf("concurrent round %d (mode %d) did not finish within 30 s:\n%s", i, mode, blockedSummary(string(buf))), map[string]interface{}{"seed": c.Seed, "round": i, "mode": mode})
			c.Hung = true
			return
		}
		nontriv := s.hits.Load() > 100
		c.Res.Eval(fmt.Sprintf("conc/%d/%d", c.Seed, i), nontriv)
		if len(s.viol) > 0 {
			replay := map[string]interface{}{"kind": "concurrent-stress", "seed": c.Seed, "round": i, "mode": mode,
				"modes": "0/1: all released then Close(false/true); 2/3: handles kept over Close(false/true); 4/5: Close(false/true) concurrent with the last releases",
				"replay": "vh -prop C17 -seed <seed> reruns the same rounds; the interleaving itself is up to the scheduler"}
			// Close(true) racing with Handle.Release: Node.callFinalizer is not synchronised, both callers see
			// n.value != nil and both call its Release.  Reported once under its own signature; the stress goes on
			// without that mode so that the other oracles keep running.
			onlyForceRace := mode == 5
			for sig := range s.viol {
				if sig != "cache:finalised-twice" && sig != "cache:finalise-count" && sig != "cache:delfunc-twice" && sig != "cache:delfunc-count" {
					onlyForceRace = false
				}
			}
			if onlyForceRace {
				msg := "Close(true) concurrent with Handle.Release: "
				for _, m := range s.viol {
					msg += m + "; "
				}
				msg += "(Cache.Close calls n.callFinalizer() while Node.unRefExternal, having brought the counter to zero before Close stored 0, calls it too; callFinalizer checks and clears n.value without synchronisation)"
				c.Res.Violate("cache.Close(force):concurrent-release:finalised-twice", msg, replay)
				c.Res.Count("conc", "force-close-race-double-finalise")
				forceRaceSeen = true
				s.viol = map[string]string{}
				continue
			}
			for sig, msg := range s.viol {
				c.Res.Violate(sig, msg, replay)
			}
			return
		}
	}
	c.Res.CountN("conc", "constructed", int(s.ctors.Load()))
	c.Res.CountN("conc", "finalised", int(s.fins.Load()))
	c.Res.CountN("conc", "gets-with-handle", int(s.hits.Load()))
	c.Res.CountN("conc", "same-value-double-get", int(s.sameSeen.Load()))
	if len(c.Res.Samples) < 4 {
		c.Res.Sample(map[string]interface{}{"kind": "concurrent", "rounds": nrounds, "constructed": s.ctors.Load(), "finalised": s.fins.Load()})
	}
}

func (s *ccStress) round2(r *rng.R, mode int) {
	defer func() {
		if p := recover(); p != nil {
			s.violate("cache:panic", fmt.Sprintf("panic: %v\n%s", p, debug.Stack()))
		}
	}()
	s.round(r, mode)
}
