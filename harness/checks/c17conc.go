package checks

func c17Concurrent(c *Ctx) {}
