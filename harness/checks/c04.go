package checks

import (
	"fmt"
	"runtime"
	"sync"
	"sync/atomic"

	"verif/harness/gen"
	"verif/harness/rng"
)

func init() { Registry["C04"] = runC04 }

// crashOpts draws the tiny-buffer layout options of the crash checks.
func crashOpts(r *rng.R, thorough bool) gen.Opts {
	o := gen.Opts{
		Cmp:                 "bytewise",
		WriteBuffer:         512 << uint(r.Intn(4)),
		TableSize:           512 << uint(r.Intn(3)),
		TotalSize:           1024 << uint(r.Intn(3)),
		BlockSize:           64 << uint(r.Intn(3)),
		Restart:             1 + r.Intn(16),
		L0Trigger:           2 + r.Intn(3),
		Compression:         1 + r.Intn(2),
		OpenFiles:           4 + r.Intn(60),
		DisableLargeBatchTx: true,
		NoWriteMerge:        r.Chance(1, 4),
		MaxMemCompLevel:     2,
	}
	if thorough && r.Chance(1, 5) {
		o.Cmp = gen.CmpIDs[1+r.Intn(len(gen.CmpIDs)-1)]
	}
	if r.Chance(1, 3) {
		o.FilterBits, o.FilterBaseLg = 10, r.Pick(4, 11)
	}
	return o
}

var crashConfigs = []string{"plain", "tiny-manifest", "large-batch", "transactions", "compact-range", "mixed"}

func crashSpec(r *rng.R, config string, thorough bool) *crSpec {
	s := &crSpec{Config: config, Opts: crashOpts(r, thorough), Seed: r.U64(), N: 100 + r.Intn(101), Settle: r.Chance(1, 2)}
	tiny := func() { s.Opts.MaxManifest = int64(64 << uint(r.Intn(6))) }
	switch config {
	case "tiny-manifest":
		tiny()
	case "large-batch":
		s.BigPct, s.Opts.DisableLargeBatchTx = 10, false
	case "transactions":
		s.TxPct, s.DiscardPct = 15, 35
	case "compact-range":
		s.CompactPct = 7
	case "bigmanifest":
		// long keys (imin/imax sit in every flush record), tiny write buffer, no table compaction: the manifest
		// passes 32 KiB without rotating and one flush record straddles each block boundary
		s.BigManifest, s.KeyLen, s.N, s.Settle = true, 150, 600+r.Intn(100), true
		s.Opts.WriteBuffer, s.Opts.MaxManifest, s.Opts.L0Trigger = 1024, 0, 4
		s.Opts.OpenFiles = 500
	case "mixed":
		s.BigPct, s.Opts.DisableLargeBatchTx = 6, false
		s.TxPct, s.DiscardPct, s.CompactPct = 8, 30, 4
		if r.Chance(1, 2) {
			tiny()
		}
	}
	return s
}

func runC04(c *Ctx) {
	c.Res.Rule = "marker-key workloads (100-200 batches; a batch = head marker, 0-4 puts/deletes over 30 keys, tail marker; sync on 1/3) on tiny buffers over the configurations plain / tiny manifest limit / large-batch transactions / explicit transactions committed+discarded / CompactRange / mixed / bigmanifest (150-byte keys, 1 KiB write buffer, no table compaction, 600-700 batches all written with Sync: the manifest passes 32 KiB without rotating; images at every mutating operation while its length is within 400 bytes of a 32 KiB multiple, with the manifest cut at an arbitrary byte of its unsynced tail); in the Before hook of every k-th mutating storage operation after Open returned (quick: k=3, 1-3 images, thorough: every operation) 1-8 admissible post-crash images are materialised (synced prefix kept; unsynced tail lost/kept/cut/cut+zeros/cut+garbage per file) and each is reopened: Open succeeds; only issued batches present; every batch acknowledged with Sync and every committed transaction present; contents equal exactly the present batches applied in order (both markers of a batch agree); usability (Put, Write, Get, CompactRange, Close, reopen, compare) on a third; nested images taken during the recovery of an image (1 level, thorough 2) get the same oracles. One evaluation = one reopened image; non-trivial = at least one batch was issued before the crash; distinct by (config, workload seed, crash path = op indices + image seeds). Images are also taken before every mutating operation of the very first Open (the creation window): each must open as an empty, usable DB. Before those: concurrent rounds (3-12 writers of Put/Write/Delete, Sync on a third, a journal slowed by 1-2 ms per operation so that writers are merged into groups): images taken while the writers run and at the end must contain every write acknowledged with Sync before the image was taken." + " First of all: " + fsmRule + " Then Batch.Load/Dump/Replay on dumps of random batches and their mutations (truncation, bit flips, insertions, length varints of 2^32..2^64-1): never a panic; an accepted Load replays what the Lean decoder decodes and dumps its input; a rejected Load leaves an empty, usable batch. Then, on the real file storage: the directory left by a process that died inside SetMeta while opening the DB (copied at a hooked system call) is opened with OpenFile, written to with Sync, closed and reopened: it must open and show everything."
	c04FileStorageMeta(c, c.Scale(250, 4000))
	c04BatchCodec(c, c.Scale(3000, 60000))
	c04FileStorageDeath(c, c.Scale(12, 200))
	if len(c.Res.Violations) > 0 {
		return
	}
	c04ConcurrentSync(c, c.Scale(25, 400))
	nwl := c.Scale(36, 4000)
	leanLeft := int64(c.Scale(200, 2000))
	type job struct {
		spec *crSpec
		r    *rng.R
	}
	var jobs []job
	for i := 0; i < nwl; i++ {
		r := c.R.Fork()
		jobs = append(jobs, job{crashSpec(r, crashConfigs[i%len(crashConfigs)], c.Thorough), r})
	}
	// the bigmanifest configuration (one workload in quick, eight in thorough) runs first
	var big []job
	for i := 0; i < c.Scale(1, 8); i++ {
		r := c.R.Fork()
		big = append(big, job{crashSpec(r, "bigmanifest", false), r})
	}
	jobs = append(big, jobs...)
	par := runtime.GOMAXPROCS(0)
	if par > 16 {
		par = 16
	}
	sem := make(chan struct{}, par)
	var wg sync.WaitGroup
	var images int64
	for i, j := range jobs {
		if !c.TimeLeft() || c.Hung {
			break
		}
		sem <- struct{}{}
		if !c.TimeLeft() || c.Hung {
			<-sem
			break
		}
		wg.Add(1)
		go func(i int, j job) {
			defer wg.Done()
			defer func() { <-sem }()
			e := &crashEnv{c: c, spec: j.spec, batches: j.spec.gen(), o: j.spec.options(),
				maxDepth: c.Scale(1, 2), nestProb: [2]int{1, 10}, usable: 3, leanLeft: &leanLeft, leanEvery: c.Scale(8, 60)}
			cr := &crashRun{env: e, every: c.Scale(3, 1), maxImgs: c.Scale(3, 8)}
			c.Guard("crash-image:workload", j.spec, func() { cr.run(j.r) })
			atomic.AddInt64(&images, e.nimg)
			c.Res.CountN("config", j.spec.Config, int(e.nimg))
			c.Res.Count("workloads", j.spec.Config)
			if i < 3 {
				c.Res.Sample(map[string]interface{}{"workload": j.spec, "images_checked": e.nimg, "first_batches": e.batches[:2]})
			}
		}(i, j)
	}
	wg.Wait()
	c.Res.Note("images reopened: %d", images)
	_ = fmt.Sprint
}
