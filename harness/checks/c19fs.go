
package checks

// C19 on the real file storage: the process dies inside fileStorage.SetMeta (at a hooked system call) while a DB is
// being opened, the directory as it is then is handed to RecoverFile (or OpenFile), the recovered DB is used with
// synced writes and closed, and the next OpenFile must show everything.  The interesting leftovers are the files
// SetMeta works with: a pending CURRENT.<n> whose manifest still exists must not outrank the manifest Recover writes.

import (
	"fmt"
	"os"
	"path/filepath"
	"strings"

	"github.com/syndtr/goleveldb/leveldb"
	"github.com/syndtr/goleveldb/leveldb/opt"
	"github.com/syndtr/goleveldb/leveldb/storage"
	"github.com/syndtr/goleveldb/leveldb/util"

	"verif/harness/rng"
)

type c19fsCase struct {
	Seed      uint64 `json:"seed"`
	OldKeys   int    `json:"old_keys"`
	Compacted bool   `json:"compacted_before_close"`
	DieOp     string `json:"die_before_op"`
	DieNth    int    `json:"die_before_nth"`
	Then      string `json:"then"` // RecoverFile | OpenFile
	NewKeys   int    `json:"new_keys"`
	How       string `json:"how"`
}

func c19fsCopyDir(src, dst string) error {
	des, err := os.ReadDir(src)
	if err != nil {
		return err
	}
	for _, de := range des {
		if de.Name() == "LOCK" || de.IsDir() {
			continue
		}
		b, err := os.ReadFile(filepath.Join(src, de.Name()))
		if err != nil {
			return err
		}
		if err := os.WriteFile(filepath.Join(dst, de.Name()), b, 0644); err != nil {
			return err
		}
	}
	return nil
}

func c19fsListing(dir string) string {
	des, _ := os.ReadDir(dir)
	var out []string
	for _, de := range des {
		n := de.Name()
		if strings.HasPrefix(n, "CURRENT") {
			b, _ := os.ReadFile(filepath.Join(dir, n))
			n += "=" + strings.TrimSpace(string(b))
		}
		if n != "LOG" && n != "LOCK" {
			out = append(out, n)
		}
	}
	return strings.Join(out, " ")
}

// c19FileStorageRecover runs n cases; serial (storage.VerifStep is one global hook).
func c19FileStorageRecover(c *Ctx, n int) {
	ops := []string{"stat", "read", "open", "write", "sync", "close", "rename", "syncdir"}
	for i := 0; i < n && c.TimeLeft(); i++ {
		r := c.R.Fork()
		cs := &c19fsCase{Seed: r.U64(), How: "replay: OpenFile a fresh temp dir (WriteBuffer 4 KiB), put old_keys keys, CompactRange if compacted_before_close, Close; OpenFile again with storage.VerifStep copying the directory (without LOCK) before the die_before_nth call of kind die_before_op (what a process dying there leaves); RecoverFile/OpenFile the copy; put new_keys keys with Sync; CompactRange; Close; OpenFile; every old and new key must be readable"}
		rr := rng.New(cs.Seed)
		cs.OldKeys, cs.NewKeys = 50+rr.Intn(300), 50+rr.Intn(300)
		cs.Compacted = rr.Chance(2, 3)
		cs.DieOp = ops[rr.Intn(len(ops))]
		cs.DieNth = rr.Intn(2)
		if cs.DieOp == "rename" || cs.DieOp == "syncdir" || cs.DieOp == "stat" || cs.DieOp == "read" {
			cs.DieNth = 0
		}
		cs.Then = "RecoverFile"
		if rr.Chance(1, 4) {
			cs.Then = "OpenFile"
		}
		c19fsOne(c, cs, "recover:file-storage:")
	}
}

func c19fsOne(c *Ctx, cs *c19fsCase, pref string) {
	sig := func(s string) string { return pref + s }
	dir, err := os.MkdirTemp(c.OutDir, "c19fs-")
	if err != nil {
		c.Res.Note("c19fs: %v", err)
		return
	}
	defer os.RemoveAll(dir)
	img, err := os.MkdirTemp(c.OutDir, "c19fs-img-")
	if err != nil {
		return
	}
	defer os.RemoveAll(img)
	o := &opt.Options{WriteBuffer: 4 << 10}
	key := func(p string, i int) []byte { return []byte(fmt.Sprintf("%s-%04d", p, i)) }
	db, err := leveldb.OpenFile(dir, o)
	if err != nil {
		c.Res.Violate(sig("first-open-failed"), err.Error(), cs)
		return
	}
	for i := 0; i < cs.OldKeys; i++ {
		db.Put(key("old", i), make([]byte, 100), nil)
	}
	if cs.Compacted {
		db.CompactRange(util.Range{})
	}
	db.Close()
	// the second Open "dies" inside SetMeta: the directory is copied at that very system call (what a dead process
	// leaves; no deferred function of the library has run), the Open itself goes on and is thrown away
	seen, died := 0, false
	var copyErr error
	storage.VerifStep = func(op, path string) {
		if !died && strings.HasPrefix(path, dir) && op == cs.DieOp {
			if seen == cs.DieNth {
				died = true
				copyErr = c19fsCopyDir(dir, img)
			}
			seen++
		}
	}
	d2, err2 := leveldb.OpenFile(dir, o)
	storage.VerifStep = nil
	if err2 == nil {
		d2.Close()
	}
	if !died {
		copyErr = c19fsCopyDir(dir, img)
	}
	c.Res.Count("file_storage", fmt.Sprintf("die-before-%s#%d reached=%v then=%s", cs.DieOp, cs.DieNth, died, cs.Then))
	if copyErr != nil {
		c.Res.Note("c19fs copy: %v", copyErr)
		return
	}
	before := c19fsListing(img)
	c.Res.Eval(fmt.Sprintf("FS/%d", cs.Seed), died)
	if cs.Then == "RecoverFile" {
		db, err = leveldb.RecoverFile(img, o)
	} else {
		db, err = leveldb.OpenFile(img, o)
	}
	if err != nil {
		c.Res.Violate(sig(strings.ToLower(cs.Then)+"-failed"), fmt.Sprintf("%s on the directory left by the dead process failed: %v; directory: %s", cs.Then, err, before), cs)
		return
	}
	afterRec := c19fsListing(img)
	for i := 0; i < cs.NewKeys; i++ {
		if err := db.Put(key("new", i), make([]byte, 100), &opt.WriteOptions{Sync: true}); err != nil {
			db.Close()
			c.Res.Violate(sig("write-after-recover-failed"), err.Error(), cs)
			return
		}
	}
	db.CompactRange(util.Range{})
	db.Close()
	db, err = leveldb.OpenFile(img, o)
	if err != nil {
		c.Res.Violate(sig("reopen-failed"), fmt.Sprintf("OpenFile after %s + %d synced writes + Close failed: %v; directory when the process died: %s; after %s: %s; now: %s", cs.Then, cs.NewKeys, err, before, cs.Then, afterRec, c19fsListing(img)), cs)
		return
	}
	defer db.Close()
	missOld, missNew := 0, 0
	for i := 0; i < cs.OldKeys; i++ {
		if _, err := db.Get(key("old", i), nil); err != nil {
			missOld++
		}
	}
	for i := 0; i < cs.NewKeys; i++ {
		if _, err := db.Get(key("new", i), nil); err != nil {
			missNew++
		}
	}
	if missOld+missNew > 0 {
		c.Res.Violate(sig("data-lost-after-reopen"), fmt.Sprintf("%d of %d keys written before the crash and %d of %d keys written with Sync after %s are gone after Close + OpenFile; directory when the process died: %s; after %s: %s; now: %s", missOld, cs.OldKeys, missNew, cs.NewKeys, cs.Then, before, cs.Then, afterRec, c19fsListing(img)), cs)
	}
}

// c04FileStorageDeath: the C04 form of the same scenario — the directory left by a process that died inside SetMeta
// while opening the DB is opened with OpenFile (never Recover): it must open (the files the dead process had created
// under numbers no manifest records yet are simply overwritten), hold everything written before, accept synced
// writes and show them after Close + OpenFile.
func c04FileStorageDeath(c *Ctx, n int) {
	ops := []string{"stat", "read", "open", "write", "sync", "close", "rename", "syncdir"}
	for i := 0; i < n && c.TimeLeft(); i++ {
		r := c.R.Fork()
		cs := &c19fsCase{Seed: r.U64(), Then: "OpenFile", How: "as C19's file-storage scenario (harness/checks/c19fs.go) with OpenFile on the copied directory"}
		rr := rng.New(cs.Seed)
		cs.OldKeys, cs.NewKeys = 50+rr.Intn(300), 50+rr.Intn(300)
		cs.Compacted = rr.Chance(1, 2)
		cs.DieOp = ops[rr.Intn(len(ops))]
		cs.DieNth = rr.Intn(2)
		if cs.DieOp == "rename" || cs.DieOp == "syncdir" || cs.DieOp == "stat" || cs.DieOp == "read" {
			cs.DieNth = 0
		}
		c19fsOne(c, cs, "open:file-storage:death-inside-setmeta:")
	}
}

// c19FileStorageLegacyNames: tables under their old name (NNNNNN.sst, which the file storage still reads), one of them
// with a damaged data block: RecoverFile rebuilds it and renames the rebuilt file onto the table.  The directory must
// then hold ONE file per table, RecoverFile must succeed and so must every later OpenFile (defect D51: the rebuilt
// NNNNNN.ldb was created next to the damaged NNNNNN.sst, the table was listed twice and every Open failed with "file
// missing").
func c19FileStorageLegacyNames(c *Ctx, n int) {
	for i := 0; i < n && c.TimeLeft(); i++ {
		r := c.R.Fork()
		seed := r.U64()
		rr := rng.New(seed)
		rp := map[string]interface{}{"seed": seed, "how": "OpenFile a fresh temp dir (WriteBuffer 4 KiB), put 100-400 keys, CompactRange, Close; rename every NNNNNN.ldb to NNNNNN.sst; flip one byte in the first half of one table; RecoverFile; Close; OpenFile; scan"}
		dir, err := os.MkdirTemp(c.OutDir, "c19sst-")
		if err != nil {
			return
		}
		func() {
			defer os.RemoveAll(dir)
			o := &opt.Options{WriteBuffer: 4 << 10, Compression: opt.NoCompression}
			db, err := leveldb.OpenFile(dir, o)
			if err != nil {
				return
			}
			nk := 300 + rr.Intn(500)
			for k := 0; k < nk; k++ {
				db.Put([]byte(fmt.Sprintf("key-%04d", k)), []byte(fmt.Sprintf("value-%04d-%d", k, rr.U64())), nil)
			}
			db.CompactRange(util.Range{})
			db.Close()
			des, _ := os.ReadDir(dir)
			var tables []string
			for _, de := range des {
				if strings.HasSuffix(de.Name(), ".ldb") {
					nn := strings.TrimSuffix(de.Name(), ".ldb") + ".sst"
					os.Rename(filepath.Join(dir, de.Name()), filepath.Join(dir, nn))
					tables = append(tables, nn)
				}
			}
			if len(tables) == 0 {
				return
			}
			// the DB opens and reads fine under the old names
			if db, err = leveldb.OpenFile(dir, o); err != nil {
				c.Res.Violate("recover:file-storage:legacy-names:open-failed", fmt.Sprintf("OpenFile on tables named .sst failed: %v", err), rp)
				return
			}
			db.Close()
			victim := filepath.Join(dir, tables[rr.Intn(len(tables))])
			b, _ := os.ReadFile(victim)
			if len(b) < 200 {
				return
			}
			b[10+rr.Intn(len(b)/3)] ^= 0x40
			os.WriteFile(victim, b, 0644)
			c.Res.Count("file_storage", "legacy-sst-names")
			c.Res.Eval(fmt.Sprintf("SST/%d", seed), true)
			db, err = leveldb.RecoverFile(dir, o)
			if err != nil {
				c.Res.Violate("recover:file-storage:legacy-names:recoverfile-failed", fmt.Sprintf("RecoverFile failed: %v; directory now: %s", err, c19fsListing(dir)), rp)
				return
			}
			db.Close()
			db, err = leveldb.OpenFile(dir, o)
			if err != nil {
				c.Res.Violate("recover:file-storage:legacy-names:reopen-failed", fmt.Sprintf("OpenFile after RecoverFile failed: %v; directory now: %s", err, c19fsListing(dir)), rp)
				return
			}
			it := db.NewIterator(nil, nil)
			cnt := 0
			for it.Next() {
				cnt++
			}
			ierr := it.Error()
			it.Release()
			db.Close()
			if ierr != nil || cnt < nk-200 {
				c.Res.Violate("recover:file-storage:legacy-names:contents", fmt.Sprintf("after RecoverFile + OpenFile a scan shows %d of %d keys (one damaged block may cost up to a block's worth), error %v", cnt, nk, ierr), rp)
			}
		}()
		if len(c.Res.Violations) > 0 {
			return
		}
	}
}
