package checks

import (
	"encoding/binary"
	"bytes"
	"fmt"
	"github.com/syndtr/goleveldb/leveldb/filter"
	"os"
	"runtime/debug"
	"sort"
	"strings"
	"sync"

	"github.com/syndtr/goleveldb/leveldb"
	"github.com/syndtr/goleveldb/leveldb/comparer"
	"github.com/syndtr/goleveldb/leveldb/iterator"
	"github.com/syndtr/goleveldb/leveldb/opt"
	"github.com/syndtr/goleveldb/leveldb/storage"
	"github.com/syndtr/goleveldb/leveldb/util"

	"verif/harness/gen"
	"verif/harness/rng"
	"verif/harness/stor"
)

// ---------------------------------------------------------------------------------------------
// Replayable single-client programs against a real DB, with the plain-map oracle (C01), frozen copies
// for snapshots and iterators (C03), cursor oracle for iterator walks (C02), structural checks of the
// live table set (C06), file-set checks at settled points (C07), transactions (C11) and optional
// poisoning of every buffer that crosses the API (C20).

type BOp struct {
	Del bool   `json:"del,omitempty"`
	K   string `json:"k"` // hex
	V   string `json:"v,omitempty"`
}

type Move struct {
	M string `json:"m"` // first last next prev seek
	K string `json:"k,omitempty"`
}

type POp struct {
	Op    string `json:"op"` // put del write get has snap snapget snaprel iter compact reopen settle tropen trput trdel trget trcommit trdiscard
	K     string `json:"k,omitempty"`
	V     string `json:"v,omitempty"`
	Batch []BOp  `json:"batch,omitempty"`
	Sync  bool   `json:"sync,omitempty"`
	Start string `json:"start,omitempty"` // "nil" or hex
	Limit string `json:"limit,omitempty"`
	Snap  int    `json:"snap,omitempty"` // index into live snapshots (mod len), -1 = db
	Walk  []Move `json:"walk,omitempty"`
	Hold  bool   `json:"hold,omitempty"` // iterator: keep it open and re-walk it later
	Rec   bool   `json:"recover,omitempty"` // reopen: settle, Close, then leveldb.Recover instead of Open (every table at level 0)
}

type Prog struct {
	Opts              gen.Opts `json:"opts"`
	Poison            bool     `json:"poison,omitempty"`
	SlowTableCreateMs int      `json:"slow_table_create_ms,omitempty"` // stall every table Create (stretches the flush window)
	Settle            bool     `json:"settle,omitempty"`               // wait for background work after every mutating op (deterministic layout)
	FilterMigration   bool     `json:"filter_migration,omitempty"`     // every (re)open changes the filter policy and lists the earlier ones in AltFilters
	Ops               []POp    `json:"ops"`
}

type ProgWeights struct {
	Put, Del, Write, BigWrite, Get, Has, Snap, SnapGet, SnapRel, Iter, Compact, Reopen, Settle, Tx int
	InvertedRanges                                                                                 bool
	HeldIters                                                                                      bool
}

var DefaultWeights = ProgWeights{Put: 34, Del: 12, Write: 6, BigWrite: 1, Get: 14, Has: 3, Snap: 4, SnapGet: 5, SnapRel: 2, Iter: 8, Compact: 3, Reopen: 2, Settle: 2, Tx: 3}

func hexOrNil(b []byte, isNil bool) string {
	if isNil {
		return "nil"
	}
	return gen.Hex(b)
}

func unhex(s string) []byte {
	if s == "-" || s == "" {
		return []byte{}
	}
	b := make([]byte, len(s)/2)
	fmt.Sscanf(s, "%x", &b)
	return b
}

func unhexNil(s string) []byte {
	if s == "nil" || s == "" {
		return nil
	}
	return unhex(s)
}

func GenProg(r *rng.R, o gen.Opts, nops int, w ProgWeights) *Prog {
	p := &Prog{Opts: o}
	univ := gen.Universe(r, 6+r.Intn(40), 1+r.Intn(8))
	key := func() []byte {
		if r.Chance(9, 10) {
			return gen.KeyFrom(r, univ)
		}
		return gen.Key(r, 8)
	}
	val := func() []byte { return gen.Value(r, o.BlockSize*2) }
	total := w.Put + w.Del + w.Write + w.BigWrite + w.Get + w.Has + w.Snap + w.SnapGet + w.SnapRel + w.Iter + w.Compact + w.Reopen + w.Settle + w.Tx
	rng2 := func() (start, limit string) {
		start, limit = "nil", "nil"
		var s, l []byte
		if r.Chance(1, 2) {
			s = key()
			start = gen.Hex(s)
		}
		if r.Chance(1, 2) {
			l = key()
			limit = gen.Hex(l)
		}
		if start != "nil" && limit != "nil" && !w.InvertedRanges {
			if gen.Comparer(o.Cmp).Compare(s, l) > 0 {
				start, limit = limit, start
			}
		}
		return
	}
	walk := func(n int) []Move {
		var ms []Move
		for i := 0; i < n; i++ {
			switch x := r.Intn(12); {
			case x < 1:
				ms = append(ms, Move{M: "first"})
			case x < 2:
				ms = append(ms, Move{M: "last"})
			case x < 4:
				ms = append(ms, Move{M: "seek", K: gen.Hex(key())})
			case x < 8:
				ms = append(ms, Move{M: "next"})
			default:
				ms = append(ms, Move{M: "prev"})
			}
		}
		return ms
	}
	inTx := false
	for len(p.Ops) < nops {
		x := r.Intn(total)
		pick := func(wt int) bool {
			if x < wt {
				x = 1 << 30
				return true
			}
			x -= wt
			return false
		}
		if inTx {
			switch y := r.Intn(10); {
			case y < 5:
				p.Ops = append(p.Ops, POp{Op: "trput", K: gen.Hex(key()), V: gen.Hex(val())})
			case y < 6:
				p.Ops = append(p.Ops, POp{Op: "trdel", K: gen.Hex(key())})
			case y < 8:
				p.Ops = append(p.Ops, POp{Op: "trget", K: gen.Hex(key())})
			case y < 9:
				p.Ops = append(p.Ops, POp{Op: "get", K: gen.Hex(key())}) // outside view while the tx is open
			default:
				if r.Chance(2, 3) {
					p.Ops = append(p.Ops, POp{Op: "trcommit"})
				} else {
					p.Ops = append(p.Ops, POp{Op: "trdiscard"})
				}
				inTx = false
			}
			continue
		}
		switch {
		case pick(w.Put):
			p.Ops = append(p.Ops, POp{Op: "put", K: gen.Hex(key()), V: gen.Hex(val()), Sync: r.Chance(1, 8)})
		case pick(w.Del):
			p.Ops = append(p.Ops, POp{Op: "del", K: gen.Hex(key())})
		case pick(w.Write):
			n := r.Intn(8)
			var b []BOp
			for i := 0; i < n; i++ {
				if r.Chance(1, 3) {
					b = append(b, BOp{Del: true, K: gen.Hex(key())})
				} else {
					b = append(b, BOp{K: gen.Hex(key()), V: gen.Hex(val())})
				}
			}
			p.Ops = append(p.Ops, POp{Op: "write", Batch: b})
		case pick(w.BigWrite):
			// larger than the write buffer: routed through a transaction unless disabled
			var b []BOp
			sz := 0
			for sz < o.WriteBuffer+o.WriteBuffer/2 {
				v := bytes.Repeat([]byte{byte('a' + r.Intn(26))}, 40+r.Intn(o.WriteBuffer/3+1))
				b = append(b, BOp{K: gen.Hex(key()), V: gen.Hex(v)})
				sz += len(v) + 16
			}
			p.Ops = append(p.Ops, POp{Op: "write", Batch: b})
		case pick(w.Get):
			p.Ops = append(p.Ops, POp{Op: "get", K: gen.Hex(key())})
		case pick(w.Has):
			p.Ops = append(p.Ops, POp{Op: "has", K: gen.Hex(key())})
		case pick(w.Snap):
			p.Ops = append(p.Ops, POp{Op: "snap"})
		case pick(w.SnapGet):
			p.Ops = append(p.Ops, POp{Op: "snapget", K: gen.Hex(key()), Snap: r.Intn(1 << 16)})
		case pick(w.SnapRel):
			p.Ops = append(p.Ops, POp{Op: "snaprel", Snap: r.Intn(1 << 16)})
		case pick(w.Iter):
			s, l := rng2()
			snap := -1
			if r.Chance(1, 2) {
				snap = r.Intn(1 << 16)
			}
			op := POp{Op: "iter", Start: s, Limit: l, Snap: snap, Walk: walk(6 + r.Intn(30)), Hold: w.HeldIters && r.Chance(1, 3)}
			if r.Chance(1, 3) {
				op.Start, op.Limit = "", "" // nil *util.Range
			}
			p.Ops = append(p.Ops, op)
		case pick(w.Compact):
			s, l := rng2()
			p.Ops = append(p.Ops, POp{Op: "compact", Start: s, Limit: l})
		case pick(w.Reopen):
			// a quarter of the reopens go through Recover: the manifest is rebuilt from the table files, every table
			// lands at level 0 in file-number order, which is NOT the order of their ages
			p.Ops = append(p.Ops, POp{Op: "reopen", Rec: !inTx && r.Chance(1, 4)})
		case pick(w.Settle):
			p.Ops = append(p.Ops, POp{Op: "settle"})
		case pick(w.Tx):
			p.Ops = append(p.Ops, POp{Op: "tropen"})
			inTx = true
		}
	}
	if inTx {
		p.Ops = append(p.Ops, POp{Op: "trdiscard"})
	}
	return p
}

// ---- oracle -----------------------------------------------------------------------------------

type kvmap map[string]string

func (m kvmap) clone() kvmap {
	c := make(kvmap, len(m))
	for k, v := range m {
		c[k] = v
	}
	return c
}

func (m kvmap) sorted(cmp comparer.Comparer, start, limit []byte) []string {
	var ks []string
	for k := range m {
		if start != nil && cmp.Compare([]byte(k), start) < 0 {
			continue
		}
		if limit != nil && cmp.Compare([]byte(k), limit) >= 0 {
			continue
		}
		ks = append(ks, k)
	}
	sort.Slice(ks, func(i, j int) bool { return cmp.Compare([]byte(ks[i]), []byte(ks[j])) < 0 })
	return ks
}

// ---- runner -----------------------------------------------------------------------------------

type Event struct {
	Point string
	Args  []interface{}
}

type heldIter struct {
	it           iterator.Iterator
	m            kvmap
	start, limit []byte
	walk         []Move
	at           int
}

type Runner struct {
	useRecover bool // the next open() goes through leveldb.Recover
	nRecover   int  // reopens that went through Recover
	P     *Prog
	St    *stor.Stor
	DB    *leveldb.DB
	O     *opt.Options
	Cmp   comparer.Comparer
	M     kvmap
	Snaps []struct {
		s *leveldb.Snapshot
		m kvmap
	}
	Held []*heldIter
	Tr   *leveldb.Transaction
	TrM  kvmap // view inside the transaction

	Fail    func(sig, msg string, at int)
	Failed  bool
	FailSig string
	Checks  ProgChecks
	Stats   map[string]int
	evMu    sync.Mutex
	Events  []Event
	OnEvent func(ev Event)

	tableCache map[string][]leveldb.VerifEntry
	opens      int
	Tracer     *lsmTracer
	snapMu     sync.Mutex
	snapSeqs   map[*leveldb.Snapshot]uint64
	// transcript of every read result (for cross-configuration comparison)
	Transcript []string
}

type ProgChecks struct {
	Structure bool // C06 after every op
	Files     bool // C07 at settled points
	Space     bool
	Trace     bool // emit `lsm …` lines for the Lean trace validator
}

func NewRunner(p *Prog) *Runner {
	r := &Runner{P: p, St: stor.New(), M: kvmap{}, Stats: map[string]int{}, tableCache: map[string][]leveldb.VerifEntry{}}
	r.O = p.Opts.Options()
	r.St.ListOrder = len(p.Ops) % 3 // Storage.List promises no order
	if p.SlowTableCreateMs > 0 {
		ms := p.SlowTableCreateMs
		r.St.Delay = func(k stor.Kind, fd storage.FileDesc) int {
			if k == stor.OpCreate && fd.Type == storage.TypeTable {
				return ms
			}
			return 0
		}
	}
	r.Cmp = r.O.GetComparer()
	return r
}

func (r *Runner) fail(sig, msg string, at int) {
	if !r.Failed {
		if debugEvents {
			fmt.Fprintf(os.Stderr, "FAIL %s %s\n", sig, msg)
		}
		r.Failed = true
		r.FailSig = sig
		if r.Fail != nil {
			r.Fail(sig, msg, at)
		}
	}
}

var sinkMu sync.Mutex

// InstallSink routes hook events of the (single) DB under test to the runner.
func (r *Runner) InstallSink() {
	leveldb.VerifSink = func(point string, args []interface{}) {
		ev := Event{point, args}
		if debugEvents {
			fmt.Fprintf(os.Stderr, "EV %s %s\n", point, evBrief(args))
			if point == "v.install" || point == "m.drop" || point == "m.rotate" {
				fmt.Fprintf(os.Stderr, "STACK %s\n", briefStack())
			}
		}
		if r.OnEvent != nil {
			r.OnEvent(ev)
		}
	}
}

var debugEvents = os.Getenv("VERIF_DEBUG_EVENTS") != ""

func briefStack() string {
	var fr []string
	for _, l := range strings.Split(string(debug.Stack()), "\n") {
		if strings.HasPrefix(l, "github.com/syndtr/goleveldb/leveldb.") {
			l = strings.TrimPrefix(l, "github.com/syndtr/goleveldb/leveldb.")
			if i := strings.Index(l, "(0x"); i > 0 {
				l = l[:i]
			}
			fr = append(fr, l)
		}
	}
	return strings.Join(fr, " < ")
}

func evBrief(args []interface{}) string {
	out := ""
	for _, a := range args {
		switch x := a.(type) {
		case int, int64, uint64, bool, string, uint32:
			out += fmt.Sprintf(" %v", x)
		default:
			out += fmt.Sprintf(" <%T>", a)
		}
	}
	return out
}

func UninstallSink() { leveldb.VerifSink = nil; leveldb.VerifYield = nil }

// namedBloom is a bloom policy under its own name: tables record the name of the policy they were written with,
// and a reader picks the policy for a table by that name (Options.Filter first, then Options.AltFilters).
type namedBloom struct {
	filter.Filter
	name string
}

func (n namedBloom) Name() string { return n.name }

// lenPolicy is a valid policy whose filters have nothing in common with bloom filters: nine bytes, bit (len(key) mod 64)
// of the first eight set for every key added, then the byte 0x01 (which a bloom policy reads as "one probe": it then
// reports most stored keys absent).  Handed a block it did not write, it answers "absent".  A reader that applies ANOTHER
// policy to such a block (or this one to a bloom block) hides stored keys — which is what must never happen when a table's
// policy is not among Filter / AltFilters: such a table is read without a filter.
type lenPolicy struct{}
type lenGen struct{ bits uint64 }

func (lenPolicy) Name() string                         { return "verif.policyLen" }
func (lenPolicy) NewGenerator() filter.FilterGenerator { return &lenGen{} }
func (lenPolicy) Contains(f, key []byte) bool {
	if len(f) != 9 || f[8] != 1 {
		return false
	}
	return binary.LittleEndian.Uint64(f)&(1<<(uint(len(key))%64)) != 0
}
func (g *lenGen) Add(key []byte) { g.bits |= 1 << (uint(len(key)) % 64) }
func (g *lenGen) Generate(b filter.Buffer) {
	p := b.Alloc(9)
	binary.LittleEndian.PutUint64(p, g.bits)
	p[8] = 1
	g.bits = 0
}

var migrationPolicies = []filter.Filter{
	namedBloom{filter.NewBloomFilter(10), "verif.policyA"},
	namedBloom{filter.NewBloomFilter(6), "verif.policyB"},
	nil, // no filter for new tables; the old ones keep theirs through AltFilters
	namedBloom{filter.NewBloomFilter(14), "verif.policyC"},
	lenPolicy{},
}

func (r *Runner) open() error {
	if r.P.FilterMigration {
		o := *r.O
		o.Filter = migrationPolicies[r.opens%len(migrationPolicies)]
		o.AltFilters = nil
		// every third open "forgets" one of the other policies: the tables written under it are then read without a
		// filter (their policy name matches neither Filter nor any of AltFilters) and every answer stays the same
		forget := -1
		if r.opens%3 == 2 {
			forget = (r.opens / 3) % len(migrationPolicies)
		}
		for i, f := range migrationPolicies {
			if f != nil && f != o.Filter && i != forget {
				o.AltFilters = append(o.AltFilters, f)
			}
		}
		r.O = &o
		r.opens++
	}
	var db *leveldb.DB
	var err error
	if r.useRecover {
		db, err = leveldb.Recover(r.St, r.O)
	} else {
		db, err = leveldb.Open(r.St, r.O)
	}
	if err != nil {
		return err
	}
	r.DB = db
	return nil
}

func poison(b []byte) {
	for i := range b {
		b[i] ^= 0x5a
	}
}

func cp(b []byte) []byte { return append([]byte{}, b...) }

func (r *Runner) checkGet(at int, tag string, k []byte, v []byte, err error, m kvmap) {
	w, ok := m[string(k)]
	switch {
	case err != nil && err != leveldb.ErrNotFound:
		r.fail(tag+":error", fmt.Sprintf("op %d: %s(%x) returned error %v", at, tag, k, err), at)
	case ok != (err == nil):
		r.fail(tag+":presence", fmt.Sprintf("op %d: %s(%x) found=%v, plain map has=%v (value %.40q)", at, tag, k, err == nil, ok, w), at)
	case ok && string(v) != w:
		r.fail(tag+":value", fmt.Sprintf("op %d: %s(%x) = %.40q(len %d), plain map says %.40q(len %d)", at, tag, k, v, len(v), w, len(w)), at)
	}
	if err == nil {
		r.Transcript = append(r.Transcript, fmt.Sprintf("%x=%x", k, v))
	} else {
		r.Transcript = append(r.Transcript, fmt.Sprintf("%x!", k))
	}
}

// walkIter drives one iterator through moves and compares with the cursor over the sorted live pairs.
func (r *Runner) walkIter(at int, it iterator.Iterator, m kvmap, start, limit []byte, walk []Move, pos *int, tag string) {
	ks := m.sorted(r.Cmp, start, limit)
	if start != nil && limit != nil && r.Cmp.Compare(start, limit) > 0 {
		ks = nil
	}
	var trace []string
	for _, mv := range walk {
		var ok bool
		switch mv.M {
		case "first":
			ok = it.First()
			if len(ks) > 0 {
				*pos = 0
			} else {
				*pos = len(ks)
			}
		case "last":
			ok = it.Last()
			if len(ks) > 0 {
				*pos = len(ks) - 1
			} else {
				*pos = -1
			}
		case "seek":
			k := unhex(mv.K)
			kk := cp(k)
			ok = it.Seek(kk)
			if r.P.Poison {
				poison(kk)
			}
			*pos = sort.Search(len(ks), func(i int) bool { return r.Cmp.Compare([]byte(ks[i]), k) >= 0 })
		case "next":
			ok = it.Next()
			if *pos < len(ks) {
				*pos++
			}
		case "prev":
			ok = it.Prev()
			if *pos >= 0 {
				*pos--
			}
		}
		trace = append(trace, mv.M+mv.K)
		want := *pos >= 0 && *pos < len(ks)
		if ok != want || it.Valid() != want {
			r.fail(tag+":iter-valid", fmt.Sprintf("op %d: after %v: returned %v valid %v, cursor over %d live keys says %v (pos %d) err=%v", at, trace, ok, it.Valid(), len(ks), want, *pos, it.Error()), at)
			return
		}
		if want {
			k, v := it.Key(), it.Value()
			if string(k) != ks[*pos] || string(v) != m[ks[*pos]] {
				r.fail(tag+":iter-pair", fmt.Sprintf("op %d: after %v: at %x=%.30q, cursor says %x=%.30q", at, trace, k, v, ks[*pos], m[ks[*pos]]), at)
				return
			}
			if r.P.Poison {
				// the pair must stay intact until the iterator is moved: read it twice around an unrelated call
				k1, v1 := cp(k), cp(v)
				r.DB.Has([]byte("\x01poison-probe"), nil)
				if !bytes.Equal(k1, it.Key()) || !bytes.Equal(v1, it.Value()) {
					r.fail(tag+":iter-unstable", fmt.Sprintf("op %d: iterator key/value changed without a move", at), at)
					return
				}
			}
			r.Transcript = append(r.Transcript, fmt.Sprintf("i%x=%x", k, v))
		} else {
			r.Transcript = append(r.Transcript, "i-")
		}
	}
	if err := it.Error(); err != nil {
		r.fail(tag+":iter-error", fmt.Sprintf("op %d: iterator error %v", at, err), at)
	}
}

func (r *Runner) releaseHandles() {
	for _, h := range r.Held {
		h.it.Release()
	}
	r.Held = nil
	r.snapMu.Lock()
	r.snapSeqs = nil
	r.snapMu.Unlock()
	for _, sn := range r.Snaps {
		sn.s.Release()
	}
	r.Snaps = nil
	if r.Tr != nil {
		r.Tr.Discard()
		r.Tr, r.TrM = nil, nil
	}
}

// Run executes the program; it returns after the first failure.
func (r *Runner) Run() {
	if debugEvents && leveldb.VerifSink == nil {
		r.InstallSink()
		defer UninstallSink()
	}
	if err := r.open(); err != nil {
		r.fail("open:error", fmt.Sprintf("initial open: %v", err), -1)
		return
	}
	defer func() {
		r.releaseHandles()
		if r.DB != nil {
			r.DB.Close()
		}
	}()
	wo := func(sync bool) *opt.WriteOptions { return &opt.WriteOptions{Sync: sync} }
	for at, op := range r.P.Ops {
		if r.Failed {
			return
		}
		r.Stats[op.Op]++
		if debugEvents {
			fmt.Fprintf(os.Stderr, "OP %d %s\n", at, op.Op)
		}
		mutating := false
		switch op.Op {
		case "put":
			k, v := unhex(op.K), unhex(op.V)
			kk, vv := cp(k), cp(v)
			if err := r.DB.Put(kk, vv, wo(op.Sync)); err != nil {
				r.fail("put:error", fmt.Sprintf("op %d: Put: %v", at, err), at)
			}
			if !bytes.Equal(kk, k) || !bytes.Equal(vv, v) {
				r.fail("put:args-modified", fmt.Sprintf("op %d: Put modified its arguments", at), at)
			}
			if r.P.Poison {
				poison(kk)
				poison(vv)
			}
			r.M[string(k)] = string(v)
			mutating = true
		case "del":
			k := unhex(op.K)
			kk := cp(k)
			if err := r.DB.Delete(kk, wo(op.Sync)); err != nil {
				r.fail("del:error", fmt.Sprintf("op %d: Delete: %v", at, err), at)
			}
			if r.P.Poison {
				poison(kk)
			}
			delete(r.M, string(k))
			mutating = true
		case "write":
			b := new(leveldb.Batch)
			var bufs [][]byte
			for _, bo := range op.Batch {
				k := cp(unhex(bo.K))
				bufs = append(bufs, k)
				if bo.Del {
					b.Delete(k)
				} else {
					v := cp(unhex(bo.V))
					bufs = append(bufs, v)
					b.Put(k, v)
				}
				if r.P.Poison { // Batch.Put/Delete must have copied already
					for _, x := range bufs {
						poison(x)
					}
					bufs = bufs[:0]
				}
			}
			if b.Len() > 0 && b.Len() != len(op.Batch) {
				r.fail("batch:len", "Batch.Len mismatch", at)
			}
			if err := r.DB.Write(b, wo(op.Sync)); err != nil {
				r.fail("write:error", fmt.Sprintf("op %d: Write: %v", at, err), at)
			}
			if r.P.Poison {
				b.Reset()
				b.Put([]byte("\x01poison"), []byte("x")) // reuse of the batch memory must not matter
				b.Reset()
			}
			for _, bo := range op.Batch {
				if bo.Del {
					delete(r.M, string(unhex(bo.K)))
				} else {
					r.M[string(unhex(bo.K))] = string(unhex(bo.V))
				}
			}
			mutating = true
		case "get":
			k := unhex(op.K)
			kk := cp(k)
			v, err := r.DB.Get(kk, nil)
			r.checkGet(at, "get", k, v, err, r.M)
			if r.Tracer != nil && r.Tr == nil && at%3 == 0 && (err == nil || err == leveldb.ErrNotFound) {
				r.Tracer.get(k, v, err)
			}
			if r.P.Poison {
				poison(kk)
				poison(v)
				v2, err2 := r.DB.Get(k, nil)
				r.checkGet(at, "get-after-poison", k, v2, err2, r.M)
			}
		case "has":
			k := unhex(op.K)
			h, err := r.DB.Has(cp(k), nil)
			_, ok := r.M[string(k)]
			if err != nil || h != ok {
				r.fail("has:mismatch", fmt.Sprintf("op %d: Has(%x)=%v,%v plain map %v", at, k, h, err, ok), at)
			}
			v, gerr := r.DB.Get(k, nil)
			if (gerr == nil) != h {
				r.fail("has:get-disagree", fmt.Sprintf("op %d: Has(%x)=%v but Get err=%v val=%.20q", at, k, h, gerr, v), at)
			}
		case "snap":
			if len(r.Snaps) < 12 {
				s, err := r.DB.GetSnapshot()
				if err != nil {
					r.fail("snap:error", err.Error(), at)
					break
				}
				r.snapMu.Lock()
				if r.snapSeqs == nil {
					r.snapSeqs = map[*leveldb.Snapshot]uint64{}
				}
				r.snapSeqs[s] = leveldb.VerifSnapshotSeq(s)
				r.snapMu.Unlock()
				r.Snaps = append(r.Snaps, struct {
					s *leveldb.Snapshot
					m kvmap
				}{s, r.M.clone()})
			}
		case "snapget":
			if len(r.Snaps) > 0 {
				sn := r.Snaps[op.Snap%len(r.Snaps)]
				k := unhex(op.K)
				v, err := sn.s.Get(cp(k), nil)
				r.checkGet(at, "snapget", k, v, err, sn.m)
				h, herr := sn.s.Has(k, nil)
				if herr != nil || h != (err == nil) {
					r.fail("snaphas:mismatch", fmt.Sprintf("op %d: Snapshot.Has(%x)=%v,%v Get err=%v", at, k, h, herr, err), at)
				}
			}
		case "snaprel":
			if len(r.Snaps) > 0 {
				i := op.Snap % len(r.Snaps)
				r.snapMu.Lock()
				delete(r.snapSeqs, r.Snaps[i].s)
				r.snapMu.Unlock()
				r.Snaps[i].s.Release()
				if _, err := r.Snaps[i].s.Get([]byte("x"), nil); err != leveldb.ErrSnapshotReleased {
					r.fail("snaprel:not-released", fmt.Sprintf("op %d: Get on a released snapshot: %v", at, err), at)
				}
				r.Snaps = append(r.Snaps[:i], r.Snaps[i+1:]...)
			}
		case "iter":
			var rg *util.Range
			var st, li []byte
			if op.Start != "" || op.Limit != "" {
				st, li = unhexNil(op.Start), unhexNil(op.Limit)
				rg = &util.Range{Start: cp2(st), Limit: cp2(li)}
			}
			var it iterator.Iterator
			mm := r.M
			tag := "dbiter"
			if op.Snap >= 0 && len(r.Snaps) > 0 {
				sn := r.Snaps[op.Snap%len(r.Snaps)]
				it = sn.s.NewIterator(rg, nil)
				mm = sn.m
				tag = "snapiter"
			} else {
				it = r.DB.NewIterator(rg, nil)
			}
			if r.P.Poison && rg != nil {
				poison(rg.Start)
				poison(rg.Limit)
			}
			mm = mm.clone()
			pos := -1
			r.walkIter(at, it, mm, st, li, op.Walk, &pos, tag)
			if op.Hold && len(r.Held) < 6 && !r.Failed {
				r.Held = append(r.Held, &heldIter{it: it, m: mm, start: st, limit: li, walk: op.Walk, at: at})
			} else {
				it.Release()
				if it.Next() || it.Valid() {
					r.fail("iter:use-after-release", "released iterator still moves", at)
				}
			}
			// re-walk one iterator that was created earlier: its contents must not have changed (C03, C07)
			if len(r.Held) > 0 && !r.Failed {
				i := at % len(r.Held)
				h := r.Held[i]
				p2 := -1
				r.walkIter(at, h.it, h.m, h.start, h.limit, append([]Move{{M: "first"}}, h.walk...), &p2, "helditer")
				if at-h.at > 60 {
					h.it.Release()
					r.Held = append(r.Held[:i], r.Held[i+1:]...)
				}
			}
		case "compact":
			rg := util.Range{Start: unhexNil(op.Start), Limit: unhexNil(op.Limit)}
			if err := r.DB.CompactRange(rg); err != nil {
				r.fail("compact:error", fmt.Sprintf("op %d: CompactRange: %v", at, err), at)
			}
			mutating = true
		case "settle":
			r.settle(at)
		case "reopen":
			r.releaseHandles()
			r.useRecover = false
			if op.Rec && r.Tr == nil {
				// Recover reads every table file it finds: only on a settled storage (exactly the live files) is
				// its result the plain map; otherwise an obsolete table could bring back what a compaction dropped
				for try := 0; try < 200 && !r.useRecover; try++ {
					if leveldb.VerifWaitIdle(r.DB) != nil {
						break
					}
					if extra, missing := r.fileDiff(); len(extra) == 0 && len(missing) == 0 {
						r.useRecover = true
					} else {
						sleepMs(5)
					}
				}
			}
			if err := r.DB.Close(); err != nil {
				r.fail("close:error", fmt.Sprintf("op %d: Close: %v", at, err), at)
			}
			r.DB = nil
			if r.St.IsLocked() {
				r.fail("close:still-locked", "storage lock not released by Close", at)
			}
			if r.Tracer != nil {
				r.Tracer.reset()
			}
			err := r.open()
			viaRecover := r.useRecover
			r.useRecover = false
			if err != nil {
				r.fail("reopen:error", fmt.Sprintf("op %d: reopen (recover=%v): %v", at, viaRecover, err), at)
				return
			}
			if viaRecover {
				r.nRecover++
				r.Stats["reopen-via-recover"]++
			}
			r.tableCache = map[string][]leveldb.VerifEntry{}
			r.fullCompare(at, "after-reopen")
			if r.Checks.Files {
				r.settle(at)
			}
		case "tropen":
			tr, err := r.DB.OpenTransaction()
			if err != nil {
				r.fail("tropen:error", fmt.Sprintf("op %d: OpenTransaction: %v", at, err), at)
				break
			}
			r.Tr, r.TrM = tr, r.M.clone()
		case "trput":
			if r.Tr != nil {
				k, v := unhex(op.K), unhex(op.V)
				kk, vv := cp(k), cp(v)
				if err := r.Tr.Put(kk, vv, nil); err != nil {
					r.fail("trput:error", err.Error(), at)
				}
				if r.P.Poison {
					poison(kk)
					poison(vv)
				}
				r.TrM[string(k)] = string(v)
			}
		case "trdel":
			if r.Tr != nil {
				k := unhex(op.K)
				if err := r.Tr.Delete(cp(k), nil); err != nil {
					r.fail("trdel:error", err.Error(), at)
				}
				delete(r.TrM, string(k))
			}
		case "trget":
			if r.Tr != nil {
				k := unhex(op.K)
				v, err := r.Tr.Get(cp(k), nil)
				r.checkGet(at, "trget", k, v, err, r.TrM)
				if r.P.Poison {
					poison(v)
				}
			}
		case "trcommit":
			if r.Tr != nil {
				if err := r.Tr.Commit(); err != nil {
					r.fail("trcommit:error", fmt.Sprintf("op %d: Commit: %v", at, err), at)
				}
				r.M = r.TrM
				r.Tr, r.TrM = nil, nil
				mutating = true
			}
		case "trdiscard":
			if r.Tr != nil {
				r.Tr.Discard()
				if _, err := r.Tr.Get([]byte("x"), nil); err == nil || err == leveldb.ErrNotFound {
					r.fail("trdiscard:still-usable", "Get on a discarded transaction did not fail", at)
				}
				r.Tr, r.TrM = nil, nil
				mutating = true
			}
		}
		if r.Tracer != nil {
			r.Tracer.drain()
		}
		if mutating && r.P.Settle && r.Tr == nil {
			if err := leveldb.VerifWaitIdle(r.DB); err != nil {
				r.fail("settle:error", fmt.Sprintf("op %d: background error %v", at, err), at)
			}
		}
		if r.Checks.Structure && !r.Failed && r.DB != nil && (mutating || at%8 == 0) {
			r.checkStructure(at)
		}
	}
	if !r.Failed {
		r.fullCompare(len(r.P.Ops), "final")
	}
	if r.Tracer != nil {
		r.Tracer.drain()
	}
}

func cp2(b []byte) []byte {
	if b == nil {
		return nil
	}
	return cp(b)
}

// fullCompare walks the whole DB and compares with the plain map.
func (r *Runner) fullCompare(at int, tag string) {
	it := r.DB.NewIterator(nil, nil)
	defer it.Release()
	ks := r.M.sorted(r.Cmp, nil, nil)
	i := 0
	for it.Next() {
		if i >= len(ks) || string(it.Key()) != ks[i] || string(it.Value()) != r.M[ks[i]] {
			want := "<end>"
			if i < len(ks) {
				want = fmt.Sprintf("%x", ks[i])
			}
			r.fail("scan:"+tag, fmt.Sprintf("op %d: full scan position %d: got key %x, plain map expects %s", at, i, it.Key(), want), at)
			return
		}
		i++
	}
	if i != len(ks) {
		r.fail("scan:"+tag, fmt.Sprintf("op %d: full scan ended after %d keys, plain map has %d (next missing %x)", at, i, len(ks), ks[i]), at)
	}
	if err := it.Error(); err != nil {
		r.fail("scan:"+tag+":error", err.Error(), at)
	}
}

// settle waits for background work and, with nothing pinned, checks that storage holds exactly the
// live files (C07).
func (r *Runner) settle(at int) {
	if r.Tr != nil {
		return
	}
	if err := leveldb.VerifWaitIdle(r.DB); err != nil {
		r.fail("settle:error", fmt.Sprintf("op %d: background error %v", at, err), at)
		return
	}
	if !r.Checks.Files || len(r.Held) > 0 {
		return
	}
	r.checkFiles(at)
}

func (r *Runner) checkFiles(at int) {
	// deletions go through the reference loop asynchronously: poll briefly
	var extra, missing []string
	for try := 0; try < 200; try++ {
		extra, missing = r.fileDiff()
		if len(extra) == 0 && len(missing) == 0 {
			return
		}
		leveldb.VerifWaitIdle(r.DB)
		sleepMs(5)
	}
	if len(missing) > 0 {
		r.fail("files:missing", fmt.Sprintf("op %d: live files missing from storage: %v", at, missing), at)
	} else {
		r.fail("files:leaked", fmt.Sprintf("op %d: storage holds files that nothing needs: %v", at, extra), at)
	}
}

func (r *Runner) fileDiff() (extra, missing []string) {
	st := leveldb.VerifDump(r.DB)
	need := map[storage.FileDesc]bool{}
	for _, l := range st.Version.Levels {
		for _, t := range l {
			need[storage.FileDesc{Type: storage.TypeTable, Num: t.Num}] = true
		}
	}
	need[storage.FileDesc{Type: storage.TypeJournal, Num: st.JournalNum}] = true
	if st.HasFrozen && st.FrozenJournal != 0 {
		need[storage.FileDesc{Type: storage.TypeJournal, Num: st.FrozenJournal}] = true
	}
	need[storage.FileDesc{Type: storage.TypeManifest, Num: st.ManifestNum}] = true
	have := map[storage.FileDesc]bool{}
	for _, fd := range r.St.Files() {
		have[fd] = true
		if !need[fd] {
			extra = append(extra, fmt.Sprintf("%s-%d", stor.FtName(fd.Type), fd.Num))
		}
	}
	for fd := range need {
		if !have[fd] {
			missing = append(missing, fmt.Sprintf("%s-%d", stor.FtName(fd.Type), fd.Num))
		}
	}
	sort.Strings(extra)
	sort.Strings(missing)
	return
}

// ---- C06: structure of the live table set, checked on the implementation ----------------------

func (r *Runner) tableEntries(t leveldb.VerifTable) ([]leveldb.VerifEntry, error) {
	// file numbers are reused after a discarded transaction: identify a table by its whole record
	id := fmt.Sprintf("%d/%d/%x/%x", t.Num, t.Size, t.Imin, t.Imax)
	if es, ok := r.tableCache[id]; ok {
		return es, nil
	}
	es, err := leveldb.VerifTableEntries(r.DB, t)
	if err == nil {
		// the entries served through the DB's table cache must be those of the file on storage
		// (decoded independently of the DB, without caches or buffer pool)
		fd := storage.FileDesc{Type: storage.TypeTable, Num: t.Num}
		if b, ok := r.St.FileBytes(fd); ok && int64(len(b)) == t.Size {
			if ref, rerr := crReadTable(b, fd, r.O, true); rerr == nil && !sameEntries(ref, es) {
				r.fail("table-cache:wrong-contents", fmt.Sprintf("table %d (size %d, [%x,%x]): the DB's table cache served %d entries (first %x), the file holds %d (first %x)",
					t.Num, t.Size, t.Imin, t.Imax, len(es), firstIKey(es), len(ref), firstIKey(ref)), -1)
				return ref, nil
			}
		}
		r.tableCache[id] = es
	}
	return es, err
}

func seqRange(mem, frozen []leveldb.VerifEntry) string {
	f := func(es []leveldb.VerifEntry) string {
		if len(es) == 0 {
			return "-"
		}
		lo, hi := seqOf(es[0].IKey), seqOf(es[0].IKey)
		for _, e := range es {
			if q := seqOf(e.IKey); q < lo {
				lo = q
			} else if q > hi {
				hi = q
			}
		}
		return fmt.Sprintf("%d..%d", lo, hi)
	}
	return fmt.Sprintf(", mem seqs %s, frozen seqs %s", f(mem), f(frozen))
}

func sameEntries(a, b []leveldb.VerifEntry) bool {
	if len(a) != len(b) {
		return false
	}
	for i := range a {
		if !bytes.Equal(a[i].IKey, b[i].IKey) || !bytes.Equal(a[i].Value, b[i].Value) {
			return false
		}
	}
	return true
}

func firstIKey(es []leveldb.VerifEntry) []byte {
	if len(es) == 0 {
		return nil
	}
	return es[0].IKey
}

func ukeyOf(ik []byte) []byte { return ik[:len(ik)-8] }
func seqOf(ik []byte) uint64 {
	n := uint64(0)
	for i := 0; i < 8; i++ {
		n |= uint64(ik[len(ik)-8+i]) << (8 * uint(i))
	}
	return n >> 8
}

func (r *Runner) checkStructure(at int) {
	st := leveldb.VerifDump(r.DB)
	if st.Version == nil {
		return
	}
	if debugEvents {
		fmt.Fprintf(os.Stderr, "DUMP at=%d seq=%d frozenSeq=%d stSeq=%d journal=%d frozenJournal=%d hasFrozen=%v mem=%d frozen=%d next=%d%s\n", at, st.Seq, st.FrozenSeq, st.StSeqNum, st.JournalNum, st.FrozenJournal, st.HasFrozen, len(st.Mem), len(st.Frozen), st.NextFileNum, seqRange(st.Mem, st.Frozen))
	}
	ic := leveldb.VerifIComparer(r.Cmp)
	type span struct {
		level int
		t     leveldb.VerifTable
		es    []leveldb.VerifEntry
	}
	var all []span
	for level, tables := range st.Version.Levels {
		for i, t := range tables {
			es, err := r.tableEntries(t)
			if err != nil {
				// the table may have been compacted away between the dump and the read; skip this round
				return
			}
			tag := fmt.Sprintf("L%d table %d", level, t.Num)
			if b, ok := r.St.FileBytes(storage.FileDesc{Type: storage.TypeTable, Num: t.Num}); !ok || int64(len(b)) != t.Size {
				r.fail("structure:file-size", fmt.Sprintf("op %d: %s: recorded size %d, file has %d bytes (present=%v)", at, tag, t.Size, len(b), ok), at)
				return
			}
			if len(es) == 0 {
				r.fail("structure:empty-table", fmt.Sprintf("op %d: %s is empty", at, tag), at)
				return
			}
			for j := 1; j < len(es); j++ {
				if ic.Compare(es[j-1].IKey, es[j].IKey) >= 0 {
					r.fail("structure:unsorted", fmt.Sprintf("op %d: %s entries %d,%d out of order", at, tag, j-1, j), at)
					return
				}
			}
			if !bytes.Equal(es[0].IKey, t.Imin) || !bytes.Equal(es[len(es)-1].IKey, t.Imax) {
				r.fail("structure:bounds", fmt.Sprintf("op %d: %s recorded [%x,%x] but holds [%x,%x]", at, tag, t.Imin, t.Imax, es[0].IKey, es[len(es)-1].IKey), at)
				return
			}
			if level > 0 && i > 0 {
				p := tables[i-1]
				if r.Cmp.Compare(ukeyOf(p.Imax), ukeyOf(t.Imin)) >= 0 {
					r.fail("structure:overlap", fmt.Sprintf("op %d: level %d tables %d and %d overlap or are out of order: %x .. %x", at, level, p.Num, t.Num, p.Imax, t.Imin), at)
					return
				}
			}
			all = append(all, span{level, t, es})
		}
	}
	// shallower is newer, per user key: compute per level min/max seq of every user key
	type mm struct{ min, max uint64 }
	per := make([]map[string]mm, len(st.Version.Levels))
	for _, s := range all {
		if per[s.level] == nil {
			per[s.level] = map[string]mm{}
		}
		for _, e := range s.es {
			u, q := string(ukeyOf(e.IKey)), seqOf(e.IKey)
			x, ok := per[s.level][u]
			if !ok {
				x = mm{q, q}
			} else {
				if q < x.min {
					x.min = q
				}
				if q > x.max {
					x.max = q
				}
			}
			per[s.level][u] = x
		}
	}
	for a := 0; a < len(per); a++ {
		for b := a + 1; b < len(per); b++ {
			for u, xa := range per[a] {
				if xb, ok := per[b][u]; ok && xa.min <= xb.max {
					r.fail("structure:level-order", fmt.Sprintf("op %d: user key %x: level %d holds seq %d, deeper level %d holds seq %d", at, u, a, xa.min, b, xb.max), at)
					return
				}
			}
		}
	}
	// buffers are newer than every table (the frozen buffer may duplicate its own, just installed, table)
	inTables := map[string]bool{}
	for _, sp := range all {
		for _, e := range sp.es {
			inTables[string(e.IKey)] = true
		}
	}
	chk := func(es []leveldb.VerifEntry, frozen bool) bool {
		for _, e := range es {
			u, q := string(ukeyOf(e.IKey)), seqOf(e.IKey)
			if inTables[string(e.IKey)] { // a buffer flushed between the two reads of the dump duplicates its table
				continue
			}
			for lvl := range per {
				if x, ok := per[lvl][u]; ok && q <= x.max {
					detail := fmt.Sprintf(" [db seq %d, frozenSeq %d, manifest seq %d, journal %d frozen journal %d, %d mem / %d frozen entries%s; tables with that key:", st.Seq, st.FrozenSeq, st.StSeqNum, st.JournalNum, st.FrozenJournal, len(st.Mem), len(st.Frozen), seqRange(st.Mem, st.Frozen))
					for _, sp := range all {
						for _, te := range sp.es {
							if string(ukeyOf(te.IKey)) == u {
								detail += fmt.Sprintf(" L%d#%d:seq%d", sp.level, sp.t.Num, seqOf(te.IKey))
							}
						}
					}
					r.fail("structure:buffer-order", fmt.Sprintf("op %d: user key %x: buffer (frozen=%v) holds seq %d, level %d holds seq %d", at, u, frozen, q, lvl, x.max)+detail+"]", at)
					return false
				}
			}
		}
		return true
	}
	if !chk(st.Mem, false) || !chk(st.Frozen, true) {
		return
	}
	r.Stats["structure-checks"]++
	r.Stats[fmt.Sprintf("levels-%d", len(st.Version.Levels))]++
}
