package checks

import (
	"bytes"
	"fmt"
	"math/rand"
	"reflect"
	"runtime"
	"sort"
	"strconv"
	"strings"
	"sync"
	"sync/atomic"
	"time"

	"github.com/syndtr/goleveldb/leveldb"
	"github.com/syndtr/goleveldb/leveldb/comparer"
	"github.com/syndtr/goleveldb/leveldb/iterator"
	"github.com/syndtr/goleveldb/leveldb/memdb"
	"github.com/syndtr/goleveldb/leveldb/util"

	"verif/harness/gen"
	"verif/harness/rng"
)

// C14: the in-memory table (leveldb/memdb).
//
// (a) State-machine differential through the public API against (1) a sorted-slice oracle kept here and
//     (2) the Lean model GoLevel.MemDB via `mem …` lines (Driver/Mem.lean) and (3) the array-level Lean model
//     GoLevel.MemArr via `mem arr …` lines: every line goes to both with the same expected answer; the array model
//     is additionally compared with the private arrays of the Go table (nodeData, kvData, prevNode, maxHeight and
//     the node index held by every iterator, read through reflect), and at the end of every case it is asked for
//     the moves the ideal model cannot answer (Next/Prev from a node that has just been deleted).
// (b) Concurrency oracle: one writer (Put only) and several readers/iterators.

func init() { Registry["C14"] = runC14 }

// memdb.tMaxHeight and the seed of memdb.New/Reset are unexported; the Lean side takes tMaxHeight from the
// generated constants, the tower heights are reproduced here from the same fixed-seed generator
// (memdb.randHeight).  Heights never influence an answer (C14.memdb_refines_map), so a wrong reproduction
// could not be observed — they are passed to the model only so that it walks the same towers.
const (
	c14MaxHeight = 12
	c14Seed      = 0xdeadbeef
	c14Branching = 4
)

type c14Heights struct{ rnd *rand.Rand }

func newC14Heights() *c14Heights { return &c14Heights{rand.New(rand.NewSource(c14Seed))} }
func (h *c14Heights) reset()     { h.rnd = rand.New(rand.NewSource(c14Seed)) }
func (h *c14Heights) draw() int {
	n := 1
	for n < c14MaxHeight && h.rnd.Int()%c14Branching == 0 {
		n++
	}
	return n
}

type c14Pair struct{ k, v []byte }

// c14Oracle is the sorted association list, kept with the comparer under test only through
// sort.Search/sort.Slice (nothing of memdb is used).
type c14Oracle struct {
	cmp   comparer.BasicComparer
	pairs []c14Pair
	used  int
}

func (o *c14Oracle) idx(k []byte) (int, bool) {
	i := sort.Search(len(o.pairs), func(i int) bool { return o.cmp.Compare(o.pairs[i].k, k) >= 0 })
	return i, i < len(o.pairs) && o.cmp.Compare(o.pairs[i].k, k) == 0
}

func (o *c14Oracle) put(k, v []byte) (isNew bool) {
	i, ok := o.idx(k)
	o.used += len(k) + len(v)
	if ok {
		o.pairs[i].v = cp(v)
		return false
	}
	o.pairs = append(o.pairs, c14Pair{})
	copy(o.pairs[i+1:], o.pairs[i:])
	o.pairs[i] = c14Pair{cp(k), cp(v)}
	return true
}

func (o *c14Oracle) del(k []byte) bool {
	i, ok := o.idx(k)
	if !ok {
		return false
	}
	o.pairs = append(o.pairs[:i], o.pairs[i+1:]...)
	return true
}

func (o *c14Oracle) size() int {
	n := 0
	for _, p := range o.pairs {
		n += len(p.k) + len(p.v)
	}
	return n
}

func (o *c14Oracle) inRange(k, start, limit []byte) bool {
	return (start == nil || o.cmp.Compare(k, start) >= 0) && (limit == nil || o.cmp.Compare(k, limit) < 0)
}

// slice returns the pairs an iterator over [start, limit) ranges over.
func (o *c14Oracle) slice(start, limit []byte) []c14Pair {
	var out []c14Pair
	for _, p := range o.pairs {
		if o.inRange(p.k, start, limit) {
			out = append(out, p)
		}
	}
	return out
}

// cursor position of an iterator, by key (the table may change between two moves)
const (
	c14SOI = iota
	c14At
	c14EOI
)

type c14Iter struct {
	id           int
	it           iterator.Iterator
	start, limit []byte
	hasRange     bool
	pos          int
	key          []byte
	staleDel     bool // the node under the iterator was deleted: Next would follow a dead node's pointer
	staleReset   bool // the table was Reset: node index and key slice are meaningless
	moves        int
}

// move applies one call to the key-based cursor over the current pairs.
func (o *c14Oracle) move(x *c14Iter, m string, k []byte) *c14Pair {
	ps := o.slice(x.start, x.limit)
	set := func(i int, off int) *c14Pair {
		if i < 0 {
			x.pos, x.key = c14SOI, nil
			return nil
		}
		if i >= len(ps) {
			x.pos, x.key = off, nil
			return nil
		}
		x.pos, x.key = c14At, ps[i].k
		return &ps[i]
	}
	geq := func(k []byte) int {
		return sort.Search(len(ps), func(i int) bool { return o.cmp.Compare(ps[i].k, k) >= 0 })
	}
	gt := func(k []byte) int {
		return sort.Search(len(ps), func(i int) bool { return o.cmp.Compare(ps[i].k, k) > 0 })
	}
	switch m {
	case "first":
		return set(0, c14EOI)
	case "last":
		if len(ps) == 0 {
			return set(-1, c14SOI)
		}
		return set(len(ps)-1, c14EOI)
	case "seek":
		return set(geq(k), c14EOI)
	case "next":
		switch x.pos {
		case c14SOI:
			return set(0, c14EOI)
		case c14At:
			return set(gt(x.key), c14EOI)
		}
		return nil
	case "prev":
		switch x.pos {
		case c14EOI:
			if len(ps) == 0 {
				return set(-1, c14SOI)
			}
			return set(len(ps)-1, c14EOI)
		case c14At:
			return set(geq(x.key)-1, c14SOI)
		}
		return nil
	}
	panic("bad move")
}

// moveStale is the contract for Next/Prev on an iterator positioned before the last Reset (its generation is over,
// D31/D32): the iterator is exhausted in the direction of the move — Next leaves it at the end (a following Prev goes
// to the last pair), Prev leaves it at the start (a following Next goes to the first pair).
func (o *c14Oracle) moveStale(x *c14Iter, m string) *c14Pair {
	if m == "next" {
		x.pos, x.key = c14EOI, nil
	} else {
		x.pos, x.key = c14SOI, nil
	}
	return nil
}

type c14Case struct {
	Cmp      string   `json:"cmp"`
	Capacity int      `json:"capacity"`
	Lines    []string `json:"ops"` // the `mem …` lines up to the failing one
}

// c14Cmp returns the comparer for a driver id ("bytewise", "i:bytewise", …).
func c14Cmp(id string) comparer.BasicComparer {
	if strings.HasPrefix(id, "i:") {
		return leveldb.VerifIComparer(gen.Comparer(id[2:]))
	}
	return gen.Comparer(id)
}

var c14CmpIDs = []string{"bytewise", "i:bytewise", "lenfirst", "i:reverse", "reverse"}

func c14OptHex(b []byte) string {
	if b == nil {
		return "nil"
	}
	return gen.Hex(b)
}


// c14ArrState renders the private state of a memdb.DB the way `mem arr state` does (Driver/Mem.lean):
// counters, len and FNV-1a/64 of kvData, nodeData and prevNode.  Read-only use of reflect on unexported fields.
func c14ArrState(db *memdb.DB) string {
	v := reflect.ValueOf(db).Elem()
	fnv := func(f reflect.Value, byteElems bool) (int, uint64) {
		h := uint64(14695981039346656037)
		n := f.Len()
		for i := 0; i < n; i++ {
			var x uint64
			if byteElems {
				x = f.Index(i).Uint()
			} else {
				x = uint64(f.Index(i).Int())
			}
			h = (h ^ x) * 1099511628211
		}
		return n, h
	}
	kn, kh := fnv(v.FieldByName("kvData"), true)
	nn, nh := fnv(v.FieldByName("nodeData"), false)
	_, ph := fnv(v.FieldByName("prevNode"), false)
	return fmt.Sprintf("n=%d size=%d mh=%d gen=%d kv=%d:%016x nodes=%d:%016x prev=%016x",
		v.FieldByName("n").Int(), v.FieldByName("kvSize").Int(), v.FieldByName("maxHeight").Int(), v.FieldByName("gen").Int(), kn, kh, nn, nh, ph)
}

// c14IterNode returns dbIter.node of an iterator created by memdb.DB.NewIterator.
func c14IterNode(it iterator.Iterator) int {
	return int(reflect.ValueOf(it).Elem().FieldByName("node").Int())
}

// c14Diff runs one random op list.
func c14Diff(c *Ctx, r *rng.R, caseNo int) {
	id := c14CmpIDs[caseNo%len(c14CmpIDs)]
	cmp := c14Cmp(id)
	internal := strings.HasPrefix(id, "i:")
	capacity := r.Pick(0, 0, 64, 1024, 1<<16)
	cs := &c14Case{Cmp: id, Capacity: capacity}
	db := memdb.New(cmp, capacity)
	or := &c14Oracle{cmp: cmp}
	hs := newC14Heights()
	// every fourth case is a big table (tall towers: heights are drawn from a fixed-seed generator, so
	// they depend only on the number of new keys since New/Reset)
	big := caseNo%4 == 3
	nuniv := 4 + r.Intn(60)
	if big {
		nuniv = 200 + r.Intn(600)
	}
	univ := gen.Universe(r, nuniv, 1+r.Intn(6))
	if big {
		univ = gen.Universe(r, nuniv, 6+r.Intn(4))
	}
	var ikeys [][]byte
	if internal {
		for i := 0; i < nuniv; i++ {
			k := randIKey(r, univ)
			if r.Chance(2, 3) {
				k.seq = uint64(r.Intn(6))
			}
			ikeys = append(ikeys, k.enc())
		}
	}
	key := func() []byte {
		if internal {
			if r.Chance(5, 6) {
				return ikeys[r.Intn(len(ikeys))]
			}
			return randIKey(r, univ).enc()
		}
		if r.Chance(5, 6) {
			return gen.KeyFrom(r, univ)
		}
		return gen.Key(r, 7)
	}
	val := func() []byte { return gen.Value(r, 24) }
	var its []*c14Iter
	nextID := 0
	failed := false
	// arr sends a line to the array-level model only
	arr := func(op, expect string) {
		c.Lean("mem arr "+op, expect)
	}
	// say sends a `mem …` line to the ideal model and the same line to the array-level model
	say := func(op, expect string) {
		cs.Lines = append(cs.Lines, op+"  => "+expect)
		c.Lean(op, expect)
		arr(strings.TrimPrefix(op, "mem "), expect)
	}
	bad := func(sig, msg string) {
		failed = true
		c.Res.Violate("memdb."+sig, msg, cs)
	}
	say("mem new "+id, "ok")
	nops := 60 + r.Intn(c.Scale(500, 900))
	bulk := 0
	if big {
		bulk = 100 + r.Intn(500)
		nops += bulk
	}
	sampled := false
	for at := 0; at < nops && !failed; at++ {
		nonEmpty := len(or.pairs) > 0
		x := r.Intn(100)
		if at < bulk {
			x = 0
		} else if x == 70 && r.Chance(2, 3) {
			x = 99 // Reset is rare
		}
		var opName string
		var k []byte
		switch {
		case x < 30: // Put (new key or overwrite; overwrites change the value length)
			opName = "put"
			k = key()
			v := val()
			if _, present := or.idx(k); present && r.Chance(1, 2) {
				v = append(v, bytes.Repeat([]byte{'+'}, 1+r.Intn(9))...)
			}
			kk, vv := cp(k), cp(v)
			if err := db.Put(kk, vv); err != nil {
				bad("Put:error", err.Error())
			}
			poison(kk) // "It is safe to modify the contents of the arguments after Put returns."
			poison(vv)
			h := 0
			if or.put(k, v) {
				h = hs.draw()
				c.Res.Count("put", "new")
				c.Res.Count("height", strconv.Itoa(h))
			} else {
				c.Res.Count("put", "overwrite")
			}
			say(fmt.Sprintf("mem put %s %s %d", gen.Hex(k), gen.Hex(v), h), "ok")
		case x < 40: // Delete
			opName = "del"
			k = key()
			err := db.Delete(cp(k))
			want := or.del(k)
			exp := "ok"
			switch {
			case err == nil:
			case err == memdb.ErrNotFound:
				exp = "notfound"
			default:
				bad("Delete:error", err.Error())
			}
			if (err == nil) != want {
				bad("Delete:presence", fmt.Sprintf("Delete(%x) err=%v, sorted map had the key: %v", k, err, want))
			}
			c.Res.Count("del", exp)
			if want {
				for _, x := range its {
					if x.pos == c14At && !x.staleReset && cmp.Compare(x.key, k) == 0 {
						x.staleDel = true
					}
				}
			}
			say("mem del "+gen.Hex(k), exp)
		case x < 52: // Get
			opName = "get"
			k = key()
			v, err := db.Get(cp(k))
			i, present := or.idx(k)
			exp := "notfound"
			switch {
			case err == nil:
				exp = gen.Hex(v)
				if !present || !bytes.Equal(v, or.pairs[i].v) {
					bad("Get:value", fmt.Sprintf("Get(%x)=%x, sorted map: present=%v", k, v, present))
				}
			case err == memdb.ErrNotFound:
				if present {
					bad("Get:presence", fmt.Sprintf("Get(%x) not found, sorted map has it", k))
				}
			default:
				bad("Get:error", err.Error())
			}
			c.Res.Count("get", map[bool]string{true: "hit", false: "miss"}[present])
			say("mem get "+gen.Hex(k), exp)
		case x < 60: // Find
			opName = "find"
			k = key()
			rk, v, err := db.Find(cp(k))
			i, _ := or.idx(k)
			exp := "notfound"
			switch {
			case err == nil:
				exp = gen.Hex(rk) + " " + gen.Hex(v)
				if i >= len(or.pairs) || !bytes.Equal(rk, or.pairs[i].k) || !bytes.Equal(v, or.pairs[i].v) {
					bad("Find:pair", fmt.Sprintf("Find(%x)=%x,%x; sorted map position %d of %d", k, rk, v, i, len(or.pairs)))
				}
			case err == memdb.ErrNotFound:
				if i < len(or.pairs) {
					bad("Find:presence", fmt.Sprintf("Find(%x) not found, sorted map has a key ≥ it: %x", k, or.pairs[i].k))
				}
			default:
				bad("Find:error", err.Error())
			}
			c.Res.Count("find", map[bool]string{true: "hit", false: "end"}[i < len(or.pairs)])
			say("mem find "+gen.Hex(k), exp)
		case x < 65: // Contains
			opName = "has"
			k = key()
			h := db.Contains(cp(k))
			_, present := or.idx(k)
			if h != present {
				bad("Contains:presence", fmt.Sprintf("Contains(%x)=%v, sorted map %v", k, h, present))
			}
			say("mem has "+gen.Hex(k), strconv.FormatBool(h))
		case x < 70: // Len, Size, Free/Capacity
			opName = "len"
			n, sz, fr, ca := db.Len(), db.Size(), db.Free(), db.Capacity()
			if n != len(or.pairs) {
				bad("Len:count", fmt.Sprintf("Len()=%d, sorted map holds %d", n, len(or.pairs)))
			}
			if sz != or.size() {
				bad("Size:sum", fmt.Sprintf("Size()=%d, sum of key and value lengths is %d", sz, or.size()))
			}
			if ca-fr != or.used || fr < 0 || ca < capacity {
				bad("Free:buffer", fmt.Sprintf("Capacity()=%d Free()=%d, bytes appended since New/Reset: %d", ca, fr, or.used))
			}
			say("mem len", strconv.Itoa(n))
			say("mem size", strconv.Itoa(sz))
			say("mem used", strconv.Itoa(ca-fr))
			arr("state", c14ArrState(db))
		case x < 71: // Reset and reuse
			opName = "reset"
			db.Reset()
			or.pairs, or.used = nil, 0
			hs.reset()
			for _, x := range its {
				x.staleDel = false
				if x.pos == c14At {
					x.staleReset = true
				}
			}
			c.Res.Count("reset", "reset")
			say("mem reset", "ok")
			arr("state", c14ArrState(db))
		case x < 75 && len(its) < 4: // NewIterator
			opName = "newiter"
			x := &c14Iter{id: nextID}
			nextID++
			var rg *util.Range
			if r.Chance(2, 3) {
				x.hasRange = true
				if r.Chance(2, 3) {
					x.start = key()
				}
				if r.Chance(2, 3) {
					x.limit = key()
				}
				if x.start != nil && x.limit != nil && cmp.Compare(x.start, x.limit) > 0 && r.Chance(3, 4) {
					x.start, x.limit = x.limit, x.start
				}
				rg = &util.Range{Start: cp2(x.start), Limit: cp2(x.limit)}
			}
			x.it = db.NewIterator(rg)
			if x.it.Valid() || x.it.Key() != nil || x.it.Value() != nil {
				bad("NewIterator:valid", "a fresh iterator is valid")
			}
			its = append(its, x)
			c.Res.Count("iter", map[bool]string{true: "ranged", false: "nil-range"}[x.hasRange])
			say(fmt.Sprintf("mem iter %d new %s %s", x.id, c14OptHex(x.start), c14OptHex(x.limit)), "ok")
		case x < 77 && len(its) > 0: // Release
			opName = "release"
			i := r.Intn(len(its))
			x := its[i]
			x.it.Release()
			x.it.Release() // a second Release is harmless
			if x.it.Next() || x.it.Prev() || x.it.First() || x.it.Last() || x.it.Seek(key()) || x.it.Valid() || x.it.Key() != nil || x.it.Value() != nil {
				bad("Iterator:use-after-release", "a released iterator still moves or holds a pair")
			}
			if x.it.Error() != memdb.ErrIterReleased {
				bad("Iterator:released-error", fmt.Sprintf("Error() after a move on a released iterator: %v", x.it.Error()))
			}
			its = append(its[:i], its[i+1:]...)
			say(fmt.Sprintf("mem iter %d rel", x.id), "ok")
		default: // iterator movement
			if len(its) == 0 {
				at--
				continue
			}
			x := its[r.Intn(len(its))]
			var m string
			switch y := r.Intn(14); {
			case y < 1:
				m = "first"
			case y < 2:
				m = "last"
			case y < 4:
				m = "seek"
			case y < 10:
				m = "next"
			default:
				m = "prev"
			}
			// Next/Prev on an iterator positioned before a Reset: covered since the generation counter (D31)
			resetStale := x.staleReset && (m == "next" || m == "prev")
			if resetStale {
				c.Res.Count("reset-stale", m)
			}
			// Next from a deleted node follows the dead node's pointer: only the array-level model has dead nodes
			// (exercised by c14StaleEpilogue); in the shared stream the iterator is re-positioned
			if x.staleDel && m == "next" {
				m = [...]string{"first", "last", "seek", "prev"}[r.Intn(4)]
			}
			opName = "iter-" + m
			var ok bool
			line := fmt.Sprintf("mem iter %d %s", x.id, m)
			switch m {
			case "first":
				ok = x.it.First()
			case "last":
				ok = x.it.Last()
			case "seek":
				k = key()
				kk := cp(k)
				ok = x.it.Seek(kk)
				poison(kk)
				line += " " + gen.Hex(k)
			case "next":
				ok = x.it.Next()
			case "prev":
				ok = x.it.Prev()
			}
			x.staleDel, x.staleReset = false, false
			var want *c14Pair
			if resetStale {
				want = or.moveStale(x, m)
			} else {
				want = or.move(x, m, k)
			}
			exp := "false"
			if ok {
				exp = "true " + gen.Hex(x.it.Key()) + " " + gen.Hex(x.it.Value())
			}
			switch {
			case ok != x.it.Valid():
				bad("Iterator:valid", fmt.Sprintf("%s returned %v but Valid()=%v", m, ok, x.it.Valid()))
			case ok != (want != nil):
				bad("Iterator:position", fmt.Sprintf("iterator %d [%s,%s): %s returned %v, cursor over the sorted pairs says %v", x.id, c14OptHex(x.start), c14OptHex(x.limit), m, ok, want != nil))
			case ok && (!bytes.Equal(x.it.Key(), want.k) || !bytes.Equal(x.it.Value(), want.v)):
				bad("Iterator:pair", fmt.Sprintf("iterator %d [%s,%s): after %s at %x=%x, cursor over the sorted pairs says %x=%x", x.id, c14OptHex(x.start), c14OptHex(x.limit), m, x.it.Key(), x.it.Value(), want.k, want.v))
			case !ok && (x.it.Key() != nil || x.it.Value() != nil):
				bad("Iterator:stale-pair", "an invalid iterator still returns a key or value")
			case x.it.Error() != nil:
				bad("Iterator:error", x.it.Error().Error())
			}
			x.moves++
			c.Res.Count("move", m+map[bool]string{true: ":valid", false: ":invalid"}[ok])
			say(line, exp)
			arr(fmt.Sprintf("iter %d node", x.id), strconv.Itoa(c14IterNode(x.it)))
		}
		c.Res.Eval(fmt.Sprintf("%s/%s/%x/%d", id, opName, k, len(or.pairs)), nonEmpty)
		c.Res.Count("op", opName)
		if !sampled && at == 40 && caseNo < 3 {
			sampled = true
			n := len(cs.Lines)
			c.Res.Sample(map[string]interface{}{"cmp": id, "capacity": capacity, "len": len(or.pairs), "lines": append([]string(nil), cs.Lines[n-6:]...)})
		}
	}
	if !failed {
		arr("state", c14ArrState(db))
		c14StaleEpilogue(c, r, db, or, arr, key, val, hs)
	}
	for _, x := range its {
		x.it.Release()
	}
	c.Res.Count("comparer", id)
	c.Res.Count("final-len", c14Bucket(len(or.pairs)))
}


// c14StaleEpilogue runs, at the end of a case, the moves that only the array-level model can answer: an iterator
// is positioned on a node, the node is deleted (and sometimes keys are put around it), then Next/Prev are called.
// The Go code follows the dead node's level-0 pointer (Next) or searches with the dead node's key (Prev); the
// expected answers are whatever the Go table answers, the Lean array model must give the same and hold the same
// node index and the same arrays.  The sorted-slice oracle adds what must hold whatever the contract says: a pair
// yielded is a pair of the table at that moment, or the deleted pair's successor chain of the moment of deletion.
func c14StaleEpilogue(c *Ctx, r *rng.R, db *memdb.DB, or *c14Oracle, arr func(op, expect string), key, val func() []byte, hs *c14Heights) {
	if len(or.pairs) < 2 {
		return
	}
	const id = 9999
	it := db.NewIterator(nil)
	defer it.Release()
	arr(fmt.Sprintf("iter %d new nil nil", id), "ok")
	show := func(ok bool) string {
		if !ok {
			return "false"
		}
		return "true " + gen.Hex(it.Key()) + " " + gen.Hex(it.Value())
	}
	rounds := 1 + r.Intn(3)
	for n := 0; n < rounds && len(or.pairs) >= 2; n++ {
		k := or.pairs[r.Intn(len(or.pairs))].k
		ok := it.Seek(cp(k))
		arr(fmt.Sprintf("iter %d seek %s", id, gen.Hex(k)), show(ok))
		if !ok {
			return
		}
		cur := cp(it.Key())
		if err := db.Delete(cp(cur)); err != nil {
			c.Res.Violate("memdb.Delete:error", err.Error(), nil)
			return
		}
		or.del(cur)
		arr("del "+gen.Hex(cur), "ok")
		if i, _ := or.idx(cur); i < len(or.pairs) && r.Chance(1, 2) {
			// the successor dies too: Next from the dead node lands on another dead node and yields its (deleted) pair
			succ := cp(or.pairs[i].k)
			if err := db.Delete(cp(succ)); err != nil {
				c.Res.Violate("memdb.Delete:error", err.Error(), nil)
				return
			}
			or.del(succ)
			arr("del "+gen.Hex(succ), "ok")
			c.Res.Count("stale-move", "successor-deleted")
		}
		for m := r.Intn(3); m > 0; m-- { // keys put while the iterator sits on the dead node
			pk, pv := key(), val()
			if err := db.Put(cp(pk), cp(pv)); err != nil {
				c.Res.Violate("memdb.Put:error", err.Error(), nil)
				return
			}
			h := 0
			if or.put(pk, pv) {
				h = hs.draw()
			}
			arr(fmt.Sprintf("put %s %s %d", gen.Hex(pk), gen.Hex(pv), h), "ok")
		}
		steps := 1 + r.Intn(3)
		for m := 0; m < steps; m++ {
			mv := "next"
			if r.Chance(1, 3) {
				mv = "prev"
			}
			if mv == "next" {
				ok = it.Next()
			} else {
				ok = it.Prev()
			}
			c.Res.Count("stale-move", mv+map[bool]string{true: ":valid", false: ":invalid"}[ok])
			arr(fmt.Sprintf("iter %d %s", id, mv), show(ok))
			arr(fmt.Sprintf("iter %d node", id), strconv.Itoa(c14IterNode(it)))
		}
		arr("state", c14ArrState(db))
	}
}

func c14Bucket(n int) string {
	switch {
	case n == 0:
		return "0"
	case n < 8:
		return "1-7"
	case n < 32:
		return "8-31"
	case n < 128:
		return "32-127"
	case n < 512:
		return "128-511"
	}
	return "512+"
}

// ---- (b) concurrency -------------------------------------------------------------------------

// value layout: <key hex>#<version>#<padding>; the version counter of a key increases with every Put.
// value layout: <key hex>#<version>#<padding length>#<padding>$ — every byte is checked, so a value assembled from
// the offset of one version and the length of another is recognised.
func c14Val(k []byte, ver int, pad int) []byte {
	return []byte(fmt.Sprintf("%x#%d#%d#%s$", k, ver, pad, strings.Repeat("p", pad)))
}

func c14ParseVal(v []byte) (khex string, ver int, ok bool) {
	parts := strings.SplitN(string(v), "#", 4)
	if len(parts) != 4 {
		return "", 0, false
	}
	n, err := strconv.Atoi(parts[1])
	pl, err2 := strconv.Atoi(parts[2])
	if err != nil || err2 != nil || parts[3] != strings.Repeat("p", pl)+"$" {
		return parts[0], n, false
	}
	return parts[0], n, true
}

// c14YieldCmp yields the processor inside every few comparisons: memdb calls the comparer between reading a
// node's key and its value (range check in fill) and inside every search, so a movement that is not one
// critical section gets interleaved with the writer.
type c14YieldCmp struct {
	comparer.BasicComparer
	n *uint32
}

func (y c14YieldCmp) Compare(a, b []byte) int {
	if atomic.AddUint32(y.n, 1)%3 == 0 {
		runtime.Gosched()
	}
	return y.BasicComparer.Compare(a, b)
}

type c14Conc struct {
	Seed    uint64 `json:"seed"`
	Readers int    `json:"readers"`
	Keys    int    `json:"keys"`
	Puts    int    `json:"puts"`
	Cmp     string `json:"cmp"`
	Hot     bool   `json:"hot"`
	Deletes bool   `json:"deletes"`
	Resets  bool   `json:"resets"`
}

func c14Concurrent(c *Ctx, r *rng.R, round int) {
	nkeys := 50 + r.Intn(c.Scale(1500, 6000))
	nputs := nkeys * (2 + r.Intn(3))
	nread := 4 + r.Intn(13)
	cmpID := []string{"bytewise", "lenfirst"}[round%2]
	cmp := c14Cmp(cmpID)
	// every third round: a handful of keys overwritten all the time with values of very different lengths,
	// a comparer that yields, iterators with a limit (the comparer then runs inside every movement)
	hot := round%3 == 2
	maxPad := 12
	if hot {
		nkeys = 3 + r.Intn(14)
		nputs = c.Scale(30000, 120000)
		maxPad = 300
		cmp = c14YieldCmp{cmp, new(uint32)}
	}
	rp := &c14Conc{Seed: c.Seed, Readers: nread, Keys: nkeys, Puts: nputs, Cmp: cmpID, Hot: hot}
	db := memdb.New(cmp, r.Pick(0, 256, 1<<20))
	keys := make([][]byte, nkeys)
	index := map[string]int{}
	for i := range keys {
		for {
			k := append(gen.Key(r, 5), byte(r.Intn(256)), byte(r.Intn(256)))
			if _, dup := index[string(k)]; !dup {
				keys[i] = k
				index[string(k)] = i
				break
			}
		}
	}
	// started[i] = highest version whose Put has been issued; set BEFORE the call (a reader that sees the
	// pair must find it recorded).  order[:done] = keys whose first Put has returned.
	started := make([]int32, nkeys)
	order := make([]int32, 0, nkeys)
	var orderMu sync.Mutex
	var done int32
	var stop int32
	var viol int32
	// The writer also deletes (keys with i%4 != 0; the others are "stable": never deleted) and, rarely, resets.
	// resetSeq is a sequence lock around Reset: odd while a Reset is in progress, +2 per Reset.  A reader that sees
	// the same even value before and after a stretch of its own calls knows that no Reset overlapped it; a reader
	// that sees it grow by a whole Reset between two moves knows the iterator's generation is over.
	// verAtReset[i] = the last version of key i issued before the latest Reset: a pair yielded inside a generation
	// must have been put in that generation (C14.concurrent_readers: "put since the last Reset").
	deletes := round%2 == 1 || hot
	resets := round%4 >= 2
	rp.Deletes, rp.Resets = deletes, resets
	var resetSeq uint32
	verAtReset := make([]int32, nkeys)
	stable := func(i int) bool { return i%4 == 0 }
	var nDeletes, nResets, nExhausted, nDeadYield, nUnjudged int64
	live := make([]bool, nkeys)   // writer-owned; read after the writer has finished
	lastVer := make([]int, nkeys) // writer-owned
	violate := func(sig, msg string) {
		if atomic.AddInt32(&viol, 1) <= 3 {
			c.Res.Violate("memdb.concurrent:"+sig, msg, rp)
		}
		atomic.StoreInt32(&stop, 1)
	}
	guard := func(who string, f func()) {
		defer func() {
			if p := recover(); p != nil {
				buf := make([]byte, 1<<16)
				buf = buf[:runtime.Stack(buf, false)]
				violate("panic", fmt.Sprintf("%s panicked: %v\n%s", who, p, buf))
			}
		}()
		f()
	}
	// s1 = resetSeq read before the call that returned the pair (useGen: check "put since the last Reset")
	checkPair := func(who string, k, v []byte, seen map[int]int, s1 uint32, useGen bool) bool {
		// The slices alias the table's buffer, which Reset hands to the following Puts: a pair can only be judged when
		// no Reset overlapped the stretch from before the call that returned it to after our copy of it (the sequence
		// lock is even and unchanged).  A reader that holds a pair across a Reset is outside memdb's contract.
		k, v = append([]byte{}, k...), append([]byte{}, v...)
		if resets {
			if s2 := atomic.LoadUint32(&resetSeq); s1%2 != 0 || s2 != s1 {
				atomic.AddInt64(&nUnjudged, 1)
				return true
			}
		}
		i, known := index[string(k)]
		if !known {
			violate("unknown-key", fmt.Sprintf("%s: key %x was never stored", who, k))
			return false
		}
		kh, ver, ok := c14ParseVal(v)
		if !ok || kh != fmt.Sprintf("%x", k) || ver < 1 || ver > int(atomic.LoadInt32(&started[i])) {
			violate("unknown-pair", fmt.Sprintf("%s: pair %x=%q was never stored (versions issued for the key: %d)", who, k, v, atomic.LoadInt32(&started[i])))
			return false
		}
		if useGen {
			v0 := int(atomic.LoadInt32(&verAtReset[i]))
			if s2 := atomic.LoadUint32(&resetSeq); s1 == s2 && s1%2 == 0 && ver <= v0 {
				violate("pair-of-older-generation", fmt.Sprintf("%s: pair %x=%q (version %d) was put before the last Reset (last version before it: %d)", who, k, v, ver, v0))
				return false
			}
		}
		if seen != nil {
			if ver < seen[i] {
				violate("version-went-back", fmt.Sprintf("%s: key %x read at version %d after version %d", who, k, ver, seen[i]))
				return false
			}
			seen[i] = ver
		}
		return true
	}
	var wg sync.WaitGroup
	var nGets, nFinds, nScans, nYield, nBack int64
	wg.Add(1)
	go guard("writer", func() {
		defer wg.Done()
		wr := r.Fork()
		vers := make([]int, nkeys)
		inGen := make([]bool, nkeys) // the key has been put since the last Reset
		for n := 0; n < nputs && atomic.LoadInt32(&stop) == 0; n++ {
			i := wr.Intn(nkeys)
			switch {
			case resets && n > 0 && wr.Intn(nputs/3+1) == 0:
				orderMu.Lock()
				atomic.AddUint32(&resetSeq, 1)
				order = order[:0]
				atomic.StoreInt32(&done, 0)
				orderMu.Unlock()
				for j := range vers {
					atomic.StoreInt32(&verAtReset[j], int32(vers[j]))
				}
				db.Reset()
				atomic.AddUint32(&resetSeq, 1)
				for j := range inGen {
					inGen[j] = false
					live[j] = false
				}
				atomic.AddInt64(&nResets, 1)
				continue
			case deletes && !stable(i) && wr.Intn(5) == 0:
				err := db.Delete(keys[i])
				if (err == nil) != live[i] || (err != nil && err != memdb.ErrNotFound) {
					violate("delete-presence", fmt.Sprintf("Delete(%x) err=%v, the writer's own record says present=%v", keys[i], err, live[i]))
				}
				live[i] = false
				atomic.AddInt64(&nDeletes, 1)
				continue
			}
			vers[i]++
			atomic.StoreInt32(&started[i], int32(vers[i]))
			if err := db.Put(keys[i], c14Val(keys[i], vers[i], wr.Intn(maxPad))); err != nil {
				violate("put-error", err.Error())
			}
			live[i] = true
			lastVer[i] = vers[i]
			if !inGen[i] {
				inGen[i] = true
				if stable(i) {
					orderMu.Lock()
					order = append(order, int32(i))
					orderMu.Unlock()
					atomic.AddInt32(&done, 1)
				}
			}
			if n%64 == 0 {
				runtime.Gosched()
			}
		}
		atomic.StoreInt32(&stop, 2)
	})
	seeds := make([]*rng.R, nread)
	for j := range seeds {
		seeds[j] = r.Fork()
	}
	for j := 0; j < nread; j++ {
		wg.Add(1)
		j := j
		go guard(fmt.Sprintf("reader %d", j), func() {
			defer wg.Done()
			rr := seeds[j]
			who := fmt.Sprintf("reader %d", j)
			seen := map[int]int{}
			for round := 0; atomic.LoadInt32(&stop) != 1 && (atomic.LoadInt32(&stop) == 0 || round < 3); round++ {
				switch rr.Intn(6) {
				case 0, 1: // Get / Contains
					for n := 0; n < 50; n++ {
						i := rr.Intn(nkeys)
						s1 := atomic.LoadUint32(&resetSeq)
						before := atomic.LoadInt32(&done) // first Puts (of stable keys, in this generation) that had returned before the call
						v, err := db.Get(keys[i])
						atomic.AddInt64(&nGets, 1)
						if err == nil {
							checkPair(who+" Get", keys[i], v, seen, s1, true)
						} else if err != memdb.ErrNotFound {
							violate("get-error", err.Error())
						} else {
							orderMu.Lock()
							if atomic.LoadUint32(&resetSeq) == s1 && s1%2 == 0 { // no Reset since: order only grew
								for _, x := range order[:before] {
									if int(x) == i {
										violate("get-lost", fmt.Sprintf("%s: Get(%x) not found after its Put had returned (the key is never deleted, no Reset since)", who, keys[i]))
									}
								}
							}
							orderMu.Unlock()
						}
					}
				case 2: // Find
					for n := 0; n < 50; n++ {
						k := keys[rr.Intn(nkeys)]
						if rr.Chance(1, 2) {
							k = gen.Key(rr, 6)
						}
						s1 := atomic.LoadUint32(&resetSeq)
						rk, v, err := db.Find(k)
						atomic.AddInt64(&nFinds, 1)
						if err == nil {
							if cmp.Compare(rk, k) < 0 {
								violate("find-order", fmt.Sprintf("%s: Find(%x) returned the smaller key %x", who, k, rk))
							}
							checkPair(who+" Find", rk, v, nil, s1, true)
						} else if err != memdb.ErrNotFound {
							violate("find-error", err.Error())
						}
					}
				default: // iterator walk
					var rg *util.Range
					var start, limit []byte
					if hot {
						// a limit above every key: nothing is cut off, the range check still runs
						limit = bytes.Repeat([]byte{0xff}, 12)
						rg = &util.Range{Limit: limit}
					} else if rr.Chance(1, 2) {
						start, limit = keys[rr.Intn(nkeys)], keys[rr.Intn(nkeys)]
						if cmp.Compare(start, limit) > 0 {
							start, limit = limit, start
						}
						if rr.Chance(1, 3) {
							start = nil
						} else if rr.Chance(1, 3) {
							limit = nil
						}
						rg = &util.Range{Start: start, Limit: limit}
					}
					sScan := atomic.LoadUint32(&resetSeq)
					n0 := int(atomic.LoadInt32(&done))
					it := db.NewIterator(rg)
					got := map[int]bool{}
					var last []byte
					full := rr.Chance(2, 3)
					steps := 0
					// sA = resetSeq read after the previous successful move, sB = read before the next one: when both are
					// even and sB >= sA+2 a whole Reset lies between the two moves, the iterator's generation is over and the
					// move must find it exhausted (C14.concurrent_readers, D31/D32); otherwise Next is strictly increasing
					var sA uint32 = 1
					// waitReset: now and then a reader sits on a pair until the writer has reset the table
					waitReset := func() {
						if !resets || sA%2 != 0 || !rr.Chance(1, 40) {
							return
						}
						for spin := 0; spin < 20000 && atomic.LoadInt32(&stop) == 0; spin++ {
							if s := atomic.LoadUint32(&resetSeq); s%2 == 0 && s >= sA+2 {
								return
							}
							runtime.Gosched()
						}
					}
					for {
						if last != nil {
							waitReset()
						}
						sB := atomic.LoadUint32(&resetSeq)
						if !it.Next() {
							if last != nil && sA%2 == 0 && sB%2 == 0 && sB >= sA+2 {
								atomic.AddInt64(&nExhausted, 1)
							}
							break
						}
						k, v := it.Key(), it.Value()
						atomic.AddInt64(&nYield, 1)
						if last != nil && sA%2 == 0 && sB%2 == 0 && sB >= sA+2 {
							violate("next-after-reset", fmt.Sprintf("%s: the table was Reset after Next yielded %x, the following Next yielded %x instead of finding the iterator exhausted", who, last, k))
							break
						}
						if last != nil && cmp.Compare(last, k) >= 0 {
							violate("next-order", fmt.Sprintf("%s: Next yielded %x after %x", who, k, last))
							break
						}
						if (start != nil && cmp.Compare(k, start) < 0) || (limit != nil && cmp.Compare(k, limit) >= 0) {
							violate("out-of-range", fmt.Sprintf("%s: iterator over [%x,%x) yielded %x", who, start, limit, k))
							break
						}
						if !checkPair(who+" Next", k, v, nil, sB, true) {
							break
						}
						sA = atomic.LoadUint32(&resetSeq)
						got[index[string(k)]] = true
						last = cp(k)
						steps++
						if !full && steps > 20 && rr.Chance(1, 8) {
							break
						}
					}
					if full && atomic.LoadInt32(&stop) != 1 && sScan%2 == 0 {
						// every key that is never deleted and whose first Put (of this generation) had returned before the
						// iterator was created is yielded — unless a Reset overlapped the scan
						orderMu.Lock()
						var pre []int32
						if atomic.LoadUint32(&resetSeq) == sScan {
							pre = append(pre, order[:n0]...)
						}
						orderMu.Unlock()
						for _, i := range pre {
							k := keys[i]
							if (start == nil || cmp.Compare(k, start) >= 0) && (limit == nil || cmp.Compare(k, limit) < 0) && !got[int(i)] {
								violate("scan-missed-key", fmt.Sprintf("%s: full scan over [%x,%x) missed %x, stored before the scan began", who, start, limit, k))
								break
							}
						}
						atomic.AddInt64(&nScans, 1)
					} else if it.Valid() {
						// walk back from where we stopped: strictly decreasing
						prev := cp(it.Key())
						sA := atomic.LoadUint32(&resetSeq)
						for n := 0; n < 30; n++ {
							if resets && sA%2 == 0 && rr.Chance(1, 40) {
								for spin := 0; spin < 20000 && atomic.LoadInt32(&stop) == 0; spin++ {
									if s := atomic.LoadUint32(&resetSeq); s%2 == 0 && s >= sA+2 {
										break
									}
									runtime.Gosched()
								}
							}
							sB := atomic.LoadUint32(&resetSeq)
							wholeReset := sA%2 == 0 && sB%2 == 0 && sB >= sA+2
							if !it.Prev() {
								if wholeReset {
									atomic.AddInt64(&nExhausted, 1)
								}
								break
							}
							atomic.AddInt64(&nBack, 1)
							if wholeReset {
								violate("prev-after-reset", fmt.Sprintf("%s: the table was Reset after the iterator was at %x, the following Prev yielded %x instead of finding the iterator exhausted", who, prev, it.Key()))
								break
							}
							if cmp.Compare(it.Key(), prev) >= 0 {
								violate("prev-order", fmt.Sprintf("%s: Prev yielded %x after %x", who, it.Key(), prev))
								break
							}
							if k := it.Key(); (start != nil && cmp.Compare(k, start) < 0) || (limit != nil && cmp.Compare(k, limit) >= 0) {
								violate("out-of-range", fmt.Sprintf("%s: iterator over [%x,%x) yielded %x on Prev", who, start, limit, k))
								break
							}
							if !checkPair(who+" Prev", it.Key(), it.Value(), nil, sB, true) {
								break
							}
							sA = atomic.LoadUint32(&resetSeq)
							prev = cp(it.Key())
						}
					}
					if err := it.Error(); err != nil {
						violate("iter-error", err.Error())
					}
					it.Release()
				}
			}
		})
	}
	fin := make(chan struct{})
	go func() { wg.Wait(); close(fin) }()
	select {
	case <-fin:
	case <-time.After(120 * time.Second):
		buf := make([]byte, 1<<20)
		buf = buf[:runtime.Stack(buf, true)]
		c.Res.Violate("memdb.concurrent:hang", "writer and readers did not finish within 120 s; goroutine dump:\n"+blockedSummary(string(buf)), rp)
		c.Hung = true
		return
	}
	// afterwards the table holds exactly the keys whose last operation since the last Reset was a Put, at their last version
	if atomic.LoadInt32(&viol) == 0 {
		n := 0
		for i, k := range keys {
			v, err := db.Get(k)
			if !live[i] {
				if err != memdb.ErrNotFound {
					violate("final-extra", fmt.Sprintf("key %x deleted, reset away or never put, but present (%q, err=%v)", k, v, err))
				}
				continue
			}
			n++
			if _, ver, ok := c14ParseVal(v); err != nil || !ok || ver != lastVer[i] {
				violate("final-version", fmt.Sprintf("key %x: final value %q err=%v, last version put %d", k, v, err, lastVer[i]))
			}
		}
		if db.Len() != n {
			violate("final-len", fmt.Sprintf("Len()=%d, %d keys are live", db.Len(), n))
		}
	}
	c.Res.Eval(fmt.Sprintf("conc/%d/%d/%d/%d", c.Seed, round, nread, nkeys), atomic.LoadInt64(&nYield) > 0)
	c.Res.CountN("conc", "gets", int(nGets))
	c.Res.CountN("conc", "finds", int(nFinds))
	c.Res.CountN("conc", "full-scans", int(nScans))
	c.Res.CountN("conc", "next-yields", int(nYield))
	c.Res.CountN("conc", "prev-yields", int(nBack))
	c.Res.CountN("conc", "deletes", int(nDeletes))
	c.Res.CountN("conc", "resets", int(nResets))
	c.Res.CountN("conc", "pairs-not-judged-reset-overlapped", int(nUnjudged))
	c.Res.CountN("conc", "exhausted-after-reset", int(nExhausted))
	_ = nDeadYield
	c.Res.Count("conc-readers", strconv.Itoa(nread))
	if round == 0 {
		c.Res.Sample(map[string]interface{}{"concurrent": rp, "gets": nGets, "finds": nFinds, "full_scans": nScans, "pairs_yielded_by_next": nYield})
	}
}

func runC14(c *Ctx) {
	c.Res.Rule = "(a) random op lists on memdb.New(cmp, capacity) for bytewise/lenfirst/reverse user comparers and the internal-key comparer over them: Put (new keys and overwrites that change the value length; arguments poisoned afterwards), Delete of present/absent keys, Get/Find/Contains, Len/Size/Capacity-Free, Reset and reuse, up to 4 live iterators (nil range, half-open, inverted and empty ranges) moved at random BETWEEN the mutations; every answer is compared with a sorted-slice oracle kept in Go (key-based cursor for iterators) and, line by line, with the ideal Lean model and with the array-level Lean model GoLevel.MemArr (tower heights reproduced from memdb's fixed seed); the array-level model is also compared with the private arrays of the table (n, kvSize, maxHeight, len and FNV of kvData/nodeData/prevNode after every Len/Reset and at the end of the case; the node index of the iterator after every move), and at the end of every case it answers Next/Prev from a node that was just deleted (expected = what the Go iterator does). Next/Prev on an iterator that was positioned before a Reset are generated (generation counter, D31/D32): the contract is that the iterator is exhausted in the direction of the move (oracle: c14Oracle.moveStale). Next on an iterator whose current node was deleted follows the dead node's pointer: the ideal Lean model has no dead nodes, so in the shared stream that iterator is re-positioned first and the move is exercised at the end of every case against the array-level model only. One evaluation per op; non-trivial = the table was non-empty when the op ran; distinct by (comparer, op, key, table size). (b) one writer (Put of new keys and overwrites, values carry key and version; in half of the rounds also Delete of the keys that are not marked stable, in half of them also a rare Reset, bracketed by a sequence counter the readers can see) with 4-16 reader goroutines doing Get/Find and ranged iterator walks; the oracle is C14.concurrent_readers: no panic; every pair yielded was issued by the writer with that version (it may have been deleted since: iterators walk on through dead nodes) and, when no Reset overlapped the call, was put since the last Reset; every yielded key inside the range, on Next and on Prev; Next strictly increasing and Prev strictly decreasing as long as no Reset intervenes; when a whole Reset lies between two moves the second move finds the iterator exhausted; versions read by Get never go back; a key that is never deleted is found by Get once its Put has returned and is not missed by a full scan that began after it (no Reset in between); final contents exact (keys deleted or reset away are gone). One evaluation per run; non-trivial = iterators yielded pairs while the writer ran. The race detector is not available inside vh (no -race build of the harness): data races that do not corrupt an answer are not detected here. (c) 300 op lists under a lawful comparer that is not injective on bytes (ASCII case folded, leading zeros ignored: equal keys of different lengths): Put of an equal key replaces the pair; Get/Delete/iteration/Len/Size against a map keyed by the canonical form, after every operation (implementation-side oracle only: the Lean models assume equal => same bytes)."
	c14NonInjective(c, c.Scale(300, 5000))
	if len(c.Res.Violations) > 0 {
		return
	}
	ncases := c.Scale(4000, 24000)
	for i := 0; i < ncases && c.TimeLeft(); i++ {
		r := c.R.Fork()
		ci := i
		c.Guard("memdb.differential", map[string]interface{}{"case": i, "seed": c.Seed}, func() { c14Diff(c, r, ci) })
	}
	nconc := c.Scale(30, 300)
	for i := 0; i < nconc && c.TimeLeft() && !c.Hung; i++ {
		c14Concurrent(c, c.R.Fork(), i)
	}
	c.Res.Note("race detector not available inside vh; the concurrency oracle checks answers only")
}
