package checks

// C19 tie to the Lean model: for a sample of the recovered images the tables (as their still readable
// entries) and journals of the image *before* Recover touched it go to gldriver as `dur` image lines
// followed by `dur rebuild`; the expected answer is the digest of what the real Recover returned.

import (
	"fmt"
	"strings"
	"sync/atomic"

	"github.com/syndtr/goleveldb/leveldb"
	"github.com/syndtr/goleveldb/leveldb/opt"
	"github.com/syndtr/goleveldb/leveldb/storage"

	"verif/harness/gen"
	"verif/harness/stor"
)

// c19LeanLeft is the number of images still to be sent to the model (set by runC19).
var c19LeanLeft int64

// c19Lean is attached to a case that was picked for the model: the image before Recover and, for the
// tables with damaged blocks, the entries outside the damaged blocks (from the strict read before the damage).
type c19Lean struct {
	pristine *stor.Stor
	surv     map[int64][]leveldb.VerifEntry
}

func c19WantLean() bool { return atomic.AddInt64(&c19LeanLeft, -1) >= 0 }

// c19EmitRebuild writes the image lines and `dur rebuild`; outcome is what the real Recover produced.
func c19EmitRebuild(c *Ctx, l *c19Lean, o *opt.Options, cmpID string, outcome string) bool {
	fds := l.pristine.Files()
	var lines []string
	lines = append(lines, "dur reset "+cmpID)
	for _, fd := range fds {
		b, _ := l.pristine.FileBytes(fd)
		if len(b) > 400<<10 {
			return false
		}
		switch fd.Type {
		case storage.TypeJournal:
			lines = append(lines, fmt.Sprintf("dur file j %d %s", fd.Num, gen.Hex(b)))
		case storage.TypeTable:
			ents, ok := l.surv[fd.Num]
			if !ok {
				var err error
				ents, err = crReadTable(b, fd, o, true)
				if err != nil {
					lines = append(lines, fmt.Sprintf("dur tablebad %d", fd.Num))
					break
				}
			}
			var sb strings.Builder
			fmt.Fprintf(&sb, "dur table %d %d", fd.Num, len(ents))
			for _, e := range ents {
				sb.WriteByte(' ')
				sb.WriteString(gen.Hex(e.IKey))
				sb.WriteByte(' ')
				sb.WriteString(gen.Hex(e.Value))
			}
			if sb.Len() > 900<<10 {
				return false
			}
			lines = append(lines, sb.String())
		}
	}
	crLeanMu.Lock()
	for _, ln := range lines {
		c.Lean(ln, "ok")
	}
	c.Lean("dur rebuild", outcome)
	crLeanMu.Unlock()
	return true
}
