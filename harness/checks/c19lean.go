package checks

// C19 tie to the Lean model: for a sample of the recovered images the tables (as their still readable
// entries) and journals of the image *before* Recover touched it go to gldriver as `dur` image lines
// followed by `dur rebuild`; the expected answer is the digest of what the real Recover returned.

import (
	"bytes"
	"fmt"
	"runtime"
	"strings"
	"sync/atomic"

	"github.com/syndtr/goleveldb/leveldb"
	"github.com/syndtr/goleveldb/leveldb/opt"
	"github.com/syndtr/goleveldb/leveldb/storage"

	"verif/harness/gen"
	"verif/harness/stor"
)

// c19LeanLeft is the number of images still to be sent to the model (set by runC19).
var c19LeanLeft int64

// c19Lean is attached to a case that was picked for the model: the image before Recover and, for the
// tables with damaged blocks, the entries outside the damaged blocks (from the strict read before the damage).
type c19Lean struct {
	pristine *stor.Stor
	surv     map[int64][]leveldb.VerifEntry
	// the operations model (Model/RecoverOps.lean): the mutating storage operations made from inside
	// recoverTable, consecutive writes to one file counted once, and crash images taken between them
	ops     []string
	crashes []*c19LeanCrash
	// the same for openDB (recoverJournal), up to the janitor (whose removal order follows Storage.List)
	ops3      []string
	irregular bool // a journal larger than the write buffer was flushed in pieces: not in the model
}

// c19LeanCrash is the storage after k operations of recoverTable, as a process exit ("kept": everything written
// stays) or a machine crash ("lost": the unsynced bytes of the files Recover itself wrote are gone) leaves it.
type c19LeanCrash struct {
	k    int
	how  string
	img  *stor.Stor
	open string // what Open made of it: ok:<n>:<crc> | err
	again string // contents after a second Recover: <n>:<crc>
}

// c19MaxCrashPoints bounds the crash points taken per case (each costs an Open and a Recover, twice).
const c19MaxCrashPoints = 7

func c19FdTok(fd storage.FileDesc) string {
	switch fd.Type {
	case storage.TypeManifest:
		return fmt.Sprintf("m%d", fd.Num)
	case storage.TypeJournal:
		return fmt.Sprintf("j%d", fd.Num)
	case storage.TypeTable:
		return fmt.Sprintf("b%d", fd.Num)
	case storage.TypeTemp:
		return fmt.Sprintf("t%d", fd.Num)
	}
	return fmt.Sprintf("?%d", fd.Num)
}

// hook returns the Before hook that records recoverTable's operations and takes the crash images; every is
// the distance between crash points.
func (l *c19Lean) hook(every int) func(s *stor.Stor, op stor.Op) {
	type fst struct{ n, synced int }
	mine := map[storage.FileDesc]*fst{} // files created by this Recover
	var lastWrite storage.FileDesc
	lastWasWrite, done := false, false
	snap := func(s *stor.Stor) {
		k := len(l.ops) + len(l.ops3)
		if k%every != 0 || len(l.crashes) >= 2*c19MaxCrashPoints {
			return
		}
		kept := s.ImageLocked(nil)
		lost := kept.Clone()
		for fd, f := range mine {
			if f.synced < f.n {
				if b, ok := lost.FileBytes(fd); ok && len(b) >= f.synced {
					lost.PutFile(fd, b[:f.synced])
				}
			}
		}
		l.crashes = append(l.crashes, &c19LeanCrash{k: k, how: "kept", img: kept}, &c19LeanCrash{k: k, how: "lost", img: lost})
	}
	final := func(s *stor.Stor) { // the last crash point is always taken
		k := len(l.ops) + len(l.ops3)
		if n := len(l.crashes); n > 0 && l.crashes[n-1].k == k {
			return
		}
		l.crashes = append(l.crashes, &c19LeanCrash{k: k, how: "kept", img: s.ImageLocked(nil)})
	}
	phase3, tablesSinceCommit := false, 0
	return func(s *stor.Stor, op stor.Op) {
		if done || !op.Kind.Mutating() {
			return
		}
		in := inRecoverTable()
		if !in && !phase3 {
			if len(l.ops) == 0 || !inOpenDB() {
				return
			}
			phase3 = true
		}
		if phase3 && (!inOpenDB() || (op.Kind == stor.OpRemove && op.Fd.Type != storage.TypeJournal)) {
			final(s) // the janitor starts (or openDB has returned)
			done = true
			return
		}
		if op.Kind == stor.OpWrite && lastWasWrite && lastWrite == op.Fd {
			if f := mine[op.Fd]; f != nil {
				f.n += op.N
			}
			return
		}
		if !l.irregular {
			snap(s)
		}
		lastWasWrite = false
		tok := ""
		switch op.Kind {
		case stor.OpCreate:
			mine[op.Fd] = &fst{}
			tok = "c:" + c19FdTok(op.Fd)
			if phase3 && op.Fd.Type == storage.TypeTable {
				if tablesSinceCommit++; tablesSinceCommit > 1 {
					l.irregular = true
				}
			}
		case stor.OpWrite:
			if f := mine[op.Fd]; f != nil {
				f.n += op.N
			}
			lastWasWrite, lastWrite = true, op.Fd
			tok = "w:" + c19FdTok(op.Fd)
			if op.Fd.Type == storage.TypeManifest {
				tablesSinceCommit = 0
			}
		case stor.OpSync:
			if f := mine[op.Fd]; f != nil {
				f.synced = f.n
			}
			tok = "s:" + c19FdTok(op.Fd)
		case stor.OpRename:
			to := s.RenameToLocked()
			if f := mine[op.Fd]; f != nil {
				mine[to] = f
				delete(mine, op.Fd)
			}
			tok = fmt.Sprintf("r:%d>%d", op.Fd.Num, to.Num)
		case stor.OpRemove:
			delete(mine, op.Fd)
			tok = "d:" + c19FdTok(op.Fd)
		case stor.OpSetMeta:
			tok = fmt.Sprintf("meta:%d", op.Fd.Num)
		}
		if phase3 {
			l.ops3 = append(l.ops3, tok)
		} else {
			l.ops = append(l.ops, tok)
		}
	}
}

// inOpenDB: the calling goroutine is inside leveldb's openDB.
func inOpenDB() bool {
	buf := make([]byte, 16<<10)
	buf = buf[:runtime.Stack(buf, false)]
	return bytes.Contains(buf, []byte("leveldb.openDB("))
}

// evalCrashes runs, for every crash image, what a user does next: Open (on a copy), and Recover.
func (l *c19Lean) evalCrashes(o *opt.Options) {
	dig := func(db *leveldb.DB) (string, bool) {
		got, err := crDumpDB(db)
		if err != nil {
			return "scan-error", false
		}
		return strings.Replace(crDigest(got), " ", ":", 1), true
	}
	for _, cr := range l.crashes {
		var db *leveldb.DB
		err, hung := crCall(crWdTimeout, func() (err error) { db, err = leveldb.Open(cr.img.Clone(), o); return })
		switch {
		case hung:
			cr.open = "hang"
		case err != nil:
			cr.open = "err"
		default:
			dg, _ := dig(db)
			cr.open = "ok:" + dg
			crCall(crWdTimeout, db.Close)
		}
		err, hung = crCall(crWdTimeout, func() (err error) { db, err = leveldb.Recover(cr.img, o); return })
		switch {
		case hung:
			cr.again = "hang"
		case err != nil:
			cr.again = "err"
		default:
			cr.again, _ = dig(db)
			crCall(crWdTimeout, db.Close)
		}
	}
}

func c19WantLean() bool { return atomic.AddInt64(&c19LeanLeft, -1) >= 0 }

// c19EmitRebuild writes the image lines and `dur rebuild`; outcome is what the real Recover produced.
func c19EmitRebuild(c *Ctx, l *c19Lean, o *opt.Options, cmpID string, outcome string) bool {
	fds := l.pristine.Files()
	var lines []string
	lines = append(lines, "dur reset "+cmpID)
	for _, fd := range fds {
		b, _ := l.pristine.FileBytes(fd)
		if len(b) > 400<<10 {
			return false
		}
		switch fd.Type {
		case storage.TypeManifest:
			if l.ops != nil {
				lines = append(lines, fmt.Sprintf("dur file m %d %s", fd.Num, gen.Hex(b)))
			}
		case storage.TypeJournal:
			lines = append(lines, fmt.Sprintf("dur file j %d %s", fd.Num, gen.Hex(b)))
		case storage.TypeTable:
			ents, ok := l.surv[fd.Num]
			if ok && l.ops != nil {
				lines = append(lines, fmt.Sprintf("dur dmg %d", fd.Num))
			}
			if !ok {
				var err error
				ents, err = crReadTable(b, fd, o, true)
				if err != nil {
					lines = append(lines, fmt.Sprintf("dur tablebad %d", fd.Num))
					break
				}
			}
			var sb strings.Builder
			fmt.Fprintf(&sb, "dur table %d %d", fd.Num, len(ents))
			for _, e := range ents {
				sb.WriteByte(' ')
				sb.WriteString(gen.Hex(e.IKey))
				sb.WriteByte(' ')
				sb.WriteString(gen.Hex(e.Value))
			}
			if sb.Len() > 900<<10 {
				return false
			}
			lines = append(lines, sb.String())
		}
	}
	crLeanMu.Lock()
	for _, ln := range lines {
		c.Lean(ln, "ok")
	}
	c.Lean("dur rebuild", outcome)
	if l.ops != nil {
		// the operations model: the same image, CURRENT included; the operation sequence of recoverTable; the
		// crash images
		if m, ok := l.pristine.Meta(); ok {
			c.Lean(fmt.Sprintf("dur current %d", m.Num), "ok")
		}
		c.Lean("dur rops", strings.Join(append([]string{"ok"}, l.ops...), " "))
		if !l.irregular {
			c.Lean("dur rops3", strings.Join(append([]string{"ok"}, l.ops3...), " "))
		}
		for _, cr := range l.crashes {
			if l.irregular && cr.k > len(l.ops) {
				continue
			}
			c.Lean(fmt.Sprintf("dur rcrash %d %s", cr.k, cr.how), fmt.Sprintf("ok O:%s A:%s", cr.open, cr.again))
		}
	}
	crLeanMu.Unlock()
	return true
}
