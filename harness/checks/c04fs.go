package checks

// C04, the storage contract behind the durable model: fileStorage.SetMeta / GetMeta against Model/FSMeta.lean.
//
// Directory states (CURRENT, CURRENT.bak, CURRENT.<n> with valid / non-canonical / junk / empty / cut contents, target
// files present or missing) are built in a real temporary directory; the real storage.OpenFile(dir, ro) answers
// GetMeta / SetMeta; the model answers the same `fsm …` line (answer, error class, and the directory afterwards).
// Crash points: the hook storage.VerifStep (build tag verif) fires before every system call of setMeta /
// writeFileSynced and before the removal of a pending file in GetMeta; there the harness lists the directory (process
// death) or panics (the call fails / the process dies inside GetMeta's repair); the machine-crash images of such a
// state are the ones the MODEL allows (`fsm imgs`, asked from the compiled driver), built for real and answered by the
// real GetMeta.

import (
	"bufio"
	"bytes"
	"fmt"
	"os"
	"os/exec"
	"path/filepath"
	"sort"
	"strconv"
	"strings"

	lerrors "github.com/syndtr/goleveldb/leveldb/errors"
	"github.com/syndtr/goleveldb/leveldb/storage"

	"verif/harness/rng"
)

// ---- abstract contents (the tokens of Driver/FSMeta.lean) ------------------------------------------------------

var fsmTypeLetter = map[storage.FileType]string{storage.TypeManifest: "m", storage.TypeJournal: "j", storage.TypeTable: "t", storage.TypeTemp: "x"}

func fsmFD(fd storage.FileDesc) string { return fsmTypeLetter[fd.Type] + strconv.FormatInt(fd.Num, 10) }

func fsmParseFD(s string) (storage.FileDesc, bool) {
	if len(s) < 2 {
		return storage.FileDesc{}, false
	}
	n, err := strconv.ParseInt(s[1:], 10, 64)
	if err != nil {
		return storage.FileDesc{}, false
	}
	for t, l := range fsmTypeLetter {
		if l == s[:1] {
			return storage.FileDesc{Type: t, Num: n}, true
		}
	}
	return storage.FileDesc{}, false
}

// the name the file storage gives a descriptor (fsGenName is not exported)
func fsmGenName(fd storage.FileDesc) string {
	switch fd.Type {
	case storage.TypeManifest:
		return fmt.Sprintf("MANIFEST-%06d", fd.Num)
	case storage.TypeJournal:
		return fmt.Sprintf("%06d.log", fd.Num)
	case storage.TypeTable:
		return fmt.Sprintf("%06d.ldb", fd.Num)
	}
	return fmt.Sprintf("%06d.tmp", fd.Num)
}

// junk: non-empty, does not parse, a newline at most as the last byte, at least 7 bytes, no string a prefix of another
var fsmJunk = []string{"garbage", "MANIFEST-\n", "MANIFEST-00000x7\n", "000005.xyz\n", "CURRENT\n", "MANIFEST-000005 x\n",
	"manifest-000005\n", "MANIFEST+000005\n", "\x00\x00\x00\x00\x00\x00\x00\x00", "MANIFEST-000004", "0000005log\n"}

// fsmRender: the bytes of an abstract content token; ok = false for a token this harness cannot render
func fsmRender(tok string) ([]byte, bool) {
	if tok == "e" {
		return []byte{}, true
	}
	if len(tok) < 2 {
		return nil, false
	}
	switch tok[0] {
	case 'c':
		b, ok := fsmRender(tok[1:])
		if !ok {
			return nil, false
		}
		if len(b) <= 1 {
			return []byte{}, true
		}
		return b[:len(b)-1], true
	case 'p':
		fd, ok := fsmParseFD(tok[1:])
		return []byte(fsmGenName(fd) + "\n"), ok
	case 'q':
		fd, ok := fsmParseFD(tok[1:])
		if !ok {
			return nil, false
		}
		switch fd.Type {
		case storage.TypeManifest:
			if fd.Num < 100000 {
				return []byte(fmt.Sprintf("MANIFEST-%d\n", fd.Num)), true
			}
			return []byte(fmt.Sprintf("MANIFEST-0%d\n", fd.Num)), true
		case storage.TypeJournal:
			return []byte(fmt.Sprintf("%d.log\n", fd.Num)), fd.Num < 100000
		case storage.TypeTable:
			return []byte(fmt.Sprintf("%06d.sst\n", fd.Num)), true
		}
		return []byte(fmt.Sprintf("%d.tmp\n", fd.Num)), fd.Num < 100000
	case 'j':
		n, err := strconv.Atoi(tok[1:])
		if err != nil || n < 0 || n >= len(fsmJunk) {
			return nil, false
		}
		return []byte(fsmJunk[n]), true
	}
	return nil, false
}

// a directory state: name ("C", "B", "P<n>") -> content token; files = the other files that exist
type fsmState struct {
	Ents  map[string]string
	Files []storage.FileDesc
}

func fsmNameKey(n string) (int, int64) {
	switch n[0] {
	case 'C':
		return 0, 0
	case 'B':
		return 1, 0
	}
	v, _ := strconv.ParseInt(n[1:], 10, 64)
	return 2, v
}

func fsmSortedNames(m map[string]string) []string {
	var ns []string
	for n := range m {
		ns = append(ns, n)
	}
	sort.Slice(ns, func(i, j int) bool {
		a, x := fsmNameKey(ns[i])
		b, y := fsmNameKey(ns[j])
		return a < b || (a == b && x < y)
	})
	return ns
}

// listing: "C=… B=… P5=…" (ascending), "-" when empty
func fsmListing(m map[string]string) string {
	var parts []string
	for _, n := range fsmSortedNames(m) {
		parts = append(parts, n+"="+m[n])
	}
	if len(parts) == 0 {
		return "-"
	}
	return strings.Join(parts, " ")
}

// the `<S> |` argument of a protocol line
func (s *fsmState) arg() string {
	var parts []string
	for _, n := range fsmSortedNames(s.Ents) {
		parts = append(parts, n+"="+s.Ents[n])
	}
	for _, fd := range s.Files {
		parts = append(parts, "F="+fsmFD(fd))
	}
	parts = append(parts, "|")
	return strings.Join(parts, " ")
}

func fsmParseListing(l string) (map[string]string, bool) {
	m := map[string]string{}
	l = strings.TrimSpace(l)
	if l == "-" || l == "" {
		return m, true
	}
	for _, t := range strings.Fields(l) {
		kv := strings.SplitN(t, "=", 2)
		if len(kv) != 2 {
			return nil, false
		}
		m[kv[0]] = kv[1]
	}
	return m, true
}

func fsmFileName(n string) string {
	switch n[0] {
	case 'C':
		return "CURRENT"
	case 'B':
		return "CURRENT.bak"
	}
	return "CURRENT." + n[1:]
}

// dict: rendered bytes -> token, for every content of the state and the canonical pointers to the descriptors in `fds`
// (the implementation only copies contents and writes canonical pointers); ok = false when two different tokens render
// to the same bytes
func (s *fsmState) dict(fds []storage.FileDesc) (map[string]string, bool) {
	d := map[string]string{}
	ok := true
	add := func(tok string) {
		b, rok := fsmRender(tok)
		if !rok {
			ok = false
			return
		}
		if old, seen := d[string(b)]; seen && old != tok {
			if len(b) != 0 { // every empty rendering reads back as "e"
				ok = false
			}
		} else if !seen {
			d[string(b)] = tok
		}
	}
	d[""] = "e"
	for _, n := range fsmSortedNames(s.Ents) {
		add(s.Ents[n])
	}
	for _, fd := range fds {
		add("p" + fsmFD(fd))
	}
	return d, ok
}

// build the state in a fresh temporary directory
func (s *fsmState) build() (string, error) {
	dir, err := os.MkdirTemp("", "verif-fsm-")
	if err != nil {
		return "", err
	}
	for n, tok := range s.Ents {
		b, ok := fsmRender(tok)
		if !ok {
			os.RemoveAll(dir)
			return "", fmt.Errorf("cannot render %q", tok)
		}
		if err := os.WriteFile(filepath.Join(dir, fsmFileName(n)), b, 0644); err != nil {
			os.RemoveAll(dir)
			return "", err
		}
	}
	for _, fd := range s.Files {
		if err := os.WriteFile(filepath.Join(dir, fsmGenName(fd)), []byte("x"), 0644); err != nil {
			os.RemoveAll(dir)
			return "", err
		}
	}
	return dir, nil
}

// the CURRENT* files of a real directory as a listing
func fsmReadDir(dir string, dict map[string]string) string {
	des, err := os.ReadDir(dir)
	if err != nil {
		return "readdir:" + err.Error()
	}
	m := map[string]string{}
	for _, de := range des {
		name := de.Name()
		var key string
		switch {
		case name == "CURRENT":
			key = "C"
		case name == "CURRENT.bak":
			key = "B"
		case strings.HasPrefix(name, "CURRENT."):
			if _, err := strconv.ParseUint(name[8:], 10, 63); err != nil || (len(name) > 9 && name[8] == '0') {
				key = "?" + name
			} else {
				key = "P" + name[8:]
			}
		default:
			continue
		}
		b, err := os.ReadFile(filepath.Join(dir, name))
		if err != nil {
			m[key] = "unreadable"
			continue
		}
		if tok, ok := dict[string(b)]; ok {
			m[key] = tok
		} else {
			m[key] = fmt.Sprintf("?%x", b)
		}
	}
	return fsmListing(m)
}

func fsmAns(fd storage.FileDesc, err error) string {
	switch {
	case err == nil:
		return "ok:" + fsmFD(fd)
	case os.IsNotExist(err):
		return "err:notexist"
	case lerrors.IsCorrupted(err):
		return "err:corrupted"
	}
	return "err:other:" + strings.ReplaceAll(err.Error(), " ", "_")
}

// ---- generation --------------------------------------------------------------------------------------------

func fsmGenFD(r *rng.R) storage.FileDesc {
	t := storage.TypeManifest
	if r.Chance(1, 8) {
		t = []storage.FileType{storage.TypeJournal, storage.TypeTable, storage.TypeTemp}[r.Intn(3)]
	}
	return storage.FileDesc{Type: t, Num: int64(3 + r.Intn(7))}
}

func fsmGenContent(r *rng.R, have []storage.FileDesc) string {
	fsmGenFD := func(r *rng.R) storage.FileDesc {
		if len(have) > 0 && r.Chance(3, 4) {
			return have[r.Intn(len(have))]
		}
		return fsmGenFD(r)
	}
	switch x := r.Intn(20); {
	case x < 10:
		return "p" + fsmFD(fsmGenFD(r))
	case x < 12:
		return "q" + fsmFD(fsmGenFD(r))
	case x < 15:
		return "j" + strconv.Itoa(r.Intn(len(fsmJunk)))
	case x < 17:
		return "e"
	case x < 19:
		return "cp" + fsmFD(fsmGenFD(r))
	}
	return "cq" + fsmFD(fsmGenFD(r))
}

// a random directory; clean = CURRENT valid canonical with its target, no pending files (the theorems' start states)
func fsmGenState(r *rng.R, clean bool) *fsmState {
	for {
		s := &fsmState{Ents: map[string]string{}}
		have := map[storage.FileDesc]bool{}
		for n := int64(3); n < 10; n++ {
			if r.Chance(3, 5) {
				fd := storage.FileDesc{Type: storage.TypeManifest, Num: n}
				have[fd] = true
			}
		}
		for i := r.Intn(3); i > 0; i-- {
			have[fsmGenFD(r)] = true
		}
		for fd := range have {
			s.Files = append(s.Files, fd)
		}
		sort.Slice(s.Files, func(i, j int) bool {
			return s.Files[i].Type < s.Files[j].Type || (s.Files[i].Type == s.Files[j].Type && s.Files[i].Num < s.Files[j].Num)
		})
		if clean {
			var ms []storage.FileDesc
			for _, fd := range s.Files {
				if fd.Type == storage.TypeManifest {
					ms = append(ms, fd)
				}
			}
			if len(ms) < 2 {
				continue
			}
			a := ms[r.Intn(len(ms))]
			s.Ents["C"] = "p" + fsmFD(a)
			if r.Chance(1, 6) {
				s.Ents["C"] = "q" + fsmFD(a)
			}
			if r.Chance(1, 2) {
				s.Ents["B"] = fsmGenContent(r, s.Files)
			}
		} else {
			if !r.Chance(1, 8) {
				s.Ents["C"] = fsmGenContent(r, s.Files)
			}
			if r.Chance(1, 2) {
				s.Ents["B"] = fsmGenContent(r, s.Files)
			}
			for i := r.Pick(0, 0, 1, 1, 1, 2, 2, 3); i > 0; i-- {
				s.Ents["P"+strconv.Itoa(3+r.Intn(7))] = fsmGenContent(r, s.Files)
			}
		}
		if _, ok := s.dict(s.allFDs()); ok {
			return s
		}
	}
}

// every descriptor a content of the state points to, plus the files
func (s *fsmState) allFDs() []storage.FileDesc {
	seen := map[storage.FileDesc]bool{}
	var out []storage.FileDesc
	add := func(fd storage.FileDesc) {
		if !seen[fd] {
			seen[fd] = true
			out = append(out, fd)
		}
	}
	for _, n := range fsmSortedNames(s.Ents) {
		tok := strings.TrimLeft(s.Ents[n], "c")
		if len(tok) > 1 && (tok[0] == 'p' || tok[0] == 'q') {
			if fd, ok := fsmParseFD(tok[1:]); ok {
				add(fd)
			}
		}
	}
	for _, fd := range s.Files {
		add(fd)
	}
	return out
}

func (s *fsmState) class() string {
	c := "C:" + fsmClass(s.Ents["C"]) + " B:" + fsmClass(s.Ents["B"])
	np := 0
	for n := range s.Ents {
		if n[0] == 'P' {
			np++
		}
	}
	return c + " pend:" + strconv.Itoa(np)
}

func fsmClass(tok string) string {
	switch {
	case tok == "":
		return "absent"
	case tok == "e":
		return "empty"
	case tok[0] == 'c':
		return "cut"
	case tok[0] == 'p':
		return "ptr"
	case tok[0] == 'q':
		return "noncanon"
	}
	return "junk"
}

// ---- the real side -----------------------------------------------------------------------------------------

type fsmPanic struct{ k int }

// withHook runs f with storage.VerifStep set: calls about `dir` are counted; at call number stopAt (>= 0) the hook
// panics (recovered here: died = true); at(k, op) is called before every call.
func fsmWithHook(dir string, stopAt int, at func(k int, op string), f func()) (labels []string, died bool) {
	k := 0
	storage.VerifStep = func(op, path string) {
		if !strings.HasPrefix(path, dir) {
			return
		}
		if at != nil {
			at(k, op)
		}
		if k == stopAt {
			panic(fsmPanic{k})
		}
		labels = append(labels, op)
		k++
	}
	defer func() {
		storage.VerifStep = nil
		if p := recover(); p != nil {
			if _, ok := p.(fsmPanic); !ok {
				panic(p)
			}
			died = true
		}
	}()
	f()
	return
}

func fsmLabels(l []string) string {
	if len(l) == 0 {
		return "-"
	}
	return strings.Join(l, ",")
}

type fsmRun struct {
	c      *Ctx
	driver string
	// machine-crash image queries for the driver (`fsm imgs …` / `fsm gimgs …`) with the files of their state
	queries []string
	qfiles  [][]storage.FileDesc
}

// (i) GetMeta on a random directory
func (fr *fsmRun) caseGet(r *rng.R, s *fsmState, ro bool, kind string) {
	c := fr.c
	dict, _ := s.dict(s.allFDs())
	dir, err := s.build()
	if err != nil {
		c.Res.Violate("fsm:setup", err.Error(), s)
		return
	}
	defer os.RemoveAll(dir)
	st, err := storage.OpenFile(dir, ro)
	if err != nil {
		c.Res.Violate("fsm:open", err.Error(), s)
		return
	}
	fd, gerr := st.GetMeta()
	st.Close()
	roTok := "0"
	if ro {
		roTok = "1"
	}
	ans := fsmAns(fd, gerr)
	c.Lean("fsm get "+roTok+" "+s.arg(), ans+" | "+fsmReadDir(dir, dict))
	c.Res.Eval("fsm-get/"+s.arg()+roTok, len(s.Ents) > 1)
	c.Res.Count("fsm.get."+kind, strings.SplitN(ans, ":", 2)[0]+":"+map[bool]string{true: "ro", false: "rw"}[ro])
	c.Res.Count("fsm.state", s.class())
}

// (ii) SetMeta on a random directory, then GetMeta; (iii) its crash points and failing steps
func (fr *fsmRun) caseSet(r *rng.R, s *fsmState, target storage.FileDesc, crashes bool) {
	c := fr.c
	fds := append(s.allFDs(), target)
	dict, ok := s.dict(fds)
	if !ok {
		return
	}
	run := func(body func(dir string, st storage.Storage)) {
		dir, err := s.build()
		if err != nil {
			c.Res.Violate("fsm:setup", err.Error(), s)
			return
		}
		defer os.RemoveAll(dir)
		st, err := storage.OpenFile(dir, false)
		if err != nil {
			c.Res.Violate("fsm:open", err.Error(), s)
			return
		}
		defer st.Close()
		body(dir, st)
	}
	nsteps := 0
	// the complete run, the directory listed before every system call
	var atLines, atExpect []string
	run(func(dir string, st storage.Storage) {
		var serr error
		labels, _ := fsmWithHook(dir, -1, func(k int, op string) {
			if crashes {
				atLines = append(atLines, fmt.Sprintf("fsm at %s %d %s", fsmFD(target), k, s.arg()))
				atExpect = append(atExpect, fsmReadDir(dir, dict))
			}
		}, func() { serr = st.SetMeta(target) })
		nsteps = len(labels)
		after := fsmReadDir(dir, dict)
		fd, gerr := st.GetMeta()
		res := "ok"
		if serr != nil {
			res = "err"
		}
		c.Lean("fsm set "+fsmFD(target)+" "+s.arg(), res+" "+fsmLabels(labels)+" | "+after+" | "+fsmAns(fd, gerr)+" | "+fsmReadDir(dir, dict))
		c.Res.Eval("fsm-set/"+s.arg()+fsmFD(target), true)
		c.Res.Count("fsm.set", fmt.Sprintf("%s steps=%d then %s", res, nsteps, strings.SplitN(fsmAns(fd, gerr), ":", 2)[0]))
		for i := range atLines {
			c.Lean(atLines[i], fsmLabels(labels[:i])+" | "+atExpect[i])
			c.Res.Count("fsm.at", labels[i])
		}
	})
	if !crashes {
		return
	}
	// a failing step: the hook panics before call k (the call and the rest of SetMeta do not happen), then GetMeta
	for _, k := range fsmSample(r, nsteps, 3) {
		run(func(dir string, st storage.Storage) {
			labels, died := fsmWithHook(dir, k, nil, func() { st.SetMeta(target) })
			if !died {
				c.Res.Violate("fsm:hook", fmt.Sprintf("SetMeta did not reach call %d", k), s)
				return
			}
			mid := fsmReadDir(dir, dict)
			fd, gerr := st.GetMeta()
			c.Lean(fmt.Sprintf("fsm fail %s %d %s", fsmFD(target), k, s.arg()), "err | "+mid+" | "+fsmAns(fd, gerr)+" | "+fsmReadDir(dir, dict))
			c.Res.Count("fsm.fail", fmt.Sprintf("before:%d then %s", len(labels), fsmAns(fd, gerr)))
		})
	}
	// machine-crash images of the crash points: asked from the model
	for _, k := range fsmSample(r, nsteps+1, 4) {
		fr.queries = append(fr.queries, fmt.Sprintf("fsm imgs %s %d %s", fsmFD(target), k, s.arg()))
		fr.qfiles = append(fr.qfiles, s.Files)
	}
}

// k distinct values below n
func fsmSample(r *rng.R, n, k int) []int {
	if n <= k {
		out := make([]int, n)
		for i := range out {
			out[i] = i
		}
		return out
	}
	seen := map[int]bool{}
	var out []int
	for len(out) < k {
		x := r.Intn(n)
		if !seen[x] {
			seen[x] = true
			out = append(out, x)
		}
	}
	sort.Ints(out)
	return out
}

// GetMeta (read-write) dying inside its repair, then GetMeta again
func (fr *fsmRun) caseGetCrash(r *rng.R, s *fsmState) {
	c := fr.c
	dict, ok := s.dict(s.allFDs())
	if !ok {
		return
	}
	// how many hooked calls does the complete GetMeta issue?
	n := -1
	for k := -1; k < 40; k++ {
		if n >= 0 && k >= n {
			break
		}
		dir, err := s.build()
		if err != nil {
			c.Res.Violate("fsm:setup", err.Error(), s)
			return
		}
		st, err := storage.OpenFile(dir, false)
		if err != nil {
			os.RemoveAll(dir)
			c.Res.Violate("fsm:open", err.Error(), s)
			return
		}
		labels, died := fsmWithHook(dir, k, nil, func() { st.GetMeta() })
		if k == -1 {
			n = len(labels)
			st.Close()
			os.RemoveAll(dir)
			if n == 0 {
				return
			}
			continue
		}
		if !died {
			st.Close()
			os.RemoveAll(dir)
			c.Res.Violate("fsm:hook", fmt.Sprintf("GetMeta did not reach call %d of %d", k, n), s)
			return
		}
		mid := fsmReadDir(dir, dict)
		fd, gerr := st.GetMeta()
		c.Lean(fmt.Sprintf("fsm gat %d %s", k, s.arg()), fsmLabels(labels)+" | "+mid+" | "+fsmAns(fd, gerr)+" | "+fsmReadDir(dir, dict))
		c.Res.Count("fsm.gat", fmt.Sprintf("%d/%d", k, n))
		st.Close()
		os.RemoveAll(dir)
		if r.Chance(1, 2) {
			fr.queries = append(fr.queries, fmt.Sprintf("fsm gimgs %d %s", k, s.arg()))
			fr.qfiles = append(fr.qfiles, s.Files)
		}
	}
}

// ask the compiled model for the machine-crash images of the collected crash points, build each (a sample) for real
// and let the real GetMeta (read-write) answer it
func (fr *fsmRun) images(r *rng.R, perQuery int) {
	c := fr.c
	if len(fr.queries) == 0 {
		return
	}
	if _, err := os.Stat(fr.driver); err != nil {
		c.Res.Note("fsm: model driver %s not found, machine-crash images skipped", fr.driver)
		c.Res.Count("fsm.images", "driver-missing")
		return
	}
	cmd := exec.Command(fr.driver)
	cmd.Stdin = strings.NewReader(strings.Join(fr.queries, "\n") + "\n")
	var out bytes.Buffer
	cmd.Stdout = &out
	if err := cmd.Run(); err != nil {
		c.Res.Violate("fsm:driver", err.Error(), fr.queries[0])
		return
	}
	sc := bufio.NewScanner(&out)
	sc.Buffer(make([]byte, 1<<20), 1<<26)
	for i := 0; sc.Scan() && i < len(fr.queries); i++ {
		line := sc.Text()
		if line == "bad-op" {
			c.Res.Violate("fsm:driver", "bad-op for "+fr.queries[i], fr.queries[i])
			continue
		}
		imgs := strings.Split(line, " | ")
		c.Res.Count("fsm.images.per-point", strconv.Itoa(len(imgs)))
		for _, j := range fsmSample(r, len(imgs), perQuery) {
			ents, ok := fsmParseListing(imgs[j])
			if !ok {
				c.Res.Violate("fsm:driver", "unparsable image "+imgs[j], fr.queries[i])
				continue
			}
			s := &fsmState{Ents: ents, Files: fr.qfiles[i]}
			if _, ok := s.dict(s.allFDs()); !ok {
				c.Res.Count("fsm.images", "skipped-ambiguous-bytes")
				continue
			}
			fr.caseGet(r, s, r.Chance(1, 4), "image")
			c.Res.Count("fsm.images", strings.Fields(fr.queries[i])[1])
		}
	}
}

// c04FileStorageMeta: the correspondence check of fileStorage.SetMeta / GetMeta (quick: ~250 directories)
func c04FileStorageMeta(c *Ctx, n int) {
	drv := os.Getenv("VERIF_DRIVER")
	if drv == "" {
		drv = filepath.Join("lean", ".lake", "build", "bin", "gldriver")
	}
	fr := &fsmRun{c: c, driver: drv}
	r := c.R.Fork()
	for i := 0; i < n && c.TimeLeft(); i++ {
		rr := r.Fork()
		switch i % 5 {
		case 0, 1:
			s := fsmGenState(rr, false)
			c.Guard("fsm:get", s, func() { fr.caseGet(rr, s, rr.Chance(1, 3), "random") })
		case 2:
			s := fsmGenState(rr, false)
			t := fsmGenFD(rr)
			if len(s.Files) > 0 && rr.Chance(2, 3) {
				t = s.Files[rr.Intn(len(s.Files))]
			}
			c.Guard("fsm:set", s, func() { fr.caseSet(rr, s, t, i%10 == 2) })
		case 3:
			// the theorems' start states: a clean directory, the new manifest exists
			s := fsmGenState(rr, true)
			t := s.Files[rr.Intn(len(s.Files))]
			for i := 0; i < 8 && (t.Type != storage.TypeManifest || "p"+fsmFD(t) == s.Ents["C"] || "q"+fsmFD(t) == s.Ents["C"]); i++ {
				t = s.Files[rr.Intn(len(s.Files))]
			}
			c.Guard("fsm:set-clean", s, func() { fr.caseSet(rr, s, t, true) })
		case 4:
			s := fsmGenState(rr, false)
			c.Guard("fsm:get-crash", s, func() { fr.caseGetCrash(rr, s) })
		}
	}
	c.Guard("fsm:images", nil, func() { fr.images(r.Fork(), c.Scale(3, 12)) })
}

// stand-alone entry (`vh -prop C04FS`): the same check without the rest of C04
func init() {
	Registry["C04FS"] = func(c *Ctx) {
		c.Res.Rule = fsmRule
		c04FileStorageMeta(c, c.Scale(250, 4000))
	}
}

const fsmRule = "fileStorage.SetMeta/GetMeta against Model/FSMeta.lean: random directories (CURRENT / CURRENT.bak / 0-3 CURRENT.<n>, each a canonical or non-canonical pointer to a manifest (sometimes a journal/table/temp descriptor), junk, empty or cut; target files present or missing; read-only 1/3) built in a real temporary directory: (i) real GetMeta = model's answer (descriptor or error class) and the same directory afterwards; (ii) real SetMeta: same sequence of system calls (hook before each), same directory, same GetMeta afterwards; (iii) from random and from clean directories: the directory before every system call of SetMeta (process death), SetMeta aborted before a call then GetMeta, GetMeta aborted before every state-changing call of its repair then GetMeta again, and for sampled crash points the machine-crash images the model allows, each built for real and answered by the real GetMeta. One evaluation = one real GetMeta/SetMeta case; non-trivial = more than one CURRENT* file."
