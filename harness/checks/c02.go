package checks

import (
	wpc02 "verif/harness/wp/c02"
)

func init() { Registry["C02"] = runC02 }

// runC02: iterators against the specification cursor.  Generator and oracle live in verif/harness/wp/c02.
func runC02(c *Ctx) {
	c.Res.Rule = "random iterator states under the bytewise / reverse / length-first comparers: 20% merged iterators over 0-4 array " +
		"children, 20% over mixed children (array, memdb, table — optionally range restricted —, nested indexed iterator with empty " +
		"blocks) holding pairwise distinct internal keys, 20% indexed iterators over 0-4 blocks, 40% small DBs (tiny write buffer / " +
		"table sizes so that several levels form; bursts of Put / Delete / Batch, snapshots taken and released, CompactRange) on " +
		"whose quiescent states DB and Snapshot iterators (60% with a util.Range) and, on two thirds of the DBs, Transaction " +
		"iterators (then committed or discarded) are opened; each iterator does one random walk of First / Last / Seek / Next / Prev " +
		"(biased to Prev after Seek, reversals, steps beyond both ends); every answer is compared with the specification cursor over " +
		"the sorted visible pairs computed from the physical state dump. One evaluation = one walk. Non-trivial = the iterator shows " +
		"≥ 2 pairs, at least one move landed on a pair and the walk reversed direction at least once. Distinct by (state, walk)."
	sz := wpc02.Sizes{States: 6000, Moves: 30, MaxEntries: 14, MaxUniverse: 12}
	if c.Thorough {
		sz = wpc02.Sizes{States: 60000, Moves: 40, MaxEntries: 40, MaxUniverse: 24}
	}
	if wpc02.WorkaroundDiscardCache {
		c.Res.Note("wp/c02.WorkaroundDiscardCache is on: DBs with transactions run with BlockCacheEvictRemoved=true (see histogram `workaround`)")
	}
	wpc02.Run(c.R.Fork(), sz, wpSink(c))
	// DB iterators under a comparer that calls different byte strings equal (implementation-side oracle only)
	c02NonInjective(c, c.Scale(60, 1500))
}
