package checks

import (
	"fmt"
	"runtime"
	"sort"
	"strings"
	"sync"
	"time"

	"github.com/syndtr/goleveldb/leveldb"
	"github.com/syndtr/goleveldb/leveldb/storage"
	"github.com/syndtr/goleveldb/leveldb/util"

	"verif/harness/gen"
	"verif/harness/rng"
	"verif/harness/stor"
)

// C07: file deletion.  (a) every message the real reference loop (session.refLoop) handles is replayed through
// Model/RefLoop.lean (`ref …` lines): the tables the loop hands to tOps.remove after each message must be the
// model's; (b) implementation-side oracles: no table of a referenced-and-unreleased version is removed (neither
// decided by the loop nor removed from storage), held iterators keep their contents across hundreds of version
// changes, storage == live set at settled points, space is given back after delete-all + CompactRange.

func init() { Registry["C07"] = runC07 }

type c07Tie struct {
	mu  sync.Mutex
	c   *Ctx
	st  *stor.Stor
	has bool
	op  string
	rm  []int64

	live        map[int64]map[int64]bool // version id → its tables, for versions referenced and not released
	installs    int
	msgs        int
	sinceReset  int
	maxPending  int
	recoveryDup map[int64]bool // tables listed twice in a delta (first commit after Open)
	dupDeltas   int
	removed     map[int64]int
	viol        []string
	history     []string // last messages, for replays

	// producer check (`ref v`): the delta the real setVersion sent (f.delta, keyed by the superseded version's
	// id) against the delta the producer model computes from the record of the install (v.install)
	curID     int64   // id of the version installed last in this session (-1: none)
	curFiles  []int64 // its tables
	view      []int64 // the loop's view of it: the sum of the deltas sent so far
	sentDelta map[int64][2][]int64
	pendInst  map[int64]*c07Install
	prodLines int
	nAbandon  int
	prodClass map[string]int

	watchVid     int64          // version an iterator pins (-1: none)
	watchFiles   map[int64]bool // its tables
	watchDeleted int            // how many of them the delta of that version deletes
	watchSeen    bool
}

type c07Install struct {
	old, new, recAdded, recDeleted []int64
}

func newC07Tie(c *Ctx, st *stor.Stor) *c07Tie {
	return &c07Tie{c: c, st: st, live: map[int64]map[int64]bool{}, recoveryDup: map[int64]bool{}, removed: map[int64]int{}, watchVid: -1,
		curID: -1, sentDelta: map[int64][2][]int64{}, pendInst: map[int64]*c07Install{}, prodClass: map[string]int{}}
}

func c07Has(xs []int64, x int64) bool {
	for _, y := range xs {
		if y == x {
			return true
		}
	}
	return false
}

func c07Nodup(xs []int64) bool {
	seen := map[int64]bool{}
	for _, x := range xs {
		if seen[x] {
			return false
		}
		seen[x] = true
	}
	return true
}

// c07Classify relates the delta REALLY sent to the two versions and to the loop's view (an independent
// implementation of Driver/RefLoop.lean `producerCheck`); it returns the class and the new view.
func c07Classify(view, old, new, added, deleted []int64) (string, []int64) {
	v1 := append(append([]int64{}, view...), added...)
	for _, d := range deleted {
		i := -1
		for j, x := range v1 {
			if x == d {
				i = j
				break
			}
		}
		if i < 0 {
			return "BAD", append([]int64{}, new...)
		}
		v1 = append(v1[:i:i], v1[i+1:]...)
	}
	sub := c07Nodup(v1)
	for _, x := range v1 {
		if !c07Has(new, x) {
			sub = false
		}
	}
	if !sub {
		return "BAD", v1
	}
	same := true
	for _, x := range new {
		if !c07Has(v1, x) {
			same = false
		}
	}
	if !same {
		return "under", v1
	}
	exact := c07Nodup(added) && c07Nodup(deleted)
	for _, d := range deleted {
		if !c07Has(old, d) {
			exact = false
		}
	}
	b2i := func(b bool) int {
		if b {
			return 1
		}
		return 0
	}
	for _, f := range append(append(append([]int64{}, old...), new...), added...) {
		if b2i(c07Has(new, f))+b2i(c07Has(deleted, f)) != b2i(c07Has(old, f))+b2i(c07Has(added, f)) {
			exact = false
		}
	}
	if exact {
		return "exact", v1
	}
	return "viewexact", v1
}

// producerLocked emits the `ref v` line of the install that superseded version oldID once both the install
// and the delta that was sent for it have been seen (the two events come from different goroutines).
func (t *c07Tie) producerLocked(oldID int64) {
	in, ok1 := t.pendInst[oldID]
	d, ok2 := t.sentDelta[oldID]
	if !ok1 || !ok2 {
		return
	}
	delete(t.pendInst, oldID)
	delete(t.sentDelta, oldID)
	cls, view := c07Classify(t.view, in.old, in.new, d[0], d[1])
	t.view = view
	op := strings.Join(strings.Fields(fmt.Sprintf("ref v %d %d %s %d %s %d %s %s", oldID, len(in.old), i64s(in.old),
		len(in.new), i64s(in.new), len(in.recAdded), i64s(in.recAdded), i64s(in.recDeleted))), " ")
	exp := strings.Join(strings.Fields(fmt.Sprintf("%d %d %s %s %s", oldID, len(d[0]), i64s(d[0]), i64s(d[1]), cls)), " ")
	t.c.Lean(op, exp)
	t.prodLines++
	t.prodClass[cls]++
	t.c.Res.Count("refloop", "producer-"+cls)
	if cls == "BAD" {
		t.violate("producer:delta-not-exact", fmt.Sprintf("the delta sent when version %d was superseded (added %v, deleted %v) does not turn the loop's view into the installed version %v (superseded: %v)", oldID, d[0], d[1], in.new, in.old))
	}
}

func i64s(xs []int64) string {
	s := make([]string, len(xs))
	for i, x := range xs {
		s[i] = fmt.Sprint(x)
	}
	return strings.Join(s, " ")
}

func versionFiles(v *leveldb.VerifVersion) []int64 {
	var out []int64
	if v == nil {
		return out
	}
	for _, l := range v.Levels {
		for _, t := range l {
			out = append(out, t.Num)
		}
	}
	return out
}

func (t *c07Tie) flushLocked() {
	if !t.has {
		return
	}
	exp := "-"
	if len(t.rm) > 0 {
		exp = i64s(t.rm)
	}
	t.c.Lean(t.op, exp)
	t.has, t.rm = false, nil
}

// Flush emits the pending message (the loop must be idle).
func (t *c07Tie) Flush() { t.mu.Lock(); t.flushLocked(); t.mu.Unlock() }

func (t *c07Tie) message(op string) {
	t.flushLocked()
	t.has, t.op = true, op
	t.msgs++
	t.sinceReset++
	t.history = append(t.history, op)
	if len(t.history) > 400 {
		t.history = t.history[len(t.history)-400:]
	}
}

// span = newest referenced version id − oldest unreleased one: what the loop compares with maxCachedNumber.
func (t *c07Tie) noteSpan(newest int64) {
	for vid := range t.live {
		if d := int(newest - vid); d > t.maxPending {
			t.maxPending = d
		}
	}
}

// liveHolder names a referenced-and-unreleased version that contains the table.
func (t *c07Tie) liveHolder(num int64) (int64, bool) {
	for vid, fs := range t.live {
		if fs[num] {
			return vid, true
		}
	}
	return 0, false
}

func (t *c07Tie) violate(sig, msg string) {
	t.viol = append(t.viol, sig+"\x00"+msg)
}

func (t *c07Tie) onEvent(ev Event) {
	if !strings.HasPrefix(ev.Point, "f.") && ev.Point != "v.install" {
		return
	}
	t.mu.Lock()
	defer t.mu.Unlock()
	switch ev.Point {
	case "v.install":
		t.installs++
		v, _ := ev.Args[0].(*leveldb.VerifVersion)
		if v == nil {
			break
		}
		files := versionFiles(v)
		if rec, _ := ev.Args[1].(*leveldb.VerifRecord); rec != nil && t.curID >= 0 {
			in := &c07Install{old: t.curFiles, new: files}
			for _, a := range rec.Added {
				in.recAdded = append(in.recAdded, a.Num)
			}
			for _, d := range rec.Deleted {
				in.recDeleted = append(in.recDeleted, d.Num)
			}
			t.pendInst[t.curID] = in
			t.producerLocked(t.curID)
		}
		if v.ID == 0 { // newSession
			t.view = nil
			t.sentDelta = map[int64][2][]int64{}
			t.pendInst = map[int64]*c07Install{}
		}
		t.curID, t.curFiles = v.ID, files
	case "f.ref":
		vid := ev.Args[0].(int64)
		files := versionFiles(ev.Args[1].(*leveldb.VerifVersion))
		if vid == 0 { // newSession: a fresh loop
			t.flushLocked()
			t.c.Lean("ref reset", "ok")
			t.live = map[int64]map[int64]bool{}
			t.sinceReset = 0
			t.c.Res.Count("refloop", "sessions")
		}
		t.message(strings.TrimSpace(fmt.Sprintf("ref r %d %s", vid, i64s(files))))
		fs := map[int64]bool{}
		for _, f := range files {
			fs[f] = true
		}
		t.live[vid] = fs
		t.noteSpan(vid)
		t.c.Res.Count("refloop", "ref")
	case "f.delta":
		vid := ev.Args[0].(int64)
		added, _ := ev.Args[1].([]int64)
		deleted, _ := ev.Args[2].([]int64)
		t.message(strings.TrimSpace(fmt.Sprintf("ref d %d %d %s %s", vid, len(added), i64s(added), i64s(deleted))))
		t.sentDelta[vid] = [2][]int64{append([]int64{}, added...), append([]int64{}, deleted...)}
		t.producerLocked(vid)
		seen := map[int64]bool{}
		dup := false
		for _, a := range added {
			if seen[a] {
				t.recoveryDup[a] = true
				dup = true
			}
			seen[a] = true
		}
		if vid == t.watchVid && !t.watchSeen {
			t.watchSeen = true
			for _, x := range deleted {
				if t.watchFiles[x] {
					t.watchDeleted++
				}
			}
		}
		if dup {
			t.dupDeltas++
			t.c.Res.Count("refloop", "delta-with-duplicate-added")
		}
		t.c.Res.Count("refloop", "delta")
	case "f.rel":
		vid := ev.Args[0].(int64)
		files := versionFiles(ev.Args[1].(*leveldb.VerifVersion))
		t.message(strings.TrimSpace(fmt.Sprintf("ref l %d %s", vid, i64s(files))))
		delete(t.live, vid)
		t.c.Res.Count("refloop", "rel")
	case "f.abandon":
		t.message(fmt.Sprintf("ref a %d", ev.Args[0].(int64)))
		t.nAbandon++
		t.c.Res.Count("refloop", "abandon")
	case "f.remove":
		num := ev.Args[0].(int64)
		t.rm = append(t.rm, num)
		t.removed[num]++
		t.c.Res.Count("refloop", "remove")
		if vid, ok := t.liveHolder(num); ok {
			t.violate("refloop:remove-live-table", fmt.Sprintf("the reference loop removes table %d while version %d, referenced and not released, contains it", num, vid))
		}
	}
}

// beforeStorage watches every storage operation: a table of a live version must not be removed.
func (t *c07Tie) beforeStorage(_ *stor.Stor, op stor.Op) {
	if op.Kind != stor.OpRemove || op.Fd.Type != storage.TypeTable {
		return
	}
	t.mu.Lock()
	if vid, ok := t.liveHolder(op.Fd.Num); ok {
		t.violate("storage:remove-live-table", fmt.Sprintf("storage.Remove(table %d) while version %d, referenced and not released, contains it", op.Fd.Num, vid))
	}
	t.mu.Unlock()
}

func (t *c07Tie) takeViolations() []string {
	t.mu.Lock()
	defer t.mu.Unlock()
	v := t.viol
	t.viol = nil
	return v
}

// fileRefs compares the loop's counters with the model (`ref q`); the DB must be idle.
func (t *c07Tie) fileRefs(db *leveldb.DB) {
	m := leveldb.VerifFileRefs(db)
	if m == nil {
		return
	}
	var keys []int64
	for f := range m {
		keys = append(keys, f)
	}
	sort.Slice(keys, func(i, j int) bool { return keys[i] < keys[j] })
	parts := make([]string, len(keys))
	for i, f := range keys {
		parts[i] = fmt.Sprintf("%d:%d", f, m[f])
	}
	exp := "-"
	if len(parts) > 0 {
		exp = strings.Join(parts, ",")
	}
	t.mu.Lock()
	t.flushLocked()
	t.c.Lean("ref q", exp)
	t.mu.Unlock()
}

// ---- (1) generated DB programs ------------------------------------------------------------------

// c07RunProg runs one program with the file-set oracle, the trace tie and the live-table oracle.
// It returns the runner and whether a violation was reported (the D13 leak is reported once, then only counted).
func c07RunProg(c *Ctx, p *Prog, d13Reported *bool) (r *Runner, stop bool) {
	r = NewRunner(p)
	r.Checks = ProgChecks{Files: true}
	tie := newC07Tie(c, r.St)
	r.St.SetHooks(nil, tie.beforeStorage)
	r.InstallSink()
	r.OnEvent = tie.onEvent
	defer UninstallSink()
	var msg string
	var failAt int
	r.Fail = func(sig, m string, at int) { msg, failAt = m, at }
	done := make(chan bool, 1)
	go func() { done <- c.Guard("db-program", p, func() { r.Run() }) }()
	select {
	case panicked := <-done:
		if panicked {
			return r, true
		}
	case <-time.After(90 * time.Second):
		buf := make([]byte, 1<<20)
		buf = buf[:runtime.Stack(buf, true)]
		c.Res.Violate("hang", "a call of the program did not return within 90 s; goroutine dump:\n"+blockedSummary(string(buf)),
			map[string]interface{}{"program": p, "stats": r.Stats})
		c.Hung = true
		return r, true
	}
	tie.Flush()
	c.Res.CountN("refloop", "messages", tie.msgs)
	c.Res.CountN("versions", "installs", tie.installs)
	if tie.maxPending >= 256 {
		c.Res.Count("versions", "cached-version-tasks>=maxCachedNumber(conversion)")
	}
	for _, v := range tie.takeViolations() {
		parts := strings.SplitN(v, "\x00", 2)
		c.Res.Violate(parts[0], parts[1], map[string]interface{}{"program": p, "last_messages": tie.history})
		stop = true
	}
	if r.Failed {
		replay := map[string]interface{}{"program": p, "original_ops": len(p.Ops), "fail_at": failAt}
		if r.FailSig == "files:leaked" {
			// which of the leaked tables were listed twice in a delta (flushed by journal recovery, first commit after Open)?
			var rec, other []string
			for _, f := range strings.Fields(strings.NewReplacer("[", " ", "]", " ").Replace(msg)) {
				var n int64
				if _, err := fmt.Sscanf(f, "table-%d", &n); err == nil {
					if tie.recoveryDup[n] {
						rec = append(rec, f)
					} else {
						other = append(other, f)
					}
				}
			}
			replay["leaked_tables_flushed_by_journal_recovery"] = rec
			replay["leaked_other"] = other
			replay["note"] = "tables listed twice in the delta of the first commit after Open (session.commit → newManifest(r, nv) adds every table of nv to r.addedTables again): reference counter 2, never removed by the loop; checkAndCleanFiles removes them at the next Open"
			c.Res.Count("files", "leaked-after-recovery-flush")
			if len(rec) > 0 && len(other) == 0 {
				msg += fmt.Sprintf("; leaked table(s) %v were flushed by journal recovery and double-referenced by the first commit after Open", rec)
				if *d13Reported {
					return r, false // already reported once: keep exploring
				}
				*d13Reported = true
				replay["program"] = c07Truncate(p, r.Checks, r.FailSig, failAt)
				c.Res.Violate(r.FailSig, msg, replay)
				return r, false
			}
		}
		replay["program"] = shrinkProg(p, r.Checks, r.FailSig, failAt)
		c.Res.Violate(r.FailSig, msg, replay)
		return r, true
	}
	return r, stop
}

// c07Truncate keeps the program up to the failing op (a cheap replay for the known leak; no delta debugging).
func c07Truncate(p *Prog, ck ProgChecks, sig string, failAt int) *Prog {
	cur := *p
	if failAt >= 0 && failAt+1 < len(cur.Ops) {
		cur.Ops = append([]POp(nil), cur.Ops[:failAt+1]...)
	}
	det := cur
	det.Settle = true
	if failsWith(&det, ck, sig) {
		return &det
	}
	if failsWith(&cur, ck, sig) {
		return &cur
	}
	return p
}

// ---- (2) a long-held iterator across hundreds of version changes ----------------------------------

type c07Pin struct {
	it     interface{ Release() }
	tables map[int64]bool
	m      kvmap
}

func c07Pinned(c *Ctx, r *rng.R, idx int) (stop bool) {
	o := gen.RandOpts(r)
	o.Cmp = "bytewise"
	o.WriteBuffer = 256 << uint(r.Intn(2))
	o.TableSize = 256 << uint(r.Intn(2))
	o.L0Trigger = 2 + r.Intn(2)
	st := stor.New()
	tie := newC07Tie(c, st)
	var pinMu sync.Mutex
	pinned := map[int64]bool{}
	replay := map[string]interface{}{"scenario": "pinned-iterator", "opts": o, "seed_index": idx}
	st.SetHooks(nil, func(s *stor.Stor, op stor.Op) {
		tie.beforeStorage(s, op)
		if op.Kind == stor.OpRemove && op.Fd.Type == storage.TypeTable {
			pinMu.Lock()
			if pinned[op.Fd.Num] {
				tie.mu.Lock()
				tie.violate("storage:remove-pinned-table", fmt.Sprintf("storage.Remove(table %d) while an unreleased iterator created when that table was live still exists", op.Fd.Num))
				tie.mu.Unlock()
			}
			pinMu.Unlock()
		}
	})
	leveldb.VerifSink = func(point string, args []interface{}) { tie.onEvent(Event{point, args}) }
	defer UninstallSink()
	defer func() { // also on the early exits: complete the trace and report what the live-table oracles saw
		tie.Flush()
		for _, v := range tie.takeViolations() {
			parts := strings.SplitN(v, "\x00", 2)
			c.Res.Violate(parts[0], parts[1], map[string]interface{}{"scenario": replay, "last_messages": tie.history})
			stop = true
		}
	}()
	db, err := leveldb.Open(st, o.Options())
	if err != nil {
		c.Res.Violate("open:error", err.Error(), replay)
		return true
	}
	m := kvmap{}
	nkeys := 30 + r.Intn(60)
	key := func() []byte { return []byte(fmt.Sprintf("k%03d", r.Intn(nkeys))) }
	put := func() bool {
		k, v := key(), gen.Value(r, 64)
		if len(v) == 0 {
			v = []byte("x")
		}
		if err := db.Put(k, v, nil); err != nil {
			c.Res.Violate("put:error", err.Error(), replay)
			return false
		}
		m[string(k)] = string(v)
		return true
	}
	// build a version with tables on at least two levels and nothing in the buffers: write, settle, reopen
	// (journal recovery flushes what is left), until the shape is right
	strict := idx%2 == 0 // strict: the iterator is not touched before the final walk
	var dump *leveldb.VerifState
	levelsWithTables := 0
	for attempt := 0; attempt < 6; attempt++ {
		for i := 0; i < 70+r.Intn(60); i++ {
			if !put() {
				db.Close()
				return true
			}
		}
		leveldb.VerifWaitIdle(db)
		if err := db.Close(); err != nil {
			c.Res.Violate("close:error", err.Error(), replay)
			return true
		}
		db, err = leveldb.Open(st, o.Options())
		if err != nil {
			c.Res.Violate("reopen:error", err.Error(), replay)
			return true
		}
		leveldb.VerifWaitIdle(db)
		dump = leveldb.VerifDump(db)
		levelsWithTables = 0
		for _, l := range dump.Version.Levels {
			if len(l) > 0 {
				levelsWithTables++
			}
		}
		if len(dump.Mem) == 0 && !dump.HasFrozen && levelsWithTables >= 2 {
			break
		}
	}
	// pin: an iterator over the current state, created while the buffers are empty; it is not walked now, so the
	// tables of its version have not been opened through it
	frozen := m.clone()
	it := db.NewIterator(nil, nil)
	dump = leveldb.VerifDump(db)
	pinMu.Lock()
	for _, f := range versionFiles(dump.Version) {
		pinned[f] = true
	}
	npinned := len(pinned)
	pinMu.Unlock()
	tie.mu.Lock()
	tie.watchVid, tie.watchSeen, tie.watchDeleted = dump.Version.ID, false, 0
	tie.watchFiles = map[int64]bool{}
	for f := range pinned {
		tie.watchFiles[f] = true
	}
	tie.mu.Unlock()
	// the very next version must DELETE tables of the pinned one: compact everything right away
	if err := db.CompactRange(util.Range{}); err != nil {
		c.Res.Violate("compact:error", err.Error(), replay)
	}
	leveldb.VerifWaitIdle(db)
	tie.mu.Lock()
	firstDeletes := tie.watchDeleted
	tie.mu.Unlock()
	if firstDeletes > 0 {
		c.Res.Count("pinned", "next-version-deletes-pinned-tables")
	} else {
		c.Res.Count("pinned", "next-version-deletes-nothing")
	}
	tie.mu.Lock()
	base := tie.installs
	tie.mu.Unlock()
	target := 300 + r.Intn(120)
	changes := func() int { tie.mu.Lock(); defer tie.mu.Unlock(); return tie.installs - base }
	walk := func(tag string) bool {
		ks := frozen.sorted(gen.Comparer("bytewise"), nil, nil)
		i := 0
		for ok := it.First(); ok; ok = it.Next() {
			if i >= len(ks) || string(it.Key()) != ks[i] || string(it.Value()) != frozen[ks[i]] {
				c.Res.Violate("helditer:contents", fmt.Sprintf("%s after %d version changes: position %d holds %x, creation-time contents say %q", tag, changes(), i, it.Key(), safeIdx(ks, i)), replay)
				return false
			}
			i++
		}
		if i != len(ks) || it.Error() != nil {
			c.Res.Violate("helditer:contents", fmt.Sprintf("%s after %d version changes: forward walk ended after %d of %d pairs, err=%v", tag, changes(), i, len(ks), it.Error()), replay)
			return false
		}
		i = len(ks) - 1
		for ok := it.Last(); ok; ok = it.Prev() {
			if i < 0 || string(it.Key()) != ks[i] || string(it.Value()) != frozen[ks[i]] {
				c.Res.Violate("helditer:contents", fmt.Sprintf("%s after %d version changes: backward walk, position %d holds %x, creation-time contents say %q", tag, changes(), i, it.Key(), safeIdx(ks, i)), replay)
				return false
			}
			i--
		}
		if i != -1 || it.Error() != nil {
			c.Res.Violate("helditer:contents", fmt.Sprintf("%s after %d version changes: backward walk stopped with %d of %d pairs left, err=%v", tag, changes(), i+1, len(ks), it.Error()), replay)
			return false
		}
		return true
	}
	for n := 0; changes() < target && n < 40000 && c.TimeLeft(); n++ {
		switch x := r.Intn(40); {
		case x < 30:
			if !put() {
				return true
			}
		case x < 36:
			k := key()
			db.Delete(k, nil)
			delete(m, string(k))
		case x < 38:
			db.CompactRange(util.Range{})
		default:
			if !strict && !walk("mid-run") {
				it.Release()
				db.Close()
				return true
			}
		}
	}
	leveldb.VerifWaitIdle(db)
	nch := changes()
	ok := walk("final")
	c.Res.Count("pinned", fmt.Sprintf("version-changes>=%d", (nch/100)*100))
	c.Res.Eval(fmt.Sprintf("pinned/%d/%d/%d/%d", idx, nch, npinned, firstDeletes), nch >= 300 && npinned > 0 && firstDeletes > 0)
	pinMu.Lock()
	pinned = map[int64]bool{}
	pinMu.Unlock()
	it.Release()
	if !ok {
		db.Close()
		return true
	}
	// nothing pinned any more: the loop catches up, storage shrinks to the live set
	if !c07Settled(c, db, st, tie, replay, "after releasing the iterator") {
		db.Close()
		return true
	}
	tie.fileRefs(db)
	// space is given back: delete everything, compact everything
	before := c07TableBytes(st)
	for k := range m {
		db.Delete([]byte(k), nil)
	}
	m = kvmap{}
	if err := db.CompactRange(util.Range{}); err != nil {
		c.Res.Violate("compact:error", err.Error(), replay)
	}
	leveldb.VerifWaitIdle(db)
	if !c07Settled(c, db, st, tie, replay, "after delete-all and CompactRange") {
		db.Close()
		return true
	}
	after := c07TableBytes(st)
	bound := 2*o.BlockSize + 512
	c.Res.Count("space", fmt.Sprintf("table-bytes-after-delete-all<=%d", bound))
	if after > bound {
		c.Res.Violate("space:not-reclaimed", fmt.Sprintf("after deleting every key, CompactRange(all) and settling, table files still hold %d bytes (before: %d, bound %d): %v", after, before, bound, st.Files()), replay)
		stop = true
	}
	tie.fileRefs(db)
	if len(c.Res.Samples) < 3 {
		c.Res.Sample(map[string]interface{}{"kind": "pinned-iterator", "strict": strict, "levels_with_tables_at_pin": levelsWithTables, "pinned_tables_deleted_by_next_version": firstDeletes, "version_changes_while_pinned": nch, "pinned_tables": npinned, "table_bytes_before_delete_all": before, "after": after, "refloop_messages": tie.msgs})
	}
	db.Close()
	tie.Flush()
	c.Res.CountN("refloop", "messages", tie.msgs)
	c.Res.CountN("versions", "installs", tie.installs)
	if tie.maxPending >= 256 {
		c.Res.Count("versions", "cached-version-tasks>=maxCachedNumber(conversion)")
	}
	for _, v := range tie.takeViolations() {
		parts := strings.SplitN(v, "\x00", 2)
		c.Res.Violate(parts[0], parts[1], map[string]interface{}{"scenario": replay, "last_messages": tie.history})
		stop = true
	}
	return stop
}

func safeIdx(ks []string, i int) string {
	if i < len(ks) {
		return ks[i]
	}
	return "<end>"
}

func c07TableBytes(st *stor.Stor) int {
	n := 0
	for _, fd := range st.Files() {
		if fd.Type == storage.TypeTable {
			b, _ := st.FileBytes(fd)
			n += len(b)
		}
	}
	return n
}

// c07Settled: with nothing pinned and background work finished, storage holds exactly the live files.
func c07Settled(c *Ctx, db *leveldb.DB, st *stor.Stor, tie *c07Tie, replay interface{}, when string) bool {
	var extra, missing []string
	for try := 0; try < 300; try++ {
		leveldb.VerifWaitIdle(db)
		extra, missing = c07FileDiff(db, st)
		if len(extra) == 0 && len(missing) == 0 {
			return true
		}
		sleepMs(5)
	}
	if len(missing) > 0 {
		c.Res.Violate("files:missing", fmt.Sprintf("%s: live files missing from storage: %v", when, missing), replay)
	} else {
		c.Res.Violate("files:leaked", fmt.Sprintf("%s: storage holds files that nothing needs: %v", when, extra), replay)
	}
	return false
}

func c07FileDiff(db *leveldb.DB, st *stor.Stor) (extra, missing []string) {
	d := leveldb.VerifDump(db)
	need := map[storage.FileDesc]bool{}
	for _, f := range versionFiles(d.Version) {
		need[storage.FileDesc{Type: storage.TypeTable, Num: f}] = true
	}
	need[storage.FileDesc{Type: storage.TypeJournal, Num: d.JournalNum}] = true
	if d.HasFrozen && d.FrozenJournal != 0 {
		need[storage.FileDesc{Type: storage.TypeJournal, Num: d.FrozenJournal}] = true
	}
	need[storage.FileDesc{Type: storage.TypeManifest, Num: d.ManifestNum}] = true
	have := map[storage.FileDesc]bool{}
	for _, fd := range st.Files() {
		have[fd] = true
		if !need[fd] {
			extra = append(extra, fmt.Sprintf("%s-%d", stor.FtName(fd.Type), fd.Num))
		}
	}
	for fd := range need {
		if !have[fd] {
			missing = append(missing, fmt.Sprintf("%s-%d", stor.FtName(fd.Type), fd.Num))
		}
	}
	sort.Strings(extra)
	sort.Strings(missing)
	return
}

func runC07(c *Ctx) {
	c.Res.Rule = "(1) DB programs biased to flushes, compactions, long-held iterators, discarded transactions and reopen (tiny buffers); every message of the real reference loop (f.ref/f.delta/f.rel/f.abandon hook events) is replayed through Model/RefLoop.lean and the tables the loop removes after each message must be the model's; oracles on the implementation: no table of a referenced-and-unreleased version is removed (loop decision and storage.Remove), held iterators are re-walked against their creation-time contents, storage == live tables + journal(s) + manifest at settled points and after reopen; non-trivial = tables were removed by the loop; (2) an iterator created on a just reopened DB (empty buffers, tables on ≥ 2 levels) and not touched, a CompactRange(all) right after so that the next version deletes tables of the pinned one, then ≥ 300 further version installs (more than maxCachedNumber cached version tasks: conversion to full references), tables live at its creation must stay in storage until it is released, the iterator is finally walked forwards and backwards against its creation-time contents, then storage must shrink to the live set, and after delete-all + CompactRange(all) the table bytes must fall below 2 blocks + 512; the loop's counters (VerifFileRefs) are compared with the model at idle points; (3) iterators obtained from a transaction and kept across its Discard (the removal of its tables is deferred to their release) while another transaction commits tables, Puts/CompactRange run or a third transaction is discarded: after every step and after each release all keys are readable (Get and scan = plain map), the held iterator still shows the discarded view, settled storage = live set; (4) manifest writes fail for a while (failed commits: the ids they spawned are abandoned, f.abandon) under a pinned iterator, more versions follow behind the holes, the DB is closed with the iterator still open in half of the runs (the closing version's reference and the current version's release are replayed like every other message), reopen: contents and storage = live set; in all modes every delta the real setVersion sent is compared with the delta the producer model (Model/Session.lean mkDelta) computes from the record of the install, and classified against the two versions (`ref v`: exact / viewexact / under, BAD = violation)"
	w := DefaultWeights
	w.Put, w.Del, w.Write = 40, 14, 8
	w.Compact, w.Settle, w.Tx, w.Iter, w.Snap = 8, 6, 5, 10, 3
	w.HeldIters = true
	d13 := false
	n := c.Scale(36, 400)
	for i := 0; i < n && c.TimeLeft() && !c.Hung; i++ {
		r := c.R.Fork()
		o := gen.RandOpts(r)
		o.Cmp = []string{"bytewise", "bytewise", "reverse"}[i%3]
		o.WriteBuffer = 256 << uint(r.Intn(3))
		ww := w
		if i%2 == 0 {
			ww.Reopen = 0 // no journal recovery: the loop's accounting stays exact for the whole program
		} else {
			ww.Reopen = 4
		}
		p := GenProg(r, o, 250+r.Intn(350), ww)
		p.Settle = r.Chance(1, 3)
		run, stop := c07RunProg(c, p, &d13)
		removed := run.Stats["compact"] > 0 || run.Stats["reopen"] > 0
		c.Res.Eval(progKey(p), removed)
		for k, v := range run.Stats {
			c.Res.CountN("ops", k, v)
		}
		if i < 2 {
			c.Res.Sample(map[string]interface{}{"kind": "program", "opts": p.Opts, "ops": len(p.Ops), "first_ops": p.Ops[:minInt(5, len(p.Ops))]})
		}
		if stop {
			return
		}
	}
	for i := 0; i < c.Scale(60, 1500) && c.TimeLeft() && !c.Hung; i++ {
		if c07TxIter(c, c.R.Fork(), i) {
			return
		}
	}
	np := c.Scale(4, 32)
	for i := 0; i < np && c.TimeLeft() && !c.Hung; i++ {
		if c07Pinned(c, c.R.Fork(), i) {
			return
		}
	}
	for i := 0; i < c.Scale(8, 60) && c.TimeLeft() && !c.Hung; i++ {
		if c07Abandon(c, c.R.Fork(), i) {
			return
		}
	}
}
