package checks

// C02 under a lawful comparer that is NOT injective on bytes (ASCII letters compared without case, leading '0' ignored:
// the comparer of c14ninj.go; the repository's own TestDB_CustomComparer uses such a comparer).  Two spellings of one key
// are ONE key: a Put under another spelling replaces the pair, a Delete removes it, and an iterator shows the newest
// spelling exactly once — whichever of write buffer, frozen buffer and tables hold the versions.  The Lean models assume
// "equal ⇒ same bytes" (LawfulUCmp.eq_of), so, as for memdb (D56), this class has the implementation-side oracle only:
// a map from the canonical form to the last pair written under it, walked as the specification cursor.
//
// Added after wave 14: a seeded change made dbIter.next decide "new user key" by bytes.Equal instead of the comparer; it
// shows only here (an older spelling of an overwritten or deleted key is served on forward walks).

import (
	"bytes"
	"fmt"
	"sort"

	"github.com/syndtr/goleveldb/leveldb"
	"github.com/syndtr/goleveldb/leveldb/iterator"
	"github.com/syndtr/goleveldb/leveldb/opt"
	"github.com/syndtr/goleveldb/leveldb/util"

	"verif/harness/rng"
	"verif/harness/stor"
)

func c02NonInjective(c *Ctx, n int) {
	alphabet := []byte("0aAbB7")
	for i := 0; i < n && c.TimeLeft() && len(c.Res.Violations) == 0; i++ {
		r := c.R.Fork()
		seed := r.U64()
		rr := rng.New(seed)
		st := stor.New()
		st.KeepOps(false)
		o := &opt.Options{Comparer: c14FoldCmp{}, WriteBuffer: 1 << (9 + rr.Intn(4)), CompactionTableSize: 1 << (9 + rr.Intn(3)),
			BlockSize: 64 << rr.Intn(4), BlockRestartInterval: 1 + rr.Intn(8), CompactionL0Trigger: 2 + rr.Intn(3), DisableSeeksCompaction: rr.Intn(2) == 0}
		db, err := leveldb.Open(st, o)
		if err != nil {
			return
		}
		type pair struct{ k, v []byte }
		m := map[string]pair{}
		var trace []string
		key := func() []byte {
			k := make([]byte, 1+rr.Intn(4))
			for j := range k {
				k[j] = alphabet[rr.Intn(len(alphabet))]
			}
			return k
		}
		failed := false
		fail := func(sig, msg string) {
			if len(trace) > 60 {
				trace = trace[len(trace)-60:]
			}
			failed = true
			c.Res.Violate("dbIter.non-injective-comparer:"+sig, msg, map[string]interface{}{"seed": seed, "last_ops": trace, "comparer": "ASCII case folded, leading '0' ignored",
				"options": fmt.Sprintf("WriteBuffer %d CompactionTableSize %d BlockSize %d", o.WriteBuffer, o.CompactionTableSize, o.BlockSize)})
		}
		walk := func(it iterator.Iterator, what string) {
			// the specification cursor over the canonical map
			var keys []string
			for ck := range m {
				keys = append(keys, ck)
			}
			sort.Strings(keys)
			pos := -1 // -1 before first, len after last
			check := func(ok bool, mv string) bool {
				want := pos >= 0 && pos < len(keys)
				if ok != want {
					fail(what+":valid", fmt.Sprintf("%s: iterator says %v, the map cursor %v (position %d of %d)", mv, ok, want, pos, len(keys)))
					return false
				}
				if ok {
					p := m[keys[pos]]
					if !bytes.Equal(it.Key(), p.k) || !bytes.Equal(it.Value(), p.v) {
						fail(what+":pair", fmt.Sprintf("%s: iterator shows %q=%q, the newest pair under that key is %q=%q", mv, it.Key(), it.Value(), p.k, p.v))
						return false
					}
				}
				return true
			}
			nmoves := 10 + rr.Intn(40)
			for mvi := 0; mvi < nmoves && !failed; mvi++ {
				switch x := rr.Intn(10); {
				case x == 0:
					ok := it.First()
					pos = 0
					if len(keys) == 0 {
						pos = 0
					}
					check(ok, "First")
				case x == 1:
					ok := it.Last()
					pos = len(keys) - 1
					check(ok, "Last")
				case x == 2:
					k := key()
					ok := it.Seek(k)
					pos = sort.SearchStrings(keys, c14Canon(k))
					check(ok, fmt.Sprintf("Seek(%q)", k))
				case x < 7:
					ok := it.Next()
					if pos < len(keys) {
						pos++
					}
					check(ok, "Next")
				default:
					ok := it.Prev()
					if pos >= 0 {
						pos--
					}
					check(ok, "Prev")
				}
			}
			if err := it.Error(); err != nil && !failed {
				fail(what+":error", err.Error())
			}
			it.Release()
		}
		nops := 100 + rr.Intn(400)
		for op := 0; op < nops && !failed; op++ {
			k := key()
			switch x := rr.Intn(20); {
			case x < 9:
				v := []byte(fmt.Sprintf("%d-%s", op, bytes.Repeat([]byte("v"), rr.Intn(40))))
				trace = append(trace, fmt.Sprintf("put %q %q", k, v))
				if err := db.Put(k, v, nil); err != nil {
					fail("put-error", err.Error())
				}
				m[c14Canon(k)] = pair{append([]byte{}, k...), v}
			case x < 13:
				trace = append(trace, fmt.Sprintf("del %q", k))
				if err := db.Delete(k, nil); err != nil {
					fail("delete-error", err.Error())
				}
				delete(m, c14Canon(k))
			case x < 15:
				trace = append(trace, fmt.Sprintf("get %q", k))
				v, err := db.Get(k, nil)
				p, had := m[c14Canon(k)]
				if had != (err == nil) || (had && !bytes.Equal(v, p.v)) {
					fail("get", fmt.Sprintf("Get(%q) = %q, %v; the map has %v %q", k, v, err, had, p.v))
				}
			case x == 15:
				trace = append(trace, "compact-range")
				db.CompactRange(util.Range{})
			case x == 16:
				trace = append(trace, "reopen")
				db.Close()
				db, err = leveldb.Open(st, o)
				if err != nil {
					fail("reopen", err.Error())
					return
				}
			default:
				trace = append(trace, "walk")
				c.Res.Count("non_injective", "walks")
				walk(db.NewIterator(nil, nil), "DB.NewIterator")
			}
		}
		c.Res.Eval(fmt.Sprintf("NINJ/%d", seed), len(m) >= 2)
		db.Close()
	}
}
