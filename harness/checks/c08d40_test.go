//go:build verif

package checks

import (
	"bytes"
	"fmt"
	"testing"

	"github.com/syndtr/goleveldb/leveldb"
	"github.com/syndtr/goleveldb/leveldb/opt"
	"github.com/syndtr/goleveldb/leveldb/storage"
	"github.com/syndtr/goleveldb/leveldb/util"

	"verif/harness/stor"
)

// Defect D40 (GoLevel.C02.d40_backward_serves_stale_pair) on the real DB.  One table holds (z, newer, deletion) at
// the end of one block and (z, older, value) alone in the next block; the block with the deletion is damaged.
// Default options (strict reader, block checksums).  As found, Last() returned true with z = the old value and
// Error() == nil (dbIter.prev returned its candidate without consulting the raw iterator's error); since the
// repair Last() returns false with the checksum error.
func TestD40BackwardStale(t *testing.T) {
	for ysz := 20; ysz < 50; ysz++ {
		if d40Stale(t, ysz) {
			return
		}
	}
	t.Fatal("no layout found")
}

func d40Stale(t *testing.T, ysz int) bool {
	o := &opt.Options{BlockSize: 64, Compression: opt.NoCompression, DisableSeeksCompaction: true}
	st := stor.New()
	db, err := leveldb.Open(st, o)
	if err != nil {
		t.Fatal(err)
	}
	for i := 0; i < 10; i++ {
		db.Put([]byte(fmt.Sprintf("a%02d", i)), bytes.Repeat([]byte{'x'}, 20), nil)
	}
	db.Put([]byte("y"), bytes.Repeat([]byte{'y'}, ysz), nil)
	db.Put([]byte("z"), bytes.Repeat([]byte{'A'}, 100), nil)
	db.Delete([]byte("z"), nil)
	db.Close()
	if db, err = leveldb.Open(st, o); err != nil { // journal recovery writes the buffer to a level-0 table as it is
		t.Fatal(err)
	}
	leveldb.VerifWaitIdle(db)
	_ = util.Range{}
	expected, _ := crDumpDB(db)
	dump := leveldb.VerifDump(db)
	db.Close()
	t.Logf("expected %d pairs, has z: %v", len(expected), expected["z"] != "")
	var tables []leveldb.VerifTable
	for _, l := range dump.Version.Levels {
		tables = append(tables, l...)
	}
	if len(tables) != 1 {
		t.Fatalf("tables %d", len(tables))
	}
	fd := storage.FileDesc{Type: storage.TypeTable, Num: tables[0].Num}
	data, _ := st.FileBytes(fd)
	ents, blockOf, starts, err := crTableBlocks(data, fd, o)
	if err != nil {
		t.Fatal(err)
	}
	for j, e := range ents {
		t.Logf("entry %q block %d", e.IKey, blockOf[j])
	}
	// the block of the deletion of z = block of the second last entry
	n := len(ents)
	if blockOf[n-1] == blockOf[n-2] {
		return false
	}
	_ = starts
	data[blockOf[n-2]+3] ^= 0x40
	st.PutFile(fd, data)
	db2, err := leveldb.Open(st, o)
	if err != nil {
		t.Fatal(err)
	}
	defer db2.Close()
	it := db2.NewIterator(nil, nil)
	ok := it.Last()
	t.Logf("Last() = %v Valid=%v key=%q value=%.10q Error=%v", ok, it.Valid(), it.Key(), it.Value(), it.Error())
	if !ok && it.Error() == nil {
		t.Errorf("Last() returned false without an error although the table is damaged")
	}
	ok2 := it.Prev()
	t.Logf("Prev() = %v Valid=%v key=%q Error=%v", ok2, it.Valid(), it.Key(), it.Error())
	if ok2 || it.Error() == nil {
		t.Errorf("Prev() after the failure: returned %v, Error()=%v", ok2, it.Error())
	}
	it.Release()
	if ok {
		t.Errorf("D40: Last() served %q (a deleted key) with Error()=nil", "z")
	}
	return true
}
