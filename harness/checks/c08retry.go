package checks

// C08 scenario: a table compaction that fails on a transient storage error is RETRIED.  The retry must come to the
// same result as an undisturbed run: in particular deletion markers whose older values sit two or more levels
// below must not be dropped because the first attempt had already walked past those tables.

import (
	"fmt"
	"os"
	"strings"
	"sync/atomic"

	"github.com/syndtr/goleveldb/leveldb"
	"github.com/syndtr/goleveldb/leveldb/opt"
	"github.com/syndtr/goleveldb/leveldb/storage"
	"github.com/syndtr/goleveldb/leveldb/util"

	"verif/harness/rng"
	"verif/harness/stor"
)

type c08RetryScn struct {
	Seed     uint64 `json:"seed"`
	Keys     int    `json:"keys"`
	FailSync int    `json:"failing_table_sync"` // the k-th table Sync after arming fails once
	How      string `json:"how"`
}

func c08RetryCompaction(c *Ctx, n int) {
	for i := 0; i < n && c.TimeLeft() && !c.Hung; i++ {
		r := c.R.Fork()
		scn := &c08RetryScn{Seed: r.U64(), Keys: 150 + r.Intn(150), FailSync: 1 + r.Intn(2),
			How: "rng.New(seed): Puts over the key set with tiny level size limits (the data spreads over 3+ levels by itself), then deletes of a third of the keys + overwrites, reopen (a level-0 table), one table Sync fails during the next CompactRange(all); Get/scan = plain map, also after reopen"}
		c.Guard("retry-compaction", scn, func() { c08RetryOne(c, rng.New(scn.Seed), scn) })
	}
}

func c08RetryOne(c *Ctx, r *rng.R, scn *c08RetryScn) {
	st := stor.New()
	st.KeepOps(false)
	// tiny level size limits: the initial load spreads over three or more levels by itself
	o := &opt.Options{WriteBuffer: 2 << 10, CompactionL0Trigger: 2, CompactionTableSize: 1 << 10, CompactionTotalSize: 2 << 10,
		CompactionTotalSizeMultiplier: 2, DisableCompactionBackoff: true, DisableLargeBatchTransaction: true, BlockSize: 256}
	db, err := leveldb.Open(st, o)
	if err != nil {
		c.Res.Violate("retry-compaction:open", err.Error(), scn)
		return
	}
	m := kvmap{}
	key := func(i int) string { return fmt.Sprintf("k%03d", i) }
	val := func(tag string, i int) string {
		return fmt.Sprintf("%s-%d-%s", tag, i, strings.Repeat("v", 40+r.Intn(60)))
	}
	for i := 0; i < scn.Keys; i++ {
		k, v := key(i), val("old", i)
		if err := db.Put([]byte(k), []byte(v), nil); err != nil {
			c.Res.Violate("retry-compaction:put", err.Error(), scn)
			return
		}
		m[k] = v
	}
	leveldb.VerifWaitIdle(db)
	nlev := 0
	for _, l := range leveldb.VerifDump(db).Version.Levels {
		if len(l) > 0 {
			nlev++
		}
	}
	c.Res.Count("retry-compaction", fmt.Sprintf("levels-populated=%d", nlev))
	for i := 0; i < scn.Keys; i++ {
		switch r.Intn(3) {
		case 0:
			db.Delete([]byte(key(i)), nil)
			delete(m, key(i))
		case 1:
			v := val("new", i)
			db.Put([]byte(key(i)), []byte(v), nil)
			m[key(i)] = v
		}
	}
	// a level-0 table with the deletion markers: close and reopen
	db.Close()
	if db, err = leveldb.Open(st, o); err != nil {
		c.Res.Violate("retry-compaction:reopen", err.Error(), scn)
		return
	}
	if os.Getenv("VERIF_C08_RETRY_DEBUG") != "" {
		d := leveldb.VerifDump(db)
		var ls []int
		for _, l := range d.Version.Levels {
			ls = append(ls, len(l))
		}
		fmt.Fprintf(os.Stderr, "RETRY-DEBUG tables per level before the faulty compaction: %v\n", ls)
	}
	var seen, fired int32
	st.SetHooks(func(op stor.Op) stor.FaultMode {
		if op.Kind == stor.OpSync && op.Fd.Type == storage.TypeTable && int(atomic.AddInt32(&seen, 1)) == scn.FailSync {
			atomic.StoreInt32(&fired, 1)
			return stor.FailNoEffect
		}
		return stor.NoFault
	}, nil)
	cerr, hung := crCall(crWdTimeout*2, func() error { return db.CompactRange(util.Range{}) })
	st.SetHooks(nil, nil)
	if hung {
		c.Res.Violate("retry-compaction:hang", "CompactRange with one failing table Sync did not return\n"+blockedSummary(crGoroutines()), scn)
		c.Hung = true
		return
	}
	if cerr != nil {
		// the transient error may be reported; the compaction is retried in the background
		leveldb.VerifWaitIdle(db)
		crCall(crWdTimeout*2, func() error { return db.CompactRange(util.Range{}) })
	}
	c.Res.Eval(fmt.Sprintf("retry-compaction/%d", scn.Seed), atomic.LoadInt32(&fired) == 1)
	c.Res.Count("retry-compaction", fmt.Sprintf("fault-fired=%v compact-error=%v", atomic.LoadInt32(&fired) == 1, cerr != nil))
	check := func(when string) bool {
		got, err := crDumpDB(db)
		if err != nil {
			c.Res.Violate("retry-compaction:scan-error", when+": "+err.Error(), scn)
			return false
		}
		if d, ok := c11Equal(m, got); !ok {
			c.Res.Violate("retry-compaction:contents", fmt.Sprintf("%s, after a compaction that was retried once (table Sync #%d failed): %s", when, scn.FailSync, d), scn)
			return false
		}
		for i := 0; i < scn.Keys; i++ {
			g, err := db.Get([]byte(key(i)), nil)
			w, ok := m[key(i)]
			if (err == nil) != ok || (ok && string(g) != w) {
				c.Res.Violate("retry-compaction:get", fmt.Sprintf("%s: Get(%s) = %.24q, %v; plain map: present=%v %.24q", when, key(i), g, err, ok, w), scn)
				return false
			}
		}
		return true
	}
	if check("running DB") {
		db.Close()
		if db, err = leveldb.Open(st, o); err != nil {
			c.Res.Violate("retry-compaction:reopen", err.Error(), scn)
			return
		}
		check("after reopen")
	}
	db.Close()
}
