package checks

// C08 with concurrent writers: a journal failure hits a MERGED group.  Whatever the failed group's fate, every write
// acknowledged afterwards (and before) must be there after Close and reopen: the failed group consumes the sequence
// numbers of all its members, not only of its leader.

import (
	"bytes"
	"fmt"
	"sync"
	"sync/atomic"
	"time"

	"github.com/syndtr/goleveldb/leveldb"
	"github.com/syndtr/goleveldb/leveldb/opt"
	"github.com/syndtr/goleveldb/leveldb/storage"

	"verif/harness/gen"
	"verif/harness/rng"
	"verif/harness/stor"
)

type c08ConcSpec struct {
	Seed     uint64 `json:"seed"`
	Writers  int    `json:"writers"`
	Calls    int    `json:"calls"`
	FailSync int    `json:"failing_journal_sync"` // the k-th journal Sync fails (with effect: the record is in the file)
	Burst    int    `json:"burst"`
}

func c08ConcurrentFaults(c *Ctx, rounds int) {
	for i := 0; i < rounds && c.TimeLeft() && !c.Hung; i++ {
		r := c.R.Fork()
		sp := &c08ConcSpec{Seed: r.U64(), Writers: 3 + r.Intn(8), Calls: 15 + r.Intn(25), FailSync: 1 + r.Intn(12), Burst: 1 + r.Intn(2)}
		c.Guard("concurrent-faults", sp, func() { c08ConcRound(c, rng.New(sp.Seed), sp) })
	}
}

func c08ConcRound(c *Ctx, r *rng.R, sp *c08ConcSpec) {
	st := stor.New()
	st.KeepOps(false)
	st.Delay = func(k stor.Kind, fd storage.FileDesc) int {
		if fd.Type == storage.TypeJournal && (k == stor.OpWrite || k == stor.OpSync) {
			return 1 // a slow journal: the other writers queue up and are merged
		}
		return 0
	}
	var nsync, fired int32
	st.SetHooks(func(op stor.Op) stor.FaultMode {
		if op.Kind == stor.OpSync && op.Fd.Type == storage.TypeJournal {
			n := int(atomic.AddInt32(&nsync, 1))
			if n >= sp.FailSync && n < sp.FailSync+sp.Burst {
				atomic.AddInt32(&fired, 1)
				return stor.FailWithEffect
			}
		}
		return stor.NoFault
	}, nil)
	o := &opt.Options{WriteBuffer: 4 << 20}
	db, err := leveldb.Open(st, o)
	if err != nil {
		c.Res.Violate("concurrent-faults:open", err.Error(), sp)
		return
	}
	type acked struct{ key, val []byte }
	var mu sync.Mutex
	var ok []acked
	var nfail int32
	var wg sync.WaitGroup
	for w := 0; w < sp.Writers; w++ {
		wg.Add(1)
		go func(w int, rr *rng.R) {
			defer wg.Done()
			for i := 0; i < sp.Calls; i++ {
				k := []byte(fmt.Sprintf("w%02d-%03d", w, i))
				v := append([]byte(fmt.Sprintf("v%02d-%03d-", w, i)), gen.Value(rr, 30)...)
				wo := &opt.WriteOptions{Sync: rr.Chance(1, 2)}
				var err error
				if rr.Chance(1, 3) {
					b := new(leveldb.Batch)
					b.Put(k, v)
					err = db.Write(b, wo)
				} else {
					err = db.Put(k, v, wo)
				}
				if err == nil {
					mu.Lock()
					ok = append(ok, acked{k, v})
					mu.Unlock()
				} else {
					atomic.AddInt32(&nfail, 1)
				}
			}
		}(w, r.Fork())
	}
	done := make(chan struct{})
	go func() { wg.Wait(); close(done) }()
	select {
	case <-done:
	case <-time.After(90 * time.Second):
		c.Res.Violate("concurrent-faults:hang", "writers did not finish within 90 s\n"+blockedSummary(crGoroutines()), sp)
		c.Hung = true
		return
	}
	c.Res.Eval(fmt.Sprintf("concfault/%d", sp.Seed), atomic.LoadInt32(&fired) > 0 && atomic.LoadInt32(&nfail) > 0)
	c.Res.Count("concurrent-faults", fmt.Sprintf("fault-fired=%v failed-calls>1=%v", atomic.LoadInt32(&fired) > 0, atomic.LoadInt32(&nfail) > 1))
	check := func(d *leveldb.DB, when string) {
		for _, a := range ok {
			v, err := d.Get(a.key, nil)
			if err != nil || !bytes.Equal(v, a.val) {
				c.Res.Violate("concurrent-faults:acknowledged-write-lost", fmt.Sprintf("%s: the write of %s returned nil (the journal Sync #%d of another group had failed with the record in the file; %d calls failed), now Get = %.30q, %v", when, a.key, sp.FailSync, atomic.LoadInt32(&nfail), v, err), sp)
				return
			}
		}
	}
	check(db, "running DB")
	st.SetHooks(nil, nil)
	st.Delay = nil
	db.Close()
	db2, err := leveldb.Open(st.Clone(), o)
	if err != nil {
		c.Res.Violate("concurrent-faults:reopen", fmt.Sprintf("reopen after Close failed: %v", err), sp)
		return
	}
	check(db2, "after Close and reopen")
	db2.Close()
}
