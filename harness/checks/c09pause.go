package checks

// C09 scenario D: a lock competitor that has to wait for a table compaction (the level-0 count is at
// WriteL0PauseTrigger) while that compaction keeps failing: OpenTransaction and a batch larger than the write
// buffer return the transient error — and must give back what they had acquired, so that the calls issued once the
// failures stop return.

import (
	"bytes"
	"fmt"
	"runtime"
	"sync/atomic"
	"time"

	"github.com/syndtr/goleveldb/leveldb"
	"github.com/syndtr/goleveldb/leveldb/opt"
	"github.com/syndtr/goleveldb/leveldb/storage"

	"verif/harness/rng"
	"verif/harness/stor"
)

type c09PauseCfg struct {
	Seed  uint64 `json:"seed"`
	Pause int    `json:"pause_trigger"`
	Big   bool   `json:"large_batch_instead_of_opentransaction"`
}

func inTableCompaction() bool {
	buf := make([]byte, 16<<10)
	buf = buf[:runtime.Stack(buf, false)]
	return bytes.Contains(buf, []byte(".tableCompaction"))
}

func runC09Pause(c *Ctx, cfg c09PauseCfg) (sig, msg string) {
	r := rng.New(cfg.Seed)
	st := stor.New()
	st.KeepOps(false)
	var failing int32
	st.SetHooks(func(op stor.Op) stor.FaultMode {
		// table compactions cannot create their output; memdb flushes can
		if atomic.LoadInt32(&failing) == 1 && op.Kind == stor.OpCreate && op.Fd.Type == storage.TypeTable && inTableCompaction() {
			return stor.FailNoEffect
		}
		return stor.NoFault
	}, nil)
	wb := 1024
	o := &opt.Options{WriteBuffer: wb, CompactionL0Trigger: 2, WriteL0SlowdownTrigger: cfg.Pause, WriteL0PauseTrigger: cfg.Pause,
		DisableCompactionBackoff: true, CompactionTableSize: 4 << 10}
	db, err := leveldb.Open(st, o)
	if err != nil {
		return "open:error", err.Error()
	}
	atomic.StoreInt32(&failing, 1)
	val := func(n int) []byte { return bytes.Repeat([]byte{'v'}, n) }
	// overlapping keys so that the level-0 tables cannot be moved down trivially; stop at the first write that
	// reports the failing compaction (the writer waited for it at the pause trigger)
	reached := false
	for i := 0; i < 400 && !reached; i++ {
		err, ok := watch(20*time.Second, func() error { return db.Put([]byte(fmt.Sprintf("k%02d", r.Intn(20))), val(100+r.Intn(100)), nil) })
		if !ok {
			return "pause:put:hang", "Put at the pause trigger with a failing compaction did not return\n" + dumpBlocked()
		}
		reached = err != nil
	}
	c.Res.Count("pause", fmt.Sprintf("reached=%v", reached))
	if !reached {
		watch(20*time.Second, db.Close)
		return "", ""
	}
	var cerr error
	var ok bool
	if cfg.Big {
		b := new(leveldb.Batch)
		b.Put([]byte("big"), val(2*wb))
		cerr, ok = watch(30*time.Second, func() error { return db.Write(b, nil) })
	} else {
		cerr, ok = watch(30*time.Second, func() error {
			tr, err := db.OpenTransaction()
			if err == nil {
				tr.Discard()
			}
			return err
		})
	}
	if !ok {
		return "pause:lock-competitor:hang", "OpenTransaction / large Write waiting for a failing compaction did not return\n" + dumpBlocked()
	}
	c.Res.Count("pause", fmt.Sprintf("competitor-error=%v big=%v", cerr != nil, cfg.Big))
	atomic.StoreInt32(&failing, 0)
	for _, a := range []c09Call{
		{"put", func() error { return db.Put([]byte("after"), []byte("x"), nil) }},
		{"transaction", func() error {
			t, err := db.OpenTransaction()
			if err == nil {
				t.Discard()
			}
			return err
		}},
		{"get", func() error { _, err := db.Get([]byte("after"), nil); return err }},
	} {
		if _, ok := watch(30*time.Second, a.f); !ok {
			return "pause:" + a.name + "-after-failed-competitor:hang", fmt.Sprintf("after OpenTransaction/large Write returned %v at the pause trigger (compaction failing), %s issued once the failures stopped did not return within 30 s; locks: %+v\n%s", cerr, a.name, leveldb.VerifLocks(db), dumpBlocked())
		}
	}
	if _, ok := watch(30*time.Second, db.Close); !ok {
		return "pause:close:hang", "Close did not return\n" + dumpBlocked()
	}
	return "", ""
}
