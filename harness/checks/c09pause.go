package checks

// C09 scenario D: a lock competitor that has to wait for a table compaction (the level-0 count is at
// WriteL0PauseTrigger) while that compaction keeps failing: OpenTransaction and a batch larger than the write
// buffer return the transient error — and must give back what they had acquired, so that the calls issued once the
// failures stop return.

import (
	"bytes"
	"fmt"
	"runtime"
	"sync/atomic"
	"time"

	"github.com/syndtr/goleveldb/leveldb"
	"github.com/syndtr/goleveldb/leveldb/opt"
	"github.com/syndtr/goleveldb/leveldb/storage"

	"verif/harness/rng"
	"verif/harness/stor"
)

type c09PauseCfg struct {
	Seed  uint64 `json:"seed"`
	Pause int    `json:"pause_trigger"`
	Big   bool   `json:"large_batch_instead_of_opentransaction"`
}

func inTableCompaction() bool {
	buf := make([]byte, 16<<10)
	buf = buf[:runtime.Stack(buf, false)]
	return bytes.Contains(buf, []byte(".tableCompaction"))
}

func runC09Pause(c *Ctx, cfg c09PauseCfg) (sig, msg string) {
	r := rng.New(cfg.Seed)
	st := stor.New()
	st.KeepOps(false)
	var failing int32
	st.SetHooks(func(op stor.Op) stor.FaultMode {
		// table compactions cannot create their output; memdb flushes can
		if atomic.LoadInt32(&failing) == 1 && op.Kind == stor.OpCreate && op.Fd.Type == storage.TypeTable && inTableCompaction() {
			return stor.FailNoEffect
		}
		return stor.NoFault
	}, nil)
	wb := 1024
	o := &opt.Options{WriteBuffer: wb, CompactionL0Trigger: 2, WriteL0SlowdownTrigger: cfg.Pause, WriteL0PauseTrigger: cfg.Pause,
		DisableCompactionBackoff: true, CompactionTableSize: 4 << 10}
	db, err := leveldb.Open(st, o)
	if err != nil {
		return "open:error", err.Error()
	}
	atomic.StoreInt32(&failing, 1)
	val := func(n int) []byte { return bytes.Repeat([]byte{'v'}, n) }
	// overlapping keys so that the level-0 tables cannot be moved down trivially; stop at the first write that
	// reports the failing compaction (the writer waited for it at the pause trigger)
	reached := false
	for i := 0; i < 400 && !reached; i++ {
		err, ok := watch(20*time.Second, func() error { return db.Put([]byte(fmt.Sprintf("k%02d", r.Intn(20))), val(100+r.Intn(100)), nil) })
		if !ok {
			return "pause:put:hang", "Put at the pause trigger with a failing compaction did not return\n" + dumpBlocked()
		}
		reached = err != nil
	}
	c.Res.Count("pause", fmt.Sprintf("reached=%v", reached))
	if !reached {
		watch(20*time.Second, db.Close)
		return "", ""
	}
	var cerr error
	var ok bool
	if cfg.Big {
		b := new(leveldb.Batch)
		b.Put([]byte("big"), val(2*wb))
		cerr, ok = watch(30*time.Second, func() error { return db.Write(b, nil) })
	} else {
		cerr, ok = watch(30*time.Second, func() error {
			tr, err := db.OpenTransaction()
			if err == nil {
				tr.Discard()
			}
			return err
		})
	}
	if !ok {
		return "pause:lock-competitor:hang", "OpenTransaction / large Write waiting for a failing compaction did not return\n" + dumpBlocked()
	}
	c.Res.Count("pause", fmt.Sprintf("competitor-error=%v big=%v", cerr != nil, cfg.Big))
	atomic.StoreInt32(&failing, 0)
	for _, a := range []c09Call{
		{"put", func() error { return db.Put([]byte("after"), []byte("x"), nil) }},
		{"transaction", func() error {
			t, err := db.OpenTransaction()
			if err == nil {
				t.Discard()
			}
			return err
		}},
		{"get", func() error { _, err := db.Get([]byte("after"), nil); return err }},
	} {
		if _, ok := watch(30*time.Second, a.f); !ok {
			return "pause:" + a.name + "-after-failed-competitor:hang", fmt.Sprintf("after OpenTransaction/large Write returned %v at the pause trigger (compaction failing), %s issued once the failures stopped did not return within 30 s; locks: %+v\n%s", cerr, a.name, leveldb.VerifLocks(db), dumpBlocked())
		}
	}
	if _, ok := watch(30*time.Second, db.Close); !ok {
		return "pause:close:hang", "Close did not return\n" + dumpBlocked()
	}
	return "", ""
}

// scenario F: Close arrives while Transaction.Commit is retrying a failing manifest write (it sleeps holding
// compCommitLk) and a table compaction is waiting for that lock in its own commit.  Commit gives up with the
// error — and has to release the lock, otherwise the compaction goroutine never ends and Close waits for it forever.
func runC09CommitCloseRace(c *Ctx, seed uint64) (sig, msg string) {
	r := rng.New(seed)
	st := stor.New()
	st.KeepOps(false)
	o := &opt.Options{WriteBuffer: 1024, CompactionL0Trigger: 2, CompactionTableSize: 4 << 10, DisableLargeBatchTransaction: true}
	db, err := leveldb.Open(st, o)
	if err != nil {
		return "open:error", err.Error()
	}
	val := func(n int) []byte { return bytes.Repeat([]byte{'v'}, n) }
	// level-0 tables without compaction: table compactions are held back from now on
	gate := make(chan struct{})
	var gated, waiting int32
	st.Delay = func(k stor.Kind, fd storage.FileDesc) int {
		if atomic.LoadInt32(&gated) == 1 && k == stor.OpCreate && fd.Type == storage.TypeTable && inTableCompaction() {
			atomic.StoreInt32(&waiting, 1)
			<-gate
		}
		return 0
	}
	atomic.StoreInt32(&gated, 1)
	released := false
	release := func() {
		if !released {
			released = true
			close(gate)
		}
	}
	defer release()
	// level-0 tables through small transactions (no memdb flush is involved, which would have to pause the held compaction)
	for i := 0; i < 6 && atomic.LoadInt32(&waiting) == 0; i++ {
		err, ok := watch(20*time.Second, func() error {
			t, err := db.OpenTransaction()
			if err != nil {
				return err
			}
			t.Put([]byte(fmt.Sprintf("k%02d", r.Intn(20))), val(50), nil)
			return t.Commit()
		})
		if !ok || err != nil {
			release()
			go db.Close()
			c.Res.Count("commit-close", "setup-not-possible")
			return "", ""
		}
		time.Sleep(20 * time.Millisecond)
	}
	if atomic.LoadInt32(&waiting) == 0 {
		release()
		watch(20*time.Second, db.Close)
		c.Res.Count("commit-close", "compaction-not-reached")
		return "", ""
	}
	// the transaction: its Commit will fail on the manifest and retry once a second, holding compCommitLk
	var tr *leveldb.Transaction
	if err, ok := watch(20*time.Second, func() (err error) { tr, err = db.OpenTransaction(); return }); !ok || err != nil {
		release()
		go db.Close()
		c.Res.Count("commit-close", "opentx-not-possible")
		return "", ""
	}
	tr.Put([]byte("tx"), []byte("x"), nil)
	var failing int32 = 1
	st.SetHooks(func(op stor.Op) stor.FaultMode {
		if atomic.LoadInt32(&failing) == 1 && op.Fd.Type == storage.TypeManifest && (op.Kind == stor.OpWrite || op.Kind == stor.OpSync) {
			return stor.FailNoEffect
		}
		return stor.NoFault
	}, nil)
	commitDone := make(chan error, 1)
	go func() { commitDone <- tr.Commit() }()
	time.Sleep(150 * time.Millisecond) // first attempt failed, Commit sleeps with the lock
	release()                          // the compaction goes on to its own commit and waits for the lock
	time.Sleep(200 * time.Millisecond)
	c.Res.Count("commit-close", "close-during-commit-retry")
	if _, ok := watch(30*time.Second, db.Close); !ok {
		return "commit-retry:close:hang", "Close issued while Transaction.Commit was retrying a failing manifest write (holding compCommitLk) with a table compaction waiting for that lock did not return within 30 s\n" + dumpBlocked()
	}
	select {
	case <-commitDone:
	case <-time.After(30 * time.Second):
		return "commit-retry:commit:hang", "Transaction.Commit did not return after Close\n" + dumpBlocked()
	}
	atomic.StoreInt32(&failing, 0)
	return "", ""
}
